package rules

// C19 — replication state lookup by time terminates with the first state at or after t.
//
// Files: c19.go (registration, sensitivity suite, layout table, model), c19_scan.go and c19_cycles.go (M1, M2: loops and
// neighbour scans, decided on the CFG), c19_order.go, c19_order2.go, c19_roles.go (M6: classification of states by time in the binary search, its
// caller and the lower-bound finder), c19_complete.go (M7: completeness of the lower-bound finder), c19_exits.go (one-line predicates looked through,
// loops described by their exits), c19_probe.go (how the binary-search loop obtains its probed state: own fetch or probe helper), c19_fields.go (bounds held in struct
// fields), c19_order3.go (M6 walk following the classification into callees), c19_flow.go (M7: narrowing through a carrier variable), c19_interp_map.go (lookup tables in the evaluator), c19_interp.go (abstract evaluator), c19_eval.go (M3–M5: decision and
// formatting functions evaluated over their finite abstract domain), c19_variants.go (behaviour-preserving variants).
//
// Anchors. Everything is resolved from exported API and roles, never from the name or the place of an
// unexported function:
//   - the four exported methods of replication.Datasource with signature
//     (context.Context, time.Time) -> (K, *State, error), K a type with a Dir() method ("…StateAt"), and the
//     package-level functions of the same name;
//   - the search descriptor: the one struct type of the package with a field func(…, uint64) (*State, error)
//     ("the state fetch"), a field func(…) (*State, error) ("the current state") and an integer field (the minimum
//     sequence number), today `stater`;
//   - the search: the outermost function(s) reachable from the lookups that take the descriptor (today
//     `searchTimestamp`), and everything statically reachable from the lookups inside the package;
//   - the binary-search loop: a `for` kept running by a comparison of the SeqNum of two state variables; its
//     neighbour scans: `for` loops with a state fetch, nested in it or inside functions it calls;
//   - exported Datasource methods classified by signature (state / data / current-state fetchers);
//   - State.SeqNum, UnexpectedStatusCodeError.Code, NotFound, the Dir methods (all exported);
//   - net/http request construction and (*http.Client).Do / Get as the boundary of the evaluation.
//
// Floors count things a refactoring cannot change: exported functions, table entries, the two scan directions
// with their five facets; M1's floor (4) is the binary-search loop, the bound-finding loop and one scan with two
// condition parts, i.e. what is left when both scans share one loop.

import (
	"encoding/json"
	"fmt"
	"go/ast"
	"go/token"
	"go/types"
	"os"
	"path/filepath"
	"sort"
	"strings"

	"golang.org/x/tools/go/packages"

	"osmcheck/core"
)

const c19Pkg = core.ModulePath + "/replication"

func init() {
	register(&core.Property{
		ID:    "C19",
		Title: "Replication state lookup by time terminates with the first state at or after t",
		Explanation: "Necessary conditions, decided on package replication for everything statically reachable from the four (*Datasource).…StateAt lookups. " +
			"(M1) every atomic part of what keeps a `for` loop running (its condition and the negated guards of leading `if … { break/return }`) depends on a variable the loop body assigns (a loop-invariant part bounds nothing); a `for { … }` that has neither is described by its exits (return / own break) instead: it has one, and every atomic condition of the enclosing ifs an exit is taken under depends on a variable the body assigns; range loops run over finite values. " +
			"(M2) for the binary-search loop (kept running by lo.SeqNum… < hi.SeqNum, obtaining one probed state per iteration by a fetch of the middle in its body or through a probe helper, a function that makes that fetch outside any loop and may hold the scans) and each neighbour scan over missing state files (a `for` with one state fetch, nested in the loop or in a function it calls; the fetch is recognised through wrapper functions): when the middle is found no scan runs; the scanned variable starts one step from the probed middle, is the variable probed, is stepped once, after the probe, in the direction of its start on every way round the loop that found nothing; the probe is controlled inside the loop by a comparison that is `lo.SeqNum < v` (down) / `v < hi.SeqNum` (up) in integer normal form (an off-by-one in either direction is reported); once a state is found neither the same probe nor another scan is reachable (CFG walk with the nil tests decided); both directions exist; and when every probe of one iteration finds nothing the only way on is `return hi`, like every other success return reachable from the loop. So every probe lies strictly between the bounds, the neighbours next to both bounds are probed, and a scan costs at most one request per missing file. " +
			"(M3) evaluated over kind × sequence number × HTTP status × error: every exported state/data/current-state fetcher requests, as its first request, exactly the URL tables/replication.json gives (path format, three zero-padded decimal digit groups, suffix per file kind, current-state file for sequence number 0, base URL of its own datasource); Dir() values; the function the state decoders parse timestamps with returns the right instant for the planet's timestamp forms (escaped colons); NotFound is true exactly for a status error with code 404; with a 404 response every state/data fetcher returns an error satisfying NotFound, with 500/403 an error that does not, with 200 no status error. " +
			"(M4) changeset state off-by-one, evaluated: the current state reports the parsed `sequence:` value +1 (and returns that number), a numbered state reports the number requested. " +
			"(M5) evaluated: each lookup and its package-level delegate calls the search exactly once with the caller's ctx and timestamp, returns the state found together with K(state.SeqNum) of its own kind, propagates the error; the descriptor's functions request the current/numbered state files of the lookup's own kind on the lookup's own datasource (the default datasource for the delegates); the minimum sequence number is a constant equal to the least sequence number a replication directory can hold (tables/replication.json first_sequence, 1 when absent): the search takes State(Min) for the lowest state of the directory (it returns it when it is at or after t and never probes below it), which holds for every directory only then. " +
			"(M6) in the binary-search loop the probed state is classified by time as the result demands. Read off the code: every success return reachable from the loop gives the upper bound, the lower bound is never returned, so the upper bound is the candidate answer (must be at or after t) and the lower bound is exclusive (must be strictly before t). For each of the three orderings of the probed state's timestamp and the query time (<, ==, >) the CFG is walked from the probe with every comparison of the two instants decided (After/Before/Equal/Compare of time.Time in any spelling, negations, inverted or swapped branches, switch forms, one-line predicates): a state before t becomes the lower and never the upper bound, a state exactly at t or after t becomes the upper and never the lower bound (a state written exactly at t that becomes the lower bound is lost: the lookup answers with the next one). " +
			"M6 also covers the code around the loop, with roles taken from dataflow (caller = the function handing the two bounds to the binary search, finder = the function whose results the caller assigns to both bounds at once): in the caller, for every value the lower-bound variable is given (the minimum state, the finder's result), `return lower` is unreachable when lower is before t and the binary search is unreachable when lower is at or after t; in the finder a probed state before t never becomes or is handed back as the upper bound, a probed state at or after t becomes the upper bound (or leaves through an answer exit), and a state exactly at t reaches the same updates and returns as a state after t. " +
			"(M7) the finder, which runs when the minimum state file is missing, is complete: after a probe that found no file the cursor moves by single steps only (narrow-on-missing); the same holds through a carrier: a cursor write anywhere in the loop that reads a variable or struct field given, under a 404, a value derived from the cursor, and not recomputed between the probe and the write, is a narrowing on missing under its own construct (`… via <carrier>`), and an exit that concludes that nothing lower qualifies (a success return after a probe that found no file, returns-upper; a probed state at or after t handed back as first result, returns-probed) is accepted only for an exhaustive ascending scan (every cursor write in the loop a +1 step; for returns-upper the cursor has reached the upper bound). The pinned tree bisects on missing files and violates all three constructs: that is a known finding (known_findings.jsonl), correct only when the missing files form a prefix of the directory; any further site is reported under another construct and fails. " +
			"The two bounds may be state variables or fields of a struct that methods read and update, in the binary search (which may itself be a method of that struct) as well as in its caller (the finder's results may be assigned into the fields) (the loop condition, the middle, the classification and the probe may be methods of it; one range value per search is assumed); the classification is followed into the function that updates the bounds. " +
			"The verdicts do not depend on how the code is cut into helpers, on if/switch/early-return form, on local names, named constants or statement order. " +
			"NOT decided: the logarithmic request bound, which state is returned for which timestamp beyond M6/M7 (states with equal timestamps, non-monotone server timestamps), termination of the finder beyond M1, monotonicity of server timestamps, HTTP transport behaviour, parsing of malformed state files, the decoding of interval state files (evaluation stops at their line loop), sequence numbers of 10^9 and more.",
		Assumptions: []string{"go/types, go/cfg (x/tools v0.29.0)", "tables/replication.json is the planet server's layout", "the abstract evaluator of rules/c19_interp.go implements the semantics of the Go subset it accepts (anything outside it is reported as undecided); fmt.Sprintf, strconv formatting and time.Parse of the checker's Go toolchain are the ones the library is built with (they are applied to the library's constants and the table's samples; the library itself is neither compiled nor run)", "a function of the package that makes exactly one state fetch outside any loop with an unmodified parameter as sequence number is a fetch of that argument (its error handling is not part of M2)"},
		LevelText:   "Necessary conditions of termination and of the planet layout. Structural (CFG, guard facts, integer normal form of comparisons): loop conditions depend on what their bodies vary; neighbour scans start next to the middle, step the probed variable once after the probe, are bounded strictly by the bound they walk towards, stop at the first state found, and an iteration that finds nothing returns the upper bound. By exhaustive evaluation over a finite abstract domain: URLs, Dir values, timestamp layouts, the 404 decision and status propagation equal the external layout table; the changeset off-by-one correction; each lookup serves its own kind on its own datasource. Structural, over the three orderings of probed timestamp and query time: the binary search moves its exclusive lower bound only to states strictly before t and its returned upper bound only to states at or after t. The same classification is checked in the caller (lower returned only when at or after t, binary search entered only when before t) and in the lower-bound finder; the finder's completeness over missing files is a rule of its own whose violation on the pinned tree is recorded as a known finding. The logarithmic bound is not decided.",
		LevelNote:   "Trusts the Go type checker (constant evaluation, callee resolution), go/cfg, the layout table, the abstract evaluator (c19_interp.go) and fmt/strconv/time.Parse for evaluating constants. Static call reachability inside package replication (function references, including inside closures). URL digit groups are checked on 10 sample numbers below 10^9, not symbolically.",
		Technique:   "loop-variance analysis over guard facts; role-derived scan model decided on the CFG (three-valued evaluation of branch conditions under `state == nil` valuations, linear normal form of comparisons, parameters read as caller arguments); abstract evaluation (path-exploring interpreter over go/types-resolved syntax, opaque values with ±constant identity) of formatting and decision functions against an external layout table",
		DesignRef:   "DESIGN.md §5 C19, Appendix D; ROBUSTNESS.md",
		Rules: []*core.Rule{
			{ID: "M1", Floor: 4, Doc: "every atomic part of what keeps a loop reachable from the …StateAt lookups running depends on a variable the loop body assigns", Run: c19M1},
			{ID: "M2", Floor: 12, Doc: "neighbour scans over missing state files: start next to the middle, probe the stepped variable, one step after the probe, strict bound in normal form, stop at the first state, both directions, nothing found = upper bound", Run: c19M2},
			{ID: "M3", Floor: 28, Doc: "planet replication layout, by evaluation: URL requested per exported fetcher (12), Dir() values (4), timestamp forms (3), NotFound decision (1), status propagation per state/data fetcher (8)", Run: c19M3},
			{ID: "M4", Floor: 2, Doc: "changeset state off-by-one, by evaluation: current state reports the parsed sequence +1, numbered state reports the requested number", Run: c19M4},
			{ID: "M5", Floor: 16, Doc: "the four …StateAt lookups and their package-level delegates, by evaluation: one search with the caller's arguments, own kind and own datasource, minimum = the least sequence number a directory can hold, result returned with its own number", Run: c19M5},
			{ID: "M6", Floor: 2, Doc: "the binary search classifies a probed state by time as its result demands: only a state strictly before t becomes the exclusive lower bound, a state at or after t becomes the upper bound (the value returned), decided for the three orderings of the two instants", Run: c19M6},
			{ID: "M7", Floor: 3, Doc: "the lower-bound search run when the minimum state file is missing is complete: after a probe that found no file the cursor moves by single steps only, and an exit that concludes nothing lower qualifies is reached only by an exhaustive ascending scan (violated on the pinned tree: known finding)", Run: c19M7},
		},
		Mutants: c19Mutants,
		Benign:  c19Benign,
	})
}

// c19Mutants. D10 (inner scan conditions test the loop-invariant splitID) makes M1 conjunct 2 and
// M2 bound fire on the unrepaired tree; mutants named …-pre match the unrepaired text of those two
// conditions, …-post the repaired text (`lower.SeqNum < sID`, `sID < upper.SeqNum`). Whichever
// does not apply is reported as skipped and not counted.
var c19Mutants = []core.Mutant{
	// M1
	{Name: "m1-outer-loop-invariant", File: "replication/search.go", Find: "\tfor lower.SeqNum+1 < upper.SeqNum {\n", Replace: "\tlo0, hi0 := lower, upper\n\tfor lo0.SeqNum+1 < hi0.SeqNum {\n", ExpectRule: "M1", ExpectConstruct: "loop@findInRange[1] conjunct 1"},
	{Name: "m1-scan-found-test-invariant-pre", File: "replication/search.go", Find: "for split == nil && lower.SeqNum < splitID {", Replace: "for lower != nil && lower.SeqNum < splitID {", ExpectRule: "M1", ExpectConstruct: "loop@findInRange[1.1] conjunct 1"},
	{Name: "m1-scan-found-test-invariant-post", File: "replication/search.go", Find: "for split == nil && lower.SeqNum < sID {", Replace: "for lower != nil && lower.SeqNum < sID {", ExpectRule: "M1", ExpectConstruct: "loop@findInRange[1.1] conjunct 1"},
	{Name: "m1-down-bound-static-pre", File: "replication/search.go", Find: "lower.SeqNum < splitID {", Replace: "lower.SeqNum < upper.SeqNum {", ExpectRule: "M1", ExpectConstruct: "loop@findInRange[1.1] conjunct 2"},
	{Name: "m1-down-bound-static-post", File: "replication/search.go", Find: "lower.SeqNum < sID {", Replace: "lower.SeqNum < splitID {", ExpectRule: "M1", ExpectConstruct: "loop@findInRange[1.1] conjunct 2"},
	{Name: "m1-up-bound-static-post", File: "replication/search.go", Find: "sID < upper.SeqNum {", Replace: "splitID < upper.SeqNum {", ExpectRule: "M1", ExpectConstruct: "loop@findInRange[1.2] conjunct 2"},
	{Name: "m1-exit-guard-invariant", File: "replication/search.go", Find: "\t\t\tfor split == nil && lower.SeqNum < sID {\n\t\t\t\tsplit, err = s.State(ctx, sID)\n\t\t\t\tif err != nil && !NotFound(err) {\n\t\t\t\t\treturn nil, err\n\t\t\t\t}\n\n\t\t\t\tsID--\n\t\t\t}\n", Replace: "\t\t\tfor {\n\t\t\t\tsplit, err = s.State(ctx, sID)\n\t\t\t\tif err != nil && !NotFound(err) {\n\t\t\t\t\treturn nil, err\n\t\t\t\t}\n\n\t\t\t\tsID--\n\t\t\t\tif split != nil {\n\t\t\t\t\tbreak\n\t\t\t\t}\n\t\t\t\tif lower.SeqNum >= splitID {\n\t\t\t\t\tbreak\n\t\t\t\t}\n\t\t\t}\n", ExpectRule: "M1", ExpectConstruct: "loop@findInRange[1.1] exit 3 conjunct 1"},
	// M2
	{Name: "m2-probe-not-stepped", File: "replication/search.go", Find: "split, err = s.State(ctx, sID)", Replace: "split, err = s.State(ctx, splitID)", ExpectRule: "M2", ExpectConstruct: "scan-down@findInRange probe"},
	{Name: "m2-step-wrong-way", File: "replication/search.go", Find: "\t\t\t\tsID--\n", Replace: "\t\t\t\tsID++\n", ExpectRule: "M2", ExpectConstruct: "scan-down@findInRange step"},
	{Name: "m2-step-before-probe", File: "replication/search.go", Find: "\t\t\t\tsplit, err = s.State(ctx, sID)\n\t\t\t\tif err != nil && !NotFound(err) {\n\t\t\t\t\treturn nil, err\n\t\t\t\t}\n\n\t\t\t\tsID++\n", Replace: "\t\t\t\tsID++\n\t\t\t\tsplit, err = s.State(ctx, sID)\n\t\t\t\tif err != nil && !NotFound(err) {\n\t\t\t\t\treturn nil, err\n\t\t\t\t}\n", ExpectRule: "M2", ExpectConstruct: "scan-up@findInRange start"},
	{Name: "m2-both-scans-down", File: "replication/search.go", Find: "sID := splitID + 1", Replace: "sID := splitID - 1", ExpectRule: "M2", ExpectConstruct: "both directions"},
	{Name: "m2-up-scan-no-stop-pre", File: "replication/search.go", Find: "for split == nil && splitID < upper.SeqNum {", Replace: "for splitID < upper.SeqNum {", ExpectRule: "M2", ExpectConstruct: "scan-up@findInRange stop"},
	{Name: "m2-up-scan-no-stop-post", File: "replication/search.go", Find: "for split == nil && sID < upper.SeqNum {", Replace: "for sID < upper.SeqNum {", ExpectRule: "M2", ExpectConstruct: "scan-up@findInRange stop"},
	{Name: "m2-down-bound-nonstrict-pre", File: "replication/search.go", Find: "lower.SeqNum < splitID {", Replace: "lower.SeqNum <= splitID {", ExpectRule: "M2", ExpectConstruct: "scan-down@findInRange bound"},
	{Name: "m2-down-bound-nonstrict-post", File: "replication/search.go", Find: "lower.SeqNum < sID {", Replace: "lower.SeqNum <= sID {", ExpectRule: "M2", ExpectConstruct: "scan-down@findInRange bound"},
	{Name: "m2-up-bound-wrong-bound-pre", File: "replication/search.go", Find: "splitID < upper.SeqNum {", Replace: "splitID > lower.SeqNum {", ExpectRule: "M2", ExpectConstruct: "scan-up@findInRange bound"},
	{Name: "m2-up-bound-wrong-bound-post", File: "replication/search.go", Find: "sID < upper.SeqNum {", Replace: "sID > lower.SeqNum {", ExpectRule: "M2", ExpectConstruct: "scan-up@findInRange bound"},
	{Name: "m2-up-bound-invariant-post", File: "replication/search.go", Find: "sID < upper.SeqNum {", Replace: "splitID < upper.SeqNum {", ExpectRule: "M2", ExpectConstruct: "scan-up@findInRange bound"},
	{Name: "m2-exhausted-returns-nil-pre", File: "replication/search.go", Find: "// still nothing\n\t\t\treturn lower, nil", Replace: "// still nothing\n\t\t\treturn split, nil", ExpectRule: "M2", ExpectConstruct: "scans@findInRange exhausted"},
	{Name: "m2-exhausted-returns-lower-post", File: "replication/search.go", Find: "// the first state at or after the timestamp.\n\t\t\treturn upper, nil", Replace: "// the first state at or after the timestamp.\n\t\t\treturn lower, nil", ExpectRule: "M2", ExpectConstruct: "scans@findInRange exhausted"},
	{Name: "m2-final-returns-lower", File: "replication/search.go", Find: "we want to return the upper.\n\treturn upper, nil", Replace: "we want to return the upper.\n\treturn lower, nil", ExpectRule: "M2", ExpectConstruct: "scans@findInRange exhausted"},
	{Name: "m2-down-bound-one-short", File: "replication/search.go", Find: "lower.SeqNum < sID {", Replace: "lower.SeqNum+1 < sID {", ExpectRule: "M2", ExpectConstruct: "scan-down@findInRange bound"},
	{Name: "m2-up-bound-one-short", File: "replication/search.go", Find: "sID < upper.SeqNum {", Replace: "sID+1 < upper.SeqNum {", ExpectRule: "M2", ExpectConstruct: "scan-up@findInRange bound"},
	{Name: "m2-exhausted-no-return", File: "replication/search.go", Find: "\t\tif split == nil {\n\t\t\t// nothing between lower and upper, so upper is\n\t\t\t// the first state at or after the timestamp.\n\t\t\treturn upper, nil\n\t\t}\n", Replace: "", ExpectRule: "M2", ExpectConstruct: "scans@findInRange exhausted"},
	{Name: "m2-exhausted-continues", File: "replication/search.go", Find: "// the first state at or after the timestamp.\n\t\t\treturn upper, nil", Replace: "// the first state at or after the timestamp.\n\t\t\tcontinue", ExpectRule: "M2", ExpectConstruct: "scans@findInRange exhausted"},
	{Name: "m2-step-only-when-found", File: "replication/search.go", Find: "\t\t\t\tsID--\n", Replace: "\t\t\t\tif split != nil {\n\t\t\t\t\tsID--\n\t\t\t\t}\n", ExpectRule: "M2", ExpectConstruct: "scan-down@findInRange step"},
	{Name: "m2-down-bound-stale-copy", File: "replication/search.go", Find: "\tfor lower.SeqNum+1 < upper.SeqNum {\n\t\t// could do better here\n\t\tsplitID := (lower.SeqNum + upper.SeqNum) / 2\n\n\t\tsplit, err := s.State(ctx, splitID)\n\t\tif err != nil && !NotFound(err) {\n\t\t\treturn nil, err\n\t\t}\n\n\t\tif split == nil {\n\t\t\t// file missing, search the next towards lower\n\t\t\tsID := splitID - 1\n\n\t\t\tfor split == nil && lower.SeqNum < sID {", Replace: "\tlo := lower.SeqNum\n\tfor lower.SeqNum+1 < upper.SeqNum {\n\t\t// could do better here\n\t\tsplitID := (lower.SeqNum + upper.SeqNum) / 2\n\n\t\tsplit, err := s.State(ctx, splitID)\n\t\tif err != nil && !NotFound(err) {\n\t\t\treturn nil, err\n\t\t}\n\n\t\tif split == nil {\n\t\t\t// file missing, search the next towards lower\n\t\t\tsID := splitID - 1\n\n\t\t\tfor split == nil && lo < sID {", ExpectRule: "M2", ExpectConstruct: "scan-down@findInRange bound"},
	{Name: "m2-prestep-bound-not-shifted", File: "replication/search.go", Find: "\t\t\tsID := splitID - 1\n\n\t\t\tfor split == nil && lower.SeqNum < sID {\n\t\t\t\tsplit, err = s.State(ctx, sID)\n\t\t\t\tif err != nil && !NotFound(err) {\n\t\t\t\t\treturn nil, err\n\t\t\t\t}\n\n\t\t\t\tsID--\n\t\t\t}\n", Replace: "\t\t\tsID := splitID\n\n\t\t\tfor split == nil && lower.SeqNum < sID {\n\t\t\t\tsID--\n\t\t\t\tsplit, err = s.State(ctx, sID)\n\t\t\t\tif err != nil && !NotFound(err) {\n\t\t\t\t\treturn nil, err\n\t\t\t\t}\n\t\t\t}\n", ExpectRule: "M2", ExpectConstruct: "scan-down@findInRange bound"},
	{Name: "m2-scan-overwrites-found-state", File: "replication/search.go", Find: "\t\t\tsID := splitID - 1\n\n\t\t\tfor split == nil && lower.SeqNum < sID {\n\t\t\t\tsplit, err = s.State(ctx, sID)\n\t\t\t\tif err != nil && !NotFound(err) {\n\t\t\t\t\treturn nil, err\n\t\t\t\t}\n\n\t\t\t\tsID--\n\t\t\t}\n", Replace: "\t\t\tsID := splitID - 1\n\n\t\t\tfor lower.SeqNum < sID {\n\t\t\t\tst, err := s.State(ctx, sID)\n\t\t\t\tif err != nil && !NotFound(err) {\n\t\t\t\t\treturn nil, err\n\t\t\t\t}\n\n\t\t\t\tsplit = st\n\t\t\t\tsID--\n\t\t\t}\n", ExpectRule: "M2", ExpectConstruct: "scan-down@findInRange stop"},
	// M6
	{Name: "m6-equal-becomes-lower-seeded", File: "replication/search.go", Find: "\t\tif timestamp.After(split.Timestamp) {\n\t\t\tlower = split\n\t\t} else {\n\t\t\tupper = split\n\t\t}\n", Replace: "\t\tif split.Timestamp.After(timestamp) {\n\t\t\tupper = split\n\t\t} else {\n\t\t\tlower = split\n\t\t}\n", ExpectRule: "M6", ExpectConstruct: "order@findInRange lower"},
	{Name: "m6-equal-becomes-lower-not-before", File: "replication/search.go", Find: "\t\tif timestamp.After(split.Timestamp) {\n\t\t\tlower = split\n\t\t} else {\n\t\t\tupper = split\n\t\t}\n", Replace: "\t\tif !timestamp.Before(split.Timestamp) {\n\t\t\tlower = split\n\t\t} else {\n\t\t\tupper = split\n\t\t}\n", ExpectRule: "M6", ExpectConstruct: "order@findInRange lower"},
	{Name: "m6-equal-becomes-lower-compare", File: "replication/search.go", Find: "\t\tif timestamp.After(split.Timestamp) {\n\t\t\tlower = split\n\t\t} else {\n\t\t\tupper = split\n\t\t}\n", Replace: "\t\tif timestamp.Compare(split.Timestamp) >= 0 {\n\t\t\tlower = split\n\t\t} else {\n\t\t\tupper = split\n\t\t}\n", ExpectRule: "M6", ExpectConstruct: "order@findInRange lower"},
	{Name: "m6-branches-swapped", File: "replication/search.go", Find: "\t\tif timestamp.After(split.Timestamp) {\n\t\t\tlower = split\n\t\t} else {\n\t\t\tupper = split\n\t\t}\n", Replace: "\t\tif timestamp.After(split.Timestamp) {\n\t\t\tupper = split\n\t\t} else {\n\t\t\tlower = split\n\t\t}\n", ExpectRule: "M6", ExpectConstruct: "order@findInRange upper"},
	{Name: "m6-equal-updates-nothing", File: "replication/search.go", Find: "\t\tif timestamp.After(split.Timestamp) {\n\t\t\tlower = split\n\t\t} else {\n\t\t\tupper = split\n\t\t}\n", Replace: "\t\tif timestamp.After(split.Timestamp) {\n\t\t\tlower = split\n\t\t} else if split.Timestamp.After(timestamp) {\n\t\t\tupper = split\n\t\t}\n", ExpectRule: "M6", ExpectConstruct: "order@findInRange upper"},
	// M6 outside the binary-search loop (the first two are the defects repaired by a0304e9 and 580c050)
	{Name: "m6-finder-equal-is-lower-prefix", File: "replication/search.go", Find: "lower != nil && !timestamp.After(lower.Timestamp)", Replace: "lower != nil && lower.Timestamp.After(timestamp)", ExpectRule: "M6", ExpectConstruct: "order@findBound lower"},
	{Name: "m6-caller-adjacent-edge-prefix", File: "replication/search.go", Find: "\tif !timestamp.After(lower.Timestamp) {\n\t\t// the lowest state is already at or after the timestamp.\n\t\treturn lower, nil\n\t}\n", Replace: "\tif lower.SeqNum+1 >= upper.SeqNum {\n\t\treturn lower, nil // edge case if there are only one or two sequence numbers\n\t}\n", ExpectRule: "M6", ExpectConstruct: "order@searchTimestamp answer"},
	{Name: "m6-finder-equal-is-lower-before", File: "replication/search.go", Find: "lower != nil && !timestamp.After(lower.Timestamp)", Replace: "lower != nil && timestamp.Before(lower.Timestamp)", ExpectRule: "M6", ExpectConstruct: "order@findBound lower"},
	{Name: "m6-finder-before-becomes-upper", File: "replication/search.go", Find: "lower != nil && !timestamp.After(lower.Timestamp)", Replace: "lower != nil && timestamp.After(lower.Timestamp)", ExpectRule: "M6", ExpectConstruct: "order@findBound upper"},
	{Name: "m6-finder-never-upper", File: "replication/search.go", Find: "lower != nil && !timestamp.After(lower.Timestamp)", Replace: "lower != nil && lower.SeqNum == 0", ExpectRule: "M6", ExpectConstruct: "order@findBound upper"},
	{Name: "m6-caller-guard-removed", File: "replication/search.go", Find: "\tif !timestamp.After(lower.Timestamp) {\n\t\t// the lowest state is already at or after the timestamp.\n\t\treturn lower, nil\n\t}\n", Replace: "", ExpectRule: "M6", ExpectConstruct: "order@searchTimestamp enter"},
	{Name: "m6-caller-guard-strict", File: "replication/search.go", Find: "\tif !timestamp.After(lower.Timestamp) {\n\t\t// the lowest state is already at or after the timestamp.\n\t\treturn lower, nil\n\t}\n", Replace: "\tif lower.Timestamp.After(timestamp) {\n\t\treturn lower, nil\n\t}\n", ExpectRule: "M6", ExpectConstruct: "order@searchTimestamp enter"},
	{Name: "m6-caller-guard-inverted", File: "replication/search.go", Find: "\tif !timestamp.After(lower.Timestamp) {\n\t\t// the lowest state is already at or after the timestamp.\n\t\treturn lower, nil\n\t}\n", Replace: "\tif timestamp.After(lower.Timestamp) {\n\t\treturn lower, nil\n\t}\n", ExpectRule: "M6", ExpectConstruct: "order@searchTimestamp answer"},
	// M7 (the pinned tree itself violates M7 under the three known constructs; these add further sites)
	{Name: "m7-second-narrowing-site", File: "replication/search.go", Find: "\t\tlowerID = newID\n", Replace: "\t\tlowerID = newID\n\t\tif lowerID < upper.SeqNum/4 {\n\t\t\tlowerID = upper.SeqNum / 4\n\t\t}\n", ExpectRule: "M7", ExpectConstruct: "narrow-on-missing@findBound#2"},
	{Name: "m7-second-give-up", File: "replication/search.go", Find: "\t\t// no lower yet, so try a higher id (binary search wise)\n", Replace: "\t\tif lowerID > 1000 {\n\t\t\treturn upper, upper, nil\n\t\t}\n\t\t// no lower yet, so try a higher id (binary search wise)\n", ExpectRule: "M7", ExpectConstruct: "give-up@findBound returns-upper#2"},
	// defects seeded into the helper form (probe of the middle and neighbour scans in one function)
	{Name: "m2-helper-scan-bound-one-short", File: "replication/search.go", Find: "func findInRange(ctx context.Context, s *stater, lower, upper *State, timestamp time.Time) (*State, error) {\n\t// we do a binary search through the range to find the sequence number\n\tfor lower.SeqNum+1 < upper.SeqNum {\n\t\t// could do better here\n\t\tsplitID := (lower.SeqNum + upper.SeqNum) / 2\n\n\t\tsplit, err := s.State(ctx, splitID)\n\t\tif err != nil && !NotFound(err) {\n\t\t\treturn nil, err\n\t\t}\n\n\t\tif split == nil {\n\t\t\t// file missing, search the next towards lower\n\t\t\tsID := splitID - 1\n\n\t\t\tfor split == nil && lower.SeqNum < sID {\n\t\t\t\tsplit, err = s.State(ctx, sID)\n\t\t\t\tif err != nil && !NotFound(err) {\n\t\t\t\t\treturn nil, err\n\t\t\t\t}\n\n\t\t\t\tsID--\n\t\t\t}\n\t\t}\n\n\t\tif split == nil {\n\t\t\t// still missing? search the next towards upper\n\t\t\tsID := splitID + 1\n\n\t\t\tfor split == nil && sID < upper.SeqNum {\n\t\t\t\tsplit, err = s.State(ctx, sID)\n\t\t\t\tif err != nil && !NotFound(err) {\n\t\t\t\t\treturn nil, err\n\t\t\t\t}\n\n\t\t\t\tsID++\n\t\t\t}\n\t\t}\n\n\t\tif split == nil {\n\t\t\t// nothing between lower and upper, so upper is\n\t\t\t// the first state at or after the timestamp.\n\t\t\treturn upper, nil\n\t\t}\n\n\t\t// set the new boundary\n\t\tif timestamp.After(split.Timestamp) {\n\t\t\tlower = split\n\t\t} else {\n\t\t\tupper = split\n\t\t}\n\t}\n\n\t// timestamp is now between lower and upper, we want to return the upper.\n\treturn upper, nil\n}\n", Replace: "func findInRange(ctx context.Context, s *stater, lower, upper *State, timestamp time.Time) (*State, error) {\n\t// we do a binary search through the range to find the sequence number\n\tfor lower.SeqNum+1 < upper.SeqNum {\n\t\t// could do better here\n\t\tsplitID := (lower.SeqNum + upper.SeqNum) / 2\n\n\t\tsplit, err := nearestState(ctx, s, lower.SeqNum, splitID, upper.SeqNum)\n\t\tif err != nil {\n\t\t\treturn nil, err\n\t\t}\n\n\t\tif split == nil {\n\t\t\t// nothing between lower and upper, so upper is\n\t\t\t// the first state at or after the timestamp.\n\t\t\treturn upper, nil\n\t\t}\n\n\t\t// set the new boundary\n\t\tif timestamp.After(split.Timestamp) {\n\t\t\tlower = split\n\t\t} else {\n\t\t\tupper = split\n\t\t}\n\t}\n\n\t// timestamp is now between lower and upper, we want to return the upper.\n\treturn upper, nil\n}\n\n// nearestState returns the state at splitID or, if that file is missing, the first available one stepping\n// down towards lowerID and after that stepping up towards upperID, both exclusive.\nfunc nearestState(ctx context.Context, s *stater, lowerID, splitID, upperID uint64) (*State, error) {\n\tsplit, err := s.State(ctx, splitID)\n\tif err != nil && !NotFound(err) {\n\t\treturn nil, err\n\t}\n\tif split != nil {\n\t\treturn split, nil\n\t}\n\n\t// file missing, search the next towards lower\n\tfor id := splitID - 1; lowerID+1 < id; id-- {\n\t\tsplit, err = s.State(ctx, id)\n\t\tif err != nil && !NotFound(err) {\n\t\t\treturn nil, err\n\t\t}\n\t\tif split != nil {\n\t\t\treturn split, nil\n\t\t}\n\t}\n\n\t// still missing? search the next towards upper\n\tfor id := splitID + 1; id < upperID; id++ {\n\t\tsplit, err = s.State(ctx, id)\n\t\tif err != nil && !NotFound(err) {\n\t\t\treturn nil, err\n\t\t}\n\t\tif split != nil {\n\t\t\treturn split, nil\n\t\t}\n\t}\n\n\treturn nil, nil\n}\n", ExpectRule: "M2", ExpectConstruct: "scan-down@findInRange bound"},
	{Name: "m2-helper-returns-on-first-404", File: "replication/search.go", Find: "func findInRange(ctx context.Context, s *stater, lower, upper *State, timestamp time.Time) (*State, error) {\n\t// we do a binary search through the range to find the sequence number\n\tfor lower.SeqNum+1 < upper.SeqNum {\n\t\t// could do better here\n\t\tsplitID := (lower.SeqNum + upper.SeqNum) / 2\n\n\t\tsplit, err := s.State(ctx, splitID)\n\t\tif err != nil && !NotFound(err) {\n\t\t\treturn nil, err\n\t\t}\n\n\t\tif split == nil {\n\t\t\t// file missing, search the next towards lower\n\t\t\tsID := splitID - 1\n\n\t\t\tfor split == nil && lower.SeqNum < sID {\n\t\t\t\tsplit, err = s.State(ctx, sID)\n\t\t\t\tif err != nil && !NotFound(err) {\n\t\t\t\t\treturn nil, err\n\t\t\t\t}\n\n\t\t\t\tsID--\n\t\t\t}\n\t\t}\n\n\t\tif split == nil {\n\t\t\t// still missing? search the next towards upper\n\t\t\tsID := splitID + 1\n\n\t\t\tfor split == nil && sID < upper.SeqNum {\n\t\t\t\tsplit, err = s.State(ctx, sID)\n\t\t\t\tif err != nil && !NotFound(err) {\n\t\t\t\t\treturn nil, err\n\t\t\t\t}\n\n\t\t\t\tsID++\n\t\t\t}\n\t\t}\n\n\t\tif split == nil {\n\t\t\t// nothing between lower and upper, so upper is\n\t\t\t// the first state at or after the timestamp.\n\t\t\treturn upper, nil\n\t\t}\n\n\t\t// set the new boundary\n\t\tif timestamp.After(split.Timestamp) {\n\t\t\tlower = split\n\t\t} else {\n\t\t\tupper = split\n\t\t}\n\t}\n\n\t// timestamp is now between lower and upper, we want to return the upper.\n\treturn upper, nil\n}\n", Replace: "func findInRange(ctx context.Context, s *stater, lower, upper *State, timestamp time.Time) (*State, error) {\n\t// we do a binary search through the range to find the sequence number\n\tfor lower.SeqNum+1 < upper.SeqNum {\n\t\t// could do better here\n\t\tsplitID := (lower.SeqNum + upper.SeqNum) / 2\n\n\t\tsplit, err := nearestState(ctx, s, lower.SeqNum, splitID, upper.SeqNum)\n\t\tif err != nil {\n\t\t\treturn nil, err\n\t\t}\n\n\t\tif split == nil {\n\t\t\t// nothing between lower and upper, so upper is\n\t\t\t// the first state at or after the timestamp.\n\t\t\treturn upper, nil\n\t\t}\n\n\t\t// set the new boundary\n\t\tif timestamp.After(split.Timestamp) {\n\t\t\tlower = split\n\t\t} else {\n\t\t\tupper = split\n\t\t}\n\t}\n\n\t// timestamp is now between lower and upper, we want to return the upper.\n\treturn upper, nil\n}\n\n// nearestState returns the state at splitID, nil if that file is missing.\nfunc nearestState(ctx context.Context, s *stater, lowerID, splitID, upperID uint64) (*State, error) {\n\tsplit, err := s.State(ctx, splitID)\n\tif err != nil && !NotFound(err) {\n\t\treturn nil, err\n\t}\n\treturn split, nil\n}\n", ExpectRule: "M2", ExpectConstruct: "neighbour scans"},
	{Name: "m2-helper-scans-although-middle-found", File: "replication/search.go", Find: "func findInRange(ctx context.Context, s *stater, lower, upper *State, timestamp time.Time) (*State, error) {\n\t// we do a binary search through the range to find the sequence number\n\tfor lower.SeqNum+1 < upper.SeqNum {\n\t\t// could do better here\n\t\tsplitID := (lower.SeqNum + upper.SeqNum) / 2\n\n\t\tsplit, err := s.State(ctx, splitID)\n\t\tif err != nil && !NotFound(err) {\n\t\t\treturn nil, err\n\t\t}\n\n\t\tif split == nil {\n\t\t\t// file missing, search the next towards lower\n\t\t\tsID := splitID - 1\n\n\t\t\tfor split == nil && lower.SeqNum < sID {\n\t\t\t\tsplit, err = s.State(ctx, sID)\n\t\t\t\tif err != nil && !NotFound(err) {\n\t\t\t\t\treturn nil, err\n\t\t\t\t}\n\n\t\t\t\tsID--\n\t\t\t}\n\t\t}\n\n\t\tif split == nil {\n\t\t\t// still missing? search the next towards upper\n\t\t\tsID := splitID + 1\n\n\t\t\tfor split == nil && sID < upper.SeqNum {\n\t\t\t\tsplit, err = s.State(ctx, sID)\n\t\t\t\tif err != nil && !NotFound(err) {\n\t\t\t\t\treturn nil, err\n\t\t\t\t}\n\n\t\t\t\tsID++\n\t\t\t}\n\t\t}\n\n\t\tif split == nil {\n\t\t\t// nothing between lower and upper, so upper is\n\t\t\t// the first state at or after the timestamp.\n\t\t\treturn upper, nil\n\t\t}\n\n\t\t// set the new boundary\n\t\tif timestamp.After(split.Timestamp) {\n\t\t\tlower = split\n\t\t} else {\n\t\t\tupper = split\n\t\t}\n\t}\n\n\t// timestamp is now between lower and upper, we want to return the upper.\n\treturn upper, nil\n}\n", Replace: "func findInRange(ctx context.Context, s *stater, lower, upper *State, timestamp time.Time) (*State, error) {\n\t// we do a binary search through the range to find the sequence number\n\tfor lower.SeqNum+1 < upper.SeqNum {\n\t\t// could do better here\n\t\tsplitID := (lower.SeqNum + upper.SeqNum) / 2\n\n\t\tsplit, err := nearestState(ctx, s, lower.SeqNum, splitID, upper.SeqNum)\n\t\tif err != nil {\n\t\t\treturn nil, err\n\t\t}\n\n\t\tif split == nil {\n\t\t\t// nothing between lower and upper, so upper is\n\t\t\t// the first state at or after the timestamp.\n\t\t\treturn upper, nil\n\t\t}\n\n\t\t// set the new boundary\n\t\tif timestamp.After(split.Timestamp) {\n\t\t\tlower = split\n\t\t} else {\n\t\t\tupper = split\n\t\t}\n\t}\n\n\t// timestamp is now between lower and upper, we want to return the upper.\n\treturn upper, nil\n}\n\n// nearestState returns the state at splitID or, if that file is missing, the first available one stepping\n// down towards lowerID and after that stepping up towards upperID, both exclusive.\nfunc nearestState(ctx context.Context, s *stater, lowerID, splitID, upperID uint64) (*State, error) {\n\tsplit, err := s.State(ctx, splitID)\n\tif err != nil && !NotFound(err) {\n\t\treturn nil, err\n\t}\n\tmiddle := split\n\n\t// file missing, search the next towards lower\n\tfor id := splitID - 1; lowerID < id; id-- {\n\t\tsplit, err = s.State(ctx, id)\n\t\tif err != nil && !NotFound(err) {\n\t\t\treturn nil, err\n\t\t}\n\t\tif split != nil {\n\t\t\treturn split, nil\n\t\t}\n\t}\n\n\t// still missing? search the next towards upper\n\tfor id := splitID + 1; id < upperID; id++ {\n\t\tsplit, err = s.State(ctx, id)\n\t\tif err != nil && !NotFound(err) {\n\t\t\treturn nil, err\n\t\t}\n\t\tif split != nil {\n\t\t\treturn split, nil\n\t\t}\n\t}\n\n\treturn middle, nil\n}\n", ExpectRule: "M2", ExpectConstruct: "scans@findInRange middle"},
	{Name: "m6-helper-equal-becomes-lower", File: "replication/search.go", Find: "func findInRange(ctx context.Context, s *stater, lower, upper *State, timestamp time.Time) (*State, error) {\n\t// we do a binary search through the range to find the sequence number\n\tfor lower.SeqNum+1 < upper.SeqNum {\n\t\t// could do better here\n\t\tsplitID := (lower.SeqNum + upper.SeqNum) / 2\n\n\t\tsplit, err := s.State(ctx, splitID)\n\t\tif err != nil && !NotFound(err) {\n\t\t\treturn nil, err\n\t\t}\n\n\t\tif split == nil {\n\t\t\t// file missing, search the next towards lower\n\t\t\tsID := splitID - 1\n\n\t\t\tfor split == nil && lower.SeqNum < sID {\n\t\t\t\tsplit, err = s.State(ctx, sID)\n\t\t\t\tif err != nil && !NotFound(err) {\n\t\t\t\t\treturn nil, err\n\t\t\t\t}\n\n\t\t\t\tsID--\n\t\t\t}\n\t\t}\n\n\t\tif split == nil {\n\t\t\t// still missing? search the next towards upper\n\t\t\tsID := splitID + 1\n\n\t\t\tfor split == nil && sID < upper.SeqNum {\n\t\t\t\tsplit, err = s.State(ctx, sID)\n\t\t\t\tif err != nil && !NotFound(err) {\n\t\t\t\t\treturn nil, err\n\t\t\t\t}\n\n\t\t\t\tsID++\n\t\t\t}\n\t\t}\n\n\t\tif split == nil {\n\t\t\t// nothing between lower and upper, so upper is\n\t\t\t// the first state at or after the timestamp.\n\t\t\treturn upper, nil\n\t\t}\n\n\t\t// set the new boundary\n\t\tif timestamp.After(split.Timestamp) {\n\t\t\tlower = split\n\t\t} else {\n\t\t\tupper = split\n\t\t}\n\t}\n\n\t// timestamp is now between lower and upper, we want to return the upper.\n\treturn upper, nil\n}\n", Replace: "func findInRange(ctx context.Context, s *stater, lower, upper *State, timestamp time.Time) (*State, error) {\n\t// we do a binary search through the range to find the sequence number\n\tfor lower.SeqNum+1 < upper.SeqNum {\n\t\t// could do better here\n\t\tsplitID := (lower.SeqNum + upper.SeqNum) / 2\n\n\t\tsplit, err := nearestState(ctx, s, lower.SeqNum, splitID, upper.SeqNum)\n\t\tif err != nil {\n\t\t\treturn nil, err\n\t\t}\n\n\t\tif split == nil {\n\t\t\t// nothing between lower and upper, so upper is\n\t\t\t// the first state at or after the timestamp.\n\t\t\treturn upper, nil\n\t\t}\n\n\t\t// set the new boundary\n\t\tif split.Timestamp.After(timestamp) {\n\t\t\tupper = split\n\t\t} else {\n\t\t\tlower = split\n\t\t}\n\t}\n\n\t// timestamp is now between lower and upper, we want to return the upper.\n\treturn upper, nil\n}\n\n// nearestState returns the state at splitID or, if that file is missing, the first available one stepping\n// down towards lowerID and after that stepping up towards upperID, both exclusive.\nfunc nearestState(ctx context.Context, s *stater, lowerID, splitID, upperID uint64) (*State, error) {\n\tsplit, err := s.State(ctx, splitID)\n\tif err != nil && !NotFound(err) {\n\t\treturn nil, err\n\t}\n\tif split != nil {\n\t\treturn split, nil\n\t}\n\n\t// file missing, search the next towards lower\n\tfor id := splitID - 1; lowerID < id; id-- {\n\t\tsplit, err = s.State(ctx, id)\n\t\tif err != nil && !NotFound(err) {\n\t\t\treturn nil, err\n\t\t}\n\t\tif split != nil {\n\t\t\treturn split, nil\n\t\t}\n\t}\n\n\t// still missing? search the next towards upper\n\tfor id := splitID + 1; id < upperID; id++ {\n\t\tsplit, err = s.State(ctx, id)\n\t\tif err != nil && !NotFound(err) {\n\t\t\treturn nil, err\n\t\t}\n\t\tif split != nil {\n\t\t\treturn split, nil\n\t\t}\n\t}\n\n\treturn nil, nil\n}\n", ExpectRule: "M6", ExpectConstruct: "order@findInRange lower"},
	// M7, flow part: the cursor restarts from an id recorded under a 404 (the first is the seeded defect C19-e)
	{Name: "m7-restart-from-404-floor", File: "replication/search.go", Find: "\tvar (\n\t\tlowerID uint64 = 1\n\t\tlower   *State\n\t\terr     error\n\t)\n\n\t// we need to find the lower bound\n\tfor lower == nil {\n\t\tlower, err = s.State(ctx, lowerID)\n\n\t\tif err != nil && !NotFound(err) {\n\t\t\treturn nil, nil, err\n\t\t}\n\n\t\tif lower != nil && !timestamp.After(lower.Timestamp) {\n\t\t\tif lower.SeqNum+1 >= upper.SeqNum {\n\t\t\t\treturn lower, upper, nil // edge case if there are only two sequence numbers\n\t\t\t}\n\n\t\t\t// in our search for lower we found a new upper bound\n\t\t\tupper = lower\n\t\t\tlower = nil\n\t\t\tlowerID = 1\n\t\t}\n", Replace: "\tvar (\n\t\tlowerID uint64 = 1\n\t\tfloorID uint64 = 1 // highest id probed so far that has no state file\n\t\tlower   *State\n\t\terr     error\n\t)\n\n\t// we need to find the lower bound\n\tfor lower == nil {\n\t\tlower, err = s.State(ctx, lowerID)\n\n\t\tif err != nil && !NotFound(err) {\n\t\t\treturn nil, nil, err\n\t\t}\n\n\t\tif lower == nil {\n\t\t\t// the state files start somewhere above this id\n\t\t\tfloorID = lowerID\n\t\t} else if !timestamp.After(lower.Timestamp) {\n\t\t\tif lower.SeqNum+1 >= upper.SeqNum {\n\t\t\t\treturn lower, upper, nil // edge case if there are only two sequence numbers\n\t\t\t}\n\n\t\t\t// in our search for lower we found a new upper bound\n\t\t\tupper = lower\n\t\t\tlower = nil\n\t\t\tlowerID = floorID\n\t\t}\n", ExpectRule: "M7", ExpectConstruct: "narrow-on-missing@findBound via floorID"},
	{Name: "m7-restart-above-404-floor", File: "replication/search.go", Find: "\tvar (\n\t\tlowerID uint64 = 1\n\t\tlower   *State\n\t\terr     error\n\t)\n\n\t// we need to find the lower bound\n\tfor lower == nil {\n\t\tlower, err = s.State(ctx, lowerID)\n\n\t\tif err != nil && !NotFound(err) {\n\t\t\treturn nil, nil, err\n\t\t}\n\n\t\tif lower != nil && !timestamp.After(lower.Timestamp) {\n\t\t\tif lower.SeqNum+1 >= upper.SeqNum {\n\t\t\t\treturn lower, upper, nil // edge case if there are only two sequence numbers\n\t\t\t}\n\n\t\t\t// in our search for lower we found a new upper bound\n\t\t\tupper = lower\n\t\t\tlower = nil\n\t\t\tlowerID = 1\n\t\t}\n", Replace: "\tvar (\n\t\tlowerID uint64 = 1\n\t\tfloorID uint64\n\t\tlower   *State\n\t\terr     error\n\t)\n\n\t// we need to find the lower bound\n\tfor lower == nil {\n\t\tlower, err = s.State(ctx, lowerID)\n\n\t\tif err != nil && !NotFound(err) {\n\t\t\treturn nil, nil, err\n\t\t}\n\n\t\tif lower == nil {\n\t\t\t// the state files start somewhere above this id\n\t\t\tfloorID = lowerID\n\t\t} else if !timestamp.After(lower.Timestamp) {\n\t\t\tif lower.SeqNum+1 >= upper.SeqNum {\n\t\t\t\treturn lower, upper, nil // edge case if there are only two sequence numbers\n\t\t\t}\n\n\t\t\t// in our search for lower we found a new upper bound\n\t\t\tupper = lower\n\t\t\tlower = nil\n\t\t\tlowerID = floorID + 1\n\t\t}\n", ExpectRule: "M7", ExpectConstruct: "narrow-on-missing@findBound via floorID"},
	{Name: "m7-404-floor-in-struct-field", File: "replication/search.go", Find: "\tvar (\n\t\tlowerID uint64 = 1\n\t\tlower   *State\n\t\terr     error\n\t)\n\n\t// we need to find the lower bound\n\tfor lower == nil {\n\t\tlower, err = s.State(ctx, lowerID)\n\n\t\tif err != nil && !NotFound(err) {\n\t\t\treturn nil, nil, err\n\t\t}\n\n\t\tif lower != nil && !timestamp.After(lower.Timestamp) {\n\t\t\tif lower.SeqNum+1 >= upper.SeqNum {\n\t\t\t\treturn lower, upper, nil // edge case if there are only two sequence numbers\n\t\t\t}\n\n\t\t\t// in our search for lower we found a new upper bound\n\t\t\tupper = lower\n\t\t\tlower = nil\n\t\t\tlowerID = 1\n\t\t}\n", Replace: "\tvar (\n\t\tlowerID uint64 = 1\n\t\tmark    struct{ floor uint64 }\n\t\tlower   *State\n\t\terr     error\n\t)\n\n\t// we need to find the lower bound\n\tfor lower == nil {\n\t\tlower, err = s.State(ctx, lowerID)\n\n\t\tif err != nil && !NotFound(err) {\n\t\t\treturn nil, nil, err\n\t\t}\n\n\t\tif lower == nil {\n\t\t\t// the state files start somewhere above this id\n\t\t\tmark.floor = lowerID\n\t\t} else if !timestamp.After(lower.Timestamp) {\n\t\t\tif lower.SeqNum+1 >= upper.SeqNum {\n\t\t\t\treturn lower, upper, nil // edge case if there are only two sequence numbers\n\t\t\t}\n\n\t\t\t// in our search for lower we found a new upper bound\n\t\t\tupper = lower\n\t\t\tlower = nil\n\t\t\tlowerID = mark.floor\n\t\t}\n", ExpectRule: "M7", ExpectConstruct: "narrow-on-missing@findBound via floor"},
	{Name: "m7-404-floor-through-local", File: "replication/search.go", Find: "\tvar (\n\t\tlowerID uint64 = 1\n\t\tlower   *State\n\t\terr     error\n\t)\n\n\t// we need to find the lower bound\n\tfor lower == nil {\n\t\tlower, err = s.State(ctx, lowerID)\n\n\t\tif err != nil && !NotFound(err) {\n\t\t\treturn nil, nil, err\n\t\t}\n\n\t\tif lower != nil && !timestamp.After(lower.Timestamp) {\n\t\t\tif lower.SeqNum+1 >= upper.SeqNum {\n\t\t\t\treturn lower, upper, nil // edge case if there are only two sequence numbers\n\t\t\t}\n\n\t\t\t// in our search for lower we found a new upper bound\n\t\t\tupper = lower\n\t\t\tlower = nil\n\t\t\tlowerID = 1\n\t\t}\n", Replace: "\tvar (\n\t\tlowerID uint64 = 1\n\t\tfloorID uint64 = 1\n\t\tlower   *State\n\t\terr     error\n\t)\n\n\t// we need to find the lower bound\n\tfor lower == nil {\n\t\tlower, err = s.State(ctx, lowerID)\n\n\t\tif err != nil && !NotFound(err) {\n\t\t\treturn nil, nil, err\n\t\t}\n\n\t\tif lower == nil {\n\t\t\t// the state files start somewhere above this id\n\t\t\tfloorID = lowerID\n\t\t} else if !timestamp.After(lower.Timestamp) {\n\t\t\tif lower.SeqNum+1 >= upper.SeqNum {\n\t\t\t\treturn lower, upper, nil // edge case if there are only two sequence numbers\n\t\t\t}\n\n\t\t\t// in our search for lower we found a new upper bound\n\t\t\tupper = lower\n\t\t\tlower = nil\n\t\t\trestart := floorID\n\t\t\tlowerID = restart\n\t\t}\n", ExpectRule: "M7", ExpectConstruct: "narrow-on-missing@findBound via floorID"},
	// defects seeded into the struct form (bounds in fields of a struct, read and updated by methods)
	{Name: "m6-method-equal-becomes-lower", File: "replication/search.go", Find: "func findInRange(ctx context.Context, s *stater, lower, upper *State, timestamp time.Time) (*State, error) {\n\t// we do a binary search through the range to find the sequence number\n\tfor lower.SeqNum+1 < upper.SeqNum {\n\t\t// could do better here\n\t\tsplitID := (lower.SeqNum + upper.SeqNum) / 2\n\n\t\tsplit, err := s.State(ctx, splitID)\n\t\tif err != nil && !NotFound(err) {\n\t\t\treturn nil, err\n\t\t}\n\n\t\tif split == nil {\n\t\t\t// file missing, search the next towards lower\n\t\t\tsID := splitID - 1\n\n\t\t\tfor split == nil && lower.SeqNum < sID {\n\t\t\t\tsplit, err = s.State(ctx, sID)\n\t\t\t\tif err != nil && !NotFound(err) {\n\t\t\t\t\treturn nil, err\n\t\t\t\t}\n\n\t\t\t\tsID--\n\t\t\t}\n\t\t}\n\n\t\tif split == nil {\n\t\t\t// still missing? search the next towards upper\n\t\t\tsID := splitID + 1\n\n\t\t\tfor split == nil && sID < upper.SeqNum {\n\t\t\t\tsplit, err = s.State(ctx, sID)\n\t\t\t\tif err != nil && !NotFound(err) {\n\t\t\t\t\treturn nil, err\n\t\t\t\t}\n\n\t\t\t\tsID++\n\t\t\t}\n\t\t}\n\n\t\tif split == nil {\n\t\t\t// nothing between lower and upper, so upper is\n\t\t\t// the first state at or after the timestamp.\n\t\t\treturn upper, nil\n\t\t}\n\n\t\t// set the new boundary\n\t\tif timestamp.After(split.Timestamp) {\n\t\t\tlower = split\n\t\t} else {\n\t\t\tupper = split\n\t\t}\n\t}\n\n\t// timestamp is now between lower and upper, we want to return the upper.\n\treturn upper, nil\n}\n", Replace: "// stateRange is the pair of states the binary search narrows down: the timestamp\n// looked for is after lower and at or before upper.\ntype stateRange struct {\n\tlower, upper *State\n}\n\n// adjacent is true if there is no sequence number left between the bounds.\nfunc (r *stateRange) adjacent() bool {\n\treturn r.lower.SeqNum+1 >= r.upper.SeqNum\n}\n\n// middle is the sequence number to look at next.\nfunc (r *stateRange) middle() uint64 {\n\treturn (r.lower.SeqNum + r.upper.SeqNum) / 2\n}\n\n// narrow replaces one of the bounds by a state found between them.\nfunc (r *stateRange) narrow(split *State, timestamp time.Time) {\n\tif split.Timestamp.After(timestamp) {\n\t\tr.upper = split\n\t} else {\n\t\tr.lower = split\n\t}\n}\n\nfunc findInRange(ctx context.Context, s *stater, lower, upper *State, timestamp time.Time) (*State, error) {\n\twindow := stateRange{lower: lower, upper: upper}\n\n\t// we do a binary search through the range to find the sequence number\n\tfor !window.adjacent() {\n\t\t// could do better here\n\t\tsplitID := window.middle()\n\n\t\tsplit, err := s.State(ctx, splitID)\n\t\tif err != nil && !NotFound(err) {\n\t\t\treturn nil, err\n\t\t}\n\n\t\tif split == nil {\n\t\t\t// file missing, search the next towards lower\n\t\t\tsID := splitID - 1\n\n\t\t\tfor split == nil && window.lower.SeqNum < sID {\n\t\t\t\tsplit, err = s.State(ctx, sID)\n\t\t\t\tif err != nil && !NotFound(err) {\n\t\t\t\t\treturn nil, err\n\t\t\t\t}\n\n\t\t\t\tsID--\n\t\t\t}\n\t\t}\n\n\t\tif split == nil {\n\t\t\t// still missing? search the next towards upper\n\t\t\tsID := splitID + 1\n\n\t\t\tfor split == nil && sID < window.upper.SeqNum {\n\t\t\t\tsplit, err = s.State(ctx, sID)\n\t\t\t\tif err != nil && !NotFound(err) {\n\t\t\t\t\treturn nil, err\n\t\t\t\t}\n\n\t\t\t\tsID++\n\t\t\t}\n\t\t}\n\n\t\tif split == nil {\n\t\t\t// nothing between lower and upper, so upper is\n\t\t\t// the first state at or after the timestamp.\n\t\t\treturn window.upper, nil\n\t\t}\n\n\t\t// set the new boundary\n\t\twindow.narrow(split, timestamp)\n\t}\n\n\t// timestamp is now between lower and upper, we want to return the upper.\n\treturn window.upper, nil\n}\n", ExpectRule: "M6", ExpectConstruct: "order@findInRange lower"},
	{Name: "m2-method-scan-bound-one-short", File: "replication/search.go", Find: "func findInRange(ctx context.Context, s *stater, lower, upper *State, timestamp time.Time) (*State, error) {\n\t// we do a binary search through the range to find the sequence number\n\tfor lower.SeqNum+1 < upper.SeqNum {\n\t\t// could do better here\n\t\tsplitID := (lower.SeqNum + upper.SeqNum) / 2\n\n\t\tsplit, err := s.State(ctx, splitID)\n\t\tif err != nil && !NotFound(err) {\n\t\t\treturn nil, err\n\t\t}\n\n\t\tif split == nil {\n\t\t\t// file missing, search the next towards lower\n\t\t\tsID := splitID - 1\n\n\t\t\tfor split == nil && lower.SeqNum < sID {\n\t\t\t\tsplit, err = s.State(ctx, sID)\n\t\t\t\tif err != nil && !NotFound(err) {\n\t\t\t\t\treturn nil, err\n\t\t\t\t}\n\n\t\t\t\tsID--\n\t\t\t}\n\t\t}\n\n\t\tif split == nil {\n\t\t\t// still missing? search the next towards upper\n\t\t\tsID := splitID + 1\n\n\t\t\tfor split == nil && sID < upper.SeqNum {\n\t\t\t\tsplit, err = s.State(ctx, sID)\n\t\t\t\tif err != nil && !NotFound(err) {\n\t\t\t\t\treturn nil, err\n\t\t\t\t}\n\n\t\t\t\tsID++\n\t\t\t}\n\t\t}\n\n\t\tif split == nil {\n\t\t\t// nothing between lower and upper, so upper is\n\t\t\t// the first state at or after the timestamp.\n\t\t\treturn upper, nil\n\t\t}\n\n\t\t// set the new boundary\n\t\tif timestamp.After(split.Timestamp) {\n\t\t\tlower = split\n\t\t} else {\n\t\t\tupper = split\n\t\t}\n\t}\n\n\t// timestamp is now between lower and upper, we want to return the upper.\n\treturn upper, nil\n}\n", Replace: "// stateRange is the pair of states the binary search narrows down: the timestamp\n// looked for is after lower and at or before upper.\ntype stateRange struct {\n\tlower, upper *State\n}\n\n// adjacent is true if there is no sequence number left between the bounds.\nfunc (r *stateRange) adjacent() bool {\n\treturn r.lower.SeqNum+1 >= r.upper.SeqNum\n}\n\n// middle is the sequence number to look at next.\nfunc (r *stateRange) middle() uint64 {\n\treturn (r.lower.SeqNum + r.upper.SeqNum) / 2\n}\n\n// narrow replaces one of the bounds by a state found between them.\nfunc (r *stateRange) narrow(split *State, timestamp time.Time) {\n\tif timestamp.After(split.Timestamp) {\n\t\tr.lower = split\n\t} else {\n\t\tr.upper = split\n\t}\n}\n\nfunc findInRange(ctx context.Context, s *stater, lower, upper *State, timestamp time.Time) (*State, error) {\n\twindow := stateRange{lower: lower, upper: upper}\n\n\t// we do a binary search through the range to find the sequence number\n\tfor !window.adjacent() {\n\t\t// could do better here\n\t\tsplitID := window.middle()\n\n\t\tsplit, err := s.State(ctx, splitID)\n\t\tif err != nil && !NotFound(err) {\n\t\t\treturn nil, err\n\t\t}\n\n\t\tif split == nil {\n\t\t\t// file missing, search the next towards lower\n\t\t\tsID := splitID - 1\n\n\t\t\tfor split == nil && window.lower.SeqNum+1 < sID {\n\t\t\t\tsplit, err = s.State(ctx, sID)\n\t\t\t\tif err != nil && !NotFound(err) {\n\t\t\t\t\treturn nil, err\n\t\t\t\t}\n\n\t\t\t\tsID--\n\t\t\t}\n\t\t}\n\n\t\tif split == nil {\n\t\t\t// still missing? search the next towards upper\n\t\t\tsID := splitID + 1\n\n\t\t\tfor split == nil && sID < window.upper.SeqNum {\n\t\t\t\tsplit, err = s.State(ctx, sID)\n\t\t\t\tif err != nil && !NotFound(err) {\n\t\t\t\t\treturn nil, err\n\t\t\t\t}\n\n\t\t\t\tsID++\n\t\t\t}\n\t\t}\n\n\t\tif split == nil {\n\t\t\t// nothing between lower and upper, so upper is\n\t\t\t// the first state at or after the timestamp.\n\t\t\treturn window.upper, nil\n\t\t}\n\n\t\t// set the new boundary\n\t\twindow.narrow(split, timestamp)\n\t}\n\n\t// timestamp is now between lower and upper, we want to return the upper.\n\treturn window.upper, nil\n}\n", ExpectRule: "M2", ExpectConstruct: "scan-down@findInRange bound"},
	{Name: "m2-method-exhausted-returns-lower", File: "replication/search.go", Find: "func findInRange(ctx context.Context, s *stater, lower, upper *State, timestamp time.Time) (*State, error) {\n\t// we do a binary search through the range to find the sequence number\n\tfor lower.SeqNum+1 < upper.SeqNum {\n\t\t// could do better here\n\t\tsplitID := (lower.SeqNum + upper.SeqNum) / 2\n\n\t\tsplit, err := s.State(ctx, splitID)\n\t\tif err != nil && !NotFound(err) {\n\t\t\treturn nil, err\n\t\t}\n\n\t\tif split == nil {\n\t\t\t// file missing, search the next towards lower\n\t\t\tsID := splitID - 1\n\n\t\t\tfor split == nil && lower.SeqNum < sID {\n\t\t\t\tsplit, err = s.State(ctx, sID)\n\t\t\t\tif err != nil && !NotFound(err) {\n\t\t\t\t\treturn nil, err\n\t\t\t\t}\n\n\t\t\t\tsID--\n\t\t\t}\n\t\t}\n\n\t\tif split == nil {\n\t\t\t// still missing? search the next towards upper\n\t\t\tsID := splitID + 1\n\n\t\t\tfor split == nil && sID < upper.SeqNum {\n\t\t\t\tsplit, err = s.State(ctx, sID)\n\t\t\t\tif err != nil && !NotFound(err) {\n\t\t\t\t\treturn nil, err\n\t\t\t\t}\n\n\t\t\t\tsID++\n\t\t\t}\n\t\t}\n\n\t\tif split == nil {\n\t\t\t// nothing between lower and upper, so upper is\n\t\t\t// the first state at or after the timestamp.\n\t\t\treturn upper, nil\n\t\t}\n\n\t\t// set the new boundary\n\t\tif timestamp.After(split.Timestamp) {\n\t\t\tlower = split\n\t\t} else {\n\t\t\tupper = split\n\t\t}\n\t}\n\n\t// timestamp is now between lower and upper, we want to return the upper.\n\treturn upper, nil\n}\n", Replace: "// stateRange is the pair of states the binary search narrows down: the timestamp\n// looked for is after lower and at or before upper.\ntype stateRange struct {\n\tlower, upper *State\n}\n\n// adjacent is true if there is no sequence number left between the bounds.\nfunc (r *stateRange) adjacent() bool {\n\treturn r.lower.SeqNum+1 >= r.upper.SeqNum\n}\n\n// middle is the sequence number to look at next.\nfunc (r *stateRange) middle() uint64 {\n\treturn (r.lower.SeqNum + r.upper.SeqNum) / 2\n}\n\n// narrow replaces one of the bounds by a state found between them.\nfunc (r *stateRange) narrow(split *State, timestamp time.Time) {\n\tif timestamp.After(split.Timestamp) {\n\t\tr.lower = split\n\t} else {\n\t\tr.upper = split\n\t}\n}\n\nfunc findInRange(ctx context.Context, s *stater, lower, upper *State, timestamp time.Time) (*State, error) {\n\twindow := stateRange{lower: lower, upper: upper}\n\n\t// we do a binary search through the range to find the sequence number\n\tfor !window.adjacent() {\n\t\t// could do better here\n\t\tsplitID := window.middle()\n\n\t\tsplit, err := s.State(ctx, splitID)\n\t\tif err != nil && !NotFound(err) {\n\t\t\treturn nil, err\n\t\t}\n\n\t\tif split == nil {\n\t\t\t// file missing, search the next towards lower\n\t\t\tsID := splitID - 1\n\n\t\t\tfor split == nil && window.lower.SeqNum < sID {\n\t\t\t\tsplit, err = s.State(ctx, sID)\n\t\t\t\tif err != nil && !NotFound(err) {\n\t\t\t\t\treturn nil, err\n\t\t\t\t}\n\n\t\t\t\tsID--\n\t\t\t}\n\t\t}\n\n\t\tif split == nil {\n\t\t\t// still missing? search the next towards upper\n\t\t\tsID := splitID + 1\n\n\t\t\tfor split == nil && sID < window.upper.SeqNum {\n\t\t\t\tsplit, err = s.State(ctx, sID)\n\t\t\t\tif err != nil && !NotFound(err) {\n\t\t\t\t\treturn nil, err\n\t\t\t\t}\n\n\t\t\t\tsID++\n\t\t\t}\n\t\t}\n\n\t\tif split == nil {\n\t\t\t// nothing between lower and upper, so upper is\n\t\t\t// the first state at or after the timestamp.\n\t\t\treturn window.lower, nil\n\t\t}\n\n\t\t// set the new boundary\n\t\twindow.narrow(split, timestamp)\n\t}\n\n\t// timestamp is now between lower and upper, we want to return the upper.\n\treturn window.upper, nil\n}\n", ExpectRule: "M2", ExpectConstruct: "scans@findInRange exhausted"},
	{Name: "m1-method-condition-on-frozen-copy", File: "replication/search.go", Find: "func findInRange(ctx context.Context, s *stater, lower, upper *State, timestamp time.Time) (*State, error) {\n\t// we do a binary search through the range to find the sequence number\n\tfor lower.SeqNum+1 < upper.SeqNum {\n\t\t// could do better here\n\t\tsplitID := (lower.SeqNum + upper.SeqNum) / 2\n\n\t\tsplit, err := s.State(ctx, splitID)\n\t\tif err != nil && !NotFound(err) {\n\t\t\treturn nil, err\n\t\t}\n\n\t\tif split == nil {\n\t\t\t// file missing, search the next towards lower\n\t\t\tsID := splitID - 1\n\n\t\t\tfor split == nil && lower.SeqNum < sID {\n\t\t\t\tsplit, err = s.State(ctx, sID)\n\t\t\t\tif err != nil && !NotFound(err) {\n\t\t\t\t\treturn nil, err\n\t\t\t\t}\n\n\t\t\t\tsID--\n\t\t\t}\n\t\t}\n\n\t\tif split == nil {\n\t\t\t// still missing? search the next towards upper\n\t\t\tsID := splitID + 1\n\n\t\t\tfor split == nil && sID < upper.SeqNum {\n\t\t\t\tsplit, err = s.State(ctx, sID)\n\t\t\t\tif err != nil && !NotFound(err) {\n\t\t\t\t\treturn nil, err\n\t\t\t\t}\n\n\t\t\t\tsID++\n\t\t\t}\n\t\t}\n\n\t\tif split == nil {\n\t\t\t// nothing between lower and upper, so upper is\n\t\t\t// the first state at or after the timestamp.\n\t\t\treturn upper, nil\n\t\t}\n\n\t\t// set the new boundary\n\t\tif timestamp.After(split.Timestamp) {\n\t\t\tlower = split\n\t\t} else {\n\t\t\tupper = split\n\t\t}\n\t}\n\n\t// timestamp is now between lower and upper, we want to return the upper.\n\treturn upper, nil\n}\n", Replace: "// stateRange is the pair of states the binary search narrows down: the timestamp\n// looked for is after lower and at or before upper.\ntype stateRange struct {\n\tlower, upper *State\n}\n\n// adjacent is true if there is no sequence number left between the bounds.\nfunc (r *stateRange) adjacent() bool {\n\treturn r.lower.SeqNum+1 >= r.upper.SeqNum\n}\n\n// middle is the sequence number to look at next.\nfunc (r *stateRange) middle() uint64 {\n\treturn (r.lower.SeqNum + r.upper.SeqNum) / 2\n}\n\n// narrow replaces one of the bounds by a state found between them.\nfunc (r *stateRange) narrow(split *State, timestamp time.Time) {\n\tif timestamp.After(split.Timestamp) {\n\t\tr.lower = split\n\t} else {\n\t\tr.upper = split\n\t}\n}\n\nfunc findInRange(ctx context.Context, s *stater, lower, upper *State, timestamp time.Time) (*State, error) {\n\twindow := stateRange{lower: lower, upper: upper}\n\n\t// we do a binary search through the range to find the sequence number\n\tfrozen := window\n\tfor !frozen.adjacent() {\n\t\t// could do better here\n\t\tsplitID := window.middle()\n\n\t\tsplit, err := s.State(ctx, splitID)\n\t\tif err != nil && !NotFound(err) {\n\t\t\treturn nil, err\n\t\t}\n\n\t\tif split == nil {\n\t\t\t// file missing, search the next towards lower\n\t\t\tsID := splitID - 1\n\n\t\t\tfor split == nil && window.lower.SeqNum < sID {\n\t\t\t\tsplit, err = s.State(ctx, sID)\n\t\t\t\tif err != nil && !NotFound(err) {\n\t\t\t\t\treturn nil, err\n\t\t\t\t}\n\n\t\t\t\tsID--\n\t\t\t}\n\t\t}\n\n\t\tif split == nil {\n\t\t\t// still missing? search the next towards upper\n\t\t\tsID := splitID + 1\n\n\t\t\tfor split == nil && sID < window.upper.SeqNum {\n\t\t\t\tsplit, err = s.State(ctx, sID)\n\t\t\t\tif err != nil && !NotFound(err) {\n\t\t\t\t\treturn nil, err\n\t\t\t\t}\n\n\t\t\t\tsID++\n\t\t\t}\n\t\t}\n\n\t\tif split == nil {\n\t\t\t// nothing between lower and upper, so upper is\n\t\t\t// the first state at or after the timestamp.\n\t\t\treturn window.upper, nil\n\t\t}\n\n\t\t// set the new boundary\n\t\twindow.narrow(split, timestamp)\n\t}\n\n\t// timestamp is now between lower and upper, we want to return the upper.\n\treturn window.upper, nil\n}\n", ExpectRule: "M1", ExpectConstruct: "loop@findInRange[1] conjunct 1"},
	{Name: "m6-method-narrow-ignores-time", File: "replication/search.go", Find: "func findInRange(ctx context.Context, s *stater, lower, upper *State, timestamp time.Time) (*State, error) {\n\t// we do a binary search through the range to find the sequence number\n\tfor lower.SeqNum+1 < upper.SeqNum {\n\t\t// could do better here\n\t\tsplitID := (lower.SeqNum + upper.SeqNum) / 2\n\n\t\tsplit, err := s.State(ctx, splitID)\n\t\tif err != nil && !NotFound(err) {\n\t\t\treturn nil, err\n\t\t}\n\n\t\tif split == nil {\n\t\t\t// file missing, search the next towards lower\n\t\t\tsID := splitID - 1\n\n\t\t\tfor split == nil && lower.SeqNum < sID {\n\t\t\t\tsplit, err = s.State(ctx, sID)\n\t\t\t\tif err != nil && !NotFound(err) {\n\t\t\t\t\treturn nil, err\n\t\t\t\t}\n\n\t\t\t\tsID--\n\t\t\t}\n\t\t}\n\n\t\tif split == nil {\n\t\t\t// still missing? search the next towards upper\n\t\t\tsID := splitID + 1\n\n\t\t\tfor split == nil && sID < upper.SeqNum {\n\t\t\t\tsplit, err = s.State(ctx, sID)\n\t\t\t\tif err != nil && !NotFound(err) {\n\t\t\t\t\treturn nil, err\n\t\t\t\t}\n\n\t\t\t\tsID++\n\t\t\t}\n\t\t}\n\n\t\tif split == nil {\n\t\t\t// nothing between lower and upper, so upper is\n\t\t\t// the first state at or after the timestamp.\n\t\t\treturn upper, nil\n\t\t}\n\n\t\t// set the new boundary\n\t\tif timestamp.After(split.Timestamp) {\n\t\t\tlower = split\n\t\t} else {\n\t\t\tupper = split\n\t\t}\n\t}\n\n\t// timestamp is now between lower and upper, we want to return the upper.\n\treturn upper, nil\n}\n", Replace: "// stateRange is the pair of states the binary search narrows down: the timestamp\n// looked for is after lower and at or before upper.\ntype stateRange struct {\n\tlower, upper *State\n}\n\n// adjacent is true if there is no sequence number left between the bounds.\nfunc (r *stateRange) adjacent() bool {\n\treturn r.lower.SeqNum+1 >= r.upper.SeqNum\n}\n\n// middle is the sequence number to look at next.\nfunc (r *stateRange) middle() uint64 {\n\treturn (r.lower.SeqNum + r.upper.SeqNum) / 2\n}\n\n// narrow replaces one of the bounds by a state found between them.\nfunc (r *stateRange) narrow(split *State, timestamp time.Time) {\n\tif split.SeqNum%2 == 0 {\n\t\tr.lower = split\n\t} else {\n\t\tr.upper = split\n\t}\n}\n\nfunc findInRange(ctx context.Context, s *stater, lower, upper *State, timestamp time.Time) (*State, error) {\n\twindow := stateRange{lower: lower, upper: upper}\n\n\t// we do a binary search through the range to find the sequence number\n\tfor !window.adjacent() {\n\t\t// could do better here\n\t\tsplitID := window.middle()\n\n\t\tsplit, err := s.State(ctx, splitID)\n\t\tif err != nil && !NotFound(err) {\n\t\t\treturn nil, err\n\t\t}\n\n\t\tif split == nil {\n\t\t\t// file missing, search the next towards lower\n\t\t\tsID := splitID - 1\n\n\t\t\tfor split == nil && window.lower.SeqNum < sID {\n\t\t\t\tsplit, err = s.State(ctx, sID)\n\t\t\t\tif err != nil && !NotFound(err) {\n\t\t\t\t\treturn nil, err\n\t\t\t\t}\n\n\t\t\t\tsID--\n\t\t\t}\n\t\t}\n\n\t\tif split == nil {\n\t\t\t// still missing? search the next towards upper\n\t\t\tsID := splitID + 1\n\n\t\t\tfor split == nil && sID < window.upper.SeqNum {\n\t\t\t\tsplit, err = s.State(ctx, sID)\n\t\t\t\tif err != nil && !NotFound(err) {\n\t\t\t\t\treturn nil, err\n\t\t\t\t}\n\n\t\t\t\tsID++\n\t\t\t}\n\t\t}\n\n\t\tif split == nil {\n\t\t\t// nothing between lower and upper, so upper is\n\t\t\t// the first state at or after the timestamp.\n\t\t\treturn window.upper, nil\n\t\t}\n\n\t\t// set the new boundary\n\t\twindow.narrow(split, timestamp)\n\t}\n\n\t// timestamp is now between lower and upper, we want to return the upper.\n\treturn window.upper, nil\n}\n", ExpectRule: "M6", ExpectConstruct: "order@findInRange"},
	// M5: the minimum is the least sequence number a directory can hold (the first is the seeded defect C19-f)
	{Name: "m5-min-first-planet-changeset-state", File: "replication/search.go", Find: "\t\tMin: minDay,\n", Nth: 2, Replace: "\t\tMin: minChangeset,\n", ExpectRule: "M5", ExpectConstruct: "min@(*Datasource).ChangesetStateAt"},
	{Name: "m5-min-second-state", File: "replication/search.go", Find: "\t\tMin: minMinute,\n", Replace: "\t\tMin: minMinute + 1,\n", ExpectRule: "M5", ExpectConstruct: "min@(*Datasource).MinuteStateAt"},
	{Name: "m5-min-not-constant", File: "replication/search.go", Find: "\t\tMin: minHour,\n", Replace: "\t\tMin: uint64(len(ds.BaseURL)),\n", ExpectRule: "M5", ExpectConstruct: "min@(*Datasource).HourStateAt"},
	// defects seeded into the window form (bounds in the fields of one struct in the caller, the binary search a method of it)
	{Name: "m6-window-answer-guard-on-adjacency", File: "replication/search.go", Find: "\tlower, err := s.State(ctx, s.Min)\n\tif err != nil && !NotFound(err) {\n\t\treturn nil, err\n\t}\n\n\tif lower == nil {\n\t\t// now we need to find a lower bound state manually.\n\t\t// This can have edge cases if there are missing sequence numbers.\n\t\tvar err error\n\t\tlower, upper, err = findBound(ctx, s, upper, timestamp)\n\t\tif err != nil {\n\t\t\treturn nil, err\n\t\t}\n\t}\n\n\tif !timestamp.After(lower.Timestamp) {\n\t\t// the lowest state is already at or after the timestamp.\n\t\treturn lower, nil\n\t}\n\n\treturn findInRange(ctx, s, lower, upper, timestamp)\n}\n\nfunc findBound(ctx context.Context, s *stater, upper *State, timestamp time.Time) (*State, *State, error) {\n\tvar (\n\t\tlowerID uint64 = 1\n\t\tlower   *State\n\t\terr     error\n\t)\n\n\t// we need to find the lower bound\n\tfor lower == nil {\n\t\tlower, err = s.State(ctx, lowerID)\n\n\t\tif err != nil && !NotFound(err) {\n\t\t\treturn nil, nil, err\n\t\t}\n\n\t\tif lower != nil && !timestamp.After(lower.Timestamp) {\n\t\t\tif lower.SeqNum+1 >= upper.SeqNum {\n\t\t\t\treturn lower, upper, nil // edge case if there are only two sequence numbers\n\t\t\t}\n\n\t\t\t// in our search for lower we found a new upper bound\n\t\t\tupper = lower\n\t\t\tlower = nil\n\t\t\tlowerID = 1\n\t\t}\n\n\t\tif lower != nil {\n\t\t\tbreak\n\t\t}\n\n\t\t// no lower yet, so try a higher id (binary search wise)\n\t\tnewID := (lowerID + upper.SeqNum) / 2\n\t\tif newID <= lowerID {\n\t\t\t// nothing suitable found, so upper is probably the best we can do\n\t\t\treturn upper, upper, nil\n\t\t}\n\t\tlowerID = newID\n\t}\n\n\treturn lower, upper, nil\n}\n\nfunc findInRange(ctx context.Context, s *stater, lower, upper *State, timestamp time.Time) (*State, error) {\n\t// we do a binary search through the range to find the sequence number\n\tfor lower.SeqNum+1 < upper.SeqNum {\n\t\t// could do better here\n\t\tsplitID := (lower.SeqNum + upper.SeqNum) / 2\n\n\t\tsplit, err := s.State(ctx, splitID)\n\t\tif err != nil && !NotFound(err) {\n\t\t\treturn nil, err\n\t\t}\n\n\t\tif split == nil {\n\t\t\t// file missing, search the next towards lower\n\t\t\tsID := splitID - 1\n\n\t\t\tfor split == nil && lower.SeqNum < sID {\n\t\t\t\tsplit, err = s.State(ctx, sID)\n\t\t\t\tif err != nil && !NotFound(err) {\n\t\t\t\t\treturn nil, err\n\t\t\t\t}\n\n\t\t\t\tsID--\n\t\t\t}\n\t\t}\n\n\t\tif split == nil {\n\t\t\t// still missing? search the next towards upper\n\t\t\tsID := splitID + 1\n\n\t\t\tfor split == nil && sID < upper.SeqNum {\n\t\t\t\tsplit, err = s.State(ctx, sID)\n\t\t\t\tif err != nil && !NotFound(err) {\n\t\t\t\t\treturn nil, err\n\t\t\t\t}\n\n\t\t\t\tsID++\n\t\t\t}\n\t\t}\n\n\t\tif split == nil {\n\t\t\t// nothing between lower and upper, so upper is\n\t\t\t// the first state at or after the timestamp.\n\t\t\treturn upper, nil\n\t\t}\n\n\t\t// set the new boundary\n\t\tif timestamp.After(split.Timestamp) {\n\t\t\tlower = split\n\t\t} else {\n\t\t\tupper = split\n\t\t}\n\t}\n\n\t// timestamp is now between lower and upper, we want to return the upper.\n\treturn upper, nil\n}\n", Replace: "\tw := window{upper: upper}\n\tif w.lower, err = s.State(ctx, s.Min); err != nil && !NotFound(err) {\n\t\treturn nil, err\n\t}\n\n\tif w.lower == nil {\n\t\t// now we need to find a lower bound state manually.\n\t\t// This can have edge cases if there are missing sequence numbers.\n\t\tw.lower, w.upper, err = findBound(ctx, s, upper, timestamp)\n\t\tif err != nil {\n\t\t\treturn nil, err\n\t\t}\n\t}\n\n\tif w.lower.SeqNum+1 >= w.upper.SeqNum {\n\t\treturn w.lower, nil // edge case if there are only one or two sequence numbers\n\t}\n\n\treturn w.search(ctx, s, timestamp)\n}\n\nfunc findBound(ctx context.Context, s *stater, upper *State, timestamp time.Time) (*State, *State, error) {\n\tvar (\n\t\tlowerID uint64 = 1\n\t\tlower   *State\n\t\terr     error\n\t)\n\n\t// we need to find the lower bound\n\tfor lower == nil {\n\t\tlower, err = s.State(ctx, lowerID)\n\n\t\tif err != nil && !NotFound(err) {\n\t\t\treturn nil, nil, err\n\t\t}\n\n\t\tif lower != nil && !timestamp.After(lower.Timestamp) {\n\t\t\tif lower.SeqNum+1 >= upper.SeqNum {\n\t\t\t\treturn lower, upper, nil // edge case if there are only two sequence numbers\n\t\t\t}\n\n\t\t\t// in our search for lower we found a new upper bound\n\t\t\tupper = lower\n\t\t\tlower = nil\n\t\t\tlowerID = 1\n\t\t}\n\n\t\tif lower != nil {\n\t\t\tbreak\n\t\t}\n\n\t\t// no lower yet, so try a higher id (binary search wise)\n\t\tnewID := (lowerID + upper.SeqNum) / 2\n\t\tif newID <= lowerID {\n\t\t\t// nothing suitable found, so upper is probably the best we can do\n\t\t\treturn upper, upper, nil\n\t\t}\n\t\tlowerID = newID\n\t}\n\n\treturn lower, upper, nil\n}\n\n// window is the part of the sequence that is still searched: the state looked for\n// is written after lower and is upper at the latest.\ntype window struct {\n\tlower, upper *State\n}\n\n// search does the binary search through the window.\nfunc (w *window) search(ctx context.Context, s *stater, timestamp time.Time) (*State, error) {\n\t// we do a binary search through the range to find the sequence number\n\tfor w.lower.SeqNum+1 < w.upper.SeqNum {\n\t\t// could do better here\n\t\tsplitID := (w.lower.SeqNum + w.upper.SeqNum) / 2\n\n\t\tsplit, err := s.State(ctx, splitID)\n\t\tif err != nil && !NotFound(err) {\n\t\t\treturn nil, err\n\t\t}\n\n\t\tif split == nil {\n\t\t\t// file missing, search the next towards w.lower\n\t\t\tsID := splitID - 1\n\n\t\t\tfor split == nil && w.lower.SeqNum < sID {\n\t\t\t\tsplit, err = s.State(ctx, sID)\n\t\t\t\tif err != nil && !NotFound(err) {\n\t\t\t\t\treturn nil, err\n\t\t\t\t}\n\n\t\t\t\tsID--\n\t\t\t}\n\t\t}\n\n\t\tif split == nil {\n\t\t\t// still missing? search the next towards w.upper\n\t\t\tsID := splitID + 1\n\n\t\t\tfor split == nil && sID < w.upper.SeqNum {\n\t\t\t\tsplit, err = s.State(ctx, sID)\n\t\t\t\tif err != nil && !NotFound(err) {\n\t\t\t\t\treturn nil, err\n\t\t\t\t}\n\n\t\t\t\tsID++\n\t\t\t}\n\t\t}\n\n\t\tif split == nil {\n\t\t\t// nothing between w.lower and w.upper, so w.upper is\n\t\t\t// the first state at or after the timestamp.\n\t\t\treturn w.upper, nil\n\t\t}\n\n\t\t// set the new boundary\n\t\tif timestamp.After(split.Timestamp) {\n\t\t\tw.lower = split\n\t\t} else {\n\t\t\tw.upper = split\n\t\t}\n\t}\n\n\t// timestamp is now between w.lower and w.upper, we want to return the w.upper.\n\treturn w.upper, nil\n}\n", ExpectRule: "M6", ExpectConstruct: "order@searchTimestamp answer"},
	{Name: "m6-window-finder-results-swapped", File: "replication/search.go", Find: "\tlower, err := s.State(ctx, s.Min)\n\tif err != nil && !NotFound(err) {\n\t\treturn nil, err\n\t}\n\n\tif lower == nil {\n\t\t// now we need to find a lower bound state manually.\n\t\t// This can have edge cases if there are missing sequence numbers.\n\t\tvar err error\n\t\tlower, upper, err = findBound(ctx, s, upper, timestamp)\n\t\tif err != nil {\n\t\t\treturn nil, err\n\t\t}\n\t}\n\n\tif !timestamp.After(lower.Timestamp) {\n\t\t// the lowest state is already at or after the timestamp.\n\t\treturn lower, nil\n\t}\n\n\treturn findInRange(ctx, s, lower, upper, timestamp)\n}\n\nfunc findBound(ctx context.Context, s *stater, upper *State, timestamp time.Time) (*State, *State, error) {\n\tvar (\n\t\tlowerID uint64 = 1\n\t\tlower   *State\n\t\terr     error\n\t)\n\n\t// we need to find the lower bound\n\tfor lower == nil {\n\t\tlower, err = s.State(ctx, lowerID)\n\n\t\tif err != nil && !NotFound(err) {\n\t\t\treturn nil, nil, err\n\t\t}\n\n\t\tif lower != nil && !timestamp.After(lower.Timestamp) {\n\t\t\tif lower.SeqNum+1 >= upper.SeqNum {\n\t\t\t\treturn lower, upper, nil // edge case if there are only two sequence numbers\n\t\t\t}\n\n\t\t\t// in our search for lower we found a new upper bound\n\t\t\tupper = lower\n\t\t\tlower = nil\n\t\t\tlowerID = 1\n\t\t}\n\n\t\tif lower != nil {\n\t\t\tbreak\n\t\t}\n\n\t\t// no lower yet, so try a higher id (binary search wise)\n\t\tnewID := (lowerID + upper.SeqNum) / 2\n\t\tif newID <= lowerID {\n\t\t\t// nothing suitable found, so upper is probably the best we can do\n\t\t\treturn upper, upper, nil\n\t\t}\n\t\tlowerID = newID\n\t}\n\n\treturn lower, upper, nil\n}\n\nfunc findInRange(ctx context.Context, s *stater, lower, upper *State, timestamp time.Time) (*State, error) {\n\t// we do a binary search through the range to find the sequence number\n\tfor lower.SeqNum+1 < upper.SeqNum {\n\t\t// could do better here\n\t\tsplitID := (lower.SeqNum + upper.SeqNum) / 2\n\n\t\tsplit, err := s.State(ctx, splitID)\n\t\tif err != nil && !NotFound(err) {\n\t\t\treturn nil, err\n\t\t}\n\n\t\tif split == nil {\n\t\t\t// file missing, search the next towards lower\n\t\t\tsID := splitID - 1\n\n\t\t\tfor split == nil && lower.SeqNum < sID {\n\t\t\t\tsplit, err = s.State(ctx, sID)\n\t\t\t\tif err != nil && !NotFound(err) {\n\t\t\t\t\treturn nil, err\n\t\t\t\t}\n\n\t\t\t\tsID--\n\t\t\t}\n\t\t}\n\n\t\tif split == nil {\n\t\t\t// still missing? search the next towards upper\n\t\t\tsID := splitID + 1\n\n\t\t\tfor split == nil && sID < upper.SeqNum {\n\t\t\t\tsplit, err = s.State(ctx, sID)\n\t\t\t\tif err != nil && !NotFound(err) {\n\t\t\t\t\treturn nil, err\n\t\t\t\t}\n\n\t\t\t\tsID++\n\t\t\t}\n\t\t}\n\n\t\tif split == nil {\n\t\t\t// nothing between lower and upper, so upper is\n\t\t\t// the first state at or after the timestamp.\n\t\t\treturn upper, nil\n\t\t}\n\n\t\t// set the new boundary\n\t\tif timestamp.After(split.Timestamp) {\n\t\t\tlower = split\n\t\t} else {\n\t\t\tupper = split\n\t\t}\n\t}\n\n\t// timestamp is now between lower and upper, we want to return the upper.\n\treturn upper, nil\n}\n", Replace: "\tw := window{upper: upper}\n\tif w.lower, err = s.State(ctx, s.Min); err != nil && !NotFound(err) {\n\t\treturn nil, err\n\t}\n\n\tif w.lower == nil {\n\t\t// now we need to find a lower bound state manually.\n\t\t// This can have edge cases if there are missing sequence numbers.\n\t\tw.upper, w.lower, err = findBound(ctx, s, upper, timestamp)\n\t\tif err != nil {\n\t\t\treturn nil, err\n\t\t}\n\t}\n\n\tif !timestamp.After(w.lower.Timestamp) {\n\t\t// the lowest state is already at or after the timestamp.\n\t\treturn w.lower, nil\n\t}\n\n\treturn w.search(ctx, s, timestamp)\n}\n\nfunc findBound(ctx context.Context, s *stater, upper *State, timestamp time.Time) (*State, *State, error) {\n\tvar (\n\t\tlowerID uint64 = 1\n\t\tlower   *State\n\t\terr     error\n\t)\n\n\t// we need to find the lower bound\n\tfor lower == nil {\n\t\tlower, err = s.State(ctx, lowerID)\n\n\t\tif err != nil && !NotFound(err) {\n\t\t\treturn nil, nil, err\n\t\t}\n\n\t\tif lower != nil && !timestamp.After(lower.Timestamp) {\n\t\t\tif lower.SeqNum+1 >= upper.SeqNum {\n\t\t\t\treturn lower, upper, nil // edge case if there are only two sequence numbers\n\t\t\t}\n\n\t\t\t// in our search for lower we found a new upper bound\n\t\t\tupper = lower\n\t\t\tlower = nil\n\t\t\tlowerID = 1\n\t\t}\n\n\t\tif lower != nil {\n\t\t\tbreak\n\t\t}\n\n\t\t// no lower yet, so try a higher id (binary search wise)\n\t\tnewID := (lowerID + upper.SeqNum) / 2\n\t\tif newID <= lowerID {\n\t\t\t// nothing suitable found, so upper is probably the best we can do\n\t\t\treturn upper, upper, nil\n\t\t}\n\t\tlowerID = newID\n\t}\n\n\treturn lower, upper, nil\n}\n\n// window is the part of the sequence that is still searched: the state looked for\n// is written after lower and is upper at the latest.\ntype window struct {\n\tlower, upper *State\n}\n\n// search does the binary search through the window.\nfunc (w *window) search(ctx context.Context, s *stater, timestamp time.Time) (*State, error) {\n\t// we do a binary search through the range to find the sequence number\n\tfor w.lower.SeqNum+1 < w.upper.SeqNum {\n\t\t// could do better here\n\t\tsplitID := (w.lower.SeqNum + w.upper.SeqNum) / 2\n\n\t\tsplit, err := s.State(ctx, splitID)\n\t\tif err != nil && !NotFound(err) {\n\t\t\treturn nil, err\n\t\t}\n\n\t\tif split == nil {\n\t\t\t// file missing, search the next towards w.lower\n\t\t\tsID := splitID - 1\n\n\t\t\tfor split == nil && w.lower.SeqNum < sID {\n\t\t\t\tsplit, err = s.State(ctx, sID)\n\t\t\t\tif err != nil && !NotFound(err) {\n\t\t\t\t\treturn nil, err\n\t\t\t\t}\n\n\t\t\t\tsID--\n\t\t\t}\n\t\t}\n\n\t\tif split == nil {\n\t\t\t// still missing? search the next towards w.upper\n\t\t\tsID := splitID + 1\n\n\t\t\tfor split == nil && sID < w.upper.SeqNum {\n\t\t\t\tsplit, err = s.State(ctx, sID)\n\t\t\t\tif err != nil && !NotFound(err) {\n\t\t\t\t\treturn nil, err\n\t\t\t\t}\n\n\t\t\t\tsID++\n\t\t\t}\n\t\t}\n\n\t\tif split == nil {\n\t\t\t// nothing between w.lower and w.upper, so w.upper is\n\t\t\t// the first state at or after the timestamp.\n\t\t\treturn w.upper, nil\n\t\t}\n\n\t\t// set the new boundary\n\t\tif timestamp.After(split.Timestamp) {\n\t\t\tw.lower = split\n\t\t} else {\n\t\t\tw.upper = split\n\t\t}\n\t}\n\n\t// timestamp is now between w.lower and w.upper, we want to return the w.upper.\n\treturn w.upper, nil\n}\n", ExpectRule: "M6", ExpectConstruct: "order@findBound"},
	{Name: "m6-window-equal-becomes-lower", File: "replication/search.go", Find: "\tlower, err := s.State(ctx, s.Min)\n\tif err != nil && !NotFound(err) {\n\t\treturn nil, err\n\t}\n\n\tif lower == nil {\n\t\t// now we need to find a lower bound state manually.\n\t\t// This can have edge cases if there are missing sequence numbers.\n\t\tvar err error\n\t\tlower, upper, err = findBound(ctx, s, upper, timestamp)\n\t\tif err != nil {\n\t\t\treturn nil, err\n\t\t}\n\t}\n\n\tif !timestamp.After(lower.Timestamp) {\n\t\t// the lowest state is already at or after the timestamp.\n\t\treturn lower, nil\n\t}\n\n\treturn findInRange(ctx, s, lower, upper, timestamp)\n}\n\nfunc findBound(ctx context.Context, s *stater, upper *State, timestamp time.Time) (*State, *State, error) {\n\tvar (\n\t\tlowerID uint64 = 1\n\t\tlower   *State\n\t\terr     error\n\t)\n\n\t// we need to find the lower bound\n\tfor lower == nil {\n\t\tlower, err = s.State(ctx, lowerID)\n\n\t\tif err != nil && !NotFound(err) {\n\t\t\treturn nil, nil, err\n\t\t}\n\n\t\tif lower != nil && !timestamp.After(lower.Timestamp) {\n\t\t\tif lower.SeqNum+1 >= upper.SeqNum {\n\t\t\t\treturn lower, upper, nil // edge case if there are only two sequence numbers\n\t\t\t}\n\n\t\t\t// in our search for lower we found a new upper bound\n\t\t\tupper = lower\n\t\t\tlower = nil\n\t\t\tlowerID = 1\n\t\t}\n\n\t\tif lower != nil {\n\t\t\tbreak\n\t\t}\n\n\t\t// no lower yet, so try a higher id (binary search wise)\n\t\tnewID := (lowerID + upper.SeqNum) / 2\n\t\tif newID <= lowerID {\n\t\t\t// nothing suitable found, so upper is probably the best we can do\n\t\t\treturn upper, upper, nil\n\t\t}\n\t\tlowerID = newID\n\t}\n\n\treturn lower, upper, nil\n}\n\nfunc findInRange(ctx context.Context, s *stater, lower, upper *State, timestamp time.Time) (*State, error) {\n\t// we do a binary search through the range to find the sequence number\n\tfor lower.SeqNum+1 < upper.SeqNum {\n\t\t// could do better here\n\t\tsplitID := (lower.SeqNum + upper.SeqNum) / 2\n\n\t\tsplit, err := s.State(ctx, splitID)\n\t\tif err != nil && !NotFound(err) {\n\t\t\treturn nil, err\n\t\t}\n\n\t\tif split == nil {\n\t\t\t// file missing, search the next towards lower\n\t\t\tsID := splitID - 1\n\n\t\t\tfor split == nil && lower.SeqNum < sID {\n\t\t\t\tsplit, err = s.State(ctx, sID)\n\t\t\t\tif err != nil && !NotFound(err) {\n\t\t\t\t\treturn nil, err\n\t\t\t\t}\n\n\t\t\t\tsID--\n\t\t\t}\n\t\t}\n\n\t\tif split == nil {\n\t\t\t// still missing? search the next towards upper\n\t\t\tsID := splitID + 1\n\n\t\t\tfor split == nil && sID < upper.SeqNum {\n\t\t\t\tsplit, err = s.State(ctx, sID)\n\t\t\t\tif err != nil && !NotFound(err) {\n\t\t\t\t\treturn nil, err\n\t\t\t\t}\n\n\t\t\t\tsID++\n\t\t\t}\n\t\t}\n\n\t\tif split == nil {\n\t\t\t// nothing between lower and upper, so upper is\n\t\t\t// the first state at or after the timestamp.\n\t\t\treturn upper, nil\n\t\t}\n\n\t\t// set the new boundary\n\t\tif timestamp.After(split.Timestamp) {\n\t\t\tlower = split\n\t\t} else {\n\t\t\tupper = split\n\t\t}\n\t}\n\n\t// timestamp is now between lower and upper, we want to return the upper.\n\treturn upper, nil\n}\n", Replace: "\tw := window{upper: upper}\n\tif w.lower, err = s.State(ctx, s.Min); err != nil && !NotFound(err) {\n\t\treturn nil, err\n\t}\n\n\tif w.lower == nil {\n\t\t// now we need to find a lower bound state manually.\n\t\t// This can have edge cases if there are missing sequence numbers.\n\t\tw.lower, w.upper, err = findBound(ctx, s, upper, timestamp)\n\t\tif err != nil {\n\t\t\treturn nil, err\n\t\t}\n\t}\n\n\tif !timestamp.After(w.lower.Timestamp) {\n\t\t// the lowest state is already at or after the timestamp.\n\t\treturn w.lower, nil\n\t}\n\n\treturn w.search(ctx, s, timestamp)\n}\n\nfunc findBound(ctx context.Context, s *stater, upper *State, timestamp time.Time) (*State, *State, error) {\n\tvar (\n\t\tlowerID uint64 = 1\n\t\tlower   *State\n\t\terr     error\n\t)\n\n\t// we need to find the lower bound\n\tfor lower == nil {\n\t\tlower, err = s.State(ctx, lowerID)\n\n\t\tif err != nil && !NotFound(err) {\n\t\t\treturn nil, nil, err\n\t\t}\n\n\t\tif lower != nil && !timestamp.After(lower.Timestamp) {\n\t\t\tif lower.SeqNum+1 >= upper.SeqNum {\n\t\t\t\treturn lower, upper, nil // edge case if there are only two sequence numbers\n\t\t\t}\n\n\t\t\t// in our search for lower we found a new upper bound\n\t\t\tupper = lower\n\t\t\tlower = nil\n\t\t\tlowerID = 1\n\t\t}\n\n\t\tif lower != nil {\n\t\t\tbreak\n\t\t}\n\n\t\t// no lower yet, so try a higher id (binary search wise)\n\t\tnewID := (lowerID + upper.SeqNum) / 2\n\t\tif newID <= lowerID {\n\t\t\t// nothing suitable found, so upper is probably the best we can do\n\t\t\treturn upper, upper, nil\n\t\t}\n\t\tlowerID = newID\n\t}\n\n\treturn lower, upper, nil\n}\n\n// window is the part of the sequence that is still searched: the state looked for\n// is written after lower and is upper at the latest.\ntype window struct {\n\tlower, upper *State\n}\n\n// search does the binary search through the window.\nfunc (w *window) search(ctx context.Context, s *stater, timestamp time.Time) (*State, error) {\n\t// we do a binary search through the range to find the sequence number\n\tfor w.lower.SeqNum+1 < w.upper.SeqNum {\n\t\t// could do better here\n\t\tsplitID := (w.lower.SeqNum + w.upper.SeqNum) / 2\n\n\t\tsplit, err := s.State(ctx, splitID)\n\t\tif err != nil && !NotFound(err) {\n\t\t\treturn nil, err\n\t\t}\n\n\t\tif split == nil {\n\t\t\t// file missing, search the next towards w.lower\n\t\t\tsID := splitID - 1\n\n\t\t\tfor split == nil && w.lower.SeqNum < sID {\n\t\t\t\tsplit, err = s.State(ctx, sID)\n\t\t\t\tif err != nil && !NotFound(err) {\n\t\t\t\t\treturn nil, err\n\t\t\t\t}\n\n\t\t\t\tsID--\n\t\t\t}\n\t\t}\n\n\t\tif split == nil {\n\t\t\t// still missing? search the next towards w.upper\n\t\t\tsID := splitID + 1\n\n\t\t\tfor split == nil && sID < w.upper.SeqNum {\n\t\t\t\tsplit, err = s.State(ctx, sID)\n\t\t\t\tif err != nil && !NotFound(err) {\n\t\t\t\t\treturn nil, err\n\t\t\t\t}\n\n\t\t\t\tsID++\n\t\t\t}\n\t\t}\n\n\t\tif split == nil {\n\t\t\t// nothing between w.lower and w.upper, so w.upper is\n\t\t\t// the first state at or after the timestamp.\n\t\t\treturn w.upper, nil\n\t\t}\n\n\t\t// set the new boundary\n\t\tif !split.Timestamp.After(timestamp) {\n\t\t\tw.lower = split\n\t\t} else {\n\t\t\tw.upper = split\n\t\t}\n\t}\n\n\t// timestamp is now between w.lower and w.upper, we want to return the w.upper.\n\treturn w.upper, nil\n}\n", ExpectRule: "M6", ExpectConstruct: "order@(*window).search lower"},
	// M3
	{Name: "m3-format-two-digit-leaf", File: "replication/changesets.go", Find: "%03d/%03d/%03d", Replace: "%03d/%03d/%02d", ExpectRule: "M3", ExpectConstruct: "url@(*Datasource).ChangesetState [state]"},
	{Name: "m3-level2-modulus", File: "replication/interval.go", Find: "(n%1000000)/1000", Replace: "(n%100000)/1000", ExpectRule: "M3", ExpectConstruct: "url@(*Datasource).MinuteState [state]"},
	{Name: "m3-level1-divisor", File: "replication/changesets.go", Find: "n/1000000,", Replace: "n/100000,", ExpectRule: "M3", ExpectConstruct: "url@(*Datasource).Changesets [data]"},
	{Name: "m3-data-suffix", File: "replication/interval.go", Find: "\".osc.gz\"", Replace: "\".osm.gz\"", ExpectRule: "M3", ExpectConstruct: "url@(*Datasource).Minute [data]"},
	{Name: "m3-state-suffix", File: "replication/changesets.go", Find: "+ \".state.txt\"", Replace: "+ \".state.yaml\"", ExpectRule: "M3", ExpectConstruct: "url@(*Datasource).ChangesetState [state]"},
	{Name: "m3-current-name", File: "replication/changesets.go", Find: "/state.yaml", Replace: "/state.txt", ExpectRule: "M3", ExpectConstruct: "url@(*Datasource).CurrentChangesetState [current]"},
	{Name: "m3-select-swapped", File: "replication/interval.go", Find: "if n.Uint64() != 0 {", Replace: "if n.Uint64() == 0 {", ExpectRule: "M3", ExpectConstruct: "url@(*Datasource).DayState [state]"},
	{Name: "m3-current-asks-one", File: "replication/interval.go", Find: "ds.HourState(ctx, 0)", Replace: "ds.HourState(ctx, 1)", ExpectRule: "M3", ExpectConstruct: "url@(*Datasource).CurrentHourState [current]"},
	{Name: "m3-dir-hour", File: "replication/interval.go", Find: "return \"hour\"", Replace: "return \"hourly\"", ExpectRule: "M3", ExpectConstruct: "dir@HourSeqNum"},
	{Name: "m3-time-unescaped", File: "replication/datasource.go", Find: "\"2006-01-02T15\\\\:04\\\\:05Z\"", Replace: "\"2006-01-02T15:04:05Z\"", ExpectRule: "M3", ExpectConstruct: "time interval"},
	{Name: "m3-notfound-403", File: "replication/datasource.go", Find: "e.Code == http.StatusNotFound", Replace: "e.Code == http.StatusForbidden", ExpectRule: "M3", ExpectConstruct: "notfound decision"},
	{Name: "m3-notfound-default-true", File: "replication/datasource.go", Find: "return e.Code == http.StatusNotFound\n\t}\n\n\treturn false", Replace: "return e.Code == http.StatusNotFound\n\t}\n\n\treturn true", ExpectRule: "M3", ExpectConstruct: "notfound decision"},
	{Name: "m3-status-lost", File: "replication/changesets.go", Find: "Code: resp.StatusCode,", Replace: "Code: 500,", ExpectRule: "M3", ExpectConstruct: "status@(*Datasource).ChangesetState"},
	{Name: "m3-status-test-inverted", File: "replication/interval.go", Find: "if resp.StatusCode != 200 {", Replace: "if resp.StatusCode == 200 {", ExpectRule: "M3", ExpectConstruct: "status@(*Datasource).MinuteState"},
	{Name: "m3-status-404-only", File: "replication/changesets.go", Find: "if resp.StatusCode != 200 {", Replace: "if resp.StatusCode == 404 {", ExpectRule: "M3", ExpectConstruct: "status@(*Datasource).ChangesetState"},
	{Name: "m3-notfound-nil-true", File: "replication/datasource.go", Find: "if err == nil {\n\t\treturn false", Replace: "if err == nil {\n\t\treturn true", ExpectRule: "M3", ExpectConstruct: "notfound decision"},
	{Name: "m3-time-first-layout-wins-regardless", File: "replication/datasource.go", Find: "\t\tif err == nil {\n\t\t\treturn t, nil\n\t\t}\n", Replace: "\t\treturn t, err\n", ExpectRule: "M3", ExpectConstruct: "time "},
	{Name: "m3-dir-swapped-in-url", File: "replication/interval.go", Find: "\t\tds.baseURL(),\n\t\tsn.Dir(),\n", Replace: "\t\tsn.Dir(),\n\t\tds.baseURL(),\n", ExpectRule: "M3", ExpectConstruct: "url@(*Datasource).Hour [data]"},
	{Name: "m3-dir-lookup-table-wrong-entry", File: "replication/interval.go", Find: "func (n HourSeqNum) Dir() string {\n\treturn \"hour\"\n}\n", Replace: "// replicationDirs maps the interval names to the directories on the planet server.\nvar replicationDirs = map[string]string{\"hourly\": \"hours\", \"daily\": \"day\"}\n\nfunc (n HourSeqNum) Dir() string {\n\tdir, ok := replicationDirs[\"hourly\"]\n\tif !ok {\n\t\treturn \"\"\n\t}\n\treturn dir\n}\n", ExpectRule: "M3", ExpectConstruct: "dir@HourSeqNum"},
	// M4
	{Name: "m4-current-not-incremented", File: "replication/changesets.go", Find: "s.SeqNum++", Replace: "s.SeqNum += 0", ExpectRule: "M4", ExpectConstruct: "CurrentChangesetState [current]"},
	{Name: "m4-numbered-keeps-file-value", File: "replication/changesets.go", Find: "s.SeqNum = uint64(n)", Replace: "s.SeqNum = s.SeqNum + 0", ExpectRule: "M4", ExpectConstruct: "ChangesetState [numbered]"},
	{Name: "m4-correction-removed", File: "replication/changesets.go", Find: "\tif n == 0 {\n\t\ts.SeqNum++\n\t} else {\n\t\ts.SeqNum = uint64(n)\n\t}\n", Replace: "", ExpectRule: "M4", ExpectConstruct: "CurrentChangesetState [current]"},
	{Name: "m4-branches-swapped", File: "replication/changesets.go", Find: "\tif n == 0 {\n\t\ts.SeqNum++", Replace: "\tif n != 0 {\n\t\ts.SeqNum++", ExpectRule: "M4", ExpectConstruct: "ChangesetState [numbered]"},
	{Name: "m4-decoder-adjusts", File: "replication/changesets.go", Find: "SeqNum:    n,", Replace: "SeqNum:    n + 1,", ExpectRule: "M4", ExpectConstruct: "CurrentChangesetState [current]"},
	// M5
	{Name: "m5-hour-lookup-reads-minute-states", File: "replication/search.go", Find: "return ds.HourState(ctx, HourSeqNum(n))", Replace: "return ds.MinuteState(ctx, MinuteSeqNum(n))", ExpectRule: "M5", ExpectConstruct: "kind@(*Datasource).HourStateAt"},
	{Name: "m5-day-lookup-current-hour", File: "replication/search.go", Find: "_, s, err := ds.CurrentDayState(ctx)", Replace: "_, s, err := ds.CurrentHourState(ctx)", ExpectRule: "M5", ExpectConstruct: "kind@(*Datasource).DayStateAt"},
	{Name: "m5-delegate-ignores-timestamp", File: "replication/search.go", Find: "return DefaultDatasource.DayStateAt(ctx, timestamp)", Replace: "return DefaultDatasource.DayStateAt(ctx, time.Now())", ExpectRule: "M5", ExpectConstruct: "delegate@DayStateAt"},
	{Name: "m5-min-zero", File: "replication/search.go", Find: "Min: minHour,", Replace: "Min: 0,", ExpectRule: "M5", ExpectConstruct: "min@(*Datasource).HourStateAt"},
	{Name: "m5-changeset-lookup-shifted", File: "replication/search.go", Find: "state, err := searchTimestamp(ctx, s, timestamp)", Nth: 4, Replace: "state, err := searchTimestamp(ctx, s, timestamp.Add(time.Hour))", ExpectRule: "M5", ExpectConstruct: "lookup@(*Datasource).ChangesetStateAt"},
	{Name: "m5-fetch-ignores-number", File: "replication/search.go", Find: "return ds.DayState(ctx, DaySeqNum(n))", Replace: "return ds.DayState(ctx, DaySeqNum(minDay+n-n))", ExpectRule: "M5", ExpectConstruct: "kind@(*Datasource).DayStateAt"},
	{Name: "m5-lookup-on-default-datasource", File: "replication/search.go", Find: "return ds.HourState(ctx, HourSeqNum(n))", Replace: "return DefaultDatasource.HourState(ctx, HourSeqNum(n))", ExpectRule: "M5", ExpectConstruct: "kind@(*Datasource).HourStateAt"},
	{Name: "m5-returns-requested-kind-of-other-state", File: "replication/search.go", Find: "return DaySeqNum(state.SeqNum), state, nil", Replace: "return DaySeqNum(state.SeqNum + 1), state, nil", ExpectRule: "M5", ExpectConstruct: "lookup@(*Datasource).DayStateAt"},
}

// ---------------------------------------------------------------- table

type c19Family struct {
	StateSuffix  string `json:"state_suffix"`
	DataSuffix   string `json:"data_suffix"`
	CurrentState string `json:"current_state"`
	SeqOffset    int64  `json:"state_sequence_offset"`
}

type c19Kind struct {
	Dir    string `json:"dir"`
	Family string `json:"family"`
}

type c19Table struct {
	SeqPath struct {
		Format string `json:"format"`
		Levels int    `json:"levels"`
		Digits int    `json:"digits"`
	} `json:"seq_path"`
	CurrentStateFormat string                     `json:"current_state_format"`
	KindsRaw           map[string]json.RawMessage `json:"kinds"`
	Kinds              map[string]c19Kind         `json:"-"`
	FamiliesRaw        map[string]json.RawMessage `json:"families"`
	Families           map[string]c19Family       `json:"-"`
	Timestamps         []struct {
		Family  string `json:"family"`
		Text    string `json:"text"`
		Instant string `json:"instant"`
	} `json:"timestamps"`
	OKStatus       int64 `json:"ok_status"`
	NotFoundStatus int64 `json:"not_found_status"`
	// FirstSequence is the least sequence number a replication directory can hold; when the table does not say,
	// 1 (the numbering of every planet replication directory starts at 1).
	FirstSequence *int64 `json:"first_sequence"`
}

// firstSeq is the least sequence number a replication directory admits.
func (t *c19Table) firstSeq() (int64, string) {
	if t.FirstSequence != nil {
		return *t.FirstSequence, "tables/replication.json first_sequence"
	}
	return 1, "planet numbering starts at 1; tables/replication.json has no first_sequence entry"
}

func c19LoadTable(r *core.R) *c19Table {
	path := filepath.Join(TablesDir, "replication.json")
	b, err := os.ReadFile(path)
	if err != nil {
		// The sensitivity suite re-executes the binary without -verif, so TablesDir is then the
		// default; when the table is not there, look next to the executable (<scratch>/tables,
		// <verif>/bin/../tables).
		if exe, e2 := os.Executable(); e2 == nil {
			for _, alt := range []string{filepath.Join(filepath.Dir(exe), "tables"), filepath.Join(filepath.Dir(exe), "..", "tables")} {
				if b2, e3 := os.ReadFile(filepath.Join(alt, "replication.json")); e3 == nil {
					b, err, path = b2, nil, filepath.Join(alt, "replication.json")
					break
				}
			}
		}
	}
	if err != nil {
		r.Anchor("table " + path + " (" + err.Error() + ")")
		return nil
	}
	t := &c19Table{}
	if err := json.Unmarshal(b, t); err != nil {
		r.Anchor("table " + path + " (" + err.Error() + ")")
		return nil
	}
	t.Kinds = map[string]c19Kind{}
	for k, raw := range t.KindsRaw {
		if strings.HasPrefix(k, "_") {
			continue
		}
		var v c19Kind
		if err := json.Unmarshal(raw, &v); err != nil {
			r.Anchor("table " + path + " kinds." + k)
			return nil
		}
		t.Kinds[k] = v
	}
	t.Families = map[string]c19Family{}
	for k, raw := range t.FamiliesRaw {
		if strings.HasPrefix(k, "_") {
			continue
		}
		var v c19Family
		if err := json.Unmarshal(raw, &v); err != nil {
			r.Anchor("table " + path + " families." + k)
			return nil
		}
		t.Families[k] = v
	}
	if t.SeqPath.Format == "" || t.SeqPath.Levels < 1 || t.SeqPath.Digits < 1 || len(t.Kinds) == 0 || len(t.Families) == 0 ||
		t.NotFoundStatus == 0 || len(t.Timestamps) == 0 || !strings.Contains(t.CurrentStateFormat, "{name}") {
		r.Anchor("table " + path + " (incomplete)")
		return nil
	}
	for k, v := range t.Kinds {
		if _, ok := t.Families[v.Family]; !ok {
			r.Anchor("table " + path + " kinds." + k + ".family")
			return nil
		}
	}
	return t
}

// ---------------------------------------------------------------- model

// c19DSMethod is an exported Datasource method classified by its signature.
type c19DSMethod struct {
	fi   *FuncInfo
	role string       // "stateat" | "state" | "data" | "current"
	kind *types.Named // the sequence-number type K
}

type c19Model struct {
	pk              *packages.Package
	info            *types.Info
	fset            *token.FileSet
	funcs           map[*types.Func]*FuncInfo
	kinds           map[string]*types.Named // named types of the package with a Dir() string method
	stateT          *types.Named            // replication.State
	seqField        *types.Var              // State.SeqNum
	dsT             *types.Named            // replication.Datasource
	errT            *types.Named            // replication.UnexpectedStatusCodeError
	codeFld         *types.Var              // its Code field
	notFound        *FuncInfo               // replication.NotFound
	timeT           types.Type              // time.Time
	methods         []*c19DSMethod
	entries         []*c19DSMethod // role stateat, ordered by position
	stater          *types.Named
	fetchFld        *types.Var
	fetchArg        int // index of the uint64 parameter of the fetch field
	curFld          *types.Var
	minFld          *types.Var
	searchFns       map[*types.Func]bool       // outermost functions taking the descriptor
	reach           map[*types.Func]*FuncInfo  // reachable from the entries
	reachList       []*FuncInfo                // same, ordered by position
	graphs          map[*FuncInfo]*c19Graph    // CFGs, built on demand
	fetchWrap       map[*FuncInfo]c19FetchWrap // functions that wrap one state fetch
	assignedGlobals map[types.Object]bool      // package-level variables some function assigns
}

func c19IsCtx(t types.Type) bool   { return namedPath(t) == "context.Context" }
func c19IsError(t types.Type) bool { return types.Identical(t, types.Universe.Lookup("error").Type()) }

func c19IsUint64(t types.Type) bool {
	b, ok := t.(*types.Basic)
	return ok && b.Kind() == types.Uint64
}

// c19Reach returns the functions of pk statically referenced (called or taken as a value, also
// inside function literals) from the roots, transitively.
func c19Reach(pk *packages.Package, funcs map[*types.Func]*FuncInfo, roots ...*types.Func) map[*types.Func]*FuncInfo {
	seen := map[*types.Func]*FuncInfo{}
	var work []*types.Func
	work = append(work, roots...)
	for len(work) > 0 {
		f := work[len(work)-1]
		work = work[:len(work)-1]
		fi := funcs[f]
		if fi == nil || seen[f] != nil {
			continue
		}
		seen[f] = fi
		ast.Inspect(fi.Decl.Body, func(n ast.Node) bool {
			if id, ok := n.(*ast.Ident); ok {
				if g, ok := pk.TypesInfo.Uses[id].(*types.Func); ok && funcs[g] != nil && seen[g] == nil {
					work = append(work, g)
				}
			}
			return true
		})
	}
	return seen
}

func c19SortedFuncs(m map[*types.Func]*FuncInfo) []*FuncInfo {
	var out []*FuncInfo
	for _, fi := range m {
		out = append(out, fi)
	}
	sort.Slice(out, func(i, j int) bool { return out[i].Decl.Pos() < out[j].Decl.Pos() })
	return out
}

// c19BuildModel resolves the anchors; it reports unresolved ones through r and returns nil then.
func c19BuildModel(r *core.R) *c19Model {
	pk := r.P.Pkg("replication")
	if pk == nil {
		r.Anchor("package " + c19Pkg)
		return nil
	}
	m := &c19Model{pk: pk, info: pk.TypesInfo, fset: r.P.Fset, funcs: map[*types.Func]*FuncInfo{}, kinds: map[string]*types.Named{},
		searchFns: map[*types.Func]bool{}, graphs: map[*FuncInfo]*c19Graph{}, fetchWrap: map[*FuncInfo]c19FetchWrap{}, assignedGlobals: map[types.Object]bool{}}
	for _, fi := range allFuncs(pk) {
		m.funcs[fi.Obj] = fi
		for o := range c19AssignedIn(m.info, fi.Decl.Body) {
			if v, ok := o.(*types.Var); ok && v.Parent() == pk.Types.Scope() {
				m.assignedGlobals[o] = true
			}
		}
	}
	var st *types.Struct
	m.stateT, st = structType(pk, "State")
	if st == nil {
		r.Anchor("replication.State")
		return nil
	}
	for i := 0; i < st.NumFields(); i++ {
		if st.Field(i).Name() == "SeqNum" {
			m.seqField = st.Field(i)
		}
	}
	if m.seqField == nil {
		r.Anchor("replication.State.SeqNum")
		return nil
	}
	m.dsT, _ = structType(pk, "Datasource")
	if m.dsT == nil {
		r.Anchor("replication.Datasource")
		return nil
	}
	// NotFound and the status error (exported API); their absence is reported by the rules that need them
	var errSt *types.Struct
	m.errT, errSt = structType(pk, "UnexpectedStatusCodeError")
	if errSt != nil {
		for i := 0; i < errSt.NumFields(); i++ {
			if errSt.Field(i).Name() == "Code" {
				m.codeFld = errSt.Field(i)
			}
		}
	}
	if nf := findFunc(pk, "NotFound"); nf != nil {
		sig := nf.Obj.Type().(*types.Signature)
		if sig.Params().Len() == 1 && sig.Results().Len() == 1 && c19IsError(sig.Params().At(0).Type()) {
			m.notFound = nf
		}
	}
	if tp := pk.Imports["time"]; tp != nil && tp.Types != nil {
		if o := tp.Types.Scope().Lookup("Time"); o != nil {
			m.timeT = o.Type()
		}
	}
	if m.timeT == nil {
		r.Anchor("time.Time as imported by package replication")
		return nil
	}
	// kinds: named types with a `Dir() string` method
	sc := pk.Types.Scope()
	for _, name := range sc.Names() {
		tn, ok := sc.Lookup(name).(*types.TypeName)
		if !ok {
			continue
		}
		nt, ok := tn.Type().(*types.Named)
		if !ok || types.IsInterface(nt) {
			continue
		}
		for i := 0; i < nt.NumMethods(); i++ {
			mt := nt.Method(i)
			sig := mt.Type().(*types.Signature)
			if mt.Name() == "Dir" && sig.Params().Len() == 0 && sig.Results().Len() == 1 {
				m.kinds[name] = nt
			}
		}
	}
	isKind := func(t types.Type) *types.Named {
		nt, ok := t.(*types.Named)
		if ok && m.kinds[nt.Obj().Name()] == nt {
			return nt
		}
		return nil
	}
	isStatePtr := func(t types.Type) bool {
		p, ok := t.(*types.Pointer)
		return ok && types.Identical(p.Elem(), m.stateT)
	}
	// exported Datasource methods by signature
	for _, fi := range c19SortedFuncs(m.funcs) {
		sig := fi.Obj.Type().(*types.Signature)
		if sig.Recv() == nil || namedPath(sig.Recv().Type()) != c19Pkg+".Datasource" || !fi.Obj.Exported() {
			continue
		}
		ps, rs := sig.Params(), sig.Results()
		if ps.Len() == 0 || !c19IsCtx(ps.At(0).Type()) || rs.Len() < 2 || !c19IsError(rs.At(rs.Len()-1).Type()) {
			continue
		}
		switch {
		case ps.Len() == 2 && namedPath(ps.At(1).Type()) == "time.Time" && rs.Len() == 3 && isKind(rs.At(0).Type()) != nil && isStatePtr(rs.At(1).Type()):
			m.methods = append(m.methods, &c19DSMethod{fi: fi, role: "stateat", kind: isKind(rs.At(0).Type())})
		case ps.Len() == 1 && rs.Len() == 3 && isKind(rs.At(0).Type()) != nil && isStatePtr(rs.At(1).Type()):
			m.methods = append(m.methods, &c19DSMethod{fi: fi, role: "current", kind: isKind(rs.At(0).Type())})
		case ps.Len() == 2 && isKind(ps.At(1).Type()) != nil && rs.Len() == 2 && isStatePtr(rs.At(0).Type()):
			m.methods = append(m.methods, &c19DSMethod{fi: fi, role: "state", kind: isKind(ps.At(1).Type())})
		case ps.Len() == 2 && isKind(ps.At(1).Type()) != nil && rs.Len() == 2:
			m.methods = append(m.methods, &c19DSMethod{fi: fi, role: "data", kind: isKind(ps.At(1).Type())})
		}
	}
	for _, dm := range m.methods {
		if dm.role == "stateat" {
			m.entries = append(m.entries, dm)
		}
	}
	if len(m.entries) == 0 {
		r.Anchor("exported (*Datasource) methods (context.Context, time.Time) -> (K, *State, error)")
		return nil
	}
	var roots []*types.Func
	for _, e := range m.entries {
		roots = append(roots, e.fi.Obj)
	}
	m.reach = c19Reach(pk, m.funcs, roots...)
	m.reachList = c19SortedFuncs(m.reach)
	// the search descriptor, by role: the struct type of the package with a function field
	// (…, uint64, …) -> (*State, error) ("fetch state number n"), a function field without integer
	// parameter -> (*State, error) ("current state") and an integer field ("minimum"), mentioned by
	// the code reachable from the lookups.
	isStateFn := func(t types.Type) (*types.Signature, bool) {
		sig, ok := t.Underlying().(*types.Signature)
		if !ok || sig.Results().Len() != 2 || !isStatePtr(sig.Results().At(0).Type()) || !c19IsError(sig.Results().At(1).Type()) {
			return nil, false
		}
		return sig, true
	}
	var cands []*types.Named
	for _, name := range sc.Names() {
		tn, ok := sc.Lookup(name).(*types.TypeName)
		if !ok {
			continue
		}
		nt, ok := tn.Type().(*types.Named)
		if !ok {
			continue
		}
		sst, ok := nt.Underlying().(*types.Struct)
		if !ok {
			continue
		}
		var fetch, cur, min *types.Var
		arg := -1
		for i := 0; i < sst.NumFields(); i++ {
			f := sst.Field(i)
			if sig, ok := isStateFn(f.Type()); ok {
				a := -1
				for k := 0; k < sig.Params().Len(); k++ {
					if c19IsUint64(sig.Params().At(k).Type()) {
						a = k
					}
				}
				if a >= 0 && fetch == nil {
					fetch, arg = f, a
				} else if a < 0 && cur == nil {
					cur = f
				}
			} else if b, ok := f.Type().Underlying().(*types.Basic); ok && b.Info()&types.IsInteger != 0 && min == nil {
				min = f
			}
		}
		if fetch != nil && cur != nil && min != nil {
			cands = append(cands, nt)
			if m.stater == nil {
				m.stater, m.fetchFld, m.fetchArg, m.curFld, m.minFld = nt, fetch, arg, cur, min
			}
		}
	}
	if len(cands) != 1 {
		r.Anchor(fmt.Sprintf("search descriptor: one struct type with fields func(…, uint64) (*State, error), func(…) (*State, error) and an integer minimum (found %d)", len(cands)))
		return nil
	}
	// search functions: reachable functions with a descriptor parameter that no other such function calls
	takes := map[*types.Func]bool{}
	for f := range m.reach {
		sig := f.Type().(*types.Signature)
		for i := 0; i < sig.Params().Len(); i++ {
			if namedPath(sig.Params().At(i).Type()) == namedPath(m.stater) {
				takes[f] = true
			}
		}
	}
	for f := range takes {
		inner := false
		for g := range takes {
			if g != f && c19Reach(pk, m.funcs, g)[f] != nil {
				inner = true
			}
		}
		if !inner {
			m.searchFns[f] = true
		}
	}
	if len(m.searchFns) == 0 {
		r.Anchor("search function receiving the " + m.stater.Obj().Name() + " built by the …StateAt methods")
		return nil
	}
	return m
}
