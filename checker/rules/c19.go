package rules

// C19 — replication state lookup by time terminates with the first state at or after t.
//
// Anchors. Everything is resolved from exported API and roles:
//   - the four exported methods of replication.Datasource with signature
//     (context.Context, time.Time) -> (K, *State, error), K a type with a Dir() method ("…StateAt");
//   - the struct built by a composite literal inside them (today `stater`): its func field with a
//     uint64 parameter is "the state fetch", the one without is "the current state", the integer
//     field is the minimum sequence number;
//   - the function they hand that struct to (today `searchTimestamp`) and everything statically
//     reachable from the entry points inside the package (today findBound, findInRange, fetchState,
//     fetchChangesetState, decode…State, decodeTime, NotFound, base…URL);
//   - exported Datasource methods classified by signature (state / data / current-state fetchers);
//   - State.SeqNum, UnexpectedStatusCodeError.Code, NotFound, the Dir methods (all exported).
// No unexported identifier is matched by name.

import (
	"encoding/json"
	"fmt"
	"go/ast"
	"go/token"
	"go/types"
	"os"
	"path/filepath"
	"sort"
	"strings"
	"time"

	"golang.org/x/tools/go/packages"

	"osmcheck/core"
)

const c19Pkg = core.ModulePath + "/replication"

func init() {
	register(&core.Property{
		ID:    "C19",
		Title: "Replication state lookup by time terminates with the first state at or after t",
		Explanation: "Structural necessary conditions, decided on package replication for everything statically reachable from the four (*Datasource).…StateAt lookups: " +
			"(M1) every conjunct of every `for` condition depends on a variable its own loop body assigns (a loop-invariant conjunct bounds nothing), range loops run over finite values; " +
			"(M2) each neighbour scan over missing state files starts one step from the missing middle, probes the variable it steps, steps it once per iteration after the probe in the direction of its start, compares that same variable strictly with the bound it walks towards (lower bound when walking down, upper bound when walking up, roles taken from the binary-search loop condition), stops at the first state found, both directions exist, and when both scans find nothing the search returns the upper bound like its normal exit: so every probe lies strictly between the bounds and a scan costs at most one request per missing file; " +
			"(M3) URLs follow the planet layout of tables/replication.json: path format, the three decimal digit groups computed from the sequence number (constants evaluated by the type checker), file suffix per exported fetcher, current-state file names and their selection by sequence number 0, Dir() values, the planet's timestamp forms are accepted by the first matching constant layout (escaped colons), NotFound is true only for status 404 and the fetchers put the response status into the error; " +
			"(M4) the changeset state's off-by-one: current state reports sequence+1, a numbered state reports the number requested, the decoder stores the raw value, the correction dominates every success return; " +
			"(M5) the four lookups and their package-level delegates have the same structure up to the sequence-number type, each descriptor calls the current/numbered fetchers of its own kind on its own receiver, and the minimum sequence number is a constant >= 1. " +
			"NOT decided: the logarithmic request bound, which state is returned for which timestamp (boundary cases of the binary search, queries before the first state, the `return lower` when every state between the bounds is missing), monotonicity of server timestamps, HTTP transport behaviour, parsing of malformed state files.",
		Assumptions: []string{"go/types, go/cfg (x/tools v0.29.0)", "tables/replication.json is the planet server's layout", "time.Parse of the checker's Go toolchain is the one the library is built with (used only to evaluate constant layouts against the table's sample timestamps; the library is not run)", "fmt.Sprintf %03d semantics"},
		LevelText:   "Structural necessary conditions of termination and of the planet layout: loop conditions depend on what their bodies vary, neighbour scans are bounded by the variable they step, URL/time/status constants equal the external layout table, the changeset off-by-one correction is applied on both branches, the four lookups agree up to their kind. Which state is returned for which timestamp and the logarithmic bound are not decided.",
		LevelNote:   "Trusts the Go type checker (constant evaluation, callee resolution), go/cfg dominance, the layout table, and time.Parse for evaluating constant layouts. Static call reachability inside package replication (function references, including inside closures).",
		Technique:   "type-resolved loop-variance analysis (condition conjuncts vs. variables assigned in the loop body), role-derived scan model (probe/step/bound), constant tables compared with an external layout table, sibling structure normalisation",
		DesignRef:   "DESIGN.md §5 C19, Appendix D",
		Rules: []*core.Rule{
			{ID: "M1", Floor: 8, Doc: "every conjunct of every loop condition reachable from the …StateAt lookups depends on a variable the loop body assigns", Run: c19M1},
			{ID: "M2", Floor: 12, Doc: "neighbour scans over missing state files probe the stepped sequence number and compare it strictly with the bound they walk towards", Run: c19M2},
			{ID: "M3", Floor: 37, Doc: "planet replication layout: path format and digit groups, file suffixes, current-state names, Dir() values, timestamp layouts, 404 = missing", Run: c19M3},
			{ID: "M4", Floor: 3, Doc: "changeset state off-by-one: current state reports sequence+1, numbered state reports the requested number, decoder stores the raw value", Run: c19M4},
			{ID: "M5", Floor: 20, Doc: "the four …StateAt lookups and their package-level delegates agree up to the sequence-number type they serve", Run: c19M5},
		},
		Mutants: c19Mutants,
	})
}

// c19Mutants. D10 (inner scan conditions test the loop-invariant splitID) makes M1 conjunct 2 and
// M2 bound fire on the unrepaired tree; mutants named …-pre match the unrepaired text of those two
// conditions, …-post the repaired text (`lower.SeqNum < sID`, `sID < upper.SeqNum`). Whichever
// does not apply is reported as skipped and not counted.
var c19Mutants = []core.Mutant{
	// M1
	{Name: "m1-outer-loop-invariant", File: "replication/search.go", Find: "\tfor lower.SeqNum+1 < upper.SeqNum {\n", Replace: "\tlo0, hi0 := lower, upper\n\tfor lo0.SeqNum+1 < hi0.SeqNum {\n", ExpectRule: "M1", ExpectConstruct: "loop@findInRange[1] conjunct 1"},
	{Name: "m1-scan-found-test-invariant-pre", File: "replication/search.go", Find: "for split == nil && lower.SeqNum < splitID {", Replace: "for lower != nil && lower.SeqNum < splitID {", ExpectRule: "M1", ExpectConstruct: "loop@findInRange[1.1] conjunct 1"},
	{Name: "m1-scan-found-test-invariant-post", File: "replication/search.go", Find: "for split == nil && lower.SeqNum < sID {", Replace: "for lower != nil && lower.SeqNum < sID {", ExpectRule: "M1", ExpectConstruct: "loop@findInRange[1.1] conjunct 1"},
	{Name: "m1-down-bound-static-pre", File: "replication/search.go", Find: "lower.SeqNum < splitID {", Replace: "lower.SeqNum < upper.SeqNum {", ExpectRule: "M1", ExpectConstruct: "loop@findInRange[1.1] conjunct 2"},
	{Name: "m1-down-bound-static-post", File: "replication/search.go", Find: "lower.SeqNum < sID {", Replace: "lower.SeqNum < splitID {", ExpectRule: "M1", ExpectConstruct: "loop@findInRange[1.1] conjunct 2"},
	{Name: "m1-up-bound-static-post", File: "replication/search.go", Find: "sID < upper.SeqNum {", Replace: "splitID < upper.SeqNum {", ExpectRule: "M1", ExpectConstruct: "loop@findInRange[1.2] conjunct 2"},
	// M2
	{Name: "m2-probe-not-stepped", File: "replication/search.go", Find: "split, err = s.State(ctx, sID)", Replace: "split, err = s.State(ctx, splitID)", ExpectRule: "M2", ExpectConstruct: "scan-down@findInRange probe"},
	{Name: "m2-step-wrong-way", File: "replication/search.go", Find: "\t\t\t\tsID--\n", Replace: "\t\t\t\tsID++\n", ExpectRule: "M2", ExpectConstruct: "scan-down@findInRange step"},
	{Name: "m2-step-before-probe", File: "replication/search.go", Find: "\t\t\t\tsplit, err = s.State(ctx, sID)\n\t\t\t\tif err != nil && !NotFound(err) {\n\t\t\t\t\treturn nil, err\n\t\t\t\t}\n\n\t\t\t\tsID++\n", Replace: "\t\t\t\tsID++\n\t\t\t\tsplit, err = s.State(ctx, sID)\n\t\t\t\tif err != nil && !NotFound(err) {\n\t\t\t\t\treturn nil, err\n\t\t\t\t}\n", ExpectRule: "M2", ExpectConstruct: "scan-up@findInRange step"},
	{Name: "m2-both-scans-down", File: "replication/search.go", Find: "sID := splitID + 1", Replace: "sID := splitID - 1", ExpectRule: "M2", ExpectConstruct: "both directions"},
	{Name: "m2-up-scan-no-stop-pre", File: "replication/search.go", Find: "for split == nil && splitID < upper.SeqNum {", Replace: "for splitID < upper.SeqNum {", ExpectRule: "M2", ExpectConstruct: "scan-up@findInRange stop"},
	{Name: "m2-up-scan-no-stop-post", File: "replication/search.go", Find: "for split == nil && sID < upper.SeqNum {", Replace: "for sID < upper.SeqNum {", ExpectRule: "M2", ExpectConstruct: "scan-up@findInRange stop"},
	{Name: "m2-down-bound-nonstrict-pre", File: "replication/search.go", Find: "lower.SeqNum < splitID {", Replace: "lower.SeqNum <= splitID {", ExpectRule: "M2", ExpectConstruct: "scan-down@findInRange bound"},
	{Name: "m2-down-bound-nonstrict-post", File: "replication/search.go", Find: "lower.SeqNum < sID {", Replace: "lower.SeqNum <= sID {", ExpectRule: "M2", ExpectConstruct: "scan-down@findInRange bound"},
	{Name: "m2-up-bound-wrong-bound-pre", File: "replication/search.go", Find: "splitID < upper.SeqNum {", Replace: "splitID > lower.SeqNum {", ExpectRule: "M2", ExpectConstruct: "scan-up@findInRange bound"},
	{Name: "m2-up-bound-wrong-bound-post", File: "replication/search.go", Find: "sID < upper.SeqNum {", Replace: "sID > lower.SeqNum {", ExpectRule: "M2", ExpectConstruct: "scan-up@findInRange bound"},
	{Name: "m2-up-bound-invariant-post", File: "replication/search.go", Find: "sID < upper.SeqNum {", Replace: "splitID < upper.SeqNum {", ExpectRule: "M2", ExpectConstruct: "scan-up@findInRange bound"},
	{Name: "m2-exhausted-returns-nil-pre", File: "replication/search.go", Find: "// still nothing\n\t\t\treturn lower, nil", Replace: "// still nothing\n\t\t\treturn split, nil", ExpectRule: "M2", ExpectConstruct: "scans@findInRange exhausted"},
	{Name: "m2-exhausted-returns-lower-post", File: "replication/search.go", Find: "// still nothing\n\t\t\treturn upper, nil", Replace: "// still nothing\n\t\t\treturn lower, nil", ExpectRule: "M2", ExpectConstruct: "scans@findInRange exhausted"},
	{Name: "m2-final-returns-lower", File: "replication/search.go", Find: "we want to return the upper.\n\treturn upper, nil", Replace: "we want to return the upper.\n\treturn lower, nil", ExpectRule: "M2", ExpectConstruct: "scans@findInRange exhausted"},
	// M3
	{Name: "m3-format-two-digit-leaf", File: "replication/changesets.go", Find: "%03d/%03d/%03d", Replace: "%03d/%03d/%02d", ExpectRule: "M3", ExpectConstruct: "seqpath@(*Datasource).baseChangesetURL format"},
	{Name: "m3-level2-modulus", File: "replication/interval.go", Find: "(n%1000000)/1000", Replace: "(n%100000)/1000", ExpectRule: "M3", ExpectConstruct: "seqpath@(*Datasource).baseSeqURL level 2"},
	{Name: "m3-level1-divisor", File: "replication/changesets.go", Find: "n/1000000,", Replace: "n/100000,", ExpectRule: "M3", ExpectConstruct: "seqpath@(*Datasource).baseChangesetURL level 1"},
	{Name: "m3-data-suffix", File: "replication/interval.go", Find: "\".osc.gz\"", Replace: "\".osm.gz\"", ExpectRule: "M3", ExpectConstruct: "file@(*Datasource).Minute"},
	{Name: "m3-state-suffix", File: "replication/changesets.go", Find: "+ \".state.txt\"", Replace: "+ \".state.yaml\"", ExpectRule: "M3", ExpectConstruct: "file@(*Datasource).ChangesetState"},
	{Name: "m3-current-name", File: "replication/changesets.go", Find: "/state.yaml", Replace: "/state.txt", ExpectRule: "M3", ExpectConstruct: "current-url@(*Datasource).fetchChangesetState"},
	{Name: "m3-select-swapped", File: "replication/interval.go", Find: "if n.Uint64() != 0 {", Replace: "if n.Uint64() == 0 {", ExpectRule: "M3", ExpectConstruct: "select@(*Datasource).fetchState"},
	{Name: "m3-current-asks-one", File: "replication/interval.go", Find: "ds.HourState(ctx, 0)", Replace: "ds.HourState(ctx, 1)", ExpectRule: "M3", ExpectConstruct: "current@(*Datasource).CurrentHourState"},
	{Name: "m3-dir-hour", File: "replication/interval.go", Find: "return \"hour\"", Replace: "return \"hourly\"", ExpectRule: "M3", ExpectConstruct: "dir@HourSeqNum"},
	{Name: "m3-time-unescaped", File: "replication/datasource.go", Find: "\"2006-01-02T15\\\\:04\\\\:05Z\"", Replace: "\"2006-01-02T15:04:05Z\"", ExpectRule: "M3", ExpectConstruct: "time interval"},
	{Name: "m3-notfound-403", File: "replication/datasource.go", Find: "e.Code == http.StatusNotFound", Replace: "e.Code == http.StatusForbidden", ExpectRule: "M3", ExpectConstruct: "notfound return"},
	{Name: "m3-notfound-default-true", File: "replication/datasource.go", Find: "return e.Code == http.StatusNotFound\n\t}\n\n\treturn false", Replace: "return e.Code == http.StatusNotFound\n\t}\n\n\treturn true", ExpectRule: "M3", ExpectConstruct: "notfound return"},
	{Name: "m3-status-lost", File: "replication/changesets.go", Find: "Code: resp.StatusCode,", Replace: "Code: 500,", ExpectRule: "M3", ExpectConstruct: "status@(*Datasource).fetchChangesetState"},
	// M4
	{Name: "m4-current-not-incremented", File: "replication/changesets.go", Find: "s.SeqNum++", Replace: "s.SeqNum += 0", ExpectRule: "M4", ExpectConstruct: "fetchChangesetState current"},
	{Name: "m4-numbered-keeps-file-value", File: "replication/changesets.go", Find: "s.SeqNum = uint64(n)", Replace: "s.SeqNum = s.SeqNum + 0", ExpectRule: "M4", ExpectConstruct: "fetchChangesetState numbered"},
	{Name: "m4-correction-removed", File: "replication/changesets.go", Find: "\tif n == 0 {\n\t\ts.SeqNum++\n\t} else {\n\t\ts.SeqNum = uint64(n)\n\t}\n", Replace: "", ExpectRule: "M4", ExpectConstruct: "fetchChangesetState current"},
	{Name: "m4-branches-swapped", File: "replication/changesets.go", Find: "\tif n == 0 {\n\t\ts.SeqNum++", Replace: "\tif n != 0 {\n\t\ts.SeqNum++", ExpectRule: "M4", ExpectConstruct: "fetchChangesetState numbered"},
	{Name: "m4-decoder-adjusts", File: "replication/changesets.go", Find: "SeqNum:    n,", Replace: "SeqNum:    n + 1,", ExpectRule: "M4", ExpectConstruct: "raw@decodeChangesetState"},
	// M5
	{Name: "m5-hour-lookup-reads-minute-states", File: "replication/search.go", Find: "return ds.HourState(ctx, HourSeqNum(n))", Replace: "return ds.MinuteState(ctx, MinuteSeqNum(n))", ExpectRule: "M5", ExpectConstruct: "kind@(*Datasource).HourStateAt"},
	{Name: "m5-day-lookup-current-hour", File: "replication/search.go", Find: "_, s, err := ds.CurrentDayState(ctx)", Replace: "_, s, err := ds.CurrentHourState(ctx)", ExpectRule: "M5", ExpectConstruct: "kind@(*Datasource).DayStateAt"},
	{Name: "m5-delegate-ignores-timestamp", File: "replication/search.go", Find: "return DefaultDatasource.DayStateAt(ctx, timestamp)", Replace: "return DefaultDatasource.DayStateAt(ctx, time.Now())", ExpectRule: "M5", ExpectConstruct: "delegate@DayStateAt"},
	{Name: "m5-min-zero", File: "replication/search.go", Find: "Min: minHour,", Replace: "Min: 0,", ExpectRule: "M5", ExpectConstruct: "min@(*Datasource).HourStateAt"},
	{Name: "m5-changeset-lookup-shifted", File: "replication/search.go", Find: "state, err := searchTimestamp(ctx, s, timestamp)", Nth: 4, Replace: "state, err := searchTimestamp(ctx, s, timestamp.Add(time.Hour))", ExpectRule: "M5", ExpectConstruct: "shape@(*Datasource).ChangesetStateAt"},
	{Name: "m5-fetch-ignores-number", File: "replication/search.go", Find: "return ds.DayState(ctx, DaySeqNum(n))", Replace: "return ds.DayState(ctx, DaySeqNum(minDay+n-n))", ExpectRule: "M5", ExpectConstruct: "kind@(*Datasource).DayStateAt"},
}

// ---------------------------------------------------------------- table

type c19Family struct {
	StateSuffix  string `json:"state_suffix"`
	DataSuffix   string `json:"data_suffix"`
	CurrentState string `json:"current_state"`
	SeqOffset    int64  `json:"state_sequence_offset"`
}

type c19Kind struct {
	Dir    string `json:"dir"`
	Family string `json:"family"`
}

type c19Table struct {
	SeqPath struct {
		Format string `json:"format"`
		Levels int    `json:"levels"`
		Digits int    `json:"digits"`
	} `json:"seq_path"`
	CurrentStateFormat string                     `json:"current_state_format"`
	KindsRaw           map[string]json.RawMessage `json:"kinds"`
	Kinds              map[string]c19Kind         `json:"-"`
	FamiliesRaw        map[string]json.RawMessage `json:"families"`
	Families           map[string]c19Family       `json:"-"`
	Timestamps         []struct {
		Family  string `json:"family"`
		Text    string `json:"text"`
		Instant string `json:"instant"`
	} `json:"timestamps"`
	OKStatus       int64 `json:"ok_status"`
	NotFoundStatus int64 `json:"not_found_status"`
}

func c19LoadTable(r *core.R) *c19Table {
	path := filepath.Join(TablesDir, "replication.json")
	b, err := os.ReadFile(path)
	if err != nil {
		// The sensitivity suite re-executes the binary without -verif, so TablesDir is then the
		// default; when the table is not there, look next to the executable (<scratch>/tables,
		// <verif>/bin/../tables).
		if exe, e2 := os.Executable(); e2 == nil {
			for _, alt := range []string{filepath.Join(filepath.Dir(exe), "tables"), filepath.Join(filepath.Dir(exe), "..", "tables")} {
				if b2, e3 := os.ReadFile(filepath.Join(alt, "replication.json")); e3 == nil {
					b, err, path = b2, nil, filepath.Join(alt, "replication.json")
					break
				}
			}
		}
	}
	if err != nil {
		r.Anchor("table " + path + " (" + err.Error() + ")")
		return nil
	}
	t := &c19Table{}
	if err := json.Unmarshal(b, t); err != nil {
		r.Anchor("table " + path + " (" + err.Error() + ")")
		return nil
	}
	t.Kinds = map[string]c19Kind{}
	for k, raw := range t.KindsRaw {
		if strings.HasPrefix(k, "_") {
			continue
		}
		var v c19Kind
		if err := json.Unmarshal(raw, &v); err != nil {
			r.Anchor("table " + path + " kinds." + k)
			return nil
		}
		t.Kinds[k] = v
	}
	t.Families = map[string]c19Family{}
	for k, raw := range t.FamiliesRaw {
		if strings.HasPrefix(k, "_") {
			continue
		}
		var v c19Family
		if err := json.Unmarshal(raw, &v); err != nil {
			r.Anchor("table " + path + " families." + k)
			return nil
		}
		t.Families[k] = v
	}
	if t.SeqPath.Format == "" || t.SeqPath.Levels < 1 || t.SeqPath.Digits < 1 || len(t.Kinds) == 0 || len(t.Families) == 0 ||
		t.NotFoundStatus == 0 || len(t.Timestamps) == 0 || !strings.Contains(t.CurrentStateFormat, "{name}") {
		r.Anchor("table " + path + " (incomplete)")
		return nil
	}
	for k, v := range t.Kinds {
		if _, ok := t.Families[v.Family]; !ok {
			r.Anchor("table " + path + " kinds." + k + ".family")
			return nil
		}
	}
	return t
}

// ---------------------------------------------------------------- model

// c19DSMethod is an exported Datasource method classified by its signature.
type c19DSMethod struct {
	fi   *FuncInfo
	role string       // "stateat" | "state" | "data" | "current"
	kind *types.Named // the sequence-number type K
}

type c19Model struct {
	pk        *packages.Package
	info      *types.Info
	funcs     map[*types.Func]*FuncInfo
	kinds     map[string]*types.Named // named types of the package with a Dir() string method
	stateT    *types.Named            // replication.State
	seqField  *types.Var              // State.SeqNum
	methods   []*c19DSMethod
	entries   []*c19DSMethod // role stateat, ordered by name
	stater    *types.Named
	fetchFld  *types.Var
	fetchArg  int // index of the uint64 parameter of the fetch field
	curFld    *types.Var
	minFld    *types.Var
	searchFn  *types.Func
	reach     map[*types.Func]*FuncInfo // reachable from the entries
	reachList []*FuncInfo               // same, ordered by position
}

func c19IsCtx(t types.Type) bool   { return namedPath(t) == "context.Context" }
func c19IsError(t types.Type) bool { return types.Identical(t, types.Universe.Lookup("error").Type()) }

func c19IsUint64(t types.Type) bool {
	b, ok := t.(*types.Basic)
	return ok && b.Kind() == types.Uint64
}

// c19Reach returns the functions of pk statically referenced (called or taken as a value, also
// inside function literals) from the roots, transitively.
func c19Reach(pk *packages.Package, funcs map[*types.Func]*FuncInfo, roots ...*types.Func) map[*types.Func]*FuncInfo {
	seen := map[*types.Func]*FuncInfo{}
	var work []*types.Func
	work = append(work, roots...)
	for len(work) > 0 {
		f := work[len(work)-1]
		work = work[:len(work)-1]
		fi := funcs[f]
		if fi == nil || seen[f] != nil {
			continue
		}
		seen[f] = fi
		ast.Inspect(fi.Decl.Body, func(n ast.Node) bool {
			if id, ok := n.(*ast.Ident); ok {
				if g, ok := pk.TypesInfo.Uses[id].(*types.Func); ok && funcs[g] != nil && seen[g] == nil {
					work = append(work, g)
				}
			}
			return true
		})
	}
	return seen
}

func c19SortedFuncs(m map[*types.Func]*FuncInfo) []*FuncInfo {
	var out []*FuncInfo
	for _, fi := range m {
		out = append(out, fi)
	}
	sort.Slice(out, func(i, j int) bool { return out[i].Decl.Pos() < out[j].Decl.Pos() })
	return out
}

// c19BuildModel resolves the anchors; it reports unresolved ones through r and returns nil then.
func c19BuildModel(r *core.R) *c19Model {
	pk := r.P.Pkg("replication")
	if pk == nil {
		r.Anchor("package " + c19Pkg)
		return nil
	}
	m := &c19Model{pk: pk, info: pk.TypesInfo, funcs: map[*types.Func]*FuncInfo{}, kinds: map[string]*types.Named{}}
	for _, fi := range allFuncs(pk) {
		m.funcs[fi.Obj] = fi
	}
	var st *types.Struct
	m.stateT, st = structType(pk, "State")
	if st == nil {
		r.Anchor("replication.State")
		return nil
	}
	for i := 0; i < st.NumFields(); i++ {
		if st.Field(i).Name() == "SeqNum" {
			m.seqField = st.Field(i)
		}
	}
	if m.seqField == nil {
		r.Anchor("replication.State.SeqNum")
		return nil
	}
	// kinds: named types with a `Dir() string` method
	sc := pk.Types.Scope()
	for _, name := range sc.Names() {
		tn, ok := sc.Lookup(name).(*types.TypeName)
		if !ok {
			continue
		}
		nt, ok := tn.Type().(*types.Named)
		if !ok || types.IsInterface(nt) {
			continue
		}
		for i := 0; i < nt.NumMethods(); i++ {
			mt := nt.Method(i)
			sig := mt.Type().(*types.Signature)
			if mt.Name() == "Dir" && sig.Params().Len() == 0 && sig.Results().Len() == 1 {
				m.kinds[name] = nt
			}
		}
	}
	isKind := func(t types.Type) *types.Named {
		nt, ok := t.(*types.Named)
		if ok && m.kinds[nt.Obj().Name()] == nt {
			return nt
		}
		return nil
	}
	isStatePtr := func(t types.Type) bool {
		p, ok := t.(*types.Pointer)
		return ok && types.Identical(p.Elem(), m.stateT)
	}
	// exported Datasource methods by signature
	for _, fi := range c19SortedFuncs(m.funcs) {
		sig := fi.Obj.Type().(*types.Signature)
		if sig.Recv() == nil || namedPath(sig.Recv().Type()) != c19Pkg+".Datasource" || !fi.Obj.Exported() {
			continue
		}
		ps, rs := sig.Params(), sig.Results()
		if ps.Len() == 0 || !c19IsCtx(ps.At(0).Type()) || rs.Len() < 2 || !c19IsError(rs.At(rs.Len()-1).Type()) {
			continue
		}
		switch {
		case ps.Len() == 2 && namedPath(ps.At(1).Type()) == "time.Time" && rs.Len() == 3 && isKind(rs.At(0).Type()) != nil && isStatePtr(rs.At(1).Type()):
			m.methods = append(m.methods, &c19DSMethod{fi: fi, role: "stateat", kind: isKind(rs.At(0).Type())})
		case ps.Len() == 1 && rs.Len() == 3 && isKind(rs.At(0).Type()) != nil && isStatePtr(rs.At(1).Type()):
			m.methods = append(m.methods, &c19DSMethod{fi: fi, role: "current", kind: isKind(rs.At(0).Type())})
		case ps.Len() == 2 && isKind(ps.At(1).Type()) != nil && rs.Len() == 2 && isStatePtr(rs.At(0).Type()):
			m.methods = append(m.methods, &c19DSMethod{fi: fi, role: "state", kind: isKind(ps.At(1).Type())})
		case ps.Len() == 2 && isKind(ps.At(1).Type()) != nil && rs.Len() == 2:
			m.methods = append(m.methods, &c19DSMethod{fi: fi, role: "data", kind: isKind(ps.At(1).Type())})
		}
	}
	for _, dm := range m.methods {
		if dm.role == "stateat" {
			m.entries = append(m.entries, dm)
		}
	}
	if len(m.entries) == 0 {
		r.Anchor("exported (*Datasource) methods (context.Context, time.Time) -> (K, *State, error)")
		return nil
	}
	// the search-descriptor struct built inside the entries, its fields, the search function
	for _, e := range m.entries {
		var lit *ast.CompositeLit
		ast.Inspect(e.fi.Decl.Body, func(n ast.Node) bool {
			if cl, ok := n.(*ast.CompositeLit); ok && lit == nil {
				if nt, ok := m.info.TypeOf(cl).(*types.Named); ok && nt.Obj().Pkg() == pk.Types {
					if _, ok := nt.Underlying().(*types.Struct); ok {
						lit = cl
					}
				}
			}
			return true
		})
		if lit == nil {
			continue
		}
		nt := m.info.TypeOf(lit).(*types.Named)
		if m.stater == nil {
			m.stater = nt
		}
	}
	if m.stater == nil {
		r.Anchor("search descriptor struct literal inside the …StateAt methods")
		return nil
	}
	sst := m.stater.Underlying().(*types.Struct)
	for i := 0; i < sst.NumFields(); i++ {
		f := sst.Field(i)
		switch ft := f.Type().Underlying().(type) {
		case *types.Signature:
			arg := -1
			for k := 0; k < ft.Params().Len(); k++ {
				if c19IsUint64(ft.Params().At(k).Type()) {
					arg = k
				}
			}
			if arg >= 0 && m.fetchFld == nil {
				m.fetchFld, m.fetchArg = f, arg
			} else if arg < 0 && m.curFld == nil {
				m.curFld = f
			}
		case *types.Basic:
			if ft.Info()&types.IsInteger != 0 && m.minFld == nil {
				m.minFld = f
			}
		}
	}
	if m.fetchFld == nil || m.curFld == nil || m.minFld == nil {
		r.Anchor("fields of " + m.stater.Obj().Name() + " (func with uint64 parameter, func without, integer minimum)")
		return nil
	}
	// search function: the package function called with a value of type *stater
	for _, e := range m.entries {
		ast.Inspect(e.fi.Decl.Body, func(n ast.Node) bool {
			call, ok := n.(*ast.CallExpr)
			if !ok {
				return true
			}
			fn := callee(m.info, call)
			if fn == nil || m.funcs[fn] == nil {
				return true
			}
			for _, a := range call.Args {
				if namedPath(m.info.TypeOf(a)) == namedPath(m.stater) && m.searchFn == nil {
					m.searchFn = fn
				}
			}
			return true
		})
	}
	if m.searchFn == nil {
		r.Anchor("search function receiving the " + m.stater.Obj().Name() + " built by the …StateAt methods")
		return nil
	}
	var roots []*types.Func
	for _, e := range m.entries {
		roots = append(roots, e.fi.Obj)
	}
	m.reach = c19Reach(pk, m.funcs, roots...)
	m.reachList = c19SortedFuncs(m.reach)
	return m
}

// c19IsFetch reports whether call is a call through the state-fetch field of the search descriptor
// and returns its sequence-number argument.
func (m *c19Model) isFetch(call *ast.CallExpr) (ast.Expr, bool) {
	if fieldOf(m.info, call.Fun) != m.fetchFld || m.fetchArg >= len(call.Args) {
		return nil, false
	}
	return call.Args[m.fetchArg], true
}

// ---------------------------------------------------------------- loops

type c19Loop struct {
	fi     *FuncInfo
	stmt   ast.Stmt // *ast.ForStmt or *ast.RangeStmt
	path   string   // "1", "1.2": preorder ordinal within the function
	parent *c19Loop
}

func (l *c19Loop) body() *ast.BlockStmt {
	switch s := l.stmt.(type) {
	case *ast.ForStmt:
		return s.Body
	case *ast.RangeStmt:
		return s.Body
	}
	return nil
}

func (l *c19Loop) key() string { return "loop@" + l.fi.Name() + "[" + l.path + "]" }

func c19CollectLoops(fi *FuncInfo) []*c19Loop {
	var out []*c19Loop
	count := map[*c19Loop]int{}
	var walk func(n ast.Node, parent *c19Loop)
	walk = func(n ast.Node, parent *c19Loop) {
		ast.Inspect(n, func(x ast.Node) bool {
			if x == nil || x == n {
				return true
			}
			switch x.(type) {
			case *ast.ForStmt, *ast.RangeStmt:
				count[parent]++
				p := fmt.Sprint(count[parent])
				if parent != nil {
					p = parent.path + "." + p
				}
				l := &c19Loop{fi: fi, stmt: x.(ast.Stmt), path: p, parent: parent}
				out = append(out, l)
				walk(l.body(), l)
				return false
			}
			return true
		})
	}
	walk(fi.Decl.Body, nil)
	return out
}

// c19AssignedIn collects the variables a statement list assigns (=, :=, op=, ++/--, range
// key/value, address taken), keyed by object with the position of the first assignment.
func c19AssignedIn(info *types.Info, nodes ...ast.Node) map[types.Object]token.Pos {
	out := map[types.Object]token.Pos{}
	add := func(e ast.Expr, pos token.Pos) {
		if e == nil {
			return
		}
		if o := rootObj(info, e); o != nil {
			if _, ok := o.(*types.Var); ok {
				if _, dup := out[o]; !dup {
					out[o] = pos
				}
			}
		}
	}
	for _, n := range nodes {
		if n == nil {
			continue
		}
		ast.Inspect(n, func(x ast.Node) bool {
			switch s := x.(type) {
			case *ast.AssignStmt:
				for _, l := range s.Lhs {
					add(l, s.Pos())
				}
			case *ast.IncDecStmt:
				add(s.X, s.Pos())
			case *ast.RangeStmt:
				add(s.Key, s.Pos())
				add(s.Value, s.Pos())
			case *ast.UnaryExpr:
				if s.Op == token.AND {
					add(s.X, s.Pos())
				}
			}
			return true
		})
	}
	return out
}

func c19Conjuncts(e ast.Expr) []ast.Expr {
	e = ast.Unparen(e)
	if be, ok := e.(*ast.BinaryExpr); ok && be.Op == token.LAND {
		return append(c19Conjuncts(be.X), c19Conjuncts(be.Y)...)
	}
	return []ast.Expr{e}
}

// c19VarsIn lists the (non-field) variables an expression mentions, in source order.
func c19VarsIn(info *types.Info, e ast.Node) []types.Object {
	var out []types.Object
	seen := map[types.Object]bool{}
	ast.Inspect(e, func(n ast.Node) bool {
		if id, ok := n.(*ast.Ident); ok {
			if v, ok := info.Uses[id].(*types.Var); ok && !v.IsField() && !seen[v] {
				seen[v] = true
				out = append(out, v)
			}
		}
		return true
	})
	return out
}

func c19Names(objs []types.Object) string {
	var s []string
	for _, o := range objs {
		s = append(s, o.Name())
	}
	return strings.Join(s, ", ")
}

func c19SortedObjs(m map[types.Object]token.Pos) []types.Object {
	var out []types.Object
	for o := range m {
		out = append(out, o)
	}
	sort.Slice(out, func(i, j int) bool {
		return m[out[i]] < m[out[j]] || (m[out[i]] == m[out[j]] && out[i].Name() < out[j].Name())
	})
	return out
}

// c19HasRealCall reports whether e contains a call that is neither a builtin nor a conversion.
func c19HasRealCall(info *types.Info, e ast.Node) bool {
	found := false
	ast.Inspect(e, func(n ast.Node) bool {
		if call, ok := n.(*ast.CallExpr); ok {
			if builtinName(info, call) == "" {
				if tv, ok := info.Types[call.Fun]; !ok || !tv.IsType() {
					found = true
				}
			}
		}
		return !found
	})
	return found
}

// ---------------------------------------------------------------- M1

func c19M1(r *core.R) {
	m := c19BuildModel(r)
	if m == nil {
		return
	}
	r.Stat("functions_reachable_from_StateAt", len(m.reachList))
	nloops := 0
	for _, fi := range m.reachList {
		for _, l := range c19CollectLoops(fi) {
			nloops++
			switch s := l.stmt.(type) {
			case *ast.RangeStmt:
				switch t := m.info.TypeOf(s.X).Underlying().(type) {
				case *types.Slice, *types.Array, *types.Map, *types.Basic:
					r.OKTrivial(l.key(), s.Pos(), "range over the finite value `%s` (%s): at most one iteration per element", src(r.P.Fset, s.X), t.String())
				case *types.Pointer:
					r.OKTrivial(l.key(), s.Pos(), "range over `%s` (pointer to array)", src(r.P.Fset, s.X))
				default:
					r.Unknown(l.key(), s.Pos(), "range over `%s` of type %s (channel or iterator function): the number of iterations is not bounded by a finite value; accepted: slice, array, map, string, integer", src(r.P.Fset, s.X), t.String())
				}
			case *ast.ForStmt:
				if s.Cond == nil {
					r.Unknown(l.key(), s.Pos(), "`for` without a condition in %s: termination rests on break/return only, which this rule does not decide (accepted idiom: a condition whose every conjunct depends on a variable the body assigns)", fi.Name())
					continue
				}
				varied := c19AssignedIn(m.info, s.Body, s.Post)
				variedList := c19SortedObjs(varied)
				for i, cj := range c19Conjuncts(s.Cond) {
					c := fmt.Sprintf("%s conjunct %d", l.key(), i+1)
					vars := c19VarsIn(m.info, cj)
					var hit types.Object
					for _, v := range vars {
						if _, ok := varied[v]; ok {
							hit = v
							break
						}
					}
					switch {
					case hit != nil:
						r.OK(c, cj.Pos(), "`%s` of `for %s` depends on %s, which the loop body assigns (%s)", src(r.P.Fset, cj), src(r.P.Fset, s.Cond), hit.Name(), r.P.Rel(varied[hit]))
					case c19HasRealCall(m.info, cj):
						r.Unknown(c, cj.Pos(), "`%s` of `for %s` mentions no variable the body assigns but calls a function; whether its value changes between iterations is not decided (accepted idiom: a comparison over a variable the body assigns)", src(r.P.Fset, cj), src(r.P.Fset, s.Cond))
					default:
						r.Bad(c, cj.Pos(), "loop `for %s` in %s: the conjunct `%s` mentions only {%s}, none of which is assigned inside the loop body, so it has the same value on every iteration and bounds nothing; the body varies {%s}. If the other conjuncts stay true (every probed state file missing) the loop never ends and issues requests forever",
							src(r.P.Fset, s.Cond), fi.Name(), src(r.P.Fset, cj), c19Names(vars), c19Names(variedList))
					}
				}
			}
		}
	}
	r.Stat("loops_reachable_from_StateAt", nloops)
}

// ---------------------------------------------------------------- M2

// c19SeqSel recognises `X.SeqNum` (field of replication.State) with X a plain variable.
func (m *c19Model) seqSel(e ast.Expr) types.Object {
	if fieldOf(m.info, e) != m.seqField {
		return nil
	}
	return objOf(m.info, ast.Unparen(e).(*ast.SelectorExpr).X)
}

// seqVarsIn lists the variables X of every `X.SeqNum` inside e.
func (m *c19Model) seqVarsIn(e ast.Expr) []types.Object {
	var out []types.Object
	ast.Inspect(e, func(n ast.Node) bool {
		if sel, ok := n.(*ast.SelectorExpr); ok {
			if o := m.seqSel(sel); o != nil {
				out = append(out, o)
			}
		}
		return true
	})
	return out
}

// bounds derives from the condition of the binary-search loop which state variable is the lower
// and which the upper bound: a conjunct `…lo.SeqNum… < …hi.SeqNum…` (or mirrored).
func (m *c19Model) bounds(cond ast.Expr) (lo, hi types.Object) {
	for _, cj := range c19Conjuncts(cond) {
		be, ok := cj.(*ast.BinaryExpr)
		if !ok {
			continue
		}
		l, h := be.X, be.Y
		switch be.Op {
		case token.LSS, token.LEQ:
		case token.GTR, token.GEQ:
			l, h = h, l
		default:
			continue
		}
		lv, hv := m.seqVarsIn(l), m.seqVarsIn(h)
		if len(lv) == 1 && len(hv) == 1 && lv[0] != hv[0] {
			return lv[0], hv[0]
		}
	}
	return nil, nil
}

// c19Step describes `v++`, `v--`, `v += 1`, `v -= 1`, `v = v ± 1`.
type c19Step struct {
	v    types.Object
	dir  int // +1 / -1
	stmt ast.Stmt
}

func c19StepOf(info *types.Info, s ast.Stmt) *c19Step {
	one := func(e ast.Expr) bool { v, ok := constInt(info, e); return ok && v == 1 }
	switch x := s.(type) {
	case *ast.IncDecStmt:
		if o := objOf(info, x.X); o != nil {
			if x.Tok == token.INC {
				return &c19Step{o, +1, s}
			}
			return &c19Step{o, -1, s}
		}
	case *ast.AssignStmt:
		if len(x.Lhs) != 1 || len(x.Rhs) != 1 {
			return nil
		}
		o := objOf(info, x.Lhs[0])
		if o == nil {
			return nil
		}
		switch x.Tok {
		case token.ADD_ASSIGN:
			if one(x.Rhs[0]) {
				return &c19Step{o, +1, s}
			}
		case token.SUB_ASSIGN:
			if one(x.Rhs[0]) {
				return &c19Step{o, -1, s}
			}
		case token.ASSIGN:
			if be, ok := ast.Unparen(x.Rhs[0]).(*ast.BinaryExpr); ok && objOf(info, be.X) == o && one(be.Y) {
				if be.Op == token.ADD {
					return &c19Step{o, +1, s}
				}
				if be.Op == token.SUB {
					return &c19Step{o, -1, s}
				}
			}
		}
	}
	return nil
}

// fetchesIn lists the state-fetch calls directly in body (not inside nested loops or closures).
func (m *c19Model) fetchesIn(body *ast.BlockStmt) []*ast.CallExpr {
	var out []*ast.CallExpr
	ast.Inspect(body, func(n ast.Node) bool {
		switch x := n.(type) {
		case *ast.ForStmt, *ast.RangeStmt, *ast.FuncLit:
			return false
		case *ast.CallExpr:
			if _, ok := m.isFetch(x); ok {
				out = append(out, x)
			}
		}
		return true
	})
	return out
}

// c19DefOf finds the defining `v := rhs` of a local variable inside fn.
func c19DefOf(info *types.Info, body ast.Node, v types.Object) ast.Expr {
	var rhs ast.Expr
	ast.Inspect(body, func(n ast.Node) bool {
		as, ok := n.(*ast.AssignStmt)
		if !ok || as.Tok != token.DEFINE || len(as.Lhs) != len(as.Rhs) {
			return true
		}
		for i, l := range as.Lhs {
			if id, ok := l.(*ast.Ident); ok && info.Defs[id] == v {
				rhs = as.Rhs[i]
			}
		}
		return true
	})
	return rhs
}

func c19Dir(d int) string {
	if d < 0 {
		return "down"
	}
	return "up"
}

func c19M2(r *core.R) {
	m := c19BuildModel(r)
	if m == nil {
		return
	}
	fs := r.P.Fset
	nscan := 0
	dirs := map[string]map[int]bool{}
	dirPos := map[string]token.Pos{}
	for _, fi := range m.reachList {
		for _, l := range c19CollectLoops(fi) {
			fl, ok := l.stmt.(*ast.ForStmt)
			if !ok || l.parent == nil {
				continue
			}
			fetches := m.fetchesIn(fl.Body)
			if len(fetches) == 0 {
				continue
			}
			nscan++
			name := "scan[" + l.path + "]@" + fi.Name()
			outer, _ := l.parent.stmt.(*ast.ForStmt)
			if len(fetches) != 1 || outer == nil || outer.Cond == nil || fl.Cond == nil {
				r.Unknown(name, fl.Pos(), "neighbour scan shape not recognised (need exactly one state fetch in a conditional `for` nested in the conditional binary-search `for`)")
				continue
			}
			fetch := fetches[0]
			arg, _ := m.isFetch(fetch)
			probe := objOf(m.info, arg)
			// steps: top-level statements of the body, or the post statement
			var steps []*c19Step
			for _, s := range fl.Body.List {
				if st := c19StepOf(m.info, s); st != nil {
					steps = append(steps, st)
				}
			}
			postStep := false
			if fl.Post != nil {
				if st := c19StepOf(m.info, fl.Post); st != nil {
					steps = append(steps, st)
					postStep = true
				}
			}
			varied := c19AssignedIn(m.info, fl.Body, fl.Post)
			// the scanned variable
			var v types.Object
			if probe != nil {
				if _, ok := varied[probe]; ok {
					v = probe
				}
			}
			if v == nil && len(steps) == 1 {
				v = steps[0].v
			}
			// direction from the start value `v := mid ± 1`, mid = sequence number probed by the enclosing loop
			dir := 0
			startWhy := ""
			var mid types.Object
			for _, oc := range m.fetchesIn(outer.Body) {
				a, _ := m.isFetch(oc)
				mid = objOf(m.info, a)
			}
			if v == nil {
				startWhy = "no scanned variable identified"
			} else if def := c19DefOf(m.info, outer.Body, v); def == nil {
				startWhy = fmt.Sprintf("%s is not defined by `:=` inside the binary-search loop", v.Name())
			} else if be, ok := ast.Unparen(def).(*ast.BinaryExpr); !ok || (be.Op != token.ADD && be.Op != token.SUB) {
				startWhy = fmt.Sprintf("start value `%s` is not of the form mid-1 / mid+1", src(fs, def))
			} else if c, ok := constInt(m.info, be.Y); !ok || c != 1 {
				startWhy = fmt.Sprintf("start value `%s` is not one step away from the probed middle", src(fs, def))
			} else if mid == nil || objOf(m.info, be.X) != mid {
				startWhy = fmt.Sprintf("start value `%s` is not relative to the sequence number probed by the enclosing loop", src(fs, def))
			} else if be.Op == token.SUB {
				dir = -1
			} else {
				dir = +1
			}
			if dir != 0 {
				name = "scan-" + c19Dir(dir) + "@" + fi.Name()
				if dirs[fi.Name()] == nil {
					dirs[fi.Name()] = map[int]bool{}
				}
				dirs[fi.Name()][dir] = true
				dirPos[fi.Name()] = fi.Decl.Pos()
				r.OK(name+" start", fl.Pos(), "%s starts at `%s`, one step %s from the missing middle %s", v.Name(), src(fs, c19DefOf(m.info, outer.Body, v)), c19Dir(dir), mid.Name())
			} else {
				r.Unknown(name+" start", fl.Pos(), "%s; accepted: `v := mid - 1` (scan towards the lower bound) / `v := mid + 1` (towards the upper bound) with mid the argument of the enclosing loop's state fetch", startWhy)
			}
			// probe
			switch {
			case probe == nil:
				r.Unknown(name+" probe", fetch.Pos(), "the sequence number passed to the state fetch, `%s`, is not a plain variable", src(fs, arg))
			case v != probe:
				r.Bad(name+" probe", fetch.Pos(), "`%s` probes %s, which the scan loop never changes (the loop varies {%s}): every iteration requests the same state file again", src(fs, fetch), probe.Name(), c19Names(c19SortedObjs(varied)))
			default:
				r.OK(name+" probe", fetch.Pos(), "`%s` probes %s, the variable the scan steps", src(fs, fetch), probe.Name())
			}
			// step
			var mine []*c19Step
			for _, st := range steps {
				if st.v == v {
					mine = append(mine, st)
				}
			}
			switch {
			case v == nil || len(mine) == 0:
				r.Bad(name+" step", fl.Pos(), "the scan does not step its sequence number by one per iteration (no `v++`/`v--` at the top level of the loop body)")
			case len(mine) > 1:
				r.Bad(name+" step", mine[1].stmt.Pos(), "%s is stepped %d times per iteration: every other state file is skipped", v.Name(), len(mine))
			case dir != 0 && mine[0].dir != dir:
				r.Bad(name+" step", mine[0].stmt.Pos(), "`%s` steps %s but the scan starts one %s from the middle and must walk %s towards its bound: it walks away from the bound it is compared with", src(fs, mine[0].stmt), c19Dir(mine[0].dir), c19Dir(dir), c19Dir(dir))
			case !postStep && mine[0].stmt.Pos() < fetch.Pos():
				r.Bad(name+" step", mine[0].stmt.Pos(), "`%s` comes before the probe: the first neighbour is skipped and the last probe falls on the bound itself", src(fs, mine[0].stmt))
			default:
				r.OK(name+" step", mine[0].stmt.Pos(), "`%s` after the probe, once per iteration", src(fs, mine[0].stmt))
			}
			// bound
			lo, hi := m.bounds(outer.Cond)
			func() {
				c := name + " bound"
				if lo == nil || hi == nil {
					r.Unknown(c, fl.Cond.Pos(), "cannot tell lower from upper bound: the enclosing loop condition `%s` is not of the form `lo.SeqNum… < hi.SeqNum`", src(fs, outer.Cond))
					return
				}
				if dir == 0 || v == nil {
					r.Unknown(c, fl.Cond.Pos(), "scan direction unknown (see the start obligation)")
					return
				}
				want, wantSrc := lo, lo.Name()+".SeqNum < "+v.Name()
				if dir > 0 {
					want, wantSrc = hi, v.Name()+" < "+hi.Name()+".SeqNum"
				}
				if _, moved := varied[want]; moved {
					r.Bad(c, fl.Cond.Pos(), "the bound %s is reassigned inside the scan loop", want.Name())
					return
				}
				var near []string
				for _, cj := range c19Conjuncts(fl.Cond) {
					be, ok := cj.(*ast.BinaryExpr)
					if !ok {
						continue
					}
					small, big, strict := be.X, be.Y, true
					switch be.Op {
					case token.LSS:
					case token.GTR:
						small, big = big, small
					case token.LEQ:
						strict = false
					case token.GEQ:
						small, big, strict = big, small, false
					default:
						continue
					}
					// down: want.SeqNum < v ; up: v < want.SeqNum
					bnd, oth := small, big
					if dir > 0 {
						bnd, oth = big, small
					}
					if m.seqSel(bnd) != want {
						if bo := m.seqSel(oth); bo != nil && (objOf(m.info, bnd) == v || bo == want) {
							near = append(near, fmt.Sprintf("`%s` has the bound on the wrong side", src(fs, cj)))
						}
						continue
					}
					o := objOf(m.info, oth)
					switch {
					case o == v && strict:
						r.OK(c, cj.Pos(), "`%s`: the stepped variable %s is compared strictly with %s.SeqNum, the bound it walks %s towards; every probe lies strictly between the bounds and the scan ends after at most |%s - %s.SeqNum| requests", src(fs, cj), v.Name(), want.Name(), c19Dir(dir), mid.Name(), want.Name())
						return
					case o == v:
						near = append(near, fmt.Sprintf("`%s` is not strict: the scan probes %s.SeqNum itself, finds the bound state again and the search makes no progress", src(fs, cj), want.Name()))
					case o != nil:
						if _, ok := varied[o]; !ok {
							near = append(near, fmt.Sprintf("`%s` compares %s, which the scan loop never changes, with %s.SeqNum (the loop steps %s): the test is constant and the scan walks past the bound", src(fs, cj), o.Name(), want.Name(), v.Name()))
						} else {
							near = append(near, fmt.Sprintf("`%s` compares %s, not the probed variable %s", src(fs, cj), o.Name(), v.Name()))
						}
					default:
						near = append(near, fmt.Sprintf("`%s` does not compare a plain variable with the bound", src(fs, cj)))
					}
				}
				why := "no conjunct of `" + src(fs, fl.Cond) + "` relates " + v.Name() + " to " + want.Name() + ".SeqNum"
				if len(near) > 0 {
					why = strings.Join(near, "; ")
				}
				r.Bad(c, fl.Cond.Pos(), "%s. Required: `%s`. With all state files between the bound and the middle missing the scan never stops on its bound (unbounded requests, and probes outside the open interval)", why, wantSrc)
			}()
			// stop on the first state found
			func() {
				c := name + " stop"
				par := parentsOf(r.P, fi)
				as, ok := par[fetch].(*ast.AssignStmt)
				if !ok || len(as.Lhs) == 0 || len(as.Rhs) != 1 {
					r.Unknown(c, fetch.Pos(), "the result of `%s` is not assigned to variables", src(fs, fetch))
					return
				}
				res := objOf(m.info, as.Lhs[0])
				for _, cj := range c19Conjuncts(fl.Cond) {
					be, ok := cj.(*ast.BinaryExpr)
					if !ok || be.Op != token.EQL {
						continue
					}
					x, y := be.X, be.Y
					if tv := m.info.Types[x]; tv.IsNil() {
						x, y = y, x
					}
					if tv := m.info.Types[y]; tv.IsNil() && res != nil && objOf(m.info, x) == res {
						r.OK(c, cj.Pos(), "`%s`: the scan continues only while the fetched state %s is missing, so it ends on the first state found", src(fs, cj), res.Name())
						return
					}
				}
				n := "the fetched state"
				if res != nil {
					n = res.Name()
				}
				r.Bad(c, fl.Cond.Pos(), "`for %s` has no conjunct `%s == nil`: the scan does not stop at the first available neighbour state and later (possibly missing) probes overwrite it", src(fs, fl.Cond), n)
			}()
		}
	}
	r.Stat("neighbour_scans", nscan)
	c19M2Exhausted(r, m)
	var fns []string
	for fn := range dirs {
		fns = append(fns, fn)
	}
	sort.Strings(fns)
	for _, fn := range fns {
		d := dirs[fn]
		if d[-1] && d[+1] {
			r.OK("scans@"+fn+" both directions", dirPos[fn], "a missing middle state is looked for towards the lower and towards the upper bound")
		} else {
			r.Bad("scans@"+fn+" both directions", dirPos[fn], "neighbour scans in %s go %s only: available states on the other side of a missing middle are never considered", fn, c19Dir(map[bool]int{true: -1, false: +1}[d[-1]]))
		}
	}
	if nscan == 0 {
		r.Anchor("neighbour scans (inner loops calling the state fetch) in the binary search")
	}
}

// ---------------------------------------------------------------- M3

// c19URLSite is a fmt.Sprintf call one of whose arguments is a Dir() call: a replication URL.
type c19URLSite struct {
	fi      *FuncInfo
	call    *ast.CallExpr
	format  string
	dirArg  int
	dirRecv ast.Expr
	intArgs []int // indexes of integer-typed arguments (after the format)
}

func (m *c19Model) urlSites() []*c19URLSite {
	var out []*c19URLSite
	for _, fi := range c19SortedFuncs(m.funcs) {
		fi := fi
		ast.Inspect(fi.Decl.Body, func(n ast.Node) bool {
			call, ok := n.(*ast.CallExpr)
			if !ok || !isPkgFunc(callee(m.info, call), "fmt", "Sprintf") || len(call.Args) < 2 {
				return true
			}
			f, ok := constString(m.info, call.Args[0])
			if !ok {
				return true
			}
			s := &c19URLSite{fi: fi, call: call, format: f, dirArg: -1}
			for i, a := range call.Args[1:] {
				if c, ok := ast.Unparen(a).(*ast.CallExpr); ok {
					if fn := callee(m.info, c); fn != nil && fn.Name() == "Dir" && fn.Pkg() == m.pk.Types && len(c.Args) == 0 {
						if sel, ok := ast.Unparen(c.Fun).(*ast.SelectorExpr); ok {
							s.dirArg, s.dirRecv = i, sel.X
						}
					}
				}
				if b, ok := m.info.TypeOf(a).Underlying().(*types.Basic); ok && b.Info()&types.IsInteger != 0 {
					s.intArgs = append(s.intArgs, i)
				}
			}
			if s.dirArg >= 0 {
				out = append(out, s)
			}
			return true
		})
	}
	return out
}

// familyOf returns the table family of the kinds assignable to t ("" when none or mixed).
func (m *c19Model) familyOf(t *c19Table, typ types.Type) string {
	fam := ""
	for name, k := range t.Kinds {
		nt := m.kinds[name]
		if nt == nil || !types.AssignableTo(nt, typ) {
			continue
		}
		if fam != "" && fam != k.Family {
			return ""
		}
		fam = k.Family
	}
	return fam
}

func c19Pow10(n int) int64 {
	v := int64(1)
	for i := 0; i < n; i++ {
		v *= 10
	}
	return v
}

// c19LevelOK checks that e selects decimal digit group [lo, lo+digits) of variable n:
// top: n/d or (n/d)%m; middle: (n%(d*m))/d or (n/d)%m; last (d == 1): n%m.
func c19LevelOK(info *types.Info, e ast.Expr, n types.Object, d, mod int64, top bool) bool {
	isN := func(x ast.Expr) bool { return objOf(info, x) == n }
	isC := func(x ast.Expr, c int64) bool { v, ok := constInt(info, x); return ok && v == c }
	bin := func(x ast.Expr, op token.Token) (*ast.BinaryExpr, bool) {
		be, ok := ast.Unparen(x).(*ast.BinaryExpr)
		return be, ok && be.Op == op
	}
	if d == 1 {
		be, ok := bin(e, token.REM)
		return ok && isN(be.X) && isC(be.Y, mod)
	}
	if be, ok := bin(e, token.QUO); ok && isC(be.Y, d) {
		if top && isN(be.X) {
			return true
		}
		if in, ok := bin(be.X, token.REM); ok && isN(in.X) && isC(in.Y, d*mod) {
			return true
		}
	}
	if be, ok := bin(e, token.REM); ok && isC(be.Y, mod) {
		if in, ok := bin(be.X, token.QUO); ok && isN(in.X) && isC(in.Y, d) {
			return true
		}
	}
	return false
}

// c19ParamOf returns the index of the parameter of fi that obj is, or -1.
func c19ParamOf(fi *FuncInfo, obj types.Object) int {
	ps := fi.Obj.Type().(*types.Signature).Params()
	for i := 0; i < ps.Len(); i++ {
		if ps.At(i) == obj {
			return i
		}
	}
	return -1
}

// c19IsSeqValueOf: e is `p.Uint64()`, `uint64(p)` or p itself for the given variable p.
func c19IsSeqValueOf(info *types.Info, e ast.Expr, p types.Object) bool {
	e = ast.Unparen(e)
	if objOf(info, e) == p {
		return true
	}
	call, ok := e.(*ast.CallExpr)
	if !ok {
		return false
	}
	if tv, ok := info.Types[call.Fun]; ok && tv.IsType() && len(call.Args) == 1 {
		return objOf(info, call.Args[0]) == p
	}
	if sel, ok := ast.Unparen(call.Fun).(*ast.SelectorExpr); ok && len(call.Args) == 0 && sel.Sel.Name == "Uint64" {
		if fn := callee(info, call); fn != nil && fn.Name() == "Uint64" {
			return objOf(info, sel.X) == p
		}
	}
	return false
}

type c19Concat struct {
	fi      *FuncInfo
	builder *types.Func
	suffix  string
	ok      bool
	pos     token.Pos
}

func c19M3(r *core.R) {
	m := c19BuildModel(r)
	t := c19LoadTable(r)
	if m == nil || t == nil {
		return
	}
	fs := r.P.Fset
	info := m.info
	recvOf := func(fi *FuncInfo) types.Object {
		if fi.Decl.Recv != nil && len(fi.Decl.Recv.List) == 1 && len(fi.Decl.Recv.List[0].Names) == 1 {
			return info.Defs[fi.Decl.Recv.List[0].Names[0]]
		}
		return nil
	}

	// (a) sequence-numbered path builders and current-state URLs
	builders := map[*types.Func]string{} // builder -> family
	var currentSites []*c19URLSite
	sites := m.urlSites()
	r.Stat("url_format_sites", len(sites))
	for _, s := range sites {
		fam := m.familyOf(t, info.TypeOf(s.dirRecv))
		dirObj := objOf(info, s.dirRecv)
		recv := recvOf(s.fi)
		baseOK := recv != nil && s.dirArg == 1 && usesObj(info, s.call.Args[1], recv) && !usesObj(info, s.call.Args[1], dirObj)
		if len(s.intArgs) == 0 {
			currentSites = append(currentSites, s)
			c := "current-url@" + s.fi.Name()
			if fam == "" {
				r.Unknown(c, s.call.Pos(), "cannot tell the replication family of `%s` (type %s)", src(fs, s.dirRecv), info.TypeOf(s.dirRecv))
				continue
			}
			want := strings.Replace(t.CurrentStateFormat, "{name}", t.Families[fam].CurrentState, 1)
			switch {
			case s.format != want:
				r.Bad(c, s.call.Pos(), "current %s state is requested with format %q; the planet server serves it at %q", fam, s.format, want)
			case !baseOK || len(s.call.Args) != 3:
				r.Bad(c, s.call.Pos(), "`%s`: the arguments must be the datasource's base URL and %s.Dir(), in this order", src(fs, s.call), src(fs, s.dirRecv))
			default:
				r.OK(c, s.call.Pos(), "format %q with (base URL of the datasource, %s.Dir()) = table current-state URL of family %s", s.format, src(fs, s.dirRecv), fam)
			}
			continue
		}
		c := "seqpath@" + s.fi.Name()
		if fam == "" || c19ParamOf(s.fi, dirObj) < 0 {
			r.Unknown(c+" format", s.call.Pos(), "`%s.Dir()` is not called on a parameter whose kinds belong to one replication family", src(fs, s.dirRecv))
			continue
		}
		builders[s.fi.Obj] = fam
		switch {
		case s.format != t.SeqPath.Format:
			r.Bad(c+" format", s.call.Pos(), "sequence path format is %q; the planet layout is %q (three zero-padded three-digit levels under replication/<dir>)", s.format, t.SeqPath.Format)
		case !baseOK:
			r.Bad(c+" format", s.call.Pos(), "`%s`: the first two arguments must be the datasource's base URL and %s.Dir()", src(fs, s.call), src(fs, s.dirRecv))
		default:
			r.OK(c+" format", s.call.Pos(), "format %q, base URL from the datasource, directory from %s.Dir() (family %s)", s.format, src(fs, s.dirRecv), fam)
		}
		// levels
		if len(s.intArgs) != t.SeqPath.Levels || s.intArgs[0] != 2 || len(s.call.Args) != 3+t.SeqPath.Levels {
			r.Bad(c+" levels", s.call.Pos(), "`%s` passes %d integer arguments; the layout has %d levels", src(fs, s.call), len(s.intArgs), t.SeqPath.Levels)
			continue
		}
		// the split variable: every level mentions exactly one variable, the same one, defined from the parameter
		var nObj types.Object
		for _, i := range s.intArgs {
			vs := c19VarsIn(info, s.call.Args[1+i])
			if len(vs) == 1 && (nObj == nil || nObj == vs[0]) {
				nObj = vs[0]
			} else {
				nObj = nil
				break
			}
		}
		nOK := false
		if nObj != nil {
			if nObj == dirObj {
				nOK = true
			} else if def := c19DefOf(info, s.fi.Decl.Body, nObj); def != nil && c19IsSeqValueOf(info, def, dirObj) {
				_, again := c19AssignedInExcept(info, s.fi.Decl.Body, nObj)[nObj]
				nOK = !again
			}
		}
		mod := c19Pow10(t.SeqPath.Digits)
		for k := 0; k < t.SeqPath.Levels; k++ {
			cc := fmt.Sprintf("%s level %d", c, k+1)
			e := s.call.Args[1+s.intArgs[k]]
			d := c19Pow10(t.SeqPath.Digits * (t.SeqPath.Levels - 1 - k))
			switch {
			case !nOK:
				r.Bad(cc, e.Pos(), "`%s`: the level arguments are not all computed from one variable holding the numeric value of %s (and only that)", src(fs, e), src(fs, s.dirRecv))
			case !c19LevelOK(info, e, nObj, d, mod, k == 0):
				r.Bad(cc, e.Pos(), "level %d of the path is `%s`; the planet layout needs the decimal digits %d..%d of the sequence number, i.e. (%s/%d)%%%d", k+1, src(fs, e), t.SeqPath.Digits*(t.SeqPath.Levels-1-k), t.SeqPath.Digits*(t.SeqPath.Levels-k)-1, nObj.Name(), d, mod)
			default:
				r.OK(cc, e.Pos(), "`%s` = decimal digit group %d of %s (divisor %d, modulus %d, constants evaluated by the type checker)", src(fs, e), k+1, nObj.Name(), d, mod)
			}
		}
	}
	if len(builders) == 0 {
		r.Anchor("sequence path builders (fmt.Sprintf with a Dir() and integer level arguments)")
	}

	// (b) suffixes: every use of a builder is `builder(x) + CONST`
	var concats []*c19Concat
	for _, fi := range c19SortedFuncs(m.funcs) {
		fi := fi
		par := parentsOf(r.P, fi)
		ast.Inspect(fi.Decl.Body, func(n ast.Node) bool {
			call, ok := n.(*ast.CallExpr)
			if !ok {
				return true
			}
			fn := callee(info, call)
			if _, isB := builders[fn]; !isB {
				return true
			}
			cc := &c19Concat{fi: fi, builder: fn, pos: call.Pos()}
			if be, ok := par[call].(*ast.BinaryExpr); ok && be.Op == token.ADD && be.X == ast.Expr(call) {
				if sfx, ok := constString(info, be.Y); ok {
					if _, nested := par[be].(*ast.BinaryExpr); !nested {
						cc.suffix, cc.ok = sfx, true
					}
				}
			}
			concats = append(concats, cc)
			return true
		})
	}
	for _, cc := range concats {
		if !cc.ok {
			r.Unknown("suffix@"+cc.fi.Name(), cc.pos, "the result of %s is not used as `%s(x) + \"<constant suffix>\"`; the file name requested cannot be determined", cc.builder.Name(), cc.builder.Name())
		}
	}
	for _, dm := range m.methods {
		if dm.role != "state" && dm.role != "data" {
			continue
		}
		c := "file@" + dm.fi.Name()
		k, ok := t.Kinds[dm.kind.Obj().Name()]
		if !ok {
			r.Unknown(c, dm.fi.Decl.Pos(), "sequence-number type %s is not in tables/replication.json", dm.kind.Obj().Name())
			continue
		}
		want := t.Families[k.Family].StateSuffix
		if dm.role == "data" {
			want = t.Families[k.Family].DataSuffix
		}
		reach := c19Reach(m.pk, m.funcs, dm.fi.Obj)
		var got []string
		bad := ""
		for _, cc := range concats {
			if reach[cc.fi.Obj] == nil || !cc.ok {
				continue
			}
			got = append(got, cc.builder.Name()+"+"+cc.suffix)
			if builders[cc.builder] != k.Family {
				bad = fmt.Sprintf("uses the path builder of family %s (%s)", builders[cc.builder], cc.builder.Name())
			} else if cc.suffix != want {
				bad = fmt.Sprintf("requests suffix %q (%s)", cc.suffix, r.P.Rel(cc.pos))
			}
		}
		switch {
		case len(got) == 0:
			r.Bad(c, dm.fi.Decl.Pos(), "%s reaches no sequence-numbered URL (`builder(n) + suffix`)", dm.fi.Name())
		case bad != "":
			r.Bad(c, dm.fi.Decl.Pos(), "%s %s; the planet server names the %s file of a %s sequence `NNN/NNN/NNN%s`", dm.fi.Name(), bad, dm.role, k.Family, want)
		case len(got) != 1:
			r.Unknown(c, dm.fi.Decl.Pos(), "%s reaches %d sequence-numbered URLs %v; expected exactly one", dm.fi.Name(), len(got), got)
		default:
			r.OK(c, dm.fi.Decl.Pos(), "the only sequence-numbered URL reachable is %s (family %s, %s file)", strings.Replace(got[0], "+", "(n) + ", 1), k.Family, dm.role)
		}
	}

	// (c) numbered vs current URL selection, and the Current…State methods ask for number 0
	for _, s := range currentSites {
		c := "select@" + s.fi.Name()
		par := parentsOf(r.P, s.fi)
		ifs, _ := enclosing(par, s.call, func(n ast.Node) bool { _, ok := n.(*ast.IfStmt); return ok }).(*ast.IfStmt)
		dirObj := objOf(info, s.dirRecv)
		if ifs == nil || ifs.Else == nil || c19ParamOf(s.fi, dirObj) < 0 {
			r.Unknown(c, s.call.Pos(), "the current-state URL is not chosen by an if/else on the sequence-number parameter")
			continue
		}
		op, okz := c19ZeroTest(info, ifs.Cond, dirObj)
		inThen := ifs.Body.Pos() <= s.call.Pos() && s.call.End() <= ifs.Body.End()
		var other ast.Node = ifs.Else
		if !inThen {
			other = ifs.Body
		}
		otherNumbered := false
		for _, cc := range concats {
			if cc.fi == s.fi && other.Pos() <= cc.pos && cc.pos <= other.End() {
				otherNumbered = true
			}
		}
		switch {
		case !okz:
			r.Unknown(c, ifs.Cond.Pos(), "`%s` is not a comparison of %s with 0", src(fs, ifs.Cond), dirObj.Name())
		case (op == token.EQL) != inThen:
			r.Bad(c, ifs.Cond.Pos(), "`if %s`: the current-state file is requested for non-zero sequence numbers and the numbered file for 0", src(fs, ifs.Cond))
		case !otherNumbered:
			r.Bad(c, ifs.Cond.Pos(), "the other branch of `if %s` does not build the sequence-numbered URL", src(fs, ifs.Cond))
		default:
			r.OK(c, ifs.Cond.Pos(), "`if %s`: number 0 selects the current-state file, every other number its NNN/NNN/NNN file", src(fs, ifs.Cond))
		}
	}
	for _, dm := range m.methods {
		if dm.role != "current" {
			continue
		}
		c := "current@" + dm.fi.Name()
		n, zero := 0, 0
		ast.Inspect(dm.fi.Decl.Body, func(x ast.Node) bool {
			call, ok := x.(*ast.CallExpr)
			if !ok {
				return true
			}
			fn := callee(info, call)
			if fn == nil || m.funcs[fn] == nil {
				return true
			}
			for _, a := range call.Args {
				if b, ok := info.TypeOf(a).Underlying().(*types.Basic); ok && b.Info()&types.IsInteger != 0 {
					n++
					if v, ok := constInt(info, a); ok && v == 0 {
						zero++
					}
				}
			}
			return true
		})
		if n == 1 && zero == 1 {
			r.OK(c, dm.fi.Decl.Pos(), "asks the state fetcher for sequence number 0, which selects the current-state file")
		} else {
			r.Bad(c, dm.fi.Decl.Pos(), "%s does not ask the state fetcher for the constant sequence number 0 (the current-state file)", dm.fi.Name())
		}
	}

	// (d) Dir() values
	var kn []string
	for k := range t.Kinds {
		kn = append(kn, k)
	}
	sort.Strings(kn)
	for _, name := range kn {
		c := "dir@" + name
		fi := findFunc(m.pk, name+".Dir")
		if m.kinds[name] == nil || fi == nil {
			r.Anchor(c19Pkg + "." + name + ".Dir")
			continue
		}
		var vals []string
		konst := true
		ast.Inspect(fi.Decl.Body, func(n ast.Node) bool {
			if ret, ok := n.(*ast.ReturnStmt); ok && len(ret.Results) == 1 {
				if v, ok := constString(info, ret.Results[0]); ok {
					vals = append(vals, v)
				} else {
					konst = false
				}
			}
			return true
		})
		switch {
		case !konst || len(vals) != 1:
			r.Unknown(c, fi.Decl.Pos(), "Dir() does not return a single constant string")
		case vals[0] != t.Kinds[name].Dir:
			r.Bad(c, fi.Decl.Pos(), "%s.Dir() returns %q; the planet directory is %q", name, vals[0], t.Kinds[name].Dir)
		default:
			r.OKTrivial(c, fi.Decl.Pos(), "%s.Dir() = %q", name, vals[0])
		}
	}

	c19M3Time(r, m, t)
	c19M3NotFound(r, m, t)
}

// c19AssignedInExcept is c19AssignedIn without the defining `:=` of v.
func c19AssignedInExcept(info *types.Info, body ast.Node, v types.Object) map[types.Object]token.Pos {
	out := map[types.Object]token.Pos{}
	ast.Inspect(body, func(n ast.Node) bool {
		switch s := n.(type) {
		case *ast.AssignStmt:
			for _, l := range s.Lhs {
				if id, ok := l.(*ast.Ident); ok && info.Defs[id] == v {
					continue
				}
				if o := rootObj(info, l); o != nil {
					out[o] = s.Pos()
				}
			}
		case *ast.IncDecStmt:
			if o := rootObj(info, s.X); o != nil {
				out[o] = s.Pos()
			}
		case *ast.UnaryExpr:
			if s.Op == token.AND {
				if o := rootObj(info, s.X); o != nil {
					out[o] = s.Pos()
				}
			}
		}
		return true
	})
	return out
}

// c19ZeroTest recognises `p == 0`, `p != 0`, `p.Uint64() != 0`, `uint64(p) == 0` (either order).
func c19ZeroTest(info *types.Info, cond ast.Expr, p types.Object) (token.Token, bool) {
	be, ok := ast.Unparen(cond).(*ast.BinaryExpr)
	if !ok || (be.Op != token.EQL && be.Op != token.NEQ) {
		return 0, false
	}
	x, y := be.X, be.Y
	if v, ok := constInt(info, x); ok && v == 0 {
		x, y = y, x
	}
	if v, ok := constInt(info, y); !ok || v != 0 {
		return 0, false
	}
	if _, isConst := constInt(info, x); isConst || !c19IsSeqValueOf(info, x, p) {
		return 0, false
	}
	return be.Op, true
}

// c19M3Time: the function that parses state timestamps tries a list of constant layouts in order
// and returns the first success; the planet's timestamp forms (table) must come out right.
func c19M3Time(r *core.R, m *c19Model, t *c19Table) {
	info := m.info
	fs := r.P.Fset
	stateReach := map[*types.Func]*FuncInfo{}
	for _, dm := range m.methods {
		if dm.role == "state" {
			for f, fi := range c19Reach(m.pk, m.funcs, dm.fi.Obj) {
				stateReach[f] = fi
			}
		}
	}
	var parsers []*FuncInfo
	calls := map[*FuncInfo]*ast.CallExpr{}
	for _, fi := range c19SortedFuncs(stateReach) {
		fi := fi
		ast.Inspect(fi.Decl.Body, func(n ast.Node) bool {
			if call, ok := n.(*ast.CallExpr); ok && isPkgFunc(callee(info, call), "time", "Parse") && len(call.Args) == 2 {
				if calls[fi] == nil {
					parsers = append(parsers, fi)
				}
				calls[fi] = call
			}
			return true
		})
	}
	if len(parsers) != 1 {
		r.Anchor(fmt.Sprintf("the single function calling time.Parse reachable from the state fetchers (found %d)", len(parsers)))
		return
	}
	fi := parsers[0]
	call := calls[fi]
	c := "time-loop@" + fi.Name()
	par := parentsOf(r.P, fi)
	rs, _ := enclosing(par, call, func(n ast.Node) bool { _, ok := n.(*ast.RangeStmt); return ok }).(*ast.RangeStmt)
	if rs == nil || rs.Value == nil || objOf(info, call.Args[0]) == nil || objOf(info, call.Args[0]) != objOf(info, rs.Value) {
		r.Unknown(c, call.Pos(), "`%s` is not applied to the value variable of a range over the layout list", src(fs, call))
		return
	}
	if c19ParamOf(fi, objOf(info, call.Args[1])) < 0 {
		r.Unknown(c, call.Pos(), "`%s` does not parse the function's string parameter", src(fs, call))
		return
	}
	// layouts: a composite literal of constant strings, directly or through a package variable never reassigned
	var lit *ast.CompositeLit
	listObj := objOf(info, rs.X)
	if cl, ok := ast.Unparen(rs.X).(*ast.CompositeLit); ok {
		lit = cl
	} else if v, ok := listObj.(*types.Var); ok && v.Parent() == m.pk.Types.Scope() {
		for _, f := range m.pk.Syntax {
			ast.Inspect(f, func(n ast.Node) bool {
				vs, ok := n.(*ast.ValueSpec)
				if !ok {
					return true
				}
				for i, nm := range vs.Names {
					if info.Defs[nm] == v && i < len(vs.Values) {
						lit, _ = ast.Unparen(vs.Values[i]).(*ast.CompositeLit)
					}
				}
				return true
			})
		}
		for _, g := range c19SortedFuncs(m.funcs) {
			if pos, ok := c19AssignedIn(info, g.Decl.Body)[v]; ok {
				r.Unknown(c, pos, "the layout list %s is modified at run time in %s", v.Name(), g.Name())
				return
			}
		}
	}
	if lit == nil {
		r.Unknown(c, rs.Pos(), "the layout list `%s` is not a composite literal of constant strings", src(fs, rs.X))
		return
	}
	var layouts []string
	for _, e := range lit.Elts {
		s, ok := constString(info, e)
		if !ok {
			r.Unknown(c, e.Pos(), "layout `%s` is not a constant string", src(fs, e))
			return
		}
		layouts = append(layouts, s)
	}
	// first success is returned from inside the loop
	firstWins := false
	ast.Inspect(rs.Body, func(n ast.Node) bool {
		ifs, ok := n.(*ast.IfStmt)
		if !ok {
			return true
		}
		be, ok := ast.Unparen(ifs.Cond).(*ast.BinaryExpr)
		if !ok || be.Op != token.EQL || !c19IsError(info.TypeOf(be.X)) || !info.Types[be.Y].IsNil() {
			return true
		}
		for _, s := range ifs.Body.List {
			if _, ok := s.(*ast.ReturnStmt); ok && ifs.Pos() > call.Pos() {
				firstWins = true
			}
		}
		return true
	})
	if !firstWins {
		r.Bad(c, rs.Pos(), "the layout loop does not return on the first layout that parses (`if err == nil { return t, nil }` after time.Parse)")
		return
	}
	r.OK(c, rs.Pos(), "tries the %d constant layouts of `%s` in order on its parameter and returns the first that parses", len(layouts), src(fs, rs.X))
	r.Stat("time_layouts", len(layouts))
	for _, ex := range t.Timestamps {
		cc := "time " + ex.Family + " " + ex.Text
		want, err := time.Parse(time.RFC3339Nano, ex.Instant)
		if err != nil {
			r.Anchor("table timestamps instant " + ex.Instant)
			continue
		}
		done := false
		for _, l := range layouts {
			got, err := time.Parse(l, ex.Text)
			if err != nil {
				continue
			}
			done = true
			if got.Equal(want) {
				r.OK(cc, lit.Pos(), "planet timestamp %q is accepted by layout %q (first match in list order) as %s", ex.Text, l, want.UTC().Format(time.RFC3339Nano))
			} else {
				r.Bad(cc, lit.Pos(), "planet timestamp %q is read by layout %q as %s instead of %s", ex.Text, l, got.UTC().Format(time.RFC3339Nano), want.UTC().Format(time.RFC3339Nano))
			}
			break
		}
		if !done {
			r.Bad(cc, lit.Pos(), "no layout of %q accepts the planet's %s state timestamp %q (escaped colons / fractional seconds): every such state file fails to decode and the lookup aborts", layouts, ex.Family, ex.Text)
		}
	}
}

// c19M3NotFound: NotFound(err) is true only for *UnexpectedStatusCodeError with Code == 404, and
// the fetchers put the real HTTP status into that error.
func c19M3NotFound(r *core.R, m *c19Model, t *c19Table) {
	info := m.info
	fs := r.P.Fset
	fi := findFunc(m.pk, "NotFound")
	errT, errSt := structType(m.pk, "UnexpectedStatusCodeError")
	if fi == nil || errSt == nil {
		r.Anchor(c19Pkg + ".NotFound / UnexpectedStatusCodeError")
		return
	}
	var codeFld *types.Var
	for i := 0; i < errSt.NumFields(); i++ {
		if errSt.Field(i).Name() == "Code" {
			codeFld = errSt.Field(i)
		}
	}
	if codeFld == nil || fi.Obj.Type().(*types.Signature).Params().Len() != 1 {
		r.Anchor(c19Pkg + ".UnexpectedStatusCodeError.Code")
		return
	}
	errParam := fi.Obj.Type().(*types.Signature).Params().At(0)
	positive := 0
	bad := false
	ast.Inspect(fi.Decl.Body, func(n ast.Node) bool {
		ret, ok := n.(*ast.ReturnStmt)
		if !ok {
			return true
		}
		if len(ret.Results) != 1 {
			r.Unknown("notfound return", ret.Pos(), "`%s`: not a single boolean result", src(fs, ret))
			bad = true
			return true
		}
		e := ast.Unparen(ret.Results[0])
		if tv := info.Types[e]; tv.Value != nil {
			if tv.Value.String() == "true" {
				r.Bad("notfound return", ret.Pos(), "NotFound returns the constant true at %s: errors other than status %d are then treated as a missing file and stepped over", r.P.Rel(ret.Pos()), t.NotFoundStatus)
				bad = true
			}
			return true
		}
		be, ok := e.(*ast.BinaryExpr)
		if !ok || be.Op != token.EQL {
			r.Unknown("notfound return", ret.Pos(), "`%s` is not of the accepted forms `return false` / `return e.Code == <const>`", src(fs, ret))
			bad = true
			return true
		}
		x, y := be.X, be.Y
		if _, ok := constInt(info, x); ok {
			x, y = y, x
		}
		v, isConst := constInt(info, y)
		if fieldOf(info, x) != codeFld || !isConst {
			r.Unknown("notfound return", ret.Pos(), "`%s` does not compare UnexpectedStatusCodeError.Code with a constant", src(fs, ret))
			bad = true
			return true
		}
		if v != t.NotFoundStatus {
			r.Bad("notfound return", ret.Pos(), "`%s` treats status %d as \"file missing\"; only %d means the state file does not exist (any other status must abort the search, not be stepped over)", src(fs, ret), v, t.NotFoundStatus)
			bad = true
			return true
		}
		// the value whose Code is read must come from a type assertion of the parameter
		root := rootObj(info, x)
		fromParam := false
		ast.Inspect(fi.Decl.Body, func(k ast.Node) bool {
			if ta, ok := k.(*ast.TypeAssertExpr); ok && objOf(info, ta.X) == errParam && ta.Type != nil && namedPath(info.TypeOf(ta.Type)) == namedPath(errT) {
				if as, ok := parentsOf(r.P, fi)[ta].(*ast.AssignStmt); ok && len(as.Lhs) > 0 && objOf(info, as.Lhs[0]) == root {
					fromParam = true
				}
			}
			return true
		})
		if !fromParam {
			r.Unknown("notfound return", ret.Pos(), "`%s`: %s is not the parameter asserted to *UnexpectedStatusCodeError", src(fs, ret), root.Name())
			bad = true
			return true
		}
		positive++
		return true
	})
	if !bad {
		if positive == 0 {
			r.Bad("notfound return", fi.Decl.Pos(), "NotFound never returns true: a missing state file aborts the search instead of being stepped over")
		} else {
			r.OK("notfound return", fi.Decl.Pos(), "every return is `false` or `%s.Code == %d` on the parameter asserted to *UnexpectedStatusCodeError", "e", t.NotFoundStatus)
		}
	}
	// the status put into the error is the response's status, under a `!= 200` test
	nlit := 0
	for _, g := range c19SortedFuncs(m.funcs) {
		g := g
		ast.Inspect(g.Decl.Body, func(n ast.Node) bool {
			cl, ok := n.(*ast.CompositeLit)
			if !ok || namedPath(info.TypeOf(cl)) != namedPath(errT) {
				return true
			}
			nlit++
			c := "status@" + g.Name()
			var code ast.Expr
			for _, e := range cl.Elts {
				if kv, ok := e.(*ast.KeyValueExpr); ok {
					if id, ok := kv.Key.(*ast.Ident); ok && info.Uses[id] == codeFld {
						code = kv.Value
					}
				}
			}
			f := fieldOf(info, code)
			if code == nil || f == nil || f.Name() != "StatusCode" || namedPath(info.TypeOf(ast.Unparen(code).(*ast.SelectorExpr).X)) != "net/http.Response" {
				r.Bad(c, cl.Pos(), "`%s`: Code is not the StatusCode of the HTTP response, so NotFound cannot recognise a 404", src(fs, cl))
				return true
			}
			ifs, _ := enclosing(parentsOf(r.P, g), cl, func(n ast.Node) bool { _, ok := n.(*ast.IfStmt); return ok }).(*ast.IfStmt)
			okGuard := false
			if ifs != nil {
				if be, ok := ast.Unparen(ifs.Cond).(*ast.BinaryExpr); ok && be.Op == token.NEQ && fieldOf(info, be.X) == f {
					if v, ok := constInt(info, be.Y); ok && v == t.OKStatus {
						okGuard = true
					}
				}
			}
			if !okGuard {
				r.Bad(c, cl.Pos(), "the status error is not raised under `resp.StatusCode != %d`", t.OKStatus)
				return true
			}
			r.OK(c, cl.Pos(), "under `%s` the error carries Code: %s", src(fs, ifs.Cond), src(fs, code))
			return true
		})
	}
	if nlit == 0 {
		r.Anchor("UnexpectedStatusCodeError literals in the fetchers")
	}
}

// ---------------------------------------------------------------- M4

func c19M4(r *core.R) {
	m := c19BuildModel(r)
	t := c19LoadTable(r)
	if m == nil || t == nil {
		return
	}
	info := m.info
	fs := r.P.Fset
	n := 0
	for _, dm := range m.methods {
		if dm.role != "state" {
			continue
		}
		k, ok := t.Kinds[dm.kind.Obj().Name()]
		if !ok {
			continue
		}
		off := t.Families[k.Family].SeqOffset
		if off == 0 {
			continue
		}
		n++
		// the fetcher: reachable function with a parameter of the kind type and a *State local defined from a package call
		var fi *FuncInfo
		var sVar, nPar types.Object
		var decode *types.Func
		var defPos token.Pos
		for _, g := range c19SortedFuncs(c19Reach(m.pk, m.funcs, dm.fi.Obj)) {
			ps := g.Obj.Type().(*types.Signature).Params()
			var p types.Object
			for i := 0; i < ps.Len(); i++ {
				if types.Identical(ps.At(i).Type(), dm.kind) {
					p = ps.At(i)
				}
			}
			if p == nil {
				continue
			}
			ast.Inspect(g.Decl.Body, func(x ast.Node) bool {
				as, ok := x.(*ast.AssignStmt)
				if !ok || len(as.Rhs) != 1 || len(as.Lhs) == 0 {
					return true
				}
				call, ok := as.Rhs[0].(*ast.CallExpr)
				if !ok {
					return true
				}
				fn := callee(info, call)
				o := objOf(info, as.Lhs[0])
				if fn == nil || m.funcs[fn] == nil || o == nil {
					return true
				}
				if pt, ok := o.Type().(*types.Pointer); ok && types.Identical(pt.Elem(), m.stateT) && fi == nil {
					fi, sVar, nPar, decode, defPos = g, o, p, fn, as.Pos()
				}
				return true
			})
		}
		if fi == nil {
			r.Anchor("changeset state fetcher reachable from " + dm.fi.Name() + " (a *State decoded from the response in a function with a " + dm.kind.Obj().Name() + " parameter)")
			continue
		}
		c := "offbyone@" + fi.Name()
		// writes to s.SeqNum
		type wr struct {
			stmt ast.Stmt
			pos  token.Pos
		}
		var writes []wr
		ast.Inspect(fi.Decl.Body, func(x ast.Node) bool {
			switch s := x.(type) {
			case *ast.AssignStmt:
				for _, l := range s.Lhs {
					if fieldOf(info, l) == m.seqField && rootObj(info, l) == sVar {
						writes = append(writes, wr{s, s.Pos()})
					}
				}
			case *ast.IncDecStmt:
				if fieldOf(info, s.X) == m.seqField && rootObj(info, s.X) == sVar {
					writes = append(writes, wr{s, s.Pos()})
				}
			}
			return true
		})
		// the if on the parameter being 0
		var ifs *ast.IfStmt
		var op token.Token
		ast.Inspect(fi.Decl.Body, func(x ast.Node) bool {
			if s, ok := x.(*ast.IfStmt); ok && s.Pos() > defPos && s.Else != nil {
				if o, ok := c19ZeroTest(info, s.Cond, nPar); ok && ifs == nil {
					ifs, op = s, o
				}
			}
			return true
		})
		inc := -off
		docCur := fmt.Sprintf("the `sequence:` value of %s is %d less than the number of the file it describes, so the current state must report sequence%+d", t.Families[k.Family].CurrentState, inc, inc)
		docNum := "the state of a numbered file must report the number it was requested under, not the (off by one) value stored inside it"
		if ifs == nil {
			r.Bad(c+" current", defPos, "no `if %s == 0 … else …` correction after `%s` is decoded: %s", nPar.Name(), sVar.Name(), docCur)
			r.Bad(c+" numbered", defPos, "no `if %s == 0 … else …` correction after `%s` is decoded: %s", nPar.Name(), sVar.Name(), docNum)
		} else {
			var zeroB, nonzeroB ast.Node = ifs.Body, ifs.Else
			if op == token.NEQ {
				zeroB, nonzeroB = nonzeroB, zeroB
			}
			inB := func(b ast.Node) []wr {
				var out []wr
				for _, w := range writes {
					if b.Pos() <= w.pos && w.pos <= b.End() {
						out = append(out, w)
					}
				}
				return out
			}
			// success returns of s must be dominated by the if
			g := newCFG(info, fi.Decl.Body)
			dom := dominators(g)
			domOK, nret := true, 0
			ast.Inspect(fi.Decl.Body, func(x ast.Node) bool {
				if _, ok := x.(*ast.FuncLit); ok {
					return false
				}
				if ret, ok := x.(*ast.ReturnStmt); ok && len(ret.Results) > 0 && objOf(info, ret.Results[0]) == sVar {
					nret++
					if !posDominates(g, dom, ifs.Cond.Pos(), ret.Pos()) || ret.Pos() < ifs.End() {
						domOK = false
					}
				}
				return true
			})
			extra := len(writes) - len(inB(zeroB)) - len(inB(nonzeroB))
			// zero branch: s.SeqNum += inc
			zw := inB(zeroB)
			zOK := false
			if len(zw) == 1 {
				switch s := zw[0].stmt.(type) {
				case *ast.IncDecStmt:
					zOK = s.Tok == token.INC && inc == 1
				case *ast.AssignStmt:
					if len(s.Rhs) == 1 {
						if v, ok := constInt(info, s.Rhs[0]); ok && s.Tok == token.ADD_ASSIGN && v == inc {
							zOK = true
						}
						if be, ok := ast.Unparen(s.Rhs[0]).(*ast.BinaryExpr); ok && s.Tok == token.ASSIGN && be.Op == token.ADD && fieldOf(info, be.X) == m.seqField && rootObj(info, be.X) == sVar {
							if v, ok := constInt(info, be.Y); ok && v == inc {
								zOK = true
							}
						}
					}
				}
			}
			switch {
			case !domOK || nret == 0:
				r.Bad(c+" current", ifs.Pos(), "the correction `if %s` does not dominate every `return %s, …`", src(fs, ifs.Cond), sVar.Name())
			case extra != 0:
				r.Bad(c+" current", ifs.Pos(), "%s.SeqNum is also written outside the `if %s` correction (%d more site(s))", sVar.Name(), src(fs, ifs.Cond), extra)
			case !zOK:
				got := "nothing"
				if len(zw) > 0 {
					got = "`" + src(fs, zw[0].stmt) + "`"
				}
				r.Bad(c+" current", ifs.Pos(), "for %s == 0 the branch does %s to %s.SeqNum; %s", nPar.Name(), got, sVar.Name(), docCur)
			default:
				r.OK(c+" current", zw[0].pos, "`%s` on the %s == 0 branch of `if %s`, the only write besides the numbered branch; the if dominates the %d return(s) of %s (table: state_sequence_offset %d)", src(fs, zw[0].stmt), nPar.Name(), src(fs, ifs.Cond), nret, sVar.Name(), off)
			}
			nw := inB(nonzeroB)
			nOK := false
			if len(nw) == 1 {
				if s, ok := nw[0].stmt.(*ast.AssignStmt); ok && s.Tok == token.ASSIGN && len(s.Rhs) == 1 && len(s.Lhs) == 1 {
					if _, isConst := constInt(info, s.Rhs[0]); !isConst && c19IsSeqValueOf(info, s.Rhs[0], nPar) {
						nOK = true
					}
				}
			}
			switch {
			case !domOK || nret == 0 || extra != 0:
				r.Bad(c+" numbered", ifs.Pos(), "see %s current", c)
			case !nOK:
				got := "nothing"
				if len(nw) > 0 {
					got = "`" + src(fs, nw[0].stmt) + "`"
				}
				r.Bad(c+" numbered", ifs.Pos(), "for %s != 0 the branch does %s to %s.SeqNum; %s (required `%s.SeqNum = uint64(%s)`)", nPar.Name(), got, sVar.Name(), docNum, sVar.Name(), nPar.Name())
			default:
				r.OK(c+" numbered", nw[0].pos, "`%s` on the %s != 0 branch: the state carries the number of the file requested", src(fs, nw[0].stmt), nPar.Name())
			}
		}
		// the decoder stores the YAML value as parsed
		cd := "raw@" + funcName(decode)
		dfi := m.funcs[decode]
		var val ast.Expr
		nl := 0
		ast.Inspect(dfi.Decl.Body, func(x ast.Node) bool {
			cl, ok := x.(*ast.CompositeLit)
			if !ok || !types.Identical(info.TypeOf(cl), m.stateT) {
				return true
			}
			nl++
			for _, e := range cl.Elts {
				if kv, ok := e.(*ast.KeyValueExpr); ok {
					if id, ok := kv.Key.(*ast.Ident); ok && info.Uses[id] == m.seqField {
						val = kv.Value
					}
				}
			}
			return true
		})
		other := 0
		ast.Inspect(dfi.Decl.Body, func(x ast.Node) bool {
			switch s := x.(type) {
			case *ast.AssignStmt:
				for _, l := range s.Lhs {
					if fieldOf(info, l) == m.seqField {
						other++
					}
				}
			case *ast.IncDecStmt:
				if fieldOf(info, s.X) == m.seqField {
					other++
				}
			}
			return true
		})
		vobj := objOf(info, val)
		if cv, ok := ast.Unparen(val).(*ast.CallExpr); val != nil && ok && len(cv.Args) == 1 {
			if tv, ok := info.Types[cv.Fun]; ok && tv.IsType() {
				vobj = objOf(info, cv.Args[0])
			}
		}
		fromParse := false
		if vobj != nil {
			ast.Inspect(dfi.Decl.Body, func(x ast.Node) bool {
				as, ok := x.(*ast.AssignStmt)
				if !ok || len(as.Rhs) != 1 || len(as.Lhs) == 0 || objOf(info, as.Lhs[0]) != vobj {
					return true
				}
				if call, ok := as.Rhs[0].(*ast.CallExpr); ok {
					fn := callee(info, call)
					if isPkgFunc(fn, "strconv", "ParseUint") || isPkgFunc(fn, "strconv", "ParseInt") || isPkgFunc(fn, "strconv", "Atoi") {
						fromParse = true
					}
				}
				return true
			})
		}
		switch {
		case nl != 1 || val == nil || other != 0:
			r.Unknown(cd, dfi.Decl.Pos(), "%s does not build its result with a single `State{SeqNum: v, …}` literal (accepted idiom)", funcName(decode))
		case !fromParse:
			r.Bad(cd, val.Pos(), "`SeqNum: %s` is not the parsed `sequence:` value itself: the fetcher's correction of %+d would be applied on top of another adjustment", src(fs, val), inc)
		default:
			r.OK(cd, val.Pos(), "`SeqNum: %s` is the strconv result for the `sequence:` line, unadjusted; the only correction is the fetcher's", src(fs, val))
		}
	}
	if n == 0 {
		r.Anchor("a state fetcher for a family with a non-zero state_sequence_offset (changesets)")
	}
}

// ---------------------------------------------------------------- M5

// c19Shape renders a syntax tree with every kind-specific name replaced by its role and every
// local by the ordinal of its first occurrence, so that siblings that differ only in the
// sequence-number type they serve render identically.
func (m *c19Model) shape(fi *FuncInfo) []string {
	var out []string
	locals := map[types.Object]int{}
	info := m.info
	var depth []ast.Node
	ast.Inspect(fi.Decl, func(n ast.Node) bool {
		if n == nil {
			depth = depth[:len(depth)-1]
			out = append(out, ")")
			return true
		}
		depth = append(depth, n)
		if n == ast.Node(fi.Decl.Name) {
			out = append(out, "(name")
			return true
		}
		if fi.Decl.Doc != nil && n == ast.Node(fi.Decl.Doc) {
			depth = depth[:len(depth)-1]
			return false
		}
		tok := strings.TrimPrefix(fmt.Sprintf("%T", n), "*ast.")
		if e, ok := n.(ast.Expr); ok {
			if tv, ok := info.Types[e]; ok && tv.Value != nil {
				// any constant expression (literal, named constant, arithmetic on them) is one token
				out = append(out, "(«const»", ")")
				depth = depth[:len(depth)-1]
				return false
			}
		}
		switch x := n.(type) {
		case *ast.Ident:
			o := info.Uses[x]
			if o == nil {
				o = info.Defs[x]
			}
			switch ob := o.(type) {
			case *types.TypeName:
				if nt, ok := ob.Type().(*types.Named); ok && m.kinds[ob.Name()] == nt {
					tok = "«K»"
				} else {
					tok = "type:" + ob.Name()
				}
			case *types.Const:
				tok = "«const»"
			case *types.Func:
				tok = "func:" + ob.Name()
				for _, dm := range m.methods {
					if dm.fi.Obj == ob {
						tok = "«ds." + dm.role + "»"
					}
				}
			case *types.Var:
				if ob.IsField() {
					tok = "field:" + ob.Name()
				} else if ob.Parent() == m.pk.Types.Scope() {
					tok = "pkgvar:" + ob.Name()
				} else {
					if _, ok := locals[ob]; !ok {
						locals[ob] = len(locals)
					}
					tok = fmt.Sprintf("v%d", locals[ob])
				}
			case nil:
				tok = "id:" + x.Name
			default:
				tok = "obj:" + x.Name
			}
		case *ast.BasicLit:
			tok = "lit:" + x.Value
		case *ast.BinaryExpr:
			tok += x.Op.String()
		case *ast.UnaryExpr:
			tok += x.Op.String()
		case *ast.AssignStmt:
			tok += x.Tok.String()
		case *ast.IncDecStmt:
			tok += x.Tok.String()
		case *ast.BranchStmt:
			tok += x.Tok.String()
		}
		out = append(out, "("+tok)
		return true
	})
	return out
}

func c19M5(r *core.R) {
	m := c19BuildModel(r)
	if m == nil {
		return
	}
	info := m.info
	fs := r.P.Fset
	// package-level delegates: F(ctx, t) = DefaultDatasource.F(ctx, t)
	var wrappers []*FuncInfo
	for _, e := range m.entries {
		c := "delegate@" + e.fi.Obj.Name()
		var w *FuncInfo
		if o, ok := m.pk.Types.Scope().Lookup(e.fi.Obj.Name()).(*types.Func); ok {
			w = m.funcs[o]
		}
		if w == nil {
			r.Anchor("package-level " + c19Pkg + "." + e.fi.Obj.Name())
			continue
		}
		wrappers = append(wrappers, w)
		okW := false
		why := "body is not a single `return DefaultDatasource." + e.fi.Obj.Name() + "(ctx, timestamp)`"
		if len(w.Decl.Body.List) == 1 {
			if ret, ok := w.Decl.Body.List[0].(*ast.ReturnStmt); ok && len(ret.Results) == 1 {
				if call, ok := ret.Results[0].(*ast.CallExpr); ok {
					ps := w.Obj.Type().(*types.Signature).Params()
					switch {
					case callee(info, call) != e.fi.Obj:
						why = fmt.Sprintf("delegates to %s instead of (*Datasource).%s: the lookup runs on another replication directory", src(fs, call.Fun), e.fi.Obj.Name())
					case len(call.Args) != ps.Len():
						why = "argument count differs"
					default:
						okW = true
						for i, a := range call.Args {
							if objOf(info, a) != ps.At(i) {
								okW = false
								why = fmt.Sprintf("argument %d `%s` is not the wrapper's own parameter %s", i+1, src(fs, a), ps.At(i).Name())
							}
						}
					}
				}
			}
		}
		if okW {
			r.OK(c, w.Decl.Pos(), "returns (*Datasource).%s on the default datasource with its own parameters in order", e.fi.Obj.Name())
		} else {
			r.Bad(c, w.Decl.Pos(), "%s: %s", w.Name(), why)
		}
	}
	// per method: the descriptor's closures serve the method's own kind on the method's own receiver; Min >= 1
	for _, e := range m.entries {
		name := e.fi.Name()
		var recv types.Object
		if e.fi.Decl.Recv != nil && len(e.fi.Decl.Recv.List) == 1 && len(e.fi.Decl.Recv.List[0].Names) == 1 {
			recv = info.Defs[e.fi.Decl.Recv.List[0].Names[0]]
		}
		var lit *ast.CompositeLit
		ast.Inspect(e.fi.Decl.Body, func(n ast.Node) bool {
			if cl, ok := n.(*ast.CompositeLit); ok && lit == nil && namedPath(info.TypeOf(cl)) == namedPath(m.stater) {
				lit = cl
			}
			return true
		})
		if lit == nil || recv == nil {
			r.Unknown("kind@"+name, e.fi.Decl.Pos(), "no search descriptor literal / unnamed receiver")
			continue
		}
		vals := map[*types.Var]ast.Expr{}
		for _, el := range lit.Elts {
			if kv, ok := el.(*ast.KeyValueExpr); ok {
				if id, ok := kv.Key.(*ast.Ident); ok {
					if f, ok := info.Uses[id].(*types.Var); ok {
						vals[f] = kv.Value
					}
				}
			}
		}
		check := func(fld *types.Var, role string) string {
			fl, ok := ast.Unparen(vals[fld]).(*ast.FuncLit)
			if vals[fld] == nil || !ok {
				return fmt.Sprintf("field %s is not set to a function literal", fld.Name())
			}
			var calls []*ast.CallExpr
			ast.Inspect(fl.Body, func(n ast.Node) bool {
				if call, ok := n.(*ast.CallExpr); ok {
					if fn := callee(info, call); fn != nil && m.funcs[fn] != nil {
						calls = append(calls, call)
					}
				}
				return true
			})
			if len(calls) != 1 {
				return fmt.Sprintf("field %s: expected exactly one call into the package, found %d", fld.Name(), len(calls))
			}
			call := calls[0]
			fn := callee(info, call)
			var dm *c19DSMethod
			for _, x := range m.methods {
				if x.fi.Obj == fn {
					dm = x
				}
			}
			sel, _ := ast.Unparen(call.Fun).(*ast.SelectorExpr)
			switch {
			case dm == nil || dm.role != role:
				return fmt.Sprintf("field %s calls %s, which is not a %s fetcher of Datasource", fld.Name(), fn.Name(), role)
			case dm.kind != e.kind:
				return fmt.Sprintf("field %s calls %s, the %s fetcher for %s, inside the lookup for %s: the search reads another replication directory", fld.Name(), fn.Name(), role, dm.kind.Obj().Name(), e.kind.Obj().Name())
			case sel == nil || objOf(info, sel.X) != recv:
				return fmt.Sprintf("field %s calls %s on `%s`, not on the method's receiver %s", fld.Name(), fn.Name(), src(fs, call.Fun), recv.Name())
			}
			if role == "state" {
				// second argument: K(n) with n the closure's integer parameter
				ok := false
				if len(call.Args) == 2 {
					if cv, isCall := ast.Unparen(call.Args[1]).(*ast.CallExpr); isCall && len(cv.Args) == 1 {
						if tv := info.Types[cv.Fun]; tv.IsType() {
							if o := objOf(info, cv.Args[0]); o != nil && fl.Type.Params != nil {
								for _, p := range fl.Type.Params.List {
									for _, nm := range p.Names {
										if info.Defs[nm] == o {
											ok = true
										}
									}
								}
							}
						}
					}
				}
				if !ok {
					return fmt.Sprintf("field %s: `%s` does not fetch the sequence number the search asks for (required %s(n) of the closure's parameter)", fld.Name(), src(fs, call), e.kind.Obj().Name())
				}
			}
			return ""
		}
		w1, w2 := check(m.curFld, "current"), check(m.fetchFld, "state")
		if w1 == "" && w2 == "" {
			r.OK("kind@"+name, lit.Pos(), "%s: %s and %s call the %s current/numbered state fetchers on the receiver", m.stater.Obj().Name(), m.curFld.Name(), m.fetchFld.Name(), e.kind.Obj().Name())
		} else {
			r.Bad("kind@"+name, lit.Pos(), "%s", strings.TrimPrefix(w1+"; "+w2, "; "))
		}
		if v, ok := constInt(info, vals[m.minFld]); vals[m.minFld] == nil || !ok {
			r.Unknown("min@"+name, lit.Pos(), "%s is not a constant", m.minFld.Name())
		} else if v < 1 {
			r.Bad("min@"+name, vals[m.minFld].Pos(), "%s: %d: sequence number 0 selects the current-state file, so the lower bound of the search would be the newest state and every lookup returns it", m.minFld.Name(), v)
		} else {
			r.OKTrivial("min@"+name, vals[m.minFld].Pos(), "%s = %d >= 1 (a numbered state file)", m.minFld.Name(), v)
		}
	}
	// sibling shapes
	for _, grp := range []struct {
		tag string
		fis []*FuncInfo
	}{{"method", func() []*FuncInfo {
		var o []*FuncInfo
		for _, e := range m.entries {
			o = append(o, e.fi)
		}
		return o
	}()}, {"delegate", wrappers}} {
		shapes := map[*FuncInfo][]string{}
		count := map[string]int{}
		for _, fi := range grp.fis {
			shapes[fi] = m.shape(fi)
			count[strings.Join(shapes[fi], " ")]++
		}
		var ref []string
		best := 0
		for _, fi := range grp.fis {
			if n := count[strings.Join(shapes[fi], " ")]; n > best {
				best, ref = n, shapes[fi]
			}
		}
		for _, fi := range grp.fis {
			c := "shape@" + fi.Name()
			sh := shapes[fi]
			if strings.Join(sh, " ") == strings.Join(ref, " ") && best*2 > len(grp.fis) || len(grp.fis) == 1 {
				r.OK(c, fi.Decl.Pos(), "same structure as its %d sibling(s) up to the sequence-number type (%d syntax nodes compared after replacing kind-specific names by roles)", best-1, len(sh)/2)
				continue
			}
			if best*2 <= len(grp.fis) {
				r.Unknown(c, fi.Decl.Pos(), "the %d %s siblings have no majority structure to compare with", len(grp.fis), grp.tag)
				continue
			}
			i := 0
			for i < len(sh) && i < len(ref) && sh[i] == ref[i] {
				i++
			}
			a, b := "<end>", "<end>"
			if i < len(sh) {
				a = sh[i]
			}
			if i < len(ref) {
				b = ref[i]
			}
			r.Bad(c, fi.Decl.Pos(), "%s differs from its %d siblings at syntax node %d: has %s where they have %s (after replacing kind-specific names by roles): the lookup for this replication kind does not follow the common search", fi.Name(), best, i, strings.TrimPrefix(a, "("), strings.TrimPrefix(b, "("))
		}
	}
}

// c19M2Exhausted: when both neighbour scans found nothing (every state file strictly between the
// bounds is missing) the search must give the same answer as its normal exit, the upper bound: the
// loop keeps lower.Timestamp < t <= upper.Timestamp, so with nothing in between the first available
// state at or after t is the upper bound.
func c19M2Exhausted(r *core.R, m *c19Model) {
	info := m.info
	fs := r.P.Fset
	for _, fi := range m.reachList {
		loops := c19CollectLoops(fi)
		for _, l := range loops {
			outer, ok := l.stmt.(*ast.ForStmt)
			if !ok || outer.Cond == nil {
				continue
			}
			// an outer loop with neighbour scans nested directly in it
			var lastScan token.Pos
			for _, k := range loops {
				if k.parent == l {
					if fl, ok := k.stmt.(*ast.ForStmt); ok && len(m.fetchesIn(fl.Body)) > 0 && fl.End() > lastScan {
						lastScan = fl.End()
					}
				}
			}
			if !lastScan.IsValid() {
				continue
			}
			c := "scans@" + fi.Name() + " exhausted"
			lo, hi := m.bounds(outer.Cond)
			var res types.Object
			for _, oc := range m.fetchesIn(outer.Body) {
				if as, ok := parentsOf(r.P, fi)[oc].(*ast.AssignStmt); ok && len(as.Lhs) > 0 {
					res = objOf(info, as.Lhs[0])
				}
			}
			// fall-through return of the function
			var final types.Object
			if n := len(fi.Decl.Body.List); n > 0 {
				if ret, ok := fi.Decl.Body.List[n-1].(*ast.ReturnStmt); ok && len(ret.Results) > 0 {
					final = objOf(info, ret.Results[0])
				}
			}
			var exit *ast.ReturnStmt
			var guard *ast.IfStmt
			for _, st := range outer.Body.List {
				ifs, ok := st.(*ast.IfStmt)
				if !ok || ifs.Pos() < lastScan || ifs.Else != nil {
					continue
				}
				be, ok := ast.Unparen(ifs.Cond).(*ast.BinaryExpr)
				if !ok || be.Op != token.EQL || res == nil || objOf(info, be.X) != res || !info.Types[be.Y].IsNil() {
					continue
				}
				for _, b := range ifs.Body.List {
					if ret, ok := b.(*ast.ReturnStmt); ok && exit == nil {
						exit, guard = ret, ifs
					}
				}
			}
			switch {
			case lo == nil || hi == nil || res == nil || final == nil || exit == nil || len(exit.Results) == 0:
				r.Unknown(c, outer.Pos(), "no `if <fetched state> == nil { return … }` after the neighbour scans / bound roles or fall-through return not recognised")
			case final != hi:
				r.Bad(c, fi.Decl.Body.List[len(fi.Decl.Body.List)-1].Pos(), "the search ends with `return %s`, which is not the upper bound %s of `for %s`", final.Name(), hi.Name(), src(fs, outer.Cond))
			case objOf(info, exit.Results[0]) != hi:
				r.Bad(c, exit.Pos(), "`if %s { %s }` after both neighbour scans: with every state file strictly between %s and %s missing the search answers `%s`, but its normal exit answers %s. The loop keeps %s.Timestamp < t <= %s.Timestamp, so %s is a state written before t: not the first state at or after t (e.g. states {1,9,10}, t between 1 and 9: the answer must be 9)",
					src(fs, guard.Cond), src(fs, exit), lo.Name(), hi.Name(), src(fs, exit.Results[0]), hi.Name(), lo.Name(), hi.Name(), src(fs, exit.Results[0]))
			default:
				r.OK(c, exit.Pos(), "`if %s { %s }` after both scans agrees with the fall-through `return %s`: with nothing available between the bounds the upper bound is the first state at or after t", src(fs, guard.Cond), src(fs, exit), hi.Name())
			}
		}
	}
}
