package rules

import (
	"go/ast"
	"go/token"
	"go/types"

	"golang.org/x/tools/go/cfg"
	"golang.org/x/tools/go/packages"
)

// Helpers that make rules robust against behaviour-preserving refactorings:
//   - guard facts: which atomic conditions are known true/false at a program point, whatever the
//     surface form of the tests (merged `A || B` guards, inverted branches, tagless switches, `a >= b` vs `b <= a`);
//   - alias expansion: `n := &w.Nodes[u.Index]; n.Lat = …` is treated as `w.Nodes[u.Index].Lat = …`;
//   - deep inspection: look through calls to unexported helpers of the same package (extracted functions).

// guardFact is an atomic boolean expression known to hold (val=true) or not to hold (val=false) at a point.
type guardFact struct {
	expr ast.Expr
	val  bool
	at   *cfg.Block // the block whose terminating condition establishes the fact
}

// condOf returns the boolean condition terminating block b, if any.
func condOf(info *types.Info, b *cfg.Block) ast.Expr {
	if len(b.Succs) != 2 || len(b.Nodes) == 0 {
		return nil
	}
	e, ok := b.Nodes[len(b.Nodes)-1].(ast.Expr)
	if !ok {
		return nil
	}
	if t := info.TypeOf(e); t != nil {
		if bt, ok := t.Underlying().(*types.Basic); ok && bt.Info()&types.IsBoolean != 0 {
			return e
		}
	}
	return nil
}

// splitFacts decomposes "e is val" into atomic facts: a true conjunction makes every conjunct true, a false
// disjunction makes every disjunct false, negation flips.
func splitFacts(e ast.Expr, val bool, at *cfg.Block, out *[]guardFact) {
	e = ast.Unparen(e)
	switch x := e.(type) {
	case *ast.UnaryExpr:
		if x.Op == token.NOT {
			splitFacts(x.X, !val, at, out)
			return
		}
	case *ast.BinaryExpr:
		if x.Op == token.LAND && val {
			splitFacts(x.X, true, at, out)
			splitFacts(x.Y, true, at, out)
			return
		}
		if x.Op == token.LOR && !val {
			splitFacts(x.X, false, at, out)
			splitFacts(x.Y, false, at, out)
			return
		}
	}
	*out = append(*out, guardFact{expr: e, val: val, at: at})
}

// factsAt returns the atomic facts established by the branch conditions that control block target:
// for every dominating condition block from which target is reachable through only one of the two edges.
func factsAt(info *types.Info, g *cfg.CFG, dom map[*cfg.Block]map[*cfg.Block]bool, target *cfg.Block) []guardFact {
	var out []guardFact
	for _, b := range g.Blocks {
		if !b.Live || b == target || !dom[target][b] {
			continue
		}
		cond := condOf(info, b)
		if cond == nil {
			continue
		}
		viaT := reachableFrom([]*cfg.Block{b.Succs[0]}, func(x *cfg.Block) bool { return x == b })[target]
		viaF := reachableFrom([]*cfg.Block{b.Succs[1]}, func(x *cfg.Block) bool { return x == b })[target]
		switch {
		case viaT && !viaF:
			splitFacts(cond, true, b, &out)
		case viaF && !viaT:
			splitFacts(cond, false, b, &out)
		}
	}
	return out
}

// factsAtPos is factsAt for the block containing pos.
func factsAtPos(info *types.Info, g *cfg.CFG, dom map[*cfg.Block]map[*cfg.Block]bool, pos token.Pos) []guardFact {
	b, _ := blockOf(g, pos)
	if b == nil {
		return nil
	}
	return factsAt(info, g, dom, b)
}

// cmpNorm normalises a comparison to (lhs, op, rhs) with op in {<, <=, ==, !=}: a > b becomes b < a, a >= b becomes b <= a.
func cmpNorm(e ast.Expr) (ast.Expr, token.Token, ast.Expr, bool) {
	be, ok := ast.Unparen(e).(*ast.BinaryExpr)
	if !ok {
		return nil, 0, nil, false
	}
	switch be.Op {
	case token.LSS, token.LEQ, token.EQL, token.NEQ:
		return be.X, be.Op, be.Y, true
	case token.GTR:
		return be.Y, token.LSS, be.X, true
	case token.GEQ:
		return be.Y, token.LEQ, be.X, true
	}
	return nil, 0, nil, false
}

// knownLess reports whether the facts establish a < b (strict) for expressions matched by the two predicates.
// It recognises: (a < b) true, (b <= a) false, and the flipped spellings.
func knownLess(facts []guardFact, isA, isB func(ast.Expr) bool) *guardFact {
	for i := range facts {
		f := &facts[i]
		l, op, r, ok := cmpNorm(f.expr)
		if !ok {
			continue
		}
		switch {
		case op == token.LSS && f.val && isA(l) && isB(r):
			return f
		case op == token.LEQ && !f.val && isA(r) && isB(l):
			return f // not (b <= a)  ==>  a < b
		}
	}
	return nil
}

// knownNonNil reports whether the facts establish x != nil.
func knownNonNil(facts []guardFact, isX func(ast.Expr) bool) *guardFact {
	for i := range facts {
		f := &facts[i]
		l, op, r, ok := cmpNorm(f.expr)
		if !ok {
			continue
		}
		var other ast.Expr
		switch {
		case isNilIdent(r):
			other = l
		case isNilIdent(l):
			other = r
		default:
			continue
		}
		if !isX(other) {
			continue
		}
		if (op == token.NEQ && f.val) || (op == token.EQL && !f.val) {
			return f
		}
	}
	return nil
}

// ---- alias expansion ----

// aliasTarget: if o is a local variable assigned exactly once in body as `o := &E` or `o := E` (E a pure
// selector/index/star chain), it returns E and whether the alias is a pointer to E.
func aliasTarget(info *types.Info, body ast.Node, o types.Object) (ast.Expr, bool) {
	var target ast.Expr
	ptr := false
	n := 0
	ast.Inspect(body, func(x ast.Node) bool {
		as, ok := x.(*ast.AssignStmt)
		if !ok {
			return true
		}
		for i, l := range as.Lhs {
			id, ok := ast.Unparen(l).(*ast.Ident)
			if !ok || (info.Defs[id] != o && info.Uses[id] != o) {
				continue
			}
			n++
			if len(as.Rhs) != len(as.Lhs) {
				continue
			}
			rhs := ast.Unparen(as.Rhs[i])
			if ue, ok := rhs.(*ast.UnaryExpr); ok && ue.Op == token.AND {
				if isPureChain(ue.X) {
					target, ptr = ue.X, true
				}
			} else if isPureChain(rhs) {
				target, ptr = rhs, false
			}
		}
		return true
	})
	if n != 1 {
		return nil, false
	}
	return target, ptr
}

func isPureChain(e ast.Expr) bool {
	switch x := ast.Unparen(e).(type) {
	case *ast.Ident:
		return true
	case *ast.SelectorExpr:
		return isPureChain(x.X)
	case *ast.IndexExpr:
		return isPureChain(x.X) && isPureChain(x.Index)
	case *ast.StarExpr:
		return isPureChain(x.X)
	case *ast.BasicLit:
		return true
	}
	return false
}

// expandAlias rewrites the root of a selector/index chain through pointer aliases (`n := &w.Nodes[i]`):
// it returns an expression built from the original nodes (so identifier objects still resolve through info.Uses).
// Only pointer aliases are expanded: a value copy (`n := w.Nodes[i]`) is a different object.
func expandAlias(info *types.Info, body ast.Node, e ast.Expr) ast.Expr {
	for depth := 0; depth < 3; depth++ {
		changed := false
		e = rewriteRoot(e, func(id *ast.Ident) ast.Expr {
			o := info.Uses[id]
			if o == nil {
				return nil
			}
			if _, isVar := o.(*types.Var); !isVar {
				return nil
			}
			t, ptr := aliasTarget(info, body, o)
			if t == nil || !ptr {
				return nil
			}
			changed = true
			return &ast.ParenExpr{X: t}
		})
		if !changed {
			break
		}
	}
	return e
}

func rewriteRoot(e ast.Expr, f func(*ast.Ident) ast.Expr) ast.Expr {
	switch x := e.(type) {
	case *ast.ParenExpr:
		if r := rewriteRoot(x.X, f); r != x.X {
			return &ast.ParenExpr{X: r}
		}
	case *ast.Ident:
		if r := f(x); r != nil {
			return r
		}
	case *ast.SelectorExpr:
		if r := rewriteRoot(x.X, f); r != x.X {
			return &ast.SelectorExpr{X: r, Sel: x.Sel}
		}
	case *ast.IndexExpr:
		if r := rewriteRoot(x.X, f); r != x.X {
			return &ast.IndexExpr{X: r, Index: x.Index, Lbrack: x.Lbrack, Rbrack: x.Rbrack}
		}
	case *ast.StarExpr:
		if r := rewriteRoot(x.X, f); r != x.X {
			return &ast.StarExpr{X: r}
		}
	}
	return e
}

// selField returns the field object selected by a (possibly synthesised) selector expression.
func selField(info *types.Info, sel *ast.SelectorExpr) *types.Var {
	if s := info.Selections[sel]; s != nil {
		if v, ok := s.Obj().(*types.Var); ok && s.Kind() == types.FieldVal {
			return v
		}
		return nil
	}
	if v, ok := info.Uses[sel.Sel].(*types.Var); ok && v.IsField() {
		return v
	}
	return nil
}

// sameExprX is sameExpr that also works on expressions synthesised by expandAlias (selectors are compared through
// the object of their Sel identifier) and treats pointer-to-chain aliases as the chain.
func sameExprX(info *types.Info, body ast.Node, a, b ast.Expr) bool {
	return sameChain(info, expandAlias(info, body, a), expandAlias(info, body, b))
}

func sameChain(info *types.Info, a, b ast.Expr) bool {
	a, b = stripDerefParen(a), stripDerefParen(b)
	switch x := a.(type) {
	case *ast.Ident:
		y, ok := b.(*ast.Ident)
		return ok && objOf(info, x) != nil && objOf(info, x) == objOf(info, y)
	case *ast.SelectorExpr:
		y, ok := b.(*ast.SelectorExpr)
		if !ok {
			return false
		}
		fx, fy := selField(info, x), selField(info, y)
		if fx == nil || fx != fy {
			// package-qualified identifiers / methods
			if info.Uses[x.Sel] == nil || info.Uses[x.Sel] != info.Uses[y.Sel] {
				return false
			}
			if _, isPkg := info.Uses[identOf(x.X)].(*types.PkgName); isPkg {
				return true
			}
		}
		return sameChain(info, x.X, y.X)
	case *ast.IndexExpr:
		y, ok := b.(*ast.IndexExpr)
		return ok && sameChain(info, x.X, y.X) && sameChain(info, x.Index, y.Index)
	case *ast.BasicLit:
		y, ok := b.(*ast.BasicLit)
		return ok && x.Value == y.Value
	case *ast.CallExpr:
		y, ok := b.(*ast.CallExpr)
		if !ok || len(x.Args) != len(y.Args) || callee(info, x) == nil || callee(info, x) != callee(info, y) {
			return false
		}
		for i := range x.Args {
			if !sameChain(info, x.Args[i], y.Args[i]) {
				return false
			}
		}
		sx, ok1 := x.Fun.(*ast.SelectorExpr)
		sy, ok2 := y.Fun.(*ast.SelectorExpr)
		if ok1 && ok2 {
			return sameChain(info, sx.X, sy.X)
		}
		return !ok1 && !ok2
	}
	return false
}

// stripDerefParen removes parentheses and explicit dereferences (`(*p).F` is `p.F`).
func stripDerefParen(e ast.Expr) ast.Expr {
	for {
		switch x := e.(type) {
		case *ast.ParenExpr:
			e = x.X
		case *ast.StarExpr:
			e = x.X
		default:
			return e
		}
	}
}

// ---- deep inspection through unexported helpers ----

// deepSite is a node found in fi itself or in a (transitively) called unexported helper of the same package.
type deepSite struct {
	fi    *FuncInfo       // function that lexically contains the node
	stack []*ast.CallExpr // call path from the root function to fi (empty for the root)
}

// inspectDeep visits the body of root and, through static calls, the bodies of same-package functions that are
// unexported (helpers an "extract function" refactoring creates), to the given depth. Recursive cycles are cut.
func inspectDeep(pk *packages.Package, root *FuncInfo, depth int, f func(site deepSite, n ast.Node) bool) {
	seen := map[*types.Func]bool{root.Obj: true}
	var visit func(fi *FuncInfo, stack []*ast.CallExpr, d int)
	visit = func(fi *FuncInfo, stack []*ast.CallExpr, d int) {
		site := deepSite{fi: fi, stack: stack}
		ast.Inspect(fi.Decl.Body, func(n ast.Node) bool {
			if n == nil {
				return true
			}
			if !f(site, n) {
				return false
			}
			if call, ok := n.(*ast.CallExpr); ok && d > 0 {
				fn := callee(pk.TypesInfo, call)
				if fn != nil && fn.Pkg() == pk.Types && !fn.Exported() && !seen[fn] {
					if tf := findFunc(pk, funcName(fn)); tf != nil && tf.Decl.Body != nil {
						seen[fn] = true
						visit(tf, append(append([]*ast.CallExpr{}, stack...), call), d-1)
					}
				}
			}
			return true
		})
	}
	visit(root, nil, depth)
}

// argForParam maps a parameter object of callee fi to the argument expression at the call (receiver included).
func argForParam(info *types.Info, fi *FuncInfo, call *ast.CallExpr, param types.Object) ast.Expr {
	if fi.Decl.Recv != nil && len(fi.Decl.Recv.List) == 1 && len(fi.Decl.Recv.List[0].Names) == 1 {
		if info.Defs[fi.Decl.Recv.List[0].Names[0]] == param {
			if sel, ok := call.Fun.(*ast.SelectorExpr); ok {
				return sel.X
			}
		}
	}
	idx := c01ParamIndex(info, fi, param)
	if idx >= 0 && idx < len(call.Args) {
		return call.Args[idx]
	}
	return nil
}

// singleReturnExpr returns the expression of a function whose body is a single `return E` (a predicate helper).
func singleReturnExpr(fi *FuncInfo) ast.Expr {
	if fi == nil || fi.Decl.Body == nil || len(fi.Decl.Body.List) != 1 {
		return nil
	}
	ret, ok := fi.Decl.Body.List[0].(*ast.ReturnStmt)
	if !ok || len(ret.Results) != 1 {
		return nil
	}
	return ret.Results[0]
}
