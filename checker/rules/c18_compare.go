package rules

import (
	"go/ast"
	"go/token"
)

func (x *c18Exec) arith(op token.Token, a, b c18Val, at ast.Node) c18Val {
	if a.k == c18KUnknown {
		return a
	}
	if b.k == c18KUnknown {
		return b
	}
	plain := func(v c18Val) bool {
		return v.k == c18KInt && (v.org == 0 || v.org == c18OSearchIdx || v.org == c18ONodeLen)
	}
	if plain(a) && plain(b) {
		r := c18Val{k: c18KInt}
		if a.org == c18ONodeLen || b.org == c18ONodeLen {
			r.org = c18ONodeLen
		}
		switch op {
		case token.ADD:
			r.i = a.i + b.i
		case token.SUB:
			r.i = a.i - b.i
		case token.MUL:
			r.i = a.i * b.i
		case token.QUO, token.REM:
			if b.i == 0 {
				x.stop("panic", "`%s` divides by zero", x.src(at))
			}
			if op == token.QUO {
				r.i = a.i / b.i
			} else {
				r.i = a.i % b.i
			}
		case token.SHL, token.SHR:
			if b.i < 0 || b.i > 62 || a.i < 0 {
				return c18Unk("shift `%s` is not modelled for these operands", x.src(at))
			}
			if op == token.SHL {
				r.i = a.i << uint(b.i)
			} else {
				r.i = a.i >> uint(b.i)
			}
		}
		return r
	}
	return c18Unk("arithmetic `%s` is not modelled", x.src(at))
}

func c18CmpInt(op token.Token, a, b int64) bool {
	switch op {
	case token.EQL:
		return a == b
	case token.NEQ:
		return a != b
	case token.LSS:
		return a < b
	case token.LEQ:
		return a <= b
	case token.GTR:
		return a > b
	}
	return a >= b
}

func c18Flip(op token.Token) token.Token {
	switch op {
	case token.LSS:
		return token.GTR
	case token.LEQ:
		return token.GEQ
	case token.GTR:
		return token.LSS
	case token.GEQ:
		return token.LEQ
	}
	return op
}

// compare evaluates a comparison of two abstract values; anything that is not one of the recognised
// atoms is unknown.
func (x *c18Exec) compare(op token.Token, a, b c18Val, at ast.Node) c18Val {
	if a.k == c18KUnknown {
		return a
	}
	if b.k == c18KUnknown {
		return b
	}
	bv := func(v bool) c18Val { return c18Val{k: c18KBool, b: v} }
	eqOp := op == token.EQL || op == token.NEQ
	eq := op == token.EQL
	s := x.s
	switch {
	case a.k == c18KNodeID && b.k == c18KNodeID && eqOp:
		i, j := a.i, b.i
		switch {
		case i == j:
			return bv(eq)
		case (i == 0 && j == s.n-1) || (j == 0 && i == s.n-1):
			return bv(s.closed == eq)
		}
		return c18Unk("`%s` compares the ids of nodes %d and %d, which says nothing about the way being closed", x.src(at), i, j)
	case a.k == c18KStr && b.k == c18KStr:
		if a.org != c18OElem && b.org == c18OElem {
			a, b, op = b, a, c18Flip(op)
		}
		if a.org == c18OElem && b.org == c18OElem {
			return bv(c18CmpInt(op, a.i, b.i)) // the witness list is strictly ascending
		}
		if a.org == c18OElem {
			if b.org != c18OEntryTag || !s.inBody {
				return c18Unk("`%s` compares a list element with something other than the tag value found under the entry's key", x.src(at))
			}
			// witness list e0 < e1 < ...; rk elements are smaller than the value; e[rk] == value iff q
			member, less := s.member(a.i), a.i < s.rk
			switch op {
			case token.EQL:
				return bv(member)
			case token.NEQ:
				return bv(!member)
			case token.LSS: // e < v
				return bv(less)
			case token.GEQ:
				return bv(!less)
			case token.LEQ:
				return bv(less || member)
			case token.GTR:
				return bv(!less && !member)
			}
		}
		if !eqOp {
			decided := func(v c18Val) bool { return v.org == c18OConst || v.org == c18OTag }
			if decided(a) && decided(b) && (a.org == c18OConst || b.org == c18OConst) {
				var r bool // both strings are concrete: this is what the run on this input does
				switch op {
				case token.LSS:
					r = a.s < b.s
				case token.LEQ:
					r = a.s <= b.s
				case token.GTR:
					r = a.s > b.s
				default:
					r = a.s >= b.s
				}
				return bv(r)
			}
			return c18Unk("`%s` orders strings that are not both decided", x.src(at))
		}
		if sym := func(v c18Val) bool { return v.org == c18OEntryKey || v.org == c18OOtherKey }; sym(a) || sym(b) {
			// keys of witness tags: the entry's key equals itself only (`area` and the other constants the code
			// mentions are not rule keys: L1), an unrelated key equals itself only
			return bv((a.org == b.org && a.s == b.s) == eq)
		}
		if a.org == c18OEntryKey || b.org == c18OEntryKey {
			return c18Unk("`%s` compares the entry's key, which is symbolic", x.src(at))
		}
		if a.org != c18OConst && b.org != c18OConst {
			return c18Unk("`%s` compares two input strings with each other", x.src(at))
		}
		return bv((a.s == b.s) == eq)
	case a.k == c18KInt && b.k == c18KInt:
		if a.org == c18OTableLen || b.org == c18OTableLen {
			return c18Unk("`%s` depends on the number of table entries", x.src(at))
		}
		if (a.org == c18ONodeLen || b.org == c18ONodeLen) && x.loopState != 0 {
			// the abstraction enters the rule loop with one representative node count only
			return c18Unk("`%s` makes the rule loop depend on the number of node refs", x.src(at))
		}
		if b.org == c18OStrLen && a.org != c18OStrLen {
			a, b, op = b, a, c18Flip(op)
		}
		if a.org == c18OStrLen {
			if b.org != 0 {
				return c18Unk("`%s` compares a string length with a symbolic integer", x.src(at))
			}
			if a.i == 0 { // empty string
				return bv(c18CmpInt(op, 0, b.i))
			}
			// non-empty: the length is some L >= 1; decided only when every L >= 1 agrees
			c := b.i
			switch {
			case op == token.EQL && c < 1, op == token.LSS && c <= 1, op == token.LEQ && c < 1:
				return bv(false)
			case op == token.NEQ && c < 1, op == token.GTR && c < 1, op == token.GEQ && c <= 1:
				return bv(true)
			}
			return c18Unk("`%s` depends on the length of a tag value or on the number of tags beyond empty / not empty", x.src(at))
		}
		return bv(c18CmpInt(op, a.i, b.i))
	case a.k == c18KBool && b.k == c18KBool && eqOp:
		return bv((a.b == b.b) == eq)
	case eqOp && (a.k == c18KNil || b.k == c18KNil):
		o := a
		if a.k == c18KNil {
			o = b
		}
		switch o.k {
		case c18KNil:
			return bv(eq)
		case c18KRecv, c18KEntry, c18KNode, c18KTagRec:
			return bv(!eq)
		}
	}
	return c18Unk("condition `%s` is not built from the recognised atoms (len(nodes) vs constant, first/last node id, Tags.Find(const|entry.key) vs constant, entry.polygon vs declared kind, search index vs len(values), values[index] vs value)", x.src(at))
}

// ---- calls
