package rules

import (
	"strings"

	"osmcheck/core"
)

// c16_variants3.go — sensitivity and robustness suites of rule E1 (edge coverage of the area sum and the ray cast).

// c16AreaLoop is the accumulation loop of MultiSegment.Orientation as it stands (with the declarations before it).
const c16AreaLoop = "\tprev := ms.First()\n\n\t// implicitly move everything to near the origin to help with roundoff\n\toffset := prev\n\tfor _, segment := range ms {\n\t\tfor _, point := range segment.Line {\n\t\t\tarea += (prev[0]-offset[0])*(point[1]-offset[1]) -\n\t\t\t\t(point[0]-offset[0])*(prev[1]-offset[1])\n\n\t\t\tprev = point\n\t\t}\n\t}\n"

// c16AreaTail is the rest of MultiSegment.Orientation.
const c16AreaTail = "\n\tif area > 0 {\n\t\treturn orb.CCW\n\t}\n\n\treturn orb.CW\n}\n"

// c16AreaIndexLoop: one index loop over the concatenated points (FROM is the first index, 1 today).
const c16AreaIndexLoop = "\tpts := ms.LineString()\n\toffset := pts[0]\n\tfor k := FROM; k < len(pts); k++ {\n\t\tprev, point := pts[k-1], pts[k]\n\t\tarea += (prev[0]-offset[0])*(point[1]-offset[1]) -\n\t\t\t(point[0]-offset[0])*(prev[1]-offset[1])\n\t}\n"

// c16AreaHelper: the term extracted into a helper; WHEN guards the advance of prev.
const c16AreaHelper = "\tprev := ms.First()\n\toffset := prev\n\tfor _, segment := range ms {\n\t\tfor i := range segment.Line {\n\t\t\tarea += cross(offset, prev, segment.Line[i])\n\t\t\tif WHEN {\n\t\t\t\tprev = segment.Line[i]\n\t\t\t}\n\t\t}\n\t}\n" + c16AreaTail + "\n// cross is the z component of (a-o) x (b-o).\nfunc cross(o, a, b orb.Point) float64 {\n\treturn (a[0]-o[0])*(b[1]-o[1]) - (b[0]-o[0])*(a[1]-o[1])\n}\n"

// c16CastLoop is the edge loop of polygonContains as it stands.
const c16CastLoop = "\t\ti, j := 0, len(outer)-1\n\t\tfor i < len(outer) {\n\t\t\txi, yi := outer[i][0], outer[i][1]\n\t\t\txj, yj := outer[j][0], outer[j][1]\n\n\t\t\tif ((yi > y) != (yj > y)) &&\n\t\t\t\t(x < (xj-xi)*(y-yi)/(yj-yi)+xi) {\n\t\t\t\tinside = !inside\n\t\t\t}\n\n\t\t\tj = i\n\t\t\ti++\n\t\t}\n"

// c16CastForClause: the loop with both indices in the for clause; LIMIT is the bound of i.
const c16CastForClause = "\t\tfor i, j := 0, len(outer)-1; i < LIMIT; j, i = i, i+1 {\n\t\t\txi, yi := outer[i][0], outer[i][1]\n\t\t\txj, yj := outer[j][0], outer[j][1]\n\n\t\t\tif (yi > y) != (yj > y) {\n\t\t\t\tif x < (xj-xi)*(y-yi)/(yj-yi)+xi {\n\t\t\t\t\tinside = !inside\n\t\t\t\t}\n\t\t\t}\n\t\t}\n"

// c16CastBody is polygonContains from its first statement to its end.
const c16CastBody = "\tfor _, p := range r {\n\t\tinside := false\n\n\t\tx, y := p[0], p[1]\n" + c16CastLoop + "\n\t\tif inside {\n\t\t\treturn true\n\t\t}\n\t}\n\n\treturn false\n}\n"

// c16CastHelper: the per-point test extracted (the shape of corpus patch benign/C16-a); START is the first (i, j).
const c16CastHelper = "\tfor _, p := range r {\n\t\tif pointInRing(outer, p) {\n\t\t\treturn true\n\t\t}\n\t}\n\n\treturn false\n}\n\n// pointInRing is a ray casting, even-odd, point in polygon test.\nfunc pointInRing(ring orb.Ring, p orb.Point) bool {\n\tinside := false\n\n\tx, y := p[0], p[1]\n\tfor i, j := START; i < len(ring); j, i = i, i+1 {\n\t\txi, yi := ring[i][0], ring[i][1]\n\t\txj, yj := ring[j][0], ring[j][1]\n\n\t\tif ((yi > y) != (yj > y)) &&\n\t\t\t(x < (xj-xi)*(y-yi)/(yj-yi)+xi) {\n\t\t\tinside = !inside\n\t\t}\n\t}\n\n\treturn inside\n}\n"

// c16CastEdgeList: the edges are listed first, then tested.
const c16CastEdgeList = "\t\ttype edge struct{ from, to orb.Point }\n\t\tedges := make([]edge, 0, len(outer))\n\t\tfor k := range outer {\n\t\t\tedges = append(edges, edge{from: outer[(k+len(outer)-1)%len(outer)], to: outer[k]})\n\t\t}\n\n\t\tfor _, e := range edges {\n\t\t\txi, yi := e.to[0], e.to[1]\n\t\t\txj, yj := e.from[0], e.from[1]\n\t\t\tstraddles := (yi > y) != (yj > y)\n\t\t\tif straddles && x < (xj-xi)*(y-yi)/(yj-yi)+xi {\n\t\t\t\tinside = !inside\n\t\t\t}\n\t\t}\n"

var c16Mutants3 = []core.Mutant{
	// the two held-out seeds
	{Name: "area-sum-restarts-per-segment", File: c16MputilGo, Find: c16AreaLoop,
		Replace:    "\n\t// implicitly move everything to near the origin to help with roundoff\n\toffset := ms.First()\n\tfor _, segment := range ms {\n\t\tprev := segment.First()\n\t\tfor _, point := range segment.Line[1:] {\n\t\t\tarea += (prev[0]-offset[0])*(point[1]-offset[1]) -\n\t\t\t\t(point[0]-offset[0])*(prev[1]-offset[1])\n\n\t\t\tprev = point\n\t\t}\n\t}\n",
		ExpectRule: "E1", ExpectConstruct: "area-sum["},
	{Name: "ray-cast-closing-edge-never-visited", File: c16BuildGo, Find: "\tfor _, p := range r {\n\t\tinside := false\n\n\t\tx, y := p[0], p[1]\n\t\ti, j := 0, len(outer)-1\n\t\tfor i < len(outer) {",
		Replace:    "\tn := len(outer) - 1\n\n\tfor _, p := range r {\n\t\tinside := false\n\n\t\tx, y := p[0], p[1]\n\t\ti, j := 0, n\n\t\tfor i < n {",
		ExpectRule: "E1", ExpectConstruct: "ray-cast["},
	// area sum
	{Name: "area-sum-prev-not-advanced", File: c16MputilGo, Find: "\n\t\t\tprev = point\n", Replace: "\n\t\t\t_ = prev\n", ExpectRule: "E1", ExpectConstruct: "area-sum["},
	{Name: "area-sum-skips-first-point-of-segment", File: c16MputilGo, Find: "\t\tfor _, point := range segment.Line {\n\t\t\tarea +=", Replace: "\t\tfor _, point := range segment.Line[1:] {\n\t\t\tarea +=", ExpectRule: "E1", ExpectConstruct: "area-sum["},
	{Name: "area-sum-skips-last-point-of-segment", File: c16MputilGo, Find: "\t\tfor _, point := range segment.Line {\n\t\t\tarea +=", Replace: "\t\tfor _, point := range segment.Line[:len(segment.Line)-1] {\n\t\t\tarea +=", ExpectRule: "E1", ExpectConstruct: "area-sum["},
	{Name: "area-sum-sign-inverted", File: c16MputilGo, Find: "\tif area > 0 {\n\t\treturn orb.CCW", Replace: "\tif area < 0 {\n\t\treturn orb.CCW", ExpectRule: "E1", ExpectConstruct: "area-sum["},
	{Name: "area-sum-term-mixes-axes", File: c16MputilGo, Find: "area += (prev[0]-offset[0])*(point[1]-offset[1]) -", Replace: "area += (prev[0]-offset[0])*(point[0]-offset[1]) -", ExpectRule: "E1", ExpectConstruct: "area-sum["},
	{Name: "area-sum-index-loop-skips-second-pair", File: c16MputilGo, Find: c16AreaLoop, Replace: strings.Replace(c16AreaIndexLoop, "FROM", "3", 1), ExpectRule: "E1", ExpectConstruct: "area-sum["},
	{Name: "area-sum-helper-prev-held-at-boundary", File: c16MputilGo, Find: c16AreaLoop + c16AreaTail, Replace: strings.Replace(c16AreaHelper, "WHEN", "i > 0", 1), ExpectRule: "E1", ExpectConstruct: "area-sum["},
	// ray cast
	{Name: "ray-cast-skips-first-pairs", File: c16BuildGo, Find: "\t\ti, j := 0, len(outer)-1\n", Replace: "\t\ti, j := 2, 1\n", ExpectRule: "E1", ExpectConstruct: "ray-cast["},
	{Name: "ray-cast-trailing-index-not-advanced", File: c16BuildGo, Find: "\t\t\tj = i\n\t\t\ti++\n", Replace: "\t\t\ti++\n", ExpectRule: "E1", ExpectConstruct: "ray-cast["},
	{Name: "ray-cast-for-clause-stops-early", File: c16BuildGo, Find: c16CastLoop, Replace: strings.Replace(c16CastForClause, "LIMIT", "len(outer)-1", 1), ExpectRule: "E1", ExpectConstruct: "ray-cast["},
	{Name: "ray-cast-helper-starts-late", File: c16BuildGo, Find: c16CastBody, Replace: strings.Replace(c16CastHelper, "START", "1, len(ring)-1", 1), ExpectRule: "E1", ExpectConstruct: "ray-cast["},
}

var c16Benign3 = []core.Mutant{
	{Name: "area-sum-index-loop", File: c16MputilGo, Find: c16AreaLoop, Replace: strings.Replace(c16AreaIndexLoop, "FROM", "1", 1)},
	// the pair (first, second) contributes 0 because the offset is the first point: leaving it out changes nothing
	{Name: "area-sum-index-loop-from-second-pair", File: c16MputilGo, Find: c16AreaLoop, Replace: strings.Replace(c16AreaIndexLoop, "FROM", "2", 1)},
	{Name: "area-sum-term-helper", File: c16MputilGo, Find: c16AreaLoop + c16AreaTail, Replace: strings.Replace(c16AreaHelper, "WHEN", "true", 1)},
	{Name: "area-sum-inverted-return", File: c16MputilGo, Find: c16AreaTail, Replace: "\n\tif !(area > 0) {\n\t\treturn orb.CW\n\t}\n\n\treturn orb.CCW\n}\n"},
	{Name: "ray-cast-for-clause", File: c16BuildGo, Find: c16CastLoop, Replace: strings.Replace(c16CastForClause, "LIMIT", "len(outer)", 1)},
	{Name: "ray-cast-point-helper", File: c16BuildGo, Find: c16CastBody, Replace: strings.Replace(c16CastHelper, "START", "0, len(ring)-1", 1)},
	{Name: "ray-cast-edge-list", File: c16BuildGo, Find: c16CastLoop, Replace: c16CastEdgeList},
}
