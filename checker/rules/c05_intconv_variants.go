package rules

import "osmcheck/core"

// Variants for C05.J11 (integers are decoded through integers). The first mutant is seed C05-h.

var c05IntConvMutants = []core.Mutant{
	{Name: "seed-way-node-ids-through-float64", File: "way.go",
		Find:       "\tvar a []int64\n\terr := unmarshalJSON(data, &a)\n\tif err != nil {\n\t\treturn err\n\t}\n\n\tnodes := make(WayNodes, len(a))\n\tfor i, id := range a {\n\t\tnodes[i].ID = NodeID(id)\n\t}\n",
		Replace:    "\tvar a []float64\n\terr := unmarshalJSON(data, &a)\n\tif err != nil {\n\t\treturn err\n\t}\n\n\tnodes := make(WayNodes, len(a))\n\tfor i, id := range a {\n\t\tnodes[i].ID = NodeID(int64(id))\n\t}\n",
		ExpectRule: "J11", ExpectConstruct: "intconv@WayNodes.UnmarshalJSON"},
	{Name: "way-node-ids-through-interface-asserted-float", File: "way.go",
		Find:       "\tvar a []int64\n\terr := unmarshalJSON(data, &a)\n\tif err != nil {\n\t\treturn err\n\t}\n\n\tnodes := make(WayNodes, len(a))\n\tfor i, id := range a {\n\t\tnodes[i].ID = NodeID(id)\n\t}\n",
		Replace:    "\tvar a []interface{}\n\terr := unmarshalJSON(data, &a)\n\tif err != nil {\n\t\treturn err\n\t}\n\n\tnodes := make(WayNodes, len(a))\n\tfor i, id := range a {\n\t\tf, ok := id.(float64)\n\t\tif !ok {\n\t\t\tcontinue\n\t\t}\n\t\tnodes[i].ID = NodeID(f)\n\t}\n",
		ExpectRule: "J11", ExpectConstruct: "intconv@WayNodes.UnmarshalJSON"},
	{Name: "way-node-ids-through-type-switch-on-float", File: "way.go",
		Find:       "\tvar a []int64\n\terr := unmarshalJSON(data, &a)\n\tif err != nil {\n\t\treturn err\n\t}\n\n\tnodes := make(WayNodes, len(a))\n\tfor i, id := range a {\n\t\tnodes[i].ID = NodeID(id)\n\t}\n",
		Replace:    "\tvar a []interface{}\n\terr := unmarshalJSON(data, &a)\n\tif err != nil {\n\t\treturn err\n\t}\n\n\tnodes := make(WayNodes, len(a))\n\tfor i, id := range a {\n\t\tswitch v := id.(type) {\n\t\tcase float64:\n\t\t\tnodes[i].ID = NodeID(v)\n\t\tcase int64:\n\t\t\tnodes[i].ID = NodeID(v)\n\t\t}\n\t}\n",
		ExpectRule: "J11", ExpectConstruct: "intconv@WayNodes.UnmarshalJSON"},
	{Name: "way-node-ids-through-int32", File: "way.go",
		Find:       "\tvar a []int64\n\terr := unmarshalJSON(data, &a)\n\tif err != nil {\n\t\treturn err\n\t}\n\n\tnodes := make(WayNodes, len(a))\n\tfor i, id := range a {\n\t\tnodes[i].ID = NodeID(id)\n\t}\n",
		Replace:    "\tvar a []int32\n\terr := unmarshalJSON(data, &a)\n\tif err != nil {\n\t\treturn err\n\t}\n\n\tnodes := make(WayNodes, len(a))\n\tfor i, id := range a {\n\t\tnodes[i].ID = NodeID(id)\n\t}\n",
		ExpectRule: "J11", ExpectConstruct: "intconv@WayNodes.UnmarshalJSON"},
	{Name: "way-node-ids-rounded-float", File: "way.go",
		Find:       "\tvar a []int64\n\terr := unmarshalJSON(data, &a)\n\tif err != nil {\n\t\treturn err\n\t}\n\n\tnodes := make(WayNodes, len(a))\n\tfor i, id := range a {\n\t\tnodes[i].ID = NodeID(id)\n\t}\n",
		Replace:    "\tvar a []float64\n\terr := unmarshalJSON(data, &a)\n\tif err != nil {\n\t\treturn err\n\t}\n\n\tnodes := make(WayNodes, len(a))\n\tfor i, id := range a {\n\t\tnodes[i].ID = NodeID(math.Round(id))\n\t}\n",
		ExpectRule: "J11", ExpectConstruct: "intconv@WayNodes.UnmarshalJSON"},
	{Name: "way-node-ids-float-converted-in-closure", File: "way.go",
		Find:       "\tvar a []int64\n\terr := unmarshalJSON(data, &a)\n\tif err != nil {\n\t\treturn err\n\t}\n\n\tnodes := make(WayNodes, len(a))\n\tfor i, id := range a {\n\t\tnodes[i].ID = NodeID(id)\n\t}\n",
		Replace:    "\tvar a []float64\n\terr := unmarshalJSON(data, &a)\n\tif err != nil {\n\t\treturn err\n\t}\n\n\ttoID := func(f float64) NodeID { return NodeID(f) }\n\tnodes := make(WayNodes, len(a))\n\tfor i, id := range a {\n\t\tnodes[i].ID = toID(id)\n\t}\n",
		ExpectRule: "J11", ExpectConstruct: "intconv@WayNodes.UnmarshalJSON"},
	{Name: "way-node-ids-float-converted-in-helper", File: "way.go",
		Find:       "\tvar a []int64\n\terr := unmarshalJSON(data, &a)\n\tif err != nil {\n\t\treturn err\n\t}\n\n\tnodes := make(WayNodes, len(a))\n\tfor i, id := range a {\n\t\tnodes[i].ID = NodeID(id)\n\t}\n\n\t*wn = nodes\n\treturn nil\n}\n",
		Replace:    "\tvar a []float64\n\terr := unmarshalJSON(data, &a)\n\tif err != nil {\n\t\treturn err\n\t}\n\n\tnodes := make(WayNodes, len(a))\n\tfor i, id := range a {\n\t\tnodes[i].ID = nodeIDOf(id)\n\t}\n\n\t*wn = nodes\n\treturn nil\n}\n\nfunc nodeIDOf(number float64) NodeID {\n\twhole := int64(number)\n\treturn NodeID(whole)\n}\n",
		ExpectRule: "J11", ExpectConstruct: "intconv@WayNodes.UnmarshalJSON"},
	{Name: "scaffold-json-number-read-as-float", File: "json.go",
		Find:       "type nocopyRawMessage []byte\n",
		Replace:    "// idList is an osmjson array of ids.\ntype idList []int64\n\n// UnmarshalJSON reads the ids as json numbers.\nfunc (l *idList) UnmarshalJSON(data []byte) error {\n\tvar a []json.Number\n\tif err := unmarshalJSON(data, &a); err != nil {\n\t\treturn err\n\t}\n\n\tids := make(idList, 0, len(a))\n\tfor _, n := range a {\n\t\tf, err := n.Float64()\n\t\tif err != nil {\n\t\t\treturn err\n\t\t}\n\t\tv := int64(f)\n\t\tids = append(ids, v)\n\t}\n\n\t*l = ids\n\treturn nil\n}\n\ntype nocopyRawMessage []byte\n",
		ExpectRule: "J11", ExpectConstruct: "intconv@idList.UnmarshalJSON"},
}

var c05IntConvBenign = []core.Mutant{
	{Name: "way-node-ids-decoded-as-node-ids", File: "way.go",
		Find:    "\tvar a []int64\n\terr := unmarshalJSON(data, &a)\n\tif err != nil {\n\t\treturn err\n\t}\n\n\tnodes := make(WayNodes, len(a))\n\tfor i, id := range a {\n\t\tnodes[i].ID = NodeID(id)\n\t}\n",
		Replace: "\tvar a []NodeID\n\terr := unmarshalJSON(data, &a)\n\tif err != nil {\n\t\treturn err\n\t}\n\n\tnodes := make(WayNodes, len(a))\n\tfor i, id := range a {\n\t\tnodes[i].ID = id\n\t}\n"},
	{Name: "way-node-ids-index-loop-and-local", File: "way.go",
		Find:    "\tvar a []int64\n\terr := unmarshalJSON(data, &a)\n\tif err != nil {\n\t\treturn err\n\t}\n\n\tnodes := make(WayNodes, len(a))\n\tfor i, id := range a {\n\t\tnodes[i].ID = NodeID(id)\n\t}\n",
		Replace: "\tvar ids []int64\n\tif err := unmarshalJSON(data, &ids); err != nil {\n\t\treturn err\n\t}\n\n\tnodes := make(WayNodes, len(ids))\n\tfor i := 0; i < len(ids); i++ {\n\t\tref := ids[i]\n\t\tnodes[i] = WayNode{ID: NodeID(ref)}\n\t}\n"},
	{Name: "way-node-ids-elementwise-into-int64", File: "way.go",
		Find:    "\tvar a []int64\n\terr := unmarshalJSON(data, &a)\n\tif err != nil {\n\t\treturn err\n\t}\n\n\tnodes := make(WayNodes, len(a))\n\tfor i, id := range a {\n\t\tnodes[i].ID = NodeID(id)\n\t}\n",
		Replace: "\tvar raw []nocopyRawMessage\n\terr := unmarshalJSON(data, &raw)\n\tif err != nil {\n\t\treturn err\n\t}\n\n\tnodes := make(WayNodes, len(raw))\n\tfor i, r := range raw {\n\t\tvar id int64\n\t\tif err := unmarshalJSON(r, &id); err != nil {\n\t\t\treturn err\n\t\t}\n\t\tnodes[i].ID = NodeID(id)\n\t}\n"},
	{Name: "scaffold-json-number-parsed-as-int64", File: "json.go",
		Find:    "type nocopyRawMessage []byte\n",
		Replace: "// idList is an osmjson array of ids.\ntype idList []int64\n\n// UnmarshalJSON reads the ids as json numbers.\nfunc (l *idList) UnmarshalJSON(data []byte) error {\n\tvar a []json.Number\n\tif err := unmarshalJSON(data, &a); err != nil {\n\t\treturn err\n\t}\n\n\tids := make(idList, 0, len(a))\n\tfor _, n := range a {\n\t\tv, err := n.Int64()\n\t\tif err != nil {\n\t\t\treturn err\n\t\t}\n\t\tids = append(ids, v)\n\t}\n\n\t*l = ids\n\treturn nil\n}\n\ntype nocopyRawMessage []byte\n"},
	{Name: "way-node-capacity-from-float-arithmetic", File: "way.go",
		Find:    "\tvar a []int64\n\terr := unmarshalJSON(data, &a)\n\tif err != nil {\n\t\treturn err\n\t}\n\n\tnodes := make(WayNodes, len(a))\n\tfor i, id := range a {\n\t\tnodes[i].ID = NodeID(id)\n\t}\n",
		Replace: "\tvar a []int64\n\terr := unmarshalJSON(data, &a)\n\tif err != nil {\n\t\treturn err\n\t}\n\n\tspare := int(math.Ceil(float64(len(a)) * 0.25))\n\tnodes := make(WayNodes, len(a), len(a)+spare)\n\tfor i, id := range a {\n\t\tnodes[i].ID = NodeID(id)\n\t}\n"},
}
