package rules

import (
	"fmt"
	"go/ast"
	"go/token"
	"go/types"

	"osmcheck/core"
)

// c02RangeOver finds, in goroutine g, the range loop over the decoder's slice of per-worker channels of class cls
// (`for _, ch := range dec.outputs[:n]`) that sits inside loop.
func (p *c02Pipe) rangeOver(g *goSite, cls string, loop *ast.ForStmt) *ast.RangeStmt {
	var out *ast.RangeStmt
	slot := p.m.slotOf(cls)
	p.m.deepWalk(g.unit, func(s *pbfSite, n ast.Node) bool {
		rs, ok := n.(*ast.RangeStmt)
		if !ok || out != nil || s.deferredCtx() || !p.m.isWorkerChanSlice(rs.X) {
			return true
		}
		x := ast.Unparen(rs.X)
		if se, ok := x.(*ast.SliceExpr); ok {
			x = se.X
		}
		if fieldOf(p.info, x) == slot.slice && len(s.frames) == 1 && loop.Pos() <= rs.Pos() && rs.End() <= loop.End() {
			out = rs
		}
		return true
	})
	return out
}

// c02BreaksOut reports a statement in the body of loop that leaves it other than by returning: an unlabelled break
// that targets it, a labelled break / continue to an outer statement, a goto.
func c02BreaksOut(par map[ast.Node]ast.Node, loop ast.Stmt) token.Pos {
	var pos token.Pos
	ast.Inspect(pbfLoopBody(loop), func(n ast.Node) bool {
		switch x := n.(type) {
		case *ast.FuncLit:
			return false
		case *ast.BranchStmt:
			switch {
			case x.Tok == token.GOTO, x.Label != nil && (x.Tok == token.BREAK || x.Tok == token.CONTINUE):
				pos = x.Pos()
			case x.Tok == token.BREAK:
				// innermost breakable statement around it
				for q := par[x]; q != nil; q = par[q] {
					switch q.(type) {
					case *ast.ForStmt, *ast.RangeStmt, *ast.SwitchStmt, *ast.TypeSwitchStmt, *ast.SelectStmt:
						if q == ast.Node(loop) {
							pos = x.Pos()
						}
						return true
					}
				}
			}
		}
		return true
	})
	return pos
}

// c02SerializerByRange: round-robin collection written as nested loops, `for { for _, out := range dec.outputs[:n] {…} }`.
// Ranging over the slice of per-worker output channels visits slot 0, 1, … n-1 and the enclosing endless loop starts
// over at 0: the same order as a counter stepped by (i+1)%n from 0. Required: the range covers all n slots, is only
// left by exhaustion or by returning (a break would restart at slot 0 out of turn), and on every path each pass of the
// range body receives exactly once from the ranged channel and forwards exactly the received pair once.
func c02SerializerByRange(r *core.R, p *c02Pipe, g *goSite, loop *ast.ForStmt, rs *ast.RangeStmt) {
	m, info := p.m, p.info
	c, c2 := "collect@"+g.unit.name, "forward@"+g.unit.name
	var coll, fwd []c02Viol
	// coverage: the whole slice, or its first n elements with n the worker count
	if se, ok := ast.Unparen(rs.X).(*ast.SliceExpr); ok && se.High != nil && !p.sameCountExpr(se.High, map[types.Object]bool{}) {
		coll = append(coll, c02Viol{rs.Pos(), fmt.Sprintf("`%s` does not range over all %s slots of the workers", src(r.P.Fset, rs.X), p.nObj.Name())})
	}
	if pos := c02BreaksOut(m.view.parents(g.unit.fi), rs); pos.IsValid() {
		coll = append(coll, c02Viol{pos, "the pass over the workers' outputs can be left early (break / goto / labelled continue): the next pass starts again at slot 0 while the reader goes on with the next slot, so blocks are collected out of order"})
	}
	val, key := objOf(info, rs.Value), objOf(info, rs.Key)
	slot := m.slotOf(p.out)
	// the channel received from is the ranged element
	var fromRange func(e ast.Expr, depth int) bool
	fromRange = func(e ast.Expr, depth int) bool {
		e = ast.Unparen(e)
		if depth > 5 {
			return false
		}
		switch x := e.(type) {
		case *ast.Ident:
			o := objOf(info, x)
			if o != nil && o == val && slot.elem == nil {
				return true
			}
			if v, ok := o.(*types.Var); ok && !v.IsField() {
				defs := m.defsOf(v)
				if len(defs) == 0 {
					return false
				}
				for _, d := range defs {
					if (d.kind != "assign" && d.kind != "arg") || !fromRange(d.e, depth+1) {
						return false
					}
				}
				return true
			}
		case *ast.SelectorExpr:
			// lanes: the ranged struct's channel field
			if slot.elem != nil && fieldOf(info, x) == slot.elem {
				if o := objOf(info, x.X); o != nil && o == val {
					return true
				}
				if ix, ok := ast.Unparen(x.X).(*ast.IndexExpr); ok && fieldOf(info, ix.X) == slot.slice && key != nil && objOf(info, ix.Index) == key {
					return true
				}
			}
		case *ast.IndexExpr:
			return slot.elem == nil && fieldOf(info, x.X) == slot.slice && key != nil && objOf(info, x.Index) == key
		}
		return false
	}
	const (
		inTurn = 1 << iota
		received
		forwarded
	)
	nRecv, nFwd := 0, 0
	doRecv := func(st int, from ast.Expr) int {
		nRecv++
		if !fromRange(from, 0) {
			coll = append(coll, c02Viol{from.Pos(), fmt.Sprintf("the serializer receives from `%s`, which is not the output channel the pass is at", src(r.P.Fset, from))})
		}
		if st&inTurn == 0 {
			coll = append(coll, c02Viol{from.Pos(), "a pair is received outside a pass over the workers' outputs"})
		}
		if st&received != 0 {
			coll = append(coll, c02Viol{from.Pos(), "the serializer must receive exactly once per turn (found a second receive in one turn)"})
		}
		return st | received
	}
	doFwd := func(st int, s *ast.SendStmt) int {
		nFwd++
		if !m.allDefs(s.Value, map[types.Object]bool{}, func(o pbfOrigin) bool {
			if o.e == nil || o.kind != "assign" {
				return false
			}
			if v := objOf(info, o.e); v != nil {
				return c09RecvPair(m, v, p.out, map[types.Object]bool{})
			}
			return pbfIsZeroLit(o.e)
		}) {
			fwd = append(fwd, c02Viol{s.Pos(), fmt.Sprintf("`%s` is forwarded to dec.%s, not the pair variable that was received from the worker", src(r.P.Fset, s.Value), p.queue)})
		}
		if st&received == 0 {
			fwd = append(fwd, c02Viol{s.Pos(), "a pair is forwarded to the queue before one was received in this turn"})
		}
		if st&forwarded != 0 {
			fwd = append(fwd, c02Viol{s.Pos(), "a pair is forwarded to the queue more than once per turn"})
		}
		return st | forwarded
	}
	boundary := func(st int, pos token.Pos) {
		if st&inTurn == 0 {
			return
		}
		if st&received == 0 {
			coll = append(coll, c02Viol{pos, "a turn can end without a receive from the output channel of its slot"})
		}
		if st&received != 0 && st&forwarded == 0 {
			fwd = append(fwd, c02Viol{pos, fmt.Sprintf("a turn can end without forwarding the received pair to dec.%s: that block is lost and every later block is delivered one slot early", p.queue)})
		}
	}
	t := m.newTracer()
	t.inlineOnly(m, func(u *unit) bool { return m.hasChanOp(u) })
	t.RangeExit = func(st int, x *ast.RangeStmt, _ *FuncInfo) (int, bool) {
		if x == rs {
			boundary(st, rs.Pos())
			return 0, true
		}
		return st, true
	}
	t.Event = func(st int, ev *pbfEvent) int {
		switch ev.kind {
		case "range":
			if ev.n == ast.Node(rs) {
				boundary(st, rs.Pos())
				return inTurn
			}
		case "comm":
			sel := p.selectOf(ev)
			if from, _ := p.recvClause(sel, p.out); from != nil {
				return doRecv(st, from)
			}
			if s := p.sendClause(sel, p.queue); s != nil {
				return doFwd(st, s)
			}
		case "node":
			if s, ok := ev.n.(*ast.SendStmt); ok {
				if m.chanClass(nil, s.Chan) == p.queue {
					return doFwd(st, s)
				}
				return st
			}
			if from, _ := c02BareRecv(ev.n); from != nil && m.chanClass(nil, from) == p.out {
				return doRecv(st, from)
			}
		}
		return st
	}
	t.Run(g.unit.fi, g.unit.body, 0)
	if nRecv == 0 {
		coll = append(coll, c02Viol{loop.Pos(), "the serializer never receives from dec." + p.out})
	}
	if nFwd == 0 {
		fwd = append(fwd, c02Viol{loop.Pos(), "the serializer never forwards to dec." + p.queue})
	}
	c02Report(r, c, loop.Pos(), coll, t.incomplete, fmt.Sprintf("an endless loop ranges over all %s output channels in slot order, one receive from the ranged channel per turn on every path, never left early — the same start, step and modulus as the reader's dispatch", p.nObj.Name()))
	c02Report(r, c2, loop.Pos(), fwd, t.incomplete, "on every path each received pair is forwarded once, unchanged, to the ordered queue the consumer reads")
}
