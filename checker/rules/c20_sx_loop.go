package rules

import (
	"fmt"
	"go/ast"
	"go/token"
	"go/types"
)

// rangeStmt summarises the two loop roles the package has:
//
//	option loop: `for _, o := range <option slice input>`: the body, executed once symbolically, may only extend one
//	  string list by the string the option's apply method appends (and return when that method fails);
//	  afterwards the list ends in "the strings of all options, in order".
//	id loop: `for i, id := range <integer slice input>`: the body may only append the decimal id to one byte buffer
//	  that was empty before the loop (or to one string list), preceded by a constant separator exactly when the
//	  iteration is not the first (`i != 0`, `i > 0`, `len(buf) > 0`, ...); afterwards the buffer is "the ids, separated".
//
// The body is executed like any other code (helpers inlined, any branch form), so how it is written does not matter.
func (x *c20SX) rangeStmt(s *ast.RangeStmt, st *c20St) []*c20St {
	var out []*c20St
	for _, r := range x.ev(s.X, st) {
		if r.st.ctl != c20cRun {
			out = append(out, r.st)
			continue
		}
		if r.v.k == c20kList && !r.v.in && r.v.star == nil && r.v.tag != "presized" && r.v.name != "nums" {
			// a list with known elements: a table of strings
			a := c20V{k: c20kAgg, typ: r.v.typ}
			for _, e := range r.v.elems {
				a.vs = append(a.vs, c20StrV(e))
			}
			r.v = a
		}
		if r.v.k == c20kAgg {
			a := r.v
			out = append(out, x.unroll(s, s.Body, a, r.st, func(i int, c *c20St) {
				k := c20V{k: c20kInt, n: int64(i)}
				if a.b {
					k = a.keys[i]
				}
				if s.Key != nil {
					x.assign(s.Key, k, c)
				}
				if s.Value != nil {
					x.assign(s.Value, a.vs[i], c)
				}
			})...)
			continue
		}
		out = append(out, x.loopOver(s, s.Body, s.Key, s.Value, nil, r.v, r.st)...)
	}
	return out
}

// indexLoop recognises `for i := 0; i < len(X); i++ { ... X[i] ... }`, the index form of a range loop over X.
func (x *c20SX) indexLoop(s *ast.ForStmt, st *c20St) ([]*c20St, bool) {
	sh, ok := x.forShape(s, x.loopLabel(), st)
	if !ok {
		return nil, false
	}
	i, start, body := sh.i, sh.start, sh.body
	cond := &ast.BinaryExpr{X: &ast.Ident{Name: i.Name()}, Op: token.LSS, Y: sh.bound}
	finish := func(out []*c20St) []*c20St {
		if sh.outer { // the counter lives on after the loop; its final value is not modelled
			for _, o := range out {
				if o.ctl == c20cRun {
					o.env[i] = c20Unknown("the value of %s after the loop", i.Name())
				}
			}
		}
		return out
	}
	var out []*c20St
	// `i < len(table)`: the index form of a loop over a constant table
	if X := lenCallArg(x.info, cond.Y); X != nil {
		if _, isMap := x.info.TypeOf(X).Underlying().(*types.Map); !isMap {
			evs := x.ev(X, st)
			if len(evs) == 1 && evs[0].st.ctl == c20cRun && evs[0].v.k == c20kAgg {
				if start != 0 {
					return nil, false
				}
				return finish(x.unroll(s, body, evs[0].v, evs[0].st, func(n int, c *c20St) {
					x.born(i)
					c.env[i] = c20V{k: c20kInt, n: int64(n)}
				})), true
			}
		}
	}
	// the bound is the length of an input slice: `i < len(ids)`, or `i < n` where n holds such a length
	// (a local, or the parameter of an inlined helper that was passed len(ids))
	for _, r := range x.ev(cond.Y, st) {
		switch {
		case r.st.ctl != c20cRun:
			out = append(out, r.st)
		case r.v.k == c20kLen && r.v.base.k == c20kIn:
			over := *r.v.base
			if start == 1 {
				over.tag = "from1" // the first element was handled before the loop (peeled iteration)
			}
			out = append(out, x.loopOver(s, body, nil, nil, i, over, r.st)...)
		case r.v.k == c20kLen && r.v.base.k == c20kNil, r.v.k == c20kInt && r.v.h == nil && r.v.n == 0:
			out = append(out, r.st) // no iteration
		default:
			out = append(out, r.st.abort(s, "`for` loop bounded by %s (only the length of an option-slice or id-slice parameter is understood)", r.v.String()))
		}
	}
	return finish(out), true
}

// loopOver summarises a loop over the input slice v; key/value are the range variables (nil for the index
// form, whose index variable is idx).
func (x *c20SX) loopOver(s ast.Node, body *ast.BlockStmt, key, value ast.Expr, idx types.Object, v c20V, st *c20St) []*c20St {
	if v.k == c20kNil {
		return []*c20St{st} // no iteration
	}
	if why := x.opaqueOrLocalCallIn(body); why != "" {
		return []*c20St{st.abort(s, "loop:%s sits in a loop", why)}
	}
	var elem types.Type
	if v.k == c20kIn && v.typ != nil {
		if sl, ok := v.typ.Underlying().(*types.Slice); ok {
			elem = sl.Elem()
		}
	}
	id := x.newID()
	ev, okElem := x.elemValue(v, id)
	if elem == nil || !okElem {
		return []*c20St{st.abort(s, "loop over %s: only loops over an option-slice or id-slice parameter are understood", v.String())}
	}
	kind := x.optKind(elem)
	isID := kind == ""
	from1 := v.tag == "from1"
	if from1 {
		// a loop over the elements after the first: every iteration is a "later" one; an index counted from the
		// sub-slice (`for i := range ids[1:]`) would not be the element's position
		if id, isIdent := key.(*ast.Ident); !isID || (key != nil && !(isIdent && id.Name == "_")) {
			return []*c20St{st.abort(s, "loop over the tail of %s with an index variable or over options", v.String())}
		}
		st.facts[fmt.Sprintf("notfirst:#%d", id)] = true
	}
	pre := st.clone()
	since := x.tick
	// loop variables
	loopIdx := c20V{k: c20kObj, tag: "loopidx", id: id, h: v.h}
	if key != nil {
		x.assign(key, loopIdx, st)
	}
	if value != nil {
		x.assign(value, ev, st)
	}
	if idx != nil {
		x.born(idx)
		st.env[idx] = loopIdx
	}
	if st.ctl != c20cRun {
		return []*c20St{st}
	}
	if isID {
		written := c20AssignedIn(x.info, body)
		for o, val := range st.env {
			// buffers that are empty before the loop are "carried": inside the body `len(buf) > 0` / `s != ""` means
			// "not the first iteration" until something is written in this iteration
			if (val.k == c20kBytes || val.k == c20kStr && written[o]) && len(c20MergeLits(val.sym)) == 0 {
				val.sym = nil
				val.id = id
				st.env[o] = val
			}
		}
	}
	nEvents := len(st.events)
	var out, ends []*c20St
	for _, o := range x.block(body.List, []*c20St{st}) {
		x.ownBranch(o, s)
		switch o.ctl {
		case c20cRun, c20cCont:
			ends = append(ends, o)
		case c20cBrk:
			out = append(out, o.abort(s, "break inside a loop"))
		default:
			out = append(out, o) // return from inside the loop, abort, panic
		}
	}
	if len(ends) == 0 {
		return out
	}
	for _, e := range ends {
		for _, ev := range e.events[nEvents:] {
			if ev.kind != "optapply" {
				return append(out, e.abort(s, "loop:a request or HTTP call sits in a loop"))
			}
			if isNil, tested := e.fact(c20NilAtom(ev.id)); !tested || !isNil {
				return append(out, e.abort(ev.call, "the error of `%s` is not tested before the next option is applied: an invalid option would be dropped silently and the request sent anyway", x.srcOf(ev.call)))
			}
		}
	}
	var post *c20St
	if isID {
		post = x.sumIDLoop(s, since, id, v, pre, ends, from1)
	} else {
		post = x.sumOptLoop(s, since, id, kind, v, pre, ends)
	}
	return append(out, post)
}

// changed lists the places (variables, fields of struct objects of the package) of pre whose value differs in end.
func (x *c20SX) changed(pre, end *c20St, since, loopID int) []c20Place {
	var out []c20Place
	for o, old := range pre.env {
		// a variable declared, or bound as a parameter, during the iteration (locals and parameters of helpers and
		// closures called in the body) starts a new lifetime there: it cannot carry state to the next iteration
		if x.birth[o] > since {
			continue
		}
		if nv, ok := end.env[o]; ok && !c20Same(old, nv) {
			out = append(out, c20Place{obj: o})
		}
	}
	for id, fields := range end.heap {
		for name, nv := range fields {
			p := c20Place{id: id, field: name}
			old, known := pre.at(p)
			if !known && id > loopID {
				continue // a struct built during the iteration
			}
			if !known || !c20Same(old, nv) {
				out = append(out, p)
			}
		}
	}
	return out
}

func (x *c20SX) sumOptLoop(s ast.Node, since, id int, kind string, v c20V, pre *c20St, ends []*c20St) *c20St {
	var list c20Place
	for _, e := range ends {
		for _, o := range x.changed(pre, e, since, id) {
			old, _ := pre.at(o)
			nv, _ := e.at(o)
			switch {
			case nv.k == c20kList && old.k == c20kList && old.star == nil && len(nv.elems) == len(old.elems)+1 && nv.in == old.in &&
				len(nv.elems[len(old.elems)]) == 1 && nv.elems[len(old.elems)][0].hole != nil && nv.elems[len(old.elems)][0].hole.fn == kind+"#1":
				if !list.none() && list != o {
					return pre.abort(s, "the option loop extends two lists")
				}
				list = o
			case (old.k == c20kNil || old.k == c20kObj && old.tag == "err") && e.resolve(nv).k == c20kNil:
				// the error variable holds the nil error of the apply call
			default:
				return pre.abort(s, "the option loop changes %s from %s to %s (only extending one list with the option's string is understood)", o.text(), old.String(), nv.String())
			}
		}
	}
	if list.none() {
		return pre.abort(s, "the option loop does not apply the options to a list")
	}
	l, _ := pre.at(list)
	l.elems = append([]c20Sym(nil), l.elems...)
	l.star = &c20Hole{fn: kind, param: v.h.param, pname: v.h.pname}
	pre.put(list, l)
	return pre
}

func (x *c20SX) sumIDLoop(s ast.Node, since, id int, v c20V, pre *c20St, ends []*c20St, from1 bool) *c20St {
	atom := fmt.Sprintf("notfirst:#%d", id)
	var buf c20Place
	var first, later *c20Sym
	set := func(dst **c20Sym, app c20Sym) bool {
		app = c20MergeLits(app)
		if *dst == nil {
			*dst = &app
			return true
		}
		return (*dst).render(nil) == app.render(nil)
	}
	for _, e := range ends {
		for _, o := range x.changed(pre, e, since, id) {
			old, _ := pre.at(o)
			nv, _ := e.at(o)
			var app c20Sym
			switch {
			case from1 && (old.k == c20kBytes || old.k == c20kStr) && nv.k == old.k && c20EndsWithFirstElem(old.sym, v) && c20HasPrefix(nv.sym, old.sym):
				// the first element was written before the loop (peeled iteration)
				app = nv.sym[len(old.sym):]
			case from1:
				return pre.abort(s, "the loop over the elements after the first changes %s from %s to %s (understood: a buffer holding exactly the first id, extended by separator and id)", o.text(), old.String(), nv.String())
			case old.k == c20kBytes && nv.k == c20kBytes && len(old.sym) == 0:
				app = nv.sym
			case old.k == c20kStr && nv.k == c20kStr && len(c20MergeLits(old.sym)) == 0:
				app = nv.sym
			case (old.k == c20kBytes || old.k == c20kStr) && nv.k == old.k && old.id == 0 && c20HasPrefix(nv.sym, old.sym):
				// the buffer already holds the text before the id list (the URL is built in one buffer)
				app = nv.sym[len(old.sym):]
			case old.k == c20kList && nv.k == c20kList && old.star == nil && !old.in && len(old.elems) == 0 && len(nv.elems) == 1:
				app = nv.elems[0]
			default:
				return pre.abort(s, "the id loop changes %s from %s to %s (only appending the ids to one buffer that is empty before the loop is understood)", o.text(), old.String(), nv.String())
			}
			if !buf.none() && buf != o {
				return pre.abort(s, "the id loop fills two buffers")
			}
			buf = o
			val, known := e.fact(atom)
			ok := true
			if !known || !val {
				ok = ok && set(&first, app)
			}
			if !known || val {
				ok = ok && set(&later, app)
			}
			if !ok {
				return pre.abort(s, "the id loop appends different text on paths that do not differ by `first iteration or not`")
			}
		}
	}
	if from1 && !buf.none() && later != nil {
		// the peeled first iteration wrote the first id alone
		old, _ := pre.at(buf)
		h0 := *old.sym[len(old.sym)-1].hole
		h0.fn = "elem"
		first = &c20Sym{{hole: &h0}}
	}
	if buf.none() || first == nil || later == nil {
		return pre.abort(s, "the id loop does not append to a buffer on every iteration")
	}
	isElem := func(t c20Tok) bool { return t.hole != nil && t.hole.fn == "elem" && t.hole.param == v.h.param }
	f, l := *first, *later
	h := &c20Hole{param: v.h.param, pname: v.h.pname, num: true}
	old, _ := pre.at(buf)
	switch {
	case len(f) == 1 && isElem(f[0]) && len(l) == 1 && isElem(l[0]) && old.k == c20kList && old.name == "nums":
		// the ids copied (converted) one by one into a number list: that list is the id list under another type
		if f[0].hole.verb != "" || l[0].hole.verb != "" {
			return pre.abort(s, "the id loop stores formatted ids into a number list")
		}
		pre.put(buf, c20V{k: c20kIn, h: h, typ: old.typ})
	case len(f) == 1 && isElem(f[0]) && len(l) == 2 && l[0].hole == nil && l[0].opt == nil && isElem(l[1]) && (old.k == c20kBytes || old.k == c20kStr):
		h.fn, h.verb = "csv", f[0].hole.verb
		if l[0].lit != "," {
			h.fn = "csv<" + l[0].lit + ">"
		}
		if l[1].hole.verb != f[0].hole.verb {
			h.verb = "mixed"
		}
		prefix := append(c20Sym(nil), old.sym...)
		if from1 && len(prefix) > 0 {
			prefix = prefix[:len(prefix)-1] // the peeled first id becomes part of the list
		}
		pre.put(buf, c20V{k: old.k, sym: append(prefix, c20Tok{hole: h}), typ: old.typ, tag: old.tag})
	case len(f) == 1 && isElem(f[0]) && len(l) == 1 && isElem(l[0]) && old.k == c20kList:
		h.fn, h.verb = "ids", f[0].hole.verb
		old.star = h
		pre.put(buf, old)
	default:
		return pre.abort(s, "the id loop appends `%s` on the first and `%s` on later iterations; understood: the decimal id, preceded by a constant separator exactly when not first", f.render(nil), l.render(nil))
	}
	return pre
}
