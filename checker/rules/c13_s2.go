package rules

import (
	"fmt"
	"go/token"

	"osmcheck/core"
)

// ---------------------------------------------------------------------------------------------
// S2 history request, scan and not-found handling

func c13S2(r *core.R) {
	m := c13Load(r)
	if m == nil {
		return
	}
	var agg c13Agg
	x := m.x
	seenKind := [3]bool{}
	for _, el := range m.eloops {
		if el.sec == 0 {
			continue
		}
		seenKind[el.kind] = true
		kn := c13Kinds[el.kind]
		pos := el.l.stmt.Pos()
		cells, unc := m.tableCells(el)
		// --- the history request
		c := "history@" + kn.Elem
		_, est := structType(m.osmPk, kn.Elem)
		ownID := x.field(el.elem, c13Field(est, "ID"), 0)
		bad := ""
		var hpos token.Pos = pos
		for _, p := range el.paths {
			if !m.feasiblePath(p) {
				continue
			}
			switch {
			case len(p.hist) == 0:
				bad = fmt.Sprintf("a path through the iteration (%s) never asks the datasource for the element's history", m.conds(p))
			case len(p.hist) > 1:
				bad = fmt.Sprintf("the datasource is asked for %d histories for one element (`%s` and `%s`): which one yields the old state and the error is ambiguous", len(p.hist), p.hist[0].what, p.hist[1].what)
				hpos = p.hist[1].pos
			default:
				h := p.hist[0]
				hpos = h.pos
				switch {
				case h.fn.Name() != kn.Hist:
					bad = fmt.Sprintf("the predecessor of a %s is looked up with %s: `%s`; the old state would come from another element kind's history", kn.Elem, h.fn.Name(), h.what)
				case len(h.args) != 3 || h.args[0].key != m.dsP.key:
					bad = fmt.Sprintf("`%s` is not a call on the caller's datasource", h.what)
				case h.args[2].key != ownID.key:
					bad = fmt.Sprintf("the history is requested for `%s`, not for the element's own id: `%s`", m.show(h.args[2]), h.what)
				}
			}
			if bad != "" {
				break
			}
		}
		if bad != "" {
			agg.bad(c, hpos, "%s", bad)
		} else {
			agg.ok(c, hpos, "every path through one iteration calls ds.%s exactly once, on the caller's datasource, with the element's own ID", kn.Hist)
		}
		// --- the scan
		var srch *c13Search
		for _, p := range el.paths {
			if p.srch != nil {
				if srch != nil && srch != p.srch {
					agg.unknown("select@"+kn.Elem, pos, "the history is scanned by different loops on different paths")
				}
				srch = p.srch
			}
		}
		cS, cI := "select@"+kn.Elem, "init@"+kn.Elem
		switch {
		case srch == nil:
			agg.unknown(cS, pos, "no loop over the history returned by ds.%s was found on any path: accepted idiom is a scan of the whole history", kn.Hist)
			agg.unknown(cI, pos, "no scan of the history found")
		default:
			switch {
			case srch.selBad != "":
				agg.bad(cS, srch.pos, "%s", srch.selBad)
			case srch.selUnk != "":
				agg.unknown(cS, srch.pos, "%s", srch.selUnk)
			default:
				agg.ok(cS, srch.pos, "%s", srch.selOK)
			}
			switch {
			case srch.initBad != "":
				agg.bad(cI, srch.pos, "%s", srch.initBad)
			case srch.initOK != "":
				agg.ok(cI, srch.pos, "%s", srch.initOK)
			default:
				agg.unknown(cI, srch.pos, "the scan was not recognised; its initial values were not evaluated")
			}
		}
		// --- no earlier version
		c = "notfound@" + kn.Elem
		bad = ""
		var bpos token.Pos = pos
		n := 0
		for _, cell := range cells {
			if cell.c[c13VErr] != 0 || cell.c[c13VFound] != 0 {
				continue
			}
			n++
			if cell.actual != cell.expected {
				what := "a missing earlier version is silently reported as a create instead of the typed error"
				switch {
				case cell.expected == "create":
					what = "with missing histories ignored the element must become a create action"
				case cell.actual == "update":
					what = "a modify/delete action is produced although no earlier version was selected"
				}
				bad = fmt.Sprintf("for {%s} the iteration %s (path conditions: %s); required: %s. %s", c13UpdDom.describe(cell.c), c13OutcomeText(cell.actual), m.conds(cell.p), c13OutcomeText(cell.expected), what)
				bpos = cell.p.pos
				break
			}
			if cell.actual == "typed" {
				if q := m.quality(cell.p, "typed"); q != "" {
					bad, bpos = q, cell.p.pos
					break
				}
			}
		}
		for _, u := range unc {
			if u[c13VErr] == 0 && u[c13VFound] == 0 && bad == "" {
				bad = fmt.Sprintf("no path through the iteration for {%s}", c13UpdDom.describe(u))
			}
		}
		switch {
		case bad != "":
			agg.bad(c, bpos, "%s", bad)
		case n == 0:
			agg.pending(c, pos, "no abstract input without an earlier version was evaluated in any calling context")
		default:
			agg.ok(c, bpos, "without a history error and without an earlier version (%d evaluations): create action exactly under the ignore-missing option, typed error with the element's FeatureID exactly without it", n)
		}
	}
	for k, seen := range seenKind {
		if !seen {
			agg.bad("history@"+c13Kinds[k].Elem, m.change.Decl.Pos(), "no loop over modified or deleted %s is executed", c13Kinds[k].Elems)
		}
	}
	agg.emit(r)
}
