package rules

import (
	"go/ast"
	"go/types"
)

// Local closures as functions (C17.G5): `emit := func(f *geojson.Feature) { … }` bound exactly once to a local variable
// and only ever called (`emit(x)`) is analysed like an unexported helper: its body gets a control-flow graph of its
// own, its calls are call sites with the per-call maximum of the body. Captured variables need no treatment: emissions
// are recognised by type. A closure that is reassigned, stored or passed on is not understood (its emissions stay
// "inside a function literal", undecided).

// closureOf returns the pseudo function of literal lit when lit is the only value of a local variable of fn that is
// used only in call position.
func (an *c17G5An) closureOf(fn *c17Fn, lit *ast.FuncLit) *c17Fn {
	if an.closures == nil {
		an.closures = map[*ast.FuncLit]*c17Fn{}
	}
	if h, ok := an.closures[lit]; ok {
		return h
	}
	an.closures[lit] = nil
	info := an.a.info
	par := fn.parents()
	var v types.Object
	switch p := par[lit].(type) {
	case *ast.AssignStmt:
		for i, rhs := range p.Rhs {
			if rhs == ast.Expr(lit) && len(p.Lhs) == len(p.Rhs) {
				v = objOf(info, p.Lhs[i])
			}
		}
	case *ast.ValueSpec:
		for i, val := range p.Values {
			if val == ast.Expr(lit) && len(p.Names) == len(p.Values) {
				v = info.Defs[p.Names[i]]
			}
		}
	}
	if v == nil || an.a.singleInit(fn, v) != ast.Expr(lit) {
		return nil
	}
	// every use of the variable is a call
	onlyCalled := true
	ast.Inspect(fn.Decl.Body, func(n ast.Node) bool {
		id, ok := n.(*ast.Ident)
		if !ok || info.Uses[id] != v {
			return true
		}
		call, isCall := par[id].(*ast.CallExpr)
		if !isCall || ast.Unparen(call.Fun) != ast.Expr(id) {
			onlyCalled = false
		}
		return true
	})
	sig, _ := info.TypeOf(lit).(*types.Signature)
	if !onlyCalled || sig == nil {
		return nil
	}
	obj := types.NewFunc(lit.Pos(), an.a.pk.Types, v.Name(), sig)
	decl := &ast.FuncDecl{Name: &ast.Ident{Name: v.Name(), NamePos: lit.Pos()}, Type: lit.Type, Body: lit.Body}
	h := &c17Fn{FuncInfo: &FuncInfo{Pkg: an.a.pk, Decl: decl, Obj: obj}, a: an.a}
	an.closures[lit] = h
	return h
}

// closureVar returns the pseudo function bound to local variable v of fn, if any.
func (an *c17G5An) closureVar(fn *c17Fn, v types.Object) *c17Fn {
	if v == nil {
		return nil
	}
	if _, isVar := v.(*types.Var); !isVar {
		return nil
	}
	lit, ok := ast.Unparen(an.a.singleInit(fn, v)).(*ast.FuncLit)
	if !ok || an.a.singleInit(fn, v) == nil {
		return nil
	}
	return an.closureOf(fn, lit)
}
