package rules

import (
	"fmt"
	"go/ast"
	"go/token"
)

// c20CV is a path together with the truth value a condition has on it.
type c20CV struct {
	st  *c20St
	val bool
}

// forkAtom decides a condition that is equivalent to atom (neg: to its negation): by the facts of the path when
// the atom was assumed before, otherwise by splitting the path into the two assumptions.
func (x *c20SX) forkAtom(st *c20St, atom string, neg bool) []c20CV {
	if v, ok := st.fact(atom); ok {
		return []c20CV{{st, v != neg}}
	}
	t, f := st, st.clone()
	t.facts[atom] = true
	f.facts[atom] = false
	return []c20CV{{t, !neg}, {f, neg}}
}

// forkUnknown explores both outcomes of a condition the executor cannot tie to an input.
func (x *c20SX) forkUnknown(st *c20St, at ast.Node, why string) []c20CV {
	note := fmt.Sprintf("`%s` (%s)", x.srcOf(at), why)
	t, f := st, st.clone()
	t.notes = append(t.notes, note)
	f.notes = append(f.notes, note)
	return []c20CV{{t, true}, {f, false}}
}

func (x *c20SX) cond(e ast.Expr, st *c20St) []c20CV {
	e = ast.Unparen(e)
	switch b := e.(type) {
	case *ast.UnaryExpr:
		if b.Op == token.NOT {
			out := x.cond(b.X, st)
			for i := range out {
				if out[i].st.ctl == c20cRun {
					out[i].val = !out[i].val
				}
			}
			return out
		}
	case *ast.BinaryExpr:
		switch b.Op {
		case token.LAND, token.LOR:
			var out []c20CV
			for _, cv := range x.cond(b.X, st) {
				if cv.st.ctl != c20cRun || cv.val == (b.Op == token.LOR) {
					out = append(out, cv)
					continue
				}
				out = append(out, x.cond(b.Y, cv.st)...)
			}
			return out
		case token.EQL, token.NEQ, token.LSS, token.LEQ, token.GTR, token.GEQ:
			var out []c20CV
			for _, it := range x.evList([]ast.Expr{b.X, b.Y}, st) {
				if it.st.ctl != c20cRun {
					out = append(out, c20CV{it.st, false})
					continue
				}
				out = append(out, x.compare(b.Op, it.vs[0], it.vs[1], it.st, e)...)
			}
			return out
		}
	}
	var out []c20CV
	for _, r := range x.ev(e, st) {
		switch {
		case r.st.ctl != c20cRun:
			out = append(out, c20CV{r.st, false})
		case r.v.k == c20kBool:
			out = append(out, c20CV{r.st, r.v.b})
		default:
			out = append(out, x.forkUnknown(r.st, e, "not a comparison of inputs with constants")...)
		}
	}
	return out
}

func c20Mirror(op token.Token) token.Token {
	switch op {
	case token.LSS:
		return token.GTR
	case token.LEQ:
		return token.GEQ
	case token.GTR:
		return token.LSS
	case token.GEQ:
		return token.LEQ
	}
	return op
}

func c20IsConstLike(v c20V) bool {
	switch v.k {
	case c20kNil, c20kBool:
		return true
	case c20kInt:
		return v.h == nil
	case c20kStr:
		return len(v.sym.holes()) == 0
	}
	return false
}

func c20CmpInt(op token.Token, a, b int64) bool {
	switch op {
	case token.EQL:
		return a == b
	case token.NEQ:
		return a != b
	case token.LSS:
		return a < b
	case token.LEQ:
		return a <= b
	case token.GTR:
		return a > b
	}
	return a >= b
}

// emptiness classifies `len op c` as a non-emptiness (+1) or emptiness (-1) test, 0 otherwise.
func c20Emptiness(op token.Token, c int64) int {
	switch {
	case (op == token.GTR || op == token.NEQ) && c == 0, op == token.GEQ && c == 1:
		return 1
	case (op == token.EQL || op == token.LEQ) && c == 0, op == token.LSS && c == 1:
		return -1
	}
	return 0
}

// cmpAtom forks on `<key> op c` using the normal forms ==, <, <= (the other three are their negations).
func (x *c20SX) cmpAtom(st *c20St, key string, op token.Token, c int64) []c20CV {
	neg := false
	switch op {
	case token.NEQ:
		op, neg = token.EQL, true
	case token.GTR:
		op, neg = token.LEQ, true
	case token.GEQ:
		op, neg = token.LSS, true
	}
	return x.forkAtom(st, fmt.Sprintf("cmp|%s|%s|%d", key, op, c), neg)
}

// nonEmptySym: is the symbolic string non-empty? (+1 yes, -1 no, 0 = depends on exactly the hole returned, 2 = unknown)
func c20NonEmptySym(s c20Sym) (int, *c20Hole) {
	var hs []*c20Hole
	for _, t := range s {
		switch {
		case t.opt != nil:
			return 2, nil
		case t.hole != nil:
			hs = append(hs, t.hole)
		case t.lit != "":
			return 1, nil
		}
	}
	switch len(hs) {
	case 0:
		return -1, nil
	case 1:
		return 0, hs[0]
	}
	return 2, nil
}

func (x *c20SX) compare(op token.Token, a, b c20V, st *c20St, at ast.Node) []c20CV {
	if c20IsConstLike(a) && !c20IsConstLike(b) {
		a, b, op = b, a, c20Mirror(op)
	}
	known := func(v bool) []c20CV { return []c20CV{{st, v}} }
	eqOp := op == token.EQL || op == token.NEQ
	switch {
	case a.k == c20kInt && b.k == c20kInt:
		return known(c20CmpInt(op, a.n, b.n))
	case a.k == c20kBool && b.k == c20kBool && eqOp:
		return known((a.b == b.b) == (op == token.EQL))
	case b.k == c20kNil && eqOp:
		neg := op == token.NEQ // condition is "a is nil" (EQL) or its negation
		switch a.k {
		case c20kNil:
			return known(!neg)
		case c20kErr, c20kRef, c20kFunc, c20kAgg:
			return known(neg)
		case c20kObj:
			if a.tag == "err" {
				return x.forkAtom(st, fmt.Sprintf("nil:#%d", a.id), neg)
			}
			return known(neg)
		case c20kIn:
			return x.forkAtom(st, "nil:"+a.h.key(), neg)
		}
	case a.k == c20kStr && b.k == c20kStr && eqOp && (a.id != 0 && len(a.sym) == 0 && b.id == 0 && b.sym.render(nil) == "" || b.id != 0 && len(b.sym) == 0 && a.id == 0 && a.sym.render(nil) == ""):
		// a string built up by the enclosing id loop, nothing added yet in this iteration, compared with ""
		return x.forkAtom(st, fmt.Sprintf("notfirst:#%d", a.id+b.id), op == token.EQL)
	case a.k == c20kStr && b.k == c20kStr && eqOp:
		if c20IsConstLike(a) {
			return known((a.sym.render(nil) == b.sym.render(nil)) == (op == token.EQL))
		}
		if b.sym.render(nil) == "" && a.id != 0 && len(a.sym) == 0 {
			// a string built up by the enclosing id loop, nothing added yet in this iteration
			return x.forkAtom(st, fmt.Sprintf("notfirst:#%d", a.id), op == token.EQL)
		}
		if b.sym.render(nil) == "" {
			ne, h := c20NonEmptySym(a.sym)
			switch ne {
			case 1, -1:
				return known((ne == 1) == (op == token.NEQ))
			case 0:
				return x.forkAtom(st, "nonempty:"+h.key(), op == token.EQL)
			}
		}
	case a.k == c20kLen && b.k == c20kInt && b.h == nil:
		base := *a.base
		em := c20Emptiness(op, b.n)
		switch base.k {
		case c20kStr:
			ne, h := c20NonEmptySym(base.sym)
			switch {
			case em != 0 && base.id != 0 && len(base.sym) == 0:
				return x.forkAtom(st, fmt.Sprintf("notfirst:#%d", base.id), em == -1)
			case em == 0:
			case ne == 1 || ne == -1:
				return known((ne == 1) == (em == 1))
			case ne == 0:
				return x.forkAtom(st, "nonempty:"+h.key(), em == -1)
			}
		case c20kIn:
			if em != 0 {
				return x.forkAtom(st, "nonempty:"+base.h.key(), em == -1)
			}
			return x.cmpAtom(st, "len:"+base.h.key(), op, b.n)
		case c20kNil:
			return known(c20CmpInt(op, 0, b.n))
		case c20kList:
			if !base.in && base.star == nil {
				return known(c20CmpInt(op, int64(len(base.elems)), b.n))
			}
		case c20kBytes:
			switch {
			case em == 0:
			case len(base.sym) > 0:
				return known(em == 1)
			case base.id != 0:
				return x.forkAtom(st, fmt.Sprintf("notfirst:#%d", base.id), em == -1)
			default:
				return known(em == -1)
			}
		case c20kSel, c20kObj:
			return x.cmpAtom(st, "len:"+base.String(), op, b.n)
		}
	case a.k == c20kIn && b.k == c20kInt && b.h == nil:
		return x.cmpAtom(st, a.h.key(), op, b.n)
	case a.k == c20kObj && a.tag == "loopidx" && b.k == c20kInt && b.h == nil:
		if em := c20Emptiness(op, b.n); em != 0 {
			return x.forkAtom(st, fmt.Sprintf("notfirst:#%d", a.id), em == -1)
		}
	}
	return x.forkUnknown(st, at, "comparison of "+a.String()+" with "+b.String())
}
