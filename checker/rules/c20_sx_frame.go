package rules

import (
	"go/ast"
	"go/types"
)

// Named results: the result variables are locals that start with their zero value; a bare `return` returns their
// current values and `return a, b` returns a, b. (A deferred closure that assigns is rejected by the defer statement,
// so the values at the return statement are the values returned.)

// namedResults lists the result variables of sig when all of them are named.
func c20NamedResults(sig *types.Signature) []types.Object {
	var out []types.Object
	for i := 0; i < sig.Results().Len(); i++ {
		v := sig.Results().At(i)
		if v.Name() == "" {
			return nil
		}
		out = append(out, v)
	}
	return out
}

// enter declares the named results of the innermost frame on the path.
func (x *c20SX) enter(st *c20St) {
	f := &x.frames[len(x.frames)-1]
	f.results = c20NamedResults(f.sig)
	for _, o := range f.results {
		if o.Name() == "_" {
			continue
		}
		x.born(o)
		st.env[o] = x.zero(o.Type())
	}
}

// bareReturn yields the values of the named results for a `return` without operands.
func (x *c20SX) bareReturn(s *ast.ReturnStmt, st *c20St) ([]c20V, bool) {
	f := x.frame()
	if len(s.Results) != 0 || len(f.results) == 0 {
		return nil, false
	}
	var vs []c20V
	for _, o := range f.results {
		v, ok := st.env[o]
		if !ok {
			v = x.zero(o.Type())
		}
		vs = append(vs, st.resolve(v))
	}
	return vs, true
}

// variadicArg packs arguments given one by one for a variadic parameter of type []T.
func (x *c20SX) variadicArg(t types.Type, args []c20V) c20V {
	if len(args) == 0 {
		return c20V{k: c20kNil}
	}
	if z := x.zero(t); z.k == c20kList {
		for _, a := range args {
			if a.k != c20kStr {
				return c20Unknown("variadic string arguments include %s", a.String())
			}
			z.elems = append(z.elems, a.sym)
		}
		return z
	}
	return c20V{k: c20kAgg, typ: t, vs: append([]c20V(nil), args...)}
}

// toIface converts a value stored into a place of type t: a nil POINTER to one of the package's error types put into
// an interface (returned as error, assigned to an error variable) is a non-nil interface value holding a nil pointer.
func (x *c20SX) toIface(v c20V, t types.Type) c20V {
	if v.k != c20kNil || v.typ == nil || t == nil {
		return v
	}
	if _, isIface := t.Underlying().(*types.Interface); !isIface {
		return v
	}
	pt, ok := v.typ.(*types.Pointer)
	if !ok {
		return v
	}
	if name := x.pkgErrType(v.typ); name != "" {
		return c20V{k: c20kErr, tag: name, typ: pt.Elem(), b: true, name: "typed nil pointer", fields: map[string]c20V{}}
	}
	return c20Unknown("a typed nil pointer %s converted to an interface", v.typ)
}
