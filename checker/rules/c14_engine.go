package rules

// Path-sensitive exploration engine of the C14 rules.
//
// The C14 rules are statements about every execution of a handful of small functions (the DFS of the
// child-first ordering, its producer goroutine, the constructor, Next and Close). To keep those statements
// independent of the surface form of the code, the rules do not look at one function's statement list or
// one function's CFG. Instead the engine explores a function *together with everything it statically calls
// inside the module* (calls are followed into the callee's own go/cfg graph, parameters bound to arguments,
// results bound back), and it tracks a small finite abstract store along every path:
//
//	local variable  ->  {true, false}      (booleans)
//	local variable  ->  {nil, non-nil}     (errors, pointers, ...)
//	call result i   ->  the same, for calls that were followed
//	pure local atom ->  {true, false}      (e.g. `m.Type == osm.TypeRelation`, `id != 0`)
//
// A branch whose condition is decided by the store is taken in one direction only; an undecided branch is
// taken both ways and the store learns the outcome. `a && b`, `a || b` and `!a` are split into their atoms,
// tagged switches become `tag == case` atoms. The result is a finite graph of (program point, store) states.
// Rules are then phrased as reachability questions on that graph ("with these edges removed, can the send
// still be reached from the entry?"), which is the same question whatever mixture of helpers, early
// returns, nested ifs, switches and temporaries the source uses.

import (
	"fmt"
	"go/ast"
	"go/token"
	"go/types"
	"sort"
	"strings"

	"golang.org/x/tools/go/cfg"
	"golang.org/x/tools/go/packages"

	"osmcheck/core"
)

const (
	c14True   int8 = 1
	c14False  int8 = 2
	c14Nil    int8 = 3
	c14NonNil int8 = 4
)

const c14MaxStates = 60000
const c14MaxDepth = 8

// ---------------------------------------------------------------------------
// abstract store

type c14Store struct {
	m   map[string]int8
	key string
}

var c14EmptyStore = &c14Store{m: map[string]int8{}}

func (s *c14Store) with(mod func(m map[string]int8)) *c14Store {
	m := make(map[string]int8, len(s.m)+2)
	for k, v := range s.m {
		m[k] = v
	}
	mod(m)
	keys := make([]string, 0, len(m))
	for k := range m {
		keys = append(keys, k)
	}
	sort.Strings(keys)
	var b strings.Builder
	for _, k := range keys {
		fmt.Fprintf(&b, "%s=%d|", k, m[k])
	}
	return &c14Store{m: m, key: b.String()}
}

// ---------------------------------------------------------------------------
// functions, contexts, nodes, states

// c14Fn is a function body the engine can walk.
type c14Fn struct {
	pk      *packages.Package
	info    *types.Info
	fi      *FuncInfo    // nil for a function literal
	lit     *ast.FuncLit // nil for a declaration
	body    *ast.BlockStmt
	ftype   *ast.FuncType
	recv    types.Object   // receiver variable, or nil
	params  []types.Object // parameter variables in order (nil for unnamed/blank)
	nres    int
	results []types.Object // named result variables (nil entries when unnamed)
	g       *cfg.CFG
	par     map[ast.Node]ast.Node
	name    string
	swTag   map[ast.Expr]*ast.BinaryExpr // case expression of a tagged switch -> synthesised `tag == expr`
	untrack map[types.Object]bool        // address taken, or written inside a nested function literal
}

func (f *c14Fn) pos() token.Pos {
	if f.lit != nil {
		return f.lit.Pos()
	}
	return f.fi.Decl.Pos()
}

func (f *c14Fn) end() token.Pos {
	if f.lit != nil {
		return f.lit.End()
	}
	return f.fi.Decl.End()
}

type c14Eng struct {
	p          *core.Program
	fns        map[*ast.BlockStmt]*c14Fn
	decls      map[*packages.Package]map[*types.Func]*ast.FuncDecl
	noInline   map[*types.Func]bool
	keepStruct map[string]bool     // struct types (pkgpath.Name) whose fields are never replaced by their initial value
	assigned   map[*types.Var]bool // fields assigned somewhere in their package (lazily filled)
	scanned    map[*types.Package]bool
	objID      map[types.Object]int
	nodeID     map[ast.Node]int
	nctx       int
}

func c14NewEng(p *core.Program) *c14Eng {
	return &c14Eng{p: p, fns: map[*ast.BlockStmt]*c14Fn{}, decls: map[*packages.Package]map[*types.Func]*ast.FuncDecl{},
		noInline: map[*types.Func]bool{}, keepStruct: map[string]bool{}, assigned: map[*types.Var]bool{}, scanned: map[*types.Package]bool{}, objID: map[types.Object]int{}, nodeID: map[ast.Node]int{}}
}

func (e *c14Eng) oid(o types.Object) int {
	if id, ok := e.objID[o]; ok {
		return id
	}
	id := len(e.objID) + 1
	e.objID[o] = id
	return id
}

func (e *c14Eng) nid(n ast.Node) int {
	if id, ok := e.nodeID[n]; ok {
		return id
	}
	id := len(e.nodeID) + 1
	e.nodeID[n] = id
	return id
}

func (e *c14Eng) mkFn(pk *packages.Package, body *ast.BlockStmt, ftype *ast.FuncType, recv *ast.FieldList, fi *FuncInfo, lit *ast.FuncLit) *c14Fn {
	if f := e.fns[body]; f != nil {
		return f
	}
	info := pk.TypesInfo
	f := &c14Fn{pk: pk, info: info, fi: fi, lit: lit, body: body, ftype: ftype,
		swTag: map[ast.Expr]*ast.BinaryExpr{}, untrack: map[types.Object]bool{}}
	if fi != nil {
		f.name = fi.Name()
	} else {
		f.name = "func literal at " + e.p.Rel(lit.Pos())
	}
	if recv != nil && len(recv.List) == 1 && len(recv.List[0].Names) == 1 {
		f.recv = info.Defs[recv.List[0].Names[0]]
	}
	if ftype.Params != nil {
		for _, fld := range ftype.Params.List {
			if len(fld.Names) == 0 {
				f.params = append(f.params, nil)
			}
			for _, nm := range fld.Names {
				f.params = append(f.params, info.Defs[nm]) // nil for blank
			}
		}
	}
	if ftype.Results != nil {
		f.nres = ftype.Results.NumFields()
		for _, fld := range ftype.Results.List {
			if len(fld.Names) == 0 {
				f.results = append(f.results, nil)
			}
			for _, nm := range fld.Names {
				f.results = append(f.results, info.Defs[nm])
			}
		}
	}
	f.g = newCFG(info, body)
	f.par = e.p.Parents(e.p.FileOf(pk, body.Pos()))
	// tagged switches, untrackable variables
	var lits []*ast.FuncLit
	ast.Inspect(body, func(n ast.Node) bool {
		switch x := n.(type) {
		case *ast.SwitchStmt:
			if x.Tag != nil {
				for _, cl := range x.Body.List {
					for _, ce := range cl.(*ast.CaseClause).List {
						f.swTag[ce] = &ast.BinaryExpr{X: x.Tag, OpPos: ce.Pos(), Op: token.EQL, Y: ce}
					}
				}
			}
		case *ast.UnaryExpr:
			if x.Op == token.AND {
				if o := objOf(info, x.X); o != nil && !e.immutableStruct(o.Type()) {
					f.untrack[o] = true
				}
			}
		case *ast.FuncLit:
			lits = append(lits, x)
		case *ast.CallExpr:
			// `v.M()` with a pointer-receiver method takes the address of v implicitly
			if sel, ok := ast.Unparen(x.Fun).(*ast.SelectorExpr); ok {
				if s := info.Selections[sel]; s != nil && s.Kind() == types.MethodVal {
					if _, ptrRecv := s.Obj().Type().(*types.Signature).Recv().Type().(*types.Pointer); ptrRecv {
						if o := objOf(info, sel.X); o != nil {
							if _, isPtr := o.Type().Underlying().(*types.Pointer); !isPtr && !e.immutableStruct(o.Type()) {
								f.untrack[o] = true
							}
						}
					}
				}
			}
		}
		return true
	})
	e.fns[body] = f // before looking at callees: a function may hand a literal to itself
	for _, l := range lits {
		if e.confinedLit(f, l) {
			continue // runs only where the exploration follows it (c14_closures.go)
		}
		mark := func(e ast.Expr) {
			if o := objOf(info, e); o != nil && (o.Pos() < l.Pos() || o.Pos() >= l.End()) {
				f.untrack[o] = true
			}
		}
		ast.Inspect(l.Body, func(n ast.Node) bool {
			switch x := n.(type) {
			case *ast.AssignStmt:
				for _, lh := range x.Lhs {
					mark(lh)
				}
			case *ast.IncDecStmt:
				mark(x.X)
			case *ast.RangeStmt:
				if x.Key != nil {
					mark(x.Key)
				}
				if x.Value != nil {
					mark(x.Value)
				}
			}
			return true
		})
	}
	e.fns[body] = f
	return f
}

func (e *c14Eng) fnOfDecl(fi *FuncInfo) *c14Fn {
	if fi == nil || fi.Decl.Body == nil {
		return nil
	}
	return e.mkFn(fi.Pkg, fi.Decl.Body, fi.Decl.Type, fi.Decl.Recv, fi, nil)
}

func (e *c14Eng) fnOfLit(pk *packages.Package, lit *ast.FuncLit) *c14Fn {
	return e.mkFn(pk, lit.Body, lit.Type, nil, nil, lit)
}

// declFn finds the body of a function or method declared in the analysed module.
func (e *c14Eng) declFn(fn *types.Func) *c14Fn {
	if fn == nil || fn.Pkg() == nil {
		return nil
	}
	fn = fn.Origin()
	pk := e.p.ByPath[fn.Pkg().Path()]
	if pk == nil || !strings.HasPrefix(pk.PkgPath, core.ModulePath) || len(pk.Syntax) == 0 || pk.TypesInfo == nil {
		return nil
	}
	dm := e.decls[pk]
	if dm == nil {
		dm = map[*types.Func]*ast.FuncDecl{}
		for _, f := range pk.Syntax {
			for _, d := range f.Decls {
				if fd, ok := d.(*ast.FuncDecl); ok && fd.Body != nil {
					if o, _ := pk.TypesInfo.Defs[fd.Name].(*types.Func); o != nil {
						dm[o] = fd
					}
				}
			}
		}
		e.decls[pk] = dm
	}
	fd := dm[fn]
	if fd == nil {
		return nil
	}
	return e.fnOfDecl(&FuncInfo{Pkg: pk, Decl: fd, Obj: fn})
}

// c14Ctx is one activation of a function in the explored graph: the root, or a followed call.
type c14Ctx struct {
	id       int
	g        *c14Graph
	fn       *c14Fn
	parent   *c14Ctx       // caller (for the root of the producer graph: the constructor's context, in another graph)
	call     *ast.CallExpr // the call in parent
	callNode *c14Node      // the node of parent at which the call is entered
	depth    int
}

func (c *c14Ctx) owns(pos token.Pos) bool { return c.fn.pos() <= pos && pos < c.fn.end() }

// ownerCtx returns the activation whose function declares obj (nil for package-level objects).
func c14OwnerCtx(ctx *c14Ctx, obj types.Object) *c14Ctx {
	for c := ctx; c != nil; c = c.parent {
		if c.owns(obj.Pos()) {
			return c
		}
	}
	return nil
}

type c14NodeKey struct {
	ctx  *c14Ctx
	blk  *cfg.Block
	idx  int
	step int
	atom ast.Expr
}

// c14Node is a program point: one node of a go/cfg block (or one atom of its terminating condition, or the
// block's tail) in one activation. A node that contains followed calls has one step per call (step i enters
// call i); the last step executes the node itself.
type c14Node struct {
	id    int
	ctx   *c14Ctx
	blk   *cfg.Block
	idx   int
	step  int
	atom  ast.Expr
	ast   ast.Node // nil for the tail
	inl   []*ast.CallExpr
	inlFn []*c14Fn
	fork  ast.Expr // plain node that computes a boolean into a variable or a result: the states split on its value
}

func (n *c14Node) exec() bool { return n.step == len(n.inl) }
func (n *c14Node) tail() bool { return n.atom == nil && n.idx == len(n.blk.Nodes) }
func (n *c14Node) pos() token.Pos {
	if n.ast != nil {
		return n.ast.Pos()
	}
	if n.blk.Stmt != nil {
		return n.blk.Stmt.Pos()
	}
	return n.ctx.fn.pos()
}

// evalExpr is the boolean expression a node decides: an atom of a branch condition, or the boolean a plain node
// computes into a variable / a result.
func (n *c14Node) evalExpr() ast.Expr {
	if n.atom == nil {
		return n.fork
	}
	if b := n.ctx.fn.swTag[n.atom]; b != nil {
		return b
	}
	return n.atom
}

type c14Edge struct {
	to   *c14State
	val  int8            // +1: the atom is true, -1: false
	loop int8            // +1: next iteration of the loop headed by from.blk, -1: loop exhausted
	sel  *ast.CommClause // the select case entered
	kind byte            // 'c' call, 'r' return to caller, 0 otherwise
}

type c14State struct {
	id    int
	n     *c14Node
	store *c14Store
	out   []c14Edge
	in    []*c14State
	exit  bool // return of the root activation
	dead  bool // panic / blocked forever
}

type c14CtxKey struct {
	parent *c14Ctx
	call   *ast.CallExpr
}

type c14Graph struct {
	e         *c14Eng
	name      string
	root      *c14Ctx
	nodes     map[c14NodeKey]*c14Node
	nodeList  []*c14Node
	states    map[string]*c14State
	stateList []*c14State
	byNode    map[*c14Node][]*c14State
	byAst     map[ast.Node][]*c14Node // executing nodes by their syntax
	entry     *c14State
	ctxs      map[c14CtxKey]*c14Ctx
	ctxList   []*c14Ctx
	calls     map[*ast.CallExpr]*c14Node // every call expression evaluated by some node of the graph
	truncated bool
	recursive []*ast.CallExpr // calls not followed because the callee is already being walked
	defers    []*c14Node
	gos       []*c14Node
	work      []*c14State
	forced    ast.Expr // the boolean expression whose value is fixed while a splitting node is executed
	forcedVal int8

	valMemo map[string]*c14Val
	// fromStates restricts, while a call result is resolved, the states of a return statement to those that reach the use
	fromStates map[*c14Node][]*c14State
	valDepth   int
}
