package rules

import (
	"go/ast"
	"go/token"
	"go/types"

	"osmcheck/core"
)

// callSites lists the static calls of f in package osm.
type c15CallSite struct {
	caller *c15Fn
	call   *ast.CallExpr
}

func (w *c15World) callSites(f *c15Fn) []c15CallSite {
	var out []c15CallSite
	for _, fi := range w.order {
		g := w.fn(fi.Obj)
		if g == nil {
			continue
		}
		inspectNoLit(fi.Decl.Body, func(n ast.Node) bool {
			if call, ok := n.(*ast.CallExpr); ok {
				if fn := callee(w.info, call); fn != nil && fn.Origin() == f.fi.Obj {
					out = append(out, c15CallSite{caller: g, call: call})
				}
			}
			return true
		})
	}
	return out
}

// c15NegMsg explains why a guard of the upper bound alone is not enough.
const c15NegMsg = "only the upper bound is established: Update.Index is a signed int read from xml/json, and a negative index indexes the list and panics instead of being reported/skipped (the guard must exclude `index < 0` as well, or compare unsigned)"

// proveInRange proves 0 <= index < len(container) at pos, both written in env.fn: by controlling tests in env.fn,
// by finite-domain evaluation of env.fn (the use is unreachable for an index at or beyond the length, and for a
// negative index), or, for an unexported function, by controlling tests at every call site.
func (w *c15World) proveInRange(env *c15Env, pos token.Pos, container, index ast.Expr, depth int) (string, string) {
	P := w.r.P
	f := env.fn
	ip, cp := w.pathOf(env, index, false), w.pathOf(env, container, false)
	if ip == nil || cp == nil {
		return "", "the indexed value or the index is not a plain variable path"
	}
	show := func(fact *c15Fact) string {
		neg := ""
		if !fact.val {
			neg = "the false edge of "
		}
		return neg + "`" + src(P.Fset, fact.expr) + "` (" + P.Rel(fact.pos) + ")"
	}
	facts := w.factsFor(env, pos)
	upper, lower := w.rangeFacts(facts, ip, cp)
	if upper != nil && lower != nil {
		// neither the container nor the update is reassigned between the tests and the use
		first := upper.pos
		if lower.pos < first {
			first = lower.pos
		}
		if first < pos {
			if what := w.changedBetween(env, []*c15Path{cp, ip}, first, pos); what != "" {
				return "", "`" + what + "` between the range test and the use changes the indexed value or the index"
			}
		}
		if upper == lower {
			return "controlled by " + show(upper) + ", an unsigned comparison that excludes negative indexes too", ""
		}
		return "controlled by " + show(upper) + " and " + show(lower), ""
	}
	// finite-domain proof: evaluated with "index at or beyond len(container)" and with "index negative", no path from
	// the entry of the function reaches the use (helpers that return an error / a boolean are summarised)
	unreachable := func(side int) bool {
		n, _, _ := f.nodeAt(pos)
		if n == nil {
			return false
		}
		o := &c15Oracle{w: w, rng: side, rngIdx: ip, rngCont: cp}
		return !w.walk(f.g.Blocks[0], 0, c15WalkOpt{env: env, oracle: o}).visited[n]
	}
	hi := upper != nil || unreachable(c15High)
	lo := lower != nil || unreachable(c15Neg)
	if hi && lo {
		if what := w.changedBetween(env, []*c15Path{cp, ip}, f.fi.Decl.Body.Pos(), pos); what != "" {
			return "", "`" + what + "` before the use changes the indexed value or the index"
		}
		return "unreachable from the entry of " + f.name() + " when evaluated with `" + src(P.Fset, index) + " >= len(" + src(P.Fset, container) + ")` and with `" + src(P.Fset, index) + " < 0`", ""
	}
	if wf := w.wrappingFact(facts, ip, cp); wf != nil {
		return "", "the controlling test `" + src(P.Fset, wf.expr) + "` (" + P.Rel(wf.expr.Pos()) + ") compares the index, converted to an unsigned type, with len-1: for an empty list len-1 wraps to the largest value and every index passes, so it does not establish `" + src(P.Fset, index) + " < len(" + src(P.Fset, container) + ")`"
	}
	if hi && !lo {
		how := "evaluation with an index at or beyond the length"
		if upper != nil {
			how = show(upper)
		}
		return "", "guarded by " + how + ", but " + c15NegMsg
	}
	none := "no controlling test establishes `0 <= " + src(P.Fset, index) + " < len(" + src(P.Fset, container) + ")`"
	if f.fi.Obj.Exported() || depth >= 2 || env.parent != nil {
		return "", none
	}
	sites := w.callSites(f)
	if len(sites) == 0 {
		return "", none + " and " + f.name() + " has no static caller"
	}
	proof := ""
	for _, cs := range sites {
		cenv := w.rootEnv(cs.caller)
		ce := w.childEnv(cenv, cs.call, f)
		ip2, cp2 := w.pathOf(ce, index, false), w.pathOf(ce, container, false)
		if ip2 == nil || cp2 == nil {
			return "", "cannot map the operands to the caller " + cs.caller.name()
		}
		up, low := w.rangeFacts(w.factsFor(cenv, cs.call.Pos()), ip2, cp2)
		if up == nil {
			return "", "no controlling test in " + f.name() + " and the call at " + P.Rel(cs.call.Pos()) + " is not controlled by a range test either"
		}
		if low == nil && !lo {
			return "", "the call at " + P.Rel(cs.call.Pos()) + " is guarded by " + show(up) + ", but " + c15NegMsg
		}
		proof += "call at " + P.Rel(cs.call.Pos()) + " controlled by `" + src(P.Fset, up.expr) + "`; "
	}
	return "every caller tests the range: " + proof, ""
}

// ---------------------------------------------------------------- U3

func c15U3(r *core.R) {
	w := c15NewWorld(r)
	if w.pk == nil {
		r.Anchor("package osm")
		return
	}
	nfun := 0
	// units: every declared function, and every function literal (with the environment it is written in, so that
	// captured variables resolve)
	var units []*c15Env
	var addLits func(env *c15Env)
	addLits = func(env *c15Env) {
		ast.Inspect(env.fn.fi.Decl.Body, func(n ast.Node) bool {
			lit, ok := n.(*ast.FuncLit)
			if !ok {
				return true
			}
			if lf := w.litFn(lit); lf != nil {
				le := &c15Env{fn: lf, lex: env}
				units = append(units, le)
				addLits(le)
			}
			return false
		})
	}
	for _, fi := range w.order {
		if f := w.fn(fi.Obj); f != nil {
			env := w.rootEnv(f)
			units = append(units, env)
			addLits(env)
		}
	}
	for _, env := range units {
		f := env.fn
		fi := f.fi
		type use struct {
			ix  *ast.IndexExpr
			key string
		}
		var uses []use
		inspectNoLit(fi.Decl.Body, func(n ast.Node) bool {
			ix, ok := n.(*ast.IndexExpr)
			if !ok {
				return true
			}
			if _, isConst := constInt(w.info, ix.Index); isConst {
				return true
			}
			ip := w.pathOf(env, ix.Index, false)
			if ip == nil || !c15IsUpdateIndexPath(ip) {
				return true
			}
			uses = append(uses, use{ix: ix, key: w.containerKey(env, ix.X)})
			return true
		})
		if len(uses) == 0 {
			continue
		}
		nfun++
		okCount := map[string]int{}
		okProof := map[string]string{}
		okPos := map[string]token.Pos{}
		failed := map[string]bool{}
		var order []string
		for _, u := range uses {
			c := "index@" + u.key
			if _, seen := okCount[c]; !seen && !failed[c] {
				order = append(order, c)
			}
			proof, why := w.proveInRange(env, u.ix.Pos(), u.ix.X, u.ix.Index, 0)
			if why != "" {
				failed[c] = true
				r.Bad(c, u.ix.Pos(), "`%s` in %s: %s: an update index outside [0, len) indexes memory or panics instead of being reported/skipped", src(r.P.Fset, u.ix), f.name(), why)
				continue
			}
			if okCount[c] == 0 {
				okProof[c], okPos[c] = proof, u.ix.Pos()
			}
			okCount[c]++
		}
		for _, c := range order {
			if !failed[c] && okCount[c] > 0 {
				r.OK(c, okPos[c], "%d use(s) in %s indexed by an update's Index, each %s", okCount[c], f.name(), okProof[c])
			}
		}
	}
	r.Stat("functions_indexing_by_update_index", nfun)

	// out-of-range updates at or before t are reported as an error by the applying APIs
	roots := w.roots()
	for _, name := range c15APIs {
		rt := w.rootByName(roots, name)
		if rt == nil || !c15ReturnsError(rt.f) {
			continue
		}
		c := "oob@" + name
		all, undecided := w.handlings(rt)
		app := c15Applying(all)
		if len(undecided) > 0 || len(app) != 1 {
			r.Unknown(c, rt.f.fi.Decl.Pos(), "no single loop with a decided in-time edge that applies updates (see U1/U2)")
			continue
		}
		h := app[0]
		site, l := h.site, h.site.loop
		bad := ""
		var ret0 *ast.ReturnStmt
		type oobCase struct {
			ord  c15Ord
			side int
		}
		var cases []oobCase
		for _, ord := range h.ords {
			cases = append(cases, oobCase{ord, c15High}, oobCase{ord, c15Neg})
		}
		for _, oc := range cases {
			ord := oc.ord
			o := w.oracleFor(h, ord)
			o.rng = oc.side
			wk := w.walk(l.entry, 0, c15WalkOpt{env: site.env, loop: l, oracle: o, follow: true})
			returns, implicit := wk.returns, wk.implicit
			var nonNil types.Object
			if wk.done && wk.after != nil && wk.after.exitErr != nil {
				// left through a guard variable / break with the error pending: "err = X; leave; return err"
				returns = append(append([]*ast.ReturnStmt{}, returns...), wk.after.returns...)
				implicit = implicit || wk.after.implicit
				nonNil = wk.after.exitErr
			}
			switch {
			case wk.head:
				bad = "the scan goes on with the next update"
			case wk.escape != nil || (wk.done && nonNil == nil):
				bad = "the loop is left without an error"
			case implicit:
				bad = "the function ends without an error"
			}
			for _, ret := range returns {
				if !w.retFails(l.fn, ret, nonNil) {
					bad = "`" + src(r.P.Fset, ret) + "` (" + r.P.Rel(ret.Pos()) + ") may return a nil error"
				} else if ret0 == nil {
					ret0 = ret
				}
			}
			if bad == "" && ret0 == nil {
				bad = "no return is reached"
			}
			if bad != "" {
				which := "is not below the length of the child list"
				if oc.side == c15Neg {
					which = "is negative (the field is a signed int read from xml/json)"
				}
				bad = "for an update stamped " + ord.String() + " whose Index " + which + ", " + bad
				break
			}
		}
		if bad != "" {
			r.Bad(c, l.pos(), "%s: an index outside [0, len) must be reported as an error by %s", bad, name)
		} else {
			r.OK(c, l.pos(), "evaluated with Index at or beyond the length and with Index negative (helpers summarised under the same input): every path of the in-time handling ends in a return with a non-nil error (`%s`)", src(r.P.Fset, ret0))
		}
	}
}

// containerKey renders the indexed container for a construct key: by type and fields when rooted in a receiver or
// parameter ("Way.Nodes"), by function and type for a local ("(*Way).LineStringAt orb.LineString").
func (w *c15World) containerKey(env *c15Env, e ast.Expr) string {
	p := w.pathOf(env, e, false)
	if p == nil {
		return env.fn.name() + " " + types.TypeString(w.info.TypeOf(e), c15Qualifier)
	}
	owner := env
	for owner.lex != nil {
		owner = owner.lex // a function literal is named after the function it is written in
	}
	owner = owner.root()
	if owner.fn.isInput(p.root) {
		return p.String()
	}
	return owner.fn.name() + " " + p.String()
}

func c15Qualifier(pk *types.Package) string {
	if pk.Path() == core.ModulePath {
		return ""
	}
	return pk.Name()
}
