package rules

import (
	"fmt"
	"go/ast"
	"go/types"
	"net/url"
	"strings"
)

func c20IsErrorType(t types.Type) bool {
	return types.Identical(t, types.Universe.Lookup("error").Type())
}

// isWaiter: an interface whose only method is func(context.Context) error (the role of the rate limiter).
func c20IsWaiter(t types.Type) bool {
	if t == nil {
		return false
	}
	it, ok := t.Underlying().(*types.Interface)
	if !ok || it.NumMethods() != 1 {
		return false
	}
	sig := c20Sig(it.Method(0))
	return sig.Params().Len() == 1 && c20IsCtx(sig.Params().At(0).Type()) && sig.Results().Len() == 1 && c20IsErrorType(sig.Results().At(0).Type())
}

func (x *c20SX) event(st *c20St, kind string, call *ast.CallExpr, fn *types.Func, recv *c20V, args []c20V) int {
	id := x.newID()
	ev := c20Event{kind: kind, call: call, fn: fn, args: args, id: id, ellipsis: call.Ellipsis.IsValid()}
	if recv != nil {
		ev.recv = *recv
	}
	st.events = append(st.events, ev)
	return id
}

func c20ErrObj(id int, what string) c20V { return c20V{k: c20kObj, tag: "err", id: id, name: what} }

// model evaluates the library functions the package builds URLs and talks HTTP with.
func (x *c20SX) model(fn *types.Func, call *ast.CallExpr, recv *c20V, args []c20V, st *c20St) (c20V, bool) {
	pkg := ""
	if fn.Pkg() != nil {
		pkg = fn.Pkg().Path()
	}
	sig := c20Sig(fn)
	name := fn.Name()
	if sig.Recv() == nil {
		switch pkg + "." + name {
		case "fmt.Sprintf":
			return x.sprintf(call, args), true
		case "fmt.Sprint":
			return x.sprint(call, args), true
		case "fmt.Fprintf", "fmt.Fprint":
			if len(args) >= 1 && args[0].k == c20kRef {
				text := x.sprint(call, args[1:])
				if fn.Name() == "Fprintf" {
					text = x.sprintf(call, args[1:])
				}
				if x.builderWrite(args[0], text, st) {
					return c20V{k: c20kTuple, vs: []c20V{c20Unknown("bytes written"), {k: c20kNil}}}, true
				}
			}
		case "errors.As":
			// the package's errors do not wrap: As is the type test of the target's type
			if len(args) == 2 && args[1].k == c20kRef {
				want := args[1].obj.Type()
				switch e := args[0]; {
				case e.k == c20kNil, e.k == c20kErr && e.typ == nil:
					return c20V{k: c20kBool, b: false}, true
				case e.k == c20kErr:
					vt := e.typ
					if e.b {
						vt = types.NewPointer(e.typ)
					}
					if types.Identical(vt, want) {
						st.env[args[1].obj] = e
						return c20V{k: c20kBool, b: true}, true
					}
					if _, isIface := want.Underlying().(*types.Interface); !isIface {
						return c20V{k: c20kBool, b: false}, true
					}
				}
			}
		case "fmt.Errorf", "errors.New":
			return c20V{k: c20kErr, tag: "new"}, true
		case "strings.Join":
			if len(args) == 2 {
				return x.join(args[0], args[1], call), true
			}
		case "strconv.AppendInt":
			if len(args) == 3 && args[0].k == c20kBytes {
				if tok, ok := x.numTok(args[1], args[2]); ok {
					n := args[0]
					n.sym = append(append(c20Sym(nil), n.sym...), tok)
					return n, true
				}
			}
			return c20Unknown("`%s`", x.srcOf(call)), true
		case "strconv.FormatInt":
			if len(args) == 2 {
				if tok, ok := x.numTok(args[0], args[1]); ok {
					return c20StrV(c20Sym{tok}), true
				}
			}
			return c20Unknown("`%s`", x.srcOf(call)), true
		case "strconv.AppendFloat":
			// AppendFloat(buf, x, fmt, prec, bits) appends FormatFloat(x, fmt, prec, bits)
			if len(args) == 5 && args[0].k == c20kBytes && args[0].tag == "" {
				if s, ok := x.model(x.formatFloatFn(fn), call, nil, args[1:], st); ok && s.k == c20kStr {
					n := args[0]
					n.sym = append(append(c20Sym(nil), n.sym...), s.sym...)
					return n, true
				}
			}
			return c20Unknown("`%s`", x.srcOf(call)), true
		case "strconv.FormatFloat":
			// FormatFloat(x, 'f', 6, 64) prints like %f
			if len(args) == 4 && args[0].k == c20kIn && args[0].h != nil && args[1].k == c20kInt && args[2].k == c20kInt && args[3].k == c20kInt {
				h := *args[0].h
				h.num = true
				src := fmt.Sprintf("strconv.FormatFloat(v, '%c', %d, %d)", rune(args[1].n), args[2].n, args[3].n)
				if cl := c20FormatFloatClass(args[1].n, args[2].n, args[3].n); cl != "" {
					if h.fl != "" {
						cl = h.fl + "," + cl
					}
					h.fl, h.flsrc = cl, src
				} else {
					h.verb = src
				}
				return c20StrV(c20Sym{{hole: &h}}), true
			}
			return c20Unknown("`%s`", x.srcOf(call)), true
		case "strconv.Itoa":
			if len(args) == 1 {
				if tok, ok := x.numTok(args[0], c20V{k: c20kInt, n: 10}); ok {
					return c20StrV(c20Sym{tok}), true
				}
			}
			return c20Unknown("`%s`", x.srcOf(call)), true
		case "net/url.QueryEscape":
			if len(args) == 1 && args[0].k == c20kStr {
				s := args[0].sym
				if len(s.holes()) == 0 {
					return c20StrV(c20Lit(url.QueryEscape(s.render(nil)))), true
				}
				if len(s) == 1 && s[0].hole != nil && s[0].hole.fn == "" && !s[0].hole.base {
					h := *s[0].hole
					h.fn = "escape"
					return c20StrV(c20Sym{{hole: &h}}), true
				}
			}
			return c20Unknown("`%s` escapes something other than a plain input", x.srcOf(call)), true
		case "net/http.NewRequest":
			if len(args) == 3 {
				id := x.event(st, "newreq", call, fn, nil, args)
				return c20V{k: c20kTuple, vs: []c20V{{k: c20kObj, tag: "req", id: id}, c20ErrObj(id, "NewRequest")}}, true
			}
		case "net/http.NewRequestWithContext":
			if len(args) == 4 {
				id := x.event(st, "newreq", call, fn, &args[0], args[1:])
				return c20V{k: c20kTuple, vs: []c20V{{k: c20kObj, tag: "req", id: id, fields: map[string]c20V{"ctx": args[0]}}, c20ErrObj(id, "NewRequest")}}, true
			}
		case "io.ReadAll", "io/ioutil.ReadAll":
			if len(args) == 1 && args[0].k == c20kObj && args[0].tag == "body" {
				id := x.newID()
				return c20V{k: c20kTuple, vs: []c20V{{k: c20kObj, tag: "bodybytes", id: id, fields: map[string]c20V{"src": args[0]}}, c20ErrObj(id, "ReadAll")}}, true
			}
		case "encoding/xml.Unmarshal":
			if len(args) == 2 && args[0].k == c20kObj && args[0].tag == "bodybytes" {
				dec := c20V{k: c20kObj, tag: "decoder", id: x.newID(), fields: map[string]c20V{"src": args[0].fields["src"]}}
				id := x.event(st, "decode", call, fn, &dec, args[1:])
				return c20ErrObj(id, "Decode"), true
			}
		case "encoding/xml.NewDecoder":
			if len(args) == 1 {
				return c20V{k: c20kObj, tag: "decoder", id: x.newID(), fields: map[string]c20V{"src": args[0]}}, true
			}
		}
		if kind := c20HTTPCall(fn); kind != "" {
			id := x.event(st, "http-other", call, fn, nil, args)
			return x.results(sig, id, kind), true
		}
		return c20V{}, false
	}
	if recv == nil {
		return c20V{}, false
	}
	switch namedPath(sig.Recv().Type()) + "." + name {
	case "time.Time.UTC":
		if recv.k == c20kIn {
			v := *recv
			v.tag = "utc"
			return v, true
		}
	case "time.Time.In":
		// t.In(time.UTC) is t.UTC()
		if recv.k == c20kIn && len(args) == 1 && args[0].k == c20kIn && args[0].h.key() == "g:time.UTC" {
			v := *recv
			v.tag = "utc"
			return v, true
		}
	case "net/url.Values.Encode":
		if v, ok := x.valuesEncode(*recv); ok {
			return v, true
		}
		return c20Unknown("`%s`: only a url.Values literal with one value per constant key is understood", x.srcOf(call)), true
	case "time.Time.AppendFormat":
		// t.AppendFormat(buf, layout) appends t.Format(layout)
		if recv.k == c20kIn && len(args) == 2 && args[0].k == c20kBytes && args[0].tag == "" && args[1].k == c20kStr && len(args[1].sym.holes()) == 0 {
			zone := "local"
			if recv.tag == "utc" {
				zone = "utc"
			}
			h := *recv.h
			h.fn = zone + ":" + args[1].sym.render(nil)
			n := args[0]
			n.sym = append(append(c20Sym(nil), n.sym...), c20Tok{hole: &h})
			return n, true
		}
		return c20Unknown("`%s`", x.srcOf(call)), true
	case "time.Time.Format":
		if recv.k == c20kIn && len(args) == 1 && args[0].k == c20kStr && len(args[0].sym.holes()) == 0 {
			zone := "local"
			if recv.tag == "utc" {
				zone = "utc"
			}
			h := *recv.h
			h.fn = zone + ":" + args[0].sym.render(nil)
			return c20StrV(c20Sym{{hole: &h}}), true
		}
		return c20Unknown("`%s`", x.srcOf(call)), true
	case "net/http.Request.WithContext":
		if recv.k == c20kObj && recv.tag == "req" && len(args) == 1 {
			v := *recv
			v.fields = map[string]c20V{"ctx": args[0]}
			return v, true
		}
	case "net/http.Client.Do":
		id := x.event(st, "do", call, fn, recv, args)
		return c20V{k: c20kTuple, vs: []c20V{{k: c20kObj, tag: "resp", id: id}, c20ErrObj(id, "Do")}}, true
	case "encoding/xml.Decoder.Decode":
		id := x.event(st, "decode", call, fn, recv, args)
		return c20ErrObj(id, "Decode"), true
	}
	if kind := c20HTTPCall(fn); kind != "" {
		id := x.event(st, "http-other", call, fn, recv, args)
		return x.results(sig, id, kind), true
	}
	// the rate limiter: an interface with the single method func(context.Context) error
	if recv.k == c20kIn && c20IsWaiter(recv.typ) {
		id := x.event(st, "wait", call, fn, recv, args)
		return c20ErrObj(id, "Wait"), true
	}
	return c20V{}, false
}

// numTok: a number printed in the given base.
func (x *c20SX) numTok(v, base c20V) (c20Tok, bool) {
	if base.k != c20kInt || base.h != nil {
		return c20Tok{}, false
	}
	verb := ""
	if base.n != 10 {
		verb = fmt.Sprintf("base%d", base.n)
	}
	switch {
	case v.k == c20kInt && v.h == nil:
		if base.n == 10 {
			return c20Tok{lit: fmt.Sprintf("%d", v.n)}, true
		}
	case (v.k == c20kIn || v.k == c20kInt) && v.h != nil:
		h := *v.h
		h.verb = verb
		h.num = true
		return c20Tok{hole: &h}, true
	}
	return c20Tok{}, false
}

func (x *c20SX) sprintf(call *ast.CallExpr, args []c20V) c20V {
	if len(args) == 0 || call.Ellipsis.IsValid() || args[0].k != c20kStr || len(args[0].sym.holes()) != 0 {
		return c20Unknown("`%s`: the format is not a constant", x.srcOf(call))
	}
	f := args[0].sym.render(nil)
	parts, perr := c20ParseFormat(f)
	if perr != "" {
		return c20Unknown("format %q: %s", f, perr)
	}
	rest := args[1:]
	var out c20Sym
	k := 0
	for _, p := range parts {
		if p.verb == "" {
			out = append(out, c20Tok{lit: p.lit})
			continue
		}
		if k >= len(rest) {
			return c20Unknown("format %q has more directives than arguments", f)
		}
		a := rest[k]
		k++
		switch {
		case a.k == c20kStr:
			if p.verb != "%s" && p.verb != "%v" {
				return c20Unknown("string argument #%d of `%s` is formatted with %s (not verbatim)", k, x.srcOf(call), p.verb)
			}
			out = append(out, a.sym...)
		case a.k == c20kInt && a.h == nil:
			if p.verb != "%d" && p.verb != "%v" {
				return c20Unknown("constant argument #%d of `%s` is formatted with %s", k, x.srcOf(call), p.verb)
			}
			out = append(out, c20Tok{lit: fmt.Sprintf("%d", a.n)})
		case (a.k == c20kIn || a.k == c20kInt) && a.h != nil && a.typ != nil:
			bt, _ := a.typ.Underlying().(*types.Basic)
			if bt == nil || bt.Info()&(types.IsInteger|types.IsFloat) == 0 {
				return c20Unknown("argument #%d of `%s` (%s) is neither a string nor a number", k, x.srcOf(call), a.typ)
			}
			h := *a.h
			h.num = true
			isInt := bt.Info()&types.IsInteger != 0
			switch cl := c20FloatClass(p.verb); {
			case isInt && (p.verb == "%d" || p.verb == "%v"):
			case !isInt && cl != "":
				// a decimal float rendering: its precision is judged by arg-fidelity@, not by the URL shape
				if h.fl != "" {
					cl = h.fl + "," + cl
				}
				h.fl, h.flsrc = cl, p.verb
			default:
				h.verb = p.verb
			}
			out = append(out, c20Tok{hole: &h})
		default:
			return c20Unknown("argument #%d of `%s` is %s (not a string or number input)", k, x.srcOf(call), a.String())
		}
	}
	if k != len(rest) {
		return c20Unknown("format %q has %d directive(s) for %d argument(s): fmt appends %%!(EXTRA ...)", f, k, len(rest))
	}
	return c20StrV(out)
}

// join models strings.Join(list, sep) for a list built by the function (not the incoming list).
func (x *c20SX) join(l, sep c20V, call *ast.CallExpr) c20V {
	if l.k == c20kNil {
		return c20StrV(nil)
	}
	if l.k != c20kList || l.in || sep.k != c20kStr || len(sep.sym.holes()) != 0 {
		return c20Unknown("`%s` does not join a list built here with a constant separator", x.srcOf(call))
	}
	if l.tag == "presized" && l.star == nil {
		return c20Unknown("`%s` joins a presized list that was not filled by a loop over the slice it is sized by", x.srcOf(call))
	}
	s := sep.sym.render(nil)
	var out c20Sym
	for i, e := range l.elems {
		if i > 0 {
			out = append(out, c20Tok{lit: s})
		}
		out = append(out, e...)
	}
	if l.star != nil {
		h := *l.star
		switch {
		case h.fn == "ids":
			h.fn = "csv"
			if s != "," {
				h.fn = "csv<" + s + ">"
			}
		case s != x.sep:
			h.fn += "<" + s + ">"
		}
		if len(l.elems) == 0 {
			out = append(out, c20Tok{hole: &h})
		} else {
			out = append(out, c20Tok{opt: c20Sym{{lit: s}, {hole: &h}}})
		}
	}
	return c20StrV(out)
}

// optKind returns "feature"/"notes" for the exported option interfaces FeatureOption / NotesOption.
func (x *c20SX) optKind(t types.Type) string {
	nt, ok := t.(*types.Named)
	if !ok || nt.Obj().Pkg() != x.cx.pk.Types {
		return ""
	}
	if _, ok := nt.Underlying().(*types.Interface); !ok {
		return ""
	}
	n := nt.Obj().Name()
	if !strings.HasSuffix(n, "Option") || n == "Option" {
		return ""
	}
	return strings.ToLower(strings.TrimSuffix(n, "Option"))
}
