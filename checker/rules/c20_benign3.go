package rules

import "osmcheck/core"

// c20Benign3: part 3 of the behaviour-preserving variants of C20 (see c20_benign.go).
func c20Benign3() []core.Mutant {
	return []core.Mutant{
		{Name: "status-table-local-array-index-loop-nil-test", File: "osmapi/datasource.go",
			Find: `	if resp.StatusCode == http.StatusNotFound {
		return &NotFoundError{URL: url}
	}

	if resp.StatusCode == http.StatusForbidden {
		return &ForbiddenError{URL: url}
	}

	if resp.StatusCode == http.StatusGone {
		return &GoneError{URL: url}
	}

	if resp.StatusCode == http.StatusRequestURITooLong {
		return &RequestURITooLongError{URL: url}
	}

	if resp.StatusCode != http.StatusOK {
		return &UnexpectedStatusCodeError{
			Code: resp.StatusCode,
			URL:  url,
		}
	}

	return xml.NewDecoder(resp.Body).Decode(item)
}
`,
			Replace: `	type entry struct {
		code int
		mk   func(string) error
	}
	table := [...]entry{
		{code: http.StatusGone, mk: func(u string) error { return &GoneError{URL: u} }},
		{code: http.StatusNotFound, mk: func(u string) error { return &NotFoundError{URL: u} }},
		{code: http.StatusRequestURITooLong, mk: func(u string) error { return &RequestURITooLongError{URL: u} }},
		{code: http.StatusForbidden, mk: func(u string) error { return &ForbiddenError{URL: u} }},
		{code: http.StatusOK},
	}
	for i := 0; i < len(table); i++ {
		if table[i].code != resp.StatusCode {
			continue
		}
		if mk := table[i].mk; mk != nil {
			return mk(url)
		}
		return xml.NewDecoder(resp.Body).Decode(item)
	}

	return &UnexpectedStatusCodeError{Code: resp.StatusCode, URL: url}
}
`},
		{Name: "limit-bounds-in-package-level-struct", File: "osmapi/options.go",
			Find: `func (o *limit) applyNotes(p []string) ([]string, error) {
	if o.n < 1 || 10000 < o.n {
		return nil, errors.New("osmapi: limit must be between 1 and 10000")
	}
	return append(p, fmt.Sprintf("limit=%d", o.n)), nil
}
`,
			Replace: `func (o *limit) applyNotes(p []string) ([]string, error) {
	if o.n < notesLimit.min || o.n > notesLimit.max {
		return nil, errors.New("osmapi: limit must be between 1 and 10000")
	}
	return append(p, fmt.Sprintf("limit=%d", o.n)), nil
}

var notesLimit = struct{ min, max int }{min: 1, max: 10000}
`},
		{Name: "user-format-looked-up-in-local-map", File: "osmapi/user.go",
			Find: `	url := fmt.Sprintf("%s/user/%d", ds.baseURL(), id)
`,
			Replace: `	formats := map[string]string{"user": "%s/user/%d", "note": "%s/notes/%d"}
	url := fmt.Sprintf(formats["user"], ds.baseURL(), id)
`},
		{Name: "nodes-ids-presized-string-list-indexed-then-joined", File: "osmapi/node.go",
			Find: `	"strconv"

	"github.com/paulmach/osm"
)

// Node returns the latest version of the node from the osm rest api.
// Delegates to the DefaultDatasource and uses its http.Client to make the request.
func Node(ctx context.Context, id osm.NodeID, opts ...FeatureOption) (*osm.Node, error) {
	return DefaultDatasource.Node(ctx, id, opts...)
}

// Node returns the latest version of the node from the osm rest api.
func (ds *Datasource) Node(ctx context.Context, id osm.NodeID, opts ...FeatureOption) (*osm.Node, error) {
	params, err := featureOptions(opts)
	if err != nil {
		return nil, err
	}
	url := fmt.Sprintf("%s/node/%d?%s", ds.baseURL(), id, params)

	o := &osm.OSM{}
	if err := ds.getFromAPI(ctx, url, &o); err != nil {
		return nil, err
	}

	if l := len(o.Nodes); l != 1 {
		return nil, fmt.Errorf("wrong number of nodes, expected 1, got %v", l)
	}

	return o.Nodes[0], nil
}

// Nodes returns the latest version of the nodes from the osm rest api.
// Delegates to the DefaultDatasource and uses its http.Client to make the request.
func Nodes(ctx context.Context, ids []osm.NodeID, opts ...FeatureOption) (osm.Nodes, error) {
	return DefaultDatasource.Nodes(ctx, ids, opts...)
}

// Nodes returns the latest version of the nodes from the osm rest api.
// Will return 404 if any node is missing.
func (ds *Datasource) Nodes(ctx context.Context, ids []osm.NodeID, opts ...FeatureOption) (osm.Nodes, error) {
	params, err := featureOptions(opts)
	if err != nil {
		return nil, err
	}

	data := make([]byte, 0, 11*len(ids))
	for i, id := range ids {
		if i != 0 {
			data = append(data, byte(','))
		}
		data = strconv.AppendInt(data, int64(id), 10)
	}
	url := ds.baseURL() + "/nodes?nodes=" + string(data)
`,
			Replace: `	"strconv"
	"strings"

	"github.com/paulmach/osm"
)

// Node returns the latest version of the node from the osm rest api.
// Delegates to the DefaultDatasource and uses its http.Client to make the request.
func Node(ctx context.Context, id osm.NodeID, opts ...FeatureOption) (*osm.Node, error) {
	return DefaultDatasource.Node(ctx, id, opts...)
}

// Node returns the latest version of the node from the osm rest api.
func (ds *Datasource) Node(ctx context.Context, id osm.NodeID, opts ...FeatureOption) (*osm.Node, error) {
	params, err := featureOptions(opts)
	if err != nil {
		return nil, err
	}
	url := fmt.Sprintf("%s/node/%d?%s", ds.baseURL(), id, params)

	o := &osm.OSM{}
	if err := ds.getFromAPI(ctx, url, &o); err != nil {
		return nil, err
	}

	if l := len(o.Nodes); l != 1 {
		return nil, fmt.Errorf("wrong number of nodes, expected 1, got %v", l)
	}

	return o.Nodes[0], nil
}

// Nodes returns the latest version of the nodes from the osm rest api.
// Delegates to the DefaultDatasource and uses its http.Client to make the request.
func Nodes(ctx context.Context, ids []osm.NodeID, opts ...FeatureOption) (osm.Nodes, error) {
	return DefaultDatasource.Nodes(ctx, ids, opts...)
}

// Nodes returns the latest version of the nodes from the osm rest api.
// Will return 404 if any node is missing.
func (ds *Datasource) Nodes(ctx context.Context, ids []osm.NodeID, opts ...FeatureOption) (osm.Nodes, error) {
	params, err := featureOptions(opts)
	if err != nil {
		return nil, err
	}

	strs := make([]string, len(ids))
	for i := range ids {
		strs[i] = strconv.FormatInt(int64(ids[i]), 10)
	}
	url := ds.baseURL() + "/nodes?nodes=" + strings.Join(strs, ",")
`},
		{Name: "notes-leading-parameter-presized-and-indexed", File: "osmapi/note.go",
			Find: `	params := make([]string, 0, 1+len(opts))
	params = append(params, fmt.Sprintf("bbox=%f,%f,%f,%f",
		bounds.MinLon, bounds.MinLat,
		bounds.MaxLon, bounds.MaxLat))
`,
			Replace: `	params := make([]string, 1, 1+len(opts))
	params[0] = fmt.Sprintf("bbox=%f,%f,%f,%f",
		bounds.MinLon, bounds.MinLat,
		bounds.MaxLon, bounds.MaxLat)
`},
		{Name: "notessearch-query-parts-list-ranged-into-builder", File: "osmapi/note.go",
			Find: `	params = append(params, fmt.Sprintf("q=%s", url.QueryEscape(query)))
`,
			Replace: `	parts := []string{"q=", url.QueryEscape(query)}
	var sb strings.Builder
	for _, part := range parts {
		sb.WriteString(part)
	}
	params = append(params, sb.String())
`},
		{Name: "ways-ids-as-int64-list-variadic-join-named-result-string-accumulation", File: "osmapi/way.go",
			Find: `	data := make([]byte, 0, 11*len(ids))
	for i, id := range ids {
		if i != 0 {
			data = append(data, byte(','))
		}
		data = strconv.AppendInt(data, int64(id), 10)
	}
	url := ds.baseURL() + "/ways?ways=" + string(data)
	if len(params) > 0 {
		url += "&" + params
	}

	o := &osm.OSM{}
	if err := ds.getFromAPI(ctx, url, &o); err != nil {
		return nil, err
	}

	return o.Ways, nil
}
`,
			Replace: `	raw := make([]int64, len(ids))
	for i, id := range ids {
		raw[i] = int64(id)
	}
	url := ds.baseURL() + "/ways?ways=" + joinInts(raw...)
	if len(params) > 0 {
		url += "&" + params
	}

	o := &osm.OSM{}
	if err := ds.getFromAPI(ctx, url, &o); err != nil {
		return nil, err
	}

	return o.Ways, nil
}

// joinInts formats the numbers in base 10, comma separated.
func joinInts(nums ...int64) (list string) {
	for _, n := range nums {
		if list != "" {
			list += ","
		}
		list += strconv.FormatInt(n, 10)
	}
	return
}
`},
		{Name: "notes-url-through-mutable-request-struct-with-methods", File: "osmapi/note.go",
			Find: `	params := make([]string, 0, 1+len(opts))
	params = append(params, fmt.Sprintf("bbox=%f,%f,%f,%f",
		bounds.MinLon, bounds.MinLat,
		bounds.MaxLon, bounds.MaxLat))

	var err error
	for _, o := range opts {
		params, err = o.applyNotes(params)
		if err != nil {
			return nil, err
		}
	}

	url := fmt.Sprintf("%s/notes?%s", ds.baseURL(), strings.Join(params, "&"))

	o := &osm.OSM{}
	if err := ds.getFromAPI(ctx, url, &o); err != nil {
		return nil, err
	}

	return o.Notes, nil
}
`,
			Replace: `	q := &query{}
	q.path = ds.baseURL() + "/notes"
	q.add(fmt.Sprintf("bbox=%f,%f,%f,%f",
		bounds.MinLon, bounds.MinLat,
		bounds.MaxLon, bounds.MaxLat))

	for _, o := range opts {
		var err error
		if q.parts, err = o.applyNotes(q.parts); err != nil {
			return nil, err
		}
	}

	url := q.String()

	o := &osm.OSM{}
	if err := ds.getFromAPI(ctx, url, &o); err != nil {
		return nil, err
	}

	return o.Notes, nil
}

// query is a request url under construction.
type query struct {
	path  string
	parts []string
}

func (q *query) add(p string) { q.parts = append(q.parts, p) }

func (q query) String() (s string) {
	s = q.path + "?"
	s += strings.Join(q.parts, "&")
	return
}
`},
	}
}
