package rules

import "osmcheck/core"

// c04Mutants: behaviour-breaking overlay edits, each reported by the named rule.
var c04Mutants = []core.Mutant{
	{Name: "x6-skip-block-without-elements", File: "change.go", Find: "func marshalInnerChange(e *xml.Encoder, name string, o *OSM) error {\n\tif o == nil {", Replace: "func marshalInnerChange(e *xml.Encoder, name string, o *OSM) error {\n\tif len(o.Elements()) == 0 {", ExpectRule: "X6", ExpectConstruct: "written@Change.Create"},
	{Name: "x6-discussion-skipped-on-first-comment", File: "changeset.go", Find: "\tif len(csd.Comments) == 0 {\n\t\treturn nil\n\t}", Replace: "\tif len(csd.Comments) == 0 || csd.Comments[0] == nil {\n\t\treturn nil\n\t}", ExpectRule: "X6", ExpectConstruct: "written@ChangesetDiscussion"},
	{Name: "x6-nil-block-written-empty", File: "change.go", Find: "func marshalInnerChange(e *xml.Encoder, name string, o *OSM) error {\n\tif o == nil {\n\t\treturn nil\n\t}\n", Replace: "func marshalInnerChange(e *xml.Encoder, name string, o *OSM) error {\n", ExpectRule: "X6", ExpectConstruct: "absent@Change.Create"},
	{Name: "change-modify-block-renamed", File: "change.go", Find: "marshalInnerChange(e, \"modify\", c.Modify)", Replace: "marshalInnerChange(e, \"modified\", c.Modify)", ExpectRule: "X1", ExpectConstruct: "block Change.Modify"},
	{Name: "osm-root-renamed", File: "osm.go", Find: "start.Name.Local = \"osm\"", Replace: "start.Name.Local = \"OSM\"", ExpectRule: "X1", ExpectConstruct: "root@OSM.MarshalXML"},
	{Name: "discussion-comment-renamed", File: "changeset.go", Find: "t := xml.StartElement{Name: xml.Name{Local: \"comment\"}}", Replace: "t := xml.StartElement{Name: xml.Name{Local: \"comments\"}}", ExpectRule: "X1", ExpectConstruct: "emit ChangesetDiscussion.Comments"},
	{Name: "osm-nodes-tag-plural", File: "osm.go", Find: "Nodes     Nodes     `xml:\"node\"`", Replace: "Nodes     Nodes     `xml:\"nodes\"`", ExpectRule: "X1", ExpectConstruct: "emit OSM.Nodes"},
	{Name: "action-old-writes-new", File: "diff.go", Find: "marshalInnerChange(e, \"old\", a.Old)", Replace: "marshalInnerChange(e, \"old\", a.New)", ExpectRule: "X1", ExpectConstruct: "block Action.New"},
	{Name: "change-root-not-closed", File: "change.go", Find: "\treturn e.EncodeToken(start.End())\n}\n\nfunc marshalInnerChange", Replace: "\treturn e.EncodeToken(start)\n}\n\nfunc marshalInnerChange", ExpectRule: "X1", ExpectConstruct: "root@Change.MarshalXML"},
	{Name: "users-encoded-by-type-name", File: "osm.go", Find: "return e.Encode(o.Users)\n}\n\nfunc (o *OSM) marshalInnerElementsXML", Replace: "return e.EncodeElement(o.Users, xml.StartElement{Name: xml.Name{Local: \"users\"}})\n}\n\nfunc (o *OSM) marshalInnerElementsXML", ExpectRule: "X1", ExpectConstruct: "emit OSM.Users"},
	{Name: "osm-generator-guard-dropped", File: "osm.go", Find: "\tif o.Generator != \"\" {\n\t\tstart.Attr = append(start.Attr, xml.Attr{Name: xml.Name{Local: \"generator\"}, Value: o.Generator})\n\t}", Replace: "\tstart.Attr = append(start.Attr, xml.Attr{Name: xml.Name{Local: \"generator\"}, Value: o.Generator})", ExpectRule: "X2", ExpectConstruct: "OSM.Generator"},
	{Name: "osm-license-guarded-by-attribution", File: "osm.go", Find: "\tif o.License != \"\" {\n\t\tstart.Attr = append(start.Attr, xml.Attr{Name: xml.Name{Local: \"license\"}", Replace: "\tif o.Attribution != \"\" {\n\t\tstart.Attr = append(start.Attr, xml.Attr{Name: xml.Name{Local: \"license\"}", ExpectRule: "X2", ExpectConstruct: "OSM.License"},
	{Name: "change-generator-attr-renamed", File: "change.go", Find: "xml.Name{Local: \"generator\"}", Replace: "xml.Name{Local: \"generated\"}", ExpectRule: "X2", ExpectConstruct: "Change.Generator"},
	{Name: "change-attribution-from-license", File: "change.go", Find: "Value: c.Attribution}", Replace: "Value: c.License}", ExpectRule: "X2", ExpectConstruct: "Change.Attribution"},
	{Name: "inner-drops-changesets", File: "osm.go", Find: "\tif err := e.Encode(o.Changesets); err != nil {\n\t\treturn err\n\t}\n\n", Replace: "", ExpectRule: "X3", ExpectConstruct: "OSM.Changesets"},
	{Name: "elements-drop-ways", File: "osm.go", Find: "\tif err := e.Encode(o.Ways); err != nil {\n\t\treturn err\n\t}\n\n\treturn e.Encode(o.Relations)", Replace: "\treturn e.Encode(o.Relations)", ExpectRule: "X3", ExpectConstruct: "kind OSM.Ways"},
	{Name: "change-block-elements-only", File: "change.go", Find: "if err := o.marshalInnerXML(e); err != nil {", Replace: "if err := o.marshalInnerElementsXML(e); err != nil {", ExpectRule: "X3", ExpectConstruct: "complete@Change.Create OSM.Bounds"},
	{Name: "action-type-read-from-other-attr", File: "diff.go", Find: "if attr.Name.Local == \"type\" {", Replace: "if attr.Name.Local == \"kind\" {", ExpectRule: "X4", ExpectConstruct: "attr type"},
	{Name: "action-old-new-swapped-on-read", File: "diff.go", Find: "\t\tcase \"old\":\n\t\t\ta.Old = &OSM{}\n\t\t\tif err := d.DecodeElement(a.Old, &start); err != nil {", Replace: "\t\tcase \"old\":\n\t\t\ta.New = &OSM{}\n\t\t\tif err := d.DecodeElement(a.New, &start); err != nil {", ExpectRule: "X4", ExpectConstruct: "block old"},
	{Name: "action-element-unguarded", File: "diff.go", Find: "\tif a.OSM != nil {\n\t\tif err := a.OSM.marshalInnerElementsXML(e); err != nil {\n\t\t\treturn err\n\t\t}\n\t}", Replace: "\tif err := a.OSM.marshalInnerElementsXML(e); err != nil {\n\t\treturn err\n\t}", ExpectRule: "X4", ExpectConstruct: "embedded"},
	{Name: "date-format-other-layout", File: "note.go", Find: "return e.EncodeElement(d.Format(\"2006-01-02 15:04:05.999999999 MST\"), start)", Replace: "return e.EncodeElement(d.Format(time.RFC3339), start)", ExpectRule: "X5", ExpectConstruct: "layout@Date"},
	{Name: "date-marshalled-as-struct", File: "note.go", Find: "return e.EncodeElement(d.Format(\"2006-01-02 15:04:05.999999999 MST\"), start)", Replace: "_ = d.Format(\"2006-01-02 15:04:05.999999999 MST\")\n\treturn e.EncodeElement(d.Time, start)", ExpectRule: "X5", ExpectConstruct: "text@Date"},
}

// c04Benign: behaviour-preserving overlay edits; every rule must stay silent on each (filled in c04_benign.go).
var c04Benign = c04BenignList()
