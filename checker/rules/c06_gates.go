package rules

import (
	"fmt"
	"go/ast"
	"go/token"
	"go/types"
	"sort"
	"strings"

	"golang.org/x/tools/go/cfg"

	"osmcheck/core"
)

// ---------------------------------------------------------------- E5

func c06E5(r *core.R) {
	m := c01PBFModel(r)
	if m == nil {
		return
	}
	info := m.info
	fs := r.P.Fset
	blobData := c01BlobDataFunc(r.P, m)
	// (a) header decoding: function returning (*Header, error)
	var hdr *FuncInfo
	for _, f := range allFuncs(m.pk) {
		sig := f.Obj.Type().(*types.Signature)
		if sig.Results().Len() == 2 && namedPath(sig.Results().At(0).Type()) == core.ModulePath+"/osmpbf.Header" && sig.Recv() == nil {
			hdr = f
		}
	}
	if hdr == nil {
		r.Anchor("function decoding the header block into *Header")
	} else {
		c := "required-features gate@" + hdr.Name()
		// the gate: a range loop over the header's required features with a return of a non-nil error that is only
		// reached when the lookup of the feature in the capability table failed
		// mentionsRequired: expression n (with the locals it was read from) reads the header block's required features
		var mentionsRequired func(f *c01Fn, n ast.Node, depth int) bool
		mentionsRequired = func(f *c01Fn, n ast.Node, depth int) bool {
			found := false
			if n == nil || depth > 3 {
				return false
			}
			ast.Inspect(n, func(y ast.Node) bool {
				switch z := y.(type) {
				case *ast.CallExpr:
					if fn := callee(info, z); fn != nil && fn.Name() == "GetRequiredFeatures" && c01GenTypeName(c01RecvTypeOf(fn)) == "HeaderBlock" {
						found = true
					}
				case *ast.SelectorExpr:
					if fl := fieldOf(info, z); fl != nil && fl.Name() == "RequiredFeatures" && c01GenTypeName(selRecv(info, z)) == "HeaderBlock" {
						found = true
					}
				case *ast.Ident:
					if o := info.Uses[z]; o != nil {
						if rhs := c01SingleDef(info, f.body, o); rhs != nil && mentionsRequired(f, rhs, depth+1) {
							found = true
						}
					}
				}
				return !found
			})
			return found
		}
		// fromRequired: the ranged expression is the required features, or a []string parameter to which every call
		// site of the (helper) function passes them
		fromRequired := func(f *c01Fn, e ast.Expr) bool {
			if mentionsRequired(f, e, 0) {
				return true
			}
			o := objOf(info, e)
			idx := -1
			if o != nil {
				idx = c01ParamIndex(info, f.fi, o)
			}
			if idx < 0 || !c01IsStringSlice(o.Type()) {
				return false
			}
			all, n := true, 0
			for _, caller := range allFuncs(f.pk) {
				cf := c01FnOf(f.p, caller)
				ast.Inspect(caller.Decl.Body, func(x ast.Node) bool {
					if call, ok := x.(*ast.CallExpr); ok && callee(info, call) == f.fi.Obj && idx < len(call.Args) {
						n++
						if !mentionsRequired(cf, call.Args[idx], 0) {
							all = false
						}
					}
					return true
				})
			}
			return n > 0 && all
		}
		type gateT struct {
			fi *FuncInfo
			rs *ast.RangeStmt
		}
		var gate *gateT
		for _, g := range c01Reachable(r.P, hdr) {
			if g == blobData || (blobData != nil && g.Obj == blobData.Obj) {
				continue
			}
			f := c01FnOf(r.P, g)
			ast.Inspect(g.Decl.Body, func(n ast.Node) bool {
				rs, ok := n.(*ast.RangeStmt)
				if !ok || rs.Value == nil || !fromRequired(f, rs.X) {
					return true
				}
				v := objOf(info, rs.Value)
				isLookup := func(e ast.Expr) bool {
					ix, ok := ast.Unparen(e).(*ast.IndexExpr)
					if !ok || objOf(info, ix.Index) != v {
						return false
					}
					_, isMap := info.TypeOf(ix.X).Underlying().(*types.Map)
					return isMap
				}
				ast.Inspect(rs.Body, func(x ast.Node) bool {
					ret, ok := x.(*ast.ReturnStmt)
					if !ok || len(ret.Results) == 0 {
						return true
					}
					facts := f.factsAtPos(ret.Pos())
					if !c01IsErrNonNilExpr(info, ret.Results[len(ret.Results)-1], facts) {
						return true
					}
					for _, fact := range facts {
						if fact.val {
							continue
						}
						e := ast.Unparen(fact.expr)
						if isLookup(e) {
							gate = &gateT{g, rs}
						}
						if id, ok := e.(*ast.Ident); ok {
							for _, d := range c01Defs(info, g.Decl.Body, objOf(info, id)) {
								if d.rhs != nil && isLookup(d.rhs) && (d.index < 0 || d.index == 1) {
									gate = &gateT{g, rs}
								}
							}
						}
					}
					return true
				})
				return true
			})
		}
		if gl := c06FindGateLoop(r, m, hdr, blobData, fromRequired); gate == nil && gl != nil {
			// the general form: any loop over the features, failure reported as an error or through result values
			ok := c06GateProtects(r, m, hdr, gl, 0)
			how := "whose body returns an error when the capability lookup of a feature fails"
			bad := "a success return of the header decoder is reachable without passing the required-features loop"
			if ok && !gl.direct {
				how = "whose body reports a failed capability lookup through its results, which make every caller return an error"
				if why := c06SignalGate(r, m, hdr, gl); why != "" {
					ok, bad = false, why
				}
			}
			r.Check(ok, c, gl.loop.Pos(), "every success return of the header decoder lies behind the exhausted exit of the required-features loop (in "+gl.fi.Name()+"), "+how, bad)
		} else if gate == nil {
			r.Bad(c, hdr.Decl.Pos(), "no loop over the header's required_features that returns an error for a feature the parser does not support: files needing unsupported features are decoded anyway")
		} else {
			// every success return of the header decoder passes the exhausted exit of the gate loop (directly, or through
			// a call of the function that holds it)
			var protects func(fi *FuncInfo, depth int) (bool, int)
			protects = func(fi *FuncInfo, depth int) (bool, int) {
				f := c01FnOf(r.P, fi)
				var doms []*cfg.Block
				if fi.Obj == gate.fi.Obj {
					for _, b := range f.g.Blocks {
						if b.Kind == cfg.KindRangeDone && b.Stmt == gate.rs {
							doms = append(doms, b)
						}
					}
				} else if depth < 3 {
					for _, b := range f.g.Blocks {
						if !b.Live {
							continue
						}
						for _, n := range b.Nodes {
							for _, call := range c01NodeCalls(f, n) {
								if tf := c01Callee(f.pk, call); tf != nil && tf.Obj != fi.Obj {
									reaches := false
									for _, g := range c01Reachable(r.P, tf) {
										if g.Obj == gate.fi.Obj {
											reaches = true
										}
									}
									if reaches {
										if ok, _ := protects(tf, depth+1); ok {
											doms = append(doms, b)
										}
									}
								}
							}
						}
					}
				}
				okAll, n := true, 0
				ast.Inspect(fi.Decl.Body, func(x ast.Node) bool {
					if _, ok := x.(*ast.FuncLit); ok {
						return false
					}
					ret, ok := x.(*ast.ReturnStmt)
					if !ok {
						return true
					}
					if len(ret.Results) > 0 && c01IsErrNonNilExpr(info, ret.Results[len(ret.Results)-1], f.factsAtPos(ret.Pos())) {
						return true
					}
					n++
					rb := f.blockOf(ret.Pos())
					dominated := false
					for _, d := range doms {
						if rb == d || f.dom[rb][d] {
							dominated = true
						}
					}
					if !dominated {
						okAll = false
					}
					return true
				})
				if n == 0 {
					// no explicit success return (e.g. falls off the end): require a dominating point for the exit blocks
					for _, b := range f.g.Blocks {
						if b.Live && len(b.Succs) == 0 && c01IsNormalExit(f, b) {
							n++
							dominated := false
							for _, d := range doms {
								if b == d || f.dom[b][d] {
									dominated = true
								}
							}
							if !dominated {
								okAll = false
							}
						}
					}
				}
				return okAll && n > 0, n
			}
			ok, _ := protects(hdr, 0)
			r.Check(ok, c, gate.rs.Pos(), "every success return of the header decoder is dominated by the exhausted exit of the required-features loop (in "+gate.fi.Name()+"), whose body returns an error when the capability lookup of a feature fails",
				"a success return of the header decoder is reachable without passing the required-features loop")
		}
	}
	// (b) reader: a block of unexpected type travels as an error in the pair of that iteration
	c06BlockType(r, m, fs)
	// (c) the block the spawner reads itself is held to the same rule
	c06FirstBlock(r, m)
}

func c01IsStringSlice(t types.Type) bool {
	sl, ok := t.Underlying().(*types.Slice)
	if !ok {
		return false
	}
	b, ok := sl.Elem().Underlying().(*types.Basic)
	return ok && b.Kind() == types.String
}

// c06PairType finds the struct type of the package that carries a *Blob and an error (what the reader sends to a worker).
func c06PairType(m *pbfModel) (*types.Named, *types.Var, *types.Var) {
	sc := m.pk.Types.Scope()
	for _, n := range sc.Names() {
		tn, ok := sc.Lookup(n).(*types.TypeName)
		if !ok {
			continue
		}
		nt, ok := tn.Type().(*types.Named)
		if !ok {
			continue
		}
		st, ok := nt.Underlying().(*types.Struct)
		if !ok {
			continue
		}
		var blobF, errF *types.Var
		for i := 0; i < st.NumFields(); i++ {
			if c01IsGenerated(st.Field(i).Type(), "Blob") {
				blobF = st.Field(i)
			}
			if isErrorType(st.Field(i).Type()) {
				errF = st.Field(i)
			}
		}
		if blobF != nil && errF != nil && st.NumFields() <= 4 {
			return nt, blobF, errF
		}
	}
	return nil, nil, nil
}

// c06BlockType: in the reader role, when a block's type is not OSMData, every path either sends (or returns, for the
// reader's helper) a pair whose Err holds an error created for that case and which carries no blob, or is taken only
// when the decoder is cancelled; no path skips the block or sends it as data.
func c06BlockType(r *core.R, m *pbfModel, fs *token.FileSet) {
	info := m.info
	pairT, blobF, errF := c06PairType(m)
	if pairT == nil {
		r.Anchor("pair type carrying a blob and an error from the reader to the workers")
		return
	}
	isPair := func(t types.Type) bool { return t != nil && namedPath(t) == namedPath(pairT) }
	// the type test
	var scope ast.Node                            // body in which single-definition locals are expanded
	isTypeTest := func(e ast.Expr) (bool, bool) { // (is the test, mismatch when true)
		a, b, neq, ok := c01EqCmp(e)
		if !ok {
			return false, false
		}
		for _, pr := range [][2]ast.Expr{{a, b}, {b, a}} {
			if s, okc := constString(info, pr[1]); !okc || s != "OSMData" {
				continue
			}
			x := ast.Unparen(pr[0])
			if c06IsHeaderType(m, scope, x, 0) {
				return true, neq
			}
			if scope != nil {
				x = c01Expand(info, scope, x)
			}
			if st, ok := x.(*ast.StarExpr); ok {
				x = ast.Unparen(st.X)
			}
			if call, ok := x.(*ast.CallExpr); ok {
				if fn := callee(info, call); fn != nil && fn.Name() == "GetType" && c01GenTypeName(c01RecvTypeOf(fn)) == "BlobHeader" {
					return true, neq
				}
			}
			if sel, ok := x.(*ast.SelectorExpr); ok {
				if fl := fieldOf(info, sel); fl != nil && fl.Name() == "Type" && c01GenTypeName(selRecv(info, sel)) == "BlobHeader" {
					return true, neq
				}
			}
		}
		return false, false
	}
	type site struct {
		body c01Body
		blk  *cfg.Block
		cond ast.Expr
	}
	var sites []site
	for _, body := range c01RoleBodies(m, "reader") {
		f := body.fn
		scope = f.body
		for _, b := range f.g.Blocks {
			if !b.Live {
				continue
			}
			cond := f.condOf(b)
			if cond == nil {
				continue
			}
			has := false
			ast.Inspect(cond, func(x ast.Node) bool {
				if e, ok := x.(ast.Expr); ok {
					if is, _ := isTypeTest(e); is {
						has = true
					}
				}
				return !has
			})
			if has {
				sites = append(sites, site{body, b, cond})
			}
		}
	}
	if len(sites) == 0 {
		var pos token.Pos
		name := "reader"
		if bs := c01RoleBodies(m, "reader"); len(bs) > 0 {
			pos, name = bs[0].fn.body.Pos(), bs[0].name
		}
		r.Bad("block type@"+name, pos, "the reader has no test of the block header's type against \"OSMData\" that turns an unexpected block into an error: blocks of other types are decoded as data or skipped silently")
		return
	}
	for _, s := range sites {
		f := s.body.fn
		scope = f.body
		c := "block type@" + s.body.name
		type state struct {
			errs  map[types.Object]bool
			pairs map[types.Object]*c06PairVal
		}
		keyOf := func(st state) string {
			var ks []string
			for o := range st.errs {
				ks = append(ks, fmt.Sprintf("e%p", o))
			}
			for o, v := range st.pairs {
				ks = append(ks, fmt.Sprintf("p%p=%p/%v/%v", o, v.lit, v.errSet != nil, v.blobSet != nil))
			}
			sort.Strings(ks)
			return strings.Join(ks, ",")
		}
		clone := func(st state) state {
			n := state{errs: map[types.Object]bool{}, pairs: map[types.Object]*c06PairVal{}}
			for k, v := range st.errs {
				n.errs[k] = v
			}
			for k, v := range st.pairs {
				cp := *v
				n.pairs[k] = &cp
			}
			return n
		}
		bad := ""
		var bpos token.Pos
		fail := func(pos token.Pos, format string, args ...interface{}) {
			if bad == "" {
				bad, bpos = fmt.Sprintf(format, args...), pos
			}
		}
		mentionsErr := func(e ast.Expr, st state) bool {
			if e == nil {
				return false
			}
			hit := false
			ast.Inspect(e, func(x ast.Node) bool {
				if id, ok := x.(*ast.Ident); ok && st.errs[objOf(info, id)] {
					hit = true
				}
				if call, ok := x.(*ast.CallExpr); ok {
					if fn := callee(info, call); isPkgFunc(fn, "errors", "New") || isPkgFunc(fn, "fmt", "Errorf") {
						hit = true
					}
				}
				return !hit
			})
			return hit
		}
		// checkPair: the pair value handed on in the mismatch case
		checkPair := func(v ast.Expr, st state, pos token.Pos, what string) {
			pv := c06PairValueOf(info, v, st.pairs, errF, blobF)
			switch {
			case pv == nil:
				fail(pos, "%s `%s`, whose construction is not understood", what, src(fs, v))
			case !mentionsErr(pv.errSet, st):
				fail(pos, "for a block whose type is not OSMData %s `%s` whose Err field does not hold the error created for that case: the block is handed to a worker as data (or dropped) instead of ending the scan with an error", what, src(fs, v))
			case pv.blobSet != nil && !isNilIdent(pv.blobSet):
				fail(pos, "for a block whose type is not OSMData %s `%s`, which still carries the blob", what, src(fs, v))
			}
		}
		isDone := func(n ast.Node) bool {
			hit := false
			ast.Inspect(n, func(x ast.Node) bool {
				if ue, ok := x.(*ast.UnaryExpr); ok && ue.Op == token.ARROW {
					if call, ok := ast.Unparen(ue.X).(*ast.CallExpr); ok && isMethod(callee(info, call), "context.Context", "Done") {
						hit = true
					}
				}
				return !hit
			})
			return hit
		}
		seen := map[*cfg.Block]map[string]bool{}
		type item struct {
			b  *cfg.Block
			st state
		}
		var work []item
		push := func(b *cfg.Block, st state) {
			if seen[b] == nil {
				seen[b] = map[string]bool{}
			}
			k := keyOf(st)
			if seen[b][k] {
				return
			}
			seen[b][k] = true
			work = append(work, item{b, clone(st)})
		}
		evalIn := func(cond ast.Expr, st state, typeTestTrue bool) c01Tri {
			return c01Eval(info, cond, func(a ast.Expr) c01Tri {
				if is, mismatchWhenTrue := isTypeTest(a); is {
					return c01Bool(mismatchWhenTrue == typeTestTrue)
				}
				if x, neq, ok := c01NilCmp(a); ok {
					if o := objOf(info, x); o != nil && isErrorType(o.Type()) {
						return c01Bool(st.errs[o] == neq) // the error created for the mismatch is non-nil; no other error is pending
					}
					if sel, ok := ast.Unparen(x).(*ast.SelectorExpr); ok && fieldOf(info, sel) == errF {
						if pv := st.pairs[objOf(info, sel.X)]; pv != nil {
							return c01Bool(mentionsErr(pv.errSet, st) == neq)
						}
					}
				}
				return c01U
			})
		}
		// start: the successors of the test block taken when the type does not match (and no error is pending)
		start := state{errs: map[types.Object]bool{}, pairs: map[types.Object]*c06PairVal{}}
		// pair variables assigned before the test in the same body keep their literal (e.g. `pair := iPair{...}` first)
		v0 := evalIn(s.cond, start, true)
		for si, nb := range s.blk.Succs {
			if (si == 0 && v0 == c01F) || (si == 1 && v0 == c01T) {
				continue
			}
			push(nb, start)
		}
		for len(work) > 0 && bad == "" {
			it := work[len(work)-1]
			work = work[:len(work)-1]
			st := it.st
			if it.b == s.blk {
				fail(s.cond.Pos(), "a path comes back to the type test without having sent anything for the block whose type is not OSMData: the block is skipped silently")
				break
			}
			ended := false
			for _, n := range it.b.Nodes {
				if isDone(n) {
					ended = true // only taken when the decoder is cancelled
					break
				}
				switch x := n.(type) {
				case *ast.SendStmt:
					if isPair(info.TypeOf(x.Value)) {
						checkPair(x.Value, st, x.Pos(), "the reader sends")
						ended = true
					}
				case *ast.ReturnStmt:
					for _, res := range x.Results {
						if isPair(info.TypeOf(res)) {
							checkPair(res, st, x.Pos(), "the reader's helper returns")
							if !c06ResultIsSent(r.P, m, f.fi, isPair) {
								fail(x.Pos(), "the pair returned by %s is not sent to a worker by its caller on every path", f.fi.Name())
							}
							ended = true
						}
					}
					if !ended {
						fail(x.Pos(), "for a block whose type is not OSMData `%s` leaves the reader without sending an error pair", src(fs, x))
						ended = true
					}
				case *ast.AssignStmt:
					c06TrackAssign(info, x.Lhs, x.Rhs, st.errs, st.pairs, isPair, errF, blobF)
				case *ast.ValueSpec:
					var lhs []ast.Expr
					for _, nm := range x.Names {
						lhs = append(lhs, nm)
					}
					c06TrackAssign(info, lhs, x.Values, st.errs, st.pairs, isPair, errF, blobF)
				case *ast.DeclStmt:
					if gd, ok := x.Decl.(*ast.GenDecl); ok {
						for _, sp := range gd.Specs {
							if vs, ok := sp.(*ast.ValueSpec); ok {
								var lhs []ast.Expr
								for _, nm := range vs.Names {
									lhs = append(lhs, nm)
								}
								c06TrackAssign(info, lhs, vs.Values, st.errs, st.pairs, isPair, errF, blobF)
							}
						}
					}
				}
				if ended {
					break
				}
			}
			if ended {
				continue
			}
			if len(it.b.Succs) == 0 {
				if c01IsNormalExit(f, it.b) {
					fail(s.cond.Pos(), "a path leaves %s without having sent anything for the block whose type is not OSMData", s.body.name)
				}
				continue
			}
			cond := f.condOf(it.b)
			for si, nb := range it.b.Succs {
				if cond != nil && len(it.b.Succs) == 2 {
					v := evalIn(cond, st, true)
					if (si == 0 && v == c01F) || (si == 1 && v == c01T) {
						continue
					}
				}
				push(nb, st)
			}
		}
		if bad != "" {
			r.Bad(c, bpos, "%s", bad)
		} else {
			r.OK(c, s.cond.Pos(), "when `%s` finds a block that is not OSMData, every path sends (or returns to the sending caller) a pair whose Err holds the error created for it and which carries no blob, or is taken only when the decoder is cancelled", src(fs, s.cond))
		}
	}
}

// c06PairVal is what is known about a pair-typed variable on a path: the literal last assigned and later field stores.
type c06PairVal struct {
	lit     *ast.CompositeLit
	zero    bool
	errSet  ast.Expr
	blobSet ast.Expr
}

func c06PairFromLit(info *types.Info, cl *ast.CompositeLit, errF, blobF *types.Var) *c06PairVal {
	pv := &c06PairVal{lit: cl}
	for i, e := range cl.Elts {
		if kv, ok := e.(*ast.KeyValueExpr); ok {
			if id, ok := kv.Key.(*ast.Ident); ok {
				switch info.Uses[id] {
				case types.Object(errF):
					pv.errSet = kv.Value
				case types.Object(blobF):
					pv.blobSet = kv.Value
				}
			}
			continue
		}
		// positional literal
		if st, ok := info.TypeOf(cl).Underlying().(*types.Struct); ok && i < st.NumFields() {
			switch st.Field(i) {
			case errF:
				pv.errSet = e
			case blobF:
				pv.blobSet = e
			}
		}
	}
	return pv
}

func c06PairValueOf(info *types.Info, v ast.Expr, pairs map[types.Object]*c06PairVal, errF, blobF *types.Var) *c06PairVal {
	v = ast.Unparen(v)
	if cl, ok := v.(*ast.CompositeLit); ok {
		return c06PairFromLit(info, cl, errF, blobF)
	}
	if o := objOf(info, v); o != nil {
		return pairs[o]
	}
	return nil
}

// c06TrackAssign updates the path facts for one assignment: error variables that hold a freshly created error and
// pair variables with the literal / field values last stored.
func c06TrackAssign(info *types.Info, lhs, rhs []ast.Expr, errs map[types.Object]bool, pairs map[types.Object]*c06PairVal, isPair func(types.Type) bool, errF, blobF *types.Var) {
	for i, l := range lhs {
		var rv ast.Expr
		if len(rhs) == len(lhs) {
			rv = rhs[i]
		}
		lo := objOf(info, l)
		if lo != nil && isErrorType(lo.Type()) {
			delete(errs, lo)
			if rv != nil {
				if call, ok := ast.Unparen(rv).(*ast.CallExpr); ok {
					if fn := callee(info, call); isPkgFunc(fn, "errors", "New") || isPkgFunc(fn, "fmt", "Errorf") {
						errs[lo] = true
					}
				}
				if ro := objOf(info, rv); ro != nil && errs[ro] {
					errs[lo] = true
				}
				if sel, ok := ast.Unparen(rv).(*ast.SelectorExpr); ok && fieldOf(info, sel) == errF {
					if pv := pairs[objOf(info, sel.X)]; pv != nil && pv.errSet != nil {
						hit := false
						ast.Inspect(pv.errSet, func(x ast.Node) bool {
							if id, ok := x.(*ast.Ident); ok && errs[objOf(info, id)] {
								hit = true
							}
							if c2, ok := x.(*ast.CallExpr); ok {
								if fn := callee(info, c2); isPkgFunc(fn, "errors", "New") || isPkgFunc(fn, "fmt", "Errorf") {
									hit = true
								}
							}
							return !hit
						})
						if hit {
							errs[lo] = true
						}
					}
				}
			}
			continue
		}
		if lo != nil && isPair(lo.Type()) {
			switch {
			case rv == nil && len(rhs) == 0:
				pairs[lo] = &c06PairVal{zero: true}
			case rv != nil:
				if cl, ok := ast.Unparen(rv).(*ast.CompositeLit); ok {
					pairs[lo] = c06PairFromLit(info, cl, errF, blobF)
				} else if ro := objOf(info, rv); ro != nil && pairs[ro] != nil {
					cp := *pairs[ro]
					pairs[lo] = &cp
				} else {
					delete(pairs, lo)
				}
			default:
				delete(pairs, lo)
			}
			continue
		}
		// field store into a pair variable
		if sel, ok := ast.Unparen(l).(*ast.SelectorExpr); ok && rv != nil {
			if po := objOf(info, sel.X); po != nil && isPair(po.Type()) && pairs[po] != nil {
				switch fieldOf(info, sel) {
				case errF:
					pairs[po].errSet = rv
				case blobF:
					pairs[po].blobSet = rv
				}
			}
		}
	}
}

// c06ResultIsSent: at every call of fi in the package, the pair it returns is sent to a channel (or the path is taken
// only under cancellation) before the next call or the end of the caller.
func c06ResultIsSent(p *core.Program, m *pbfModel, fi *FuncInfo, isPair func(types.Type) bool) bool {
	info := m.info
	ok := true
	n := 0
	for _, caller := range allFuncs(m.pk) {
		cf0 := c01FnOf(p, caller)
		ast.Inspect(caller.Decl.Body, func(x ast.Node) bool {
			call, isCall := x.(*ast.CallExpr)
			if !isCall || callee(info, call) != fi.Obj {
				return true
			}
			n++
			cf := cf0.innermost(call)
			b, bi := blockOf(cf.g, call.Pos())
			if b == nil {
				ok = false
				return true
			}
			// directly sent: ch <- f(...)
			if send, isSend := b.Nodes[bi].(*ast.SendStmt); isSend && ast.Unparen(send.Value) == call {
				return true
			}
			var res types.Object
			if as, isAs := b.Nodes[bi].(*ast.AssignStmt); isAs && len(as.Rhs) == 1 && ast.Unparen(as.Rhs[0]) == call && len(as.Lhs) >= 1 {
				res = objOf(info, as.Lhs[0])
			}
			if res == nil {
				ok = false
				return true
			}
			isSink := func(n ast.Node) bool {
				hit := false
				ast.Inspect(n, func(y ast.Node) bool {
					if s, isS := y.(*ast.SendStmt); isS && objOf(info, s.Value) == res {
						hit = true
					}
					if ue, isU := y.(*ast.UnaryExpr); isU && ue.Op == token.ARROW {
						if c2, isC := ast.Unparen(ue.X).(*ast.CallExpr); isC && isMethod(callee(info, c2), "context.Context", "Done") {
							hit = true
						}
					}
					return !hit
				})
				return hit
			}
			// a path from after the call that reaches the call again or leaves the function without a sink
			type st struct {
				b *cfg.Block
				i int
			}
			seen := map[*cfg.Block]bool{}
			work := []st{{b, bi + 1}}
			for len(work) > 0 {
				cur := work[len(work)-1]
				work = work[:len(work)-1]
				stopped := false
				for i := cur.i; i < len(cur.b.Nodes); i++ {
					if isSink(cur.b.Nodes[i]) {
						stopped = true
						break
					}
					if cur.b == b && i == bi {
						ok = false
						stopped = true
						break
					}
				}
				if stopped {
					continue
				}
				if len(cur.b.Succs) == 0 && c01IsNormalExit(cf, cur.b) {
					ok = false
				}
				for _, nb := range cur.b.Succs {
					if !seen[nb] {
						seen[nb] = true
						work = append(work, st{nb, 0})
					}
				}
			}
			return true
		})
	}
	return ok && n > 0
}
