package rules

import (
	"go/ast"
	"go/token"
	"go/types"

	"osmcheck/core"
)

func init() {
	register(&core.Property{
		ID:    "C09",
		Title: "Resuming a PBF scan at the reported byte offset loses no element",
		Explanation: "Structural necessary conditions of the offset bookkeeping, decided on the pipeline model. Fields, pair types and functions are found by role and type (the int64 decoder field increased in reader-only code is the counter, the int64 / *Blob / []osm.Object fields of the channel element types are offset / blob / objects, the decoder fields assigned from a received pair's offset and from each other in the consumer are current / previous), values are followed through locals, parameters and helper results, and path conditions are decided by automata over the control-flow graph with helper calls inlined, so the rules do not depend on naming, statement shape or on which helper holds a statement: " +
			"(B1) every io.ReadFull reached from the block reader reads a buffer handed down unchanged, whose length is a re-slice bound or the constant of its make; the single `+=` of the byte counter adds exactly those lengths, on every path after all the reads, exactly on the success returns; " +
			"(B2) on every path of the reader goroutine the counter is loaded before the block read of the same iteration, never after; a pair is only sent in an iteration that read a block; the data pair's offset is (only) such a load and its blob (only) a result of the block reader; the block read before the loop (a restart on a data block) is dispatched with offset 0; " +
			"(B3) the worker emits the offset of the pair it received next to the objects decoded from that same pair's blob; " +
			"(B4) evaluated for the three outcomes of the consumer's receive (normal block / queue closed / EOF pair), with every branch that is not a test of the receive's ok flag or of pair.err==io.EOF taken both ways: a normal block always passes `previous = current` then `current = pair.offset` and becomes the current block before the next receive or return - nothing but the closed/EOF exit may bypass the shift -, and on the closed/EOF outcomes the offsets do not move; " +
			"(B5) FullyScannedBytes reports the current, PreviousFullyScannedBytes the previous offset; " +
			"(B6) a first block that is not a header is sent to the workers before the loop, depending only on that type test, and the first block is decoded as a header only under the test that it is one; the type test may be made where the send is, at a call on the way to it (what the caller tested holds in the helper), or be carried by a parameter: a boolean, or a blob pointer that is assigned only under the not-a-header test and is nil otherwise (then `p != nil` stands for the test); guards whose other branch leaves the function for good (early error returns) are not counted. " +
			"NOT decided: the arithmetic value of offsets for concrete files; that a scan started at such an offset decodes the same objects (C01).",
		Assumptions: []string{"go/types, go/cfg (x/tools v0.29.0)", "io.ReadFull reads exactly len(buf) bytes on success"},
		LevelText:   "Structural necessary conditions for 'the reported offset is the start of the block holding the last returned object': provenance of the counter increment, capture-before-read, and unmodified transport of the offset through worker, serializer and consumer, decided on every path of the functions involved.",
		LevelNote:   "Trusts the type checker, go/cfg and io.ReadFull's contract; value-level equality of offsets for concrete files is not decided.",
		Technique:   "role/type-resolved provenance (definitions followed through locals, parameters and helper results) + typestate automata over the CFG with inlined helpers (reads before increment, capture before read, shift on every normal block) + finite-domain evaluation of the receive outcome (guard whitelist) + guard facts for the header test",
		DesignRef:   "DESIGN.md §5 C09",
		Rules: []*core.Rule{
			{ID: "B1", Floor: 3, Doc: "byte counter increment equals the sum of the lengths read for the block", Run: c09B1},
			{ID: "B2", Floor: 3, Doc: "offset captured before the read of the same iteration and carried with that blob; restart pair at offset 0", Run: c09B2},
			{ID: "B3", Floor: 1, Doc: "worker copies the received offset into the emitted pair", Run: c09B3},
			{ID: "B4", Floor: 2, Doc: "the consumer shifts previous/current offsets for every normal block taken from the queue and only then (guard whitelist: closed / EOF)", Run: c09B4},
			{ID: "B5", Floor: 2, Doc: "accessors return current / previous offset", Run: c09B5},
			{ID: "B6", Floor: 2, Doc: "non-header first block is dispatched; only a header is decoded as header", Run: c09B6},
		},
		Benign: c09Benign,
		Mutants: []core.Mutant{
			{Name: "count-without-prefix", File: "osmpbf/decode.go", Find: "dec.bytesRead += 4 + int64(blobHeaderSize) + int64(blobHeader.GetDatasize())", Replace: "dec.bytesRead += int64(blobHeaderSize) + int64(blobHeader.GetDatasize())", ExpectRule: "B1", ExpectConstruct: "increment"},
			{Name: "count-header-twice", File: "osmpbf/decode.go", Find: "dec.bytesRead += 4 + int64(blobHeaderSize) + int64(blobHeader.GetDatasize())", Replace: "dec.bytesRead += 4 + int64(blobHeaderSize) + int64(blobHeaderSize)", ExpectRule: "B1", ExpectConstruct: "increment"},
			{Name: "count-before-blob-read", File: "osmpbf/decode.go", Find: "\tblobBuf = blobBuf[:blobHeader.GetDatasize()]\n\tblob, err := dec.readBlob(blobBuf)\n\tif err != nil {\n\t\treturn nil, nil, err\n\t}\n\n\tdec.bytesRead += 4 + int64(blobHeaderSize) + int64(blobHeader.GetDatasize())\n", Replace: "\tdec.bytesRead += 4 + int64(blobHeaderSize) + int64(blobHeader.GetDatasize())\n\tblobBuf = blobBuf[:blobHeader.GetDatasize()]\n\tblob, err := dec.readBlob(blobBuf)\n\tif err != nil {\n\t\treturn nil, nil, err\n\t}\n\n", ExpectRule: "B1", ExpectConstruct: "increment"},
			{Name: "sizebuf-8", File: "osmpbf/decode.go", Find: "sizeBuf := make([]byte, 4)", Replace: "sizeBuf := make([]byte, 8)", ExpectRule: "B1", ExpectConstruct: "increment"},
			{Name: "offset-after-read", File: "osmpbf/decode.go", Find: "\t\t\toffset := dec.bytesRead\n\t\t\tblobHeader, blob, err = dec.readFileBlock(sizeBuf, headerBuf, blobBuf)\n", Replace: "\t\t\tblobHeader, blob, err = dec.readFileBlock(sizeBuf, headerBuf, blobBuf)\n\t\t\toffset := dec.bytesRead\n", ExpectRule: "B2", ExpectConstruct: "capture"},
			{Name: "restart-offset-nonzero", File: "osmpbf/decode.go", Find: "dec.inputs[0] <- iPair{Offset: 0, Blob: blob, Err: err}", Replace: "dec.inputs[0] <- iPair{Offset: dec.bytesRead, Blob: blob, Err: err}", ExpectRule: "B2", ExpectConstruct: "restart"},
			{Name: "worker-drops-offset", File: "osmpbf/decode.go", Find: "out = oPair{Offset: p.Offset, Objects: objects, Err: err}", Replace: "out = oPair{Objects: objects, Err: err}", ExpectRule: "B3", ExpectConstruct: "worker"},
			{Name: "next-shift-swapped", File: "osmpbf/decode.go", Find: "\t\tdec.pOffset = dec.cOffset\n\t\tdec.cOffset = cd.Offset\n", Replace: "\t\tdec.cOffset = cd.Offset\n\t\tdec.pOffset = dec.cOffset\n", ExpectRule: "B4", ExpectConstruct: "shift"},
			{Name: "next-shift-on-eof", File: "osmpbf/decode.go", Find: "\t\tcd, ok := <-dec.serializer\n", Replace: "\t\tcd, ok := <-dec.serializer\n\t\tdec.pOffset = dec.cOffset\n", ExpectRule: "B4", ExpectConstruct: "shift"},
			{Name: "next-skips-empty-block-before-shift", File: "osmpbf/decode.go", Find: "\t\tdec.pOffset = dec.cOffset\n\t\tdec.cOffset = cd.Offset\n", Replace: "\t\tif len(cd.Objects) == 0 && cd.Err == nil {\n\t\t\tcontinue\n\t\t}\n\n\t\tdec.pOffset = dec.cOffset\n\t\tdec.cOffset = cd.Offset\n", ExpectRule: "B4", ExpectConstruct: "shift-only-on-new-block"},
			{Name: "next-shift-only-current", File: "osmpbf/decode.go", Find: "\t\tdec.pOffset = dec.cOffset\n\t\tdec.cOffset = cd.Offset\n", Replace: "\t\tif cd.Offset > dec.cOffset {\n\t\t\tdec.pOffset = dec.cOffset\n\t\t}\n\t\tdec.cOffset = cd.Offset\n", ExpectRule: "B4", ExpectConstruct: "shift"},
			{Name: "loop-sends-without-read", File: "osmpbf/decode.go", Find: "\t\t\tblobHeader, blob, err = dec.readFileBlock(sizeBuf, headerBuf, blobBuf)\n\t\t\tif err == nil && blobHeader.GetType() != osmDataType {", Replace: "\t\t\tif offset > 0 || blob == nil {\n\t\t\t\tblobHeader, blob, err = dec.readFileBlock(sizeBuf, headerBuf, blobBuf)\n\t\t\t}\n\t\t\tif err == nil && blobHeader.GetType() != osmDataType {", ExpectRule: "B2", ExpectConstruct: "capture"},
			{Name: "method-reader-first-passed-for-header-streams", File: "osmpbf/decode.go", Find: "\n\t// start reading OSMData\n\tgo func() {\n\t\tdefer dec.wg.Done()\n\t\tdefer func() {\n\t\t\tfor _, input := range dec.inputs {\n\t\t\t\tclose(input)\n\t\t\t}\n\t\t}()\n\n\t\tvar (\n\t\t\ti   int\n\t\t\terr error\n\t\t)\n\n\t\t// On restart the first block may not be a header and will need to be\n\t\t// added to the first input.\n\t\tif blobHeader.GetType() != osmHeaderType {\n\t\t\tdec.inputs[0] <- iPair{Offset: 0, Blob: blob, Err: err}\n\n\t\t\ti = (i + 1) % n\n\t\t}\n\n\t\tfor dec.ctx.Err() == nil && err == nil {\n\t\t\tinput := dec.inputs[i]\n\t\t\ti = (i + 1) % n\n\n\t\t\toffset := dec.bytesRead\n\t\t\tblobHeader, blob, err = dec.readFileBlock(sizeBuf, headerBuf, blobBuf)\n\t\t\tif err == nil && blobHeader.GetType() != osmDataType {\n\t\t\t\terr = fmt.Errorf(\"unexpected fileblock of type %s\", blobHeader.GetType())\n\t\t\t}\n\n\t\t\tpair := iPair{Offset: offset, Blob: blob}\n\t\t\tif err != nil {\n\t\t\t\tpair = iPair{Err: err}\n\t\t\t}\n\n\t\t\tselect {\n\t\t\tcase input <- pair:\n\t\t\tcase <-dec.ctx.Done():\n\t\t\t}\n\t\t}\n\t}()\n\n\tgo func() {\n\t\tdefer dec.wg.Done()\n\t\tdefer func() {\n\t\t\tclose(dec.serializer)\n\t\t\tdec.cancel()\n\t\t}()\n\n\t\tfor i := 0; ; i = (i + 1) % n {\n\t\t\toutput := dec.outputs[i]\n\n\t\t\tvar p oPair\n\t\t\tselect {\n\t\t\tcase p = <-output:\n\t\t\tcase <-dec.ctx.Done():\n\t\t\t\treturn\n\t\t\t}\n\n\t\t\tselect {\n\t\t\tcase dec.serializer <- p:\n\t\t\tcase <-dec.ctx.Done():\n\t\t\t\treturn\n\t\t\t}\n\n\t\t\tif p.Err != nil {\n\t\t\t\treturn\n\t\t\t}\n\t\t}\n\t}()\n\n\treturn nil\n}", Replace: "\n\t// the first block is left over for the reader when it is not the header\n\tfirst := blob\n\n\t// start reading OSMData\n\tgo dec.readBlocks(n, first, sizeBuf, headerBuf, blobBuf)\n\n\tgo func() {\n\t\tdefer dec.wg.Done()\n\t\tdefer func() {\n\t\t\tclose(dec.serializer)\n\t\t\tdec.cancel()\n\t\t}()\n\n\t\tfor i := 0; ; i = (i + 1) % n {\n\t\t\toutput := dec.outputs[i]\n\n\t\t\tvar p oPair\n\t\t\tselect {\n\t\t\tcase p = <-output:\n\t\t\tcase <-dec.ctx.Done():\n\t\t\t\treturn\n\t\t\t}\n\n\t\t\tselect {\n\t\t\tcase dec.serializer <- p:\n\t\t\tcase <-dec.ctx.Done():\n\t\t\t\treturn\n\t\t\t}\n\n\t\t\tif p.Err != nil {\n\t\t\t\treturn\n\t\t\t}\n\t\t}\n\t}()\n\n\treturn nil\n}\n\nfunc (dec *decoder) readBlocks(n int, first *osmpbf.Blob, sizeBuf, headerBuf, blobBuf []byte) {\n\tvar blobHeader *osmpbf.BlobHeader\n\tvar blob *osmpbf.Blob\n\tdefer dec.wg.Done()\n\tdefer func() {\n\t\tfor _, input := range dec.inputs {\n\t\t\tclose(input)\n\t\t}\n\t}()\n\n\tvar (\n\t\ti   int\n\t\terr error\n\t)\n\n\t// On restart the first block may not be a header and will need to be\n\t// added to the first input.\n\tif first != nil {\n\t\tdec.inputs[0] <- iPair{Offset: 0, Blob: first}\n\n\t\ti = (i + 1) % n\n\t}\n\n\tfor dec.ctx.Err() == nil && err == nil {\n\t\tinput := dec.inputs[i]\n\t\ti = (i + 1) % n\n\n\t\toffset := dec.bytesRead\n\t\tblobHeader, blob, err = dec.readFileBlock(sizeBuf, headerBuf, blobBuf)\n\t\tif err == nil && blobHeader.GetType() != osmDataType {\n\t\t\terr = fmt.Errorf(\"unexpected fileblock of type %s\", blobHeader.GetType())\n\t\t}\n\n\t\tpair := iPair{Offset: offset, Blob: blob}\n\t\tif err != nil {\n\t\t\tpair = iPair{Err: err}\n\t\t}\n\n\t\tselect {\n\t\tcase input <- pair:\n\t\tcase <-dec.ctx.Done():\n\t\t}\n\t}\n}", ExpectRule: "B6", ExpectConstruct: "dispatch"},
			{Name: "method-reader-first-passed-only-for-header-streams", File: "osmpbf/decode.go", Find: "\n\t// start reading OSMData\n\tgo func() {\n\t\tdefer dec.wg.Done()\n\t\tdefer func() {\n\t\t\tfor _, input := range dec.inputs {\n\t\t\t\tclose(input)\n\t\t\t}\n\t\t}()\n\n\t\tvar (\n\t\t\ti   int\n\t\t\terr error\n\t\t)\n\n\t\t// On restart the first block may not be a header and will need to be\n\t\t// added to the first input.\n\t\tif blobHeader.GetType() != osmHeaderType {\n\t\t\tdec.inputs[0] <- iPair{Offset: 0, Blob: blob, Err: err}\n\n\t\t\ti = (i + 1) % n\n\t\t}\n\n\t\tfor dec.ctx.Err() == nil && err == nil {\n\t\t\tinput := dec.inputs[i]\n\t\t\ti = (i + 1) % n\n\n\t\t\toffset := dec.bytesRead\n\t\t\tblobHeader, blob, err = dec.readFileBlock(sizeBuf, headerBuf, blobBuf)\n\t\t\tif err == nil && blobHeader.GetType() != osmDataType {\n\t\t\t\terr = fmt.Errorf(\"unexpected fileblock of type %s\", blobHeader.GetType())\n\t\t\t}\n\n\t\t\tpair := iPair{Offset: offset, Blob: blob}\n\t\t\tif err != nil {\n\t\t\t\tpair = iPair{Err: err}\n\t\t\t}\n\n\t\t\tselect {\n\t\t\tcase input <- pair:\n\t\t\tcase <-dec.ctx.Done():\n\t\t\t}\n\t\t}\n\t}()\n\n\tgo func() {\n\t\tdefer dec.wg.Done()\n\t\tdefer func() {\n\t\t\tclose(dec.serializer)\n\t\t\tdec.cancel()\n\t\t}()\n\n\t\tfor i := 0; ; i = (i + 1) % n {\n\t\t\toutput := dec.outputs[i]\n\n\t\t\tvar p oPair\n\t\t\tselect {\n\t\t\tcase p = <-output:\n\t\t\tcase <-dec.ctx.Done():\n\t\t\t\treturn\n\t\t\t}\n\n\t\t\tselect {\n\t\t\tcase dec.serializer <- p:\n\t\t\tcase <-dec.ctx.Done():\n\t\t\t\treturn\n\t\t\t}\n\n\t\t\tif p.Err != nil {\n\t\t\t\treturn\n\t\t\t}\n\t\t}\n\t}()\n\n\treturn nil\n}", Replace: "\n\t// the first block is left over for the reader when it is not the header\n\tvar first *osmpbf.Blob\n\tif blobHeader.GetType() == osmHeaderType {\n\t\tfirst = blob\n\t}\n\n\t// start reading OSMData\n\tgo dec.readBlocks(n, first, sizeBuf, headerBuf, blobBuf)\n\n\tgo func() {\n\t\tdefer dec.wg.Done()\n\t\tdefer func() {\n\t\t\tclose(dec.serializer)\n\t\t\tdec.cancel()\n\t\t}()\n\n\t\tfor i := 0; ; i = (i + 1) % n {\n\t\t\toutput := dec.outputs[i]\n\n\t\t\tvar p oPair\n\t\t\tselect {\n\t\t\tcase p = <-output:\n\t\t\tcase <-dec.ctx.Done():\n\t\t\t\treturn\n\t\t\t}\n\n\t\t\tselect {\n\t\t\tcase dec.serializer <- p:\n\t\t\tcase <-dec.ctx.Done():\n\t\t\t\treturn\n\t\t\t}\n\n\t\t\tif p.Err != nil {\n\t\t\t\treturn\n\t\t\t}\n\t\t}\n\t}()\n\n\treturn nil\n}\n\nfunc (dec *decoder) readBlocks(n int, first *osmpbf.Blob, sizeBuf, headerBuf, blobBuf []byte) {\n\tvar blobHeader *osmpbf.BlobHeader\n\tvar blob *osmpbf.Blob\n\tdefer dec.wg.Done()\n\tdefer func() {\n\t\tfor _, input := range dec.inputs {\n\t\t\tclose(input)\n\t\t}\n\t}()\n\n\tvar (\n\t\ti   int\n\t\terr error\n\t)\n\n\t// On restart the first block may not be a header and will need to be\n\t// added to the first input.\n\tif first != nil {\n\t\tdec.inputs[0] <- iPair{Offset: 0, Blob: first}\n\n\t\ti = (i + 1) % n\n\t}\n\n\tfor dec.ctx.Err() == nil && err == nil {\n\t\tinput := dec.inputs[i]\n\t\ti = (i + 1) % n\n\n\t\toffset := dec.bytesRead\n\t\tblobHeader, blob, err = dec.readFileBlock(sizeBuf, headerBuf, blobBuf)\n\t\tif err == nil && blobHeader.GetType() != osmDataType {\n\t\t\terr = fmt.Errorf(\"unexpected fileblock of type %s\", blobHeader.GetType())\n\t\t}\n\n\t\tpair := iPair{Offset: offset, Blob: blob}\n\t\tif err != nil {\n\t\t\tpair = iPair{Err: err}\n\t\t}\n\n\t\tselect {\n\t\tcase input <- pair:\n\t\tcase <-dec.ctx.Done():\n\t\t}\n\t}\n}", ExpectRule: "B6", ExpectConstruct: "dispatch"},
			{Name: "split-state-previous-offset-not-saved", File: "osmpbf/decode.go", Find: "\tcOffset int64\n\tcData   oPair\n\tcIndex  int\n}\n\n// newDecoder returns a new decoder that reads from r.\nfunc newDecoder(ctx context.Context, s *Scanner, r io.Reader) *decoder {\n\tc, cancel := context.WithCancel(ctx)\n\treturn &decoder{\n\t\tscanner: s,\n\t\tctx:     c,\n\t\tcancel:  cancel,\n\t\tr:       r,\n\t}\n}\n\nfunc (dec *decoder) Close() error {\n\tdec.cancel()\n\tdec.wg.Wait()\n\treturn nil\n}\n\n// Start decoding process using n goroutines.\nfunc (dec *decoder) Start(n int) error {\n\tif n < 1 {\n\t\tn = 1\n\t}\n\tdec.serializer = make(chan oPair, n)\n\n\tsizeBuf := make([]byte, 4)\n\theaderBuf := make([]byte, maxBlobHeaderSize)\n\tblobBuf := make([]byte, maxBlobSize)\n\n\t// read OSMHeader\n\t// NOTE: if the first block is not a header, i.e. after a restart we need\n\t// to decode that block. It gets pushed on the first \"input\" below.\n\tblobHeader, blob, err := dec.readFileBlock(sizeBuf, headerBuf, blobBuf)\n\tif err != nil {\n\t\treturn err\n\t}\n\n\tif blobHeader.GetType() == osmHeaderType {\n\t\tvar err error\n\t\tdec.header, err = decodeOSMHeader(blob)\n\t\tif err != nil {\n\t\t\treturn err\n\t\t}\n\t}\n\n\tdec.wg.Add(n + 2)\n\n\t//use roughly 10 chanel inputs\n\tnumChanels := 10 / n\n\n\t// High level overview of the decoder:\n\t// The decoder supports parallel unzipping and protobuf decoding of all\n\t// the header blocks. On goroutine feeds the headerblocks round-robin into\n\t// the input channels. n goroutines read from the input channel, decode\n\t// the block and put the objects on their output channel. A third type of\n\t// goroutines round-robin reads the output channels and feads them into the\n\t// serializer channel to maintain the order of the objects in the file.\n\n\t// start data decoders\n\tfor i := 0; i < n; i++ {\n\t\tinput := make(chan iPair, numChanels)\n\t\toutput := make(chan oPair, numChanels)\n\n\t\tdd := &dataDecoder{scanner: dec.scanner}\n\n\t\tgo func() {\n\t\t\tdefer close(output)\n\t\t\tdefer dec.wg.Done()\n\n\t\t\tfor p := range input {\n\t\t\t\tvar out oPair\n\t\t\t\tif p.Err == nil {\n\t\t\t\t\t// send decoded objects or decoding error\n\t\t\t\t\tobjects, err := dd.Decode(p.Blob)\n\t\t\t\t\tout = oPair{Offset: p.Offset, Objects: objects, Err: err}\n\t\t\t\t} else {\n\t\t\t\t\tout = oPair{Err: p.Err} // send input error as is\n\t\t\t\t}\n\n\t\t\t\tselect {\n\t\t\t\tcase output <- out:\n\t\t\t\tcase <-dec.ctx.Done():\n\t\t\t\t}\n\t\t\t}\n\t\t}()\n\n\t\tdec.inputs = append(dec.inputs, input)\n\t\tdec.outputs = append(dec.outputs, output)\n\t}\n\n\t// start reading OSMData\n\tgo func() {\n\t\tdefer dec.wg.Done()\n\t\tdefer func() {\n\t\t\tfor _, input := range dec.inputs {\n\t\t\t\tclose(input)\n\t\t\t}\n\t\t}()\n\n\t\tvar (\n\t\t\ti   int\n\t\t\terr error\n\t\t)\n\n\t\t// On restart the first block may not be a header and will need to be\n\t\t// added to the first input.\n\t\tif blobHeader.GetType() != osmHeaderType {\n\t\t\tdec.inputs[0] <- iPair{Offset: 0, Blob: blob, Err: err}\n\n\t\t\ti = (i + 1) % n\n\t\t}\n\n\t\tfor dec.ctx.Err() == nil && err == nil {\n\t\t\tinput := dec.inputs[i]\n\t\t\ti = (i + 1) % n\n\n\t\t\toffset := dec.bytesRead\n\t\t\tblobHeader, blob, err = dec.readFileBlock(sizeBuf, headerBuf, blobBuf)\n\t\t\tif err == nil && blobHeader.GetType() != osmDataType {\n\t\t\t\terr = fmt.Errorf(\"unexpected fileblock of type %s\", blobHeader.GetType())\n\t\t\t}\n\n\t\t\tpair := iPair{Offset: offset, Blob: blob}\n\t\t\tif err != nil {\n\t\t\t\tpair = iPair{Err: err}\n\t\t\t}\n\n\t\t\tselect {\n\t\t\tcase input <- pair:\n\t\t\tcase <-dec.ctx.Done():\n\t\t\t}\n\t\t}\n\t}()\n\n\tgo func() {\n\t\tdefer dec.wg.Done()\n\t\tdefer func() {\n\t\t\tclose(dec.serializer)\n\t\t\tdec.cancel()\n\t\t}()\n\n\t\tfor i := 0; ; i = (i + 1) % n {\n\t\t\toutput := dec.outputs[i]\n\n\t\t\tvar p oPair\n\t\t\tselect {\n\t\t\tcase p = <-output:\n\t\t\tcase <-dec.ctx.Done():\n\t\t\t\treturn\n\t\t\t}\n\n\t\t\tselect {\n\t\t\tcase dec.serializer <- p:\n\t\t\tcase <-dec.ctx.Done():\n\t\t\t\treturn\n\t\t\t}\n\n\t\t\tif p.Err != nil {\n\t\t\t\treturn\n\t\t\t}\n\t\t}\n\t}()\n\n\treturn nil\n}\n\n// Next reads the next object from the input stream and returns either a\n// Node, Way or Relation struct representing the underlying OpenStreetMap PBF\n// data, or error encountered. The end of the input stream is reported by an io.EOF error.\nfunc (dec *decoder) Next() (osm.Object, error) {\n\tfor dec.cIndex >= len(dec.cData.Objects) {\n\t\tcd, ok := <-dec.serializer\n\t\tif !ok || cd.Err == io.EOF {\n\t\t\tif dec.cData.Err != nil {\n\t\t\t\treturn nil, dec.cData.Err\n\t\t\t}\n\n\t\t\t// The queue is closed without an error pair only when the\n\t\t\t// serializer stopped because the context was done.\n\t\t\tif err := dec.ctx.Err(); !ok && err != nil {\n\t\t\t\treturn nil, err\n\t\t\t}\n\t\t\treturn nil, io.EOF\n\t\t}\n\n\t\tdec.pOffset = dec.cOffset\n\t\tdec.cOffset = cd.Offset\n\t\tdec.cData = cd\n\t\tdec.cIndex = 0\n\t}\n\n\tv := dec.cData.Objects[dec.cIndex]\n\tdec.cIndex++\n\treturn v, dec.cData.Err\n}", Replace: "\tcOffset int64\n\tcObjects []osm.Object\n\tcErr     error\n\tcIndex  int\n}\n\n// newDecoder returns a new decoder that reads from r.\nfunc newDecoder(ctx context.Context, s *Scanner, r io.Reader) *decoder {\n\tc, cancel := context.WithCancel(ctx)\n\treturn &decoder{\n\t\tscanner: s,\n\t\tctx:     c,\n\t\tcancel:  cancel,\n\t\tr:       r,\n\t}\n}\n\nfunc (dec *decoder) Close() error {\n\tdec.cancel()\n\tdec.wg.Wait()\n\treturn nil\n}\n\n// Start decoding process using n goroutines.\nfunc (dec *decoder) Start(n int) error {\n\tif n < 1 {\n\t\tn = 1\n\t}\n\tdec.serializer = make(chan oPair, n)\n\n\tsizeBuf := make([]byte, 4)\n\theaderBuf := make([]byte, maxBlobHeaderSize)\n\tblobBuf := make([]byte, maxBlobSize)\n\n\t// read OSMHeader\n\t// NOTE: if the first block is not a header, i.e. after a restart we need\n\t// to decode that block. It gets pushed on the first \"input\" below.\n\tblobHeader, blob, err := dec.readFileBlock(sizeBuf, headerBuf, blobBuf)\n\tif err != nil {\n\t\treturn err\n\t}\n\n\tif blobHeader.GetType() == osmHeaderType {\n\t\tvar err error\n\t\tdec.header, err = decodeOSMHeader(blob)\n\t\tif err != nil {\n\t\t\treturn err\n\t\t}\n\t}\n\n\tdec.wg.Add(n + 2)\n\n\t//use roughly 10 chanel inputs\n\tnumChanels := 10 / n\n\n\t// High level overview of the decoder:\n\t// The decoder supports parallel unzipping and protobuf decoding of all\n\t// the header blocks. On goroutine feeds the headerblocks round-robin into\n\t// the input channels. n goroutines read from the input channel, decode\n\t// the block and put the objects on their output channel. A third type of\n\t// goroutines round-robin reads the output channels and feads them into the\n\t// serializer channel to maintain the order of the objects in the file.\n\n\t// start data decoders\n\tfor i := 0; i < n; i++ {\n\t\tinput := make(chan iPair, numChanels)\n\t\toutput := make(chan oPair, numChanels)\n\n\t\tdd := &dataDecoder{scanner: dec.scanner}\n\n\t\tgo func() {\n\t\t\tdefer close(output)\n\t\t\tdefer dec.wg.Done()\n\n\t\t\tfor p := range input {\n\t\t\t\tvar out oPair\n\t\t\t\tif p.Err == nil {\n\t\t\t\t\t// send decoded objects or decoding error\n\t\t\t\t\tobjects, err := dd.Decode(p.Blob)\n\t\t\t\t\tout = oPair{Offset: p.Offset, Objects: objects, Err: err}\n\t\t\t\t} else {\n\t\t\t\t\tout = oPair{Err: p.Err} // send input error as is\n\t\t\t\t}\n\n\t\t\t\tselect {\n\t\t\t\tcase output <- out:\n\t\t\t\tcase <-dec.ctx.Done():\n\t\t\t\t}\n\t\t\t}\n\t\t}()\n\n\t\tdec.inputs = append(dec.inputs, input)\n\t\tdec.outputs = append(dec.outputs, output)\n\t}\n\n\t// start reading OSMData\n\tgo func() {\n\t\tdefer dec.wg.Done()\n\t\tdefer func() {\n\t\t\tfor _, input := range dec.inputs {\n\t\t\t\tclose(input)\n\t\t\t}\n\t\t}()\n\n\t\tvar (\n\t\t\ti   int\n\t\t\terr error\n\t\t)\n\n\t\t// On restart the first block may not be a header and will need to be\n\t\t// added to the first input.\n\t\tif blobHeader.GetType() != osmHeaderType {\n\t\t\tdec.inputs[0] <- iPair{Offset: 0, Blob: blob, Err: err}\n\n\t\t\ti = (i + 1) % n\n\t\t}\n\n\t\tfor dec.ctx.Err() == nil && err == nil {\n\t\t\tinput := dec.inputs[i]\n\t\t\ti = (i + 1) % n\n\n\t\t\toffset := dec.bytesRead\n\t\t\tblobHeader, blob, err = dec.readFileBlock(sizeBuf, headerBuf, blobBuf)\n\t\t\tif err == nil && blobHeader.GetType() != osmDataType {\n\t\t\t\terr = fmt.Errorf(\"unexpected fileblock of type %s\", blobHeader.GetType())\n\t\t\t}\n\n\t\t\tpair := iPair{Offset: offset, Blob: blob}\n\t\t\tif err != nil {\n\t\t\t\tpair = iPair{Err: err}\n\t\t\t}\n\n\t\t\tselect {\n\t\t\tcase input <- pair:\n\t\t\tcase <-dec.ctx.Done():\n\t\t\t}\n\t\t}\n\t}()\n\n\tgo func() {\n\t\tdefer dec.wg.Done()\n\t\tdefer func() {\n\t\t\tclose(dec.serializer)\n\t\t\tdec.cancel()\n\t\t}()\n\n\t\tfor i := 0; ; i = (i + 1) % n {\n\t\t\toutput := dec.outputs[i]\n\n\t\t\tvar p oPair\n\t\t\tselect {\n\t\t\tcase p = <-output:\n\t\t\tcase <-dec.ctx.Done():\n\t\t\t\treturn\n\t\t\t}\n\n\t\t\tselect {\n\t\t\tcase dec.serializer <- p:\n\t\t\tcase <-dec.ctx.Done():\n\t\t\t\treturn\n\t\t\t}\n\n\t\t\tif p.Err != nil {\n\t\t\t\treturn\n\t\t\t}\n\t\t}\n\t}()\n\n\treturn nil\n}\n\n// Next reads the next object from the input stream and returns either a\n// Node, Way or Relation struct representing the underlying OpenStreetMap PBF\n// data, or error encountered. The end of the input stream is reported by an io.EOF error.\nfunc (dec *decoder) Next() (osm.Object, error) {\n\tfor dec.cIndex >= len(dec.cObjects) {\n\t\tcd, ok := <-dec.serializer\n\t\tif !ok || cd.Err == io.EOF {\n\t\t\tif dec.cErr != nil {\n\t\t\t\treturn nil, dec.cErr\n\t\t\t}\n\n\t\t\t// The queue is closed without an error pair only when the\n\t\t\t// serializer stopped because the context was done.\n\t\t\tif err := dec.ctx.Err(); !ok && err != nil {\n\t\t\t\treturn nil, err\n\t\t\t}\n\t\t\treturn nil, io.EOF\n\t\t}\n\n\t\tdec.cOffset = cd.Offset\n\t\tdec.cObjects, dec.cErr = cd.Objects, cd.Err\n\t\tdec.cIndex = 0\n\t}\n\n\tv := dec.cObjects[dec.cIndex]\n\tdec.cIndex++\n\treturn v, dec.cErr\n}", ExpectRule: "", ExpectConstruct: "previous-offset"},
			{Name: "split-state-empty-block-skips-shift", File: "osmpbf/decode.go", Find: "\tcOffset int64\n\tcData   oPair\n\tcIndex  int\n}\n\n// newDecoder returns a new decoder that reads from r.\nfunc newDecoder(ctx context.Context, s *Scanner, r io.Reader) *decoder {\n\tc, cancel := context.WithCancel(ctx)\n\treturn &decoder{\n\t\tscanner: s,\n\t\tctx:     c,\n\t\tcancel:  cancel,\n\t\tr:       r,\n\t}\n}\n\nfunc (dec *decoder) Close() error {\n\tdec.cancel()\n\tdec.wg.Wait()\n\treturn nil\n}\n\n// Start decoding process using n goroutines.\nfunc (dec *decoder) Start(n int) error {\n\tif n < 1 {\n\t\tn = 1\n\t}\n\tdec.serializer = make(chan oPair, n)\n\n\tsizeBuf := make([]byte, 4)\n\theaderBuf := make([]byte, maxBlobHeaderSize)\n\tblobBuf := make([]byte, maxBlobSize)\n\n\t// read OSMHeader\n\t// NOTE: if the first block is not a header, i.e. after a restart we need\n\t// to decode that block. It gets pushed on the first \"input\" below.\n\tblobHeader, blob, err := dec.readFileBlock(sizeBuf, headerBuf, blobBuf)\n\tif err != nil {\n\t\treturn err\n\t}\n\n\tif blobHeader.GetType() == osmHeaderType {\n\t\tvar err error\n\t\tdec.header, err = decodeOSMHeader(blob)\n\t\tif err != nil {\n\t\t\treturn err\n\t\t}\n\t}\n\n\tdec.wg.Add(n + 2)\n\n\t//use roughly 10 chanel inputs\n\tnumChanels := 10 / n\n\n\t// High level overview of the decoder:\n\t// The decoder supports parallel unzipping and protobuf decoding of all\n\t// the header blocks. On goroutine feeds the headerblocks round-robin into\n\t// the input channels. n goroutines read from the input channel, decode\n\t// the block and put the objects on their output channel. A third type of\n\t// goroutines round-robin reads the output channels and feads them into the\n\t// serializer channel to maintain the order of the objects in the file.\n\n\t// start data decoders\n\tfor i := 0; i < n; i++ {\n\t\tinput := make(chan iPair, numChanels)\n\t\toutput := make(chan oPair, numChanels)\n\n\t\tdd := &dataDecoder{scanner: dec.scanner}\n\n\t\tgo func() {\n\t\t\tdefer close(output)\n\t\t\tdefer dec.wg.Done()\n\n\t\t\tfor p := range input {\n\t\t\t\tvar out oPair\n\t\t\t\tif p.Err == nil {\n\t\t\t\t\t// send decoded objects or decoding error\n\t\t\t\t\tobjects, err := dd.Decode(p.Blob)\n\t\t\t\t\tout = oPair{Offset: p.Offset, Objects: objects, Err: err}\n\t\t\t\t} else {\n\t\t\t\t\tout = oPair{Err: p.Err} // send input error as is\n\t\t\t\t}\n\n\t\t\t\tselect {\n\t\t\t\tcase output <- out:\n\t\t\t\tcase <-dec.ctx.Done():\n\t\t\t\t}\n\t\t\t}\n\t\t}()\n\n\t\tdec.inputs = append(dec.inputs, input)\n\t\tdec.outputs = append(dec.outputs, output)\n\t}\n\n\t// start reading OSMData\n\tgo func() {\n\t\tdefer dec.wg.Done()\n\t\tdefer func() {\n\t\t\tfor _, input := range dec.inputs {\n\t\t\t\tclose(input)\n\t\t\t}\n\t\t}()\n\n\t\tvar (\n\t\t\ti   int\n\t\t\terr error\n\t\t)\n\n\t\t// On restart the first block may not be a header and will need to be\n\t\t// added to the first input.\n\t\tif blobHeader.GetType() != osmHeaderType {\n\t\t\tdec.inputs[0] <- iPair{Offset: 0, Blob: blob, Err: err}\n\n\t\t\ti = (i + 1) % n\n\t\t}\n\n\t\tfor dec.ctx.Err() == nil && err == nil {\n\t\t\tinput := dec.inputs[i]\n\t\t\ti = (i + 1) % n\n\n\t\t\toffset := dec.bytesRead\n\t\t\tblobHeader, blob, err = dec.readFileBlock(sizeBuf, headerBuf, blobBuf)\n\t\t\tif err == nil && blobHeader.GetType() != osmDataType {\n\t\t\t\terr = fmt.Errorf(\"unexpected fileblock of type %s\", blobHeader.GetType())\n\t\t\t}\n\n\t\t\tpair := iPair{Offset: offset, Blob: blob}\n\t\t\tif err != nil {\n\t\t\t\tpair = iPair{Err: err}\n\t\t\t}\n\n\t\t\tselect {\n\t\t\tcase input <- pair:\n\t\t\tcase <-dec.ctx.Done():\n\t\t\t}\n\t\t}\n\t}()\n\n\tgo func() {\n\t\tdefer dec.wg.Done()\n\t\tdefer func() {\n\t\t\tclose(dec.serializer)\n\t\t\tdec.cancel()\n\t\t}()\n\n\t\tfor i := 0; ; i = (i + 1) % n {\n\t\t\toutput := dec.outputs[i]\n\n\t\t\tvar p oPair\n\t\t\tselect {\n\t\t\tcase p = <-output:\n\t\t\tcase <-dec.ctx.Done():\n\t\t\t\treturn\n\t\t\t}\n\n\t\t\tselect {\n\t\t\tcase dec.serializer <- p:\n\t\t\tcase <-dec.ctx.Done():\n\t\t\t\treturn\n\t\t\t}\n\n\t\t\tif p.Err != nil {\n\t\t\t\treturn\n\t\t\t}\n\t\t}\n\t}()\n\n\treturn nil\n}\n\n// Next reads the next object from the input stream and returns either a\n// Node, Way or Relation struct representing the underlying OpenStreetMap PBF\n// data, or error encountered. The end of the input stream is reported by an io.EOF error.\nfunc (dec *decoder) Next() (osm.Object, error) {\n\tfor dec.cIndex >= len(dec.cData.Objects) {\n\t\tcd, ok := <-dec.serializer\n\t\tif !ok || cd.Err == io.EOF {\n\t\t\tif dec.cData.Err != nil {\n\t\t\t\treturn nil, dec.cData.Err\n\t\t\t}\n\n\t\t\t// The queue is closed without an error pair only when the\n\t\t\t// serializer stopped because the context was done.\n\t\t\tif err := dec.ctx.Err(); !ok && err != nil {\n\t\t\t\treturn nil, err\n\t\t\t}\n\t\t\treturn nil, io.EOF\n\t\t}\n\n\t\tdec.pOffset = dec.cOffset\n\t\tdec.cOffset = cd.Offset\n\t\tdec.cData = cd\n\t\tdec.cIndex = 0\n\t}\n\n\tv := dec.cData.Objects[dec.cIndex]\n\tdec.cIndex++\n\treturn v, dec.cData.Err\n}", Replace: "\tcOffset int64\n\tcObjects []osm.Object\n\tcErr     error\n\tcIndex  int\n}\n\n// newDecoder returns a new decoder that reads from r.\nfunc newDecoder(ctx context.Context, s *Scanner, r io.Reader) *decoder {\n\tc, cancel := context.WithCancel(ctx)\n\treturn &decoder{\n\t\tscanner: s,\n\t\tctx:     c,\n\t\tcancel:  cancel,\n\t\tr:       r,\n\t}\n}\n\nfunc (dec *decoder) Close() error {\n\tdec.cancel()\n\tdec.wg.Wait()\n\treturn nil\n}\n\n// Start decoding process using n goroutines.\nfunc (dec *decoder) Start(n int) error {\n\tif n < 1 {\n\t\tn = 1\n\t}\n\tdec.serializer = make(chan oPair, n)\n\n\tsizeBuf := make([]byte, 4)\n\theaderBuf := make([]byte, maxBlobHeaderSize)\n\tblobBuf := make([]byte, maxBlobSize)\n\n\t// read OSMHeader\n\t// NOTE: if the first block is not a header, i.e. after a restart we need\n\t// to decode that block. It gets pushed on the first \"input\" below.\n\tblobHeader, blob, err := dec.readFileBlock(sizeBuf, headerBuf, blobBuf)\n\tif err != nil {\n\t\treturn err\n\t}\n\n\tif blobHeader.GetType() == osmHeaderType {\n\t\tvar err error\n\t\tdec.header, err = decodeOSMHeader(blob)\n\t\tif err != nil {\n\t\t\treturn err\n\t\t}\n\t}\n\n\tdec.wg.Add(n + 2)\n\n\t//use roughly 10 chanel inputs\n\tnumChanels := 10 / n\n\n\t// High level overview of the decoder:\n\t// The decoder supports parallel unzipping and protobuf decoding of all\n\t// the header blocks. On goroutine feeds the headerblocks round-robin into\n\t// the input channels. n goroutines read from the input channel, decode\n\t// the block and put the objects on their output channel. A third type of\n\t// goroutines round-robin reads the output channels and feads them into the\n\t// serializer channel to maintain the order of the objects in the file.\n\n\t// start data decoders\n\tfor i := 0; i < n; i++ {\n\t\tinput := make(chan iPair, numChanels)\n\t\toutput := make(chan oPair, numChanels)\n\n\t\tdd := &dataDecoder{scanner: dec.scanner}\n\n\t\tgo func() {\n\t\t\tdefer close(output)\n\t\t\tdefer dec.wg.Done()\n\n\t\t\tfor p := range input {\n\t\t\t\tvar out oPair\n\t\t\t\tif p.Err == nil {\n\t\t\t\t\t// send decoded objects or decoding error\n\t\t\t\t\tobjects, err := dd.Decode(p.Blob)\n\t\t\t\t\tout = oPair{Offset: p.Offset, Objects: objects, Err: err}\n\t\t\t\t} else {\n\t\t\t\t\tout = oPair{Err: p.Err} // send input error as is\n\t\t\t\t}\n\n\t\t\t\tselect {\n\t\t\t\tcase output <- out:\n\t\t\t\tcase <-dec.ctx.Done():\n\t\t\t\t}\n\t\t\t}\n\t\t}()\n\n\t\tdec.inputs = append(dec.inputs, input)\n\t\tdec.outputs = append(dec.outputs, output)\n\t}\n\n\t// start reading OSMData\n\tgo func() {\n\t\tdefer dec.wg.Done()\n\t\tdefer func() {\n\t\t\tfor _, input := range dec.inputs {\n\t\t\t\tclose(input)\n\t\t\t}\n\t\t}()\n\n\t\tvar (\n\t\t\ti   int\n\t\t\terr error\n\t\t)\n\n\t\t// On restart the first block may not be a header and will need to be\n\t\t// added to the first input.\n\t\tif blobHeader.GetType() != osmHeaderType {\n\t\t\tdec.inputs[0] <- iPair{Offset: 0, Blob: blob, Err: err}\n\n\t\t\ti = (i + 1) % n\n\t\t}\n\n\t\tfor dec.ctx.Err() == nil && err == nil {\n\t\t\tinput := dec.inputs[i]\n\t\t\ti = (i + 1) % n\n\n\t\t\toffset := dec.bytesRead\n\t\t\tblobHeader, blob, err = dec.readFileBlock(sizeBuf, headerBuf, blobBuf)\n\t\t\tif err == nil && blobHeader.GetType() != osmDataType {\n\t\t\t\terr = fmt.Errorf(\"unexpected fileblock of type %s\", blobHeader.GetType())\n\t\t\t}\n\n\t\t\tpair := iPair{Offset: offset, Blob: blob}\n\t\t\tif err != nil {\n\t\t\t\tpair = iPair{Err: err}\n\t\t\t}\n\n\t\t\tselect {\n\t\t\tcase input <- pair:\n\t\t\tcase <-dec.ctx.Done():\n\t\t\t}\n\t\t}\n\t}()\n\n\tgo func() {\n\t\tdefer dec.wg.Done()\n\t\tdefer func() {\n\t\t\tclose(dec.serializer)\n\t\t\tdec.cancel()\n\t\t}()\n\n\t\tfor i := 0; ; i = (i + 1) % n {\n\t\t\toutput := dec.outputs[i]\n\n\t\t\tvar p oPair\n\t\t\tselect {\n\t\t\tcase p = <-output:\n\t\t\tcase <-dec.ctx.Done():\n\t\t\t\treturn\n\t\t\t}\n\n\t\t\tselect {\n\t\t\tcase dec.serializer <- p:\n\t\t\tcase <-dec.ctx.Done():\n\t\t\t\treturn\n\t\t\t}\n\n\t\t\tif p.Err != nil {\n\t\t\t\treturn\n\t\t\t}\n\t\t}\n\t}()\n\n\treturn nil\n}\n\n// Next reads the next object from the input stream and returns either a\n// Node, Way or Relation struct representing the underlying OpenStreetMap PBF\n// data, or error encountered. The end of the input stream is reported by an io.EOF error.\nfunc (dec *decoder) Next() (osm.Object, error) {\n\tfor dec.cIndex >= len(dec.cObjects) {\n\t\tcd, ok := <-dec.serializer\n\t\tif !ok || cd.Err == io.EOF {\n\t\t\tif dec.cErr != nil {\n\t\t\t\treturn nil, dec.cErr\n\t\t\t}\n\n\t\t\t// The queue is closed without an error pair only when the\n\t\t\t// serializer stopped because the context was done.\n\t\t\tif err := dec.ctx.Err(); !ok && err != nil {\n\t\t\t\treturn nil, err\n\t\t\t}\n\t\t\treturn nil, io.EOF\n\t\t}\n\n\t\tif len(cd.Objects) == 0 && cd.Err == nil {\n\t\t\tcontinue\n\t\t}\n\n\t\tdec.pOffset = dec.cOffset\n\t\tdec.cOffset = cd.Offset\n\t\tdec.cObjects, dec.cErr = cd.Objects, cd.Err\n\t\tdec.cIndex = 0\n\t}\n\n\tv := dec.cObjects[dec.cIndex]\n\tdec.cIndex++\n\treturn v, dec.cErr\n}", ExpectRule: "B4", ExpectConstruct: "shift-only-on-new-block"},
			{Name: "pending-pair-nonzero-offset", File: "osmpbf/decode.go", Find: "\n\tif blobHeader.GetType() == osmHeaderType {\n\t\tvar err error\n\t\tdec.header, err = decodeOSMHeader(blob)\n\t\tif err != nil {\n\t\t\treturn err\n\t\t}\n\t}\n\n\tdec.wg.Add(n + 2)\n\n\t//use roughly 10 chanel inputs\n\tnumChanels := 10 / n\n\n\t// High level overview of the decoder:\n\t// The decoder supports parallel unzipping and protobuf decoding of all\n\t// the header blocks. On goroutine feeds the headerblocks round-robin into\n\t// the input channels. n goroutines read from the input channel, decode\n\t// the block and put the objects on their output channel. A third type of\n\t// goroutines round-robin reads the output channels and feads them into the\n\t// serializer channel to maintain the order of the objects in the file.\n\n\t// start data decoders\n\tfor i := 0; i < n; i++ {\n\t\tinput := make(chan iPair, numChanels)\n\t\toutput := make(chan oPair, numChanels)\n\n\t\tdd := &dataDecoder{scanner: dec.scanner}\n\n\t\tgo func() {\n\t\t\tdefer close(output)\n\t\t\tdefer dec.wg.Done()\n\n\t\t\tfor p := range input {\n\t\t\t\tvar out oPair\n\t\t\t\tif p.Err == nil {\n\t\t\t\t\t// send decoded objects or decoding error\n\t\t\t\t\tobjects, err := dd.Decode(p.Blob)\n\t\t\t\t\tout = oPair{Offset: p.Offset, Objects: objects, Err: err}\n\t\t\t\t} else {\n\t\t\t\t\tout = oPair{Err: p.Err} // send input error as is\n\t\t\t\t}\n\n\t\t\t\tselect {\n\t\t\t\tcase output <- out:\n\t\t\t\tcase <-dec.ctx.Done():\n\t\t\t\t}\n\t\t\t}\n\t\t}()\n\n\t\tdec.inputs = append(dec.inputs, input)\n\t\tdec.outputs = append(dec.outputs, output)\n\t}\n\n\t// start reading OSMData\n\tgo func() {\n\t\tdefer dec.wg.Done()\n\t\tdefer func() {\n\t\t\tfor _, input := range dec.inputs {\n\t\t\t\tclose(input)\n\t\t\t}\n\t\t}()\n\n\t\tvar (\n\t\t\ti   int\n\t\t\terr error\n\t\t)\n\n\t\t// On restart the first block may not be a header and will need to be\n\t\t// added to the first input.\n\t\tif blobHeader.GetType() != osmHeaderType {\n\t\t\tdec.inputs[0] <- iPair{Offset: 0, Blob: blob, Err: err}\n", Replace: "\n\tvar pending *iPair\n\tif blobHeader.GetType() == osmHeaderType {\n\t\tvar err error\n\t\tdec.header, err = decodeOSMHeader(blob)\n\t\tif err != nil {\n\t\t\treturn err\n\t\t}\n\t} else {\n\t\tpending = &iPair{Offset: dec.bytesRead, Blob: blob}\n\t}\n\n\tdec.wg.Add(n + 2)\n\n\t//use roughly 10 chanel inputs\n\tnumChanels := 10 / n\n\n\t// High level overview of the decoder:\n\t// The decoder supports parallel unzipping and protobuf decoding of all\n\t// the header blocks. On goroutine feeds the headerblocks round-robin into\n\t// the input channels. n goroutines read from the input channel, decode\n\t// the block and put the objects on their output channel. A third type of\n\t// goroutines round-robin reads the output channels and feads them into the\n\t// serializer channel to maintain the order of the objects in the file.\n\n\t// start data decoders\n\tfor i := 0; i < n; i++ {\n\t\tinput := make(chan iPair, numChanels)\n\t\toutput := make(chan oPair, numChanels)\n\n\t\tdd := &dataDecoder{scanner: dec.scanner}\n\n\t\tgo func() {\n\t\t\tdefer close(output)\n\t\t\tdefer dec.wg.Done()\n\n\t\t\tfor p := range input {\n\t\t\t\tvar out oPair\n\t\t\t\tif p.Err == nil {\n\t\t\t\t\t// send decoded objects or decoding error\n\t\t\t\t\tobjects, err := dd.Decode(p.Blob)\n\t\t\t\t\tout = oPair{Offset: p.Offset, Objects: objects, Err: err}\n\t\t\t\t} else {\n\t\t\t\t\tout = oPair{Err: p.Err} // send input error as is\n\t\t\t\t}\n\n\t\t\t\tselect {\n\t\t\t\tcase output <- out:\n\t\t\t\tcase <-dec.ctx.Done():\n\t\t\t\t}\n\t\t\t}\n\t\t}()\n\n\t\tdec.inputs = append(dec.inputs, input)\n\t\tdec.outputs = append(dec.outputs, output)\n\t}\n\n\t// start reading OSMData\n\tgo func() {\n\t\tdefer dec.wg.Done()\n\t\tdefer func() {\n\t\t\tfor _, input := range dec.inputs {\n\t\t\t\tclose(input)\n\t\t\t}\n\t\t}()\n\n\t\tvar (\n\t\t\ti   int\n\t\t\terr error\n\t\t)\n\n\t\t// On restart the first block may not be a header and will need to be\n\t\t// added to the first input.\n\t\tif pending != nil {\n\t\t\tdec.inputs[0] <- *pending\n", ExpectRule: "B2", ExpectConstruct: "restart"},
			{Name: "pending-pair-built-for-header-streams-too", File: "osmpbf/decode.go", Find: "\n\tif blobHeader.GetType() == osmHeaderType {\n\t\tvar err error\n\t\tdec.header, err = decodeOSMHeader(blob)\n\t\tif err != nil {\n\t\t\treturn err\n\t\t}\n\t}\n\n\tdec.wg.Add(n + 2)\n\n\t//use roughly 10 chanel inputs\n\tnumChanels := 10 / n\n\n\t// High level overview of the decoder:\n\t// The decoder supports parallel unzipping and protobuf decoding of all\n\t// the header blocks. On goroutine feeds the headerblocks round-robin into\n\t// the input channels. n goroutines read from the input channel, decode\n\t// the block and put the objects on their output channel. A third type of\n\t// goroutines round-robin reads the output channels and feads them into the\n\t// serializer channel to maintain the order of the objects in the file.\n\n\t// start data decoders\n\tfor i := 0; i < n; i++ {\n\t\tinput := make(chan iPair, numChanels)\n\t\toutput := make(chan oPair, numChanels)\n\n\t\tdd := &dataDecoder{scanner: dec.scanner}\n\n\t\tgo func() {\n\t\t\tdefer close(output)\n\t\t\tdefer dec.wg.Done()\n\n\t\t\tfor p := range input {\n\t\t\t\tvar out oPair\n\t\t\t\tif p.Err == nil {\n\t\t\t\t\t// send decoded objects or decoding error\n\t\t\t\t\tobjects, err := dd.Decode(p.Blob)\n\t\t\t\t\tout = oPair{Offset: p.Offset, Objects: objects, Err: err}\n\t\t\t\t} else {\n\t\t\t\t\tout = oPair{Err: p.Err} // send input error as is\n\t\t\t\t}\n\n\t\t\t\tselect {\n\t\t\t\tcase output <- out:\n\t\t\t\tcase <-dec.ctx.Done():\n\t\t\t\t}\n\t\t\t}\n\t\t}()\n\n\t\tdec.inputs = append(dec.inputs, input)\n\t\tdec.outputs = append(dec.outputs, output)\n\t}\n\n\t// start reading OSMData\n\tgo func() {\n\t\tdefer dec.wg.Done()\n\t\tdefer func() {\n\t\t\tfor _, input := range dec.inputs {\n\t\t\t\tclose(input)\n\t\t\t}\n\t\t}()\n\n\t\tvar (\n\t\t\ti   int\n\t\t\terr error\n\t\t)\n\n\t\t// On restart the first block may not be a header and will need to be\n\t\t// added to the first input.\n\t\tif blobHeader.GetType() != osmHeaderType {\n\t\t\tdec.inputs[0] <- iPair{Offset: 0, Blob: blob, Err: err}\n", Replace: "\n\tvar pending *iPair\n\tif blobHeader.GetType() == osmHeaderType {\n\t\tvar err error\n\t\tdec.header, err = decodeOSMHeader(blob)\n\t\tif err != nil {\n\t\t\treturn err\n\t\t}\n\t}\n\tpending = &iPair{Offset: 0, Blob: blob}\n\n\tdec.wg.Add(n + 2)\n\n\t//use roughly 10 chanel inputs\n\tnumChanels := 10 / n\n\n\t// High level overview of the decoder:\n\t// The decoder supports parallel unzipping and protobuf decoding of all\n\t// the header blocks. On goroutine feeds the headerblocks round-robin into\n\t// the input channels. n goroutines read from the input channel, decode\n\t// the block and put the objects on their output channel. A third type of\n\t// goroutines round-robin reads the output channels and feads them into the\n\t// serializer channel to maintain the order of the objects in the file.\n\n\t// start data decoders\n\tfor i := 0; i < n; i++ {\n\t\tinput := make(chan iPair, numChanels)\n\t\toutput := make(chan oPair, numChanels)\n\n\t\tdd := &dataDecoder{scanner: dec.scanner}\n\n\t\tgo func() {\n\t\t\tdefer close(output)\n\t\t\tdefer dec.wg.Done()\n\n\t\t\tfor p := range input {\n\t\t\t\tvar out oPair\n\t\t\t\tif p.Err == nil {\n\t\t\t\t\t// send decoded objects or decoding error\n\t\t\t\t\tobjects, err := dd.Decode(p.Blob)\n\t\t\t\t\tout = oPair{Offset: p.Offset, Objects: objects, Err: err}\n\t\t\t\t} else {\n\t\t\t\t\tout = oPair{Err: p.Err} // send input error as is\n\t\t\t\t}\n\n\t\t\t\tselect {\n\t\t\t\tcase output <- out:\n\t\t\t\tcase <-dec.ctx.Done():\n\t\t\t\t}\n\t\t\t}\n\t\t}()\n\n\t\tdec.inputs = append(dec.inputs, input)\n\t\tdec.outputs = append(dec.outputs, output)\n\t}\n\n\t// start reading OSMData\n\tgo func() {\n\t\tdefer dec.wg.Done()\n\t\tdefer func() {\n\t\t\tfor _, input := range dec.inputs {\n\t\t\t\tclose(input)\n\t\t\t}\n\t\t}()\n\n\t\tvar (\n\t\t\ti   int\n\t\t\terr error\n\t\t)\n\n\t\t// On restart the first block may not be a header and will need to be\n\t\t// added to the first input.\n\t\tif pending != nil {\n\t\t\tdec.inputs[0] <- *pending\n", ExpectRule: "B6", ExpectConstruct: "dispatch"},
			{Name: "accessors-swapped", File: "osmpbf/scanner.go", Find: "func (s *Scanner) FullyScannedBytes() int64 {\n\treturn atomic.LoadInt64(&s.decoder.cOffset)", Replace: "func (s *Scanner) FullyScannedBytes() int64 {\n\treturn atomic.LoadInt64(&s.decoder.pOffset)", ExpectRule: "B5", ExpectConstruct: "FullyScannedBytes"},
			{Name: "accessor-returns-bytesRead", File: "osmpbf/scanner.go", Find: "func (s *Scanner) FullyScannedBytes() int64 {\n\treturn atomic.LoadInt64(&s.decoder.cOffset)", Replace: "func (s *Scanner) FullyScannedBytes() int64 {\n\treturn atomic.LoadInt64(&s.decoder.bytesRead)", ExpectRule: "B5", ExpectConstruct: "FullyScannedBytes"},
			{Name: "restart-block-dropped", File: "osmpbf/decode.go", Find: "\t\t\tdec.inputs[0] <- iPair{Offset: 0, Blob: blob, Err: err}\n\n\t\t\ti = (i + 1) % n\n", Replace: "\t\t\t_ = blob\n", ExpectRule: "B6", ExpectConstruct: "dispatch"},
			{Name: "header-decoded-unconditionally", File: "osmpbf/decode.go", Find: "\tif blobHeader.GetType() == osmHeaderType {\n\t\tvar err error\n\t\tdec.header, err = decodeOSMHeader(blob)\n\t\tif err != nil {\n\t\t\treturn err\n\t\t}\n\t}\n", Replace: "\t{\n\t\tvar err error\n\t\tdec.header, err = decodeOSMHeader(blob)\n\t\tif err != nil {\n\t\t\treturn err\n\t\t}\n\t}\n", ExpectRule: "B6", ExpectConstruct: "header"},
		},
	})
}

// c09Fields resolves, by role and by type (never by name), what the offset bookkeeping consists of:
//   - counter: the decoder's int64 field that is increased (`+=`) in code only the reader role (and the spawner) runs;
//     blockReader: the function holding that increment;
//   - inPair / outPair: element types of the workers' input / output channels; their int64 field is the offset, the
//     *Blob field the blob, the []osm.Object field the objects, the error field the error;
//   - current: the decoder int64 field assigned from an output pair's offset in the consumer (deep from next);
//     previous: the decoder int64 field assigned from current there.
type c09Fields struct {
	counter, current, previous  *types.Var
	blockReader                 *FuncInfo
	inPairT, outPairT           *types.Named
	pairOffsetIn, pairOffsetOut *types.Var
	blobIn, objsOut             *types.Var
	in, out, queue              string
	incs                        []*ast.AssignStmt // every write of the counter
}

func c09ChanElem(f *types.Var) *types.Named {
	if f == nil {
		return nil
	}
	t := f.Type()
	if sl, ok := t.Underlying().(*types.Slice); ok {
		t = sl.Elem()
	}
	ch, ok := t.Underlying().(*types.Chan)
	if !ok {
		return nil
	}
	et := ch.Elem()
	if pt, ok := et.(*types.Pointer); ok {
		et = pt.Elem() // a channel of pointers to pairs
	}
	nt, _ := et.(*types.Named)
	return nt
}

// c09DecoderField returns the field selected by e when the selection chain is rooted in a value of the decoder type:
// a field of the decoder itself, or a field of a struct the decoder embeds by value as one of its fields
// (`dec.off.cur`: offsets grouped in a struct). It returns the innermost (leaf) field.
func c09DecoderField(m *pbfModel, e ast.Expr) *types.Var {
	e = ast.Unparen(e)
	fl := fieldOf(m.info, e)
	if fl == nil {
		return nil
	}
	for x := e; ; {
		sel, ok := ast.Unparen(x).(*ast.SelectorExpr)
		if !ok || fieldOf(m.info, sel) == nil {
			return nil
		}
		if namedPath(selRecv(m.info, sel)) == namedPath(m.decoderT) {
			return fl
		}
		// only through struct-valued fields (no pointers to elsewhere, no indexing)
		if _, isStruct := m.info.TypeOf(sel.X).Underlying().(*types.Struct); !isStruct {
			return nil
		}
		x = sel.X
	}
}

func c09FieldOfKind(nt *types.Named, pred func(types.Type) bool) *types.Var {
	if nt == nil {
		return nil
	}
	st, ok := nt.Underlying().(*types.Struct)
	if !ok {
		return nil
	}
	var out *types.Var
	for i := 0; i < st.NumFields(); i++ {
		if pred(st.Field(i).Type()) {
			if out != nil {
				return nil // ambiguous
			}
			out = st.Field(i)
		}
	}
	return out
}

func c09Resolve(r *core.R, m *pbfModel) *c09Fields {
	info := m.info
	f := &c09Fields{}
	f.in, f.out, f.queue = m.pipelineClasses()
	f.inPairT, f.outPairT = c09ChanElem(m.chanField(f.in)), c09ChanElem(m.chanField(f.out))
	f.pairOffsetIn = c09FieldOfKind(f.inPairT, isInt64)
	f.pairOffsetOut = c09FieldOfKind(f.outPairT, isInt64)
	f.blobIn = c09FieldOfKind(f.inPairT, func(t types.Type) bool {
		_, isPtr := t.(*types.Pointer)
		return isPtr && namedPath(t) == core.ModulePath+"/osmpbf/internal/osmpbf.Blob"
	})
	f.objsOut = c09FieldOfKind(f.outPairT, func(t types.Type) bool {
		sl, ok := t.Underlying().(*types.Slice)
		return ok && namedPath(sl.Elem()) == core.ModulePath+".Object"
	})
	if f.pairOffsetIn == nil || f.pairOffsetOut == nil || f.blobIn == nil || f.objsOut == nil {
		r.Anchor("input / output pair types with their offset, blob and objects fields")
		return nil
	}
	isDecField := func(e ast.Expr) *types.Var {
		return c09DecoderField(m, e)
	}
	// counter: written by += (or f = f + ..) in a unit that the reader role runs
	for _, u := range m.sortedUnits() {
		u := u
		m.walkUnit(u, func(n ast.Node) bool {
			switch s := n.(type) {
			case *ast.AssignStmt:
				for _, l := range s.Lhs {
					fl := isDecField(l)
					if fl == nil || !isInt64(fl.Type()) {
						continue
					}
					if s.Tok == token.ADD_ASSIGN && u.roles["reader"] && !u.roles["worker"] && !u.roles["serializer"] {
						f.counter = fl
						if fi := m.funcAt(s.Pos()); fi != nil {
							f.blockReader = fi
						}
					}
				}
			}
			return true
		})
	}
	if f.counter != nil {
		for _, u := range m.sortedUnits() {
			m.walkUnit(u, func(n ast.Node) bool {
				if as, ok := n.(*ast.AssignStmt); ok {
					for _, l := range as.Lhs {
						if isDecField(l) == f.counter {
							f.incs = append(f.incs, as)
						}
					}
				}
				return true
			})
		}
	}
	// current / previous: assignments reached from the consumer's next-object method
	if m.next != nil {
		nu := m.byDecl[m.next.Obj]
		m.deepWalk(nu, func(_ *pbfSite, n ast.Node) bool {
			as, ok := n.(*ast.AssignStmt)
			if !ok || len(as.Lhs) != len(as.Rhs) {
				return true
			}
			for i, l := range as.Lhs {
				lf := isDecField(l)
				if lf == nil || !isInt64(lf.Type()) {
					continue
				}
				if c09AllDefs(m, as.Rhs[i], map[types.Object]bool{}, func(o pbfOrigin) bool {
					return o.kind == "assign" && o.e != nil && fieldOf(info, o.e) == f.pairOffsetOut
				}) {
					f.current = lf
				}
			}
			return true
		})
		m.deepWalk(nu, func(_ *pbfSite, n ast.Node) bool {
			as, ok := n.(*ast.AssignStmt)
			if !ok || len(as.Lhs) != len(as.Rhs) {
				return true
			}
			for i, l := range as.Lhs {
				lf := isDecField(l)
				if lf != nil && lf != f.current && f.current != nil && isDecField(as.Rhs[i]) == f.current {
					f.previous = lf
				}
			}
			return true
		})
	}
	if f.counter == nil || f.blockReader == nil {
		r.Anchor("byte counter field incremented by the block reader")
	}
	if f.current == nil {
		r.Anchor("current-offset field assigned from the received pair in the consumer")
	}
	if f.previous == nil {
		r.Anchor("previous-offset field assigned from the current offset in the consumer")
	}
	if f.counter == nil || f.blockReader == nil || f.current == nil || f.previous == nil {
		return nil
	}
	return f
}

func isInt64(t types.Type) bool {
	b, ok := t.Underlying().(*types.Basic)
	return ok && b.Kind() == types.Int64
}

// sameExprG extends sameExpr with zero-argument getter calls on the same receiver.
func sameExprG(info *types.Info, a, b ast.Expr) bool {
	a, b = stripConv(info, a), stripConv(info, b)
	ca, oka := a.(*ast.CallExpr)
	cb, okb := b.(*ast.CallExpr)
	if oka && okb {
		if len(ca.Args) != 0 || len(cb.Args) != 0 || callee(info, ca) == nil || callee(info, ca) != callee(info, cb) {
			return false
		}
		sa, ok1 := ca.Fun.(*ast.SelectorExpr)
		sb, ok2 := cb.Fun.(*ast.SelectorExpr)
		return ok1 && ok2 && sameExpr(info, sa.X, sb.X)
	}
	return sameExpr(info, a, b)
}
