package rules

import (
	"fmt"
	"go/ast"
	"go/token"
	"go/types"
	"sort"
	"strings"

	"golang.org/x/tools/go/cfg"

	"osmcheck/core"
)

func init() {
	register(&core.Property{
		ID:    "C09",
		Title: "Resuming a PBF scan at the reported byte offset loses no element",
		Explanation: "Structural necessary conditions of the offset bookkeeping, decided on the pipeline model: " +
			"(B1) the byte counter grows, once per successfully read block and only then, by exactly the lengths of the buffers handed to io.ReadFull for that block (the 4-byte size prefix, the header, the blob); " +
			"(B2) the offset attached to a data block is the counter value loaded before that block is read, in the same iteration, and travels with that block's blob; the block read before the loop (a restart on a data block) is dispatched with offset 0; " +
			"(B3) the worker copies the offset of the pair it received into the pair it emits, next to the objects decoded from that pair's blob; " +
			"(B4) when the consumer takes a new block, the previous offset receives the old current offset before the current offset receives the block's offset, and only then; " +
			"(B5) FullyScannedBytes reports the current, PreviousFullyScannedBytes the previous offset; " +
			"(B6) a first block that is not a header is dispatched to the first worker, not dropped, and only a header block is decoded as header. " +
			"NOT decided: the arithmetic value of offsets for concrete files; that a scan started at such an offset decodes the same objects (C01).",
		Assumptions: []string{"go/types, go/cfg (x/tools v0.29.0)", "io.ReadFull reads exactly len(buf) bytes on success"},
		LevelText:   "Structural necessary conditions for 'the reported offset is the start of the block holding the last returned object': provenance of the counter increment, capture-before-read, and unmodified transport of the offset through worker, serializer and consumer, decided on every path of the functions involved.",
		LevelNote:   "Trusts the type checker, go/cfg and io.ReadFull's contract; value-level equality of offsets for concrete files is not decided.",
		Technique:   "type-resolved provenance rules over syntax + CFG dominance (counter increment = sum of read lengths; capture precedes read; field-to-field transport)",
		DesignRef:   "DESIGN.md §5 C09",
		Rules: []*core.Rule{
			{ID: "B1", Floor: 4, Doc: "byte counter increment equals the sum of the lengths read for the block", Run: c09B1},
			{ID: "B2", Floor: 3, Doc: "offset captured before the read of the same iteration and carried with that blob; restart pair at offset 0", Run: c09B2},
			{ID: "B3", Floor: 1, Doc: "worker copies the received offset into the emitted pair", Run: c09B3},
			{ID: "B4", Floor: 2, Doc: "Next shifts previous/current offsets when a new block is taken", Run: c09B4},
			{ID: "B5", Floor: 2, Doc: "accessors return current / previous offset", Run: c09B5},
			{ID: "B6", Floor: 2, Doc: "non-header first block is dispatched; only a header is decoded as header", Run: c09B6},
		},
		Mutants: []core.Mutant{
			{Name: "count-without-prefix", File: "osmpbf/decode.go", Find: "dec.bytesRead += 4 + int64(blobHeaderSize) + int64(blobHeader.GetDatasize())", Replace: "dec.bytesRead += int64(blobHeaderSize) + int64(blobHeader.GetDatasize())", ExpectRule: "B1", ExpectConstruct: "increment"},
			{Name: "count-header-twice", File: "osmpbf/decode.go", Find: "dec.bytesRead += 4 + int64(blobHeaderSize) + int64(blobHeader.GetDatasize())", Replace: "dec.bytesRead += 4 + int64(blobHeaderSize) + int64(blobHeaderSize)", ExpectRule: "B1", ExpectConstruct: "increment"},
			{Name: "count-before-blob-read", File: "osmpbf/decode.go", Find: "\tblobBuf = blobBuf[:blobHeader.GetDatasize()]\n\tblob, err := dec.readBlob(blobBuf)\n\tif err != nil {\n\t\treturn nil, nil, err\n\t}\n\n\tdec.bytesRead += 4 + int64(blobHeaderSize) + int64(blobHeader.GetDatasize())\n", Replace: "\tdec.bytesRead += 4 + int64(blobHeaderSize) + int64(blobHeader.GetDatasize())\n\tblobBuf = blobBuf[:blobHeader.GetDatasize()]\n\tblob, err := dec.readBlob(blobBuf)\n\tif err != nil {\n\t\treturn nil, nil, err\n\t}\n\n", ExpectRule: "B1", ExpectConstruct: "increment"},
			{Name: "sizebuf-8", File: "osmpbf/decode.go", Find: "sizeBuf := make([]byte, 4)", Replace: "sizeBuf := make([]byte, 8)", ExpectRule: "B1", ExpectConstruct: "increment"},
			{Name: "offset-after-read", File: "osmpbf/decode.go", Find: "\t\t\toffset := dec.bytesRead\n\t\t\tblobHeader, blob, err = dec.readFileBlock(sizeBuf, headerBuf, blobBuf)\n", Replace: "\t\t\tblobHeader, blob, err = dec.readFileBlock(sizeBuf, headerBuf, blobBuf)\n\t\t\toffset := dec.bytesRead\n", ExpectRule: "B2", ExpectConstruct: "capture"},
			{Name: "restart-offset-nonzero", File: "osmpbf/decode.go", Find: "dec.inputs[0] <- iPair{Offset: 0, Blob: blob, Err: err}", Replace: "dec.inputs[0] <- iPair{Offset: dec.bytesRead, Blob: blob, Err: err}", ExpectRule: "B2", ExpectConstruct: "restart"},
			{Name: "worker-drops-offset", File: "osmpbf/decode.go", Find: "out = oPair{Offset: p.Offset, Objects: objects, Err: err}", Replace: "out = oPair{Objects: objects, Err: err}", ExpectRule: "B3", ExpectConstruct: "worker"},
			{Name: "next-shift-swapped", File: "osmpbf/decode.go", Find: "\t\tdec.pOffset = dec.cOffset\n\t\tdec.cOffset = cd.Offset\n", Replace: "\t\tdec.cOffset = cd.Offset\n\t\tdec.pOffset = dec.cOffset\n", ExpectRule: "B4", ExpectConstruct: "shift"},
			{Name: "next-shift-on-eof", File: "osmpbf/decode.go", Find: "\t\tcd, ok := <-dec.serializer\n", Replace: "\t\tcd, ok := <-dec.serializer\n\t\tdec.pOffset = dec.cOffset\n", ExpectRule: "B4", ExpectConstruct: "shift"},
			{Name: "accessors-swapped", File: "osmpbf/scanner.go", Find: "func (s *Scanner) FullyScannedBytes() int64 {\n\treturn atomic.LoadInt64(&s.decoder.cOffset)", Replace: "func (s *Scanner) FullyScannedBytes() int64 {\n\treturn atomic.LoadInt64(&s.decoder.pOffset)", ExpectRule: "B5", ExpectConstruct: "FullyScannedBytes"},
			{Name: "accessor-returns-bytesRead", File: "osmpbf/scanner.go", Find: "func (s *Scanner) FullyScannedBytes() int64 {\n\treturn atomic.LoadInt64(&s.decoder.cOffset)", Replace: "func (s *Scanner) FullyScannedBytes() int64 {\n\treturn atomic.LoadInt64(&s.decoder.bytesRead)", ExpectRule: "B5", ExpectConstruct: "FullyScannedBytes"},
			{Name: "restart-block-dropped", File: "osmpbf/decode.go", Find: "\t\t\tdec.inputs[0] <- iPair{Offset: 0, Blob: blob, Err: err}\n\n\t\t\ti = (i + 1) % n\n", Replace: "\t\t\t_ = blob\n", ExpectRule: "B6", ExpectConstruct: "dispatch"},
			{Name: "header-decoded-unconditionally", File: "osmpbf/decode.go", Find: "\tif blobHeader.GetType() == osmHeaderType {\n\t\tvar err error\n\t\tdec.header, err = decodeOSMHeader(blob)\n\t\tif err != nil {\n\t\t\treturn err\n\t\t}\n\t}\n", Replace: "\t{\n\t\tvar err error\n\t\tdec.header, err = decodeOSMHeader(blob)\n\t\tif err != nil {\n\t\t\treturn err\n\t\t}\n\t}\n", ExpectRule: "B6", ExpectConstruct: "header"},
		},
	})
}

// c09Roles resolves the decoder's offset fields by role:
// counter = int64 field incremented in the block reader; current = field assigned from the received pair's offset in Next;
// previous = field assigned from current in Next.
type c09Fields struct {
	counter, current, previous  *types.Var
	blockReader                 *FuncInfo
	pairOffsetIn, pairOffsetOut *types.Var // Offset fields of the input / output pair types
}

func c09Resolve(r *core.R, m *pbfModel) *c09Fields {
	info := m.info
	f := &c09Fields{}
	// block reader: as in C06.E2
	for _, u := range m.sortedUnits() {
		fd, ok := u.node.(*ast.FuncDecl)
		if !ok || !u.roles["reader"] {
			continue
		}
		n := 0
		for _, fn := range u.calls {
			if tu := m.unitOfFunc(fn); tu != nil && m.unitCalls(tu, "io", "ReadFull") {
				n++
			}
		}
		if n >= 2 {
			f.blockReader = findFunc(m.pk, funcName(info.Defs[fd.Name].(*types.Func)))
		}
	}
	if f.blockReader == nil {
		r.Anchor("function that reads one file block")
		return nil
	}
	ast.Inspect(f.blockReader.Decl.Body, func(n ast.Node) bool {
		if as, ok := n.(*ast.AssignStmt); ok && as.Tok == token.ADD_ASSIGN && len(as.Lhs) == 1 {
			if fl := fieldOf(info, as.Lhs[0]); fl != nil && namedPath(selRecv(info, ast.Unparen(as.Lhs[0]))) == namedPath(m.decoderT) {
				f.counter = fl
			}
		}
		return true
	})
	if m.next != nil {
		ast.Inspect(m.next.Decl.Body, func(n ast.Node) bool {
			as, ok := n.(*ast.AssignStmt)
			if !ok || len(as.Lhs) != 1 || len(as.Rhs) != 1 {
				return true
			}
			lf := fieldOf(info, as.Lhs[0])
			rf := fieldOf(info, as.Rhs[0])
			if lf == nil || rf == nil || namedPath(selRecv(info, ast.Unparen(as.Lhs[0]))) != namedPath(m.decoderT) {
				return true
			}
			if namedPath(selRecv(info, ast.Unparen(as.Rhs[0]))) != namedPath(m.decoderT) && isInt64(rf.Type()) && isInt64(lf.Type()) {
				f.current = lf
				f.pairOffsetOut = rf
			}
			return true
		})
		ast.Inspect(m.next.Decl.Body, func(n ast.Node) bool {
			as, ok := n.(*ast.AssignStmt)
			if !ok || len(as.Lhs) != 1 || len(as.Rhs) != 1 {
				return true
			}
			lf := fieldOf(info, as.Lhs[0])
			rf := fieldOf(info, as.Rhs[0])
			if lf != nil && rf != nil && rf == f.current && lf != f.current && namedPath(selRecv(info, ast.Unparen(as.Lhs[0]))) == namedPath(m.decoderT) {
				f.previous = lf
			}
			return true
		})
	}
	if f.counter == nil {
		r.Anchor("byte counter field incremented by the block reader")
	}
	if f.current == nil {
		r.Anchor("current-offset field assigned from the received pair in the consumer")
	}
	if f.previous == nil {
		r.Anchor("previous-offset field assigned from the current offset in the consumer")
	}
	if f.counter == nil || f.current == nil || f.previous == nil {
		return nil
	}
	return f
}

func isInt64(t types.Type) bool {
	b, ok := t.Underlying().(*types.Basic)
	return ok && b.Kind() == types.Int64
}

// sameExprG extends sameExpr with zero-argument getter calls on the same receiver.
func sameExprG(info *types.Info, a, b ast.Expr) bool {
	a, b = stripConv(info, a), stripConv(info, b)
	ca, oka := a.(*ast.CallExpr)
	cb, okb := b.(*ast.CallExpr)
	if oka && okb {
		if len(ca.Args) != 0 || len(cb.Args) != 0 || callee(info, ca) == nil || callee(info, ca) != callee(info, cb) {
			return false
		}
		sa, ok1 := ca.Fun.(*ast.SelectorExpr)
		sb, ok2 := cb.Fun.(*ast.SelectorExpr)
		return ok1 && ok2 && sameExpr(info, sa.X, sb.X)
	}
	return sameExpr(info, a, b)
}

func c09B1(r *core.R) {
	m := modelOrAnchor(r)
	if m == nil {
		return
	}
	f := c09Resolve(r, m)
	if f == nil {
		return
	}
	info := m.info
	br := f.blockReader
	// the reads: calls to helpers that io.ReadFull into their buffer parameter; record the buffer argument expression
	type read struct {
		call *ast.CallExpr
		arg  ast.Expr
		fn   *types.Func
	}
	var reads []read
	ast.Inspect(br.Decl.Body, func(n ast.Node) bool {
		call, ok := n.(*ast.CallExpr)
		if !ok {
			return true
		}
		fn := callee(info, call)
		if fn == nil || fn.Pkg() != m.pk.Types {
			return true
		}
		tf := findFunc(m.pk, funcName(fn))
		if tf == nil || !m.unitCalls(m.unitOfFunc(fn), "io", "ReadFull") {
			return true
		}
		// helper reads fully into its (single) []byte parameter
		var bufParam types.Object
		for _, fld := range tf.Decl.Type.Params.List {
			for _, nm := range fld.Names {
				if sl, ok := info.Defs[nm].Type().Underlying().(*types.Slice); ok && types.Identical(sl.Elem(), types.Typ[types.Byte]) {
					bufParam = info.Defs[nm]
				}
			}
		}
		okFull := false
		ast.Inspect(tf.Decl.Body, func(x ast.Node) bool {
			if c2, ok := x.(*ast.CallExpr); ok && isPkgFunc(callee(info, c2), "io", "ReadFull") && len(c2.Args) == 2 && objOf(info, c2.Args[1]) == bufParam && bufParam != nil {
				okFull = true
			}
			return true
		})
		c := "read@" + br.Name() + " " + fn.Name()
		if !okFull || len(call.Args) != 1 {
			r.Bad(c, call.Pos(), "%s does not io.ReadFull exactly the buffer it is given: the number of bytes consumed for this part is not the buffer length the counter accounts for", fn.Name())
			return true
		}
		r.OK(c, call.Pos(), "%s(buf) consumes exactly len(%s) bytes on success (io.ReadFull into its parameter)", fn.Name(), src(r.P.Fset, call.Args[0]))
		reads = append(reads, read{call, call.Args[0], fn})
		return true
	})
	// length expression of each buffer at its read
	g := newCFG(info, br.Decl.Body)
	dom := dominators(g)
	var wantConst int64
	var wantTerms []ast.Expr
	okLens := true
	for _, rd := range reads {
		bo := objOf(info, rd.arg)
		if bo == nil {
			okLens = false
			continue
		}
		// last re-slice `b = b[:n]` before the call
		var hi ast.Expr
		ast.Inspect(br.Decl.Body, func(n ast.Node) bool {
			as, ok := n.(*ast.AssignStmt)
			if !ok || len(as.Lhs) != 1 || objOf(info, as.Lhs[0]) != bo || as.Pos() > rd.call.Pos() {
				return true
			}
			if se, ok := ast.Unparen(as.Rhs[0]).(*ast.SliceExpr); ok && objOf(info, se.X) == bo && se.Low == nil && se.High != nil {
				hi = se.High
			}
			return true
		})
		if hi != nil {
			wantTerms = append(wantTerms, hi)
			continue
		}
		// not re-sliced: its length is the constant of its make at the (single) call site of the block reader
		k, ok := c09ParamMakeLen(m, br, bo)
		if !ok {
			okLens = false
			continue
		}
		wantConst += k
	}
	// the increment
	var inc *ast.AssignStmt
	ninc := 0
	for _, u := range m.sortedUnits() {
		m.walkUnit(u, func(n ast.Node) bool {
			switch s := n.(type) {
			case *ast.AssignStmt:
				for _, l := range s.Lhs {
					if fieldOf(info, l) == f.counter {
						ninc++
						if s.Tok == token.ADD_ASSIGN && u.fi.Obj == br.Obj {
							inc = s
						}
					}
				}
			case *ast.IncDecStmt:
				if fieldOf(info, s.X) == f.counter {
					ninc++
				}
			}
			return true
		})
	}
	c := "increment@" + br.Name() + " " + f.counter.Name()
	if inc == nil || ninc != 1 {
		r.Bad(c, br.Decl.Pos(), "the byte counter %s is written at %d sites; exactly one `+=` in the block reader is required", f.counter.Name(), ninc)
		return
	}
	if !okLens || len(reads) < 2 {
		r.Unknown(c, inc.Pos(), "could not derive the length of every buffer read for a block")
		return
	}
	// terms of the RHS
	var gotConst int64
	var gotTerms []ast.Expr
	var split func(e ast.Expr) bool
	split = func(e ast.Expr) bool {
		e = stripConv(info, e)
		if be, ok := e.(*ast.BinaryExpr); ok {
			if be.Op != token.ADD {
				return false
			}
			return split(be.X) && split(be.Y)
		}
		if v, ok := constInt(info, e); ok {
			gotConst += v
			return true
		}
		gotTerms = append(gotTerms, e)
		return true
	}
	if !split(inc.Rhs[0]) {
		r.Unknown(c, inc.Pos(), "increment `%s` is not a sum", src(r.P.Fset, inc))
		return
	}
	match := gotConst == wantConst && len(gotTerms) == len(wantTerms)
	used := make([]bool, len(wantTerms))
	for _, gt := range gotTerms {
		found := false
		for i, wt := range wantTerms {
			if !used[i] && sameExprG(info, gt, wt) {
				used[i], found = true, true
				break
			}
		}
		if !found {
			match = false
		}
	}
	// after all reads, on the success path
	after := true
	for _, rd := range reads {
		if !posDominates(g, dom, rd.call.Pos(), inc.Pos()) {
			after = false
		}
	}
	// success path: dominated by the false edge of each read's error test -> approximated by: no return between last read and inc except in error ifs; checked via dominance of inc over the success return
	okRet := false
	ast.Inspect(br.Decl.Body, func(n ast.Node) bool {
		if ret, ok := n.(*ast.ReturnStmt); ok {
			last := ret.Results[len(ret.Results)-1]
			if id, ok := ast.Unparen(last).(*ast.Ident); ok && id.Name == "nil" {
				if posDominates(g, dom, inc.Pos(), ret.Pos()) {
					okRet = true
				} else {
					okRet = false
				}
			}
		}
		return true
	})
	var want []string
	for _, wt := range wantTerms {
		want = append(want, src(r.P.Fset, wt))
	}
	sort.Strings(want)
	switch {
	case !match:
		r.Bad(c, inc.Pos(), "`%s` does not add exactly the bytes read for the block: expected %d + %s (the lengths of the buffers handed to io.ReadFull); a wrong count makes every later reported offset point into the middle of a block", src(r.P.Fset, inc), wantConst, strings.Join(want, " + "))
	case !after:
		r.Bad(c, inc.Pos(), "the counter is increased before all three reads of the block have succeeded: a failed read would leave it pointing past the last complete block")
	case !okRet:
		r.Bad(c, inc.Pos(), "the increment does not dominate the success return of %s", br.Name())
	default:
		r.OK(c, inc.Pos(), "`%s` = %d (len of the size buffer, fixed by its make) + %s, after all %d reads succeeded, once per block", src(r.P.Fset, inc), wantConst, strings.Join(want, " + "), len(reads))
	}
}

// c09ParamMakeLen: parameter po of fi is bound at every call site to a local made with a constant length.
func c09ParamMakeLen(m *pbfModel, fi *FuncInfo, po types.Object) (int64, bool) {
	info := m.info
	idx := -1
	pi := 0
	for _, fld := range fi.Decl.Type.Params.List {
		for _, nm := range fld.Names {
			if info.Defs[nm] == po {
				idx = pi
			}
			pi++
		}
	}
	if idx < 0 {
		return 0, false
	}
	var k int64 = -1
	ok := true
	for _, u := range m.sortedUnits() {
		m.walkUnit(u, func(n ast.Node) bool {
			call, isCall := n.(*ast.CallExpr)
			if !isCall || callee(info, call) != fi.Obj || idx >= len(call.Args) {
				return true
			}
			ao := objOf(info, call.Args[idx])
			found := false
			ast.Inspect(m.start.Decl.Body, func(x ast.Node) bool {
				as, isAs := x.(*ast.AssignStmt)
				if !isAs || len(as.Lhs) != 1 || objOf(info, as.Lhs[0]) != ao {
					return true
				}
				if mk, isMk := as.Rhs[0].(*ast.CallExpr); isMk && builtinName(info, mk) == "make" && len(mk.Args) == 2 {
					if v, okc := constInt(info, mk.Args[1]); okc {
						if k >= 0 && k != v {
							ok = false
						}
						k = v
						found = true
					}
				}
				return true
			})
			if !found {
				ok = false
			}
			return true
		})
	}
	return k, ok && k >= 0
}

func c09B2(r *core.R) {
	m := modelOrAnchor(r)
	if m == nil {
		return
	}
	f := c09Resolve(r, m)
	if f == nil {
		return
	}
	info := m.info
	rd := m.goOf("reader")
	ru := m.units[rd.lit]
	var loop *ast.ForStmt
	for _, st := range rd.lit.Body.List {
		if fs, ok := st.(*ast.ForStmt); ok {
			loop = fs
		}
	}
	if loop == nil {
		r.Anchor("reader loop")
		return
	}
	// the read call of the iteration
	var readCall *ast.CallExpr
	var blobVar types.Object
	var readStmt ast.Stmt
	for _, st := range loop.Body.List {
		if as, ok := st.(*ast.AssignStmt); ok && len(as.Rhs) == 1 {
			if call, ok := as.Rhs[0].(*ast.CallExpr); ok && callee(info, call) == f.blockReader.Obj && len(as.Lhs) == 3 {
				readCall, readStmt = call, st
				blobVar = objOf(info, as.Lhs[1])
			}
		}
	}
	if readCall == nil {
		r.Anchor("block read at the top level of the reader loop")
		return
	}
	// data pair literal: the one with a Blob key
	var captureVar types.Object
	var lit *ast.CompositeLit
	ast.Inspect(loop.Body, func(n ast.Node) bool {
		cl, ok := n.(*ast.CompositeLit)
		if !ok {
			return true
		}
		hasBlob := false
		for _, e := range cl.Elts {
			if kv, ok := e.(*ast.KeyValueExpr); ok {
				if id, ok := kv.Key.(*ast.Ident); ok && id.Name == "Blob" {
					hasBlob = true
				}
			}
		}
		if hasBlob {
			lit = cl
		}
		return true
	})
	c := "capture@" + ru.name
	if lit == nil {
		r.Bad(c, loop.Pos(), "no data pair carrying the blob is built in the reader loop")
		return
	}
	okBlob := false
	for _, e := range lit.Elts {
		kv := e.(*ast.KeyValueExpr)
		switch kv.Key.(*ast.Ident).Name {
		case "Offset":
			captureVar = objOf(info, kv.Value)
		case "Blob":
			okBlob = objOf(info, kv.Value) == blobVar && blobVar != nil
		}
	}
	if captureVar == nil {
		r.Bad(c, lit.Pos(), "the data pair `%s` has no Offset taken from a captured counter value: blocks would all report offset 0", src(r.P.Fset, lit))
		return
	}
	// single assignment of captureVar at top level of the loop body, from the counter field, before the read
	var capStmt ast.Stmt
	nAssign := 0
	ast.Inspect(loop.Body, func(n ast.Node) bool {
		if as, ok := n.(*ast.AssignStmt); ok {
			for i, l := range as.Lhs {
				if objOf(info, l) == captureVar {
					nAssign++
					if i < len(as.Rhs) && fieldOf(info, as.Rhs[i]) == f.counter {
						capStmt = as
					}
				}
			}
		}
		return true
	})
	top := false
	for _, st := range loop.Body.List {
		if st == capStmt {
			top = true
		}
	}
	switch {
	case capStmt == nil || nAssign != 1:
		r.Bad(c, lit.Pos(), "the Offset of a data pair (`%s`) is not a single load of the byte counter %s", captureVar.Name(), f.counter.Name())
	case !top || capStmt.Pos() > readStmt.Pos():
		r.Bad(c, capStmt.Pos(), "the counter is captured after the block has been read: the pair would carry the offset of the NEXT block, so resuming there skips this block's objects")
	case !okBlob:
		r.Bad(c, lit.Pos(), "the pair does not carry the blob returned by this iteration's read")
	default:
		r.OK(c, capStmt.Pos(), "`%s` loads %s before `%s` in the same iteration; the pair {Offset: %s, Blob: %s} carries both", src(r.P.Fset, capStmt), f.counter.Name(), src(r.P.Fset, readCall), captureVar.Name(), blobVar.Name())
	}
	// no other writer of the counter between capture and read: the block reader is the only writer (B1) and runs in this goroutine
	r.OKTrivial("single-writer@"+f.counter.Name(), f.counter.Pos(), "the counter is written only by the block reader (B1), which after spawning runs only in the reader goroutine (C07.P4)")
	// restart pair
	c = "restart@" + ru.name
	found := false
	ast.Inspect(rd.lit.Body, func(n ast.Node) bool {
		snd, ok := n.(*ast.SendStmt)
		if !ok || snd.Pos() > loop.Pos() {
			return true
		}
		cl, ok := snd.Value.(*ast.CompositeLit)
		if !ok {
			return true
		}
		found = true
		zero := false
		for _, e := range cl.Elts {
			if kv, ok := e.(*ast.KeyValueExpr); ok {
				if id, ok := kv.Key.(*ast.Ident); ok && id.Name == "Offset" {
					if v, ok := constInt(info, kv.Value); ok && v == 0 {
						zero = true
					}
				}
			}
		}
		hasOffset := false
		for _, e := range cl.Elts {
			if kv, ok := e.(*ast.KeyValueExpr); ok {
				if id, ok := kv.Key.(*ast.Ident); ok && id.Name == "Offset" {
					hasOffset = true
				}
			}
		}
		if zero || !hasOffset {
			r.OK(c, snd.Pos(), "the block read before the loop is dispatched with offset 0 (relative to where the reader started)")
		} else {
			r.Bad(c, snd.Pos(), "`%s`: the first block of a resumed scan starts at offset 0 relative to the reader's start; any other value shifts every resume point", src(r.P.Fset, cl))
		}
		return true
	})
	if !found {
		r.Bad(c, rd.lit.Pos(), "no dispatch of the block read before the loop")
	}
}

func c09B3(r *core.R) {
	m := modelOrAnchor(r)
	if m == nil {
		return
	}
	info := m.info
	wg := m.goOf("worker")
	wu := m.units[wg.lit]
	var loop *ast.RangeStmt
	for _, st := range wg.lit.Body.List {
		if rs, ok := st.(*ast.RangeStmt); ok {
			loop = rs
		}
	}
	if loop == nil || loop.Key == nil {
		r.Anchor("worker range loop")
		return
	}
	p := objOf(info, loop.Key)
	c := "transport@" + wu.name
	// literal with Objects key
	var lit *ast.CompositeLit
	ast.Inspect(loop.Body, func(n ast.Node) bool {
		if cl, ok := n.(*ast.CompositeLit); ok {
			for _, e := range cl.Elts {
				if kv, ok := e.(*ast.KeyValueExpr); ok {
					if id, ok := kv.Key.(*ast.Ident); ok && id.Name == "Objects" {
						lit = cl
					}
				}
			}
		}
		return true
	})
	if lit == nil {
		r.Bad(c, loop.Pos(), "the worker builds no pair carrying decoded objects")
		return
	}
	okOff, okObj := false, false
	var objVar types.Object
	for _, e := range lit.Elts {
		kv := e.(*ast.KeyValueExpr)
		switch kv.Key.(*ast.Ident).Name {
		case "Offset":
			if fl := fieldOf(info, kv.Value); fl != nil && fl.Name() == "Offset" && rootObj(info, kv.Value) == p {
				okOff = true
			}
		case "Objects":
			objVar = objOf(info, kv.Value)
		}
	}
	// objects come from decoding p.Blob
	ast.Inspect(loop.Body, func(n ast.Node) bool {
		as, ok := n.(*ast.AssignStmt)
		if !ok || len(as.Rhs) != 1 || len(as.Lhs) < 1 || objOf(info, as.Lhs[0]) != objVar || objVar == nil {
			return true
		}
		if call, ok := as.Rhs[0].(*ast.CallExpr); ok && len(call.Args) == 1 {
			if fl := fieldOf(info, call.Args[0]); fl != nil && fl.Name() == "Blob" && rootObj(info, call.Args[0]) == p {
				okObj = true
			}
		}
		return true
	})
	switch {
	case !okOff:
		r.Bad(c, lit.Pos(), "`%s` does not copy the Offset of the pair it received: the consumer would report a wrong (zero) position for this block", src(r.P.Fset, lit))
	case !okObj:
		r.Bad(c, lit.Pos(), "the objects in the emitted pair are not the decoding of the received pair's blob")
	default:
		r.OK(c, lit.Pos(), "the emitted pair carries %s.Offset together with the objects decoded from %s.Blob", p.Name(), p.Name())
	}
}

func c09B4(r *core.R) {
	m := modelOrAnchor(r)
	if m == nil {
		return
	}
	f := c09Resolve(r, m)
	if f == nil || m.next == nil {
		return
	}
	info := m.info
	nx := m.next
	g := newCFG(info, nx.Decl.Body)
	dom := dominators(g)
	// statements
	var prevAs, curAs *ast.AssignStmt
	nPrev, nCur := 0, 0
	var recvVar types.Object
	var recvPos token.Pos
	ast.Inspect(nx.Decl.Body, func(n ast.Node) bool {
		as, ok := n.(*ast.AssignStmt)
		if !ok {
			return true
		}
		for i, l := range as.Lhs {
			switch fieldOf(info, l) {
			case f.previous:
				nPrev++
				if i < len(as.Rhs) && fieldOf(info, as.Rhs[i]) == f.current {
					prevAs = as
				}
			case f.current:
				nCur++
				if i < len(as.Rhs) && fieldOf(info, as.Rhs[i]) == f.pairOffsetOut {
					curAs = as
					recvVar = rootObj(info, as.Rhs[i])
				}
			}
		}
		if len(as.Rhs) == 1 {
			if ue, ok := ast.Unparen(as.Rhs[0]).(*ast.UnaryExpr); ok && ue.Op == token.ARROW {
				recvPos = as.Pos()
				if recvVar == nil {
					recvVar = objOf(info, as.Lhs[0])
				}
			}
		}
		return true
	})
	c := "shift@" + nx.Name()
	if prevAs == nil || curAs == nil || nPrev != 1 || nCur != 1 {
		r.Bad(c, nx.Decl.Pos(), "the consumer must contain exactly one `previous = current` and one `current = pair.Offset` (found %d writes of %s, %d of %s)", nPrev, f.previous.Name(), nCur, f.current.Name())
		return
	}
	pb, pi := blockOf(g, prevAs.Pos())
	cb, ci := blockOf(g, curAs.Pos())
	if pb != cb || pi >= ci {
		r.Bad(c, prevAs.Pos(), "`%s` must execute immediately before `%s` on the same path: otherwise the previous offset is overwritten with the new block's offset (or not updated at all)", src(r.P.Fset, prevAs), src(r.P.Fset, curAs))
	} else {
		r.OK(c, prevAs.Pos(), "`%s` precedes `%s` in the same basic block", src(r.P.Fset, prevAs), src(r.P.Fset, curAs))
	}
	// only when a new block is taken: dominated by the receive and by the false edge of the closed/EOF test; the received pair becomes the current block in the same block
	c = "shift-only-on-new-block@" + nx.Name()
	okRecv := recvPos.IsValid() && posDominates(g, dom, recvPos, prevAs.Pos()) && rootObj(info, curAs.Rhs[0]) == recvVar
	// the block containing the shift must not be reachable from the `!ok`-true edge
	okGuard := false
	for _, b := range g.Blocks {
		if !b.Live || len(b.Succs) != 2 || !dom[pb][b] || b == pb {
			continue
		}
		cond := lastExpr(b)
		if cond == nil {
			continue
		}
		mentionsOK := false
		ast.Inspect(cond, func(n ast.Node) bool {
			if ue, ok := n.(*ast.UnaryExpr); ok && ue.Op == token.NOT {
				if o := objOf(info, ue.X); o != nil && o.Type() == types.Typ[types.Bool] {
					mentionsOK = true
				}
			}
			return true
		})
		tr := reachableFrom([]*cfg.Block{b.Succs[0]}, func(x *cfg.Block) bool { return x == b })
		if mentionsOK && !tr[pb] {
			okGuard = true
		}
	}
	// cData assigned the same pair in the same block
	okStore := false
	for _, n := range pb.Nodes {
		if as, ok := n.(*ast.AssignStmt); ok && len(as.Lhs) == 1 && len(as.Rhs) == 1 && objOf(info, as.Rhs[0]) == recvVar && recvVar != nil {
			if fl := fieldOf(info, as.Lhs[0]); fl != nil && namedPath(selRecv(info, ast.Unparen(as.Lhs[0]))) == namedPath(m.decoderT) {
				okStore = true
			}
		}
	}
	if okRecv && okGuard && okStore {
		r.OK(c, curAs.Pos(), "the shift is dominated by the receive of the pair, excluded from the closed/EOF edge, and the same pair becomes the current block in that basic block")
	} else {
		r.Bad(c, curAs.Pos(), "the offsets are shifted on a path where no new block is taken (after receive: %v, not on the closed/EOF edge: %v, pair stored as current block: %v): the reported offsets would move without an object of that block having been returned", okRecv, okGuard, okStore)
	}
}

func c09B5(r *core.R) {
	m := modelOrAnchor(r)
	if m == nil {
		return
	}
	f := c09Resolve(r, m)
	if f == nil {
		return
	}
	info := m.info
	for _, spec := range []struct {
		name string
		want *types.Var
		what string
	}{{"(*Scanner).FullyScannedBytes", f.current, "current"}, {"(*Scanner).PreviousFullyScannedBytes", f.previous, "previous"}} {
		fi := findFunc(m.pk, spec.name)
		c := "accessor@" + spec.name
		if fi == nil {
			r.Anchor(spec.name)
			continue
		}
		var got []*types.Var
		ast.Inspect(fi.Decl.Body, func(n ast.Node) bool {
			ret, ok := n.(*ast.ReturnStmt)
			if !ok || len(ret.Results) != 1 {
				return true
			}
			ast.Inspect(ret.Results[0], func(x ast.Node) bool {
				if sel, ok := x.(*ast.SelectorExpr); ok {
					if s := info.Selections[sel]; s != nil && s.Kind() == types.FieldVal && namedPath(s.Recv()) == namedPath(m.decoderT) {
						got = append(got, s.Obj().(*types.Var))
					}
				}
				return true
			})
			return true
		})
		if len(got) == 1 && got[0] == spec.want {
			r.OK(c, fi.Decl.Pos(), "returns the %s offset field %s", spec.what, spec.want.Name())
		} else {
			var names []string
			for _, v := range got {
				names = append(names, v.Name())
			}
			r.Bad(c, fi.Decl.Pos(), "returns %v; it must return the %s offset (%s), the field %s", names, spec.what, spec.want.Name(), map[string]string{"current": "assigned from the block the last object came from", "previous": "holding the value that was current during the preceding block"}[spec.what])
		}
	}
}

func c09B6(r *core.R) {
	m := modelOrAnchor(r)
	if m == nil {
		return
	}
	f := c09Resolve(r, m)
	if f == nil {
		return
	}
	info := m.info
	// pre-spawn read in the spawner
	var firstBlob, firstHdr types.Object
	for _, st := range m.start.Decl.Body.List {
		if as, ok := st.(*ast.AssignStmt); ok && len(as.Rhs) == 1 && len(as.Lhs) == 3 {
			if call, ok := as.Rhs[0].(*ast.CallExpr); ok && callee(info, call) == f.blockReader.Obj {
				firstHdr, firstBlob = objOf(info, as.Lhs[0]), objOf(info, as.Lhs[1])
			}
		}
	}
	if firstBlob == nil {
		r.Anchor("synchronous read of the first block in the spawner")
		return
	}
	isTypeTest := func(cond ast.Expr, op token.Token) bool {
		be, ok := ast.Unparen(cond).(*ast.BinaryExpr)
		if !ok || be.Op != op {
			return false
		}
		call, ok := ast.Unparen(be.X).(*ast.CallExpr)
		if !ok {
			return false
		}
		fn := callee(info, call)
		if fn == nil || fn.Name() != "GetType" || rootObj(info, call.Fun.(*ast.SelectorExpr).X) != firstHdr {
			return false
		}
		s, ok := constString(info, be.Y)
		return ok && s == "OSMHeader"
	}
	// header decoded only for a header block
	c := "header-only-if-header@" + m.start.Name()
	var hdrCall *ast.CallExpr
	ast.Inspect(m.start.Decl.Body, func(n ast.Node) bool {
		if call, ok := n.(*ast.CallExpr); ok {
			if fn := callee(info, call); fn != nil && fn.Pkg() == m.pk.Types && fn.Type().(*types.Signature).Results().Len() == 2 &&
				namedPath(fn.Type().(*types.Signature).Results().At(0).Type()) == core.ModulePath+"/osmpbf.Header" {
				hdrCall = call
			}
		}
		return true
	})
	if hdrCall == nil {
		r.Anchor("header decoding call in the spawner")
	} else {
		par := parentsOf(r.P, m.start)
		ok := false
		for p := par[hdrCall]; p != nil; p = par[p] {
			if ifs, isIf := p.(*ast.IfStmt); isIf && isTypeTest(ifs.Cond, token.EQL) && hdrCall.Pos() > ifs.Body.Pos() && hdrCall.End() < ifs.Body.End() {
				ok = true
			}
		}
		r.Check(ok && len(hdrCall.Args) == 1 && objOf(info, hdrCall.Args[0]) == firstBlob, c, hdrCall.Pos(),
			"the first block is decoded as a header only under `GetType() == \"OSMHeader\"`",
			"the first block is decoded as a header without testing its type: a scan resumed at a data block fails or misreads it")
	}
	// dispatch of a non-header first block
	rd := m.goOf("reader")
	c = "dispatch-first-data-block@" + m.units[rd.lit].name
	found := false
	ast.Inspect(rd.lit.Body, func(n ast.Node) bool {
		ifs, ok := n.(*ast.IfStmt)
		if !ok || !isTypeTest(ifs.Cond, token.NEQ) {
			return true
		}
		ast.Inspect(ifs.Body, func(x ast.Node) bool {
			snd, ok := x.(*ast.SendStmt)
			if !ok {
				return true
			}
			if cl, ok := snd.Value.(*ast.CompositeLit); ok {
				for _, e := range cl.Elts {
					if kv, ok := e.(*ast.KeyValueExpr); ok {
						if id, ok := kv.Key.(*ast.Ident); ok && id.Name == "Blob" && objOf(info, kv.Value) == firstBlob {
							found = true
						}
					}
				}
			}
			return true
		})
		return true
	})
	r.Check(found, c, rd.lit.Pos(), "when the first block is not a header its blob is sent to the workers before the loop starts",
		fmt.Sprintf("a first block that is not a header is not dispatched (no send of a pair carrying `%s` under `GetType() != \"OSMHeader\"`): resuming at a data block loses that block's objects", firstBlob.Name()))
}
