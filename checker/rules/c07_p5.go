package rules

import (
	"fmt"
	"go/ast"
	"go/token"
	"go/types"
	"sort"
	"strings"

	"osmcheck/core"
)

// ---------------------------------------------------------------- P5

type fieldAccess struct {
	f      *types.Var
	u      *unit
	write  bool
	atomic bool
	method string // method called on the field (sync primitives)
	pos    token.Pos
}

// fieldAccesses collects accesses to fields of the given struct types in package pk's units.
func (m *pbfModel) fieldAccesses(owners map[string]bool) []fieldAccess {
	var out []fieldAccess
	for _, u := range m.sortedUnits() {
		u := u
		par := parentsOf(m.p, u.fi)
		m.walkUnit(u, func(n ast.Node) bool {
			sel, ok := n.(*ast.SelectorExpr)
			if !ok {
				return true
			}
			s := m.info.Selections[sel]
			if s == nil || s.Kind() != types.FieldVal {
				return true
			}
			if !owners[namedPath(s.Recv())] {
				return true
			}
			f := s.Obj().(*types.Var)
			fa := fieldAccess{f: f, u: u, pos: sel.Pos()}
			// climb to the top of the access path
			var top ast.Node = sel
			for {
				p := par[top]
				if ps, ok := p.(*ast.SelectorExpr); ok && ps.X == top {
					if ms := m.info.Selections[ps]; ms != nil && ms.Kind() == types.MethodVal {
						fa.method = ms.Obj().Name()
						break
					}
					top = ps
					continue
				}
				if pi, ok := p.(*ast.IndexExpr); ok && pi.X == top {
					top = pi
					continue
				}
				if pp, ok := p.(*ast.ParenExpr); ok {
					top = pp
					continue
				}
				break
			}
			switch p := par[top].(type) {
			case *ast.AssignStmt:
				for _, l := range p.Lhs {
					if l == top {
						fa.write = true
					}
				}
			case *ast.IncDecStmt:
				fa.write = true
			case *ast.UnaryExpr:
				if p.Op == token.AND {
					if call, ok := par[p].(*ast.CallExpr); ok {
						if fn := callee(m.info, call); fn != nil && fn.Pkg() != nil && fn.Pkg().Path() == "sync/atomic" {
							fa.atomic = true
							if strings.HasPrefix(fn.Name(), "Store") || strings.HasPrefix(fn.Name(), "Add") || strings.HasPrefix(fn.Name(), "Swap") || strings.HasPrefix(fn.Name(), "CompareAndSwap") {
								fa.write = true
							}
						} else {
							fa.write = true            // address escapes: treat as write
							fa.method = pbfSyncAddr(f) // (the address of a sync primitive is how it is shared: not a copy)
						}
					} else {
						fa.write = true
						fa.method = pbfSyncAddr(f)
					}
				}
			}
			out = append(out, fa)
			return true
		})
	}
	return out
}

func c07P5(r *core.R) {
	m := modelOrAnchor(r)
	if m == nil {
		return
	}
	pbfRoleSeparation(r, m, false)
}

// pbfRoleSeparation is the per-field role analysis shared by C07.P5 and C02.Q5. With skipDone the accesses that are
// control-dependent on a `<-ctx.Done()` case are ignored (C02 quantifies over schedules of an uncancelled scan).
func pbfRoleSeparation(r *core.R, m *pbfModel, skipDone bool) {
	owners := map[string]bool{namedPath(m.decoderT): true, namedPath(m.scannerT): true}
	acc := m.fieldAccesses(owners)
	if skipDone {
		var kept []fieldAccess
		for _, a := range acc {
			if !m.underDoneCase(a) {
				kept = append(kept, a)
			}
		}
		acc = kept
	}
	r.Stat("field_accesses", len(acc))
	// consumer units reachable without passing the spawner (i.e. possibly concurrent with the goroutines)
	noStart := map[*unit]bool{}
	var rec func(u *unit)
	rec = func(u *unit) {
		if u == nil || noStart[u] || u.node == m.start.Decl {
			return
		}
		noStart[u] = true
		for _, fn := range u.calls {
			rec(m.unitOfFunc(fn))
		}
	}
	for _, u := range m.units {
		if fd, ok := u.node.(*ast.FuncDecl); ok && u.roles["consumer"] {
			if obj, _ := m.info.Defs[fd.Name].(*types.Func); obj != nil && obj.Exported() {
				rec(u)
			}
		}
	}
	startU := m.units[m.start.Decl]
	par := parentsOf(r.P, m.start)
	// role instances of an access: goroutine roles plus "consumer" (concurrent) or "init" (spawner body / reached only via spawner)
	type inst struct {
		role string
		pos  token.Pos // for init: position in the spawner
	}
	// positions in the spawner from which a unit is reached
	initSites := map[*unit][]token.Pos{}
	m.walkUnit(startU, func(x ast.Node) bool {
		if call, ok := x.(*ast.CallExpr); ok {
			if _, isGo := m.goCalls[call]; isGo {
				return true // the callee of `go f(args)` runs in its goroutine role, not in the spawner
			}
			if fn := callee(m.info, call); fn != nil && fn.Pkg() == m.pk.Types {
				seen := map[*unit]bool{}
				var mark func(u *unit)
				mark = func(u *unit) {
					if u == nil || seen[u] {
						return
					}
					seen[u] = true
					initSites[u] = append(initSites[u], call.Pos())
					for _, f2 := range u.calls {
						mark(m.unitOfFunc(f2))
					}
				}
				mark(m.unitOfFunc(fn))
			}
		}
		return true
	})
	instances := func(a fieldAccess) []inst {
		var out []inst
		for _, role := range []string{"worker", "reader", "serializer"} {
			if a.u.roles[role] {
				out = append(out, inst{role: role})
			}
		}
		if a.u.roles["consumer"] {
			if a.u == startU {
				out = append(out, inst{role: "init", pos: a.pos})
			} else {
				if noStart[a.u] {
					out = append(out, inst{role: "consumer"})
				}
				for _, p := range initSites[a.u] {
					out = append(out, inst{role: "init", pos: p})
				}
			}
		}
		return out
	}
	// init access at pos happens-before role's goroutine iff pos precedes its go statement and no loop encloses both
	preSpawn := func(pos token.Pos, role string) bool {
		for _, g := range m.gos {
			if g.role != role {
				continue
			}
			if pos >= g.rootPos {
				return false
			}
			if g.loopStmt != nil && g.loopStmt.Pos() <= pos && pos <= g.loopStmt.End() {
				return false
			}
		}
		_ = par
		return true
	}
	byField := map[*types.Var][]fieldAccess{}
	var fields []*types.Var
	for _, a := range acc {
		if _, ok := byField[a.f]; !ok {
			fields = append(fields, a.f)
		}
		byField[a.f] = append(byField[a.f], a)
	}
	// also list fields never accessed (for completeness of the table)
	for _, nt := range []*types.Named{m.decoderT, m.scannerT} {
		st := nt.Underlying().(*types.Struct)
		for i := 0; i < st.NumFields(); i++ {
			if _, ok := byField[st.Field(i)]; !ok {
				fields = append(fields, st.Field(i))
			}
		}
	}
	sort.Slice(fields, func(i, j int) bool { return fields[i].Pos() < fields[j].Pos() })
	for _, f := range fields {
		owner := "decoder"
		if stS := m.scannerT.Underlying().(*types.Struct); func() bool {
			for i := 0; i < stS.NumFields(); i++ {
				if stS.Field(i) == f {
					return true
				}
			}
			return false
		}() {
			owner = "Scanner"
		}
		c := "field " + owner + "." + f.Name()
		as := byField[f]
		if len(as) == 0 {
			r.OKTrivial(c, f.Pos(), "never accessed through a selector after construction")
			continue
		}
		if tp := namedPath(f.Type()); tp == "sync.WaitGroup" || tp == "sync.Mutex" || tp == "sync.RWMutex" || tp == "sync.Once" {
			// must not be assigned as a whole
			w := false
			for _, a := range as {
				if a.write && a.method == "" {
					w = true
				}
			}
			if w {
				r.Bad(c, f.Pos(), "sync primitive is copied or overwritten")
			} else {
				r.OKTrivial(c, f.Pos(), "sync primitive (%s), used only through its methods", tp)
			}
			continue
		}
		type ri struct {
			a fieldAccess
			i inst
		}
		var all []ri
		roles := map[string]bool{}
		nw := 0
		for _, a := range as {
			if a.write {
				nw++
			}
			for _, i := range instances(a) {
				all = append(all, ri{a, i})
				roles[i.role] = true
			}
		}
		var rl []string
		for k := range roles {
			rl = append(rl, k)
		}
		sort.Strings(rl)
		if nw == 0 {
			r.OKTrivial(c, f.Pos(), "read-only after construction (roles %v)", rl)
			continue
		}
		conflict := ""
		var cpos token.Pos
		for i := 0; i < len(all) && conflict == ""; i++ {
			for j := 0; j < len(all); j++ {
				x, y := all[i], all[j]
				if !x.a.write {
					continue
				}
				if x.a.atomic && y.a.atomic {
					continue
				}
				same := x.i.role == y.i.role
				if same && x.i.role != "worker" {
					continue // one goroutine per role (consumer: the caller's goroutine)
				}
				if same && x.i.role == "worker" && i == j {
					// several workers run the same code concurrently
					conflict = fmt.Sprintf("written at %s by the worker role, of which several instances run concurrently", r.P.Rel(x.a.pos))
					cpos = x.a.pos
					break
				}
				if same {
					continue
				}
				// init vs goroutine role: ordered when init precedes the spawn
				if x.i.role == "init" && y.i.role != "consumer" && y.i.role != "init" && preSpawn(x.i.pos, y.i.role) {
					continue
				}
				if y.i.role == "init" && x.i.role != "consumer" && x.i.role != "init" && preSpawn(y.i.pos, x.i.role) {
					continue
				}
				if (x.i.role == "init" || x.i.role == "consumer") && (y.i.role == "init" || y.i.role == "consumer") {
					continue // both on the caller's goroutine
				}
				conflict = fmt.Sprintf("written at %s in role %s and accessed at %s in role %s with no synchronisation between them (not a sync primitive, not written only before that role is started, not accessed through sync/atomic)",
					r.P.Rel(x.a.pos), x.i.role, r.P.Rel(y.a.pos), y.i.role)
				cpos = x.a.pos
				break
			}
		}
		if conflict != "" {
			r.Bad(c, cpos, "%s: a data race when the context is cancelled (or the schedule differs) while the consumer is scanning", conflict)
		} else {
			r.OK(c, f.Pos(), "%d accesses (%d writes) in roles %v: all cross-role pairs are ordered by spawn order or confined to one goroutine", len(as), nw, rl)
		}
	}
}

// underDoneCase: the access sits in the body of a select clause whose communication is `<-ctx.Done()`.
func (m *pbfModel) underDoneCase(a fieldAccess) bool {
	par := parentsOf(m.p, a.u.fi)
	var n ast.Node
	ast.Inspect(a.u.body, func(x ast.Node) bool {
		if x != nil && x.Pos() == a.pos {
			if _, ok := x.(*ast.SelectorExpr); ok && n == nil {
				n = x
			}
		}
		return true
	})
	for p := n; p != nil; p = par[p] {
		if cc, ok := p.(*ast.CommClause); ok && cc.Comm != nil {
			isDone := false
			ast.Inspect(cc.Comm, func(y ast.Node) bool {
				if call, ok := y.(*ast.CallExpr); ok && isMethod(callee(m.info, call), "context.Context", "Done") {
					isDone = true
				}
				return true
			})
			if isDone && n.Pos() > cc.Colon {
				return true
			}
		}
	}
	return false
}

// pbfSyncAddr marks the taking of the address of a sync primitive (`&dec.wg` handed to a goroutine): the primitive is
// then used through the pointer's methods, it is neither copied nor overwritten.
func pbfSyncAddr(f *types.Var) string {
	switch namedPath(f.Type()) {
	case "sync.WaitGroup", "sync.Mutex", "sync.RWMutex", "sync.Once":
		return "&"
	}
	return ""
}
