package rules

import (
	"go/ast"
	"go/token"

	"golang.org/x/tools/go/cfg"

	"osmcheck/core"
)

// C06.E5, first block. The block the spawner reads itself (to find the header) is subject to the same rule as every
// other block: a block whose type is neither the header type nor the data type ends in an error, and only a data
// block reaches a data decoder. Decided by finite-domain evaluation: the type of the first block is given the abstract
// value "some other string" (equal to no constant it is compared with); walking the spawner from the read of the first
// block with every comparison of a block-header type decided accordingly, the start of the reader goroutine must be
// unreachable, or, if it is reachable, the reader (walked the same way up to its own first block read) must not reach
// a pair that carries a blob which was not read inside the reader. The shape of the test (if / switch, where the
// restart blob travels: captured variable, parameter, struct) does not matter.

// c06BlockReaderFunc: the function that reads one file block in several steps (the same selection as E2).
func c06BlockReaderFunc(r *core.R, m *pbfModel) *FuncInfo {
	info := m.info
	isRead := func(f *c01Fn, n ast.Node) bool {
		return c01ContainsCall(n, func(call *ast.CallExpr) bool { return c06IsBlockRead(info, call) })
	}
	sum := c01NewSum(r.P, isRead)
	count := func(fi *FuncInfo) int {
		n := 0
		ast.Inspect(fi.Decl.Body, func(x ast.Node) bool {
			if _, ok := x.(*ast.FuncLit); ok {
				return false
			}
			if call, ok := x.(*ast.CallExpr); ok {
				if c06IsBlockRead(info, call) {
					n++
				} else if tf := c01Callee(m.pk, call); tf != nil && sum.May(tf) {
					n++
				}
			}
			return true
		})
		return n
	}
	var cands []*FuncInfo
	for _, fi := range allFuncs(m.pk) {
		if !isGenerated(r.P, fi.Decl.Pos()) && count(fi) >= 2 {
			cands = append(cands, fi)
		}
	}
	var best *FuncInfo
	for _, c := range cands {
		inner := false
		for _, g := range c01Reachable(r.P, c) {
			if g.Obj == c.Obj {
				continue
			}
			for _, o := range cands {
				if o.Obj == g.Obj {
					inner = true
				}
			}
		}
		if !inner {
			best = c
		}
	}
	return best
}

// c06TypeAtom evaluates comparisons of a block-header type with a constant for a type that equals no constant.
func c06TypeAtom(m *pbfModel, scope ast.Node) func(ast.Expr) c01Tri {
	info := m.info
	// a closure of the spawner sees the spawner's locals: they are expanded in the enclosing declaration
	outer := scope
	for _, fi := range allFuncs(m.pk) {
		if fi.Decl.Body != nil && fi.Decl.Body.Pos() <= scope.Pos() && scope.End() <= fi.Decl.Body.End() {
			outer = fi.Decl.Body
		}
	}
	depth := 0
	var atom func(a ast.Expr) c01Tri
	atom = func(a ast.Expr) c01Tri {
		x, y, neq, ok := c01EqCmp(a)
		if !ok {
			// a boolean local that holds the result of a comparison (or of a combination of comparisons)
			if id, isId := ast.Unparen(a).(*ast.Ident); isId && depth < 4 {
				if o := objOf(info, id); o != nil {
					if rhs := c01SingleDef(info, outer, o); rhs != nil {
						depth++
						v := c01Eval(info, rhs, atom)
						depth--
						return v
					}
				}
			}
			return c01U
		}
		for _, pr := range [][2]ast.Expr{{x, y}, {y, x}} {
			if _, isConst := constString(info, pr[1]); isConst && (c06IsHeaderType(m, scope, pr[0], 0) || c06IsHeaderType(m, outer, pr[0], 0)) {
				return c01Bool(neq) // other == C is false, other != C is true
			}
		}
		return c01U
	}
	return atom
}

func c06FirstBlock(r *core.R, m *pbfModel) {
	info := m.info
	fs := r.P.Fset
	br := c06BlockReaderFunc(r, m)
	if br == nil {
		return // E2 reports the missing anchor
	}
	c := "block type@" + m.start.Name() + " first-block"
	// functions that hand back what the block reader read
	reads := func(call *ast.CallExpr) bool {
		tf := c01Callee(m.pk, call)
		if tf == nil {
			return false
		}
		for _, g := range c01Reachable(r.P, tf) {
			if g.Obj == br.Obj {
				return true
			}
		}
		return false
	}
	// the spawner's own body (goroutine bodies excluded)
	su := m.units[m.start.Decl]
	if su == nil {
		return
	}
	sf := c01FnOfBody(r.P, m.start, m.start.Decl.Body)
	inGo := func(n ast.Node) bool {
		for _, g := range m.gos {
			if g.lit != nil && g.lit.Pos() <= n.Pos() && n.End() <= g.lit.End() {
				return true
			}
		}
		return false
	}
	var firstB *cfg.Block
	firstI := -1
	for _, b := range sf.g.Blocks {
		if !b.Live {
			continue
		}
		for i, n := range b.Nodes {
			if firstB == nil && !inGo(n) && c01ContainsCall(n, func(call *ast.CallExpr) bool { return !inGo(call) && reads(call) }) {
				firstB, firstI = b, i
			}
		}
	}
	if firstB == nil {
		r.OKTrivial(c, m.start.Decl.Pos(), "the spawner reads no block itself: every block goes through the reader's type test")
		return
	}
	// reader start: a go statement of the reader role, or a call of a function that holds one
	var readerGo *goSite
	for _, g := range m.gos {
		if g.role == "reader" {
			readerGo = g
		}
	}
	if readerGo == nil {
		return
	}
	startsReader := func(n ast.Node) bool {
		hit := false
		ast.Inspect(n, func(y ast.Node) bool {
			if gs, ok := y.(*ast.GoStmt); ok && gs == readerGo.stmt {
				hit = true
			}
			if call, ok := y.(*ast.CallExpr); ok && !hit {
				if tf := c01Callee(m.pk, call); tf != nil && tf.Obj != m.start.Obj {
					for _, g := range c01Reachable(r.P, tf) {
						ast.Inspect(g.Decl.Body, func(z ast.Node) bool {
							if gs, ok := z.(*ast.GoStmt); ok && gs == readerGo.stmt {
								hit = true
							}
							return !hit
						})
					}
				}
			}
			return !hit
		})
		return hit
	}
	atomS := c06TypeAtom(m, sf.body)
	// (1) can the reader be started with a first block of another type?
	type st struct {
		b *cfg.Block
		i int
	}
	seen := map[*cfg.Block]bool{}
	work := []st{{firstB, firstI + 1}}
	var startPos token.Pos
	for len(work) > 0 && !startPos.IsValid() {
		cur := work[len(work)-1]
		work = work[:len(work)-1]
		for j := cur.i; j < len(cur.b.Nodes); j++ {
			if startsReader(cur.b.Nodes[j]) {
				startPos = cur.b.Nodes[j].Pos()
				break
			}
		}
		if startPos.IsValid() {
			break
		}
		v := c01U
		if len(cur.b.Succs) == 2 {
			if cond := sf.condOf(cur.b); cond != nil {
				v = c01Eval(info, cond, atomS)
			}
		}
		for si, nb := range cur.b.Succs {
			if (si == 0 && v == c01F) || (si == 1 && v == c01T) {
				continue
			}
			if !seen[nb] {
				seen[nb] = true
				work = append(work, st{nb, 0})
			}
		}
	}
	if !startPos.IsValid() {
		r.OK(c, firstB.Nodes[firstI].Pos(), "with a first block whose type is neither of the known ones the spawner never starts the pipeline: every path from `%s` leaves with an error (type comparisons evaluated for a type equal to no constant)", src(fs, firstB.Nodes[firstI]))
		return
	}
	// (2) in the reader: a pair with a blob that was not read by the reader itself
	ru := readerGo.unit
	if ru == nil && readerGo.lit != nil {
		ru = m.units[readerGo.lit]
	}
	if ru == nil {
		if tf := c01Callee(m.pk, readerGo.stmt.Call); tf != nil {
			ru = m.units[tf.Decl]
			if ru == nil {
				ru = m.byDecl[tf.Obj]
			}
		}
	}
	if ru == nil || ru.body == nil {
		r.Unknown(c, startPos, "the reader goroutine's body was not found")
		return
	}
	rf := c01FnOfBody(r.P, ru.fi, ru.body)
	pairT, blobF, _ := c06PairType(m)
	if pairT == nil {
		return
	}
	atomR := c06TypeAtom(m, rf.body)
	carriesForeignBlob := func(n ast.Node) ast.Expr {
		var found ast.Expr
		ast.Inspect(n, func(y ast.Node) bool {
			cl, ok := y.(*ast.CompositeLit)
			if !ok || namedPath(info.TypeOf(cl)) != namedPath(pairT) || found != nil {
				return found == nil
			}
			for _, el := range cl.Elts {
				kv, ok := el.(*ast.KeyValueExpr)
				if !ok {
					continue
				}
				if id, ok := kv.Key.(*ast.Ident); !ok || info.Uses[id] != blobF || isNilIdent(kv.Value) {
					continue
				}
				found = kv.Value
			}
			return found == nil
		})
		return found
	}
	seen = map[*cfg.Block]bool{rf.g.Blocks[0]: true}
	work = []st{{rf.g.Blocks[0], 0}}
	var leak ast.Expr
	var leakPos token.Pos
	for len(work) > 0 && leak == nil {
		cur := work[len(work)-1]
		work = work[:len(work)-1]
		stop := false
		for j := cur.i; j < len(cur.b.Nodes); j++ {
			n := cur.b.Nodes[j]
			if v := carriesForeignBlob(n); v != nil {
				leak, leakPos = v, n.Pos()
				break
			}
			if c01ContainsCall(n, reads) {
				stop = true // from here on the blocks are the reader's own (E5's block-type obligation covers them)
				break
			}
		}
		if leak != nil || stop {
			continue
		}
		v := c01U
		if len(cur.b.Succs) == 2 {
			if cond := rf.condOf(cur.b); cond != nil {
				v = c01Eval(info, cond, atomR)
			}
		}
		for si, nb := range cur.b.Succs {
			if (si == 0 && v == c01F) || (si == 1 && v == c01T) {
				continue
			}
			if !seen[nb] {
				seen[nb] = true
				work = append(work, st{nb, 0})
			}
		}
	}
	if leak != nil {
		r.Bad(c, leakPos, "a first block whose type is neither the header type nor the data type is not rejected: with such a type (it equals none of the constants it is compared with) %s still starts the pipeline and the reader hands `%s`, the blob of that block, to a data decoder. A stream whose first block has an unexpected type (\"Foo\", \"\", \"osmdata\") is decoded as data or ends without an error, the required-features gate is skipped; the same block at any later position is rejected", m.start.Name(), src(fs, leak))
		return
	}
	r.OK(c, startPos, "with a first block whose type is neither of the known ones the reader sends no blob it has not read (and type-checked) itself")
}
