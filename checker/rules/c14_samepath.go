package rules

import (
	"go/ast"
)

// Values with the same elements as the DFS path.
//
// The path parameter may be replaced, inside an activation, by a slice that has the same length and the same elements —
// typically to grow its capacity once instead of letting every append reallocate:
//
//	path[:len(path)], path[:len(path):c], path[:]                     re-slices
//	append([]T(nil), path...), append(make([]T, 0, c), path...)       copies by append
//	g := make([]T, len(path), c); copy(g, path)                       copies by copy (inline or in a followed helper)
//
// The ancestors the scan looks at and the path handed to the children are then unchanged. A copy that is shorter, is
// never filled, or is filled from something else is not such a value.

func (m *c14Model) pathLike(g *c14Graph, v *c14Val, depth int) bool {
	if v == nil || depth > 4 {
		return false
	}
	if m.isPathParam(v) {
		return true
	}
	lenOfPath := func(a *c14Val) bool {
		return a != nil && a.k == 'C' && a.name == "len" && len(a.args) == 1 && m.pathLike(g, a.args[0], depth+1)
	}
	switch v.k {
	case 's':
		if !m.pathLike(g, v.x, depth+1) || len(v.args) != 3 {
			return false
		}
		lowOK := v.args[0] == nil || (v.args[0].k == 'c' && v.args[0].key == "c(0)")
		highOK := v.args[1] == nil || lenOfPath(v.args[1])
		return lowOK && highOK
	case 'C':
		call, _ := v.node.(*ast.CallExpr)
		switch v.name {
		case "append":
			if call == nil || !call.Ellipsis.IsValid() || len(v.args) != 2 {
				return false
			}
			a0 := v.args[0]
			empty := c14EmptySlice(a0)
			return empty && m.pathLike(g, v.args[1], depth+1)
		case "make":
			if len(v.args) < 2 || !lenOfPath(v.args[1]) || v.at == nil {
				return false
			}
			return m.filledFromPath(g, v, depth)
		}
	}
	return false
}

// filledFromPath: the slice made at mk.at is, before the function that made it returns, the target of a
// `copy(dst, path-like)` on every path, and nothing else stores into it.
func (m *c14Model) filledFromPath(g *c14Graph, mk *c14Val, depth int) bool {
	d := mk.at
	var copies []*c14Node
	for call, n := range g.calls {
		if n.ctx != d.ctx || len(g.byNode[n]) == 0 || builtinName(n.ctx.fn.info, call) != "copy" || len(call.Args) != 2 {
			continue
		}
		if dst := g.canon(n.ctx, call.Args[0], n); dst.key == mk.key && m.pathLike(g, g.canon(n.ctx, call.Args[1], n), depth+1) {
			copies = append(copies, n)
		}
	}
	if len(copies) == 0 {
		return false
	}
	// other stores into the made slice
	for _, n := range g.execNodes() {
		as, ok := n.ast.(*ast.AssignStmt)
		if !ok || n.ctx != d.ctx {
			continue
		}
		for _, l := range as.Lhs {
			if ix, ok := ast.Unparen(l).(*ast.IndexExpr); ok {
				if b := g.canon(n.ctx, ix.X, n); b.key == mk.key {
					return false
				}
			}
		}
	}
	// every way from the make to a return of that activation passes a copy
	after := g.reach(c14Succs(g.statesOf(d), nil), c14StopAt(copies...), nil)
	for s := range after {
		if s.n.ctx == d.ctx && s.n.exec() {
			if _, isRet := s.n.ast.(*ast.ReturnStmt); isRet {
				return false
			}
		}
	}
	return true
}
