package rules

import (
	"fmt"
	"go/token"
	"sort"

	"osmcheck/core"
)

// ---------------------------------------------------------------------------------------------
// S5 error mapping, whitelists, option

func c13S5(r *core.R) {
	m := c13Load(r)
	if m == nil {
		return
	}
	x := m.x
	var agg c13Agg
	rows := []struct {
		name   string
		nf, ig int // -1 = any
	}{{"not-found+ignore", 1, 1}, {"not-found", 1, 0}, {"other-error", 0, -1}}
	ignTerms := map[string]*c13Term{}
	for _, el := range m.eloops {
		pos := el.l.stmt.Pos()
		cells, unc := m.tableCells(el)
		// --- whitelist of effects; conditions outside the table's inputs are tolerated: such a path is taken to cover
		// every abstract input its recognised conditions admit, so its outcome must be right for all of them
		c := "effects@" + el.name()
		bad := ""
		var bpos token.Pos = pos
		extra := map[string]bool{}
		for _, p := range el.paths {
			m.interpret(p)
			for _, a := range p.st.pc { // the whole path: the option may be tested outside the loop
				if m.isIgnoreOption(a.t) {
					ignTerms[a.t.key] = a.t
				}
			}
			if len(p.problems) > 0 && bad == "" {
				bad, bpos = "a path through the iteration "+p.problems[0]+": only the history request, the element's Visible and the action list may be touched", p.pos
			}
			for _, g := range p.guardP {
				extra[g] = true
			}
		}
		if bad != "" {
			agg.bad(c, bpos, "%s", bad)
		} else {
			note := ""
			if len(extra) > 0 {
				var gs []string
				for g := range extra {
					gs = append(gs, g)
				}
				sort.Strings(gs)
				note = fmt.Sprintf("; %d condition(s) outside the table's inputs occur (%s): the outcome was required to be right on both sides of each", len(gs), gs[0])
			}
			agg.ok(c, pos, "the %d path(s) through one iteration touch only the history request, the element's Visible and the action list%s", len(el.paths), note)
		}
		if el.sec == 0 {
			continue
		}
		// --- error mapping rows
		for _, row := range rows {
			c := "errmap@" + c13Kinds[el.kind].Elem + " " + row.name
			in := func(cb []int) bool {
				return cb[c13VErr] == 1 && cb[c13VNF] == row.nf && (row.ig < 0 || cb[c13VIgn] == row.ig)
			}
			bad := ""
			var bpos token.Pos = pos
			n := 0
			for _, cell := range cells {
				if !in(cell.c) {
					continue
				}
				n++
				if cell.actual != cell.expected {
					why := ""
					switch {
					case cell.expected == "pass":
						why = "an error that is not a not-found error must be returned as it is"
					case cell.expected == "typed":
						why = "a not-found error must become the typed error unless missing histories are ignored; otherwise the caller turns the element into a create action"
					default:
						why = "a not-found error with missing histories ignored must turn the element into a create action"
					}
					bad, bpos = fmt.Sprintf("for {%s} the iteration %s (path conditions: %s); required: %s. %s", c13UpdDom.describe(cell.c), c13OutcomeText(cell.actual), m.conds(cell.p), c13OutcomeText(cell.expected), why), cell.p.pos
					break
				}
				if cell.actual == "typed" {
					if q := m.quality(cell.p, "typed"); q != "" {
						bad, bpos = q, cell.p.pos
						break
					}
				}
			}
			for _, u := range unc {
				if in(u) && bad == "" {
					bad = fmt.Sprintf("no path through the iteration for {%s}", c13UpdDom.describe(u))
				}
			}
			switch {
			case bad != "":
				agg.bad(c, bpos, "%s", bad)
			case n == 0:
				agg.pending(c, pos, "no abstract input of this row was evaluated in any calling context")
			default:
				agg.ok(c, bpos, "a non-nil history error with NotFound=%v%s: the iteration %s (%d evaluations)", row.nf == 1, map[int]string{1: ", ignore-missing set", 0: ", ignore-missing unset", -1: ""}[row.ig],
					c13OutcomeText(map[string]string{"not-found+ignore": "create", "not-found": "typed", "other-error": "pass"}[row.name]), n)
			}
		}
	}
	// --- the option
	{
		c := "ignore-option@Change"
		bad := ""
		var final *c13State
		for _, p := range x.paths {
			if p.kind == "return" && len(p.res) == 2 && x.resolve(p.st, p.res[1]).op == c13OpNil {
				final = p.st
			}
		}
		var keys []string
		for k := range ignTerms {
			keys = append(keys, k)
		}
		sort.Strings(keys)
		switch {
		case len(keys) == 0:
			bad = "no iteration depends on Options.IgnoreMissingChildren: the option has no effect"
		case len(keys) > 1:
			bad = fmt.Sprintf("iterations read the ignore-missing flag from %d different values", len(keys))
		case final == nil:
			bad = "no success path"
		default:
			t := ignTerms[keys[0]]
			base := t.args[0]
			cell := (*c13Cell)(nil)
			if base.op == c13OpRef {
				cell = final.heap[base.id]
			}
			applied := false
			if cell != nil && m.optsP != nil {
				for _, l := range x.loops {
					if l.xs == nil || l.xs.key != m.optsP.key || len(l.iters) == 0 {
						continue
					}
					all := true
					for _, it := range l.iters {
						okIt := false
						for _, ev := range it.st.trace[l.trLen:] {
							if ev.kind == "dyncall" && ev.tgt != nil && ev.tgt.key == x.index(l.xs, x.idx(l)).key {
								for _, a := range ev.args {
									if a.key == base.key {
										okIt = true
									}
								}
							}
						}
						all = all && okIt
					}
					applied = applied || all
				}
			}
			switch {
			case cell == nil || namedPath(cell.typ) != c13OsmPath+"/annotate/internal/core.Options":
				bad = fmt.Sprintf("the ignore-missing flag `%s` is not read from the core.Options object Change builds", m.show(t))
			case !applied:
				bad = "the core.Options object the flag is read from is not handed to every Option of the caller"
			case t.ver != cell.ver:
				bad = "Options.IgnoreMissingChildren is read before all options were applied: a later WithIgnoreMissing option is ignored"
			}
		}
		if bad != "" {
			agg.bad(c, m.change.Decl.Pos(), "%s", bad)
		} else {
			agg.ok(c, m.change.Decl.Pos(), "the flag every iteration tests is Options.IgnoreMissingChildren of the object handed to every Option, read after the last one was applied")
		}
	}
	// --- errors outside element iterations
	{
		c := "early-error@Change"
		bad := ""
		n := 0
		var bpos token.Pos = m.change.Decl.Pos()
		for _, p := range x.paths {
			if p.kind == "unsupported" {
				continue
			}
			inElem := false
			for _, l := range p.st.loops {
				if m.byLoop[l] != nil {
					inElem = true
				}
			}
			for _, ev := range p.st.trace {
				if ev.kind == "loopexit" && m.byLoop[ev.loop] != nil {
					inElem = true
				}
			}
			if inElem || (p.kind == "return" && len(p.res) == 2 && x.resolve(p.st, p.res[1]).op == c13OpNil) {
				continue
			}
			n++
			switch {
			case p.kind != "return" || len(p.res) != 2:
				bad, bpos = "a path outside the element loops ends annotate.Change by "+p.kind, p.pos
			default:
				e := p.res[1]
				fromOption := false
				for _, ev := range p.st.trace {
					if ev.kind == "dyncall" && ev.tgt != nil {
						for _, rs := range ev.res {
							if rs.key == e.key {
								fromOption = true
							}
						}
					}
				}
				if !fromOption {
					bad, bpos = fmt.Sprintf("annotate.Change returns the error `%s` before or between the element loops; the only error allowed there is the one of applying an Option", m.show(e)), p.pos
				}
			}
		}
		if bad != "" {
			agg.bad(c, bpos, "%s", bad)
		} else {
			agg.ok(c, bpos, "the %d error path(s) outside element iterations return the error of applying an Option", n)
		}
	}
	agg.emit(r)
}
