package rules

import "osmcheck/core"

// Behaviour-preserving variants for C06 (overlay edits): the rules must stay silent on each.

const c06DG = "osmpbf/decode.go"

var c06Benign = []core.Mutant{
	// inline: the EOF mapping helper is inlined at one call site
	{Name: "inline-eof-mapping", File: c06DG,
		Find:    "func (dec *decoder) readBlob(buf []byte) (*osmpbf.Blob, error) {\n\tif _, err := io.ReadFull(dec.r, buf); err != nil {\n\t\treturn nil, unexpectedEOF(err)\n\t}\n",
		Replace: "func (dec *decoder) readBlob(buf []byte) (*osmpbf.Blob, error) {\n\tif _, err := io.ReadFull(dec.r, buf); err != nil {\n\t\tif err == io.EOF {\n\t\t\terr = io.ErrUnexpectedEOF\n\t\t}\n\t\treturn nil, err\n\t}\n"},
	// extract helper: one generic read helper for all three reads, mapping done by the later callers
	{Name: "shared-read-helper", File: c06DG,
		Find:    "func (dec *decoder) readBlob(buf []byte) (*osmpbf.Blob, error) {\n\tif _, err := io.ReadFull(dec.r, buf); err != nil {\n\t\treturn nil, unexpectedEOF(err)\n\t}\n",
		Replace: "func (dec *decoder) fill(buf []byte) error {\n\t_, err := io.ReadFull(dec.r, buf)\n\treturn err\n}\n\nfunc (dec *decoder) readBlob(buf []byte) (*osmpbf.Blob, error) {\n\tif err := dec.fill(buf); err != nil {\n\t\treturn nil, unexpectedEOF(err)\n\t}\n"},
	// comparison written the other way round, getter read once into a local
	{Name: "size-guards-flipped", File: c06DG,
		Find:    "\tif blobHeader.GetDatasize() < 0 {\n\t\treturn nil, errors.New(\"blob size < 0\")\n\t}\n\n\tif blobHeader.GetDatasize() >= maxBlobSize {\n\t\treturn nil, errors.New(\"blob size >= 32Mb\")\n\t}\n\treturn blobHeader, nil\n",
		Replace: "\tsize := blobHeader.GetDatasize()\n\tif 0 > size {\n\t\treturn nil, errors.New(\"blob size < 0\")\n\t}\n\n\tif maxBlobSize <= size {\n\t\treturn nil, errors.New(\"blob size >= 32Mb\")\n\t}\n\treturn blobHeader, nil\n"},
	// inverted branch with early success path
	{Name: "header-size-guard-inverted", File: c06DG,
		Find:    "\tif size >= maxBlobHeaderSize {\n\t\treturn 0, errors.New(\"blobHeader size >= 64Kb\")\n\t}\n\treturn size, nil\n",
		Replace: "\tif size < maxBlobHeaderSize {\n\t\treturn size, nil\n\t}\n\treturn 0, errors.New(\"blobHeader size >= 64Kb\")\n"},
	// switch -> if with early return + remaining switch
	{Name: "raw-case-peeled", File: c06DG,
		Find:    "\tswitch {\n\tcase blob.Raw != nil:\n\t\treturn blob.GetRaw(), nil\n\n\tcase blob.ZlibData != nil:\n",
		Replace: "\tif blob.Raw != nil {\n\t\treturn blob.GetRaw(), nil\n\t}\n\n\tswitch {\n\tcase blob.ZlibData != nil:\n"},
	// values read into locals, inverted comparison
	{Name: "rawsize-compare-locals", File: c06DG,
		Find:    "\t\tif buf.Len() != int(blob.GetRawSize()) {\n\t\t\treturn nil, fmt.Errorf(\"raw blob data size %d but expected %d\", buf.Len(), blob.GetRawSize())\n\t\t}\n\n\t\treturn buf.Bytes(), nil\n",
		Replace: "\t\tif n, want := buf.Len(), int(blob.GetRawSize()); n == want {\n\t\t\treturn buf.Bytes(), nil\n\t\t}\n\n\t\treturn nil, fmt.Errorf(\"raw blob data size %d but expected %d\", buf.Len(), blob.GetRawSize())\n"},
	// local alias of the decompressor
	{Name: "zlib-reader-alias", File: c06DG,
		Find:    "\t\tif _, err = buf.ReadFrom(r); err != nil {\n",
		Replace: "\t\tvar inflated io.Reader = r\n\t\tif _, err = buf.ReadFrom(inflated); err != nil {\n"},
	// extract helper: the required-features gate moves into a function; the lookup result is read into a local
	{Name: "extract-feature-gate", File: c06DG,
		Find:    "func decodeOSMHeader(blob *osmpbf.Blob) (*Header, error) {\n\tdata, err := getData(blob, nil)\n\tif err != nil {\n\t\treturn nil, err\n\t}\n\n\theaderBlock := &osmpbf.HeaderBlock{}\n\tif err := proto.Unmarshal(data, headerBlock); err != nil {\n\t\treturn nil, err\n\t}\n\n\t// Check we have the parse capabilities\n\trequiredFeatures := headerBlock.GetRequiredFeatures()\n\tfor _, feature := range requiredFeatures {\n\t\tif !parseCapabilities[feature] {\n\t\t\treturn nil, fmt.Errorf(\"parser does not have %s capability\", feature)\n\t\t}\n\t}\n",
		Replace: "func checkCapabilities(features []string) error {\n\tfor _, feature := range features {\n\t\tif supported := parseCapabilities[feature]; !supported {\n\t\t\treturn fmt.Errorf(\"parser does not have %s capability\", feature)\n\t\t}\n\t}\n\treturn nil\n}\n\nfunc decodeOSMHeader(blob *osmpbf.Blob) (*Header, error) {\n\tdata, err := getData(blob, nil)\n\tif err != nil {\n\t\treturn nil, err\n\t}\n\n\theaderBlock := &osmpbf.HeaderBlock{}\n\tif err := proto.Unmarshal(data, headerBlock); err != nil {\n\t\treturn nil, err\n\t}\n\n\t// Check we have the parse capabilities\n\tif err := checkCapabilities(headerBlock.GetRequiredFeatures()); err != nil {\n\t\treturn nil, err\n\t}\n"},
	// block-type pair built by if/else instead of overwrite
	{Name: "pair-if-else", File: c06DG,
		Find:    "\t\t\tpair := iPair{Offset: offset, Blob: blob}\n\t\t\tif err != nil {\n\t\t\t\tpair = iPair{Err: err}\n\t\t\t}\n",
		Replace: "\t\t\tvar pair iPair\n\t\t\tif err == nil {\n\t\t\t\tpair = iPair{Offset: offset, Blob: blob}\n\t\t\t} else {\n\t\t\t\tpair.Err = err\n\t\t\t}\n"},
}
