package rules

import (
	"go/types"
	"strings"

	"osmcheck/core"
)

// Hand-written JSON in a MarshalJSON method (C05.J5 strings@): bytes that are not the result of one codec operation
// but are assembled by the method itself. A string taken from the value being marshalled may reach the output only
// through a JSON string encoder - a marshal operation of the codec (helper, encoding/json) on that string. Go's
// quoting (strconv.Quote / AppendQuote, fmt %q) is not JSON: it writes \x.., \a, \v, \U........ escapes that no JSON
// reader accepts; bytes appended raw are not escaped at all.

// c05HandJSON describes how receiver data reaches the bytes a path returns.
type c05HandJSON struct {
	marshalled int      // strings of the receiver that go through a codec marshal operation
	bad        []string // other ways receiver data reaches the output
	unknown    []string
	open, shut int64 // first / last constant byte of the assembled output (0 when unknown)
}

// c05AnalyseBytes walks the value returned as bytes.
func c05AnalyseBytes(cx *c05Codec, pa *c03Path, out *c03V, fromRecv func(*c03V) bool) *c05HandJSON {
	h := &c05HandJSON{}
	marshalCalls := map[interface{}]bool{}
	for _, op := range cx.ops(pa) {
		if op.dir == "marshal" {
			marshalCalls[op.ev.Call] = true
		}
	}
	var consts []int64
	seen := map[*c03V]bool{}
	var walk func(v *c03V, d int)
	walk = func(v *c03V, d int) {
		if v == nil || d > 12 || seen[v] {
			return
		}
		seen[v] = true
		switch {
		case v.K == c03KInt:
			consts = append(consts, v.Int)
			return
		case v.K == c03KStr:
			for _, b := range []byte(v.Str) {
				consts = append(consts, int64(b))
			}
			return
		case v.K == c03KUnk && v.Call != nil && marshalCalls[v.Call]:
			if c05Derives(v, fromRecv) {
				h.marshalled++
			}
			return // encoded by the codec
		case v.K == c03KUnk && v.Fn != nil && c05Derives(v, fromRecv):
			name := funcName(v.Fn)
			if v.Fn.Pkg() != nil {
				name = v.Fn.Pkg().Name() + "." + name
			}
			switch {
			case v.Fn.Pkg() != nil && v.Fn.Pkg().Path() == "strconv" && strings.Contains(v.Fn.Name(), "Quote"):
				h.bad = append(h.bad, name+" quotes the string the Go way (\\x.., \\a, \\v, \\U........ escapes for control and invalid bytes), which is not JSON")
			case v.Fn.Pkg() != nil && v.Fn.Pkg().Path() == "fmt":
				h.bad = append(h.bad, name+" formats the string (%q is Go syntax, %s / %v do not escape at all), which is not JSON string encoding")
			default:
				h.unknown = append(h.unknown, "the result of "+name)
			}
			return
		case fromRecv(v):
			h.bad = append(h.bad, "`"+v.PathString()+"` is appended raw: quotes, backslashes and control characters in it are not escaped")
			return
		}
		walk(v.Base, d+1)
		for _, e := range v.Elems {
			walk(e, d+1)
		}
		for _, f := range v.From {
			walk(f, d+1)
		}
	}
	walk(out, 0)
	if len(consts) > 0 {
		h.open, h.shut = consts[0], consts[len(consts)-1]
	}
	return h
}

// c05HandStrings checks every MarshalJSON method of package osm that assembles its output by hand.
func c05HandStrings(r *core.R) (tagsByHand string) {
	pk := c03OsmPkg(r.P)
	cx := c05NewCodec(r.P)
	for _, fi := range allFuncs(pk) {
		sig := fi.Obj.Type().(*types.Signature)
		if fi.Obj.Name() != "MarshalJSON" || sig.Recv() == nil {
			continue
		}
		root := c05FuncLabel(fi)
		recv := sig.Recv()
		fromRecv := func(v *c03V) bool {
			if v == nil || v.T == nil {
				return false
			}
			if bt, ok := v.T.Underlying().(*types.Basic); !ok || bt.Info()&types.IsString == 0 {
				return false // only strings need JSON string encoding
			}
			for i := 0; v != nil && i < 8; i++ {
				switch {
				case v.IsInit("param"):
					return v.Root.Obj == recv
				case v.K == c03KInit && v.Root.Of != nil:
					v = v.Root.Of // element / key / asserted value of ...
				case v.K == c03KList && len(v.Elems) > 0:
					// a collection the method built from the receiver (ts.Map()): any of its entries
					for _, e := range append(append([]*c03V{}, v.Elems...), v.Keys...) {
						if e != nil && e.K == c03KInit {
							v = e
							break
						}
					}
					if v.K == c03KList {
						return false
					}
				default:
					return false
				}
			}
			return false
		}
		x, paths := cx.run(fi, c05Scen{Tag: "hand-written json"})
		var agg c05HandJSON
		byHand := false
		for _, pa := range paths {
			if pa.End != "return" || len(pa.Ret) != 2 {
				continue
			}
			out := pa.Ret[0]
			if out.K == c03KStr || (out.K == c03KUnk && out.Call != nil) {
				continue // a literal, or the result of one codec operation
			}
			byHand = true
			h := c05AnalyseBytes(cx, pa, out, fromRecv)
			agg.marshalled += h.marshalled
			agg.bad = append(agg.bad, h.bad...)
			agg.unknown = append(agg.unknown, h.unknown...)
			if h.open != 0 {
				agg.open, agg.shut = h.open, h.shut
			}
		}
		if !byHand {
			continue
		}
		c := "strings@" + root
		switch {
		case x.Aborted != "":
			r.Unknown(c, fi.Decl.Pos(), "%s could not be explored completely: %s", root, x.Aborted)
		case len(agg.bad) > 0:
			r.Bad(c, fi.Decl.Pos(), "%s assembles its JSON by hand and a string of the value reaches the output without JSON string encoding: %s; for such strings (control characters, invalid UTF-8, quotes) the output is not JSON, or not the string that was marshalled", root, agg.bad[0])
		case len(agg.unknown) > 0:
			r.Unknown(c, fi.Decl.Pos(), "%s assembles its JSON by hand; a string of the value reaches the output through %s, which is not known to be a JSON string encoder", root, agg.unknown[0])
		default:
			r.OK(c, fi.Decl.Pos(), "%s assembles its JSON by hand; every string of the value in the output is the result of a codec marshal operation on that string (%d seen)", root, agg.marshalled)
		}
		if root == "Tags.MarshalJSON" {
			switch {
			case agg.open == '{' && agg.shut == '}' && agg.marshalled > 0 && len(agg.bad) == 0 && len(agg.unknown) == 0:
				tagsByHand = "ok"
			default:
				tagsByHand = "bad"
			}
		}
	}
	return tagsByHand
}
