package rules

import (
	"fmt"
	"sort"
	"strconv"
	"strings"
)

// H4 arg-fidelity@<endpoint> <role>: every numeric argument that reaches the URL is rendered by a conversion that is
// injective on the argument's domain: an integer in decimal (%d, strconv.FormatInt/Itoa/AppendInt base 10 — any other
// verb already fails path@), a float64 coordinate with the shortest round-trip rendering or with at least the 7
// decimals of OSM's resolution (1e-7 degree). `%f` (6 decimals), `%.Nf` with N < 7, FormatFloat with precision 0..6,
// a 32-bit rendering and an integer passed through float64 merge distinct arguments into one request: the call then
// asks for something else than its arguments say (for a bounding box: a smaller, possibly empty, box).

const c20OSMDecimals = 7 // OSM stores coordinates in units of 1e-7 degree

// c20FloatClass classifies a fmt verb applied to a float: "f<N>", "e<N>", "g<N>" or "shortest" ("" = not a float verb).
func c20FloatClass(verb string) string {
	if len(verb) < 2 || verb[0] != '%' {
		return ""
	}
	c := verb[len(verb)-1]
	flags := verb[1 : len(verb)-1]
	prec := -1
	if i := strings.IndexByte(flags, '.'); i >= 0 {
		p, err := strconv.Atoi(flags[i+1:])
		if err != nil {
			p = 0 // "%.f" means precision 0
		}
		prec = p
		flags = flags[:i]
	}
	if strings.Trim(flags, "0123456789") != "" {
		return "" // flags such as + or space change the text: left to path@
	}
	if flags != "" {
		return "" // a width pads the number with spaces or zeros: left to path@
	}
	switch c {
	case 'f', 'F':
		if prec < 0 {
			prec = 6
		}
		return "f" + strconv.Itoa(prec)
	case 'e', 'E':
		if prec < 0 {
			prec = 6
		}
		return "e" + strconv.Itoa(prec)
	case 'g', 'G', 'v':
		if prec < 0 {
			return "shortest"
		}
		if c == 'v' {
			return ""
		}
		return "g" + strconv.Itoa(prec)
	}
	return ""
}

// c20FormatFloatClass classifies strconv.FormatFloat(v, fmt, prec, bits).
func c20FormatFloatClass(fmtc, prec, bits int64) string {
	cl := ""
	switch fmtc {
	case 'f', 'e', 'E', 'g', 'G':
		if prec < 0 {
			cl = "shortest"
		} else {
			cl = strings.ToLower(string(rune(fmtc))) + strconv.FormatInt(prec, 10)
		}
	default:
		return ""
	}
	if bits != 64 {
		cl += ",bits32"
	}
	return cl
}

// c20FloatLoss explains why a float rendering class is not injective at OSM resolution ("" = it is).
func c20FloatLoss(cl string) string {
	switch {
	case strings.Contains(cl, "int→float64"):
		return "the integer is converted to float64 first (exact only below 2^53)"
	case strings.Contains(cl, "bits32"):
		return "rounded to a 32-bit float (about 7 significant digits)"
	}
	if cl == "shortest" {
		return ""
	}
	if len(cl) < 2 {
		return "unrecognised float rendering"
	}
	n, err := strconv.Atoi(cl[1:])
	if err != nil {
		return "unrecognised float rendering"
	}
	switch cl[0] {
	case 'f':
		if n < c20OSMDecimals {
			return fmt.Sprintf("%d decimals", n)
		}
	case 'e': // n+1 significant digits; a longitude needs 3 + 7
		if n+1 < 3+c20OSMDecimals {
			return fmt.Sprintf("%d significant digits", n+1)
		}
	case 'g':
		if n < 3+c20OSMDecimals {
			return fmt.Sprintf("%d significant digits", n)
		}
	default:
		return "unrecognised float rendering"
	}
	return ""
}

// fidelityEP emits one obligation per role whose parameter reaches the URL as a number.
func (cx *c20Ctx) fidelityEP(fi *FuncInfo, ep *c20Endpoint, sym c20Sym) {
	r := cx.r
	roles := c20Roles(ep)
	byRole := map[string][]*c20Hole{}
	for _, h := range sym.holes() {
		role := roles[h.param]
		if h.base || h.param < 1 || role == "" || !(h.num || h.fl != "") {
			continue
		}
		byRole[role] = append(byRole[role], h)
	}
	var names []string
	for role := range byRole {
		names = append(names, role)
	}
	sort.Strings(names)
	for _, role := range names {
		c := "arg-fidelity@" + fi.Name() + " " + role
		var lossy, fine []string
		classes := map[string]bool{}
		coords := false
		for _, h := range byRole[role] {
			what := role
			if h.field != "" {
				what += "." + h.field
			}
			if h.fl == "" {
				fine = append(fine, what+" in decimal")
				continue
			}
			if why := c20FloatLoss(h.fl); why != "" {
				coords = coords || !strings.Contains(h.fl, "int→float64")
				lossy = append(lossy, fmt.Sprintf("%s by %s (%s)", what, h.flsrc, why))
				classes[c20LossName(h.fl)] = true
			} else {
				fine = append(fine, fmt.Sprintf("%s by %s", what, h.flsrc))
			}
		}
		if len(lossy) > 0 {
			hint := "render integers with %d / strconv.FormatInt(v, 10)"
			if coords {
				hint = fmt.Sprintf("OSM coordinates have %d decimals (1e-7 degree); a bounding box is rounded edge by edge, so it can shrink to an empty box and exclude elements inside the requested bounds; use strconv.FormatFloat(v, 'f', -1, 64) or at least %%.%df", c20OSMDecimals, c20OSMDecimals)
			}
			// the rendering is part of the key of a violation: a known finding for one lossy rendering must not hide a
			// different one at the same place; equivalent spellings (%f, four separate %f, FormatFloat(v,'f',6,64))
			// share one class name
			var cl []string
			for n := range classes {
				cl = append(cl, n)
			}
			sort.Strings(cl)
			c += " " + strings.Join(cl, "+")
			r.Bad(c, fi.Decl.Pos(), "%s renders %s: distinct arguments give the same request, so the URL is not the documented one for the call's arguments (%s)", fi.Name(), strings.Join(lossy, ", "), hint)
			continue
		}
		r.OK(c, fi.Decl.Pos(), "every number of %s in the URL is rendered injectively: %s", role, strings.Join(fine, ", "))
	}
}

// c20LossName names a lossy rendering class independently of its spelling: "6-decimals" (%f, %.6f,
// FormatFloat(v,'f',6,64)), "2-decimals", "7-significant-digits" (%.7g, %.6e), "float32", "via-float64".
func c20LossName(cl string) string {
	var parts []string
	for _, p := range strings.Split(cl, ",") {
		switch {
		case p == "int→float64":
			parts = append(parts, "via-float64")
		case p == "bits32":
			parts = append(parts, "float32")
		case p == "shortest":
			// not lossy by itself (it is the companion, e.g. float32, that is)
		case len(p) >= 2 && p[0] == 'f':
			parts = append(parts, p[1:]+"-decimals")
		case len(p) >= 2 && p[0] == 'g':
			parts = append(parts, p[1:]+"-significant-digits")
		case len(p) >= 2 && p[0] == 'e':
			if n, err := strconv.Atoi(p[1:]); err == nil {
				parts = append(parts, strconv.Itoa(n+1)+"-significant-digits")
			} else {
				parts = append(parts, p)
			}
		default:
			parts = append(parts, p)
		}
	}
	if len(parts) == 0 {
		return "unrecognised"
	}
	return strings.Join(parts, "-")
}
