package rules

import "osmcheck/core"

// Round 7: (1) the classification of relations goes through a generic helper over a literal table of rule
// structs (correct: the helper has no way-only `area` pre-check; seeded: it has); (2) the way loop lives in a
// helper taking the tags and the table; (3) the membership test is a hand-written lower-bound binary search;
// (4) the literal is a string constant converted at its single use inside a (slice, error) helper.

const c18ShapeRelationLiteralTable = `	return matchesAnyCondition(r.Tags, relationPolyConditions)
}

// relationPolyConditions is the polygon condition for relations; the values are listed in sorted order.
var relationPolyConditions = []polyCondition{
	{
		Key:       "type",
		Condition: conditionWhitelist,
		Values:    []string{"boundary", "multipolygon"},
	},
}

func matchesAnyCondition(tags Tags, conditions []polyCondition) bool {
	for _, c := range conditions {
		v := tags.Find(c.Key)
		if v == "" || v == "no" {
			continue
		}

		switch c.Condition {
		case conditionAll:
			return true
		case conditionWhitelist:
			if i := sort.SearchStrings(c.Values, v); i < len(c.Values) && c.Values[i] == v {
				return true
			}
		case conditionBlacklist:
			if i := sort.SearchStrings(c.Values, v); i == len(c.Values) || c.Values[i] != v {
				return true
			}
		}
	}

	return false
}
`

const c18ShapeWayLoopGenericHelper = `	return anyConditionAccepts(w.Tags, polyConditions)
}

func anyConditionAccepts(tags Tags, conditions []polyCondition) bool {
	for i := range conditions {
		c := &conditions[i]
		if v := tags.Find(c.Key); v != "" && v != "no" && c.accepts(v) {
			return true
		}
	}

	return false
}

func (c *polyCondition) accepts(v string) bool {
	switch c.Condition {
	case conditionAll:
		return true
	case conditionWhitelist:
		return lowerBoundHas(c.Values, v)
	case conditionBlacklist:
		return !lowerBoundHas(c.Values, v)
	}

	return false
}

// lowerBoundHas: binary search for the smallest index with list[index] >= v.
func lowerBoundHas(list []string, v string) bool {
	lo, hi := 0, len(list)
	for lo < hi {
		mid := int(uint(lo+hi) >> 1)
		if list[mid] < v {
			lo = mid + 1
		} else {
			hi = mid
		}
	}

	return lo < len(list) && list[lo] == v
}
`

// upper-bound flavour with closed interval and an early exit.
const c18ShapeClosedIntervalSearch = c18ShapeWayLoopGenericHelperHead + `func lowerBoundHas(list []string, v string) bool {
	lo, hi := 0, len(list)-1
	for lo <= hi {
		mid := lo + (hi-lo)/2
		switch {
		case list[mid] == v:
			return true
		case list[mid] < v:
			lo = mid + 1
		default:
			hi = mid - 1
		}
	}

	return false
}
`

// everything of c18ShapeWayLoopGenericHelper up to the search function
const c18ShapeWayLoopGenericHelperHead = `	return anyConditionAccepts(w.Tags, polyConditions)
}

func anyConditionAccepts(tags Tags, conditions []polyCondition) bool {
	for i := range conditions {
		c := &conditions[i]
		if v := tags.Find(c.Key); v != "" && v != "no" && c.accepts(v) {
			return true
		}
	}

	return false
}

func (c *polyCondition) accepts(v string) bool {
	switch c.Condition {
	case conditionAll:
		return true
	case conditionWhitelist:
		return lowerBoundHas(c.Values, v)
	case conditionBlacklist:
		return !lowerBoundHas(c.Values, v)
	}

	return false
}

`

// init goes through a (slice, error) helper that takes the literal as a string.
const c18ShapeParseHelperWithError = `func init() {
	conditions, err := parsePolyConditions(string(polygonJSON))
	if err != nil {
		// This must be valid json
		panic(err)
	}

	polyConditions = conditions
}

func parsePolyConditions(data string) ([]polyCondition, error) {
	var conditions []polyCondition
	if err := json.Unmarshal([]byte(data), &conditions); err != nil {
		return nil, err
	}

	for i := range conditions {
		sort.Strings(conditions[i].Values)
	}

	return conditions, nil
}
`

func c18Round7Benign() []core.Mutant {
	f := "polygon.go"
	return []core.Mutant{
		{Name: "relation-through-literal-condition-table", File: f, Find: c18SrcRel + "}\n", Replace: c18ShapeRelationLiteralTable},
		{Name: "way-loop-in-generic-helper-handwritten-search", File: f, Find: c18SrcLoop, Replace: c18ShapeWayLoopGenericHelper},
		{Name: "closed-interval-search-with-early-exit", File: f, Find: c18SrcLoop, Replace: c18ShapeClosedIntervalSearch},
		{Name: "init-parse-helper-with-error-result", File: f, Find: c18SrcInit, Replace: c18ShapeParseHelperWithError},
	}
}
