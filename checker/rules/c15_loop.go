package rules

import (
	"go/ast"
	"go/token"
	"go/types"

	"golang.org/x/tools/go/cfg"
)

// ---------------------------------------------------------------- loops over Updates

type c15Loop struct {
	fn    *c15Fn
	stmt  ast.Stmt // *ast.RangeStmt or *ast.ForStmt
	x     ast.Expr // the Updates value
	key   types.Object
	val   types.Object
	body  *ast.BlockStmt
	head  *cfg.Block // target of continue / back edge
	entry *cfg.Block // first block of the body
	done  *cfg.Block // target of break / normal exit

	// guards are the conjuncts of a for-condition other than `i < len(X)`: the loop is left as soon as one is false.
	// They hold at the top of every iteration, so at the end of an iteration they still hold unless the iteration
	// assigned one of their variables.
	guards []ast.Expr
}

func (l *c15Loop) pos() token.Pos { return l.stmt.Pos() }

// loopsIn finds the loops over an osm.Updates value in f (function literals are not entered: their bodies are not
// in f's CFG).
func (w *c15World) loopsIn(f *c15Fn) []*c15Loop {
	if f.loopsDone {
		return f.loops
	}
	out := w.loopsIn1(f)
	f.loops, f.loopsDone = out, true
	return out
}

func (w *c15World) loopsIn1(f *c15Fn) []*c15Loop {
	var out []*c15Loop
	inspectNoLit(f.fi.Decl.Body, func(n ast.Node) bool {
		switch s := n.(type) {
		case *ast.RangeStmt:
			if !isUpdatesType(w.info.TypeOf(s.X)) {
				return true
			}
			l := &c15Loop{fn: f, stmt: s, x: s.X, body: s.Body}
			if s.Key != nil {
				if id, ok := s.Key.(*ast.Ident); ok && id.Name != "_" {
					l.key = objOf(w.info, s.Key)
				}
			}
			if s.Value != nil {
				if id, ok := s.Value.(*ast.Ident); ok && id.Name != "_" {
					l.val = objOf(w.info, s.Value)
				}
			}
			for _, b := range f.g.Blocks {
				if b.Stmt != s {
					continue
				}
				switch b.Kind {
				case cfg.KindRangeLoop:
					l.head = b
				case cfg.KindRangeBody:
					l.entry = b
				case cfg.KindRangeDone:
					l.done = b
				}
			}
			out = append(out, l)
		case *ast.ForStmt:
			// for i := …; i < len(X); i++
			if s.Cond == nil || s.Post == nil {
				return true
			}
			// the condition is `i < len(X)`, possibly in conjunction with further guards
			// (`err == nil && i < len(X)`: leaving the loop through a condition variable)
			var conj []ast.Expr
			c15Conjuncts(s.Cond, &conj)
			var arg ast.Expr
			var iv types.Object
			var guards []ast.Expr
			for _, c := range conj {
				lhs, op, rhs, ok := cmpNorm(c)
				if a := lenCallArg(w.info, rhs); arg == nil && ok && op == token.LSS && a != nil && isUpdatesType(w.info.TypeOf(a)) && objOf(w.info, lhs) != nil {
					arg, iv = a, objOf(w.info, lhs)
					continue
				}
				guards = append(guards, c)
			}
			if arg == nil {
				return true
			}
			inc, ok := s.Post.(*ast.IncDecStmt)
			if iv == nil || !ok || inc.Tok != token.INC || objOf(w.info, inc.X) != iv {
				return true
			}
			if countAssignsTo(w.info, s.Body, iv, s.Body.Pos(), s.Body.End()) > 0 {
				return true
			}
			l := &c15Loop{fn: f, stmt: s, x: arg, key: iv, body: s.Body, guards: guards}
			for _, b := range f.g.Blocks {
				if b.Stmt != s {
					continue
				}
				switch b.Kind {
				case cfg.KindForPost:
					l.head = b
				case cfg.KindForBody:
					l.entry = b
				case cfg.KindForDone:
					l.done = b
				}
			}
			out = append(out, l)
		}
		return true
	})
	return out
}

func c15Conjuncts(e ast.Expr, out *[]ast.Expr) {
	e = ast.Unparen(e)
	if be, ok := e.(*ast.BinaryExpr); ok && be.Op == token.LAND {
		c15Conjuncts(be.X, out)
		c15Conjuncts(be.Y, out)
		return
	}
	*out = append(*out, e)
}

// inBody reports whether block b belongs to the loop body.
func (l *c15Loop) inBody(b *cfg.Block) bool {
	if b == l.entry {
		return true
	}
	if b == l.head || b == l.done || b.Stmt == nil {
		return false
	}
	return l.body.Pos() <= b.Stmt.Pos() && b.Stmt.End() <= l.body.End()
}

// contains reports whether node n lies in the loop body.
func (l *c15Loop) contains(n ast.Node) bool {
	return l.body.Pos() <= n.Pos() && n.End() <= l.body.End()
}

// isElem reports whether path p denotes the current element of the loop (the range value, X[key], or a copy /
// pointer alias of either).
func (w *c15World) isElem(env *c15Env, l *c15Loop, p *c15Path) bool {
	if p == nil {
		return false
	}
	if l.val != nil && p.root == l.val && len(p.steps) == 0 {
		return true
	}
	if l.key != nil {
		if st := p.last(); st != nil && st.idx != nil && st.idx.root == l.key && len(st.idx.steps) == 0 {
			xp := w.pathOf(env, l.x, false)
			return xp != nil && xp.eq(p.prefix(1))
		}
	}
	return false
}

// ---------------------------------------------------------------- deep traversal from an API function

// reach lists root and the unexported helpers it (transitively) calls, each once, in call order.
func (w *c15World) reach(root *c15Fn) []*c15Env {
	seen := map[*c15Fn]bool{root: true}
	var out []*c15Env
	var visit func(env *c15Env)
	visit = func(env *c15Env) {
		out = append(out, env)
		if env.depth() >= 4 {
			return
		}
		inspectNoLit(env.fn.fi.Decl.Body, func(n ast.Node) bool {
			call, ok := n.(*ast.CallExpr)
			if !ok {
				return true
			}
			f, ce := w.calleeOf(env, call)
			if f == nil || f.fi.Obj.Exported() || seen[f] {
				return true
			}
			seen[f] = true
			visit(ce)
			return true
		})
	}
	visit(w.rootEnv(root))
	return out
}

// c15LoopSite is a loop over Updates reached from a root.
type c15LoopSite struct {
	env  *c15Env
	loop *c15Loop
}

// timeParams returns the time.Time parameters of f.
func (f *c15Fn) timeParams() []*types.Var {
	var out []*types.Var
	sig := f.fi.Obj.Type().(*types.Signature)
	for i := 0; i < sig.Params().Len(); i++ {
		if namedPath(sig.Params().At(i).Type()) == "time.Time" {
			if _, isPtr := sig.Params().At(i).Type().(*types.Pointer); !isPtr {
				out = append(out, sig.Params().At(i))
			}
		}
	}
	return out
}

// nodeAt returns the CFG node of f that contains pos, with its block and index.
func (f *c15Fn) nodeAt(pos token.Pos) (ast.Node, *cfg.Block, int) {
	b, i := blockOf(f.g, pos)
	if b == nil {
		return nil, nil, -1
	}
	return b.Nodes[i], b, i
}

func c15Within(outer, inner ast.Node) bool {
	return outer != nil && inner != nil && outer.Pos() <= inner.Pos() && inner.End() <= outer.End()
}
