package rules

import (
	"go/ast"
	"go/token"
	"go/types"
)

// sameMore extends the sibling comparison to values built per case: composite literals (`meta{e.Timestamp, …}`,
// keyed or positional), slices, type assertions, var declarations and type expressions. Types are compared through
// the type checker (identical types), values recursively; the element type may differ only where the case variable
// itself is the value.
func (c *c17Cmp) sameMore(a, b ast.Node) (res, handled bool) {
	info := c.info
	sameType := func(x, y ast.Expr) bool {
		if x == nil || y == nil {
			return x == nil && y == nil
		}
		tx, ty := info.TypeOf(x), info.TypeOf(y)
		return tx != nil && ty != nil && types.Identical(tx, ty)
	}
	switch x := a.(type) {
	case *ast.CompositeLit:
		y, ok := b.(*ast.CompositeLit)
		if !ok || len(x.Elts) != len(y.Elts) {
			return false, true
		}
		tx, ty := info.TypeOf(x), info.TypeOf(y)
		if tx == nil || ty == nil || !types.Identical(tx, ty) {
			return false, true
		}
		for i := range x.Elts {
			if !c.same(x.Elts[i], y.Elts[i]) {
				return false, true
			}
		}
		return true, true
	case *ast.KeyValueExpr:
		y, ok := b.(*ast.KeyValueExpr)
		if !ok {
			return false, true
		}
		// struct field keys are identifiers without a use object of their own kind: compare by the field denoted
		kx, okx := x.Key.(*ast.Ident)
		ky, oky := y.Key.(*ast.Ident)
		if okx && oky {
			fx, _ := info.Uses[kx].(*types.Var)
			fy, _ := info.Uses[ky].(*types.Var)
			if fx != nil && fx.IsField() || fy != nil && fy.IsField() {
				return fx == fy && c.same(x.Value, y.Value), true
			}
		}
		return c.same(x.Key, y.Key) && c.same(x.Value, y.Value), true
	case *ast.SliceExpr:
		y, ok := b.(*ast.SliceExpr)
		if !ok || x.Slice3 != y.Slice3 {
			return false, true
		}
		for _, p := range [][2]ast.Expr{{x.Low, y.Low}, {x.High, y.High}, {x.Max, y.Max}} {
			if (p[0] == nil) != (p[1] == nil) || (p[0] != nil && !c.same(p[0], p[1])) {
				return false, true
			}
		}
		return c.same(x.X, y.X), true
	case *ast.TypeAssertExpr:
		y, ok := b.(*ast.TypeAssertExpr)
		return ok && sameType(x.Type, y.Type) && c.same(x.X, y.X), true
	case *ast.ArrayType, *ast.MapType, *ast.StructType, *ast.InterfaceType, *ast.FuncType, *ast.ChanType:
		y, ok := b.(ast.Expr)
		return ok && sameType(a.(ast.Expr), y), true
	case *ast.DeclStmt:
		y, ok := b.(*ast.DeclStmt)
		if !ok {
			return false, true
		}
		gx, okx := x.Decl.(*ast.GenDecl)
		gy, oky := y.Decl.(*ast.GenDecl)
		if !okx || !oky || gx.Tok != token.VAR || gy.Tok != token.VAR || len(gx.Specs) != len(gy.Specs) {
			return false, true
		}
		for i := range gx.Specs {
			sx, okx := gx.Specs[i].(*ast.ValueSpec)
			sy, oky := gy.Specs[i].(*ast.ValueSpec)
			if !okx || !oky || len(sx.Names) != len(sy.Names) || len(sx.Values) != len(sy.Values) {
				return false, true
			}
			for j := range sx.Names {
				if !c.same(sx.Names[j], sy.Names[j]) {
					return false, true
				}
			}
			for j := range sx.Values {
				if !c.same(sx.Values[j], sy.Values[j]) {
					return false, true
				}
			}
		}
		return true, true
	}
	return false, false
}
