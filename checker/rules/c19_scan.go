package rules

// c19_scan.go — C19.M1 (loop conditions vary) and C19.M2 (neighbour scans over missing state files).
//
// Both rules are about termination and are decided on structure, but on structure that a
// behaviour-preserving rewrite keeps:
//   - the state fetch is recognised through helpers (a function of the package that makes exactly
//     one fetch with one of its parameters as sequence number is a fetch of that argument) and
//     through a local holding the fetch function;
//   - the conditions that keep a loop running / control a probe are taken from the CFG as atomic
//     facts (merged or split guards, inverted tests, `!(a || b)`, leading `if … { break }`, tagless
//     switches all give the same facts);
//   - comparisons are brought to the normal form  Σ terms <= c  over integers, so `a < b`, `b > a`,
//     `a+1 <= b`, `!(b <= a)` are the same fact and an off-by-one in either direction is told apart;
//   - variables are followed through parameters to the arguments of the call (a scan moved into a
//     helper is analysed in the helper with the caller's expressions), and through single-definition
//     locals;
//   - "stops at the first state found", "steps once per iteration after the probe" and "with nothing
//     found the search answers the upper bound" are decided by walking the CFG under a valuation of
//     the `state == nil` tests (three-valued evaluation of each branch condition).

import (
	"fmt"
	"go/ast"
	"go/constant"
	"go/token"
	"go/types"
	"sort"
	"strings"

	"golang.org/x/tools/go/cfg"

	"osmcheck/core"
)

// ---------------------------------------------------------------- loops

type c19Loop struct {
	fi     *FuncInfo
	stmt   ast.Stmt // *ast.ForStmt or *ast.RangeStmt
	path   string   // "1", "1.2": preorder ordinal within the function
	parent *c19Loop
}

func (l *c19Loop) body() *ast.BlockStmt {
	switch s := l.stmt.(type) {
	case *ast.ForStmt:
		return s.Body
	case *ast.RangeStmt:
		return s.Body
	}
	return nil
}

func (l *c19Loop) key() string { return "loop@" + l.fi.Name() + "[" + l.path + "]" }

func c19CollectLoops(fi *FuncInfo) []*c19Loop {
	var out []*c19Loop
	count := map[*c19Loop]int{}
	var walk func(n ast.Node, parent *c19Loop)
	walk = func(n ast.Node, parent *c19Loop) {
		ast.Inspect(n, func(x ast.Node) bool {
			if x == nil || x == n {
				return true
			}
			switch x.(type) {
			case *ast.ForStmt, *ast.RangeStmt:
				count[parent]++
				p := fmt.Sprint(count[parent])
				if parent != nil {
					p = parent.path + "." + p
				}
				l := &c19Loop{fi: fi, stmt: x.(ast.Stmt), path: p, parent: parent}
				out = append(out, l)
				walk(l.body(), l)
				return false
			}
			return true
		})
	}
	walk(fi.Decl.Body, nil)
	return out
}

// c19AssignedIn collects the variables a statement list assigns (=, :=, op=, ++/--, range
// key/value, address taken), keyed by object with the position of the first assignment.
func c19AssignedIn(info *types.Info, nodes ...ast.Node) map[types.Object]token.Pos {
	out := map[types.Object]token.Pos{}
	add := func(e ast.Expr, pos token.Pos) {
		if e == nil {
			return
		}
		if o := rootObj(info, e); o != nil {
			if _, ok := o.(*types.Var); ok {
				if _, dup := out[o]; !dup {
					out[o] = pos
				}
			}
		}
	}
	for _, n := range nodes {
		if n == nil {
			continue
		}
		ast.Inspect(n, func(x ast.Node) bool {
			switch s := x.(type) {
			case *ast.AssignStmt:
				for _, l := range s.Lhs {
					add(l, s.Pos())
				}
			case *ast.IncDecStmt:
				add(s.X, s.Pos())
			case *ast.RangeStmt:
				add(s.Key, s.Pos())
				add(s.Value, s.Pos())
			case *ast.UnaryExpr:
				if s.Op == token.AND {
					add(s.X, s.Pos())
				}
			case *ast.CallExpr:
				// a method with a pointer receiver called on an addressable variable may assign it (`w.narrow(…)`)
				if sel, ok := ast.Unparen(s.Fun).(*ast.SelectorExpr); ok {
					if sl := info.Selections[sel]; sl != nil && sl.Kind() == types.MethodVal {
						if fn, ok := sl.Obj().(*types.Func); ok {
							if recv := fn.Type().(*types.Signature).Recv(); recv != nil {
								if _, isPtr := recv.Type().(*types.Pointer); isPtr {
									if _, argPtr := info.TypeOf(sel.X).(*types.Pointer); !argPtr {
										add(sel.X, s.Pos())
									}
								}
							}
						}
					}
				}
			}
			return true
		})
	}
	return out
}

// c19VarsIn lists the (non-field) variables an expression mentions, in source order.
func c19VarsIn(info *types.Info, e ast.Node) []types.Object {
	var out []types.Object
	seen := map[types.Object]bool{}
	ast.Inspect(e, func(n ast.Node) bool {
		if id, ok := n.(*ast.Ident); ok {
			if v, ok := info.Uses[id].(*types.Var); ok && !v.IsField() && !seen[v] {
				seen[v] = true
				out = append(out, v)
			}
		}
		return true
	})
	return out
}

func c19Names(objs []types.Object) string {
	var s []string
	for _, o := range objs {
		s = append(s, o.Name())
	}
	return strings.Join(s, ", ")
}

func c19SortedObjs(m map[types.Object]token.Pos) []types.Object {
	var out []types.Object
	for o := range m {
		out = append(out, o)
	}
	sort.Slice(out, func(i, j int) bool {
		return m[out[i]] < m[out[j]] || (m[out[i]] == m[out[j]] && out[i].Name() < out[j].Name())
	})
	return out
}

// c19HasRealCall reports whether e contains a call that is neither a builtin nor a conversion.
func c19HasRealCall(info *types.Info, e ast.Node) bool {
	found := false
	ast.Inspect(e, func(n ast.Node) bool {
		if call, ok := n.(*ast.CallExpr); ok {
			if builtinName(info, call) == "" {
				if tv, ok := info.Types[call.Fun]; !ok || !tv.IsType() {
					found = true
				}
			}
		}
		return !found
	})
	return found
}

// c19StayFact is an atomic condition that holds whenever the loop starts another iteration.
type c19StayFact struct {
	expr ast.Expr
	val  bool
}

func (f c19StayFact) String(fset *token.FileSet) string {
	if f.val {
		return src(fset, f.expr)
	}
	return "!(" + src(fset, f.expr) + ")"
}

// c19LeavesLoop: the statement list ends the enclosing loop unconditionally (break or return).
func c19LeavesLoop(list []ast.Stmt) bool {
	if len(list) == 0 {
		return false
	}
	switch s := list[len(list)-1].(type) {
	case *ast.ReturnStmt:
		return true
	case *ast.BranchStmt:
		return s.Tok == token.BREAK && s.Label == nil
	}
	return false
}

// c19LoopStayFacts returns the atomic facts that hold at the start of every iteration of a `for`:
// the loop condition, and the negation of the guard of every leading `if g { break / return }` of
// the body (`for c { … }`, `for { if !c { break }; … }` and `for a { if !b { break }; … }` give the
// same facts).
func c19LoopStayFacts(s *ast.ForStmt) []c19StayFact {
	var gf []guardFact
	if s.Cond != nil {
		splitFacts(s.Cond, true, nil, &gf)
	}
	for _, st := range s.Body.List {
		ifs, ok := st.(*ast.IfStmt)
		if !ok || ifs.Init != nil || ifs.Else != nil || !c19LeavesLoop(ifs.Body.List) {
			break
		}
		splitFacts(ifs.Cond, false, nil, &gf)
	}
	var out []c19StayFact
	for _, f := range gf {
		out = append(out, c19StayFact{f.expr, f.val})
	}
	return out
}

// ---------------------------------------------------------------- M1

func c19M1(r *core.R) {
	m := c19BuildModel(r)
	if m == nil {
		return
	}
	r.Stat("functions_reachable_from_StateAt", len(m.reachList))
	nloops := 0
	for _, fi := range m.reachList {
		for _, l := range c19CollectLoops(fi) {
			nloops++
			switch s := l.stmt.(type) {
			case *ast.RangeStmt:
				switch t := m.info.TypeOf(s.X).Underlying().(type) {
				case *types.Slice, *types.Array, *types.Map, *types.Basic:
					r.OKTrivial(l.key(), s.Pos(), "range over the finite value `%s` (%s): at most one iteration per element", src(r.P.Fset, s.X), t.String())
				case *types.Pointer:
					r.OKTrivial(l.key(), s.Pos(), "range over `%s` (pointer to array)", src(r.P.Fset, s.X))
				default:
					r.Unknown(l.key(), s.Pos(), "range over `%s` of type %s (channel or iterator function): the number of iterations is not bounded by a finite value; accepted: slice, array, map, string, integer", src(r.P.Fset, s.X), t.String())
				}
			case *ast.ForStmt:
				facts := c19LoopStayFacts(s)
				varied := c19AssignedIn(m.info, s.Body, s.Post)
				if len(facts) == 0 {
					c19M1Exits(r, m, l, s, varied)
					continue
				}
				variedList := c19SortedObjs(varied)
				all := "for " + src(r.P.Fset, s.Cond)
				for i, f := range facts {
					c := fmt.Sprintf("%s conjunct %d", l.key(), i+1)
					vars := c19VarsIn(m.info, f.expr)
					var hit types.Object
					for _, v := range vars {
						if _, ok := varied[v]; ok {
							hit = v
							break
						}
					}
					switch {
					case hit != nil:
						r.OK(c, f.expr.Pos(), "`%s` (needed by `%s` to go on) depends on %s, which the loop body assigns (%s)", f.String(r.P.Fset), all, hit.Name(), r.P.Rel(varied[hit]))
					case c19HasRealCall(m.info, f.expr):
						r.Unknown(c, f.expr.Pos(), "`%s` of `%s` mentions no variable the body assigns but calls a function; whether its value changes between iterations is not decided (accepted idiom: a comparison over a variable the body assigns)", f.String(r.P.Fset), all)
					default:
						r.Bad(c, f.expr.Pos(), "loop `%s` in %s: the condition part `%s` mentions only {%s}, none of which is assigned inside the loop body, so it has the same value on every iteration and bounds nothing; the body varies {%s}. If the other parts stay true (every probed state file missing) the loop never ends and issues requests forever",
							all, fi.Name(), f.String(r.P.Fset), c19Names(vars), c19Names(variedList))
					}
				}
			}
		}
	}
	r.Stat("loops_reachable_from_StateAt", nloops)
}

// ---------------------------------------------------------------- frames and resolution

// c19Frame is a function being analysed together with the call that entered it, so that its
// parameters can be read as the caller's argument expressions.
type c19Frame struct {
	fi     *FuncInfo
	call   *ast.CallExpr
	parent *c19Frame
}

func (fr *c19Frame) root() *c19Frame {
	for fr.parent != nil {
		fr = fr.parent
	}
	return fr
}

// c19Writes counts the writes to a variable inside a function body and returns the right-hand
// side of its defining `:=` / `var` (nil if none).
func c19Writes(info *types.Info, body ast.Node, o types.Object) (n int, def ast.Expr, defPos token.Pos) {
	ast.Inspect(body, func(x ast.Node) bool {
		switch s := x.(type) {
		case *ast.AssignStmt:
			for i, l := range s.Lhs {
				id, ok := ast.Unparen(l).(*ast.Ident)
				if !ok {
					if rootObj(info, l) == o {
						n++ // write through the variable (field / element)
					}
					continue
				}
				if info.Defs[id] == o {
					n++
					if len(s.Rhs) == len(s.Lhs) {
						def, defPos = s.Rhs[i], s.Pos()
					}
				} else if info.Uses[id] == o {
					n++
				}
			}
		case *ast.ValueSpec:
			for i, nm := range s.Names {
				if info.Defs[nm] == o {
					n++
					if len(s.Values) == len(s.Names) {
						def, defPos = s.Values[i], s.Pos()
					}
				}
			}
		case *ast.IncDecStmt:
			if rootObj(info, s.X) == o {
				n++
			}
		case *ast.RangeStmt:
			if (s.Key != nil && rootObj(info, s.Key) == o) || (s.Value != nil && rootObj(info, s.Value) == o) {
				n++
			}
		case *ast.UnaryExpr:
			if s.Op == token.AND && rootObj(info, s.X) == o {
				n++
			}
		}
		return true
	})
	return
}

func c19IsParam(fi *FuncInfo, o types.Object) bool {
	sig := fi.Obj.Type().(*types.Signature)
	for i := 0; i < sig.Params().Len(); i++ {
		if sig.Params().At(i) == o {
			return true
		}
	}
	return sig.Recv() != nil && sig.Recv() == o
}

// c19Lin is Σ coeff·atom + c over the integers. Atoms are variables, `X.SeqNum` of a state
// variable, or an expression the normaliser does not look into (identified by its syntax node).
type c19Lin struct {
	terms map[string]int64
	names map[string]string
	c     int64
	sub   bool // a constant was subtracted (unsigned wrap-around is not modelled)
}

func c19NewLin() *c19Lin { return &c19Lin{terms: map[string]int64{}, names: map[string]string{}} }

func (a *c19Lin) add(b *c19Lin, sign int64) {
	for k, v := range b.terms {
		a.terms[k] += sign * v
		a.names[k] = b.names[k]
		if a.terms[k] == 0 {
			delete(a.terms, k)
		}
	}
	a.c += sign * b.c
	a.sub = a.sub || b.sub
}

func (a *c19Lin) String() string {
	var ks []string
	for k := range a.terms {
		ks = append(ks, k)
	}
	sort.Slice(ks, func(i, j int) bool { return a.names[ks[i]] < a.names[ks[j]] })
	var parts []string
	for _, k := range ks {
		switch a.terms[k] {
		case 1:
			parts = append(parts, "+"+a.names[k])
		case -1:
			parts = append(parts, "-"+a.names[k])
		default:
			parts = append(parts, fmt.Sprintf("%+d·%s", a.terms[k], a.names[k]))
		}
	}
	if a.c != 0 || len(parts) == 0 {
		parts = append(parts, fmt.Sprintf("%+d", a.c))
	}
	return strings.TrimPrefix(strings.Join(parts, " "), "+")
}

// c19Resolver turns expressions of a frame into linear forms over the variables of the root frame.
type c19Resolver struct {
	m     *c19Model
	keep  map[types.Object]bool                                   // variables not to look through (the scanned variable)
	stale func(def ast.Expr, defPos token.Pos, fr *c19Frame) bool // definition may be out of date at the use
}

func c19VarKey(o types.Object) string { return fmt.Sprintf("v%p", o) }
func c19SeqKey(o types.Object) string { return fmt.Sprintf("s%p", o) }

// rootVar follows a variable through parameters (to the caller's argument when it is a plain
// variable) and single-definition aliases `x := y`.
func (rs *c19Resolver) rootVar(fr *c19Frame, o types.Object, depth int) types.Object {
	if o == nil || depth > 8 || rs.keep[o] {
		return o
	}
	info := rs.m.info
	n, def, _ := c19Writes(info, fr.fi.Decl.Body, o)
	if c19IsParam(fr.fi, o) {
		if n == 0 && fr.parent != nil {
			if a := argForParam(info, fr.fi, fr.call, o); a != nil {
				if ao := objOf(info, a); ao != nil {
					return rs.rootVar(fr.parent, ao, depth+1)
				}
			}
		}
		return o
	}
	if n == 1 && def != nil {
		if ao := objOf(info, def); ao != nil {
			if _, isVar := ao.(*types.Var); isVar {
				return rs.rootVar(fr, ao, depth+1)
			}
		}
	}
	return o
}

func (rs *c19Resolver) lin(fr *c19Frame, e ast.Expr, depth int) *c19Lin {
	info := rs.m.info
	out := c19NewLin()
	atom := func(key, name string) *c19Lin {
		out.terms[key] = 1
		out.names[key] = name
		return out
	}
	e = ast.Unparen(e)
	if v, ok := constInt(info, e); ok {
		out.c = v
		return out
	}
	if depth > 12 {
		return atom(fmt.Sprintf("e%p", e), src(rs.m.fset, e))
	}
	switch x := e.(type) {
	case *ast.BinaryExpr:
		if x.Op == token.ADD || x.Op == token.SUB {
			l, r := rs.lin(fr, x.X, depth+1), rs.lin(fr, x.Y, depth+1)
			out.add(l, 1)
			if x.Op == token.ADD {
				out.add(r, 1)
			} else {
				out.add(r, -1)
				if len(r.terms) == 0 && r.c > 0 {
					out.sub = true
				}
			}
			return out
		}
	case *ast.CallExpr:
		// integer conversion
		if tv, ok := info.Types[x.Fun]; ok && tv.IsType() && len(x.Args) == 1 {
			if b, ok := tv.Type.Underlying().(*types.Basic); ok && b.Info()&types.IsInteger != 0 {
				return rs.lin(fr, x.Args[0], depth+1)
			}
		}
	case *ast.Ident:
		o := objOf(info, x)
		if v, ok := o.(*types.Var); ok && !v.IsField() {
			if rs.keep[o] {
				return atom(c19VarKey(o), o.Name())
			}
			n, def, defPos := c19Writes(info, fr.fi.Decl.Body, o)
			if c19IsParam(fr.fi, o) {
				if n == 0 && fr.parent != nil {
					if a := argForParam(info, fr.fi, fr.call, o); a != nil {
						return rs.lin(fr.parent, a, depth+1)
					}
				}
				return atom(c19VarKey(o), o.Name())
			}
			if n == 1 && def != nil && (rs.stale == nil || !rs.stale(def, defPos, fr)) {
				return rs.lin(fr, def, depth+1)
			}
			return atom(c19VarKey(o), o.Name())
		}
	case *ast.SelectorExpr:
		if fieldOf(info, x) == rs.m.seqField {
			if o := objOf(info, x.X); o != nil {
				ro := rs.rootVar(fr, o, 0)
				return atom(c19SeqKey(ro), ro.Name()+"."+rs.m.seqField.Name())
			}
			// a bound held in a struct field: `r.lower.SeqNum`
			if f := rs.m.boundOf(x.X); f != nil {
				return atom(c19SeqKey(f), f.Name()+"."+rs.m.seqField.Name())
			}
		}
	}
	return atom(fmt.Sprintf("e%p", e), src(rs.m.fset, e))
}

// c19Ineq is the normal form  lhs - rhs <= c  of a comparison fact (nil: not an order comparison).
func (rs *c19Resolver) ineq(fr *c19Frame, e ast.Expr, val bool) *c19Lin {
	l, op, r, ok := cmpNorm(e)
	if !ok || (op != token.LSS && op != token.LEQ) {
		return nil
	}
	// l < r: l-r <= -1 ; l <= r: l-r <= 0 ; !(l < r): r-l <= 0 ; !(l <= r): r-l <= -1
	a, b, c := l, r, int64(0)
	if op == token.LSS {
		c = -1
	}
	if !val {
		a, b = r, l
		c = -1 - c
	}
	d := rs.lin(fr, a, 0)
	d.add(rs.lin(fr, b, 0), -1)
	// Σ terms + d.c <= c   ==>   Σ terms <= c - d.c ; keep the bound in d.c
	d.c = c - d.c
	return d
}

// ---------------------------------------------------------------- fetches

// isFetch reports whether call is the state fetch of the search descriptor: a call through the
// fetch field (directly or through a local holding it), or a call of a function of the package
// that makes exactly one such fetch, outside any loop, with one of its parameters as sequence
// number. It returns the sequence-number expression in terms of the caller.
func (m *c19Model) isFetch(call *ast.CallExpr) (ast.Expr, bool) {
	return m.isFetchDepth(call, nil, 0)
}

func (m *c19Model) isFetchDepth(call *ast.CallExpr, in *FuncInfo, depth int) (ast.Expr, bool) {
	if fieldOf(m.info, call.Fun) == m.fetchFld {
		if m.fetchArg < len(call.Args) {
			return call.Args[m.fetchArg], true
		}
		return nil, false
	}
	// a local holding the fetch function: fetch := s.State
	if id, ok := ast.Unparen(call.Fun).(*ast.Ident); ok {
		if v, ok := m.info.Uses[id].(*types.Var); ok && !v.IsField() {
			if encl := m.enclosingFunc(call.Pos()); encl != nil {
				if n, def, _ := c19Writes(m.info, encl.Decl.Body, v); n == 1 && def != nil && fieldOf(m.info, def) == m.fetchFld && m.fetchArg < len(call.Args) {
					return call.Args[m.fetchArg], true
				}
			}
		}
	}
	if depth >= 3 {
		return nil, false
	}
	fn := callee(m.info, call)
	if fn == nil {
		return nil, false
	}
	g := m.funcs[fn]
	if g == nil {
		return nil, false
	}
	if w, ok := m.fetchWrap[g]; ok {
		if w.param == nil {
			return nil, false
		}
		a := argForParam(m.info, g, call, w.param)
		return a, a != nil
	}
	m.fetchWrap[g] = c19FetchWrap{} // cut recursion
	var found []ast.Expr
	inLoop := false
	var walk func(n ast.Node, loop bool)
	walk = func(n ast.Node, loop bool) {
		ast.Inspect(n, func(x ast.Node) bool {
			if x == nil || x == n {
				return true
			}
			switch y := x.(type) {
			case *ast.ForStmt:
				walk(y, true)
				return false
			case *ast.RangeStmt:
				walk(y, true)
				return false
			case *ast.CallExpr:
				if a, ok := m.isFetchDepth(y, g, depth+1); ok {
					found = append(found, a)
					inLoop = inLoop || loop
				}
			}
			return true
		})
	}
	walk(g.Decl.Body, false)
	if len(found) != 1 || inLoop {
		return nil, false
	}
	p := objOf(m.info, found[0])
	if p == nil || !c19IsParam(g, p) {
		return nil, false
	}
	if n, _, _ := c19Writes(m.info, g.Decl.Body, p); n != 0 {
		return nil, false
	}
	m.fetchWrap[g] = c19FetchWrap{param: p}
	a := argForParam(m.info, g, call, p)
	return a, a != nil
}

type c19FetchWrap struct{ param types.Object }

func (m *c19Model) enclosingFunc(pos token.Pos) *FuncInfo {
	for _, fi := range m.funcs {
		if fi.Decl.Pos() <= pos && pos < fi.Decl.End() {
			return fi
		}
	}
	return nil
}

// fetchesIn lists the state-fetch calls in n that are not inside a nested loop or closure.
func (m *c19Model) fetchesIn(n ast.Node) []*ast.CallExpr {
	var out []*ast.CallExpr
	ast.Inspect(n, func(x ast.Node) bool {
		if x == n {
			return true
		}
		switch y := x.(type) {
		case *ast.ForStmt, *ast.RangeStmt, *ast.FuncLit:
			return false
		case *ast.CallExpr:
			if _, ok := m.isFetch(y); ok {
				out = append(out, y)
			}
		}
		return true
	})
	return out
}

// hasLoopFetch: fi contains a `for` loop with a state fetch in it.
func (m *c19Model) hasLoopFetch(fi *FuncInfo) bool {
	for _, l := range c19CollectLoops(fi) {
		if fl, ok := l.stmt.(*ast.ForStmt); ok && len(m.fetchesIn(fl.Body)) > 0 {
			return true
		}
	}
	return false
}

// seqVarsIn lists the variables X of every `X.SeqNum` inside e.
func (m *c19Model) seqVarsIn(e ast.Expr) []types.Object {
	var out []types.Object
	ast.Inspect(e, func(n ast.Node) bool {
		if sel, ok := n.(*ast.SelectorExpr); ok && fieldOf(m.info, sel) == m.seqField {
			if o := m.boundOf(sel.X); o != nil {
				out = append(out, o)
			}
		}
		return true
	})
	return out
}

// bounds derives from the facts that keep the binary-search loop running which state variable is the lower and
// which the upper bound: a fact that is  lo.SeqNum - hi.SeqNum <= c  in normal form, in any spelling
// (`lo.SeqNum+1 < hi.SeqNum`, `hi.SeqNum > lo.SeqNum+1`, `!(hi.SeqNum <= lo.SeqNum+1)`, `hi.SeqNum-lo.SeqNum > 1`).
func (m *c19Model) bounds(fi *FuncInfo, facts []c19StayFact) (lo, hi types.Object, cond ast.Expr) {
	rs := &c19Resolver{m: m, keep: map[types.Object]bool{}}
	fr := &c19Frame{fi: fi}
	for _, f0 := range facts {
		for _, f := range m.expandFact(fr, f0.expr, f0.val, 0) {
			q := rs.ineq(f.fr, f.expr, f.val)
			if q == nil || len(q.terms) != 2 {
				continue
			}
			var pos, neg types.Object
			for _, o := range m.seqVarsIn(f.expr) {
				ro := rs.rootVar(f.fr, o, 0)
				switch q.terms[c19SeqKey(ro)] {
				case 1:
					pos = ro
				case -1:
					neg = ro
				}
			}
			if pos != nil && neg != nil && pos != neg {
				return pos, neg, f0.expr
			}
		}
	}
	return nil, nil, nil
}

// c19Step describes `v++`, `v--`, `v += 1`, `v -= 1`, `v = v ± 1`.
type c19Step struct {
	v    types.Object
	dir  int // +1 / -1
	stmt ast.Stmt
}

func c19StepOf(info *types.Info, s ast.Node) *c19Step {
	one := func(e ast.Expr) bool { v, ok := constInt(info, e); return ok && v == 1 }
	switch x := s.(type) {
	case *ast.IncDecStmt:
		if o := objOf(info, x.X); o != nil {
			if x.Tok == token.INC {
				return &c19Step{o, +1, x}
			}
			return &c19Step{o, -1, x}
		}
	case *ast.AssignStmt:
		if len(x.Lhs) != 1 || len(x.Rhs) != 1 {
			return nil
		}
		o := objOf(info, x.Lhs[0])
		if o == nil {
			return nil
		}
		switch x.Tok {
		case token.ADD_ASSIGN:
			if one(x.Rhs[0]) {
				return &c19Step{o, +1, x}
			}
		case token.SUB_ASSIGN:
			if one(x.Rhs[0]) {
				return &c19Step{o, -1, x}
			}
		case token.ASSIGN:
			if be, ok := ast.Unparen(x.Rhs[0]).(*ast.BinaryExpr); ok {
				switch {
				case objOf(info, be.X) == o && one(be.Y) && be.Op == token.ADD:
					return &c19Step{o, +1, x}
				case objOf(info, be.X) == o && one(be.Y) && be.Op == token.SUB:
					return &c19Step{o, -1, x}
				case objOf(info, be.Y) == o && one(be.X) && be.Op == token.ADD:
					return &c19Step{o, +1, x}
				}
			}
		}
	}
	return nil
}

func c19Dir(d int) string {
	if d < 0 {
		return "down"
	}
	return "up"
}

// ---------------------------------------------------------------- CFG walks under a valuation

type c19Graph struct {
	g   *cfg.CFG
	dom map[*cfg.Block]map[*cfg.Block]bool
}

func (m *c19Model) graph(fi *FuncInfo) *c19Graph {
	if g, ok := m.graphs[fi]; ok {
		return g
	}
	g := &c19Graph{g: newCFG(m.info, fi.Decl.Body)}
	g.dom = dominators(g.g)
	m.graphs[fi] = g
	return g
}

// nilAtom gives the value of `x == nil` / `x != nil` tests for the variables in vars, which are all
// taken to be nil (isNil) or all non-nil. A call of a one-line predicate of the package (`func
// missing(s *State) bool { return s == nil }`) is looked through.
func (m *c19Model) nilAtom(vars map[types.Object]bool, isNil bool) func(ast.Expr) tri {
	var atom func(e ast.Expr, subst map[types.Object]ast.Expr, depth int) tri
	atom = func(e ast.Expr, subst map[types.Object]ast.Expr, depth int) tri {
		e = ast.Unparen(e)
		if call, ok := e.(*ast.CallExpr); ok && depth < 2 {
			if fn := callee(m.info, call); fn != nil {
				if g := m.funcs[fn]; g != nil {
					if body := singleReturnExpr(g); body != nil {
						s2 := map[types.Object]ast.Expr{}
						sig := fn.Type().(*types.Signature)
						for i := 0; i < sig.Params().Len() && i < len(call.Args); i++ {
							a := call.Args[i]
							if o := objOf(m.info, a); o != nil && subst[o] != nil {
								a = subst[o]
							}
							s2[sig.Params().At(i)] = a
						}
						return evalTri(body, func(x ast.Expr) tri { return atom(x, s2, depth+1) })
					}
				}
			}
			return triU
		}
		if id, ok := e.(*ast.Ident); ok {
			// a "found" flag tied to one of the states
			if st := m.flagState(id); st != nil && vars[st] {
				return c19TriOf(!isNil)
			}
			return triU
		}
		l, op, r, ok := cmpNorm(e)
		if !ok || (op != token.EQL && op != token.NEQ) {
			return triU
		}
		var other ast.Expr
		switch {
		case m.info.Types[r].IsNil():
			other = l
		case m.info.Types[l].IsNil():
			other = r
		default:
			return triU
		}
		o := c19Target(m.info, ast.Unparen(other))
		if o != nil && subst[o] != nil {
			o = objOf(m.info, subst[o])
		}
		if o == nil || !vars[o] {
			return triU
		}
		if (op == token.EQL) == isNil {
			return triT
		}
		return triF
	}
	return func(e ast.Expr) tri { return atom(e, nil, 0) }
}

// frameAtom extends a valuation with the constant boolean arguments of the call that entered the frame
// (`scan(…, false)`: inside scan the parameter is false).
func (m *c19Model) frameAtom(fr *c19Frame, inner func(ast.Expr) tri) func(ast.Expr) tri {
	return func(e ast.Expr) tri {
		if inner != nil {
			if v := inner(e); v != triU {
				return v
			}
		}
		if fr == nil || fr.parent == nil {
			return triU
		}
		o := objOf(m.info, ast.Unparen(e))
		if o == nil || !c19IsParam(fr.fi, o) {
			return triU
		}
		if n, _, _ := c19Writes(m.info, fr.fi.Decl.Body, o); n != 0 {
			return triU
		}
		a := argForParam(m.info, fr.fi, fr.call, o)
		if a == nil {
			return triU
		}
		if tv, ok := m.info.Types[a]; ok && tv.Value != nil && tv.Value.Kind() == constant.Bool {
			if constant.BoolVal(tv.Value) {
				return triT
			}
			return triF
		}
		return triU
	}
}

// succsUnder returns the successors of b that are consistent with the valuation.
func (m *c19Model) succsUnder(b *cfg.Block, atom func(ast.Expr) tri) []*cfg.Block {
	if cond := condOf(m.info, b); cond != nil && atom != nil {
		switch evalTri(cond, atom) {
		case triT:
			return b.Succs[:1]
		case triF:
			return b.Succs[1:2]
		}
	}
	return b.Succs
}

// walkFrom visits, in execution order along every path consistent with the valuation, the nodes
// after node (blk, idx). visit returns false to stop following the path through that node.
func (m *c19Model) walkFrom(blk *cfg.Block, idx int, atom func(ast.Expr) tri, visit func(n ast.Node) bool) {
	seen := map[*cfg.Block]bool{}
	var run func(b *cfg.Block, from int)
	run = func(b *cfg.Block, from int) {
		for i := from; i < len(b.Nodes); i++ {
			if !visit(b.Nodes[i]) {
				return
			}
		}
		for _, s := range m.succsUnder(b, atom) {
			if !seen[s] {
				seen[s] = true
				run(s, 0)
			}
		}
	}
	run(blk, idx+1)
}

func c19Contains(n ast.Node, pos token.Pos) bool { return n.Pos() <= pos && pos < n.End() }

// c19Copies closes a set of state variables under plain copies inside body (`split = st`, `x := split`):
// a valuation "the state just fetched is (not) nil" holds for the copies as well.
func c19Copies(info *types.Info, body ast.Node, vars map[types.Object]bool) map[types.Object]bool {
	out := map[types.Object]bool{}
	for o := range vars {
		out[o] = true
	}
	for changed := true; changed; {
		changed = false
		ast.Inspect(body, func(n ast.Node) bool {
			as, ok := n.(*ast.AssignStmt)
			if !ok || len(as.Lhs) != len(as.Rhs) {
				return true
			}
			for i, l := range as.Lhs {
				lo, ro := objOf(info, l), objOf(info, as.Rhs[i])
				if lo != nil && ro != nil && out[ro] && !out[lo] {
					out[lo] = true
					changed = true
				}
			}
			return true
		})
	}
	return out
}

// c19Overwrites: node n (a CFG node) gives one of the variables in vars a value that is not a copy of
// another of them (after it the valuation no longer holds).
func c19Overwrites(info *types.Info, n ast.Node, vars map[types.Object]bool) bool {
	switch s := n.(type) {
	case *ast.AssignStmt:
		for i, l := range s.Lhs {
			if !vars[c19Target(info, l)] {
				continue
			}
			if len(s.Lhs) == len(s.Rhs) && vars[c19Target(info, s.Rhs[i])] {
				continue
			}
			return true
		}
	case *ast.ValueSpec:
		for _, nm := range s.Names {
			if vars[info.Defs[nm]] {
				return true
			}
		}
	}
	return false
}

// ---------------------------------------------------------------- M2

// c19Scan is one neighbour scan: a `for` loop with a state fetch, reached from the binary-search loop.
type c19Scan struct {
	fr    *c19Frame
	loop  *ast.ForStmt
	fetch *ast.CallExpr
	site  ast.Node // in the root frame: the fetch itself (lexical scan) or the call of the helper
}

// findScans collects the scan loops in region (of frame fr): `for` loops with a direct fetch, and,
// through calls of package functions that contain such loops, the loops inside them.
func (m *c19Model) findScans(fr *c19Frame, region ast.Node, site ast.Node, depth int, out *[]*c19Scan, odd *[]string) {
	ast.Inspect(region, func(x ast.Node) bool {
		if x == region {
			return true
		}
		switch y := x.(type) {
		case *ast.FuncLit, *ast.RangeStmt:
			return false
		case *ast.ForStmt:
			fs := m.fetchesIn(y.Body)
			switch {
			case len(fs) == 1:
				s := &c19Scan{fr: fr, loop: y, fetch: fs[0], site: site}
				if site == nil {
					s.site = fs[0]
				}
				*out = append(*out, s)
			case len(fs) > 1:
				*odd = append(*odd, fmt.Sprintf("%s: loop with %d state fetches", m.rel(y.Pos()), len(fs)))
			default:
				m.findScans(fr, y.Body, site, depth, out, odd)
			}
			return false
		case *ast.CallExpr:
			if _, ok := m.isFetch(y); ok || depth >= 2 {
				return true
			}
			if fn := callee(m.info, y); fn != nil {
				if g := m.funcs[fn]; g != nil && g != fr.root().fi && m.hasLoopFetch(g) {
					s := site
					if s == nil {
						s = y
					}
					m.findScans(&c19Frame{fi: g, call: y, parent: fr}, g.Decl.Body, s, depth+1, out, odd)
				}
			}
		}
		return true
	})
}

// resultVar returns the variable the first result of call is assigned to.
func (m *c19Model) resultVar(par map[ast.Node]ast.Node, call ast.Node) types.Object {
	if as, ok := par[call].(*ast.AssignStmt); ok && len(as.Rhs) == 1 && len(as.Lhs) > 0 {
		return objOf(m.info, as.Lhs[0])
	}
	if vs, ok := par[call].(*ast.ValueSpec); ok && len(vs.Values) == 1 && len(vs.Names) > 0 {
		return m.info.Defs[vs.Names[0]]
	}
	return nil
}

func (m *c19Model) rel(pos token.Pos) string {
	p := m.fset.Position(pos)
	return fmt.Sprintf("line %d", p.Line)
}

func c19M2(r *core.R) {
	m := c19BuildModel(r)
	if m == nil {
		return
	}
	fs := r.P.Fset
	info := m.info
	nsearch, nscan := 0, 0
	for _, fi := range m.reachList {
		for _, l := range c19CollectLoops(fi) {
			outer, ok := l.stmt.(*ast.ForStmt)
			if !ok {
				continue
			}
			lo, hi, boundCond := m.bounds(fi, c19LoopStayFacts(outer))
			if lo == nil {
				continue
			}
			root := &c19Frame{fi: fi}
			probeP, probeWhy := m.probeOf(root, outer)
			var scans []*c19Scan
			var odd []string
			m.findScans(root, outer.Body, nil, 0, &scans, &odd)
			if probeP == nil && len(scans) == 0 {
				continue // a loop over two states that fetches nothing
			}
			nsearch++
			fname := fi.Name()
			par := parentsOf(r.P, fi)
			for _, o := range odd {
				r.Unknown("scans@"+fname+" shape", outer.Pos(), "%s: not one of the accepted scan shapes (one state fetch per scan loop)", o)
			}
			if probeP == nil {
				r.Unknown("scans@"+fname+" middle", outer.Pos(), "the binary-search loop `for %s`: %s; understood: one fetch of the middle in the loop body, or one call of a helper that makes it", src(fs, outer.Cond), probeWhy)
				continue
			}
			midArg, _ := m.isFetch(probeP.fetch)
			midFr := probeP.fr
			midRes := m.resultVar(par, probeP.site)
			outerVaried := c19AssignedIn(info, outer.Body, outer.Post)
			stale := func(def ast.Expr, defPos token.Pos, fr *c19Frame) bool {
				// a definition in the search function outside the loop body that reads something the loop changes
				if fr.fi != fi || (outer.Body.Pos() <= defPos && defPos < outer.Body.End()) {
					return false
				}
				for _, v := range c19VarsIn(info, def) {
					if _, ok := outerVaried[v]; ok {
						return true
					}
				}
				return false
			}
			// states every fetch of this loop body assigns: in the "nothing found" scenario all of them are nil
			stateVars := map[types.Object]bool{}
			if midRes != nil {
				stateVars[midRes] = true
			}
			siteOf := map[ast.Node]bool{}
			for _, s := range scans {
				siteOf[s.site] = true
				if v := m.resultVar(par, s.site); v != nil {
					stateVars[v] = true
				}
			}
			dirs := map[int]bool{}
			ordinal := 0
			for _, s := range scans {
				nscan++
				ordinal++
				sfi := s.fr.fi
				spar := parentsOf(r.P, sfi)
				arg, _ := m.isFetch(s.fetch)
				probe := objOf(info, arg)
				varied := c19AssignedIn(info, s.loop.Body, s.loop.Post)
				// the scanned variable: the probed variable if the loop varies it, else the single stepped variable
				var steps []*c19Step
				var walkSteps func(n ast.Node)
				walkSteps = func(n ast.Node) {
					ast.Inspect(n, func(x ast.Node) bool {
						if x == nil {
							return true
						}
						switch x.(type) {
						case *ast.FuncLit:
							return false
						case *ast.ForStmt, *ast.RangeStmt:
							if x != ast.Node(s.loop) {
								return false
							}
						}
						if x == ast.Node(s.loop.Init) {
							return false // a step in the init clause moves the start value, not the scan
						}
						if st := c19StepOf(info, x); st != nil {
							steps = append(steps, st)
						}
						return true
					})
				}
				walkSteps(s.loop)
				var v types.Object
				if probe != nil {
					if _, ok := varied[probe]; ok {
						v = probe
					}
				}
				if v == nil {
					cand := map[types.Object]bool{}
					for _, st := range steps {
						cand[st.v] = true
					}
					if len(cand) == 1 {
						v = steps[0].v
					}
				}
				rs := &c19Resolver{m: m, keep: map[types.Object]bool{}, stale: stale}
				if v != nil {
					rs.keep[v] = true
				}
				g := m.graph(sfi)
				fblk, fidx := blockOf(g.g, s.fetch.Pos())
				res := m.resultVar(spar, s.fetch)
				cycles, cyclesOK := m.scanCycles(s, v, res)
				beta, betaOK := c19Beta(cycles) // net step before the probe: the value probed is v + beta
				// first value probed (start value of v plus beta), relative to the probed middle
				dir := 0
				startBad := false
				startWhy, startSrc := "", ""
				rs0 := &c19Resolver{m: m, keep: map[types.Object]bool{}, stale: stale}
				func() {
					if v == nil {
						startWhy = "no scanned variable identified (the probed sequence number is not a variable the loop changes, and the loop does not step exactly one variable by one)"
						return
					}
					var start *c19Lin
					// unit steps of v on the way into the loop (its init clause, or statements right before it in the same
					// block) move the start value: `for id--; lo < id; id--` starts one below its argument
					entryN, entryNet := 0, 0
					ast.Inspect(sfi.Decl.Body, func(x ast.Node) bool {
						if x == nil || x == ast.Node(s.loop.Body) || x == ast.Node(s.loop.Post) {
							return false
						}
						if st := c19StepOf(info, x); st != nil && st.v == v && x.Pos() < s.loop.Body.Pos() && (x == ast.Node(s.loop.Init) || spar[x] == spar[s.loop]) {
							entryN++
							entryNet += st.dir
						}
						return true
					})
					insideW, _, _ := c19Writes(info, s.loop.Body, v)
					if s.loop.Post != nil {
						np, _, _ := c19Writes(info, s.loop.Post, v)
						insideW += np
					}
					if c19IsParam(sfi, v) {
						a := argForParam(info, sfi, s.fr.call, v)
						if a == nil || s.fr.parent == nil {
							startWhy = fmt.Sprintf("%s is a parameter whose argument is not visible", v.Name())
							return
						}
						if n, _, _ := c19Writes(info, sfi.Decl.Body, v); n != insideW+entryN {
							startWhy = fmt.Sprintf("the parameter %s is assigned before the scan loop other than by single steps: its value at the first probe is not decided", v.Name())
							return
						}
						startSrc = src(fs, a)
						start = rs0.lin(s.fr.parent, a, 0)
						start.c += int64(entryNet)
					} else {
						n, def, defPos := c19Writes(info, sfi.Decl.Body, v)
						if def == nil {
							startWhy = fmt.Sprintf("%s has no defining `:=` / `var … =`", v.Name())
							return
						}
						// every other write must be inside the scan loop
						inside, _, _ := c19Writes(info, s.loop.Body, v)
						if s.loop.Post != nil {
							np, _, _ := c19Writes(info, s.loop.Post, v)
							inside += np
						}
						if n != 1+inside+entryN {
							startWhy = fmt.Sprintf("%s is assigned between its definition and the scan loop (or after it): its value at the first probe is not decided", v.Name())
							return
						}
						if !(defPos < s.loop.Body.Pos()) {
							startWhy = fmt.Sprintf("%s is defined inside the scan loop", v.Name())
							return
						}
						startSrc = src(fs, def)
						start = rs0.lin(s.fr, def, 0)
						start.c += int64(entryNet)
					}
					if entryNet != 0 {
						startSrc += fmt.Sprintf(" stepped by %+d on the way into the loop", entryNet)
					}
					d := c19NewLin()
					d.add(start, 1)
					d.add(rs0.lin(midFr, midArg, 0), -1)
					first := d.c + int64(beta)
					switch {
					case len(d.terms) != 0:
						startWhy = fmt.Sprintf("start value `%s` is not relative to the sequence number `%s` probed by the enclosing loop (difference: %s)", startSrc, src(fs, midArg), d)
					case !betaOK:
						startWhy = fmt.Sprintf("the ways round the loop step %s differently before the probe", v.Name())
					case first == -1:
						dir = -1
					case first == 1:
						dir = +1
					default:
						startBad = true
						if first < 0 {
							dir = -1
						} else if first > 0 {
							dir = +1
						}
						startWhy = fmt.Sprintf("%s starts at `%s` and is stepped by %+d before the probe, so the first state probed is %+d away from the probed middle `%s`, not one step: ", v.Name(), startSrc, beta, first, src(fs, midArg))
						if first == 0 {
							startWhy += "the missing middle is requested again"
						} else {
							startWhy += "the neighbour(s) next to the middle are never probed"
						}
					}
				}()
				name := fmt.Sprintf("scan[%d]@%s", ordinal, fname)
				if dir != 0 {
					name = "scan-" + c19Dir(dir) + "@" + fname
					dirs[dir] = true
				}
				if startBad {
					r.Bad(name+" start", s.loop.Pos(), "%s", startWhy)
				} else if dir != 0 {
					how := ""
					if beta != 0 {
						how = fmt.Sprintf(" and is stepped by %+d before the probe", beta)
					}
					r.OK(name+" start", s.loop.Pos(), "%s starts at `%s`%s: the first state probed is one step %s from the missing middle `%s`", v.Name(), startSrc, how, c19Dir(dir), src(fs, midArg))
				} else {
					r.Unknown(name+" start", s.loop.Pos(), "%s; accepted: a start value equal to mid-1 (scan towards the lower bound) or mid+1 (towards the upper bound), mid being the argument of the enclosing loop's own state fetch", startWhy)
				}
				// probe
				switch {
				case probe == nil:
					r.Unknown(name+" probe", s.fetch.Pos(), "the sequence number passed to the state fetch, `%s`, is not a plain variable", src(fs, arg))
				case v != probe:
					r.Bad(name+" probe", s.fetch.Pos(), "`%s` probes %s, which the scan loop never changes (the loop varies {%s}): every iteration requests the same state file again", src(fs, s.fetch), probe.Name(), c19Names(c19SortedObjs(varied)))
				default:
					r.OK(name+" probe", s.fetch.Pos(), "`%s` probes %s, the variable the scan steps", src(fs, s.fetch), probe.Name())
				}
				// step: on every way round the loop that found nothing the scanned variable moves by exactly one step, in the scan's direction
				func() {
					c := name + " step"
					if v == nil || fblk == nil {
						r.Bad(c, s.loop.Pos(), "the scan does not step a sequence number by one per iteration (no `v++` / `v--` / `v += 1` / `v = v ± 1` in the loop)")
						return
					}
					if !cyclesOK {
						r.Unknown(c, s.loop.Pos(), "loop blocks not found in the control-flow graph")
						return
					}
					nsteps := 0
					for _, st := range steps {
						if st.v == v {
							nsteps++
						}
					}
					nw, _, _ := c19Writes(info, s.loop.Body, v)
					if s.loop.Post != nil {
						np, _, _ := c19Writes(info, s.loop.Post, v)
						nw += np
					}
					if nw != nsteps {
						r.Unknown(c, s.loop.Pos(), "%s is assigned inside the scan loop other than by its %d step(s) of one (%d writes): the sequence of values probed is not decided", v.Name(), nsteps, nw)
						return
					}
					nprobed := 0
					var st *c19Step
					for _, cy := range cycles {
						if !cy.probed {
							continue
						}
						nprobed++
						all := append(append([]*c19Step{}, cy.before...), cy.after...)
						switch {
						case len(all) == 0:
							r.Bad(c, s.loop.Pos(), "there is a way round the scan loop on which %s is probed, nothing is found and %s is not stepped: the same state file is requested again", v.Name(), v.Name())
							return
						case len(all) > 1:
							r.Bad(c, all[1].stmt.Pos(), "%s is stepped %d times on one way round the loop: state files are skipped (or the scan does not move)", v.Name(), len(all))
							return
						case dir != 0 && all[0].dir != dir:
							r.Bad(c, all[0].stmt.Pos(), "`%s` steps %s but the first state probed lies %s of the middle and the scan must walk %s towards its bound: it walks away from the bound it is compared with", src(fs, all[0].stmt), c19Dir(all[0].dir), c19Dir(dir), c19Dir(dir))
							return
						}
						st = all[0]
					}
					if nprobed == 0 {
						r.Bad(c, s.loop.Pos(), "the scan does not step its sequence number by one per iteration (no way round the loop passes the probe and a `v++` / `v--`)")
						return
					}
					when := "after"
					if beta != 0 {
						when = "before"
					}
					r.OK(c, st.stmt.Pos(), "`%s`, %s the probe, is the one step of %s on every way round the loop that found nothing (%d way(s))", src(fs, st.stmt), when, v.Name(), nprobed)
				}()
				// bound: the probe is controlled, inside the loop, by lo.SeqNum < v (down) / v < hi.SeqNum (up)
				func() {
					c := name + " bound"
					if dir == 0 || v == nil || fblk == nil {
						r.Unknown(c, s.loop.Pos(), "scan direction unknown (see the start obligation)")
						return
					}
					want, wantSrc := lo, lo.Name()+".SeqNum < "+v.Name()
					if dir > 0 {
						want, wantSrc = hi, v.Name()+" < "+hi.Name()+".SeqNum"
					}
					if _, moved := c19OuterVariedBefore(m, outer, want, s.site); moved {
						r.Bad(c, s.loop.Pos(), "the bound %s is reassigned before or inside the scan", want.Name())
						return
					}
					for o := range varied {
						if rs.rootVar(s.fr, o, 0) == want {
							r.Bad(c, s.loop.Pos(), "the bound %s is reassigned inside the scan loop", want.Name())
							return
						}
					}
					var near []string
					undecided := ""
					for _, f := range factsAt(info, g.g, g.dom, fblk) {
						if !(s.loop.Pos() <= f.expr.Pos() && f.expr.Pos() < s.loop.End()) {
							continue // tested once outside the loop, not on every iteration
						}
						if f.expr.Pos() > s.fetch.Pos() {
							continue
						}
						for _, sf := range m.expandFact(s.fr, f.expr, f.val, 0) {
							q := rs.ineq(sf.fr, sf.expr, sf.val)
							if q == nil {
								// `v != bound` ends the scan on the bound only if v starts on the scan's side of it and moves by one
								if l, op, rr, ok := cmpNorm(sf.expr); ok && ((op == token.NEQ && sf.val) || (op == token.EQL && !sf.val)) {
									d := rs.lin(sf.fr, l, 0)
									d.add(rs.lin(sf.fr, rr, 0), -1)
									if len(d.terms) == 2 && d.terms[c19VarKey(v)] != 0 && d.terms[c19SeqKey(want)] != 0 {
										undecided = fmt.Sprintf("`%s` relates %s to %s.SeqNum by inequality only: it bounds the scan if and only if the start value lies on the scan's side of the bound, which depends on values (accepted: an order comparison equivalent to `%s`)", src(fs, sf.expr), v.Name(), want.Name(), wantSrc)
									}
								}
								continue
							}
							kv, kb := c19VarKey(v), c19SeqKey(want)
							cv, cb := q.terms[kv], q.terms[kb]
							shown := src(fs, sf.expr)
							if !sf.val {
								shown = "!(" + shown + ")"
							}
							if len(q.terms) != 2 || cv == 0 || cb == 0 {
								if cv != 0 || cb != 0 {
									var others []string
									for k, n := range q.names {
										if k != kv && k != kb {
											others = append(others, n)
										}
									}
									sort.Strings(others)
									if cv != 0 {
										near = append(near, fmt.Sprintf("`%s` relates %s to {%s}, not to %s.SeqNum", shown, v.Name(), strings.Join(others, ", "), want.Name()))
									} else {
										near = append(near, fmt.Sprintf("`%s` compares {%s} with %s.SeqNum; none of them is the stepped variable %s, so the test is the same on every iteration and the scan walks past the bound", shown, strings.Join(others, ", "), want.Name(), v.Name()))
									}
								}
								continue
							}
							// the test is about the value of v where it stands; the value probed is v plus the steps still to
							// come before the probe: restate the bound for the value probed
							if betaOK && beta != 0 {
								rem := int64(0)
								for _, cy := range cycles {
									if cy.probed {
										for _, st := range cy.before {
											if st.stmt.Pos() > f.expr.Pos() {
												rem += int64(st.dir)
											}
										}
										break
									}
								}
								q.c += cv * rem
							}
							// down: lo.seq - p <= -1 ; up: p - hi.seq <= -1
							wantV, wantB := int64(-1), int64(1)
							if dir > 0 {
								wantV, wantB = 1, -1
							}
							switch {
							case cv != wantV || cb != wantB:
								near = append(near, fmt.Sprintf("`%s` has the bound on the wrong side (it keeps %s on the far side of %s.SeqNum)", shown, v.Name(), want.Name()))
							case q.sub:
								near = append(near, fmt.Sprintf("`%s` subtracts a constant from an unsigned sequence number; wrap-around at 0 is not decided", shown))
							case q.c == -1:
								r.OK(c, f.expr.Pos(), "`%s` controls the probe on every iteration and is `%s` in normal form for the value probed: every probe lies strictly between the bounds, the last one next to %s, and the scan ends after at most |mid - %s.SeqNum| requests", shown, wantSrc, want.Name(), want.Name())
								return
							case q.c < -1:
								near = append(near, fmt.Sprintf("`%s` stops the scan %d short of the bound: the state file(s) next to %s are never probed, so when they are the only ones available on this side the search steps past them and answers a later state", shown, -1-q.c, want.Name()))
							default:
								near = append(near, fmt.Sprintf("`%s` is not strict: the scan probes %s.SeqNum itself (or beyond), finds the bound state again and the search makes no progress", shown, want.Name()))
							}
						}
					}
					if undecided != "" && len(near) == 0 {
						r.Unknown(c, s.loop.Pos(), "%s", undecided)
						return
					}
					why := "no condition that controls the probe inside the loop relates " + v.Name() + " to " + want.Name() + ".SeqNum"
					if len(near) > 0 {
						why = strings.Join(near, "; ")
					}
					r.Bad(c, s.loop.Pos(), "%s. Required: `%s`. With all state files between the bound and the middle missing the scan does not end on its bound (unbounded requests / probes outside the open interval / a neighbour never probed)", why, wantSrc)
				}()
				// stop: once a state is found no further scan probe is made
				func() {
					c := name + " stop"
					if res == nil || fblk == nil {
						r.Unknown(c, s.fetch.Pos(), "the result of `%s` is not assigned to a variable", src(fs, s.fetch))
						return
					}
					again := token.NoPos
					resSet := c19Copies(info, sfi.Decl.Body, map[types.Object]bool{res: true})
					found := m.frameAtom(s.fr, m.nilAtom(resSet, false))
					m.walkFrom(fblk, fidx, found, func(n ast.Node) bool {
						// this probe again, or the probe of another scan living in the same function
						for _, s2 := range scans {
							if s2.fr.fi == sfi && s2.fr.call == s.fr.call && c19Contains(n, s2.fetch.Pos()) {
								again = n.Pos()
								return false
							}
						}
						return !c19Overwrites(info, n, resSet)
					})
					if again.IsValid() {
						r.Bad(c, s.loop.Pos(), "after `%s` has found a state (%s != nil) the loop can reach the probe again: the scan does not stop at the first available neighbour state and later (possibly missing) probes overwrite it", src(fs, s.fetch), res.Name())
						return
					}
					// in the search function: after this scan found something, no other scan may run
					rres := m.resultVar(par, s.site)
					if rres == nil {
						r.Unknown(c, s.site.Pos(), "the result of `%s` is not assigned to a variable", src(fs, s.site))
						return
					}
					rg := m.graph(fi)
					sblk, sidx := blockOf(rg.g, s.site.Pos())
					var other ast.Node
					if sblk != nil {
						rresSet := c19Copies(info, fi.Decl.Body, map[types.Object]bool{rres: true})
						foundR := m.nilAtom(rresSet, false)
						m.walkFrom(sblk, sidx, foundR, func(n ast.Node) bool {
							for st := range siteOf {
								if st == probeP.site && st != s.site {
									continue // the probe of the next iteration (it overwrites the result: the walk stops there)
								}
								if c19Contains(n, st.Pos()) {
									if st != s.site || s.fr == root {
										if st != s.site {
											other = st
										}
										return false
									}
								}
							}
							return !c19Overwrites(info, n, rresSet)
						})
					}
					if other != nil {
						r.Bad(c, other.Pos(), "after this scan has found a state (%s != nil) the search still runs `%s`: the neighbour found is overwritten by the other scan", rres.Name(), src(fs, other))
						return
					}
					r.OK(c, s.fetch.Pos(), "with %s != nil neither this probe nor another scan is reachable again (CFG walk with the nil tests of %s decided): the scan ends on the first state found", res.Name(), res.Name())
				}()
			}
			// middle: when the probe of the middle finds a state no scan runs
			func() {
				c := "scans@" + fname + " middle"
				mfi := midFr.fi
				mres := m.resultVar(parentsOf(r.P, mfi), probeP.fetch)
				mg := m.graph(mfi)
				mblk, midx := blockOf(mg.g, probeP.fetch.Pos())
				if mres == nil || mblk == nil || midRes == nil {
					r.Unknown(c, probeP.site.Pos(), "the result of the probe of the middle `%s` is not assigned to a variable", src(fs, probeP.fetch))
					return
				}
				var hit ast.Node
				mset := c19Copies(info, mfi.Decl.Body, map[types.Object]bool{mres: true})
				m.walkFrom(mblk, midx, m.frameAtom(midFr, m.nilAtom(mset, false)), func(n ast.Node) bool {
					for _, s2 := range scans {
						if s2.fr.fi == mfi && c19Contains(n, s2.fetch.Pos()) && hit == nil {
							hit = n
						}
					}
					return hit == nil && !c19Overwrites(info, n, mset)
				})
				if hit == nil && midFr != root {
					// in the search function: the helper's result, when a state, is not followed by a scan
					rg := m.graph(fi)
					if sblk, sidx := blockOf(rg.g, probeP.site.Pos()); sblk != nil {
						rset := c19Copies(info, fi.Decl.Body, map[types.Object]bool{midRes: true})
						m.walkFrom(sblk, sidx, m.nilAtom(rset, false), func(n ast.Node) bool {
							for st := range siteOf {
								if st != probeP.site && c19Contains(n, st.Pos()) && hit == nil {
									hit = n
								}
							}
							return hit == nil && !c19Overwrites(info, n, rset)
						})
					}
				}
				if hit != nil {
					r.Bad(c, hit.Pos(), "after the probe of the middle `%s` has found a state (%s != nil) the search still reaches `%s`: a neighbour scan runs although the middle exists and overwrites it", src(fs, probeP.fetch), mres.Name(), src(fs, hit))
					return
				}
				r.OK(c, probeP.fetch.Pos(), "with the middle found (%s != nil) no neighbour scan is reachable before the state is classified (CFG walk with the nil tests decided)", mres.Name())
			}()
			// progress: the probe of the middle lies strictly between the bounds
			func() {
				c := "scans@" + fname + " progress"
				rsm := &c19Resolver{m: m, keep: map[types.Object]bool{}, stale: stale}
				gap, haveGap := int64(0), false
				for _, f0 := range c19LoopStayFacts(outer) {
					for _, f := range m.expandFact(root, f0.expr, f0.val, 0) {
						if q := rsm.ineq(f.fr, f.expr, f.val); q != nil && len(q.terms) == 2 && q.terms[c19SeqKey(lo)] == 1 && q.terms[c19SeqKey(hi)] == -1 {
							gap, haveGap = q.c, true
						}
					}
				}
				verdict, why := rsm.middleInside(midFr, midArg, lo, hi)
				switch {
				case !haveGap:
					r.Unknown(c, outer.Pos(), "the distance the loop keeps between %s.SeqNum and %s.SeqNum is not a constant", lo.Name(), hi.Name())
				case gap > -2:
					r.Bad(c, outer.Pos(), "the loop goes on with %s.SeqNum - %s.SeqNum <= %d, i.e. also when no sequence number lies between the bounds: the midpoint is then a bound itself, its state is fetched again, the bounds do not move and the loop never ends (required: at least one number between them, `%s.SeqNum+1 < %s.SeqNum`)", lo.Name(), hi.Name(), gap, lo.Name(), hi.Name())
				case verdict == "bad":
					r.Bad(c, probeP.fetch.Pos(), "%s", why)
				case verdict == "unknown":
					r.Unknown(c, probeP.fetch.Pos(), "%s", why)
				default:
					r.OK(c, probeP.fetch.Pos(), "the loop goes on only with at least one sequence number between the bounds (%s.SeqNum - %s.SeqNum <= %d) and probes `%s`, the midpoint, which then lies strictly between them; the scans stay strictly inside too (bound obligations), the bounds are only replaced by the state probed (M6) and an iteration that finds nothing exits (exhausted): every iteration strictly shrinks the interval or ends the search", lo.Name(), hi.Name(), gap, why)
				}
			}()
			// exhausted: nothing found anywhere between the bounds
			func() {
				c := "scans@" + fname + " exhausted"
				if midFr != root {
					if bad, nret := m.helperNilReturns(probeP, parentsOf(r.P, midFr.fi)); bad != nil || nret == 0 {
						if bad == nil {
							r.Unknown(c, probeP.site.Pos(), "no return of %s is reached when every fetch finds nothing", midFr.fi.Name())
						} else {
							r.Bad(c, bad.Pos(), "with every fetch of %s finding nothing it still reaches `%s`, which hands back something other than no state: the search classifies a state that was not found", midFr.fi.Name(), src(fs, bad))
						}
						return
					}
				}
				rg := m.graph(fi)
				oblk, oidx := blockOf(rg.g, probeP.site.Pos())
				head, _ := m.loopBlocks(rg.g, outer)
				if oblk == nil || head == nil || midRes == nil {
					r.Unknown(c, outer.Pos(), "the probe of the middle is not assigned to a variable / loop not found in the control-flow graph")
					return
				}
				isSuccess := func(ret *ast.ReturnStmt) bool {
					return len(ret.Results) > 0 && !info.Types[ret.Results[0]].IsNil()
				}
				// (1) every success return reachable from the loop returns the upper bound
				var anyRet *ast.ReturnStmt
				var badRet *ast.ReturnStmt
				for b := range reachableFrom([]*cfg.Block{head}, nil) {
					for _, n := range b.Nodes {
						if ret, ok := n.(*ast.ReturnStmt); ok && isSuccess(ret) {
							anyRet = ret
							if !m.returnsBound(fi, ret.Results[0], hi) && badRet == nil {
								badRet = ret
							}
						}
					}
				}
				// (2) with every fetch of this iteration answering "missing", the walk must not update a bound or start
				// the next iteration, and must reach a return of the upper bound
				missing := m.nilAtom(c19Copies(info, fi.Decl.Body, stateVars), true)
				var update ast.Node
				var exhaustedRet *ast.ReturnStmt
				again := false
				m.walkFrom(oblk, oidx, missing, func(n ast.Node) bool {
					if c19Contains(n, probeP.site.Pos()) {
						again = true
						return false
					}
					if _, isRet := n.(*ast.ReturnStmt); !isRet && update == nil && (m.assignsBound(n, lo, 0) || m.assignsBound(n, hi, 0)) {
						update = n
					}
					if ret, ok := n.(*ast.ReturnStmt); ok && isSuccess(ret) && exhaustedRet == nil {
						exhaustedRet = ret
					}
					return true
				})
				switch {
				case anyRet == nil:
					r.Unknown(c, outer.Pos(), "no `return <state>, …` is reachable from the binary-search loop in %s", fname)
				case badRet != nil && badRet != exhaustedRet:
					r.Bad(c, badRet.Pos(), "the search can end with `%s`, which is not the upper bound %s of `%s`. The loop keeps %s.Timestamp < t <= %s.Timestamp, so the first state at or after t is %s", src(fs, badRet), hi.Name(), src(fs, boundCond), lo.Name(), hi.Name(), hi.Name())
				case exhaustedRet != nil && !m.returnsBound(fi, exhaustedRet.Results[0], hi):
					r.Bad(c, exhaustedRet.Pos(), "with every state file strictly between %s and %s missing (all probes of one iteration find nothing) the search answers `%s`, but its normal exit answers %s. The loop keeps %s.Timestamp < t <= %s.Timestamp, so `%s` is not the first state at or after t (e.g. states {1,9,10}, t between 1 and 9: the answer must be 9)",
						lo.Name(), hi.Name(), src(fs, exhaustedRet), hi.Name(), lo.Name(), hi.Name(), src(fs, exhaustedRet.Results[0]))
				case update != nil:
					r.Bad(c, update.Pos(), "with every probe of one iteration finding nothing (%s == nil) the search still reaches `%s`: a bound is set from a missing state", midRes.Name(), src(fs, update))
				case again:
					r.Bad(c, outer.Pos(), "with every probe of one iteration finding nothing the loop starts the next iteration with unchanged bounds: it probes the same files forever")
				case exhaustedRet == nil:
					r.Unknown(c, outer.Pos(), "with every probe of one iteration finding nothing no `return %s, …` is reached", hi.Name())
				default:
					r.OK(c, exhaustedRet.Pos(), "with every probe of one iteration finding nothing the only way on is `%s` (no bound update, no next iteration; CFG walk with the nil tests decided), and every success return reachable from the loop returns %s: with nothing available between the bounds the upper bound is the first state at or after t", src(fs, exhaustedRet), hi.Name())
				}
			}()
			if dirs[-1] && dirs[+1] {
				r.OK("scans@"+fname+" both directions", fi.Decl.Pos(), "a missing middle state is looked for towards the lower and towards the upper bound")
			} else if len(scans) > 0 {
				only := "in no recognised direction"
				if dirs[-1] {
					only = "down only"
				} else if dirs[+1] {
					only = "up only"
				}
				r.Bad("scans@"+fname+" both directions", fi.Decl.Pos(), "neighbour scans in %s go %s: available states on the other side of a missing middle are never considered", fname, only)
			}
		}
	}
	c19M2Errors(r, m)
	r.Stat("binary_search_loops", nsearch)
	r.Stat("neighbour_scans", nscan)
	if nscan == 0 {
		r.Anchor("neighbour scans (loops calling the state fetch, reached from the binary-search loop over lo.SeqNum < hi.SeqNum)")
	}
}

// outerVariedBefore: the bound variable is assigned inside the binary-search loop body at or before the scan site.
func c19OuterVariedBefore(m *c19Model, outer *ast.ForStmt, want types.Object, site ast.Node) (token.Pos, bool) {
	found := token.NoPos
	ast.Inspect(outer.Body, func(n ast.Node) bool {
		if st, ok := n.(ast.Stmt); ok && st.Pos() <= site.End() {
			switch st.(type) {
			case *ast.AssignStmt, *ast.ExprStmt:
				if m.assignsBound(st, want, 0) {
					found = st.Pos()
				}
			}
		}
		return true
	})
	return found, found.IsValid()
}

// loopBlocks returns the head (where the next iteration starts) and the body-entry block of a `for`.
func (m *c19Model) loopBlocks(g *cfg.CFG, s *ast.ForStmt) (head, body *cfg.Block) {
	for _, b := range g.Blocks {
		if b.Stmt != ast.Stmt(s) {
			continue
		}
		switch b.Kind {
		case cfg.KindForLoop:
			head = b
		case cfg.KindForBody:
			body = b
		}
	}
	if head == nil {
		head = body
	}
	return
}

// blockInside: the block belongs to the loop (its first node, or the statement it stems from, lies in the loop).
func (m *c19Model) blockInside(b *cfg.Block, s *ast.ForStmt) bool {
	if len(b.Nodes) > 0 {
		return c19Contains(s, b.Nodes[0].Pos())
	}
	if b.Stmt != nil {
		if b.Stmt == ast.Stmt(s) {
			return b.Kind != cfg.KindForDone
		}
		if !c19Contains(s, b.Stmt.Pos()) {
			return false
		}
		// the "done" block of a statement that ends the loop body lies inside as long as the statement does
		return true
	}
	return false
}
