package rules

// c16_builtin.go — builtins of the C16 abstract evaluator (Go's append / slicing aliasing rules are kept).

import (
	"go/ast"
	"go/types"
)

func (m *c16M) builtin(f *c16Frame, call *ast.CallExpr, name string) c16Val {
	arg := func(i int) c16Val { return m.eval(f, call.Args[i]) }
	switch name {
	case "len", "cap":
		v := arg(0)
		if p, ok := v.(*c16Ptr); ok {
			v = p.load()
		}
		switch x := v.(type) {
		case c16Slice:
			if name == "cap" {
				return int64(x.cap)
			}
			return int64(x.n)
		case string:
			return int64(len(x))
		case *c16Map:
			return int64(len(x.m))
		case *c16Arr:
			return int64(len(x.e))
		case c16Nil:
			return int64(0)
		case *c16Opq:
			return &c16Opq{typ: types.Typ[types.Int], why: name + "(" + x.why + ")"}
		}
		m.abort("%s of %T at %s", name, v, m.pos(call))
	case "append":
		return m.appendCall(f, call)
	case "make":
		t := f.info.TypeOf(call.Args[0])
		switch u := t.Underlying().(type) {
		case *types.Slice:
			n, ok := m.toInt(arg(1), call)
			c := n
			if ok && len(call.Args) > 2 {
				c, ok = m.toInt(arg(2), call)
			}
			if !ok {
				m.abort("make with an opaque size at %s", m.pos(call))
			}
			if n < 0 || c < n {
				m.gopanic("makeslice: len/cap out of range at %s", m.pos(call))
			}
			elems := make([]c16Val, c)
			for i := range elems {
				elems[i] = c16Zero(u.Elem())
			}
			return c16Slice{typ: t, arr: &c16Backing{e: elems}, n: n, cap: c}
		case *types.Map:
			for _, a := range call.Args[1:] {
				m.eval(f, a)
			}
			return &c16Map{typ: t, m: map[string]c16Val{}, k: map[string]c16Val{}}
		}
		m.abort("make of %s at %s", t, m.pos(call))
	case "new":
		t := f.info.TypeOf(call.Args[0])
		return m.newPtr(t, &c16Cell{v: c16Zero(t)})
	case "copy":
		dst, ok1 := arg(0).(c16Slice)
		srcV := arg(1)
		src, ok2 := srcV.(c16Slice)
		if !ok1 || !ok2 {
			m.abort("copy on %T at %s", srcV, m.pos(call))
		}
		n := min(dst.n, src.n)
		tmp := make([]c16Val, n)
		for i := 0; i < n; i++ {
			tmp[i] = c16Copy(src.at(i))
		}
		for i := 0; i < n; i++ {
			dst.set(i, tmp[i])
		}
		return int64(n)
	case "delete":
		if mp, ok := arg(0).(*c16Map); ok {
			if k, ok := c16Key(arg(1)); ok {
				delete(mp.m, k)
				delete(mp.k, k)
			}
		}
		return nil
	case "panic":
		m.gopanic("panic(%s) at %s", c16Show(arg(0)), m.pos(call))
	case "min", "max":
		best := arg(0)
		for i := 1; i < len(call.Args); i++ {
			v := arg(i)
			a, ok1 := best.(int64)
			b, ok2 := v.(int64)
			if !ok1 || !ok2 {
				return &c16Opq{typ: f.info.TypeOf(call), why: name + " of non-integers"}
			}
			if (name == "min" && b < a) || (name == "max" && b > a) {
				best = b
			}
		}
		return best
	case "print", "println":
		return nil
	}
	m.abort("unsupported builtin %s at %s", name, m.pos(call))
	return nil
}

func (m *c16M) appendCall(f *c16Frame, call *ast.CallExpr) c16Val {
	t := f.info.TypeOf(call)
	sl, ok := t.Underlying().(*types.Slice)
	if !ok {
		m.abort("append yielding %s at %s", t, m.pos(call))
	}
	base := m.eval(f, call.Args[0])
	var s c16Slice
	switch b := base.(type) {
	case c16Slice:
		s = b
	case c16Nil:
		s = c16Slice{typ: t}
	case *c16Opq:
		for _, a := range call.Args[1:] {
			m.eval(f, a)
		}
		return &c16Opq{typ: t, why: "append to " + b.why}
	default:
		m.abort("append to %T at %s", base, m.pos(call))
	}
	if s.typ == nil {
		s.typ = t
	}
	var add []c16Val
	if call.Ellipsis.IsValid() {
		switch x := m.eval(f, call.Args[1]).(type) {
		case c16Slice:
			for _, e := range x.elems() {
				add = append(add, c16Copy(e))
			}
		case c16Nil:
		case string:
			for i := 0; i < len(x); i++ {
				add = append(add, int64(x[i]))
			}
		case *c16Opq:
			return &c16Opq{typ: t, why: "append of " + x.why + "..."}
		default:
			m.abort("append of %T... at %s", x, m.pos(call))
		}
	} else {
		for _, a := range call.Args[1:] {
			v := c16Copy(m.eval(f, a))
			if _, isNil := v.(c16Nil); isNil {
				if _, isSlice := sl.Elem().Underlying().(*types.Slice); isSlice {
					v = c16Slice{typ: sl.Elem()}
				}
			}
			add = append(add, v)
		}
	}
	total := s.n + len(add)
	if s.arr != nil && total <= s.cap { // room left: written in place, visible through every alias
		for i, v := range add {
			s.arr.e[s.off+s.n+i] = v
		}
		s.n = total
		return s
	}
	newCap := total
	if s.cap > 0 && 2*s.cap > total {
		newCap = 2 * s.cap
	}
	elems := make([]c16Val, newCap)
	for i := 0; i < s.n; i++ {
		elems[i] = c16Copy(s.at(i))
	}
	copy(elems[s.n:], add)
	for i := total; i < newCap; i++ {
		elems[i] = c16Zero(sl.Elem())
	}
	return c16Slice{typ: s.typ, arr: &c16Backing{e: elems}, n: total, cap: newCap}
}
