package rules

import (
	"go/ast"
	"go/types"

	"golang.org/x/tools/go/cfg"

	"osmcheck/core"
)

// skipStoresCovered: the covering argument for a pass over the ways that leaves out the ways found in the skippable set:
// wherever a way is put into that set, the nodes of that same way are recorded too (a way event for it dominates the
// store, or lies on every path from the store to the end of the iteration / function). It returns "" or the first
// store for which this cannot be shown.
func (g *c17G8An) skipStoresCovered() string {
	if g.o.skip == nil {
		return "the skippable set was not found"
	}
	info := g.a.info
	for _, fn := range g.a.list {
		why := ""
		ast.Inspect(fn.Decl.Body, func(n ast.Node) bool {
			as, ok := n.(*ast.AssignStmt)
			if !ok || why != "" {
				return why == ""
			}
			for _, l := range as.Lhs {
				if ix, ok := ast.Unparen(l).(*ast.IndexExpr); ok && c17FieldOf(info, ix.X) == g.o.skip {
					why = g.skipStore(fn, as, ix.Index, 3)
				}
			}
			return why == ""
		})
		if why != "" {
			return why
		}
	}
	return ""
}

func (g *c17G8An) skipStore(fn *c17Fn, at ast.Node, key ast.Expr, depth int) string {
	a, info, fset := g.a, g.a.info, g.a.fset
	k := stripDerefParen(a.resolve(fn, stripDerefParen(key)))
	// the store may live in a helper taking the way id: decide at the call sites
	if id, ok := k.(*ast.Ident); ok {
		if p, ok := objOf(info, id).(*types.Var); ok && fn.isParam(p) {
			if depth == 0 || !a.onlyCalled(fn.Obj) {
				return "`" + src(fset, at) + "` in " + fn.Name() + " (its callers are not all known)"
			}
			for _, cs := range a.calls[fn.Obj] {
				arg := argForParam(info, fn.FuncInfo, cs.call, p)
				if arg == nil {
					return "`" + src(fset, cs.call) + "`"
				}
				if why := g.skipStore(cs.fn, cs.call, arg, depth-1); why != "" {
					return why
				}
			}
			return ""
		}
	}
	sel, ok := k.(*ast.SelectorExpr)
	if !ok || namedPath(info.TypeOf(sel)) != core.ModulePath+".WayID" {
		return "`" + src(fset, at) + "` in " + fn.Name() + " (the key is not the ID of a way variable)"
	}
	wid, ok := stripDerefParen(a.resolveAlias(fn, sel.X)).(*ast.Ident)
	if !ok {
		// a field of a struct carrying the way (parts.outerWay): follow assignments to that field in fn
		return g.skipStoreField(fn, at, sel.X)
	}
	w := objOf(info, wid)
	if g.wayCovered(fn, at, w) {
		return ""
	}
	// a local that is given the way of an earlier place (`outerWay = way`): the way must be covered there
	n, okAll := 0, true
	ast.Inspect(fn.Decl.Body, func(x ast.Node) bool {
		as, ok := x.(*ast.AssignStmt)
		if !ok || len(as.Lhs) != len(as.Rhs) {
			return true
		}
		for i, l := range as.Lhs {
			if objOf(info, l) != w {
				continue
			}
			if tv, ok := info.Types[ast.Unparen(as.Rhs[i])]; ok && tv.IsNil() {
				continue
			}
			n++
			src2, ok := stripDerefParen(a.resolveAlias(fn, as.Rhs[i])).(*ast.Ident)
			if !ok || objOf(info, src2) == w || !g.wayCovered(fn, as, objOf(info, src2)) {
				okAll = false
			}
		}
		return true
	})
	if n > 0 && okAll {
		return ""
	}
	return "`" + src(fset, at) + "` in " + fn.Name() + ": the nodes of `" + wid.Name + "` are not recorded on every path through that place"
}

// skipStoreField: the way is held in a field of a local struct (`parts.outerWay`): every assignment of that field in
// fn or in the function that built the struct must take a covered way.
func (g *c17G8An) skipStoreField(fn *c17Fn, at ast.Node, holder ast.Expr) string {
	info, fset := g.a.info, g.a.fset
	f := c17FieldOf(info, stripDerefParen(holder))
	if f == nil {
		return "`" + src(fset, at) + "` in " + fn.Name() + " (the way is not held in a variable or field)"
	}
	n, okAll := 0, true
	for _, h := range g.a.list {
		ast.Inspect(h.Decl.Body, func(x ast.Node) bool {
			as, ok := x.(*ast.AssignStmt)
			if !ok || len(as.Lhs) != len(as.Rhs) {
				return true
			}
			for i, l := range as.Lhs {
				if c17FieldOf(info, ast.Unparen(l)) != f {
					continue
				}
				if tv, ok := info.Types[ast.Unparen(as.Rhs[i])]; ok && tv.IsNil() {
					continue
				}
				n++
				id, ok := stripDerefParen(g.a.resolveAlias(h, as.Rhs[i])).(*ast.Ident)
				if !ok || !g.wayCovered(h, as, objOf(info, id)) {
					okAll = false
				}
			}
			return true
		})
	}
	if n > 0 && okAll {
		return ""
	}
	return "`" + src(fset, at) + "` in " + fn.Name() + ": the way held in `" + src(fset, holder) + "` is not known to have its nodes recorded"
}

// wayCovered: a way event for w dominates pos, or lies on every path from pos to the end of the iteration / function.
func (g *c17G8An) wayCovered(fn *c17Fn, pos ast.Node, w types.Object) bool {
	if w == nil {
		return false
	}
	pb := fn.blockAt(pos.Pos())
	if pb == nil {
		return false
	}
	for _, ev := range g.wayEvents(fn, g.isVar(fn, w)) {
		evb := g.eventBlocks(fn, ev)
		for b := range evb {
			if b == pb || fn.dom[pb][b] {
				if b != pb || ev.Pos() < pos.Pos() {
					return true
				}
				return true // same block, later: straight-line code reaches it
			}
		}
		// every path onwards from pos passes the event
		var head, done *cfg.Block
		if loop, ok := g.innermostLoop(fn, pos).(*ast.RangeStmt); ok {
			head, _, done = fn.loopBlocks(loop)
		}
		avoid := map[*cfg.Block]bool{}
		for b := range evb {
			avoid[b] = true
		}
		okPath := true
		seen := map[*cfg.Block]bool{}
		work := append([]*cfg.Block{}, pb.Succs...)
		for len(work) > 0 && okPath {
			b := work[len(work)-1]
			work = work[:len(work)-1]
			if seen[b] || avoid[b] {
				continue
			}
			seen[b] = true
			if b == head || b == done || c17IsExit(g.a.info, b) {
				okPath = false
			}
			work = append(work, b.Succs...)
		}
		if okPath && len(pb.Succs) > 0 {
			return true
		}
	}
	return false
}
