package rules

// c19_interp.go — a small abstract evaluator for the decision and formatting functions of package
// replication (URL builders, fetchers up to the HTTP exchange, NotFound, Dir, decodeTime, the
// changeset off-by-one correction, the …StateAt wrappers).
//
// Why an evaluator: these functions are *decision functions* over a finite abstract domain
// (replication kind × a handful of sequence numbers × HTTP status × kind of error). Whether the code
// is an if/else, an inverted if, a switch, a type switch, an early return, whether a part lives in a
// helper, whether a constant has a name: none of that changes what the function computes, so none
// of that may change the verdict. The evaluator walks the syntax of the function (type-resolved
// through go/types), with
//   - concrete values where the abstract input is concrete (constants, the sequence number, the
//     status code, strings built by fmt.Sprintf / + from concrete parts),
//   - opaque values for everything that comes from outside (HTTP bodies, parsed numbers, contexts,
//     timestamps); an opaque integer keeps its identity under ±constant so that "the parsed
//     sequence plus one" is recognisable,
//   - a decision script for branches on opaque conditions: the function is re-evaluated once per
//     combination of decisions, i.e. every path is explored (bounded),
//   - calls into package replication followed (receiver and parameters bound, interface methods
//     dispatched on the dynamic type of the abstract value), calls out of it modelled (a few pure
//     functions) or answered with opaque results.
// Nothing of the library is compiled or run: the evaluator interprets the type-checked syntax.
//
// Outside the supported subset (goroutines, select, goto/labels, loops on opaque conditions, maps,
// generics) the evaluation of the current call is abandoned: at the top level the path is reported
// as not decided (Unknown), inside a callee the callee's results become opaque ("havoc").

import (
	"fmt"
	"go/ast"
	"go/constant"
	"go/token"
	"go/types"
	"strconv"
	"strings"
	"time"
)

// ---------------------------------------------------------------- values

type c19Value interface{}

// c19Const is a concrete boolean, integer or string; typ is its dynamic type (may be a named kind type).
type c19Const struct {
	v   constant.Value
	typ types.Type
}

// c19Nil is the nil pointer / interface / func / slice.
type c19Nil struct{}

// c19Obj is the storage of a struct value; c19Ptr points to one.
type c19Obj struct {
	typ    types.Type // the (named) struct type
	fields map[*types.Var]c19Value
	tag    string
	havoc  string   // non-empty: a function that was not evaluated may have changed the object
	sb     []string // contents, when the object is a strings.Builder
	sbBad  bool     // something not concrete was written to it
}

type c19Ptr struct{ obj *c19Obj }

// c19CellPtr is the address of a non-struct variable.
type c19CellPtr struct{ cell *c19Cell }

// c19FieldPtr is the address of a field of a struct value (`p := &s.SeqNum`).
type c19FieldPtr struct {
	base c19Value
	f    *types.Var
}

type c19Closure struct {
	lit *ast.FuncLit
	env *c19Env
}

// c19FuncVal is a function or bound method used as a value.
type c19FuncVal struct {
	fn   *types.Func
	recv c19Value
}

type c19Slice struct{ elems []c19Value }

type c19Tuple []c19Value

type c19Time struct{ t time.Time }

// c19Opaque is a value the evaluation knows nothing about except where it came from. Integers keep
// identity under ± constant: (id, off) denotes "the unknown number #id plus off".
type c19Opaque struct {
	id     int
	typ    types.Type
	origin string
	off    int64
	nonNil bool
	fields map[*types.Var]c19Value
}

type c19Cell struct{ v c19Value }

type c19Env struct {
	vars    map[types.Object]*c19Cell
	parent  *c19Env
	results []*c19Cell // named results
	sig     *types.Signature
}

func (e *c19Env) lookup(o types.Object) *c19Cell {
	for x := e; x != nil; x = x.parent {
		if c, ok := x.vars[o]; ok {
			return c
		}
	}
	return nil
}

// c19Event is something observable a path did (an HTTP request built, the search called, …).
type c19Event struct {
	kind string
	args []c19Value
	pos  token.Pos
}

// c19Abort ends the evaluation of the current call (or, with done, of the whole path on purpose).
type c19Abort struct {
	why  string
	done bool
}

// c19Hooks let a check intercept calls.
type c19Hooks struct {
	// onCall is asked before any call of a named function or method (inside or outside the
	// package); handled=true means the result is the value to use.
	onCall func(in *c19Interp, fn *types.Func, recv c19Value, args []c19Value, call *ast.CallExpr) (c19Value, bool)
	// globals overrides the value of package-level variables.
	globals map[types.Object]c19Value
}

type c19Interp struct {
	m            *c19Model
	info         *types.Info
	hooks        c19Hooks
	script       []bool
	pos          int
	events       []c19Event
	notes        []string
	depth        int
	steps        int
	nextID       int
	noFork       int
	singleAssert int // >0 while a single-value type assertion is evaluated
	nilness      map[int]bool
	globals      map[types.Object]*c19Cell
}

// c19Path is the outcome of one path through the evaluated function.
type c19Path struct {
	ret     c19Value // single value, c19Tuple, or nil
	events  []c19Event
	notes   []string
	forks   int
	aborted string // non-empty: the path could not be evaluated to its end
	done    bool   // ended on purpose by a hook
	panics  bool
}

const (
	c19MaxPaths = 512
	c19MaxSteps = 20000
	c19MaxDepth = 24
	c19MaxIter  = 128
)

// c19Explore evaluates run once per combination of decisions on opaque conditions.
func c19Explore(m *c19Model, hooks c19Hooks, run func(in *c19Interp) c19Value) (paths []c19Path, complete bool) {
	var script []bool
	for n := 0; n < c19MaxPaths; n++ {
		in := &c19Interp{m: m, info: m.info, hooks: hooks, script: script, nilness: map[int]bool{}, globals: map[types.Object]*c19Cell{}}
		var p c19Path
		func() {
			defer func() {
				if e := recover(); e != nil {
					a, ok := e.(c19Abort)
					if !ok {
						a = c19Abort{why: fmt.Sprintf("the evaluator failed on this code (%v)", e)}
					}
					if a.done {
						p.done = true
					} else if a.why == "panic" {
						p.panics = true
					} else {
						p.aborted = a.why
					}
				}
			}()
			p.ret = run(in)
		}()
		p.events, p.notes, p.forks = in.events, in.notes, in.pos
		paths = append(paths, p)
		s := append([]bool{}, in.script[:in.pos]...)
		for len(s) > 0 && !s[len(s)-1] {
			s = s[:len(s)-1]
		}
		if len(s) == 0 {
			return paths, true
		}
		s[len(s)-1] = false
		script = s
	}
	return paths, false
}

func (in *c19Interp) abort(format string, args ...interface{}) {
	panic(c19Abort{why: fmt.Sprintf(format, args...)})
}

func (in *c19Interp) decide() bool {
	if in.noFork > 0 {
		in.abort("loop controlled by a value the evaluation does not know")
	}
	if in.pos < len(in.script) {
		b := in.script[in.pos]
		in.pos++
		return b
	}
	in.script = append(in.script, true)
	in.pos++
	return true
}

func (in *c19Interp) opaque(typ types.Type, origin string) *c19Opaque {
	in.nextID++
	return &c19Opaque{id: in.nextID, typ: typ, origin: origin}
}

func (in *c19Interp) event(kind string, pos token.Pos, args ...c19Value) {
	in.events = append(in.events, c19Event{kind: kind, args: args, pos: pos})
}

func (in *c19Interp) src(n ast.Node) string { return src(in.m.fset, n) }

// ---------------------------------------------------------------- helpers on values

func c19Bool(b bool) c19Const { return c19Const{v: constant.MakeBool(b), typ: types.Typ[types.Bool]} }
func c19Str(s string) c19Const {
	return c19Const{v: constant.MakeString(s), typ: types.Typ[types.String]}
}
func c19Uint(n uint64, typ types.Type) c19Const {
	if typ == nil {
		typ = types.Typ[types.Uint64]
	}
	return c19Const{v: constant.MakeUint64(n), typ: typ}
}

func c19AsString(v c19Value) (string, bool) {
	if c, ok := v.(c19Const); ok && c.v.Kind() == constant.String {
		return constant.StringVal(c.v), true
	}
	return "", false
}

func c19AsInt(v c19Value) (int64, bool) {
	if c, ok := v.(c19Const); ok && c.v.Kind() == constant.Int {
		return constant.Int64Val(c.v)
	}
	return 0, false
}

func c19AsUint(v c19Value) (uint64, bool) {
	if c, ok := v.(c19Const); ok && c.v.Kind() == constant.Int {
		return constant.Uint64Val(c.v)
	}
	return 0, false
}

// c19Show renders a value for diagnostics.
func c19Show(v c19Value) string {
	switch x := v.(type) {
	case nil:
		return "<nothing>"
	case c19Const:
		return x.v.String()
	case c19Nil:
		return "nil"
	case *c19Obj:
		return "{" + x.tag + c19TypeName(x.typ) + "}"
	case c19Ptr:
		return "&" + c19Show(x.obj)
	case *c19Opaque:
		s := "«" + x.origin + "»"
		if x.off > 0 {
			s += fmt.Sprintf("+%d", x.off)
		} else if x.off < 0 {
			s += fmt.Sprintf("%d", x.off)
		}
		return s
	case c19Tuple:
		var s []string
		for _, e := range x {
			s = append(s, c19Show(e))
		}
		return "(" + strings.Join(s, ", ") + ")"
	case c19Time:
		return x.t.UTC().Format(time.RFC3339Nano)
	case c19Closure:
		return "func literal"
	case c19FuncVal:
		return "func " + x.fn.Name()
	case c19Slice:
		return fmt.Sprintf("slice of %d", len(x.elems))
	case c19Bytes:
		return fmt.Sprintf("[]byte(%q)", x.b)
	}
	return fmt.Sprintf("%T", v)
}

func c19TypeName(t types.Type) string {
	if t == nil {
		return "?"
	}
	return types.TypeString(t, func(p *types.Package) string { return p.Name() })
}

func (in *c19Interp) zero(t types.Type) c19Value {
	switch u := t.Underlying().(type) {
	case *types.Basic:
		switch {
		case u.Info()&types.IsBoolean != 0:
			return c19Const{v: constant.MakeBool(false), typ: t}
		case u.Info()&types.IsString != 0:
			return c19Const{v: constant.MakeString(""), typ: t}
		case u.Info()&types.IsInteger != 0:
			return c19Const{v: constant.MakeInt64(0), typ: t}
		case u.Kind() == types.UnsafePointer || u.Kind() == types.UntypedNil:
			return c19Nil{}
		}
		return in.opaque(t, "zero "+c19TypeName(t))
	case *types.Pointer, *types.Interface, *types.Signature, *types.Slice, *types.Map, *types.Chan:
		return c19Nil{}
	case *types.Struct:
		if namedPath(t) == "time.Time" {
			return c19Time{}
		}
		return &c19Obj{typ: t, fields: map[*types.Var]c19Value{}}
	}
	return in.opaque(t, "zero "+c19TypeName(t))
}

// copyVal gives struct values copy semantics.
func c19CopyVal(v c19Value) c19Value {
	if o, ok := v.(*c19Obj); ok {
		n := &c19Obj{typ: o.typ, tag: o.tag, fields: map[*types.Var]c19Value{}, sb: append([]string{}, o.sb...), sbBad: o.sbBad}
		for k, f := range o.fields {
			n.fields[k] = c19CopyVal(f)
		}
		return n
	}
	return v
}

// dynType is the dynamic type of a value, nil when unknown (or the value is nil).
func (in *c19Interp) dynType(v c19Value) types.Type {
	switch x := v.(type) {
	case c19Const:
		return x.typ
	case *c19Obj:
		return x.typ
	case c19Ptr:
		return types.NewPointer(x.obj.typ)
	case c19Time:
		return in.m.timeT
	}
	return nil
}

// field reads a struct field of an object, pointer or opaque value.
func (in *c19Interp) field(v c19Value, f *types.Var, what string) c19Value {
	switch x := v.(type) {
	case c19Ptr:
		return in.field(x.obj, f, what)
	case *c19Obj:
		if fv, ok := x.fields[f]; ok {
			return fv
		}
		var z c19Value
		if x.havoc != "" {
			z = in.opaque(f.Type(), f.Name()+" after "+x.havoc)
		} else {
			z = in.zero(f.Type())
		}
		x.fields[f] = z
		return z
	case *c19Opaque:
		if x.fields == nil {
			x.fields = map[*types.Var]c19Value{}
		}
		if fv, ok := x.fields[f]; ok {
			return fv
		}
		o := in.opaque(f.Type(), x.origin+"."+f.Name())
		x.fields[f] = o
		return o
	case c19Nil:
		panic(c19Abort{why: "panic"})
	}
	return in.opaque(f.Type(), what)
}

func (in *c19Interp) setField(v c19Value, f *types.Var, nv c19Value) {
	switch x := v.(type) {
	case c19Ptr:
		x.obj.fields[f] = nv
	case *c19Obj:
		x.fields[f] = nv
	case *c19Opaque:
		if x.fields == nil {
			x.fields = map[*types.Var]c19Value{}
		}
		x.fields[f] = nv
	case c19Nil:
		panic(c19Abort{why: "panic"})
	}
}

// ---------------------------------------------------------------- expressions

func (in *c19Interp) tick() {
	in.steps++
	if in.steps > c19MaxSteps {
		in.abort("evaluation budget exhausted")
	}
}

func (in *c19Interp) eval(e ast.Expr, env *c19Env) c19Value {
	in.tick()
	if tv, ok := in.info.Types[e]; ok && tv.Value != nil {
		return c19Const{v: tv.Value, typ: tv.Type}
	}
	switch x := e.(type) {
	case *ast.ParenExpr:
		return in.eval(x.X, env)
	case *ast.Ident:
		return in.evalIdent(x, env)
	case *ast.BasicLit:
		in.abort("literal `%s` without a constant value", in.src(e))
	case *ast.FuncLit:
		return c19Closure{lit: x, env: env}
	case *ast.CompositeLit:
		return in.evalComposite(x, env)
	case *ast.StarExpr:
		v := in.eval(x.X, env)
		switch p := v.(type) {
		case c19Ptr:
			return p.obj
		case c19CellPtr:
			return p.cell.v
		case c19FieldPtr:
			return in.field(p.base, p.f, in.src(e))
		case c19Nil:
			panic(c19Abort{why: "panic"})
		}
		return in.opaque(in.info.TypeOf(e), "*"+in.src(x.X))
	case *ast.UnaryExpr:
		return in.evalUnary(x, env)
	case *ast.BinaryExpr:
		return in.evalBinary(x, env)
	case *ast.SelectorExpr:
		return in.evalSelector(x, env)
	case *ast.IndexExpr:
		base := in.eval(x.X, env)
		idx := in.eval(x.Index, env)
		if s, ok := base.(c19Slice); ok {
			if i, ok := c19AsInt(idx); ok {
				if i < 0 || int(i) >= len(s.elems) {
					panic(c19Abort{why: "panic"})
				}
				return s.elems[i]
			}
		}
		if mv, ok := base.(c19MapVal); ok {
			if v, _, decided := in.mapIndex(mv, idx); decided {
				return v
			}
		}
		// a byte of a concrete string or byte slice
		str, isText := "", false
		if bs, ok := base.(c19Bytes); ok {
			str, isText = bs.b, true
		} else if s, ok := c19AsString(base); ok {
			str, isText = s, true
		}
		if i, ok := c19AsInt(idx); ok && isText {
			if i < 0 || int(i) >= len(str) {
				panic(c19Abort{why: "panic"})
			}
			return c19ByteConst(str[i])
		}
		return in.opaque(in.info.TypeOf(e), in.src(e))
	case *ast.SliceExpr:
		if v, ok := in.emptyPrefix(x, env); ok {
			return v
		}
		return in.evalSlice(x, env)
	case *ast.TypeAssertExpr:
		// when the dynamic type is not known the single-value form relies on the assertion holding
		in.singleAssert++
		v, ok := in.typeAssert(x, env)
		in.singleAssert--
		if !ok {
			panic(c19Abort{why: "panic"})
		}
		return v
	case *ast.CallExpr:
		return in.evalCall(x, env)
	case *ast.KeyValueExpr:
		in.abort("key-value outside a literal")
	}
	in.abort("expression `%s` (%T) is outside the evaluated subset", in.src(e), e)
	return nil
}

func (in *c19Interp) evalIdent(x *ast.Ident, env *c19Env) c19Value {
	if x.Name == "_" {
		return in.opaque(types.Typ[types.Invalid], "_")
	}
	switch o := in.info.Uses[x].(type) {
	case *types.Nil:
		return c19Nil{}
	case *types.Const:
		return c19Const{v: o.Val(), typ: o.Type()}
	case *types.Func:
		return c19FuncVal{fn: o}
	case *types.Var:
		if c := env.lookup(o); c != nil {
			return c.v
		}
		if o.Parent() == o.Pkg().Scope() {
			return in.global(o).v
		}
		// a variable of an enclosing function we did not enter through (should not happen)
		return in.opaque(o.Type(), o.Name())
	case *types.Builtin:
		in.abort("builtin %s used as a value", x.Name)
	case nil:
		if o := in.info.Defs[x]; o != nil {
			if c := env.lookup(o); c != nil {
				return c.v
			}
		}
	}
	in.abort("identifier `%s` does not denote a value the evaluation models", x.Name)
	return nil
}

// global evaluates the initialiser of a package-level variable (once per path) unless the package
// assigns the variable somewhere else.
func (in *c19Interp) global(o *types.Var) *c19Cell {
	if c, ok := in.globals[o]; ok {
		return c
	}
	c := &c19Cell{}
	in.globals[o] = c
	if v, ok := in.hooks.globals[o]; ok {
		c.v = v
		return c
	}
	c.v = in.opaque(o.Type(), "package variable "+o.Name())
	if o.Pkg() != in.m.pk.Types || in.m.assignedGlobals[o] {
		return c
	}
	for _, f := range in.m.pk.Syntax {
		for _, d := range f.Decls {
			gd, ok := d.(*ast.GenDecl)
			if !ok || gd.Tok != token.VAR {
				continue
			}
			for _, sp := range gd.Specs {
				vs := sp.(*ast.ValueSpec)
				for i, nm := range vs.Names {
					if in.info.Defs[nm] == o && len(vs.Values) == len(vs.Names) {
						c.v = in.eval(vs.Values[i], &c19Env{vars: map[types.Object]*c19Cell{}})
					}
				}
			}
		}
	}
	return c
}

func (in *c19Interp) evalComposite(x *ast.CompositeLit, env *c19Env) c19Value {
	t := in.info.TypeOf(x)
	switch u := t.Underlying().(type) {
	case *types.Struct:
		obj := &c19Obj{typ: t, fields: map[*types.Var]c19Value{}}
		for i, el := range x.Elts {
			if kv, ok := el.(*ast.KeyValueExpr); ok {
				id, _ := kv.Key.(*ast.Ident)
				f, _ := in.info.Uses[id].(*types.Var)
				if f == nil {
					in.abort("field key `%s`", in.src(kv.Key))
				}
				obj.fields[f] = c19CopyVal(in.evalTo(kv.Value, f.Type(), env))
			} else if i < u.NumFields() {
				obj.fields[u.Field(i)] = c19CopyVal(in.evalTo(el, u.Field(i).Type(), env))
			}
		}
		return obj
	case *types.Slice, *types.Array:
		var elems []c19Value
		for _, el := range x.Elts {
			if _, ok := el.(*ast.KeyValueExpr); ok {
				return in.opaque(t, in.src(x))
			}
			elems = append(elems, in.eval(el, env))
		}
		return c19Slice{elems: elems}
	case *types.Map:
		return in.evalMapLit(x, u, env)
	}
	for _, el := range x.Elts {
		if kv, ok := el.(*ast.KeyValueExpr); ok {
			in.eval(kv.Value, env)
		}
	}
	return in.opaque(t, in.src(x))
}

// evalTo evaluates e for a destination of static type t (concrete constants take the destination's
// type unless it is an interface).
func (in *c19Interp) evalTo(e ast.Expr, t types.Type, env *c19Env) c19Value {
	return c19Retype(in.eval(e, env), t)
}

func c19Retype(v c19Value, t types.Type) c19Value {
	if c, ok := v.(c19Const); ok && t != nil {
		if _, isIface := t.Underlying().(*types.Interface); !isIface {
			if _, isTP := t.(*types.TypeParam); !isTP {
				if b, ok := c.typ.Underlying().(*types.Basic); !ok || b.Info()&types.IsUntyped != 0 || types.Identical(c.typ.Underlying(), t.Underlying()) {
					c.typ = t
				}
			}
		} else if b, ok := c.typ.(*types.Basic); ok && b.Info()&types.IsUntyped != 0 {
			c.typ = types.Default(c.typ)
		}
		return c
	}
	return v
}

func (in *c19Interp) evalUnary(x *ast.UnaryExpr, env *c19Env) c19Value {
	switch x.Op {
	case token.AND:
		if cl, ok := ast.Unparen(x.X).(*ast.CompositeLit); ok {
			v := in.evalComposite(cl, env)
			if o, ok := v.(*c19Obj); ok {
				return c19Ptr{obj: o}
			}
			op := in.opaque(in.info.TypeOf(x), in.src(x))
			op.nonNil = true
			return op
		}
		if id, ok := ast.Unparen(x.X).(*ast.Ident); ok {
			if o := objOf(in.info, id); o != nil {
				if c := env.lookup(o); c != nil {
					if ob, ok := c.v.(*c19Obj); ok {
						return c19Ptr{obj: ob}
					}
					return c19CellPtr{cell: c}
				}
			}
		}
		if sel, ok := ast.Unparen(x.X).(*ast.SelectorExpr); ok {
			if s := in.info.Selections[sel]; s != nil && s.Kind() == types.FieldVal && len(s.Index()) == 1 {
				if _, isStruct := s.Obj().Type().Underlying().(*types.Struct); !isStruct {
					return c19FieldPtr{base: in.eval(sel.X, env), f: s.Obj().(*types.Var)}
				}
			}
		}
		v := in.eval(x.X, env)
		if ob, ok := v.(*c19Obj); ok {
			return c19Ptr{obj: ob}
		}
		op := in.opaque(in.info.TypeOf(x), in.src(x))
		op.nonNil = true
		return op
	case token.NOT:
		return c19Bool(!in.evalBool(x.X, env))
	case token.SUB, token.ADD, token.XOR:
		v := in.eval(x.X, env)
		if c, ok := v.(c19Const); ok {
			return c19Const{v: constant.UnaryOp(x.Op, c.v, 0), typ: c.typ}
		}
		return in.opaque(in.info.TypeOf(x), in.src(x))
	case token.ARROW:
		in.abort("channel receive")
	}
	in.abort("unary %s", x.Op)
	return nil
}

// evalBool evaluates a condition; a condition whose value is not known is decided by the script.
func (in *c19Interp) evalBool(e ast.Expr, env *c19Env) bool {
	e = ast.Unparen(e)
	if tv, ok := in.info.Types[e]; ok && tv.Value != nil && tv.Value.Kind() == constant.Bool {
		return constant.BoolVal(tv.Value)
	}
	switch x := e.(type) {
	case *ast.UnaryExpr:
		if x.Op == token.NOT {
			return !in.evalBool(x.X, env)
		}
	case *ast.BinaryExpr:
		switch x.Op {
		case token.LAND:
			return in.evalBool(x.X, env) && in.evalBool(x.Y, env)
		case token.LOR:
			return in.evalBool(x.X, env) || in.evalBool(x.Y, env)
		}
	}
	return in.truth(in.eval(e, env))
}

func (in *c19Interp) truth(v c19Value) bool {
	if c, ok := v.(c19Const); ok && c.v.Kind() == constant.Bool {
		return constant.BoolVal(c.v)
	}
	return in.decide()
}

func (in *c19Interp) evalBinary(x *ast.BinaryExpr, env *c19Env) c19Value {
	switch x.Op {
	case token.LAND, token.LOR:
		return c19Bool(in.evalBool(x, env))
	}
	l, r := in.eval(x.X, env), in.eval(x.Y, env)
	t := in.info.TypeOf(x)
	switch x.Op {
	case token.EQL:
		return in.equal(l, r)
	case token.NEQ:
		v := in.equal(l, r)
		if c, ok := v.(c19Const); ok {
			return c19Bool(!constant.BoolVal(c.v))
		}
		return v
	case token.LSS, token.LEQ, token.GTR, token.GEQ:
		lc, lok := l.(c19Const)
		rc, rok := r.(c19Const)
		if lok && rok && lc.v.Kind() == rc.v.Kind() && (lc.v.Kind() == constant.Int || lc.v.Kind() == constant.String) {
			return c19Bool(constant.Compare(lc.v, x.Op, rc.v))
		}
		lo, lok2 := l.(*c19Opaque)
		ro, rok2 := r.(*c19Opaque)
		if lok2 && rok2 && lo.id == ro.id {
			return c19Bool(constant.Compare(constant.MakeInt64(lo.off), x.Op, constant.MakeInt64(ro.off)))
		}
		return in.opaque(types.Typ[types.Bool], in.src(x))
	}
	// arithmetic / concatenation
	lc, lok := l.(c19Const)
	rc, rok := r.(c19Const)
	if lok && rok {
		if lc.v.Kind() == constant.String && rc.v.Kind() == constant.String && x.Op == token.ADD {
			return c19Const{v: constant.BinaryOp(lc.v, token.ADD, rc.v), typ: t}
		}
		if lc.v.Kind() == constant.Int && rc.v.Kind() == constant.Int {
			op := x.Op
			switch op {
			case token.QUO:
				if constant.Sign(rc.v) == 0 {
					panic(c19Abort{why: "panic"})
				}
				op = token.QUO_ASSIGN // integer division
			case token.REM:
				if constant.Sign(rc.v) == 0 {
					panic(c19Abort{why: "panic"})
				}
			case token.SHL, token.SHR:
				if s, ok := constant.Uint64Val(rc.v); ok && s < 64 {
					return c19Wrap(c19Const{v: constant.Shift(lc.v, op, uint(s)), typ: t})
				}
				return in.opaque(t, in.src(x))
			case token.ADD, token.SUB, token.MUL, token.AND, token.OR, token.XOR, token.AND_NOT:
			default:
				return in.opaque(t, in.src(x))
			}
			return c19Wrap(c19Const{v: constant.BinaryOp(lc.v, op, rc.v), typ: t})
		}
	}
	// opaque integer ± constant keeps its identity
	if x.Op == token.ADD || x.Op == token.SUB {
		if lo, ok := l.(*c19Opaque); ok && rok {
			if k, ok := c19Int64(rc.v); ok {
				n := *lo
				if x.Op == token.ADD {
					n.off += k
				} else {
					n.off -= k
				}
				n.typ = t
				return &n
			}
		}
		if ro, ok := r.(*c19Opaque); ok && lok && x.Op == token.ADD {
			if k, ok := c19Int64(lc.v); ok {
				n := *ro
				n.off += k
				n.typ = t
				return &n
			}
		}
	}
	return in.opaque(t, in.src(x))
}

// c19Wrap reduces an integer constant modulo the width of its unsigned type (uint64 arithmetic wraps).
func c19Wrap(c c19Const) c19Const {
	b, ok := c.typ.Underlying().(*types.Basic)
	if !ok || c.v.Kind() != constant.Int {
		return c
	}
	var bits uint
	switch b.Kind() {
	case types.Uint8:
		bits = 8
	case types.Uint16:
		bits = 16
	case types.Uint32:
		bits = 32
	case types.Uint64, types.Uint, types.Uintptr:
		bits = 64
	default:
		return c
	}
	mod := constant.Shift(constant.MakeInt64(1), token.SHL, bits)
	v := c.v
	if constant.Sign(v) < 0 || constant.Compare(v, token.GEQ, mod) {
		v = constant.BinaryOp(v, token.REM, mod)
		if constant.Sign(v) < 0 {
			v = constant.BinaryOp(v, token.ADD, mod)
		}
	}
	return c19Const{v: v, typ: c.typ}
}

// equal compares two values; the result is a concrete boolean or an opaque one.
func (in *c19Interp) equal(l, r c19Value) c19Value {
	unknown := func() c19Value { return in.opaque(types.Typ[types.Bool], "comparison") }
	isNil := func(v c19Value) bool { _, ok := v.(c19Nil); return ok }
	if isNil(r) {
		l, r = r, l
	}
	if isNil(l) {
		switch x := r.(type) {
		case c19Nil:
			return c19Bool(true)
		case c19Ptr, *c19Obj, c19Closure, c19FuncVal, c19Slice, c19MapVal, c19Bytes, c19CellPtr, c19FieldPtr, c19Const, c19Time:
			return c19Bool(false)
		case *c19Opaque:
			if x.nonNil {
				return c19Bool(false)
			}
			if b, ok := in.nilness[x.id]; ok {
				return c19Bool(b)
			}
			b := in.decide()
			in.nilness[x.id] = b
			return c19Bool(b)
		}
		return unknown()
	}
	switch a := l.(type) {
	case c19Const:
		if b, ok := r.(c19Const); ok {
			if a.v.Kind() == b.v.Kind() {
				return c19Bool(constant.Compare(a.v, token.EQL, b.v))
			}
			return c19Bool(false)
		}
	case c19Ptr:
		if b, ok := r.(c19Ptr); ok {
			return c19Bool(a.obj == b.obj)
		}
	case *c19Opaque:
		if b, ok := r.(*c19Opaque); ok && a.id == b.id {
			return c19Bool(a.off == b.off)
		}
	}
	return unknown()
}

func (in *c19Interp) evalSelector(x *ast.SelectorExpr, env *c19Env) c19Value {
	if sel := in.info.Selections[x]; sel != nil {
		switch sel.Kind() {
		case types.FieldVal:
			v := in.eval(x.X, env)
			t := in.info.TypeOf(x.X)
			idx := sel.Index()
			for _, i := range idx {
				st := c19StructOf(t)
				if st == nil || i >= st.NumFields() {
					return in.opaque(in.info.TypeOf(x), in.src(x))
				}
				f := st.Field(i)
				v = in.field(v, f, in.src(x))
				t = f.Type()
			}
			return v
		case types.MethodVal:
			fn, _ := sel.Obj().(*types.Func)
			return c19FuncVal{fn: fn, recv: in.eval(x.X, env)}
		}
		in.abort("method expression `%s`", in.src(x))
	}
	// package-qualified identifier
	return in.evalIdent(x.Sel, env)
}

func c19StructOf(t types.Type) *types.Struct {
	if p, ok := t.Underlying().(*types.Pointer); ok {
		t = p.Elem()
	}
	st, _ := t.Underlying().(*types.Struct)
	return st
}

// typeAssert evaluates x.(T) and reports whether the assertion holds.
func (in *c19Interp) typeAssert(x *ast.TypeAssertExpr, env *c19Env) (c19Value, bool) {
	v := in.eval(x.X, env)
	T := in.info.TypeOf(x.Type)
	switch in.assertable(v, T) {
	case triT:
		return v, true
	case triF:
		return in.zero(T), false
	}
	if in.singleAssert > 0 || in.decide() {
		o := in.opaque(T, in.src(x))
		o.nonNil = true
		return o, true
	}
	return in.zero(T), false
}

func (in *c19Interp) assertable(v c19Value, T types.Type) tri {
	if _, ok := v.(c19Nil); ok {
		return triF
	}
	d := in.dynType(v)
	if d == nil {
		return triU
	}
	if _, ok := T.Underlying().(*types.Interface); ok {
		if types.AssignableTo(d, T) {
			return triT
		}
		return triF
	}
	if types.Identical(d, T) {
		return triT
	}
	return triF
}

// ---------------------------------------------------------------- calls

func (in *c19Interp) evalArgs(call *ast.CallExpr, sig *types.Signature, env *c19Env) []c19Value {
	var args []c19Value
	if len(call.Args) == 1 && sig != nil && sig.Params().Len() > 1 {
		// f(g()) with a multi-value g
		if t, ok := in.eval(call.Args[0], env).(c19Tuple); ok {
			return append(args, t...)
		}
	}
	for i, a := range call.Args {
		var pt types.Type
		if sig != nil {
			n := sig.Params().Len()
			switch {
			case sig.Variadic() && i >= n-1:
				pt = sig.Params().At(n - 1).Type().(*types.Slice).Elem()
				if call.Ellipsis.IsValid() {
					pt = sig.Params().At(n - 1).Type()
				}
			case i < n:
				pt = sig.Params().At(i).Type()
			}
		}
		v := in.eval(a, env)
		if pt != nil {
			v = c19Retype(v, pt)
		}
		args = append(args, c19CopyVal(v))
	}
	return args
}

func (in *c19Interp) evalCall(call *ast.CallExpr, env *c19Env) c19Value {
	// conversion
	if tv, ok := in.info.Types[call.Fun]; ok && tv.IsType() && len(call.Args) == 1 {
		return in.convert(in.eval(call.Args[0], env), tv.Type, call)
	}
	if b := builtinName(in.info, call); b != "" {
		return in.evalBuiltin(b, call, env)
	}
	if fn := callee(in.info, call); fn != nil {
		sig := fn.Type().(*types.Signature)
		var recv c19Value
		if sig.Recv() != nil {
			if sel, ok := ast.Unparen(call.Fun).(*ast.SelectorExpr); ok {
				recv = in.eval(sel.X, env)
			}
		}
		args := in.evalArgs(call, sig, env)
		return in.invoke(fn, recv, args, call)
	}
	// a function value: closure, bound method, function
	fv := in.eval(call.Fun, env)
	sig, _ := in.info.TypeOf(call.Fun).Underlying().(*types.Signature)
	args := in.evalArgs(call, sig, env)
	return in.callValue(fv, args, sig, call)
}

func (in *c19Interp) callValue(fv c19Value, args []c19Value, sig *types.Signature, call *ast.CallExpr) c19Value {
	switch f := fv.(type) {
	case c19Closure:
		return in.callClosure(f, args)
	case c19FuncVal:
		return in.invoke(f.fn, f.recv, args, call)
	case c19Nil:
		panic(c19Abort{why: "panic"})
	}
	where := "?"
	if call != nil {
		where = in.src(call)
	}
	return in.opaqueResults(sig, "result of "+where)
}

func (in *c19Interp) opaqueResults(sig *types.Signature, origin string) c19Value {
	if sig == nil || sig.Results().Len() == 0 {
		return nil
	}
	if sig.Results().Len() == 1 {
		return in.opaque(sig.Results().At(0).Type(), origin)
	}
	var t c19Tuple
	for i := 0; i < sig.Results().Len(); i++ {
		t = append(t, in.opaque(sig.Results().At(i).Type(), fmt.Sprintf("%s #%d", origin, i+1)))
	}
	return t
}

func c19FullName(fn *types.Func) string {
	sig := fn.Type().(*types.Signature)
	if r := sig.Recv(); r != nil {
		p := namedPath(r.Type())
		if _, ok := r.Type().(*types.Pointer); ok {
			return "(*" + p + ")." + fn.Name()
		}
		return "(" + p + ")." + fn.Name()
	}
	if fn.Pkg() == nil {
		return fn.Name()
	}
	return fn.Pkg().Path() + "." + fn.Name()
}

// invoke calls a named function or method.
func (in *c19Interp) invoke(fn *types.Func, recv c19Value, args []c19Value, call *ast.CallExpr) c19Value {
	in.tick()
	if in.hooks.onCall != nil {
		if v, ok := in.hooks.onCall(in, fn, recv, args, call); ok {
			return v
		}
	}
	sig := fn.Type().(*types.Signature)
	if fi := in.m.funcs[fn.Origin()]; fi != nil {
		return in.callFunc(fi, recv, args)
	}
	// interface method: dispatch on the dynamic type of the receiver
	if sig.Recv() != nil {
		if _, isIface := sig.Recv().Type().Underlying().(*types.Interface); isIface {
			if d := in.dynType(recv); d != nil {
				obj, _, _ := types.LookupFieldOrMethod(d, true, fn.Pkg(), fn.Name())
				if m, ok := obj.(*types.Func); ok && m != fn {
					return in.invoke(m, recv, args, call)
				}
			}
			return in.opaqueResults(sig, "dynamic call "+fn.Name())
		}
	}
	return in.extern(fn, recv, args, call)
}

func (in *c19Interp) bindParams(env *c19Env, ft *ast.FuncType, sig *types.Signature, args []c19Value) {
	i := 0
	np := sig.Params().Len()
	if ft.Params != nil {
		for _, fld := range ft.Params.List {
			names := fld.Names
			if len(names) == 0 {
				i++
				continue
			}
			for _, nm := range names {
				var v c19Value
				switch {
				case sig.Variadic() && i == np-1:
					if len(args) == np && c19IsSliceVal(args[i]) {
						v = args[i]
					} else {
						var rest []c19Value
						if i < len(args) {
							rest = args[i:]
						}
						v = c19Slice{elems: rest}
					}
				case i < len(args):
					v = args[i]
				default:
					v = in.opaque(sig.Params().At(i).Type(), "parameter "+nm.Name)
				}
				if o := in.info.Defs[nm]; o != nil {
					env.vars[o] = &c19Cell{v: v}
				}
				i++
			}
		}
	}
	if ft.Results != nil {
		for _, fld := range ft.Results.List {
			for _, nm := range fld.Names {
				if o := in.info.Defs[nm]; o != nil {
					c := &c19Cell{v: in.zero(o.Type())}
					env.vars[o] = c
					env.results = append(env.results, c)
				}
			}
		}
	}
}

func c19IsSliceVal(v c19Value) bool {
	switch v.(type) {
	case c19Slice, c19Nil:
		return true
	}
	return false
}

// callFunc evaluates a function of the package with a body. A construct outside the evaluated
// subset inside the callee turns the callee's results into opaque values.
func (in *c19Interp) callFunc(fi *FuncInfo, recv c19Value, args []c19Value) (res c19Value) {
	sig := fi.Obj.Type().(*types.Signature)
	if in.depth >= c19MaxDepth {
		in.abort("call depth exceeded at %s", fi.Name())
	}
	env := &c19Env{vars: map[types.Object]*c19Cell{}, sig: sig}
	if fi.Decl.Recv != nil && len(fi.Decl.Recv.List) == 1 && len(fi.Decl.Recv.List[0].Names) == 1 {
		if o := in.info.Defs[fi.Decl.Recv.List[0].Names[0]]; o != nil {
			rv := recv
			if _, isPtr := sig.Recv().Type().(*types.Pointer); !isPtr {
				// value receiver: copy of the pointee
				if p, ok := rv.(c19Ptr); ok {
					rv = p.obj
				}
				rv = c19CopyVal(rv)
			} else if ob, ok := rv.(*c19Obj); ok {
				rv = c19Ptr{obj: ob} // addressable value, pointer receiver
			}
			env.vars[o] = &c19Cell{v: rv}
		}
	}
	in.bindParams(env, fi.Decl.Type, sig, args)
	in.depth++
	defer func() {
		in.depth--
		if e := recover(); e != nil {
			a, ok := e.(c19Abort)
			if !ok {
				a = c19Abort{why: fmt.Sprintf("the evaluator failed on this code (%v)", e)}
				if in.depth == 0 {
					panic(a)
				}
			} else if a.done || a.why == "panic" || in.depth == 0 {
				panic(e)
			}
			in.notes = append(in.notes, fi.Name()+": "+a.why)
			// what the callee did to the objects it was handed is not known either
			for _, v := range append([]c19Value{recv}, args...) {
				in.havoc(v, fi.Name()+" (not evaluated: "+a.why+")", 0)
			}
			res = in.opaqueResults(sig, "result of "+fi.Name()+" (not evaluated: "+a.why+")")
		}
	}()
	return in.runBody(fi.Decl.Body, env)
}

func (in *c19Interp) callClosure(c c19Closure, args []c19Value) c19Value {
	sig, _ := in.info.TypeOf(c.lit).(*types.Signature)
	if in.depth >= c19MaxDepth {
		in.abort("call depth exceeded in a function literal")
	}
	env := &c19Env{vars: map[types.Object]*c19Cell{}, parent: c.env, sig: sig}
	in.bindParams(env, c.lit.Type, sig, args)
	in.depth++
	defer func() { in.depth-- }()
	return in.runBody(c.lit.Body, env)
}

func (in *c19Interp) runBody(body *ast.BlockStmt, env *c19Env) c19Value {
	ctl, v := in.execBlock(body.List, env)
	if ctl == c19Return {
		return v
	}
	// fell off the end
	if len(env.results) > 0 {
		return in.namedResults(env)
	}
	return nil
}

func (in *c19Interp) namedResults(env *c19Env) c19Value {
	if len(env.results) == 1 {
		return env.results[0].v
	}
	var t c19Tuple
	for _, c := range env.results {
		t = append(t, c.v)
	}
	return t
}

func (in *c19Interp) convert(v c19Value, T types.Type, call *ast.CallExpr) c19Value {
	if s, ok := c19AsString(v); ok && c19IsByteSeq(T) {
		return c19Bytes{s}
	}
	if bs, ok := v.(c19Bytes); ok {
		if c19IsStringT(T) {
			return c19Const{v: constant.MakeString(bs.b), typ: T}
		}
		if c19IsByteSeq(T) {
			return bs
		}
	}
	switch x := v.(type) {
	case c19Const:
		tb, _ := T.Underlying().(*types.Basic)
		if tb == nil {
			if _, isIface := T.Underlying().(*types.Interface); isIface {
				return x
			}
			return in.opaque(T, in.src(call))
		}
		switch {
		case tb.Info()&types.IsInteger != 0 && x.v.Kind() == constant.Int:
			return c19Wrap(c19Const{v: x.v, typ: T})
		case tb.Info()&types.IsString != 0 && x.v.Kind() == constant.String:
			return c19Const{v: x.v, typ: T}
		case tb.Info()&types.IsBoolean != 0 && x.v.Kind() == constant.Bool:
			return c19Const{v: x.v, typ: T}
		}
		return in.opaque(T, in.src(call))
	case *c19Opaque:
		n := *x
		n.typ = T
		n.fields = nil
		return &n
	case c19Nil:
		return x
	case *c19Obj:
		n := *x
		n.typ = T
		return &n
	}
	if _, isIface := T.Underlying().(*types.Interface); isIface {
		return v
	}
	return in.opaque(T, in.src(call))
}

func (in *c19Interp) evalBuiltin(name string, call *ast.CallExpr, env *c19Env) c19Value {
	t := in.info.TypeOf(call)
	switch name {
	case "panic":
		for _, a := range call.Args {
			in.eval(a, env)
		}
		panic(c19Abort{why: "panic"})
	case "len", "cap":
		v := in.eval(call.Args[0], env)
		switch x := v.(type) {
		case c19Slice:
			return c19Const{v: constant.MakeInt64(int64(len(x.elems))), typ: types.Typ[types.Int]}
		case c19Nil:
			return c19Const{v: constant.MakeInt64(0), typ: types.Typ[types.Int]}
		case c19MapVal:
			return c19Const{v: constant.MakeInt64(int64(len(*x.keys))), typ: types.Typ[types.Int]}
		case c19Bytes:
			if name == "len" {
				return c19Const{v: constant.MakeInt64(int64(len(x.b))), typ: types.Typ[types.Int]}
			}
		case c19Const:
			if s, ok := c19AsString(x); ok {
				return c19Const{v: constant.MakeInt64(int64(len(s))), typ: types.Typ[types.Int]}
			}
		}
		return in.opaque(t, in.src(call))
	case "append":
		if len(call.Args) >= 1 && c19IsByteSeq(in.info.TypeOf(call.Args[0])) {
			base := in.eval(call.Args[0], env)
			if _, isNil := base.(c19Nil); isNil {
				base = c19Bytes{}
			}
			if bs, ok := base.(c19Bytes); ok {
				if v, ok := in.appendBytes(bs, call, env); ok {
					return v
				}
			} else {
				for _, a := range call.Args[1:] {
					in.eval(a, env)
				}
			}
			return in.opaque(t, in.src(call))
		}
		if len(call.Args) >= 1 && !call.Ellipsis.IsValid() {
			base := in.eval(call.Args[0], env)
			var elems []c19Value
			switch b := base.(type) {
			case c19Bytes:
				if v, ok := in.appendBytes(b, call, env); ok {
					return v
				}
				return in.opaque(t, in.src(call))
			case c19Slice:
				elems = append(elems, b.elems...)
			case c19Nil:
			default:
				for _, a := range call.Args[1:] {
					in.eval(a, env)
				}
				return in.opaque(t, in.src(call))
			}
			for _, a := range call.Args[1:] {
				elems = append(elems, in.eval(a, env))
			}
			return c19Slice{elems: elems}
		}
	case "make":
		// make([]byte, 0, n): an empty byte buffer to append to
		if len(call.Args) >= 2 && c19IsByteSeq(in.info.TypeOf(call.Args[0])) {
			if n, ok := c19AsInt(in.eval(call.Args[1], env)); ok && n == 0 {
				for _, a := range call.Args[2:] {
					in.eval(a, env)
				}
				return c19Bytes{}
			}
		}
	case "new":
		T := in.info.TypeOf(call.Args[0])
		if _, ok := T.Underlying().(*types.Struct); ok {
			return c19Ptr{obj: &c19Obj{typ: T, fields: map[*types.Var]c19Value{}}}
		}
		return c19CellPtr{cell: &c19Cell{v: in.zero(T)}}
	case "min", "max":
		var best *c19Const
		for _, a := range call.Args {
			c, ok := in.eval(a, env).(c19Const)
			if !ok || c.v.Kind() != constant.Int {
				return in.opaque(t, in.src(call))
			}
			if best == nil || (name == "min" && constant.Compare(c.v, token.LSS, best.v)) || (name == "max" && constant.Compare(c.v, token.GTR, best.v)) {
				cc := c
				best = &cc
			}
		}
		if best != nil {
			return c19Const{v: best.v, typ: t}
		}
	}
	for _, a := range call.Args {
		if tv, ok := in.info.Types[a]; ok && tv.IsType() {
			continue
		}
		in.eval(a, env)
	}
	if t == nil {
		return nil
	}
	if tt, ok := t.(*types.Tuple); ok && tt.Len() == 0 {
		return nil
	}
	return in.opaque(t, in.src(call))
}

// extern models a call that leaves package replication.
func (in *c19Interp) extern(fn *types.Func, recv c19Value, args []c19Value, call *ast.CallExpr) c19Value {
	sig := fn.Type().(*types.Signature)
	name := c19FullName(fn)
	where := name
	if sig.Recv() != nil && c19BuilderObj(recv) != nil {
		if v, ok := in.builder(fn.Name(), recv, args, sig); ok {
			return v
		}
	}
	switch name {
	case "fmt.Sprintf":
		if len(args) >= 1 {
			if f, ok := c19AsString(args[0]); ok {
				rest := args[1:]
				if len(rest) == 1 {
					if s, ok := rest[0].(c19Slice); ok && call != nil && call.Ellipsis.IsValid() {
						rest = s.elems
					}
				}
				if s, ok := c19Sprintf(f, rest); ok {
					return c19Str(s)
				}
			}
		}
	case "strconv.Itoa":
		if n, ok := c19AsInt(args[0]); ok {
			return c19Str(strconv.FormatInt(n, 10))
		}
	case "strconv.FormatUint", "strconv.FormatInt":
		if len(args) == 2 {
			if b, ok := c19AsInt(args[1]); ok && b >= 2 && b <= 36 {
				if name == "strconv.FormatUint" {
					if n, ok := c19AsUint(args[0]); ok {
						return c19Str(strconv.FormatUint(n, int(b)))
					}
				} else if n, ok := c19AsInt(args[0]); ok {
					return c19Str(strconv.FormatInt(n, int(b)))
				}
			}
		}
	case "strconv.ParseUint", "strconv.ParseInt", "strconv.Atoi":
		n := in.opaque(sig.Results().At(0).Type(), "number parsed by "+name)
		return c19Tuple{n, in.opaque(sig.Results().At(1).Type(), "error of "+name)}
	case "time.Parse":
		if len(args) == 2 {
			l, ok1 := c19AsString(args[0])
			s, ok2 := c19AsString(args[1])
			if ok1 && ok2 {
				t, err := time.Parse(l, s)
				if err != nil {
					e := in.opaque(sig.Results().At(1).Type(), "time.Parse error: "+err.Error())
					e.nonNil = true
					return c19Tuple{c19Time{}, e}
				}
				return c19Tuple{c19Time{t: t}, c19Nil{}}
			}
		}
	case "strings.Join":
		if len(args) == 2 {
			if s, ok := args[0].(c19Slice); ok {
				if sep, ok := c19AsString(args[1]); ok {
					var parts []string
					all := true
					for _, e := range s.elems {
						p, ok := c19AsString(e)
						all = all && ok
						parts = append(parts, p)
					}
					if all {
						return c19Str(strings.Join(parts, sep))
					}
				}
			}
		}
	case "strings.TrimSuffix", "strings.TrimPrefix", "strings.TrimRight", "strings.TrimLeft":
		if len(args) == 2 {
			a, ok1 := c19AsString(args[0])
			b, ok2 := c19AsString(args[1])
			if ok1 && ok2 {
				switch name {
				case "strings.TrimSuffix":
					return c19Str(strings.TrimSuffix(a, b))
				case "strings.TrimPrefix":
					return c19Str(strings.TrimPrefix(a, b))
				case "strings.TrimRight":
					return c19Str(strings.TrimRight(a, b))
				default:
					return c19Str(strings.TrimLeft(a, b))
				}
			}
		}
	case "(*net/http.Request).WithContext", "(*net/http.Request).Clone":
		return recv
	case "strconv.AppendUint", "strconv.AppendInt", "strconv.AppendQuote":
		if v, ok := in.externBytes(name, args); ok {
			return v
		}
	case "(*sync.Pool).Get":
		if v, ok := in.poolGet(recv); ok {
			return v
		}
	case "fmt.Fprintf":
		if len(args) >= 2 {
			if b := c19BuilderObj(args[0]); b != nil {
				f, ok := c19AsString(args[1])
				txt, ok2 := c19Sprintf(f, args[2:])
				if ok && ok2 {
					b.sb = append(b.sb, txt)
				} else {
					b.sbBad = true
				}
			}
		}
	case "net/http.NewRequest", "net/http.NewRequestWithContext":
		// (method, url, body) are the last three arguments
		if len(args) >= 3 {
			in.event("request", call.Pos(), args[len(args)-2], args[len(args)-3])
		}
		req := in.opaque(sig.Results().At(0).Type(), "HTTP request")
		req.nonNil = true
		return c19Tuple{req, in.opaque(sig.Results().At(1).Type(), "error of "+name)}
	case "net/http.Get", "(*net/http.Client).Get":
		if len(args) >= 1 {
			in.event("request", call.Pos(), args[0], c19Str("GET"))
		}
	}
	if call != nil {
		where = in.src(call.Fun)
	}
	return in.opaqueResults(sig, "result of "+where)
}

func c19BuilderObj(v c19Value) *c19Obj {
	var o *c19Obj
	switch x := v.(type) {
	case c19Ptr:
		o = x.obj
	case *c19Obj:
		o = x
	}
	if o != nil && (namedPath(o.typ) == "strings.Builder" || namedPath(o.typ) == "bytes.Buffer") {
		return o
	}
	return nil
}

// builder models the methods of strings.Builder on a concrete builder object.
func (in *c19Interp) builder(method string, recv c19Value, args []c19Value, sig *types.Signature) (c19Value, bool) {
	b := c19BuilderObj(recv)
	if b == nil {
		return nil, false
	}
	switch method {
	case "WriteString":
		if s, ok := c19AsString(args[0]); ok {
			b.sb = append(b.sb, s)
		} else {
			b.sbBad = true
		}
	case "WriteByte", "WriteRune":
		if n, ok := c19AsInt(args[0]); ok {
			b.sb = append(b.sb, string(rune(n)))
		} else {
			b.sbBad = true
		}
	case "Write":
		if p, ok := args[0].(c19Bytes); ok {
			b.sb = append(b.sb, p.b)
		} else {
			b.sbBad = true
		}
	case "Grow", "Cap", "Available":
		// capacity only
	case "Bytes":
		if b.sbBad {
			return nil, false
		}
		return c19Bytes{strings.Join(b.sb, "")}, true
	case "Reset":
		b.sb, b.sbBad = nil, false
		return nil, true
	case "String":
		if b.sbBad {
			return nil, false
		}
		return c19Str(strings.Join(b.sb, "")), true
	case "Len":
		if b.sbBad {
			return nil, false
		}
		return c19Const{v: constant.MakeInt64(int64(len(strings.Join(b.sb, "")))), typ: types.Typ[types.Int]}, true
	default:
		b.sbBad = true // a method the model does not know may have written to the buffer
	}
	return in.opaqueResults(sig, "result of "+method+" on a string builder"), true
}

// c19Sprintf formats with Go's fmt when every argument is a concrete string or integer without a
// String method (so that the verbs see what the library's call would see).
func c19Sprintf(format string, args []c19Value) (string, bool) {
	var goArgs []interface{}
	for _, a := range args {
		c, ok := a.(c19Const)
		if !ok {
			return "", false
		}
		if nt, ok := c.typ.(*types.Named); ok {
			for i := 0; i < nt.NumMethods(); i++ {
				if n := nt.Method(i).Name(); n == "String" || n == "Error" || n == "Format" || n == "GoString" {
					return "", false
				}
			}
		}
		switch c.v.Kind() {
		case constant.String:
			goArgs = append(goArgs, constant.StringVal(c.v))
		case constant.Int:
			b, _ := c.typ.Underlying().(*types.Basic)
			if b != nil && b.Info()&types.IsUnsigned != 0 {
				u, ok := constant.Uint64Val(c.v)
				if !ok {
					return "", false
				}
				goArgs = append(goArgs, u)
			} else {
				i, ok := constant.Int64Val(c.v)
				if !ok {
					return "", false
				}
				goArgs = append(goArgs, i)
			}
		case constant.Bool:
			goArgs = append(goArgs, constant.BoolVal(c.v))
		default:
			return "", false
		}
	}
	return fmt.Sprintf(format, goArgs...), true
}

// ---------------------------------------------------------------- statements

type c19Ctl int

const (
	c19Next c19Ctl = iota
	c19Return
	c19Break
	c19Continue
)

func (in *c19Interp) execBlock(list []ast.Stmt, env *c19Env) (c19Ctl, c19Value) {
	for _, s := range list {
		if ctl, v := in.exec(s, env); ctl != c19Next {
			return ctl, v
		}
	}
	return c19Next, nil
}

func (in *c19Interp) exec(s ast.Stmt, env *c19Env) (c19Ctl, c19Value) {
	in.tick()
	switch x := s.(type) {
	case nil, *ast.EmptyStmt:
		return c19Next, nil
	case *ast.BlockStmt:
		return in.execBlock(x.List, env)
	case *ast.ExprStmt:
		in.eval(x.X, env)
		return c19Next, nil
	case *ast.DeclStmt:
		gd, ok := x.Decl.(*ast.GenDecl)
		if !ok || gd.Tok != token.VAR {
			return c19Next, nil // const / type declarations
		}
		for _, sp := range gd.Specs {
			vs := sp.(*ast.ValueSpec)
			var vals []c19Value
			if len(vs.Values) == 1 && len(vs.Names) > 1 {
				if t, ok := in.eval(vs.Values[0], env).(c19Tuple); ok {
					vals = t
				}
			} else {
				for _, e := range vs.Values {
					vals = append(vals, in.eval(e, env))
				}
			}
			for i, nm := range vs.Names {
				o := in.info.Defs[nm]
				if o == nil {
					continue
				}
				var v c19Value
				if i < len(vals) {
					v = c19CopyVal(c19Retype(vals[i], o.Type()))
				} else {
					v = in.zero(o.Type())
				}
				env.vars[o] = &c19Cell{v: v}
			}
		}
		return c19Next, nil
	case *ast.AssignStmt:
		in.execAssign(x, env)
		return c19Next, nil
	case *ast.IncDecStmt:
		cur := in.eval(x.X, env)
		one := c19Const{v: constant.MakeInt64(1), typ: in.info.TypeOf(x.X)}
		op := token.ADD
		if x.Tok == token.DEC {
			op = token.SUB
		}
		in.assign(x.X, in.arith(cur, op, one, in.info.TypeOf(x.X), in.src(x)), env)
		return c19Next, nil
	case *ast.IfStmt:
		if x.Init != nil {
			if ctl, v := in.exec(x.Init, env); ctl != c19Next {
				return ctl, v
			}
		}
		if in.evalBool(x.Cond, env) {
			return in.execBlock(x.Body.List, env)
		}
		if x.Else != nil {
			return in.exec(x.Else, env)
		}
		return c19Next, nil
	case *ast.SwitchStmt:
		return in.execSwitch(x, env)
	case *ast.TypeSwitchStmt:
		return in.execTypeSwitch(x, env)
	case *ast.ForStmt:
		return in.execFor(x, env)
	case *ast.RangeStmt:
		return in.execRange(x, env)
	case *ast.ReturnStmt:
		if len(x.Results) == 0 {
			if len(env.results) > 0 {
				return c19Return, in.namedResults(env)
			}
			return c19Return, nil
		}
		if len(x.Results) == 1 {
			v := in.eval(x.Results[0], env)
			if env.sig != nil && env.sig.Results().Len() == 1 {
				v = c19Retype(v, env.sig.Results().At(0).Type())
			}
			return c19Return, v
		}
		var t c19Tuple
		for i, r := range x.Results {
			v := in.eval(r, env)
			if env.sig != nil && i < env.sig.Results().Len() {
				v = c19Retype(v, env.sig.Results().At(i).Type())
			}
			t = append(t, v)
		}
		return c19Return, t
	case *ast.BranchStmt:
		if x.Label != nil {
			in.abort("labelled %s", x.Tok)
		}
		switch x.Tok {
		case token.BREAK:
			return c19Break, nil
		case token.CONTINUE:
			return c19Continue, nil
		}
		in.abort("%s statement", x.Tok)
	case *ast.DeferStmt:
		// deferred calls of the evaluated functions close response bodies; they do not change results
		return c19Next, nil
	}
	in.abort("statement `%s` (%T) is outside the evaluated subset", in.src(s), s)
	return c19Next, nil
}

func (in *c19Interp) arith(l c19Value, op token.Token, r c19Value, t types.Type, what string) c19Value {
	lc, lok := l.(c19Const)
	rc, rok := r.(c19Const)
	if lok && rok && lc.v.Kind() == rc.v.Kind() {
		switch {
		case lc.v.Kind() == constant.String && op == token.ADD:
			return c19Const{v: constant.BinaryOp(lc.v, op, rc.v), typ: t}
		case lc.v.Kind() == constant.Int:
			switch op {
			case token.QUO:
				if constant.Sign(rc.v) == 0 {
					panic(c19Abort{why: "panic"})
				}
				op = token.QUO_ASSIGN
			case token.REM:
				if constant.Sign(rc.v) == 0 {
					panic(c19Abort{why: "panic"})
				}
			case token.ADD, token.SUB, token.MUL, token.AND, token.OR, token.XOR:
			default:
				return in.opaque(t, what)
			}
			return c19Wrap(c19Const{v: constant.BinaryOp(lc.v, op, rc.v), typ: t})
		}
	}
	if lo, ok := l.(*c19Opaque); ok && rok && rc.v.Kind() == constant.Int && (op == token.ADD || op == token.SUB) {
		if k, ok := constant.Int64Val(rc.v); ok {
			n := *lo
			if op == token.ADD {
				n.off += k
			} else {
				n.off -= k
			}
			return &n
		}
	}
	return in.opaque(t, what)
}

var c19AssignOps = map[token.Token]token.Token{
	token.ADD_ASSIGN: token.ADD, token.SUB_ASSIGN: token.SUB, token.MUL_ASSIGN: token.MUL, token.QUO_ASSIGN: token.QUO,
	token.REM_ASSIGN: token.REM, token.AND_ASSIGN: token.AND, token.OR_ASSIGN: token.OR, token.XOR_ASSIGN: token.XOR,
}

func (in *c19Interp) execAssign(x *ast.AssignStmt, env *c19Env) {
	if op, ok := c19AssignOps[x.Tok]; ok && len(x.Lhs) == 1 && len(x.Rhs) == 1 {
		cur := in.eval(x.Lhs[0], env)
		r := in.eval(x.Rhs[0], env)
		in.assign(x.Lhs[0], in.arith(cur, op, r, in.info.TypeOf(x.Lhs[0]), in.src(x)), env)
		return
	}
	if x.Tok != token.ASSIGN && x.Tok != token.DEFINE {
		in.abort("assignment operator %s", x.Tok)
	}
	var vals []c19Value
	if len(x.Rhs) == 1 && len(x.Lhs) > 1 {
		switch r := ast.Unparen(x.Rhs[0]).(type) {
		case *ast.TypeAssertExpr:
			v, ok := in.typeAssert(r, env)
			vals = []c19Value{v, c19Bool(ok)}
		case *ast.IndexExpr:
			// v, ok := table[key]
			base, idx := in.eval(r.X, env), in.eval(r.Index, env)
			if mv, isMap := base.(c19MapVal); isMap {
				if v, present, decided := in.mapIndex(mv, idx); decided {
					vals = []c19Value{v, c19Bool(present)}
					break
				}
			}
			for _, l := range x.Lhs {
				vals = append(vals, in.opaque(in.lhsType(l), in.src(x.Rhs[0])))
			}
		default:
			v := in.eval(x.Rhs[0], env)
			t, ok := v.(c19Tuple)
			if !ok || len(t) != len(x.Lhs) {
				// comma-ok map index / channel receive, or an opaque multi-value
				for _, l := range x.Lhs {
					vals = append(vals, in.opaque(in.lhsType(l), in.src(x.Rhs[0])))
				}
			} else {
				vals = t
			}
		}
	} else {
		for _, r := range x.Rhs {
			vals = append(vals, in.eval(r, env))
		}
	}
	for i, l := range x.Lhs {
		if i >= len(vals) {
			break
		}
		v := vals[i]
		if id, ok := l.(*ast.Ident); ok && x.Tok == token.DEFINE {
			if id.Name == "_" {
				continue
			}
			if o := in.info.Defs[id]; o != nil {
				env.vars[o] = &c19Cell{v: c19CopyVal(c19Retype(v, o.Type()))}
				continue
			}
		}
		in.assign(l, v, env)
	}
}

func (in *c19Interp) lhsType(l ast.Expr) types.Type {
	if id, ok := l.(*ast.Ident); ok {
		if o := objOf(in.info, id); o != nil {
			return o.Type()
		}
		return types.Typ[types.Invalid]
	}
	if t := in.info.TypeOf(l); t != nil {
		return t
	}
	return types.Typ[types.Invalid]
}

func (in *c19Interp) assign(l ast.Expr, v c19Value, env *c19Env) {
	l = ast.Unparen(l)
	switch x := l.(type) {
	case *ast.Ident:
		if x.Name == "_" {
			return
		}
		o := objOf(in.info, x)
		if o == nil {
			return
		}
		v = c19CopyVal(c19Retype(v, o.Type()))
		if c := env.lookup(o); c != nil {
			// a struct variable whose address may have been taken keeps its storage
			if dst, ok := c.v.(*c19Obj); ok {
				if src, ok := v.(*c19Obj); ok {
					dst.fields, dst.tag = src.fields, src.tag
					return
				}
			}
			c.v = v
			return
		}
		if vo, ok := o.(*types.Var); ok && vo.Parent() == vo.Pkg().Scope() {
			in.global(vo).v = v
			return
		}
		env.vars[o] = &c19Cell{v: v}
	case *ast.SelectorExpr:
		if sel := in.info.Selections[x]; sel != nil && sel.Kind() == types.FieldVal {
			base := in.eval(x.X, env)
			t := in.info.TypeOf(x.X)
			idx := sel.Index()
			for k, i := range idx {
				st := c19StructOf(t)
				if st == nil || i >= st.NumFields() {
					return
				}
				f := st.Field(i)
				if k == len(idx)-1 {
					in.setField(base, f, c19CopyVal(c19Retype(v, f.Type())))
					return
				}
				base = in.field(base, f, in.src(x))
				t = f.Type()
			}
			return
		}
		// package-qualified variable of another package: ignored
	case *ast.StarExpr:
		p := in.eval(x.X, env)
		switch pp := p.(type) {
		case c19CellPtr:
			pp.cell.v = c19CopyVal(v)
		case c19FieldPtr:
			in.setField(pp.base, pp.f, c19CopyVal(c19Retype(v, pp.f.Type())))
		case c19Ptr:
			if src, ok := v.(*c19Obj); ok {
				cp := c19CopyVal(src).(*c19Obj)
				pp.obj.fields, pp.obj.tag = cp.fields, cp.tag
			}
		case c19Nil:
			panic(c19Abort{why: "panic"})
		}
	case *ast.IndexExpr:
		base := in.eval(x.X, env)
		idx := in.eval(x.Index, env)
		if s, ok := base.(c19Slice); ok {
			if i, ok := c19AsInt(idx); ok && i >= 0 && int(i) < len(s.elems) {
				s.elems[i] = v
			}
		}
		if mv, ok := base.(c19MapVal); ok {
			in.mapStore(mv, idx, v)
		}
	default:
		in.abort("assignment to `%s`", in.src(l))
	}
}

func (in *c19Interp) execSwitch(x *ast.SwitchStmt, env *c19Env) (c19Ctl, c19Value) {
	if x.Init != nil {
		if ctl, v := in.exec(x.Init, env); ctl != c19Next {
			return ctl, v
		}
	}
	var tag c19Value
	if x.Tag != nil {
		tag = in.eval(x.Tag, env)
	}
	var def *ast.CaseClause
	run := func(cc *ast.CaseClause) (c19Ctl, c19Value) {
		for _, s := range cc.Body {
			if b, ok := s.(*ast.BranchStmt); ok && b.Tok == token.FALLTHROUGH {
				in.abort("fallthrough")
			}
		}
		ctl, v := in.execBlock(cc.Body, env)
		if ctl == c19Break {
			ctl = c19Next
		}
		return ctl, v
	}
	for _, c := range x.Body.List {
		cc := c.(*ast.CaseClause)
		if cc.List == nil {
			def = cc
			continue
		}
		for _, e := range cc.List {
			hit := false
			if x.Tag == nil {
				hit = in.evalBool(e, env)
			} else {
				hit = in.truth(in.equal(tag, in.eval(e, env)))
			}
			if hit {
				return run(cc)
			}
		}
	}
	if def != nil {
		return run(def)
	}
	return c19Next, nil
}

func (in *c19Interp) execTypeSwitch(x *ast.TypeSwitchStmt, env *c19Env) (c19Ctl, c19Value) {
	if x.Init != nil {
		if ctl, v := in.exec(x.Init, env); ctl != c19Next {
			return ctl, v
		}
	}
	var subject ast.Expr
	switch a := x.Assign.(type) {
	case *ast.ExprStmt:
		subject = a.X
	case *ast.AssignStmt:
		subject = a.Rhs[0]
	}
	ta, ok := ast.Unparen(subject).(*ast.TypeAssertExpr)
	if !ok {
		in.abort("type switch subject")
	}
	v := in.eval(ta.X, env)
	run := func(cc *ast.CaseClause, bound c19Value) (c19Ctl, c19Value) {
		if o := in.info.Implicits[cc]; o != nil {
			env.vars[o] = &c19Cell{v: bound}
		}
		ctl, r := in.execBlock(cc.Body, env)
		if ctl == c19Break {
			ctl = c19Next
		}
		return ctl, r
	}
	var def *ast.CaseClause
	for _, c := range x.Body.List {
		cc := c.(*ast.CaseClause)
		if cc.List == nil {
			def = cc
			continue
		}
		for _, e := range cc.List {
			var m tri
			if tv, ok := in.info.Types[e]; ok && tv.IsNil() {
				switch vv := v.(type) {
				case c19Nil:
					m = triT
				case *c19Opaque:
					m = triU
					if vv.nonNil {
						m = triF
					}
				default:
					m = triF
				}
			} else {
				m = in.assertable(v, in.info.TypeOf(e))
			}
			if m == triU {
				in.abort("type switch on a value of unknown dynamic type")
			}
			if m == triT {
				return run(cc, v)
			}
		}
	}
	if def != nil {
		return run(def, v)
	}
	return c19Next, nil
}

func (in *c19Interp) execFor(x *ast.ForStmt, env *c19Env) (c19Ctl, c19Value) {
	if x.Init != nil {
		if ctl, v := in.exec(x.Init, env); ctl != c19Next {
			return ctl, v
		}
	}
	in.noFork++
	defer func() { in.noFork-- }()
	for n := 0; ; n++ {
		if n > c19MaxIter {
			in.abort("loop `for %s` did not end within %d iterations", in.src(x.Cond), c19MaxIter)
		}
		if x.Cond != nil && !in.evalBool(x.Cond, env) {
			return c19Next, nil
		}
		ctl, v := in.execBlock(x.Body.List, env)
		switch ctl {
		case c19Return:
			return ctl, v
		case c19Break:
			return c19Next, nil
		}
		if x.Post != nil {
			in.exec(x.Post, env)
		}
	}
}

func (in *c19Interp) execRange(x *ast.RangeStmt, env *c19Env) (c19Ctl, c19Value) {
	over := in.eval(x.X, env)
	var keys, vals []c19Value
	switch o := over.(type) {
	case c19Slice:
		for i, e := range o.elems {
			keys = append(keys, c19Const{v: constant.MakeInt64(int64(i)), typ: types.Typ[types.Int]})
			vals = append(vals, e)
		}
	case c19Nil:
	case c19Const:
		n, ok := c19AsInt(o)
		if !ok || n > c19MaxIter {
			in.abort("range over `%s`", in.src(x.X))
		}
		for i := int64(0); i < n; i++ {
			keys = append(keys, c19Const{v: constant.MakeInt64(i), typ: o.typ})
			vals = append(vals, nil)
		}
	default:
		in.abort("range over `%s`, a value the evaluation does not know", in.src(x.X))
	}
	in.noFork++
	defer func() { in.noFork-- }()
	bind := func(e ast.Expr, v c19Value) {
		if e == nil || v == nil {
			return
		}
		if id, ok := e.(*ast.Ident); ok && x.Tok == token.DEFINE {
			if id.Name == "_" {
				return
			}
			if o := in.info.Defs[id]; o != nil {
				env.vars[o] = &c19Cell{v: c19CopyVal(v)}
				return
			}
		}
		in.assign(e, v, env)
	}
	for i := range keys {
		bind(x.Key, keys[i])
		bind(x.Value, vals[i])
		ctl, v := in.execBlock(x.Body.List, env)
		switch ctl {
		case c19Return:
			return ctl, v
		case c19Break:
			return c19Next, nil
		}
	}
	return c19Next, nil
}
