package rules

import (
	"encoding/json"
	"fmt"
	"os"
	"path/filepath"

	"osmcheck/core"
)

type c20Endpoint struct {
	Method   string         `json:"method"`
	Doc      string         `json:"doc"`
	URL      string         `json:"url"`
	Params   map[string]int `json:"params"`
	Document string         `json:"document"`
	Result   string         `json:"result"`
	Single   bool           `json:"single"`
}

type c20Option struct {
	Ctor       string `json:"ctor"`
	Kind       string `json:"kind"`
	Key        string `json:"key"`
	Value      string `json:"value"`
	TimeLayout string `json:"time_layout"`
	UTC        bool   `json:"utc"`
	Min        *int64 `json:"min"`
	Max        *int64 `json:"max"`
}

type c20Table struct {
	HTTPMethod      string            `json:"http_method"`
	BasePathSuffix  string            `json:"base_path_suffix"`
	OptionSeparator string            `json:"option_separator"`
	OKStatus        int64             `json:"ok_status"`
	Statuses        map[string]string `json:"statuses"`
	OtherStatus     string            `json:"other_status"`
	NotFoundType    string            `json:"not_found_type"`
	Endpoints       []c20Endpoint     `json:"endpoints"`
	Options         []c20Option       `json:"options"`
}

func (t *c20Table) endpoint(name string) *c20Endpoint {
	for i := range t.Endpoints {
		if t.Endpoints[i].Method == name {
			return &t.Endpoints[i]
		}
	}
	return nil
}

// c20LoadTable reads tables/api06.json from rules.TablesDir. The sensitivity sub-processes of
// main.go are started without -verif, so when the file is absent there the directories next to
// the executable (<exe>/tables, <exe>/../tables) are tried as well.
func c20LoadTable(r *core.R) *c20Table {
	cands := []string{filepath.Join(TablesDir, "api06.json")}
	if exe, err := os.Executable(); err == nil {
		d := filepath.Dir(exe)
		cands = append(cands, filepath.Join(d, "tables", "api06.json"), filepath.Join(d, "..", "tables", "api06.json"))
	}
	var lastErr error
	for _, p := range cands {
		b, err := os.ReadFile(p)
		if err != nil {
			lastErr = err
			continue
		}
		t := &c20Table{}
		if err := json.Unmarshal(b, t); err != nil {
			r.Anchor("tables/api06.json (unparsable: " + err.Error() + ")")
			return nil
		}
		if len(t.Endpoints) == 0 || len(t.Statuses) == 0 || len(t.Options) == 0 || t.HTTPMethod == "" || t.OptionSeparator == "" {
			r.Anchor("tables/api06.json (incomplete: endpoints/statuses/options/http_method/option_separator required)")
			return nil
		}
		return t
	}
	r.Anchor(fmt.Sprintf("tables/api06.json (%v)", lastErr))
	return nil
}

// ---------------------------------------------------------------------------
// shared context
