package rules

import (
	"fmt"
	"go/ast"
	"go/types"
	"sort"
	"strings"
)

// Abstract values and path states of the C20 symbolic executor (c20_sx*.go).
//
// The executor runs a function of package osmapi forwards, statement by statement, with its inputs
// (parameters, receiver fields, package variables) bound to symbolic values. Static calls to
// functions of the package are inlined (so extracting or inlining helpers does not matter), a
// branch whose condition is not decided by the values forks the path and records the assumption
// as a fact (so the surface form of the tests does not matter), and the few library functions the
// package uses to build URLs and to talk HTTP are modelled. The rules then read the outcomes
// (returned values, recorded events, facts) instead of matching statement shapes.

type c20K int

const (
	c20kUnknown c20K = iota
	c20kNil
	c20kInt   // n; h != nil: the number is also a function input (printed as that hole)
	c20kBool  // b
	c20kStr   // sym
	c20kIn    // non-string function input h (parameter, field of one, package variable); tag "utc" after Time.UTC()
	c20kList  // []string: in (starts with the incoming list parameter), elems, star (zero or more strings of an input slice)
	c20kBytes // []byte: sym; id != 0: carried by loop id, empty at loop entry
	c20kObj   // abstract object or opaque result: tag, id (tags: doc, err, resp, req, body, decoder, optelem, loopidx, res)
	c20kRef   // &local: obj
	c20kSel   // base.name
	c20kIdx   // base[n]
	c20kLen   // len(base)
	c20kErr   // &T{...} of a package error type (tag = T) or a fresh error of fmt.Errorf/errors.New (tag = "new")
	c20kTuple // vs
	c20kAgg   // map/slice/array literal (lookup table): keys (maps, b=true) and vs in source order
	c20kFunc  // a declared function or method value (obj, base = receiver) or a function literal (lit); its free variables are read from the path's environment when it is called
)

type c20V struct {
	k      c20K
	n      int64
	b      bool
	sym    c20Sym
	h      *c20Hole
	typ    types.Type
	tag    string
	id     int
	obj    types.Object
	base   *c20V
	name   string
	in     bool
	elems  []c20Sym
	star   *c20Hole
	fields map[string]c20V
	vs     []c20V
	why    string
	lit    *ast.FuncLit
	keys   []c20V
}

func c20Unknown(format string, args ...interface{}) c20V {
	return c20V{k: c20kUnknown, why: fmt.Sprintf(format, args...)}
}

func c20StrV(s c20Sym) c20V { return c20V{k: c20kStr, sym: s} }

// key identifies the input a hole stands for: "base", "recv.F", "g:Var.F", "p2", "p1.F".
func (h *c20Hole) key() string {
	if h == nil {
		return "?"
	}
	if h.base {
		return "base"
	}
	s := ""
	switch {
	case h.param == -1:
		s = "recv"
	case h.param == -2:
		s = "g:" + h.pname
	case h.param == -3:
		s = "status"
	default:
		s = fmt.Sprintf("p%d", h.param)
	}
	if h.field != "" {
		s += "." + h.field
	}
	return s
}

// String renders a value for diagnostics.
func (v c20V) String() string {
	switch v.k {
	case c20kUnknown:
		return "unknown(" + v.why + ")"
	case c20kNil:
		return "nil"
	case c20kInt:
		if v.h != nil {
			return fmt.Sprintf("%d{%s}", v.n, v.h.key())
		}
		return fmt.Sprintf("%d", v.n)
	case c20kBool:
		return fmt.Sprintf("%v", v.b)
	case c20kStr:
		return "`" + v.sym.render(nil) + "`"
	case c20kIn:
		return "{" + v.h.key() + "}"
	case c20kList:
		var s []string
		if v.in {
			s = append(s, "<incoming list>...")
		}
		for _, e := range v.elems {
			s = append(s, "`"+e.render(nil)+"`")
		}
		if v.star != nil {
			s = append(s, "{"+v.star.fn+":"+v.star.key()+"}...")
		}
		return "[" + strings.Join(s, ", ") + "]"
	case c20kBytes:
		return "bytes`" + v.sym.render(nil) + "`"
	case c20kObj:
		return fmt.Sprintf("%s#%d", v.tag, v.id)
	case c20kRef:
		return "&" + v.obj.Name()
	case c20kSel:
		return v.base.String() + "." + v.name
	case c20kIdx:
		return fmt.Sprintf("%s[%d]", v.base.String(), v.n)
	case c20kLen:
		return "len(" + v.base.String() + ")"
	case c20kErr:
		return "&" + v.tag + "{...}"
	case c20kFunc:
		if v.obj != nil {
			return "func " + v.obj.Name()
		}
		return "func literal"
	case c20kAgg:
		return fmt.Sprintf("table of %d entries", len(v.vs))
	case c20kTuple:
		var s []string
		for _, x := range v.vs {
			s = append(s, x.String())
		}
		return "(" + strings.Join(s, ", ") + ")"
	}
	return "?"
}

// c20Same: identity of abstract values (same object, same input, same constant).
func c20Same(a, b c20V) bool {
	if a.k != b.k {
		return false
	}
	switch a.k {
	case c20kNil:
		return true
	case c20kInt:
		return a.n == b.n
	case c20kBool:
		return a.b == b.b
	case c20kStr:
		return a.sym.render(nil) == b.sym.render(nil)
	case c20kIn:
		return a.h.key() == b.h.key() && a.tag == b.tag
	case c20kObj:
		return a.id == b.id
	case c20kRef:
		return a.obj == b.obj
	case c20kFunc:
		return a.lit == b.lit && a.obj == b.obj
	case c20kAgg:
		if len(a.vs) != len(b.vs) || len(a.keys) != len(b.keys) {
			return false
		}
		for i := range a.vs {
			if !c20Same(a.vs[i], b.vs[i]) || (i < len(a.keys) && !c20Same(a.keys[i], b.keys[i])) {
				return false
			}
		}
		return true
	case c20kSel:
		return a.name == b.name && c20Same(*a.base, *b.base)
	case c20kIdx:
		return a.n == b.n && c20Same(*a.base, *b.base)
	case c20kLen:
		return c20Same(*a.base, *b.base)
	case c20kList:
		return a.String() == b.String()
	case c20kBytes:
		return a.sym.render(nil) == b.sym.render(nil)
	}
	return false
}

// control state of a path
const (
	c20cRun = iota
	c20cRet
	c20cAbort // the executor does not understand the code on this path (why)
	c20cCont
	c20cBrk
	c20cPanic
)

type c20Event struct {
	kind     string // "request", "wait", "newreq", "do", "decode", "epcall"
	call     *ast.CallExpr
	fn       *types.Func
	recv     c20V
	args     []c20V
	deref    []*c20V // for arguments of the form &local: the value of the local at the call
	ellipsis bool
	id       int // id of the opaque error / result objects of this event
}

type c20St struct {
	env    map[types.Object]c20V
	facts  map[string]bool
	events []c20Event
	notes  []string                // conditions that could not be tied to an input (both branches explored)
	heap   map[int]map[string]c20V // stores into struct objects of the package (see c20_sx_heap.go)
	ctl    int
	lbl    string // label of a labelled break/continue (ctl Brk/Cont)
	ret    []c20V
	retAt  *ast.ReturnStmt
	why    string
	whyAt  ast.Node
}

func c20NewSt() *c20St {
	return &c20St{env: map[types.Object]c20V{}, facts: map[string]bool{}}
}

func (s *c20St) clone() *c20St {
	c := &c20St{env: make(map[types.Object]c20V, len(s.env)), facts: make(map[string]bool, len(s.facts)), ctl: s.ctl, lbl: s.lbl, why: s.why, whyAt: s.whyAt, retAt: s.retAt}
	for k, v := range s.env {
		c.env[k] = v
	}
	for k, v := range s.facts {
		c.facts[k] = v
	}
	c.events = append([]c20Event(nil), s.events...)
	if len(s.heap) > 0 {
		c.heap = make(map[int]map[string]c20V, len(s.heap))
		for k, v := range s.heap {
			c.heap[k] = v // inner maps are replaced, never changed, on a store
		}
	}
	c.notes = append([]string(nil), s.notes...)
	c.ret = append([]c20V(nil), s.ret...)
	return c
}

func (s *c20St) abort(at ast.Node, format string, args ...interface{}) *c20St {
	if s.ctl != c20cAbort {
		s.ctl = c20cAbort
		s.why = fmt.Sprintf(format, args...)
		s.whyAt = at
	}
	return s
}

// resolve replaces an opaque error known (by a fact of the path) to be nil by nil.
func (s *c20St) resolve(v c20V) c20V {
	if v.k == c20kObj && v.tag == "err" && s.facts[fmt.Sprintf("nil:#%d", v.id)] {
		return c20V{k: c20kNil}
	}
	return v
}

// fact returns (value, known) of an atom on this path.
func (s *c20St) fact(atom string) (bool, bool) {
	v, ok := s.facts[atom]
	return v, ok
}

func (s *c20St) eventsOf(kind string) []c20Event {
	var out []c20Event
	for _, e := range s.events {
		if e.kind == kind {
			out = append(out, e)
		}
	}
	return out
}

func (s *c20St) factText() string {
	var ks []string
	for k, v := range s.facts {
		ks = append(ks, fmt.Sprintf("%s=%v", k, v))
	}
	sort.Strings(ks)
	return strings.Join(ks, " ")
}

// interval folds the comparison facts "cmp|<key>|<op>|<c>" of the path into the interval the value lies in.
// exact=false when a fact cannot be expressed as an interval bound (e.g. `!= c` away from the bounds).
func (s *c20St) interval(key string, lo, hi int64) (int64, int64, bool) {
	exact := true
	pre := "cmp|" + key + "|"
	for changed, rounds := true, 0; changed && rounds < 4; rounds++ {
		changed = false
		for a, val := range s.facts {
			if !strings.HasPrefix(a, pre) {
				continue
			}
			var op string
			var c int64
			rest := strings.Split(strings.TrimPrefix(a, pre), "|")
			if len(rest) != 2 {
				continue
			}
			op = rest[0]
			fmt.Sscanf(rest[1], "%d", &c)
			nlo, nhi := lo, hi
			switch {
			case op == "==" && val:
				if c > nlo {
					nlo = c
				}
				if c < nhi {
					nhi = c
				}
			case op == "==" && !val:
				if nlo == c {
					nlo++
				} else if nhi == c {
					nhi--
				} else if c > nlo && c < nhi {
					exact = false
				}
			case op == "<" && val:
				if c-1 < nhi {
					nhi = c - 1
				}
			case op == "<" && !val:
				if c > nlo {
					nlo = c
				}
			case op == "<=" && val:
				if c < nhi {
					nhi = c
				}
			case op == "<=" && !val:
				if c+1 > nlo {
					nlo = c + 1
				}
			}
			if nlo != lo || nhi != hi {
				lo, hi, changed = nlo, nhi, true
			}
		}
	}
	return lo, hi, exact
}
