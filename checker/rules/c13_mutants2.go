package rules

import "osmcheck/core"

// Further defects of the C13 sensitivity suite (one per aspect the path evaluation decides that the first list
// does not exercise).
var c13Mutants2 = []core.Mutant{
	{Name: "way-fallback-returns-early", File: c13Chg,
		Find:    "\t\t\t\tOSM:  &osm.OSM{Ways: osm.Ways{w}},\n\t\t\t})\n\t\t\tcontinue",
		Replace: "\t\t\t\tOSM:  &osm.OSM{Ways: osm.Ways{w}},\n\t\t\t})\n\t\t\treturn actions, nil",
		Nth:     1, ExpectRule: "S3", ExpectConstruct: "one-action@Modify/Way"},
	{Name: "early-typed-error", File: c13Chg,
		Find:       "\t// creates are all \"new\" things\n",
		Replace:    "\tif change.Create == nil {\n\t\treturn nil, &NoHistoryError{}\n\t}\n\n\t// creates are all \"new\" things\n",
		ExpectRule: "S5", ExpectConstruct: "early-error@Change"},
	{Name: "extra-action-outside-loops", File: c13Chg,
		Find:       "\t// modify\n",
		Replace:    "\tactions = append(actions, osm.Action{Type: osm.ActionCreate})\n\n\t// modify\n",
		ExpectRule: "S3", ExpectConstruct: "actions@Change"},
	{Name: "history-entry-visibility-overwritten", File: c13Chg,
		Find:       "\t\tr.Visible = currentVisible\n",
		Replace:    "\t\tr.Visible = currentVisible\n\t\told.Visible = true\n",
		ExpectRule: "S5", ExpectConstruct: "effects@Modify/Relation"},
	{Name: "relation-old-is-first-history-entry", File: c13Chg,
		Find:       "\treturn relations[loc], nil",
		Replace:    "\treturn relations[0], nil",
		ExpectRule: "S4", ExpectConstruct: "update@Modify/Relation"},
	{Name: "delete-section-skipped-when-modify-empty", File: c13Chg,
		Find:       "\t// delete\n\tactions, err = addUpdate(ctx, actions, change.Delete, osm.ActionDelete, ds, ignoreMissing)",
		Replace:    "\t// delete\n\tif change.Modify == nil {\n\t\treturn &osm.Diff{Actions: actions}, nil\n\t}\n\tactions, err = addUpdate(ctx, actions, change.Delete, osm.ActionDelete, ds, ignoreMissing)",
		ExpectRule: "S3", ExpectConstruct: "actions@Change"},
}

// c13AllMutants is the sensitivity suite of C13.
func c13AllMutants(first []core.Mutant) []core.Mutant {
	return append(append(c13Mutants8[:len(c13Mutants8):len(c13Mutants8)], c13Mutants8b...), append(append(append([]core.Mutant(nil), first...), c13Mutants2...), append(append(append([]core.Mutant(nil), c13Mutants5...), c13Mutants5b...), append(append([]core.Mutant(nil), c13Mutants5d...), c13Mutants5e...)...)...)...)
}
