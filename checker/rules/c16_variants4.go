package rules

import "osmcheck/core"

// c16_variants4.go — sensitivity and robustness suites for the "several rings per role" family of rule A1: the two
// per-ring loops of annotate.orientation fused into one helper that takes the list of joined rings of one role.

// c16AnnotTail is annotate/geo.go from the two Join calls of orientation to the end of annotateOrientation.
const c16AnnotTail = "\touters := mputil.Join(outer)\n\tinners := mputil.Join(inner)\n\n\tfor _, outer := range outers {\n\t\tannotateOrientation(members, outer, orb.CCW)\n\t}\n\n\tfor _, inner := range inners {\n\t\tannotateOrientation(members, inner, orb.CW)\n\t}\n\n\treturn tainted\n}\n\nfunc annotateOrientation(members osm.Members, ms mputil.MultiSegment, o orb.Orientation) {\n" + c16AnnotBody + "}\n"

// c16AnnotFused: the fused shape. PRE (before the loop over rings), HEAD (first statements of an iteration), FOOT
// (last statements of an iteration) and EXTRA (declarations after the function) are filled in.
const c16AnnotFused = "\tannotateOrientation(members, mputil.Join(outer), orb.CCW)\n\tannotateOrientation(members, mputil.Join(inner), orb.CW)\n\n\treturn tainted\n}\n\n// annotateOrientation sets the orientation of the members that make up the given rings.\nfunc annotateOrientation(members osm.Members, rings []mputil.MultiSegment, o orb.Orientation) {\nPRE\tfor _, ms := range rings {\nHEAD\n\t\tfor _, segment := range ms {\n\t\t\tif segment.Reversed {\n\t\t\t\tmembers[segment.Index].Orientation = -1 * factor * o\n\t\t\t} else {\n\t\t\t\tmembers[segment.Index].Orientation = factor * o\n\t\t\t}\n\t\t}\nFOOT\t}\n}\nEXTRA"

func c16AnnotFusedText(pre, head, foot, extra string) string {
	return c16Subst(c16AnnotFused, "PRE", pre, "HEAD", head, "FOOT", foot, "EXTRA", extra)
}

const (
	c16FactorDecl   = "\tfactor := orb.Orientation(1)\n"
	c16FactorDeclIn = "\t\tfactor := orb.Orientation(1)\n"
	c16FactorSet    = "\t\tif ms.Orientation() != o {\n\t\t\tfactor = -1\n\t\t}\n"
)

var c16Mutants4 = []core.Mutant{
	// the held-out seed: factor declared once before the loop over rings, never reset
	{Name: "annotate-fused-factor-carried", File: c16GeoGo, Find: c16AnnotTail,
		Replace:    c16AnnotFusedText(c16FactorDecl, c16FactorSet, "", ""),
		ExpectRule: "A1", ExpectConstruct: "annotate[two rings per role"},
	// reset, but only after a ring that was found to run the requested way: a ring after a wrong-way ring is judged with -1
	{Name: "annotate-fused-factor-reset-late", File: c16GeoGo, Find: c16AnnotTail,
		Replace:    c16AnnotFusedText("\tfactor, wrong := orb.Orientation(1), false\n", "\t\twrong = ms.Orientation() != o\n\t\tif wrong {\n\t\t\tfactor = -1\n\t\t}\n", "\t\tif !wrong {\n\t\t\tfactor = 1\n\t\t}\n", ""),
		ExpectRule: "A1", ExpectConstruct: "annotate[two rings per role"},
	// multiplied instead of assigned: two wrong-way rings in a row cancel
	{Name: "annotate-fused-factor-multiplied", File: c16GeoGo, Find: c16AnnotTail,
		Replace:    c16AnnotFusedText(c16FactorDecl, "\t\tif ms.Orientation() != o {\n\t\t\tfactor *= -1\n\t\t}\n", "", ""),
		ExpectRule: "A1", ExpectConstruct: "annotate[two rings per role"},
	// the verdict on the first ring is reused for all rings of the role
	{Name: "annotate-fused-first-ring-decides", File: c16GeoGo, Find: c16AnnotTail,
		Replace:    c16AnnotFusedText("\tfactor := orb.Orientation(1)\n\tif len(rings) > 0 && rings[0].Orientation() != o {\n\t\tfactor = -1\n\t}\n\n", "", "", ""),
		ExpectRule: "A1", ExpectConstruct: "annotate[two rings per role"},
}

var c16Benign4 = []core.Mutant{
	// today's declaration, inside the fused loop
	{Name: "annotate-fused-factor-per-ring", File: c16GeoGo, Find: c16AnnotTail,
		Replace: c16AnnotFusedText("", c16FactorDeclIn+c16FactorSet, "", "")},
	// declared outside, assigned on both branches in every iteration
	{Name: "annotate-fused-factor-both-branches", File: c16GeoGo, Find: c16AnnotTail,
		Replace: c16AnnotFusedText("\tvar factor orb.Orientation\n", "\t\tif ms.Orientation() != o {\n\t\t\tfactor = -1\n\t\t} else {\n\t\t\tfactor = 1\n\t\t}\n", "", "")},
	// computed by a helper per ring
	{Name: "annotate-fused-factor-helper", File: c16GeoGo, Find: c16AnnotTail,
		Replace: c16AnnotFusedText("", "\t\tfactor := correction(ms, o)\n", "", "\n// correction is -1 for a ring that was joined against the wanted direction.\nfunc correction(ms mputil.MultiSegment, want orb.Orientation) orb.Orientation {\n\tif ms.Orientation() == want {\n\t\treturn 1\n\t}\n\n\treturn -1\n}\n")},
	// declared outside and reset at the end of every iteration
	{Name: "annotate-fused-factor-reset-at-end", File: c16GeoGo, Find: c16AnnotTail,
		Replace: c16AnnotFusedText(c16FactorDecl, c16FactorSet, "\t\tfactor = 1\n", "")},
}
