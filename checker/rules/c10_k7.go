package rules

// K7 kind-guard@: the typed conversions of the packed ids (ElementID.NodeID, FeatureID.WayID, ... : every
// exported parameterless method of a packed id type whose result is one of the per-kind id types) extract the
// reference *assuming a kind*; their doc comments promise a panic for an id of any other kind ("decode back to
// exactly that kind"). The whole method is evaluated on the K2 id of each of the seven kinds (kind bits constant,
// reference and version symbolic): for the kind of the result type it must return the reference (K3 convert@),
// for each of the other six it must panic on every path. The guard is thereby decided from the masks, not from
// its spelling: a single-bit test `id&nodeMask != nodeMask` lets relation ids (0x3 = node bit | way bit)
// through, `id&relationMask != relationMask` happens to be exact because no other kind contains both bits, and
// `id&typeMask != nodeMask`, `id.Type() != TypeNode`, helper predicates and table lookups are all just evaluated.

import (
	"fmt"
	"go/types"
	"strings"

	"osmcheck/core"
)

// kindConversions lists the typed conversions by signature.
func (m *c10Model) kindConversions() []*FuncInfo {
	var out []*FuncInfo
	for _, packed := range []string{"ObjectID", "ElementID", "FeatureID"} {
		for _, fi := range m.methodsOf(packed) {
			sig := fi.Obj.Type().(*types.Signature)
			if fi.Obj.Exported() && sig.Params().Len() == 0 && sig.Results().Len() == 1 && m.kindByIDType(sig.Results().At(0).Type()) != nil {
				out = append(out, fi)
			}
		}
	}
	return out
}

func c10K7(r *core.R) {
	m := c10Load(r)
	if m == nil {
		return
	}
	for _, n := range []string{"ElementID.NodeID", "ElementID.WayID", "ElementID.RelationID", "FeatureID.NodeID", "FeatureID.WayID", "FeatureID.RelationID"} {
		if findFunc(m.pk, n) == nil {
			r.Anchor(n)
		}
	}
	convs := m.kindConversions()
	for _, fi := range convs {
		sig := fi.Obj.Type().(*types.Signature)
		recvT := sig.Recv().Type()
		packed := m.localName(recvT)
		own := m.kindByIDType(sig.Results().At(0).Type())
		c := "kind-guard@" + fi.Name()
		var through, rejected []string
		unk := ""
		for _, k := range m.kinds {
			if k == own {
				continue
			}
			in := m.inputOf(packed, k)
			outs := m.ev.call(fi.Decl, ptrVal(c10IntVal(m.vecOf(recvT, in))), nil, 1)
			passes := len(outs) == 0
			for _, o := range outs {
				switch {
				case o.Unsupported != "":
					unk = fmt.Sprintf("%s on a %s id is outside the interpreted statement forms: %s", fi.Name(), k.Name, o.Unsupported)
				case !o.Panic:
					passes = true
				}
			}
			if passes {
				through = append(through, fmt.Sprintf("%s (%s)", k.Name, m.maskName(k)))
			} else {
				rejected = append(rejected, k.Name)
			}
		}
		switch {
		case unk != "":
			r.Unknown(c, fi.Decl.Pos(), "%s", unk)
		case len(through) > 0:
			r.Bad(c, fi.Decl.Pos(), "%s does not panic for ids of kind %s: its guard is not true exactly for %s ids (kind bits %s) among the seven kinds, so an id of another kind converts to a %s instead of panicking as documented", fi.Name(), strings.Join(through, ", "), own.Name, m.maskName(own), sig.Results().At(0).Type().(*types.Named).Obj().Name())
		default:
			r.OK(c, fi.Decl.Pos(), "%s evaluated on the K2 id of every kind: returns the reference for %s (K3 convert@) and panics on every path for %s", fi.Name(), own.Name, strings.Join(rejected, ", "))
		}
	}
	r.Stat("kind_conversions", len(convs))
}
