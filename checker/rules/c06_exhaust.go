package rules

import (
	"go/ast"
	"go/types"

	"golang.org/x/tools/go/cfg"

	"osmcheck/core"
)

// C06.E14 — a column that runs out is an error, not an absence.
//
// The columns of a message are read in step: one iterator drives the element loop (`for ids.HasNext()`), the others
// are read once per element and report an error when they are exhausted early. That error is what turns a truncated or
// inconsistent column into "the scan ends in an error". A HasNext() test of an iterator that is not the condition of a
// loop reading that iterator asks "is anything left?" where the format only knows "is the column there?": when the
// exhausted outcome does not lead to an error on every path, a column that is too short is silently treated like one
// that is absent (tagless nodes, missing metadata) and the damage is accepted.
func c06E14(r *core.R) {
	cm := c01ModelOrAnchor(r)
	if cm == nil {
		return
	}
	m := cm.m
	info := m.info
	fs := r.P.Fset
	n := 0
	for _, body := range c01RoleBodies(m, "worker") {
		f := body.fn
		loops := c01Loops(f)
		for _, b := range f.g.Blocks {
			if !b.Live {
				continue
			}
			cond := f.condOf(b)
			if cond == nil {
				continue
			}
			var calls []*ast.CallExpr
			ast.Inspect(cond, func(x ast.Node) bool {
				if call, ok := x.(*ast.CallExpr); ok {
					if fn := callee(info, call); fn != nil && fn.Name() == "HasNext" {
						if sel, isSel := ast.Unparen(call.Fun).(*ast.SelectorExpr); isSel && namedPath(info.TypeOf(sel.X)) == protoscanIter {
							calls = append(calls, call)
						}
					}
				}
				return true
			})
			for _, call := range calls {
				n++
				sel := ast.Unparen(call.Fun).(*ast.SelectorExpr)
				c := "exhaust@" + body.name + " " + src(fs, call)
				// the loop this condition heads, and whether its body reads the same iterator
				// the test drives a loop over the column when its exhausted outcome leaves a loop whose body reads the
				// column (`for it.HasNext() {..}`, `for i := 0; it.HasNext(); i++ {..}`, `for { if !it.HasNext() { break } .. }`)
				drives := false
				vd := c01Eval(info, cond, func(a ast.Expr) c01Tri {
					if ast.Unparen(a) == ast.Expr(call) {
						return c01F
					}
					return c01U
				})
				for _, l := range loops {
					if !l.blocks[b] || vd == c01U {
						continue
					}
					exit := b.Succs[1]
					if vd == c01T {
						exit = b.Succs[0]
					}
					if l.blocks[exit] && !c06LeavesLoop(exit, l) {
						continue
					}
					// a test in the body only drives the loop when the loop has no column test of its own at its head
					// (`for { if !it.HasNext() { break } .. }`); inside `for other.HasNext()` it is a second opinion on
					// how long the data is
					if b != l.head {
						if hc := f.condOf(l.head); hc != nil && c01ContainsCall(hc, func(c2 *ast.CallExpr) bool {
							fn := callee(info, c2)
							return fn != nil && fn.Name() == "HasNext"
						}) {
							continue
						}
					}
					flds := cm.iterFieldsIn(f.fi, sel.X)
					for lb := range l.blocks {
						for _, nd := range lb.Nodes {
							if c06ReadsIter(info, f, nd, sel.X, call) || c06ReadsIterBelow(cm, f, nd, sel.X, flds, 0) {
								drives = true
							}
						}
					}
				}
				if drives {
					r.OK(c, call.Pos(), "drives the loop that reads the column: the loop ends when the column does")
					continue
				}
				// the exhausted outcome: which edges can be taken when this HasNext() is false
				v := c01Eval(info, cond, func(a ast.Expr) c01Tri {
					if ast.Unparen(a) == ast.Expr(call) {
						return c01F
					}
					return c01U
				})
				bad := false
				for si, nb := range b.Succs {
					if (si == 0 && v == c01F) || (si == 1 && v == c01T) {
						continue
					}
					if v == c01U && si == 0 {
						continue // the condition can still be true for other reasons: only the edge the exhaustion forces matters
					}
					if !c06AllPathsError(info, f, nb) {
						bad = true
					}
				}
				if v == c01U {
					r.Unknown(c, call.Pos(), "how the outcome of `%s` steers `%s` is not understood (the test is neither a loop condition over the column nor decided by the exhaustion alone)", src(fs, call), src(fs, cond))
					continue
				}
				if bad {
					r.Bad(c, call.Pos(), "`%s` is tested outside a loop condition over that column and the exhausted outcome does not end in an error on every path: a column that is shorter than the one driving the element loop (truncated or inconsistent data) is treated like an absent column and the rest of the elements is decoded without it, instead of the scan ending in the iterator's error", src(fs, call))
				} else {
					r.OK(c, call.Pos(), "the exhausted outcome ends in an error on every path")
				}
			}
		}
	}
	if n == 0 {
		r.Anchor("HasNext tests of column iterators in the worker role")
	}
}

// c06ReadsIter: node n calls a read method (anything but HasNext/Count) on the iterator x denotes.
func c06ReadsIter(info *types.Info, f *c01Fn, n ast.Node, x ast.Expr, except *ast.CallExpr) bool {
	hit := false
	ast.Inspect(n, func(y ast.Node) bool {
		call, ok := y.(*ast.CallExpr)
		if !ok || call == except || hit {
			return !hit
		}
		fn := callee(info, call)
		sel, isSel := ast.Unparen(call.Fun).(*ast.SelectorExpr)
		if fn == nil || !isSel || namedPath(info.TypeOf(sel.X)) != protoscanIter || fn.Name() == "HasNext" || fn.Name() == "Count" {
			return true
		}
		if c06SameValue(info, f.body, sel.X, f.body, x) {
			hit = true
		}
		return !hit
	})
	return hit
}

// c06AllPathsError: every path from block b0 ends in a return of a certainly non-nil error.
func c06AllPathsError(info *types.Info, f *c01Fn, b0 *cfg.Block) bool {
	seen := map[*cfg.Block]bool{b0: true}
	work := []*cfg.Block{b0}
	for len(work) > 0 {
		b := work[len(work)-1]
		work = work[:len(work)-1]
		returned := false
		for _, n := range b.Nodes {
			if ret, ok := n.(*ast.ReturnStmt); ok {
				if len(ret.Results) == 0 || !c01IsErrNonNilExpr(info, ret.Results[len(ret.Results)-1], f.factsAtPos(ret.Pos())) {
					return false
				}
				returned = true
			}
		}
		if returned {
			continue
		}
		if len(b.Succs) == 0 {
			if c01IsNormalExit(f, b) {
				return false
			}
			continue
		}
		for _, nb := range b.Succs {
			if !seen[nb] {
				seen[nb] = true
				work = append(work, nb)
			}
		}
	}
	return true
}

// c06LeavesLoop: block b (inside loop l) is a straight line that leaves the loop without doing anything (a `break`).
func c06LeavesLoop(b *cfg.Block, l *c01Loop) bool {
	for i := 0; i < 4; i++ {
		if !l.blocks[b] {
			return true
		}
		if len(b.Nodes) > 0 || len(b.Succs) != 1 {
			return false
		}
		b = b.Succs[0]
	}
	return !l.blocks[b]
}

// c06ReadsIterBelow: node n calls a function of the package that reads the column: it is handed the iterator x, or it
// reads (itself or further down) one of the iterator fields x denotes.
func c06ReadsIterBelow(cm *c01Model, f *c01Fn, n ast.Node, x ast.Expr, flds []*types.Var, depth int) bool {
	if depth > 3 {
		return false
	}
	info := cm.m.info
	hit := false
	ast.Inspect(n, func(y ast.Node) bool {
		call, ok := y.(*ast.CallExpr)
		if !ok || hit {
			return !hit
		}
		tf := c01Callee(cm.m.pk, call)
		if tf == nil {
			return true
		}
		g := c01FnOf(cm.p, tf)
		// handed the iterator
		for i, a := range call.Args {
			if namedPath(info.TypeOf(a)) == protoscanIter && c06SameValue(info, f.body, a, f.body, x) {
				if po := c01Param(info, tf, i); po != nil {
					pid := &ast.Ident{Name: po.Name()}
					_ = pid
					ast.Inspect(tf.Decl.Body, func(z ast.Node) bool {
						c2, ok := z.(*ast.CallExpr)
						if !ok || hit {
							return !hit
						}
						if s2, ok := ast.Unparen(c2.Fun).(*ast.SelectorExpr); ok && objOf(info, s2.X) == po {
							if fn := callee(info, c2); fn != nil && fn.Name() != "HasNext" && fn.Name() != "Count" {
								hit = true
							}
						}
						return !hit
					})
				}
			}
		}
		// reads the same iterator field somewhere below
		if !hit && len(flds) > 0 {
			for _, h := range c01Reachable(cm.p, tf) {
				ast.Inspect(h.Decl.Body, func(z ast.Node) bool {
					c2, ok := z.(*ast.CallExpr)
					if !ok || hit {
						return !hit
					}
					s2, ok := ast.Unparen(c2.Fun).(*ast.SelectorExpr)
					if !ok || namedPath(info.TypeOf(s2.X)) != protoscanIter {
						return true
					}
					fn := callee(info, c2)
					if fn == nil || fn.Name() == "HasNext" || fn.Name() == "Count" {
						return true
					}
					for _, rf := range cm.iterFieldsIn(h, s2.X) {
						for _, want := range flds {
							if rf == want {
								hit = true
							}
						}
					}
					return !hit
				})
			}
		}
		_ = g
		return !hit
	})
	return hit
}
