package rules

import (
	"fmt"
	"go/token"
	"go/types"

	"osmcheck/core"
)

// c05ReadCase is what OSM.UnmarshalJSON does with an element whose `type` key has one value.
type c05ReadCase struct {
	T      types.Type // type of the fresh object the element is unmarshalled into
	Field  *types.Var // receiver field that holds it at the end
	Append bool
	Why    string
	Pos    token.Pos
	Err    bool // every path returns a non-nil error (the "unknown type" branch)
	Nil    bool // some path ends without error and without decoding the element
}

// c05ReaderModel is the observed behaviour of (*OSM).UnmarshalJSON.
type c05ReaderModel struct {
	cx      *c05Codec
	un      *FuncInfo
	recv    *types.Var
	labels  []string
	cases   map[string]*c05ReadCase // "" = any other type value
	typeKey string                  // non-empty: why the dispatch value is not the element's `type` key
	typePos token.Pos
	shimT   types.Type // the struct the document is decoded into
	shimPos token.Pos
	top     map[string][]*types.Var // JSON key of the document struct -> receiver fields its value reaches
	aborted string
}

func c05IsElemData(v *c03V) bool {
	if v == nil || !v.IsInit("elem") || v.Root.Of == nil {
		return false
	}
	of := v.Root.Of
	return of.IsInit("decoded") && len(of.Path) == 1
}

// c05BuildReader explores (*OSM).UnmarshalJSON once per `type` value.
func c05BuildReader(r *core.R, extra []string) *c05ReaderModel {
	pk := c03OsmPkg(r.P)
	osmNT, osmST := structType(pk, "OSM")
	var un *FuncInfo
	if osmNT != nil {
		un = c03FuncInfoOf(r.P, c03Method(osmNT, "UnmarshalJSON"))
	}
	if un == nil {
		r.Anchor("osm.(*OSM).UnmarshalJSON")
		return nil
	}
	cx := c05NewCodec(r.P)
	m := &c05ReaderModel{cx: cx, un: un, recv: c03Receiver(un), cases: map[string]*c05ReadCase{}, top: map[string][]*types.Var{}, typePos: un.Decl.Pos(), shimPos: un.Decl.Pos()}
	m.labels = c03SortedLabels(c03CompareStrings(r.P, un), extra)
	sawTypeRead := false
	for _, l := range append([]string{""}, m.labels...) {
		x, paths := cx.run(un, c05Scen{TypeKey: l, NoType: l == "", Tag: "type " + l})
		if x.Aborted != "" {
			m.aborted = x.Aborted
		}
		rc := &c05ReadCase{Pos: un.Decl.Pos(), Err: true}
		seenElem := false
		for _, pa := range paths {
			if pa.End != "return" || len(pa.Ret) != 1 {
				rc.Why = "a path ends with " + pa.End + " " + pa.Why
				continue
			}
			var cands []c05Op
			for _, op := range cx.ops(pa) {
				if op.dir != "unmarshal" {
					continue
				}
				if !c05IsElemData(op.data) {
					// the document itself
					if _, ok := op.t.Underlying().(*types.Struct); ok && op.operand.K == c03KAddr && m.shimT == nil {
						m.shimT, m.shimPos = op.t, op.ev.Node.Pos()
					}
					continue
				}
				seenElem = true
				cands = append(cands, op)
			}
			if pa.St.Zero(pa.Ret[0]) == triF {
				for _, op := range cands {
					if c03JSONKey(op.t, "type") != nil {
						sawTypeRead, m.typePos = true, op.ev.Node.Pos()
					}
				}
				continue // error path
			}
			rc.Err = false
			if !seenElem {
				continue // the elements loop was not entered
			}
			// which of the objects the element was unmarshalled into does the receiver hold at the end?
			rv := pa.St.Var(m.recv)
			objOf := func(op c05Op) *c03V {
				if op.operand.K == c03KAddr && op.pointee != nil && op.pointee.K == c03KPtr {
					return op.pointee
				}
				return op.operand
			}
			holder := func(obj *c03V) (*types.Var, bool, bool) {
				if obj.Ident() == "" {
					return nil, false, false
				}
				for i := 0; i < osmST.NumFields(); i++ {
					f := osmST.Field(i)
					fv := x.field(pa.St, rv, f, un.Decl, nil)
					if fv.Ident() == obj.Ident() {
						return f, false, true
					}
					if fv.K == c03KList {
						for _, e := range fv.Elems {
							if e.Ident() == obj.Ident() {
								return f, true, true
							}
						}
					}
				}
				return nil, false, false
			}
			var dec, loose []c05Op
			for _, op := range cands {
				if _, _, ok := holder(objOf(op)); ok {
					dec = append(dec, op)
				} else if c03JSONKey(op.t, "type") != nil && objOf(op).K == c03KAddr {
					sawTypeRead, m.typePos = true, op.ev.Node.Pos() // the type reader: a local struct with a `type` key
				} else {
					loose = append(loose, op)
				}
			}
			switch {
			case len(dec) == 0 && len(loose) > 0:
				rc.T, rc.Pos = c03DerefT(objOf(loose[0]).T), loose[0].ev.Node.Pos()
				rc.Why = fmt.Sprintf("the decoded %s is not held by a field of the receiver when UnmarshalJSON returns (expected `o.F = append(o.F, v)`)", c03ShortT(rc.T))
				continue
			case len(dec) == 0:
				rc.Nil = true
				continue
			case len(dec) > 1:
				rc.Why = "the element is unmarshalled more than once"
				continue
			}
			obj := objOf(dec[0])
			t := c03DerefT(obj.T)
			if rc.T != nil && !types.Identical(rc.T, t) && rc.Why == "" {
				rc.Why = fmt.Sprintf("depending on conditions other than the `type` key the element is decoded into %s or %s", c03Short(rc.T), c03Short(t))
			}
			rc.T, rc.Pos = t, dec[0].ev.Node.Pos()
			rc.Field, rc.Append, _ = holder(obj)
			holds := rc.Field.Type()
			if rc.Append {
				holds = c03RangeElemType(holds)
			}
			if holds == nil || !types.Identical(c03Deref(holds), c03Deref(rc.T)) {
				rc.Why = fmt.Sprintf("a %s is stored into OSM.%s, which holds %s", c03Short(rc.T), rc.Field.Name(), c03ShortT(holds))
			}
			// top-level keys: which receiver fields the decoded document fields reach
			if len(m.top) == 0 {
				for i := 0; i < osmST.NumFields(); i++ {
					f := osmST.Field(i)
					fv := x.field(pa.St, rv, f, un.Decl, nil)
					for _, jf := range c03JSONFields(m.shimT) {
						key := jf.Key
						if c05Derives(fv, func(v *c03V) bool {
							g, ok := c05IsDecodedField(v)
							return ok && g.Key == key && types.Identical(v.Root.T, m.shimT)
						}) && fv.K != c03KList {
							m.top[key] = append(m.top[key], f)
						}
					}
				}
			}
		}
		if seenElem || l == "" {
			m.cases[l] = rc
		}
	}
	if !sawTypeRead {
		m.typeKey = "no path decodes an element of the `elements` list into a struct with a JSON key `type` before dispatching"
	}
	return m
}
