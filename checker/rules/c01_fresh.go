package rules

import (
	"fmt"
	"go/ast"
	"go/token"
	"go/types"
	"sort"
	"strings"

	"golang.org/x/tools/go/cfg"

	"osmcheck/core"
)

// C01.R2 — freshness of cached iterators: an exact reachable-valuation analysis (powerset domain) over
//   - the iterator fields of the per-worker decoder: S = left over from an earlier element/block, A = assigned
//     while decoding the current element, N = nil;
//   - the boolean locals (found-flags) of the function being executed: T / F;
//   - its error locals: Z = nil, E = non-nil, ? = unknown.
// The analysis is interprocedural by inlining: a call of a method of the per-worker decoder is executed on the
// callee's CFG from the caller's field valuation, and every (field valuation, nil-ness of the returned error) pair
// it can return with continues in the caller. The result therefore does not depend on how the decoding of one
// element is split into methods. One analysis is run per element message of a primitive group (the method that
// receives the bytes of a DenseNodes / Way / Relation message), starting from "every iterator is stale".

type c01Exit struct {
	fields string
	err    byte // 'Z' nil, 'E' non-nil, '?' unknown, '-' no error result
}

type c01Fresh struct {
	r        *core.R
	cm       *c01Model
	info     *types.Info
	fields   []*types.Var
	fieldIdx map[*types.Var]int
	viol     map[*types.Var]string
	vpos     map[*types.Var]token.Pos
	usePos   map[*types.Var]map[token.Pos]bool
	nstate   int
	memo     map[string][]c01Exit
	stack    map[*types.Func]bool
	unknown  string
	upos     token.Pos
}

// c01Frame is the execution of one function.
type c01Frame struct {
	fr     *c01Fresh
	fi     *FuncInfo
	f      *c01Fn
	locals []types.Object // tracked bool / error locals, fixed order
	lidx   map[types.Object]int
	exits  map[c01Exit]bool
}

type c01St struct {
	fields []byte
	locals []byte
}

func (s c01St) clone() c01St {
	return c01St{fields: append([]byte{}, s.fields...), locals: append([]byte{}, s.locals...)}
}

func (s c01St) key() string { return string(s.fields) + "|" + string(s.locals) }

func c01R2(r *core.R) {
	cm := c01ModelOrAnchor(r)
	if cm == nil {
		return
	}
	m := cm.m
	info := m.info
	// tracked state: every iterator field of the per-worker decoder
	var fields []*types.Var
	st := m.ddT.Underlying().(*types.Struct)
	for i := 0; i < st.NumFields(); i++ {
		if namedPath(st.Field(i).Type()) == protoscanIter {
			fields = append(fields, st.Field(i))
		}
	}
	if len(fields) == 0 {
		r.Anchor("iterator fields of the per-worker decoder")
		return
	}
	// roots: the methods that receive the bytes of an element message of a primitive group
	elemMsg := map[string]bool{}
	if pg := cm.desc.Messages["PrimitiveGroup"]; pg != nil {
		for _, f := range pg.Fields {
			if f.IsMsg {
				elemMsg[f.Type] = true
			}
		}
	}
	type root struct {
		fi  *FuncInfo
		msg string
	}
	var roots []root
	for _, fi := range cm.worker {
		for _, po := range c01ParamObjs(info, fi) {
			if po != nil && c01IsByteSlice(po.Type()) && elemMsg[cm.dataMsg[po]] {
				roots = append(roots, root{fi, cm.dataMsg[po]})
				break
			}
		}
	}
	// a root reached from another root of the same message is part of that root's analysis
	var top []root
	for _, a := range roots {
		inner := false
		for _, b := range roots {
			if a.fi == b.fi || a.msg != b.msg {
				continue
			}
			for _, g := range c01Reachable(r.P, b.fi) {
				if g.Obj == a.fi.Obj {
					inner = true
				}
			}
		}
		if !inner {
			top = append(top, a)
		}
	}
	sort.Slice(top, func(i, j int) bool { return top[i].fi.Decl.Pos() < top[j].fi.Decl.Pos() })
	filled := map[string]bool{}
	for _, it := range cm.iters {
		for _, s := range it.sources {
			filled[s.msg] = true
		}
	}
	nroots := 0
	for _, rt := range top {
		fr := &c01Fresh{r: r, cm: cm, info: info, fields: fields, fieldIdx: map[*types.Var]int{}, viol: map[*types.Var]string{}, vpos: map[*types.Var]token.Pos{},
			usePos: map[*types.Var]map[token.Pos]bool{}, memo: map[string][]c01Exit{}, stack: map[*types.Func]bool{}}
		for i, f := range fields {
			fr.fieldIdx[f] = i
		}
		init := make([]byte, len(fields))
		for i := range init {
			init[i] = 'S'
		}
		fr.run(rt.fi, string(init))
		if fr.unknown != "" {
			r.Unknown("fresh@"+rt.msg, fr.upos, "%s", fr.unknown)
			continue
		}
		used := 0
		for _, f := range fields {
			c := "fresh@" + rt.msg + " dec." + f.Name()
			n := len(fr.usePos[f])
			if v, bad := fr.viol[f]; bad {
				r.Bad(c, fr.vpos[f], "%s", v)
				used++
			} else if n > 0 {
				used++
				r.OK(c, rt.fi.Decl.Pos(), "at each of its %d use(s) while a %s message is decoded (from %s, through every method it calls), in every reachable valuation of the found-flags (%d block states explored), dec.%s was assigned from the current message or is nil", n, rt.msg, rt.fi.Name(), fr.nstate, f.Name())
			}
		}
		if used > 0 {
			nroots++
		}
	}
	// every element message whose columns are cached must have been analysed
	var fm []string
	for msg := range filled {
		fm = append(fm, msg)
	}
	sort.Strings(fm)
	want := 0
	for _, msg := range fm {
		if elemMsg[msg] {
			want++
		}
	}
	if nroots < want || want == 0 {
		r.Anchor(fmt.Sprintf("methods receiving the bytes of an element message and using cached iterators (found %d; iterators are filled from %s, of which %d are element messages of a primitive group)", nroots, strings.Join(fm, ", "), want))
	}
}

// run executes fi from the given field valuation and returns the ways it can return.
func (fr *c01Fresh) run(fi *FuncInfo, entry string) []c01Exit {
	key := fmt.Sprintf("%p|%s", fi.Obj, entry)
	if ex, ok := fr.memo[key]; ok {
		return ex
	}
	if fr.stack[fi.Obj] {
		if fr.unknown == "" {
			fr.unknown, fr.upos = fmt.Sprintf("%s is recursive: the freshness analysis inlines the decoder's methods and does not handle recursion", fi.Name()), fi.Decl.Pos()
		}
		return nil
	}
	fr.stack[fi.Obj] = true
	defer delete(fr.stack, fi.Obj)
	info := fr.info
	fm := &c01Frame{fr: fr, fi: fi, f: c01FnOf(fr.r.P, fi), lidx: map[types.Object]int{}, exits: map[c01Exit]bool{}}
	// tracked locals: bool and error variables declared in fi (parameters included)
	addLocal := func(o types.Object) {
		if o == nil {
			return
		}
		if _, dup := fm.lidx[o]; dup {
			return
		}
		if v, ok := o.(*types.Var); !ok || v.IsField() {
			return
		}
		if types.Identical(o.Type(), types.Typ[types.Bool]) || isErrorType(o.Type()) {
			fm.lidx[o] = len(fm.locals)
			fm.locals = append(fm.locals, o)
		}
	}
	ast.Inspect(fi.Decl, func(n ast.Node) bool {
		if _, ok := n.(*ast.FuncLit); ok {
			return false
		}
		if id, ok := n.(*ast.Ident); ok {
			addLocal(info.Defs[id])
		}
		return true
	})
	init := c01St{fields: []byte(entry), locals: make([]byte, len(fm.locals))}
	for i, o := range fm.locals {
		if isErrorType(o.Type()) {
			init.locals[i] = 'Z'
			if c01ParamIndex(info, fi, o) >= 0 {
				init.locals[i] = '?'
			}
		} else {
			init.locals[i] = 'F'
		}
	}
	starts := []c01St{init}
	// boolean parameters are unknown: explore both values
	for i, o := range fm.locals {
		if !isErrorType(o.Type()) && c01ParamIndex(info, fi, o) >= 0 {
			var nw []c01St
			for _, s := range starts {
				t := s.clone()
				t.locals[i] = 'T'
				nw = append(nw, s, t)
			}
			starts = nw
		}
	}
	g := fm.f.g
	seen := map[*cfg.Block]map[string]bool{}
	type item struct {
		b *cfg.Block
		s c01St
	}
	var work []item
	// a local is dead outside its lexical scope: its value is normalised there so that dead found-flags of an
	// inner block do not multiply the valuations of the enclosing loop
	type span struct{ pos, end token.Pos }
	scopes := make([]span, len(fm.locals))
	for i, o := range fm.locals {
		if sc := o.Parent(); sc != nil {
			scopes[i] = span{sc.Pos(), sc.End()}
		}
	}
	push := func(b *cfg.Block, s c01St) {
		if seen[b] == nil {
			seen[b] = map[string]bool{}
		}
		if len(b.Nodes) > 0 {
			p := b.Nodes[0].Pos()
			var ns *c01St
			for i := range fm.locals {
				if scopes[i].end.IsValid() && (p < scopes[i].pos || p >= scopes[i].end) && s.locals[i] != init.locals[i] {
					if ns == nil {
						c := s.clone()
						ns = &c
					}
					ns.locals[i] = init.locals[i]
				}
			}
			if ns != nil {
				s = *ns
			}
		}
		k := s.key()
		if seen[b][k] {
			return
		}
		seen[b][k] = true
		work = append(work, item{b, s.clone()})
	}
	for _, s := range starts {
		push(g.Blocks[0], s)
	}
	for len(work) > 0 && fr.unknown == "" {
		it := work[len(work)-1]
		work = work[:len(work)-1]
		b := it.b
		fr.nstate++
		cur := []c01St{it.s}
		cond := fm.f.condOf(b)
		returned := false
		for i, n := range b.Nodes {
			if cond != nil && i == len(b.Nodes)-1 {
				for _, s := range cur {
					fm.uses(n, s)
				}
				if c01ContainsCall(n, func(call *ast.CallExpr) bool { return fm.decoderMethod(call) != nil }) && fr.unknown == "" {
					fr.unknown, fr.upos = fmt.Sprintf("a branch condition of %s calls a method of the per-worker decoder; effects of calls inside conditions are not modelled", fi.Name()), n.Pos()
				}
				continue
			}
			var next []c01St
			for _, s := range cur {
				next = append(next, fm.transfer(n, s)...)
			}
			cur = next
			if _, isRet := n.(*ast.ReturnStmt); isRet {
				returned = true
			}
		}
		if returned {
			continue
		}
		if len(b.Succs) == 0 {
			// fell off the end of a function without results (or a panic)
			if c01IsNormalExit(fm.f, b) {
				for _, s := range cur {
					fm.exits[c01Exit{string(s.fields), '-'}] = true
				}
			}
			continue
		}
		for _, s := range cur {
			for si, nb := range b.Succs {
				ns := s
				if cond != nil && len(b.Succs) == 2 {
					v := fm.eval(cond, s)
					if (si == 0 && v == c01F) || (si == 1 && v == c01T) {
						continue
					}
					ns = fm.refine(cond, s, si == 0)
				}
				push(nb, ns)
			}
		}
	}
	var out []c01Exit
	for e := range fm.exits {
		out = append(out, e)
	}
	sort.Slice(out, func(i, j int) bool {
		if out[i].fields != out[j].fields {
			return out[i].fields < out[j].fields
		}
		return out[i].err < out[j].err
	})
	fr.memo[key] = out
	return out
}

// trackedField: selector e denotes a tracked iterator field of the per-worker decoder.
func (fm *c01Frame) trackedField(e ast.Expr) (*types.Var, bool) {
	sel, ok := ast.Unparen(e).(*ast.SelectorExpr)
	if !ok {
		return nil, false
	}
	f := fieldOf(fm.fr.info, sel)
	if f == nil {
		return nil, false
	}
	if _, tracked := fm.fr.fieldIdx[f]; !tracked {
		return nil, false
	}
	return f, true
}

// eval evaluates a condition under a valuation.
func (fm *c01Frame) eval(e ast.Expr, st c01St) c01Tri {
	info := fm.fr.info
	return c01Eval(info, e, func(a ast.Expr) c01Tri {
		a = ast.Unparen(a)
		if id, ok := a.(*ast.Ident); ok {
			if i, ok := fm.lidx[objOf(info, id)]; ok && !isErrorType(fm.locals[i].Type()) {
				return c01Bool(st.locals[i] == 'T')
			}
		}
		if x, neq, ok := c01NilCmp(a); ok {
			v := c01U
			if f, ok := fm.trackedField(x); ok {
				switch st.fields[fm.fr.fieldIdx[f]] {
				case 'A':
					v = c01T
				case 'N':
					v = c01F
				}
			} else if i, ok := fm.lidx[objOf(info, x)]; ok && isErrorType(fm.locals[i].Type()) {
				switch st.locals[i] {
				case 'E':
					v = c01T
				case 'Z':
					v = c01F
				}
			} else {
				return c01U
			}
			if !neq {
				v = c01Not(v)
			}
			return v
		}
		return c01U
	})
}

// refine sharpens an unknown error local when the condition is a single nil comparison of it.
func (fm *c01Frame) refine(cond ast.Expr, st c01St, taken bool) c01St {
	info := fm.fr.info
	e := ast.Unparen(cond)
	for {
		ue, ok := e.(*ast.UnaryExpr)
		if !ok || ue.Op != token.NOT {
			break
		}
		e, taken = ast.Unparen(ue.X), !taken
	}
	x, neq, ok := c01NilCmp(e)
	if !ok {
		return st
	}
	i, ok := fm.lidx[objOf(info, x)]
	if !ok || !isErrorType(fm.locals[i].Type()) || st.locals[i] != '?' {
		return st
	}
	ns := st.clone()
	if neq == taken {
		ns.locals[i] = 'E'
	} else {
		ns.locals[i] = 'Z'
	}
	return ns
}

func (fm *c01Frame) flagDesc(st c01St) string {
	var fs []string
	for i, o := range fm.locals {
		if !isErrorType(o.Type()) && st.locals[i] == 'F' {
			fs = append(fs, o.Name()+"=false")
		}
	}
	sort.Strings(fs)
	if len(fs) == 0 {
		return "-"
	}
	return strings.Join(fs, ", ")
}

// uses records uses of iterator fields inside node n under valuation st (calls into the decoder's methods excluded:
// those are executed by transfer).
func (fm *c01Frame) uses(n ast.Node, st c01St) {
	fr := fm.fr
	info := fr.info
	report := func(f *types.Var, pos token.Pos, how string) {
		if fr.usePos[f] == nil {
			fr.usePos[f] = map[token.Pos]bool{}
		}
		fr.usePos[f][pos] = true
		v := st.fields[fr.fieldIdx[f]]
		if v == 'A' {
			return
		}
		if _, dup := fr.viol[f]; dup {
			return
		}
		what := "still holds the iterator of an earlier block or element"
		if v == 'N' {
			what = "is nil"
		}
		fr.viol[f] = fmt.Sprintf("dec.%s %s %s (in %s) on a path where it %s (valuation in %s: %s): a block or element that lacks this optional column is decoded with the values of an earlier one (or crashes) instead of the format default", f.Name(), how, fr.r.P.Rel(pos), fm.fi.Name(), what, fm.fi.Name(), fm.flagDesc(st))
		fr.vpos[f] = pos
	}
	par := fm.f.par
	ast.Inspect(n, func(x ast.Node) bool {
		switch e := x.(type) {
		case *ast.FuncLit:
			return false
		case *ast.SelectorExpr:
			f, ok := fm.trackedField(e)
			if !ok {
				return true
			}
			switch p := par[e].(type) {
			case *ast.BinaryExpr:
				if _, _, isNil := c01NilCmp(p); isNil {
					return true // nil comparison
				}
			case *ast.AssignStmt:
				for _, l := range p.Lhs {
					if l == e {
						return true // being assigned
					}
				}
			case *ast.CallExpr:
				// argument of Message.Iterator(dec.F): buffer reuse, not a use
				if isMethod(callee(info, p), protoscanMsg, "Iterator") {
					return true
				}
				for _, a := range p.Args {
					if a == e {
						report(f, e.Pos(), "is passed to "+src(fr.r.P.Fset, p.Fun)+" at")
						return true
					}
				}
			case *ast.SelectorExpr:
				if p.X == e {
					report(f, e.Pos(), "is read ("+p.Sel.Name+") at")
					return true
				}
			}
			report(f, e.Pos(), "is used at")
		}
		return true
	})
}

// isDecoderMethod: fn is a method of the per-worker decoder declared in the package.
func (fm *c01Frame) decoderMethod(call *ast.CallExpr) *FuncInfo {
	m := fm.fr.cm.m
	tf := c01Callee(m.pk, call)
	if tf == nil {
		return nil
	}
	sig := tf.Obj.Type().(*types.Signature)
	if sig.Recv() == nil || namedPath(sig.Recv().Type()) != namedPath(m.ddT) {
		return nil
	}
	return tf
}

// transfer applies one CFG node to a valuation (possibly forking).
func (fm *c01Frame) transfer(n ast.Node, st c01St) []c01St {
	fr := fm.fr
	info := fr.info
	fm.uses(n, st)
	out := []c01St{st.clone()}
	// calls of the decoder's own methods, in source order
	var calls []*ast.CallExpr
	ast.Inspect(n, func(x ast.Node) bool {
		if _, ok := x.(*ast.FuncLit); ok {
			return false
		}
		if call, ok := x.(*ast.CallExpr); ok && fm.decoderMethod(call) != nil {
			calls = append(calls, call)
		}
		return true
	})
	callErr := map[*ast.CallExpr][]byte{} // per out-state index: error class of the call
	for _, call := range calls {
		tf := fm.decoderMethod(call)
		var nw []c01St
		var errs []byte
		prev := callErr
		callErr = map[*ast.CallExpr][]byte{}
		for si, s := range out {
			for _, ex := range fr.run(tf, string(s.fields)) {
				t := s.clone()
				t.fields = []byte(ex.fields)
				nw = append(nw, t)
				errs = append(errs, ex.err)
				for c, v := range prev {
					callErr[c] = append(callErr[c], v[si])
				}
			}
		}
		callErr[call] = errs
		out = nw
	}
	if len(out) == 0 {
		return nil
	}
	set := func(i int, v byte) {
		for _, s := range out {
			s.locals[i] = v
		}
	}
	fork := func(i int, a, b byte) {
		var nw []c01St
		for _, s := range out {
			t := s.clone()
			s.locals[i] = a
			t.locals[i] = b
			nw = append(nw, s, t)
		}
		for c, v := range callErr {
			var dv []byte
			for _, x := range v {
				dv = append(dv, x, x)
			}
			callErr[c] = dv
		}
		out = nw
	}
	// errClass of an expression per out state
	errClass := func(e ast.Expr, facts []guardFact) []byte {
		res := make([]byte, len(out))
		e = ast.Unparen(e)
		if call, ok := e.(*ast.CallExpr); ok {
			if v, ok := callErr[call]; ok && len(v) == len(out) {
				return v
			}
		}
		for si, s := range out {
			switch {
			case isNilIdent(e):
				res[si] = 'Z'
			case c01IsErrNonNilExpr(info, e, facts):
				res[si] = 'E'
			default:
				res[si] = '?'
				if i, ok := fm.lidx[objOf(info, e)]; ok && isErrorType(fm.locals[i].Type()) {
					res[si] = s.locals[i]
				}
			}
		}
		return res
	}
	assignLocal := func(lhs ast.Expr, rhs ast.Expr, resIdx int) {
		o := objOf(info, lhs)
		i, ok := fm.lidx[o]
		if !ok {
			return
		}
		if isErrorType(o.Type()) {
			switch {
			case rhs == nil:
				set(i, 'Z')
			default:
				if call, isCall := ast.Unparen(rhs).(*ast.CallExpr); isCall && resIdx >= 0 {
					// error result of a call: last result
					if v, ok := callErr[call]; ok && len(v) == len(out) {
						for si, s := range out {
							s.locals[i] = v[si]
							if v[si] == '-' {
								s.locals[i] = '?'
							}
						}
						return
					}
					set(i, '?')
					return
				}
				cls := errClass(rhs, nil)
				for si, s := range out {
					s.locals[i] = cls[si]
				}
			}
			return
		}
		// bool
		if rhs != nil && resIdx < 0 {
			switch fm.evalConst(rhs) {
			case c01T:
				set(i, 'T')
				return
			case c01F:
				set(i, 'F')
				return
			}
			// a boolean expression over tracked atoms
			vals := make([]c01Tri, len(out))
			allKnown := true
			for si, s := range out {
				vals[si] = fm.eval(rhs, s)
				if vals[si] == c01U {
					allKnown = false
				}
			}
			if allKnown {
				for si, s := range out {
					s.locals[i] = 'F'
					if vals[si] == c01T {
						s.locals[i] = 'T'
					}
				}
				return
			}
		} else if rhs == nil {
			set(i, 'F')
			return
		}
		fork(i, 'T', 'F')
	}
	switch s := n.(type) {
	case *ast.AssignStmt:
		for li, l := range s.Lhs {
			var rhs ast.Expr
			resIdx := -1
			if len(s.Rhs) == len(s.Lhs) {
				rhs = s.Rhs[li]
			} else if len(s.Rhs) == 1 {
				rhs, resIdx = s.Rhs[0], li
			}
			if f, ok := fm.trackedField(l); ok {
				k := fr.fieldIdx[f]
				v := byte('S')
				switch {
				case rhs == nil:
				case resIdx < 0 && isNilIdent(rhs):
					v = 'N'
				default:
					if call, ok := ast.Unparen(rhs).(*ast.CallExpr); ok && isMethod(callee(info, call), protoscanMsg, "Iterator") && (resIdx == 0 || resIdx < 0) {
						v = 'A'
					}
				}
				for _, st := range out {
					st.fields[k] = v
				}
				continue
			}
			if s.Tok == token.ASSIGN || s.Tok == token.DEFINE {
				assignLocal(l, rhs, resIdx)
			} else if i, ok := fm.lidx[objOf(info, l)]; ok {
				if isErrorType(fm.locals[i].Type()) {
					set(i, '?')
				} else {
					fork(i, 'T', 'F')
				}
			}
		}
	case *ast.DeclStmt:
		if gd, ok := s.Decl.(*ast.GenDecl); ok {
			for _, sp := range gd.Specs {
				if vs, ok := sp.(*ast.ValueSpec); ok {
					fm.valueSpec(vs, assignLocal)
				}
			}
		}
	case *ast.ValueSpec:
		fm.valueSpec(s, assignLocal)
	case *ast.ReturnStmt:
		sig := fm.fi.Obj.Type().(*types.Signature)
		hasErr := sig.Results().Len() > 0 && isErrorType(sig.Results().At(sig.Results().Len()-1).Type())
		var cls []byte
		switch {
		case !hasErr:
			cls = make([]byte, len(out))
			for i := range cls {
				cls[i] = '-'
			}
		case len(s.Results) == 0:
			// named results
			cls = make([]byte, len(out))
			for i := range cls {
				cls[i] = '?'
			}
		default:
			last := s.Results[len(s.Results)-1]
			cls = errClass(last, fm.f.factsAtPos(s.Pos()))
			for i := range cls {
				if cls[i] == '-' {
					cls[i] = '?'
				}
			}
		}
		for si, st := range out {
			fm.exits[c01Exit{string(st.fields), cls[si]}] = true
		}
	}
	return out
}

func (fm *c01Frame) valueSpec(vs *ast.ValueSpec, assign func(lhs ast.Expr, rhs ast.Expr, resIdx int)) {
	for i, nm := range vs.Names {
		switch {
		case len(vs.Values) == len(vs.Names):
			assign(nm, vs.Values[i], -1)
		case len(vs.Values) == 1:
			assign(nm, vs.Values[0], i)
		default:
			assign(nm, nil, -1)
		}
	}
}

// evalConst: the constant truth value of e, or unknown.
func (fm *c01Frame) evalConst(e ast.Expr) c01Tri {
	if tv, ok := fm.fr.info.Types[e]; ok && tv.Value != nil {
		switch tv.Value.String() {
		case "true":
			return c01T
		case "false":
			return c01F
		}
	}
	return c01U
}

func isNilIdent(e ast.Expr) bool {
	id, ok := ast.Unparen(e).(*ast.Ident)
	return ok && id.Name == "nil"
}
