package rules

import (
	"fmt"
	"go/ast"
	"go/token"
	"go/types"
	"sort"
	"strings"

	"golang.org/x/tools/go/cfg"

	"osmcheck/core"
)

// C01.R2 — freshness of cached iterators: an exact reachable-valuation analysis (powerset domain) over
// found-flags {T,F} and iterator fields {S = left over from an earlier call, A = assigned in this call, N = nil}.

type c01State map[string]byte // variable key -> value

func (s c01State) key(order []string) string {
	b := make([]byte, len(order))
	for i, k := range order {
		b[i] = s[k]
	}
	return string(b)
}

type c01Fresh struct {
	r      *core.R
	cm     *c01Model
	fi     *FuncInfo
	info   *types.Info
	order  []string              // variable keys in fixed order
	fields map[*types.Var]string // iterator field -> key
	bools  map[types.Object]string
	// violations: field key -> description
	viol   map[string]string
	vpos   map[string]token.Pos
	nuse   map[string]int
	usePos map[string]map[token.Pos]bool
	nstate int
}

// c01Summary: how a callee (method of the per-worker decoder) uses cached iterator fields through its receiver:
// "A" = some use is not nil-guarded (needs an iterator assigned in this call), "AN" = every use is nil-guarded.
func c01Summary(cm *c01Model, fn *types.Func) map[*types.Var]string {
	m := cm.m
	info := m.info
	fi := findFunc(m.pk, funcName(fn))
	out := map[*types.Var]string{}
	if fi == nil {
		return out
	}
	g := newCFG(info, fi.Decl.Body)
	dom := dominators(g)
	ast.Inspect(fi.Decl.Body, func(n ast.Node) bool {
		sel, ok := n.(*ast.SelectorExpr)
		if !ok {
			return true
		}
		f := fieldOf(info, sel)
		if f == nil || namedPath(f.Type()) != protoscanIter || namedPath(selRecv(info, sel)) != namedPath(m.ddT) {
			return true
		}
		// a comparison with nil is not a use
		par := parentsOf(cm.p, fi)
		if be, ok := par[sel].(*ast.BinaryExpr); ok && (be.Op == token.NEQ || be.Op == token.EQL) {
			return true
		}
		guard := c06NilGuard(info, g, dom, sel, sel)
		if strings.HasPrefix(guard, "guarded") {
			if out[f] == "" {
				out[f] = "AN"
			}
		} else {
			out[f] = "A"
		}
		return true
	})
	return out
}

func c01R2(r *core.R) {
	cm := c01ModelOrAnchor(r)
	if cm == nil {
		return
	}
	m := cm.m
	info := m.info
	// functions that fill cached iterators
	fset := map[*types.Func]*FuncInfo{}
	for _, it := range cm.iters {
		for _, s := range it.sources {
			fset[s.fi.Obj] = s.fi
		}
	}
	var fis []*FuncInfo
	for _, fi := range fset {
		fis = append(fis, fi)
	}
	sort.Slice(fis, func(i, j int) bool { return fis[i].Decl.Pos() < fis[j].Decl.Pos() })
	if len(fis) < 3 {
		r.Anchor(fmt.Sprintf("functions filling cached iterators (found %d, expected dense nodes, ways, relations)", len(fis)))
	}
	for _, fi := range fis {
		fr := &c01Fresh{r: r, cm: cm, fi: fi, info: info, fields: map[*types.Var]string{}, bools: map[types.Object]string{}, viol: map[string]string{}, vpos: map[string]token.Pos{}, nuse: map[string]int{}, usePos: map[string]map[token.Pos]bool{}}
		// tracked iterator fields: every iterator field of the decoder mentioned in fi or in callee summaries
		addField := func(f *types.Var) {
			if _, ok := fr.fields[f]; !ok {
				fr.fields[f] = "dec." + f.Name()
				fr.order = append(fr.order, "dec."+f.Name())
			}
		}
		ast.Inspect(fi.Decl.Body, func(n ast.Node) bool {
			switch x := n.(type) {
			case *ast.SelectorExpr:
				if f := fieldOf(info, x); f != nil && namedPath(f.Type()) == protoscanIter && namedPath(selRecv(info, x)) == namedPath(m.ddT) {
					addField(f)
				}
			case *ast.CallExpr:
				if fn := callee(info, x); fn != nil && fn.Pkg() == m.pk.Types {
					if sig := fn.Type().(*types.Signature); sig.Recv() != nil && namedPath(sig.Recv().Type()) == namedPath(m.ddT) {
						for f := range c01Summary(cm, fn) {
							addField(f)
						}
					}
				}
			case *ast.ValueSpec:
				for _, nm := range x.Names {
					if o := info.Defs[nm]; o != nil && types.Identical(o.Type(), types.Typ[types.Bool]) {
						fr.bools[o] = nm.Name + "@" + r.P.Rel(nm.Pos())
						fr.order = append(fr.order, fr.bools[o])
					}
				}
			}
			return true
		})
		sort.Strings(fr.order)
		fr.run()
		// one obligation per tracked field
		var keys []string
		for _, k := range fr.fields {
			keys = append(keys, k)
		}
		sort.Strings(keys)
		for _, k := range keys {
			c := "fresh@" + fi.Name() + " " + k
			if v, bad := fr.viol[k]; bad {
				r.Bad(c, fr.vpos[k], "%s", v)
			} else if fr.nuse[k] == 0 {
				r.OKTrivial(c, fi.Decl.Pos(), "not used in this function")
			} else {
				r.OK(c, fi.Decl.Pos(), "at each of its %d use(s), in every reachable valuation of the found-flags (%d block states explored), %s was assigned in this call or is nil", fr.nuse[k], fr.nstate, k)
			}
		}
	}
}

func (fr *c01Fresh) run() {
	info := fr.info
	m := fr.cm.m
	g := newCFG(info, fr.fi.Decl.Body)
	init := c01State{}
	for _, k := range fr.order {
		if strings.HasPrefix(k, "dec.") {
			init[k] = 'S'
		} else {
			init[k] = 'F'
		}
	}
	in := map[*cfg.Block]map[string]c01State{}
	add := func(b *cfg.Block, s c01State) bool {
		if in[b] == nil {
			in[b] = map[string]c01State{}
		}
		k := s.key(fr.order)
		if _, ok := in[b][k]; ok {
			return false
		}
		cp := c01State{}
		for a, v := range s {
			cp[a] = v
		}
		in[b][k] = cp
		return true
	}
	type item struct {
		b *cfg.Block
		s c01State
	}
	var work []item
	push := func(b *cfg.Block, s c01State) {
		if add(b, s) {
			cp := c01State{}
			for a, v := range s {
				cp[a] = v
			}
			work = append(work, item{b, cp})
		}
	}
	push(g.Blocks[0], init)
	for len(work) > 0 {
		it := work[len(work)-1]
		work = work[:len(work)-1]
		b := it.b
		cur := []c01State{it.s}
		for i, n := range b.Nodes {
			isCond := i == len(b.Nodes)-1 && len(b.Succs) == 2
			if isCond {
				if _, isExpr := n.(ast.Expr); isExpr {
					for _, st := range cur {
						fr.uses(n, st)
					}
					continue
				}
			}
			var next []c01State
			for _, st := range cur {
				next = append(next, fr.transfer(n, st)...)
			}
			cur = next
		}
		fr.nstate++
		var cond ast.Expr
		if len(b.Succs) == 2 && len(b.Nodes) > 0 {
			cond, _ = b.Nodes[len(b.Nodes)-1].(ast.Expr)
		}
		for _, st := range cur {
			for si, s := range b.Succs {
				if cond != nil && fr.isBoolCond(cond) {
					v := fr.eval(cond, st)
					if (si == 0 && v == triF) || (si == 1 && v == triT) {
						continue
					}
				}
				push(s, st)
			}
		}
	}
	_ = m
}

func (fr *c01Fresh) isBoolCond(e ast.Expr) bool {
	t := fr.info.TypeOf(e)
	if t == nil {
		return false
	}
	b, ok := t.Underlying().(*types.Basic)
	return ok && b.Info()&types.IsBoolean != 0
}

// eval evaluates a condition under a valuation.
func (fr *c01Fresh) eval(e ast.Expr, st c01State) tri {
	return evalTri(e, func(a ast.Expr) tri {
		a = ast.Unparen(a)
		if id, ok := a.(*ast.Ident); ok {
			if k, ok := fr.bools[objOf(fr.info, id)]; ok {
				if st[k] == 'T' {
					return triT
				}
				return triF
			}
			if id.Name == "true" {
				return triT
			}
			if id.Name == "false" {
				return triF
			}
		}
		if be, ok := a.(*ast.BinaryExpr); ok && (be.Op == token.NEQ || be.Op == token.EQL) {
			if id, ok := ast.Unparen(be.Y).(*ast.Ident); ok && id.Name == "nil" {
				if f := fieldOf(fr.info, be.X); f != nil {
					if k, ok := fr.fields[f]; ok {
						v := triU
						switch st[k] {
						case 'A':
							v = triT
						case 'N':
							v = triF
						}
						if be.Op == token.EQL {
							v = triNot(v)
						}
						return v
					}
				}
			}
		}
		return triU
	})
}

// uses records uses of iterator fields inside node n under valuation st.
func (fr *c01Fresh) uses(n ast.Node, st c01State) {
	info := fr.info
	m := fr.cm.m
	flagDesc := func() string {
		var fs []string
		for o, k := range fr.bools {
			if st[k] == 'F' {
				fs = append(fs, o.Name()+"=false")
			}
		}
		sort.Strings(fs)
		return strings.Join(fs, ", ")
	}
	report := func(f *types.Var, pos token.Pos, how string, need string) {
		k := fr.fields[f]
		fr.countUse(k, pos)
		v := st[k]
		if v == 'S' || (v == 'N' && need == "A") {
			what := "still holds the iterator of an earlier block or element"
			if v == 'N' {
				what = "is nil"
			}
			if _, dup := fr.viol[k]; !dup {
				fr.viol[k] = fmt.Sprintf("%s %s %s on a path where it %s (valuation: %s): a block or element that lacks this optional column is decoded with the values of an earlier one (or crashes) instead of the format default", k, how, fr.r.P.Rel(pos), what, flagDesc())
				fr.vpos[k] = pos
			}
		}
	}
	par := parentsOf(fr.r.P, fr.fi)
	ast.Inspect(n, func(x ast.Node) bool {
		switch e := x.(type) {
		case *ast.FuncLit:
			return false
		case *ast.SelectorExpr:
			f := fieldOf(info, e)
			if f == nil {
				return true
			}
			if _, tracked := fr.fields[f]; !tracked || namedPath(selRecv(info, e)) != namedPath(m.ddT) {
				return true
			}
			switch p := par[e].(type) {
			case *ast.BinaryExpr:
				if p.Op == token.NEQ || p.Op == token.EQL {
					return true // nil comparison
				}
			case *ast.AssignStmt:
				for _, l := range p.Lhs {
					if l == e {
						return true // being assigned
					}
				}
			case *ast.CallExpr:
				// argument of Message.Iterator(dec.F): buffer reuse, not a use
				if isMethod(callee(info, p), protoscanMsg, "Iterator") {
					return true
				}
				for _, a := range p.Args {
					if a == e {
						report(f, e.Pos(), "is passed to "+src(fr.r.P.Fset, p.Fun)+" at", "A")
						return true
					}
				}
			case *ast.SelectorExpr:
				if p.X == e {
					report(f, e.Pos(), "is read ("+p.Sel.Name+") at", "A")
					return true
				}
			}
			report(f, e.Pos(), "is used at", "A")
		case *ast.CallExpr:
			fn := callee(info, e)
			if fn == nil || fn.Pkg() != m.pk.Types {
				return true
			}
			if sig := fn.Type().(*types.Signature); sig.Recv() != nil && namedPath(sig.Recv().Type()) == namedPath(m.ddT) && fn != fr.fi.Obj {
				for f, need := range c01Summary(fr.cm, fn) {
					if _, tracked := fr.fields[f]; tracked {
						how := "is used by " + fn.Name() + " (called at"
						if need == "AN" {
							how = "is used under a nil test by " + fn.Name() + " (called at"
						}
						k := fr.fields[f]
						fr.countUse(k, e.Pos())
						v := st[k]
						if v == 'S' || (v == 'N' && need == "A") {
							if _, dup := fr.viol[k]; !dup {
								what := "still holds the iterator of an earlier block or element"
								if v == 'N' {
									what = "is nil"
								}
								fr.viol[k] = fmt.Sprintf("%s %s %s) on a path where it %s (valuation: %s): a block that lacks this optional column is decoded with the values of an earlier block instead of the format default", k, how, fr.r.P.Rel(e.Pos()), what, flagDesc())
								fr.vpos[k] = e.Pos()
							}
						}
					}
				}
			}
		}
		return true
	})
}

// transfer applies one CFG node to a valuation (possibly forking).
func (fr *c01Fresh) transfer(n ast.Node, st c01State) []c01State {
	info := fr.info
	fr.uses(n, st)
	out := []c01State{st}
	set := func(k string, v byte) {
		for _, s := range out {
			s[k] = v
		}
	}
	fork := func(k string, a, b byte) {
		var nw []c01State
		for _, s := range out {
			cp := c01State{}
			for x, y := range s {
				cp[x] = y
			}
			s[k] = a
			cp[k] = b
			nw = append(nw, s, cp)
		}
		out = nw
	}
	switch s := n.(type) {
	case *ast.AssignStmt:
		for i, l := range s.Lhs {
			if f := fieldOf(info, l); f != nil {
				k, tracked := fr.fields[f]
				if !tracked {
					continue
				}
				var rhs ast.Expr
				if len(s.Rhs) == len(s.Lhs) {
					rhs = s.Rhs[i]
				} else if len(s.Rhs) == 1 {
					rhs = s.Rhs[0]
				}
				switch {
				case rhs == nil:
					set(k, 'S')
				case isNilIdent(rhs):
					set(k, 'N')
				default:
					if call, ok := ast.Unparen(rhs).(*ast.CallExpr); ok && isMethod(callee(info, call), protoscanMsg, "Iterator") && i == 0 {
						set(k, 'A')
					} else {
						set(k, 'S')
					}
				}
				continue
			}
			if o := objOf(info, l); o != nil {
				if k, ok := fr.bools[o]; ok {
					var rhs ast.Expr
					if len(s.Rhs) == len(s.Lhs) {
						rhs = s.Rhs[i]
					}
					if id, ok := rhs.(*ast.Ident); ok && id.Name == "true" {
						set(k, 'T')
					} else if ok && id.Name == "false" {
						set(k, 'F')
					} else {
						fork(k, 'T', 'F')
					}
				}
			}
		}
	case *ast.DeclStmt:
		if gd, ok := s.Decl.(*ast.GenDecl); ok {
			for _, sp := range gd.Specs {
				if vs, ok := sp.(*ast.ValueSpec); ok {
					for i, nm := range vs.Names {
						if k, ok := fr.bools[info.Defs[nm]]; ok {
							v := byte('F')
							if i < len(vs.Values) {
								if id, ok := vs.Values[i].(*ast.Ident); ok && id.Name == "true" {
									v = 'T'
								}
							}
							set(k, v)
						}
					}
				}
			}
		}
	case *ast.ValueSpec:
		for i, nm := range s.Names {
			if k, ok := fr.bools[info.Defs[nm]]; ok {
				v := byte('F')
				if i < len(s.Values) {
					if id, ok := s.Values[i].(*ast.Ident); ok && id.Name == "true" {
						v = 'T'
					}
				}
				set(k, v)
			}
		}
	}
	return out
}

func isNilIdent(e ast.Expr) bool {
	id, ok := ast.Unparen(e).(*ast.Ident)
	return ok && id.Name == "nil"
}

func (fr *c01Fresh) countUse(k string, pos token.Pos) {
	if fr.usePos[k] == nil {
		fr.usePos[k] = map[token.Pos]bool{}
	}
	if !fr.usePos[k][pos] {
		fr.usePos[k][pos] = true
		fr.nuse[k]++
	}
}
