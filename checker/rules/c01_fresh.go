package rules

import (
	"fmt"
	"go/ast"
	"go/token"
	"go/types"
	"sort"
	"strings"

	"osmcheck/core"
)

// C01.R2 — freshness of cached iterators: an exact reachable-valuation analysis (powerset domain) over
//   - the iterator fields of the per-worker decoder: S = left over from an earlier element/block, A = assigned
//     while decoding the current element, N = nil;
//   - the boolean locals (found-flags) of the function being executed: T / F;
//   - its error locals: Z = nil, E = non-nil, ? = unknown.
// The analysis is interprocedural by inlining: a call of a method of the per-worker decoder is executed on the
// callee's CFG from the caller's field valuation, and every (field valuation, nil-ness of the returned error) pair
// it can return with continues in the caller. The result therefore does not depend on how the decoding of one
// element is split into methods. One analysis is run per element message of a primitive group (the method that
// receives the bytes of a DenseNodes / Way / Relation message), starting from "every iterator is stale".

// c01Exit is one way a function can return: the caller-visible state, the returned values (an error result is a
// value of kind 'E') and the nil-ness class of the error result ('-' when there is none).
type c01Exit struct {
	st   c01St
	rets []c01Val
	err  byte
}

type c01Fresh struct {
	r        *core.R
	cm       *c01Model
	info     *types.Info
	fields   []*types.Var
	fieldIdx map[*types.Var]int
	viol     map[*types.Var]string
	vpos     map[*types.Var]token.Pos
	usePos   map[*types.Var]map[token.Pos]bool
	nstate   int
	memo     map[string][]c01Exit
	stack    map[*types.Func]bool
	unknown  string
	upos     token.Pos
	// iterators kept in cells (struct fields below the decoder, locals, parameters): uses and violations by label
	cuse  map[string]map[token.Pos]bool
	cviol map[string]string
	cvpos map[string]token.Pos
}

func c01R2(r *core.R) {
	cm := c01ModelOrAnchor(r)
	if cm == nil {
		return
	}
	m := cm.m
	info := m.info
	// tracked state: every iterator field of the per-worker decoder
	fields := c01DecoderIterFields(m.ddT)
	if len(fields) == 0 && len(c01NestedIterLeaves(m.ddT)) == 0 {
		r.Anchor("iterator fields of the per-worker decoder")
		return
	}
	// roots: the methods that receive the bytes of an element message of a primitive group
	elemMsg := map[string]bool{}
	if pg := cm.desc.Messages["PrimitiveGroup"]; pg != nil {
		for _, f := range pg.Fields {
			if f.IsMsg {
				elemMsg[f.Type] = true
			}
		}
	}
	type root struct {
		fi  *FuncInfo
		msg string
	}
	var roots []root
	for _, fi := range cm.worker {
		for _, po := range c01ParamObjs(info, fi) {
			if po != nil && c01IsByteSlice(po.Type()) && elemMsg[cm.dataMsg[po]] {
				roots = append(roots, root{fi, cm.dataMsg[po]})
				break
			}
		}
	}
	// a root reached from another root of the same message is part of that root's analysis
	var top []root
	for _, a := range roots {
		inner := false
		for _, b := range roots {
			if a.fi == b.fi || a.msg != b.msg {
				continue
			}
			for _, g := range c01Reachable(r.P, b.fi) {
				if g.Obj == a.fi.Obj {
					inner = true
				}
			}
		}
		if !inner {
			top = append(top, a)
		}
	}
	sort.Slice(top, func(i, j int) bool { return top[i].fi.Decl.Pos() < top[j].fi.Decl.Pos() })
	filled := map[string]bool{}
	for _, it := range cm.iters {
		for _, s := range it.sources {
			filled[s.msg] = true
		}
	}
	nroots := 0
	for _, rt := range top {
		fr := &c01Fresh{r: r, cm: cm, info: info, fields: fields, fieldIdx: map[*types.Var]int{}, viol: map[*types.Var]string{}, vpos: map[*types.Var]token.Pos{},
			usePos: map[*types.Var]map[token.Pos]bool{}, memo: map[string][]c01Exit{}, stack: map[*types.Func]bool{},
			cuse: map[string]map[token.Pos]bool{}, cviol: map[string]string{}, cvpos: map[string]token.Pos{}}
		for i, f := range fields {
			fr.fieldIdx[f] = i
		}
		init := make([]byte, len(fields))
		for i := range init {
			init[i] = 'S'
		}
		st0 := c01St{fields: init, cells: map[string]c01Val{}}
		for _, leaf := range c01NestedIterLeaves(m.ddT) {
			st0.cells["dd"+leaf] = c01Val{k: 'T', i: 'S'} // left over from an earlier element / block
		}
		fr.run(rt.fi, st0, nil, 0)
		if fr.unknown != "" {
			r.Unknown("fresh@"+rt.msg, fr.upos, "%s", fr.unknown)
			continue
		}
		used := 0
		for _, f := range fields {
			c := "fresh@" + rt.msg + " dec." + f.Name()
			n := len(fr.usePos[f])
			if v, bad := fr.viol[f]; bad {
				r.Bad(c, fr.vpos[f], "%s", v)
				used++
			} else if n > 0 {
				used++
				r.OK(c, rt.fi.Decl.Pos(), "at each of its %d use(s) while a %s message is decoded (from %s, through every method it calls), in every reachable valuation of the found-flags (%d block states explored), dec.%s was assigned from the current message or is nil", n, rt.msg, rt.fi.Name(), fr.nstate, f.Name())
			}
		}
		used += fr.reportCells(rt.fi, rt.msg)
		if used > 0 {
			nroots++
		}
	}
	// every element message whose columns are cached must have been analysed
	var fm []string
	for msg := range filled {
		fm = append(fm, msg)
	}
	sort.Strings(fm)
	want := 0
	for _, msg := range fm {
		if elemMsg[msg] {
			want++
		}
	}
	if nroots < want || want == 0 {
		r.Anchor(fmt.Sprintf("methods receiving the bytes of an element message and using cached iterators (found %d; iterators are filled from %s, of which %d are element messages of a primitive group)", nroots, strings.Join(fm, ", "), want))
	}
}

func isNilIdent(e ast.Expr) bool {
	id, ok := ast.Unparen(e).(*ast.Ident)
	return ok && id.Name == "nil"
}
