package rules

import (
	"go/ast"
	"go/token"
	"go/types"
)

// Counting loops. A three-clause `for` that visits every index of a slice exactly once is, for the C14 rules, the same
// thing as `for i := range X` (the order of the visits never matters to them: a scan for an ancestor may run in either
// direction, and a complete loop over versions or members is complete whichever way it runs). Recognised:
//
//	for i := 0; i < len(X); i++          { … X[i] … }     (also `i != len(X)`, `i <= len(X)-1`)
//	for i := len(X) - 1; i >= 0; i--     { … X[i] … }     (also `i > -1`)
//	for i := len(X); i > 0; i--          { … X[i-1] … }   (offset -1)
//	for i, n := 0, len(X); i < n; i++    { … X[i] … }
//
// where len(X) may have been read into a local first (`n := len(X)`), and the body assigns neither i nor the variable X
// is rooted in.

// countingLoop returns the counter and the iterated expression of a recognised counting loop.
func (g *c14Graph) countingLoop(l *c14Loop) (counter types.Object, x ast.Expr) {
	counter, x, _ = g.countingLoopOff(l)
	return
}

// lenArg: e is `len(X)`, or a local defined exactly once as `len(X)`; returns X.
func c14LenArg(info *types.Info, body ast.Node, e ast.Expr) ast.Expr {
	e = ast.Unparen(e)
	if call, ok := e.(*ast.CallExpr); ok {
		if builtinName(info, call) == "len" && len(call.Args) == 1 {
			return call.Args[0]
		}
		return nil
	}
	if id, ok := e.(*ast.Ident); ok {
		o := objOf(info, id)
		if _, isVar := o.(*types.Var); !isVar {
			return nil
		}
		ws := c14Writes(info, body, o)
		if len(ws) != 1 {
			return nil
		}
		if as, ok := ws[0].(*ast.AssignStmt); ok && len(as.Lhs) == len(as.Rhs) {
			for i, lh := range as.Lhs {
				if objOf(info, lh) == o {
					if call, ok := ast.Unparen(as.Rhs[i]).(*ast.CallExpr); ok && builtinName(info, call) == "len" && len(call.Args) == 1 {
						// the slice must not be re-sliced or replaced between `n := len(X)` and the loop
						root := call.Args[0]
						for {
							if sel, ok := ast.Unparen(root).(*ast.SelectorExpr); ok {
								root = sel.X
								continue
							}
							break
						}
						if ro := objOf(info, root); ro == nil || len(c14Writes(info, body, ro)) > 1 {
							return nil
						}
						return call.Args[0]
					}
				}
			}
		}
	}
	return nil
}

// lenMinus: e is `len(X) - k` for the constant k; returns X.
func c14LenMinus(info *types.Info, body ast.Node, e ast.Expr, k int64) ast.Expr {
	be, ok := ast.Unparen(e).(*ast.BinaryExpr)
	if !ok || be.Op != token.SUB {
		return nil
	}
	if v, ok := constInt(info, be.Y); !ok || v != k {
		return nil
	}
	return c14LenArg(info, body, be.X)
}

// countingLoopOff additionally returns the offset of the element index relative to the counter (0 or -1).
func (g *c14Graph) countingLoopOff(l *c14Loop) (counter types.Object, x ast.Expr, off int) {
	fs, ok := l.stmt.(*ast.ForStmt)
	if !ok || fs.Init == nil || fs.Cond == nil || fs.Post == nil {
		return nil, nil, 0
	}
	info := l.ctx.fn.info
	body := ast.Node(l.ctx.fn.body)
	init, ok := fs.Init.(*ast.AssignStmt)
	if !ok || init.Tok != token.DEFINE || len(init.Lhs) != len(init.Rhs) || len(init.Lhs) > 2 {
		return nil, nil, 0
	}
	post, ok := fs.Post.(*ast.IncDecStmt)
	if !ok {
		return nil, nil, 0
	}
	i := objOf(info, post.X)
	var start ast.Expr                    // initial value of the counter
	bounds := map[types.Object]ast.Expr{} // `for i, n := 0, len(X); i < n; i++`: the other variable of the init clause
	for k, lh := range init.Lhs {
		if o := objOf(info, lh); o != nil && o == i {
			start = init.Rhs[k]
		} else if o != nil && len(c14Writes(info, fs, o)) == 1 {
			bounds[o] = init.Rhs[k]
		}
	}
	if i == nil || start == nil {
		return nil, nil, 0
	}
	lhs, op, rhs, ok := cmpNorm(fs.Cond) // op in <, <=, ==, != with a > b turned into b < a
	if !ok {
		return nil, nil, 0
	}
	if b := bounds[objOf(info, lhs)]; b != nil {
		lhs = b
	}
	if b := bounds[objOf(info, rhs)]; b != nil {
		rhs = b
	}
	init = &ast.AssignStmt{Lhs: []ast.Expr{post.X}, Tok: token.DEFINE, Rhs: []ast.Expr{start}}
	isI := func(e ast.Expr) bool { return objOf(info, e) == i }
	isConst := func(e ast.Expr, k int64) bool { v, ok := constInt(info, e); return ok && v == k }
	switch {
	case post.Tok == token.INC && isConst(init.Rhs[0], 0):
		switch {
		case (op == token.LSS || op == token.NEQ) && isI(lhs):
			x = c14LenArg(info, body, rhs)
		case op == token.NEQ && isI(rhs):
			x = c14LenArg(info, body, lhs)
		case op == token.LEQ && isI(lhs):
			x = c14LenMinus(info, body, rhs, 1)
		}
	case post.Tok == token.DEC:
		if x0 := c14LenMinus(info, body, init.Rhs[0], 1); x0 != nil {
			// i := len(X)-1; i >= 0  (0 <= i)   or   i > -1  (-1 < i)
			if (op == token.LEQ && isConst(lhs, 0) && isI(rhs)) || (op == token.LSS && isConst(lhs, -1) && isI(rhs)) {
				x = x0
			}
		} else if x0 := c14LenArg(info, body, init.Rhs[0]); x0 != nil {
			// i := len(X); i > 0  (0 < i)   or   i >= 1  (1 <= i): the element is X[i-1]
			if (op == token.LSS && isConst(lhs, 0) && isI(rhs)) || (op == token.LEQ && isConst(lhs, 1) && isI(rhs)) {
				x, off = x0, -1
			}
		}
	}
	if x == nil {
		return nil, nil, 0
	}
	root := x
	for {
		if sel, ok := ast.Unparen(root).(*ast.SelectorExpr); ok {
			root = sel.X
			continue
		}
		break
	}
	ro := objOf(info, root)
	if ro == nil || len(c14Writes(info, fs.Body, i)) > 0 || len(c14Writes(info, fs.Body, ro)) > 0 {
		return nil, nil, 0
	}
	return i, x, off
}
