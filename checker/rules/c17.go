package rules

import (
	"fmt"
	"go/ast"
	"go/token"
	"go/types"
	"sort"
	"strings"

	"golang.org/x/tools/go/cfg"
	"golang.org/x/tools/go/packages"
	"golang.org/x/tools/go/ssa"

	"osmcheck/core"
)

// Unexported identifiers this file is keyed on (last-resort anchors, DESIGN §2.2 class 3):
//   osmgeojson.context                  the conversion context struct (found as the parameter type of Option)
//   context.noID, noMeta, noRelationMembership, includeInvalidPolygons   the option fields (c17OptionRoles)
// Everything else is resolved by role: the option fields are the context fields assigned in functions of
// type Option; the membership map is the context field of type map[osm.FeatureID][]…; the skippable set is
// the context field of type map[osm.WayID]struct{}; the meta switch is the type switch over osm.Element
// with cases *osm.Node/*osm.Way/*osm.Relation; the feature list is the variable stored into
// FeatureCollection.Features in the exported function Convert.

func init() {
	register(&core.Property{
		ID:    "C17",
		Title: "GeoJSON conversion maps elements to features exactly; options only subtract",
		Explanation: "Structural necessary conditions, decided for the whole call tree of osmgeojson.Convert (SSA + VTA call graph): " +
			"(G1) no reachable repository function stores, map-updates, appends in place, copies, deletes, sorts or reverses into memory whose type can be input memory (the types reachable from *osm.OSM) unless that memory was allocated in the same function, and none writes package-level state; " +
			"(G2) no range over a map in the call tree appends to, or picks an element for, anything that outlives the loop; " +
			"(G3) every read of an option field has the documented role (noID guards only Feature.ID; noMeta guards only the early return before the meta object; noRelationMembership guards only the relations property and the non-node membership bookkeeping whose entries are read nowhere else; includeInvalidPolygons only disables skips in buildPolygon/addToMultiPolygon) and every option field is written only by its own Option constructor; " +
			"(G4) the node/way/relation cases of the meta type switch are identical up to the element type; " +
			"(G5) every element loop of Convert appends at most one feature per iteration on every path, the way loop skips the skippable set, which is complete before the way loop starts. " +
			"NOT decided: geometry values (ring winding, joined route geometry), the tag-interest rule, which nodes become points, JSON encoding of the result, mutation through reflection/unsafe, functions only reachable through calls VTA cannot resolve.",
		Assumptions: []string{"go/types, go/cfg, go/ssa, VTA call graph (x/tools v0.29.0)", "no unsafe/reflect-based writes in the call tree: input memory is only reachable through the types reachable from osm.OSM",
			"non-repository callees do not write through their arguments except the enumerated in-place mutators (sort.*, slices.*, Reverse/Sort* methods); any other external callee receiving input memory is reported as undecided unless allow-listed as read-only"},
		LevelText: "Structural necessary conditions of the conversion contract, decided at every memory write of every repository function reachable from osmgeojson.Convert (input immutability, no package state), every map range in that tree (determinism), every read and write site of each option field (options only subtract), the three meta cases (sibling agreement) and every path through the three element loops (at most one feature per element). Geometry values and the tag-interest semantics are not decided.",
		LevelNote: "Trusts the type checker, go/ssa and the VTA call graph; type-based effect analysis is sound only without unsafe/reflect writes; writes performed inside non-repository callees are covered by an enumerated mutator list plus an undecided verdict for unknown callees receiving input memory.",
		Technique: "SSA type-based effect analysis with allocation-freshness over the VTA call tree of Convert; AST/type-resolved guard-role classification per option read site; type-directed structural comparison of sibling cases; path counting over go/cfg loop bodies",
		DesignRef: "DESIGN.md §5 C17",
		NeedSSA:   true,
		Rules: []*core.Rule{
			{ID: "G1", Floor: 34, Doc: "input immutability: no write into input-typed memory or package state anywhere in the call tree of Convert", Run: c17G1},
			{ID: "G2", Floor: 34, Doc: "determinism: no order-dependent range over a map in the call tree of Convert", Run: c17G2},
			{ID: "G3", Floor: 22, Doc: "each option field is read only in its documented role and written only by its constructor", Run: c17G3},
			{ID: "G4", Floor: 3, Doc: "node/way/relation meta cases are identical up to the element type", Run: c17G4},
			{ID: "G5", Floor: 5, Doc: "each element loop appends at most one feature per iteration; skippable ways are not appended", Run: c17G5},
			{ID: "G6", Floor: 4, Doc: "a way becomes skippable only when it has no interesting tag of its own", Run: c17G6},
		},
		Mutants: []core.Mutant{
			{Name: "g6-route-way-ignores-relation-tags", File: "osmgeojson/convert.go", Find: "if !hasInterestingTags(way.Tags, nil) {\n\t\t\tctx.skippable[way.ID] = struct{}{}", Replace: "if !hasInterestingTags(way.Tags, relation.Tags.Map()) {\n\t\t\tctx.skippable[way.ID] = struct{}{}", ExpectRule: "G6", ExpectConstruct: "buildRouteLineString"},
			// G1
			{Name: "g1-linestring-writes-way-nodes", File: "osmgeojson/convert.go", Find: "for _, wn := range w.Nodes {\n\t\tif wn.Lon != 0", Replace: "for i, wn := range w.Nodes {\n\t\tw.Nodes[i].Version = 0\n\t\tif wn.Lon != 0", ExpectRule: "G1", ExpectConstruct: "wayToLineString"},
			{Name: "g1-route-caches-coords-in-input", File: "osmgeojson/convert.go", Find: "\t\tls, t := ctx.wayToLineString(way)\n", Replace: "\t\tls, t := ctx.wayToLineString(way)\n\t\tif len(ls) > 0 && len(way.Nodes) > 0 {\n\t\t\tway.Nodes[0].Lon, way.Nodes[0].Lat = ls[0][0], ls[0][1]\n\t\t}\n", ExpectRule: "G1", ExpectConstruct: "buildRouteLineString"},
			{Name: "g1-polygon-writes-through-fresh-way", File: "osmgeojson/build_polygon.go", Find: "\t\tls, t := ctx.wayToLineString(way)\n", Replace: "\t\tls, t := ctx.wayToLineString(way)\n\t\tif len(way.Nodes) > 0 {\n\t\t\tway.Nodes[0].ID = 0\n\t\t}\n", ExpectRule: "G1", ExpectConstruct: "buildPolygon"},
			{Name: "g1-sort-input-tags", File: "osmgeojson/convert.go", Find: "\tf.Properties[\"tags\"] = relation.Tags.Map()\n", Replace: "\trelation.Tags.SortByKeyValue()\n\tf.Properties[\"tags\"] = relation.Tags.Map()\n", ExpectRule: "G1", ExpectConstruct: "tagsSort.Swap"},
			{Name: "g1-sort-input-tags-callsite", File: "osmgeojson/convert.go", Find: "\tf.Properties[\"tags\"] = relation.Tags.Map()\n", Replace: "\trelation.Tags.SortByKeyValue()\n\tf.Properties[\"tags\"] = relation.Tags.Map()\n", ExpectRule: "G1", ExpectConstruct: "Tags.SortByKeyValue"},
			{Name: "g1-sort-input-ways", File: "osmgeojson/convert.go", Find: "\tctx.wayMap = make(map[osm.WayID]*osm.Way, len(o.Ways))\n", Replace: "\tctx.osm.Ways.SortByIDVersion()\n\tctx.wayMap = make(map[osm.WayID]*osm.Way, len(o.Ways))\n", ExpectRule: "G1", ExpectConstruct: "waysSort.Swap"},
			{Name: "g1-node-tags-appended", File: "osmgeojson/convert.go", Find: "\tf.Properties[\"tags\"] = n.Tags.Map()\n", Replace: "\tn.Tags = append(n.Tags, osm.Tag{Key: \"converted\", Value: \"yes\"})\n\tf.Properties[\"tags\"] = n.Tags.Map()\n", ExpectRule: "G1", ExpectConstruct: "nodeToFeature"},
			{Name: "g1-reverse-way-nodes-in-place", File: "osmgeojson/convert.go", Find: "\tls, tainted := ctx.wayToLineString(w)\n", Replace: "\tfor i, j := 0, len(w.Nodes)-1; i < j; i, j = i+1, j-1 {\n\t\tw.Nodes[i], w.Nodes[j] = w.Nodes[j], w.Nodes[i]\n\t}\n\tls, tainted := ctx.wayToLineString(w)\n", ExpectRule: "G1", ExpectConstruct: "wayToFeature"},
			{Name: "g1-copy-into-input-nodes", File: "osmgeojson/convert.go", Find: "\tfc := geojson.NewFeatureCollection()\n", Replace: "\tif len(o.Nodes) > 1 {\n\t\tcopy(o.Nodes, o.Nodes[1:])\n\t}\n\tfc := geojson.NewFeatureCollection()\n", ExpectRule: "G1", ExpectConstruct: "osmgeojson.Convert"},
			{Name: "g1-delete-from-package-map", File: "osmgeojson/convert.go", Find: "\t\tk, v := tag.Key, tag.Value\n", Replace: "\t\tk, v := tag.Key, tag.Value\n\t\tdelete(osm.UninterestingTags, \"fixme\")\n", ExpectRule: "G1", ExpectConstruct: "hasInterestingTags"},
			{Name: "g1-polygon-test-clears-area-tag", File: "polygon.go", Find: "\tif area := w.Tags.Find(\"area\"); area == \"no\" {\n", Replace: "\tif len(w.Tags) > 0 && w.Tags[0].Key == \"area\" {\n\t\tw.Tags[0].Value = \"yes\"\n\t}\n\tif area := w.Tags.Find(\"area\"); area == \"no\" {\n", ExpectRule: "G1", ExpectConstruct: "(*Way).Polygon"},
			// G2
			{Name: "g2-ways-from-map", File: "osmgeojson/convert.go", Find: "\tfor _, way := range ctx.osm.Ways {\n\t\t// should skip only", Replace: "\tfor _, way := range ctx.wayMap {\n\t\t// should skip only", ExpectRule: "G2", ExpectConstruct: "maprange@osmgeojson.Convert"},
			{Name: "g2-features-from-membership-map", File: "osmgeojson/convert.go", Find: "\tfc := geojson.NewFeatureCollection()\n", Replace: "\tfor fid, rs := range ctx.relationMember {\n\t\tif n := ctx.getNode(fid.NodeID()); n != nil && len(rs) > 1 {\n\t\t\tfeatures = append(features, ctx.nodeToFeature(n))\n\t\t}\n\t}\n\tfc := geojson.NewFeatureCollection()\n", ExpectRule: "G2", ExpectConstruct: "ctx.relationMember"},
			{Name: "g2-first-ignored-key-wins", File: "osmgeojson/convert.go", Find: "\tfor _, tag := range tags {\n\t\tk, v := tag.Key, tag.Value\n", Replace: "\tfor ik := range ignore {\n\t\treturn ik == \"type\"\n\t}\n\tfor _, tag := range tags {\n\t\tk, v := tag.Key, tag.Value\n", ExpectRule: "G2", ExpectConstruct: "hasInterestingTags"},
			// G3
			{Name: "g3-nometa-suppresses-tags", File: "osmgeojson/convert.go", Find: "\tf.Properties[\"tags\"] = n.Tags.Map()\n", Replace: "\tif !ctx.noMeta {\n\t\tf.Properties[\"tags\"] = n.Tags.Map()\n\t}\n", ExpectRule: "G3", ExpectConstruct: "nodeToFeature noMeta"},
			{Name: "g3-nometa-return-before-relations", File: "osmgeojson/convert.go", Find: "func (ctx *context) addMetaProperties(props geojson.Properties, e osm.Element) {\n", Replace: "func (ctx *context) addMetaProperties(props geojson.Properties, e osm.Element) {\n\tif ctx.noMeta {\n\t\treturn\n\t}\n", ExpectRule: "G3", ExpectConstruct: "addMetaProperties noMeta"},
			{Name: "g3-noid-inverted", File: "osmgeojson/convert.go", Find: "\tif !ctx.noID {\n\t\tf.ID = fmt.Sprintf(\"way/%d\", w.ID)", Replace: "\tif ctx.noID {\n\t\tf.ID = fmt.Sprintf(\"way/%d\", w.ID)", ExpectRule: "G3", ExpectConstruct: "wayToFeature"},
			{Name: "g3-noid-also-drops-id-property", File: "osmgeojson/convert.go", Find: "\t}\n\tf.Properties[\"id\"] = int(n.ID)\n", Replace: "\t\tf.Properties[\"id\"] = int(n.ID)\n\t}\n", ExpectRule: "G3", ExpectConstruct: "nodeToFeature noID"},
			{Name: "g3-id-set-unguarded", File: "osmgeojson/convert.go", Find: "\tif !ctx.noID {\n\t\tf.ID = fmt.Sprintf(\"relation/%d\", relation.ID)\n\t}\n", Replace: "\tf.ID = fmt.Sprintf(\"relation/%d\", relation.ID)\n", ExpectRule: "G3", ExpectConstruct: "idassign@(*context).buildRouteLineString"},
			{Name: "g3-membership-guard-drops-nodes", File: "osmgeojson/convert.go", Find: "if ctx.noRelationMembership && m.Type != osm.TypeNode {", Replace: "if ctx.noRelationMembership && m.Type != osm.TypeRelation {", ExpectRule: "G3", ExpectConstruct: "read@Convert noRelationMembership"},
			{Name: "g3-membership-read-for-ways", File: "osmgeojson/convert.go", Find: "\tif tainted {\n\t\tf.Properties[\"tainted\"] = true\n\t}\n\n\tctx.addMetaProperties(f.Properties, w)\n", Replace: "\tif tainted || len(ctx.relationMember[w.FeatureID()]) > 0 {\n\t\tf.Properties[\"tainted\"] = true\n\t}\n\n\tctx.addMetaProperties(f.Properties, w)\n", ExpectRule: "G3", ExpectConstruct: "memberread@(*context).wayToFeature"},
			{Name: "g3-nometa-option-also-sets-noid", File: "osmgeojson/options.go", Find: "\t\tctx.noMeta = yes\n", Replace: "\t\tctx.noMeta = yes\n\t\tctx.noID = yes\n", ExpectRule: "G3", ExpectConstruct: "write@noID"},
			{Name: "g3-invalid-option-drops-result", File: "osmgeojson/build_polygon.go", Find: "\t\tif len(mp) == 0 {\n\t\t\treturn nil\n\t\t}\n", Replace: "\t\tif len(mp) == 0 || ctx.includeInvalidPolygons {\n\t\t\treturn nil\n\t\t}\n", ExpectRule: "G3", ExpectConstruct: "buildPolygon includeInvalidPolygons"},
			{Name: "g3-invalid-option-read-for-ways", File: "osmgeojson/convert.go", Find: "\tif len(ls) <= 1 {\n\t\t// one node ways are ignored.\n", Replace: "\tif len(ls) <= 1 && !ctx.includeInvalidPolygons {\n\t\t// one node ways are ignored.\n", ExpectRule: "G3", ExpectConstruct: "wayToFeature includeInvalidPolygons"},
			// G4
			{Name: "g4-way-case-omits-changeset", File: "osmgeojson/convert.go", Find: "\t\tif e.ChangesetID != 0 {\n\t\t\tmeta[\"changeset\"] = e.ChangesetID\n\t\t}\n\n", Replace: "", Nth: 2, ExpectRule: "G4", ExpectConstruct: "*osm.Way"},
			{Name: "g4-relation-case-other-key", File: "osmgeojson/convert.go", Find: "meta[\"uid\"] = e.UserID", Replace: "meta[\"user_id\"] = e.UserID", Nth: 3, ExpectRule: "G4", ExpectConstruct: "*osm.Relation"},
			{Name: "g4-way-case-version-from-changeset", File: "osmgeojson/convert.go", Find: "meta[\"version\"] = e.Version", Replace: "meta[\"version\"] = int(e.ChangesetID)", Nth: 2, ExpectRule: "G4", ExpectConstruct: "*osm.Way"},
			// G5
			{Name: "g5-way-appended-twice", File: "osmgeojson/convert.go", Find: "features = append(features, feature)", Replace: "features = append(features, feature, feature)", Nth: 3, ExpectRule: "G5", ExpectConstruct: "loop@Convert ways"},
			{Name: "g5-route-also-polygon", File: "osmgeojson/convert.go", Find: "\t\t} else if tt == \"multipolygon\" || tt == \"boundary\" {\n", Replace: "\t\t}\n\t\tif tt == \"multipolygon\" || tt == \"boundary\" || tt == \"route\" {\n", ExpectRule: "G5", ExpectConstruct: "loop@Convert relations"},
			{Name: "g5-skippable-not-skipped", File: "osmgeojson/convert.go", Find: "\t\tif _, skip := ctx.skippable[way.ID]; skip {\n\t\t\tcontinue\n\t\t}\n", Replace: "", ExpectRule: "G5", ExpectConstruct: "skippable@Convert ways"},
			{Name: "g5-skippable-inverted", File: "osmgeojson/convert.go", Find: "if _, skip := ctx.skippable[way.ID]; skip {", Replace: "if _, skip := ctx.skippable[way.ID]; !skip {", ExpectRule: "G5", ExpectConstruct: "skippable@Convert ways"},
			{Name: "g5-node-loop-appends-in-inner-loop", File: "osmgeojson/convert.go", Find: "\t\tfeature := ctx.nodeToFeature(node)\n\t\tif feature != nil {\n\t\t\tfeatures = append(features, feature)\n\t\t}\n", Replace: "\t\tfeature := ctx.nodeToFeature(node)\n\t\tfor range ctx.relationMember[node.FeatureID()] {\n\t\t\tfeatures = append(features, feature)\n\t\t}\n", ExpectRule: "G5", ExpectConstruct: "loop@Convert nodes"},
		},
	})
}

// ---------------------------------------------------------------------------
// shared: the call tree of Convert

const c17GeoPkg = "osmgeojson"

type c17Tree struct {
	root    *ssa.Function
	order   []*ssa.Function                 // reachable repository functions with a body, BFS order
	parent  map[*ssa.Function]*ssa.Function // BFS parent (any function, including pass-through ones)
	visited int                             // all functions visited, including pass-through
}

func c17IsRepoFunc(p *core.Program, fn *ssa.Function) bool {
	if fn == nil || len(fn.Blocks) == 0 || fn.Synthetic != "" {
		return false
	}
	pk := fn.Pkg
	if pk == nil && fn.Origin() != nil {
		pk = fn.Origin().Pkg
	}
	if pk == nil && fn.Parent() != nil {
		pk = fn.Parent().Pkg
	}
	if pk == nil || pk.Pkg == nil {
		return false
	}
	path := pk.Pkg.Path()
	return path == core.ModulePath || strings.HasPrefix(path, core.ModulePath+"/")
}

// c17FnName renders "osm.Tags.Map", "osmgeojson.(*context).buildPolygon", "osmgeojson.NoID$1".
func c17FnName(fn *ssa.Function) string {
	if fn == nil {
		return "?"
	}
	pkg := ""
	if fn.Pkg != nil && fn.Pkg.Pkg != nil {
		pkg = fn.Pkg.Pkg.Name() + "."
	} else if fn.Parent() != nil && fn.Parent().Pkg != nil {
		pkg = fn.Parent().Pkg.Pkg.Name() + "."
	}
	if obj, ok := fn.Object().(*types.Func); ok && obj != nil {
		return pkg + funcName(obj)
	}
	if fn.Parent() != nil {
		base := c17FnName(fn.Parent())
		suffix := fn.Name()
		if i := strings.LastIndexByte(suffix, '$'); i >= 0 {
			suffix = suffix[i:]
		}
		return base + suffix
	}
	return pkg + fn.Name()
}

// c17ConvertTree computes the repository functions reachable from osmgeojson.Convert in the VTA call
// graph. Non-repository functions are traversed (so that sort.Sort → Swap comes back into the
// repository) but not reported. The Option-typed functions of the package are added as roots because
// the options reach Convert through its variadic parameter, for which the call graph has no caller.
func c17ConvertTree(r *core.R) *c17Tree {
	pk := r.P.Pkg(c17GeoPkg)
	fi := findFunc(pk, "Convert")
	if fi == nil {
		r.Anchor("osmgeojson.Convert")
		return nil
	}
	root := r.P.SSAFunc(fi.Obj)
	if root == nil {
		r.Anchor("SSA of osmgeojson.Convert")
		return nil
	}
	cg := r.P.CallGraph()
	t := &c17Tree{root: root, parent: map[*ssa.Function]*ssa.Function{}}
	seen := map[*ssa.Function]bool{root: true}
	work := []*ssa.Function{root}
	// option constructors' closures
	if optT := pk.Types.Scope().Lookup("Option"); optT != nil {
		if sp := r.P.SSAPkg(pk); sp != nil {
			var add func(f *ssa.Function)
			add = func(f *ssa.Function) {
				for _, an := range f.AnonFuncs {
					if types.Identical(an.Signature, optT.Type().Underlying()) && !seen[an] {
						seen[an] = true
						t.parent[an] = root
						work = append(work, an)
					}
					add(an)
				}
			}
			var names []string
			for n := range sp.Members {
				names = append(names, n)
			}
			sort.Strings(names)
			for _, n := range names {
				if f, ok := sp.Members[n].(*ssa.Function); ok {
					add(f)
				}
			}
		}
	}
	// Callbacks from non-repository code into repository methods are admitted only for receiver types
	// that reachable repository code converts to an interface (as RTA does): the VTA graph is
	// context-insensitive, so fmt.Sprintf would otherwise reach every String/Error method of the program.
	roots := append([]*ssa.Function{}, work...)
	rootParent := map[*ssa.Function]*ssa.Function{}
	for k, v := range t.parent {
		rootParent[k] = v
	}
	ifaceTypes := map[string]bool{}
	funcVals := map[*ssa.Function]bool{}
	for iter := 0; iter < 8; iter++ {
		t.order, t.visited = nil, 0
		t.parent = map[*ssa.Function]*ssa.Function{}
		for k, v := range rootParent {
			t.parent[k] = v
		}
		seen := map[*ssa.Function]bool{}
		for _, f := range roots {
			seen[f] = true
		}
		work := append([]*ssa.Function{}, roots...)
		for len(work) > 0 {
			fn := work[0]
			work = work[1:]
			t.visited++
			isRepo := c17IsRepoFunc(r.P, fn)
			if isRepo {
				t.order = append(t.order, fn)
			}
			var outs []*ssa.Function
			if isRepo {
				// closures created here are considered reachable (they are invoked through values)
				outs = append(outs, fn.AnonFuncs...)
			}
			if n := cg.Nodes[fn]; n != nil {
				for _, e := range n.Out {
					outs = append(outs, e.Callee.Func)
				}
			}
			sort.SliceStable(outs, func(i, j int) bool { return outs[i].String() < outs[j].String() })
			for _, c := range outs {
				if c == nil || seen[c] {
					continue
				}
				if !isRepo && !c17CallbackAdmitted(c, ifaceTypes, funcVals) {
					continue
				}
				seen[c] = true
				t.parent[c] = fn
				work = append(work, c)
			}
		}
		// types converted to interfaces and functions used as values in reachable repository code
		grew := false
		for _, fn := range t.order {
			for _, b := range fn.Blocks {
				for _, in := range b.Instrs {
					if mi, ok := in.(*ssa.MakeInterface); ok {
						if nt, ok := c17Deref(mi.X.Type()).(*types.Named); ok {
							k := c17TypeKey(nt)
							if !ifaceTypes[k] {
								ifaceTypes[k] = true
								grew = true
							}
						}
					}
					for _, op := range in.Operands(nil) {
						if f, ok := (*op).(*ssa.Function); ok && !funcVals[f] {
							funcVals[f] = true
							grew = true
						}
					}
				}
			}
		}
		if !grew {
			break
		}
	}
	return t
}

func (t *c17Tree) path(fn *ssa.Function) string {
	var names []string
	for f := fn; f != nil; f = t.parent[f] {
		names = append(names, c17FnName(f))
		if f == t.root {
			break
		}
	}
	for i, j := 0, len(names)-1; i < j; i, j = i+1, j-1 {
		names[i], names[j] = names[j], names[i]
	}
	if len(names) > 8 {
		names = append(append([]string{}, names[:3]...), append([]string{"…"}, names[len(names)-4:]...)...)
	}
	return strings.Join(names, " → ")
}

// ---------------------------------------------------------------------------
// G1: input immutability

// c17Mem is the set of memory kinds that can be input memory: cells of type T reached through a
// pointer ("T"), backing arrays of slices of E ("[]E") and map objects ("map[K]V"), computed as the
// closure of the types reachable from osm.OSM. Without unsafe, memory reachable from the *osm.OSM
// handed to Convert has one of these types.
type c17Mem map[string]bool

func c17TypeKey(t types.Type) string { return types.TypeString(t, nil) }

func c17IsRepoNamed(t types.Type) bool {
	nt, ok := t.(*types.Named)
	if !ok || nt.Obj().Pkg() == nil {
		return false
	}
	p := nt.Obj().Pkg().Path()
	return p == core.ModulePath || strings.HasPrefix(p, core.ModulePath+"/")
}

func c17InputMemory(p *core.Program) c17Mem {
	m := c17Mem{}
	pk := p.Pkg("")
	if pk == nil {
		return nil
	}
	obj := pk.Types.Scope().Lookup("OSM")
	if obj == nil {
		return nil
	}
	seen := map[string]bool{}
	var contents func(t types.Type)
	pointee := func(t types.Type) {
		m[c17TypeKey(t)] = true
		contents(t)
	}
	contents = func(t types.Type) {
		k := c17TypeKey(t)
		if seen[k] {
			return
		}
		seen[k] = true
		switch x := t.(type) {
		case *types.Named:
			if !c17IsRepoNamed(x) {
				// foreign value embedded by value (time.Time): its inner pointers are only written by its own package
				return
			}
			contents(x.Underlying())
		case *types.Alias:
			contents(types.Unalias(x))
		case *types.Pointer:
			pointee(x.Elem())
		case *types.Slice:
			m["[]"+c17TypeKey(x.Elem())] = true
			contents(x.Elem())
		case *types.Array:
			contents(x.Elem())
		case *types.Map:
			m[c17TypeKey(x)] = true
			contents(x.Key())
			contents(x.Elem())
		case *types.Struct:
			for i := 0; i < x.NumFields(); i++ {
				contents(x.Field(i).Type())
			}
		}
	}
	pointee(obj.Type())
	return m
}

// c17Origin is where a reference (pointer, slice, map) comes from.
type c17Origin struct {
	kind    string // alloc | make | nil | param | freevar | global | call | load | other
	v       ssa.Value
	viaLoad bool // a pointer/slice/map was read from memory on the way: it may alias anything
}

func (o c17Origin) fresh() bool {
	return !o.viaLoad && (o.kind == "alloc" || o.kind == "make" || o.kind == "nil")
}

func c17Deref(t types.Type) types.Type {
	if p, ok := t.Underlying().(*types.Pointer); ok {
		return p.Elem()
	}
	return t
}

// c17Origins walks a reference value back to its origins.
func c17Origins(v ssa.Value, viaLoad bool, seen map[ssa.Value]bool, out *[]c17Origin) {
	if seen[v] {
		return
	}
	seen[v] = true
	add := func(kind string) { *out = append(*out, c17Origin{kind: kind, v: v, viaLoad: viaLoad}) }
	switch x := v.(type) {
	case *ssa.Alloc:
		add("alloc")
	case *ssa.MakeSlice, *ssa.MakeMap, *ssa.MakeChan:
		add("make")
	case *ssa.Const:
		add("nil")
	case *ssa.Parameter:
		add("param")
	case *ssa.FreeVar:
		add("freevar")
	case *ssa.Global:
		add("global")
	case *ssa.Function, *ssa.MakeClosure, *ssa.Builtin:
		add("other")
	case *ssa.FieldAddr:
		c17Origins(x.X, viaLoad, seen, out)
	case *ssa.IndexAddr:
		c17Origins(x.X, viaLoad, seen, out)
	case *ssa.Slice:
		c17Origins(x.X, viaLoad, seen, out)
	case *ssa.ChangeType:
		c17Origins(x.X, viaLoad, seen, out)
	case *ssa.Convert:
		c17Origins(x.X, viaLoad, seen, out)
	case *ssa.MakeInterface:
		c17Origins(x.X, viaLoad, seen, out)
	case *ssa.ChangeInterface:
		c17Origins(x.X, viaLoad, seen, out)
	case *ssa.TypeAssert:
		c17Origins(x.X, viaLoad, seen, out)
	case *ssa.SliceToArrayPointer:
		c17Origins(x.X, viaLoad, seen, out)
	case *ssa.Phi:
		for _, e := range x.Edges {
			c17Origins(e, viaLoad, seen, out)
		}
	case *ssa.Field:
		c17Origins(x.X, true, seen, out)
	case *ssa.Index:
		c17Origins(x.X, true, seen, out)
	case *ssa.Lookup:
		c17Origins(x.X, true, seen, out)
	case *ssa.Extract:
		c17Origins(x.Tuple, viaLoad, seen, out)
	case *ssa.Next:
		c17Origins(x.Iter, true, seen, out)
	case *ssa.Range:
		c17Origins(x.X, true, seen, out)
	case *ssa.UnOp:
		if x.Op != token.MUL {
			add("other")
			return
		}
		// a load. A plain local variable cell (an Alloc only ever stored to and loaded from) holds
		// exactly what was stored into it.
		if al, ok := x.X.(*ssa.Alloc); ok {
			if vals, ok := c17CellValues(al); ok {
				for _, sv := range vals {
					c17Origins(sv, viaLoad, seen, out)
				}
				if len(vals) == 0 {
					add("nil")
				}
				return
			}
		}
		c17Origins(x.X, true, seen, out)
	case *ssa.Call:
		if b, ok := x.Call.Value.(*ssa.Builtin); ok && b.Name() == "append" && len(x.Call.Args) > 0 {
			// the result shares the backing array of the first argument or is a new array
			c17Origins(x.Call.Args[0], viaLoad, seen, out)
			return
		}
		add("call")
	default:
		add("other")
	}
}

// c17CellValues returns the values stored into a local variable cell when the cell is used only by
// direct stores and loads (not captured, not address-taken through fields).
func c17CellValues(al *ssa.Alloc) ([]ssa.Value, bool) {
	refs := al.Referrers()
	if refs == nil {
		return nil, false
	}
	var vals []ssa.Value
	for _, in := range *refs {
		switch y := in.(type) {
		case *ssa.Store:
			if y.Addr != al || y.Val == al {
				return nil, false
			}
			vals = append(vals, y.Val)
		case *ssa.UnOp:
			if y.Op != token.MUL {
				return nil, false
			}
		case *ssa.DebugRef:
		default:
			return nil, false
		}
	}
	return vals, true
}

// c17Containers lists the memory kinds a write through addr lands in: the directly written cell and
// every cell it is embedded in by value, together with the reference the outermost one hangs off.
func c17Containers(addr ssa.Value) (kinds []string, base ssa.Value) {
	v := addr
	for {
		switch x := v.(type) {
		case *ssa.FieldAddr:
			kinds = append(kinds, c17TypeKey(c17Deref(x.X.Type())))
			v = x.X
			// the struct may itself be embedded in another cell
			switch x.X.(type) {
			case *ssa.FieldAddr, *ssa.IndexAddr:
				continue
			}
			return kinds, x.X
		case *ssa.IndexAddr:
			switch tt := x.X.Type().Underlying().(type) {
			case *types.Slice:
				kinds = append(kinds, "[]"+c17TypeKey(tt.Elem()))
				return kinds, x.X
			case *types.Pointer: // pointer to array
				kinds = append(kinds, c17TypeKey(tt.Elem()))
				if arr, ok := tt.Elem().Underlying().(*types.Array); ok {
					kinds = append(kinds, "[]"+c17TypeKey(arr.Elem()))
				}
				v = x.X
				switch x.X.(type) {
				case *ssa.FieldAddr, *ssa.IndexAddr:
					continue
				}
				return kinds, x.X
			}
			return kinds, x.X
		default:
			kinds = append(kinds, c17TypeKey(c17Deref(v.Type())))
			return kinds, v
		}
	}
}

// c17RefKinds lists the memory kinds reachable in one step through a reference value handed to a callee.
func c17RefKinds(v ssa.Value) []string {
	t := v.Type()
	if mi, ok := v.(*ssa.MakeInterface); ok {
		t = mi.X.Type()
	}
	switch tt := t.Underlying().(type) {
	case *types.Pointer:
		ks := []string{c17TypeKey(tt.Elem())}
		if arr, ok := tt.Elem().Underlying().(*types.Array); ok {
			ks = append(ks, "[]"+c17TypeKey(arr.Elem()))
		}
		return ks
	case *types.Slice:
		return []string{"[]" + c17TypeKey(tt.Elem())}
	case *types.Map:
		return []string{c17TypeKey(tt)}
	}
	return nil
}

type c17Write struct {
	pos   token.Pos
	what  string   // description of the write
	kinds []string // memory kinds written
	base  ssa.Value
	undec bool // external callee with unknown effect
}

// c17ExternalMutator reports whether a non-repository callee writes through its reference arguments.
func c17ExternalMutator(fn *ssa.Function) (mutates bool, readonly bool) {
	pkg := ""
	if fn.Pkg != nil && fn.Pkg.Pkg != nil {
		pkg = fn.Pkg.Pkg.Path()
	} else if o := fn.Origin(); o != nil && o.Pkg != nil && o.Pkg.Pkg != nil {
		pkg = o.Pkg.Pkg.Path()
	} else if obj := fn.Object(); obj != nil && obj.Pkg() != nil {
		pkg = obj.Pkg().Path()
	}
	name := fn.Name()
	if o := fn.Origin(); o != nil {
		name = o.Name()
	}
	switch pkg {
	case "sort":
		if strings.HasPrefix(name, "Search") || name == "IsSorted" || strings.HasSuffix(name, "AreSorted") || name == "Len" || name == "Less" || name == "Find" {
			return false, true
		}
		return true, false
	case "slices":
		switch name {
		case "Sort", "SortFunc", "SortStableFunc", "Reverse", "Insert", "Delete", "DeleteFunc", "Compact", "CompactFunc", "Replace", "Clip", "Grow":
			return true, false
		}
		return false, true
	case "fmt", "strings", "strconv", "math", "errors":
		return false, true
	}
	if name == "Reverse" || name == "Swap" || strings.HasPrefix(name, "Sort") {
		return true, false
	}
	return false, false
}

// c17FunctionWrites enumerates the memory writes of one function.
func c17FunctionWrites(p *core.Program, cgOut map[ssa.CallInstruction][]*ssa.Function, fn *ssa.Function) []c17Write {
	var ws []c17Write
	for _, b := range fn.Blocks {
		for _, in := range b.Instrs {
			switch x := in.(type) {
			case *ssa.Store:
				kinds, base := c17Containers(x.Addr)
				ws = append(ws, c17Write{pos: x.Pos(), what: "store", kinds: kinds, base: base})
			case *ssa.MapUpdate:
				ws = append(ws, c17Write{pos: x.Pos(), what: "map update", kinds: []string{c17TypeKey(x.Map.Type().Underlying())}, base: x.Map})
			case ssa.CallInstruction:
				com := x.Common()
				if bi, ok := com.Value.(*ssa.Builtin); ok {
					switch bi.Name() {
					case "append":
						if len(com.Args) > 0 {
							if sl, ok := com.Args[0].Type().Underlying().(*types.Slice); ok {
								ws = append(ws, c17Write{pos: x.Pos(), what: "append (writes in place into spare capacity)", kinds: []string{"[]" + c17TypeKey(sl.Elem())}, base: com.Args[0]})
							}
						}
					case "copy":
						if len(com.Args) > 0 {
							ws = append(ws, c17Write{pos: x.Pos(), what: "copy into", kinds: c17RefKinds(com.Args[0]), base: com.Args[0]})
						}
					case "delete", "clear":
						if len(com.Args) > 0 {
							ws = append(ws, c17Write{pos: x.Pos(), what: bi.Name(), kinds: c17RefKinds(com.Args[0]), base: com.Args[0]})
						}
					}
					continue
				}
				// non-repository callees: enumerated in-place mutators; anything else receiving references is undecided
				var callees []*ssa.Function
				if sc := com.StaticCallee(); sc != nil {
					callees = []*ssa.Function{sc}
				} else {
					callees = cgOut[x]
				}
				for _, cal := range callees {
					if cal == nil || c17IsRepoFunc(p, cal) {
						continue
					}
					if cal.Synthetic != "" && len(cal.Blocks) > 0 {
						continue // wrappers/thunks: their bodies call the real function, which the graph reaches
					}
					mut, ro := c17ExternalMutator(cal)
					if ro {
						continue
					}
					args := com.Args
					for _, a := range args {
						kinds := c17RefKinds(a)
						if len(kinds) == 0 {
							continue
						}
						w := c17Write{pos: x.Pos(), kinds: kinds, base: a}
						if mut {
							w.what = "in-place mutator " + cal.String() + " applied to"
						} else {
							w.what = "non-repository callee " + cal.String() + " (effect unknown) receives"
							w.undec = true
						}
						ws = append(ws, w)
					}
				}
			}
		}
	}
	return ws
}

func c17G1(r *core.R) {
	t := c17ConvertTree(r)
	if t == nil {
		return
	}
	mem := c17InputMemory(r.P)
	if len(mem) == 0 || !mem[core.ModulePath+".Node"] || !mem["[]"+core.ModulePath+".WayNode"] || !mem["[]"+core.ModulePath+".Tag"] || !mem["[]"+core.ModulePath+".Member"] {
		r.Anchor("input memory model: osm.OSM → Node, []WayNode, []Tag, []Member")
		return
	}
	r.Stat("functions_visited_in_call_graph", t.visited)
	r.Stat("reachable_repository_functions", len(t.order))
	r.Stat("input_memory_kinds", len(mem))
	// per-site callees from the call graph for dynamic calls
	cg := r.P.CallGraph()
	for _, fn := range t.order {
		cgOut := map[ssa.CallInstruction][]*ssa.Function{}
		if n := cg.Nodes[fn]; n != nil {
			for _, e := range n.Out {
				if e.Site != nil {
					cgOut[e.Site] = append(cgOut[e.Site], e.Callee.Func)
				}
			}
		}
		name := c17FnName(fn)
		c := "writes@" + name
		ws := c17FunctionWrites(r.P, cgOut, fn)
		r.Stat("memory_writes_examined", len(ws))
		nInputTyped := 0
		bad := 0
		for _, w := range ws {
			var origins []c17Origin
			c17Origins(w.base, false, map[ssa.Value]bool{}, &origins)
			// package-level state
			var glob *ssa.Global
			for _, o := range origins {
				if g, ok := o.v.(*ssa.Global); ok && o.kind == "global" && g.Pkg != nil && c17IsRepoPkgPath(g.Pkg.Pkg.Path()) && !w.undec {
					glob = g
				}
			}
			if glob != nil {
				bad++
				r.Bad(c, w.pos, "%s %s: the target is rooted in the package-level variable %s; conversion must not write shared state (equal input would no longer give equal output, concurrent conversions race) [path: %s]",
					w.what, c17ValueDesc(w.base), glob.String(), t.path(fn))
				continue
			}
			hit := ""
			for _, k := range w.kinds {
				if mem[k] {
					hit = k
					break
				}
			}
			if hit == "" {
				continue
			}
			nInputTyped++
			allFresh := len(origins) > 0
			var culprit c17Origin
			for _, o := range origins {
				if !o.fresh() {
					allFresh = false
					culprit = o
					break
				}
			}
			if allFresh {
				continue
			}
			bad++
			root := c17OriginDesc(culprit)
			if w.undec {
				r.Unknown(c, w.pos, "%s %s, memory of kind %s that can be input memory (root: %s); the callee is not among the enumerated read-only or in-place-mutating non-repository functions [path: %s]",
					w.what, c17ValueDesc(w.base), hit, root, t.path(fn))
				continue
			}
			r.Bad(c, w.pos, "%s %s writes memory of kind %s, which is reachable from the *osm.OSM given to Convert, and the target is not allocated in this function (root: %s): the input data would be modified [path: %s]",
				w.what, c17ValueDesc(w.base), hit, root, t.path(fn))
		}
		if bad == 0 {
			pos := fn.Pos()
			if len(ws) == 0 {
				r.OKTrivial(c, pos, "no memory write in the function [path: %s]", t.path(fn))
			} else {
				r.OK(c, pos, "%d write(s) examined (stores, map updates, append/copy/delete, external mutators): %d into input-typed memory, each rooted in an allocation of this function; none into package state [path: %s]",
					len(ws), nInputTyped, t.path(fn))
			}
		}
	}
}

func c17IsRepoPkgPath(p string) bool {
	return p == core.ModulePath || strings.HasPrefix(p, core.ModulePath+"/")
}

func c17ValueDesc(v ssa.Value) string {
	s := v.Name()
	switch x := v.(type) {
	case *ssa.Parameter:
		return "parameter " + x.Name()
	case *ssa.UnOp:
		if x.Op == token.MUL {
			return "*(" + c17AddrDesc(x.X) + ")"
		}
	case *ssa.FieldAddr, *ssa.IndexAddr:
		return c17AddrDesc(v)
	case *ssa.Global:
		return x.String()
	case *ssa.MakeInterface:
		return c17ValueDesc(x.X)
	case *ssa.ChangeType:
		return c17ValueDesc(x.X)
	case *ssa.Field:
		return c17ValueDesc(x.X) + "." + c17FieldName(x.X.Type(), x.Field)
	}
	return s + " (" + types.TypeString(v.Type(), func(p *types.Package) string { return p.Name() }) + ")"
}

func c17FieldName(t types.Type, i int) string {
	if st, ok := c17Deref(t).Underlying().(*types.Struct); ok && i < st.NumFields() {
		return st.Field(i).Name()
	}
	return fmt.Sprintf("#%d", i)
}

func c17AddrDesc(v ssa.Value) string {
	switch x := v.(type) {
	case *ssa.FieldAddr:
		return c17AddrDesc(x.X) + "." + c17FieldName(x.X.Type(), x.Field)
	case *ssa.IndexAddr:
		return c17AddrDesc(x.X) + "[…]"
	case *ssa.UnOp:
		if x.Op == token.MUL {
			return c17AddrDesc(x.X)
		}
	case *ssa.Parameter:
		return x.Name()
	case *ssa.FreeVar:
		return x.Name()
	case *ssa.Global:
		return x.Name()
	case *ssa.Alloc:
		if x.Comment != "" {
			return x.Comment
		}
	case *ssa.Field:
		return c17AddrDesc(x.X) + "." + c17FieldName(x.X.Type(), x.Field)
	case *ssa.ChangeType:
		return c17AddrDesc(x.X)
	case *ssa.Phi:
		if x.Comment != "" {
			return x.Comment
		}
	case *ssa.Slice:
		return c17AddrDesc(x.X) + "[:]"
	case *ssa.Lookup:
		return c17AddrDesc(x.X) + "[…]"
	case *ssa.Extract:
		return c17AddrDesc(x.Tuple)
	}
	return v.Name()
}

func c17OriginDesc(o c17Origin) string {
	d := o.kind + " " + c17AddrDesc(o.v) + " of type " + types.TypeString(o.v.Type(), func(p *types.Package) string { return p.Name() })
	if o.viaLoad {
		d += ", reached through a pointer/slice loaded from memory (never fresh)"
	}
	return d
}

// c17CallbackAdmitted decides whether an edge from non-repository code to c is followed.
func c17CallbackAdmitted(c *ssa.Function, ifaceTypes map[string]bool, funcVals map[*ssa.Function]bool) bool {
	recv := c.Signature.Recv()
	if recv != nil {
		nt, ok := c17Deref(recv.Type()).(*types.Named)
		if ok && c17IsRepoNamed(nt) {
			return ifaceTypes[c17TypeKey(nt)]
		}
		return true
	}
	if c.Pkg != nil && c.Pkg.Pkg != nil && c17IsRepoPkgPath(c.Pkg.Pkg.Path()) && c.Synthetic == "" {
		if c.Parent() != nil {
			// a closure is reachable exactly when the function creating it is (added there)
			return false
		}
		return funcVals[c]
	}
	return true
}

// ---------------------------------------------------------------------------
// G2: determinism (map ranges in the call tree)

// c17FuncSyntax returns the body, the package and a display name of a reachable function.
func c17FuncSyntax(p *core.Program, fn *ssa.Function) (*ast.BlockStmt, *packages.Package) {
	var body *ast.BlockStmt
	switch n := fn.Syntax().(type) {
	case *ast.FuncDecl:
		body = n.Body
	case *ast.FuncLit:
		body = n.Body
	}
	sp := fn.Pkg
	if sp == nil && fn.Parent() != nil {
		sp = fn.Parent().Pkg
	}
	if body == nil || sp == nil || sp.Pkg == nil {
		return nil, nil
	}
	return body, p.ByPath[sp.Pkg.Path()]
}

func c17IsLocalTo(o types.Object, n ast.Node) bool {
	return o != nil && o.Pos() >= n.Pos() && o.Pos() <= n.End()
}

// c17MapRangeVerdict classifies the body of a range over a map.
// It returns bad (order-dependent effect), unknown (effect outside the enumerated idioms) and the
// reasons for an order-independent body.
func c17MapRangeVerdict(fset *token.FileSet, info *types.Info, fnBody *ast.BlockStmt, rs *ast.RangeStmt) (bad, unknown string, reasons []string) {
	note := map[string]bool{}
	addNote := func(s string) {
		if !note[s] {
			note[s] = true
			reasons = append(reasons, s)
		}
	}
	setBad := func(format string, a ...interface{}) {
		if bad == "" {
			bad = fmt.Sprintf(format, a...)
		}
	}
	setUnknown := func(format string, a ...interface{}) {
		if unknown == "" {
			unknown = fmt.Sprintf(format, a...)
		}
	}
	loopVar := func(o types.Object) bool {
		return o != nil && ((rs.Key != nil && objOf(info, rs.Key) == o) || (rs.Value != nil && objOf(info, rs.Value) == o))
	}
	mentionsLoopVar := func(e ast.Node) bool {
		f := false
		ast.Inspect(e, func(n ast.Node) bool {
			if id, ok := n.(*ast.Ident); ok {
				if o := info.Uses[id]; o != nil && (loopVar(o) || c17IsLocalTo(o, rs.Body)) {
					f = true
				}
			}
			return !f
		})
		return f
	}
	sortedAfter := func(o types.Object) token.Pos {
		var at token.Pos
		ast.Inspect(fnBody, func(n ast.Node) bool {
			call, ok := n.(*ast.CallExpr)
			if !ok || call.Pos() < rs.End() || at.IsValid() {
				return true
			}
			fn := callee(info, call)
			if fn == nil || fn.Pkg() == nil {
				return true
			}
			isSort := (fn.Pkg().Path() == "sort" && !strings.HasPrefix(fn.Name(), "Search")) ||
				(fn.Pkg().Path() == "slices" && strings.HasPrefix(fn.Name(), "Sort")) || strings.HasPrefix(fn.Name(), "Sort")
			if isSort && usesObj(info, call, o) {
				at = call.Pos()
			}
			return true
		})
		return at
	}
	inspectNoLit(rs.Body, func(n ast.Node) bool {
		switch x := n.(type) {
		case *ast.AssignStmt:
			for i, l := range x.Lhs {
				l = ast.Unparen(l)
				if id, ok := l.(*ast.Ident); ok && id.Name == "_" {
					continue
				}
				root := rootObj(info, l)
				if x.Tok == token.DEFINE || c17IsLocalTo(root, rs.Body) || loopVar(root) {
					continue // loop-local state, or the element itself (each element is visited once)
				}
				if ix, ok := l.(*ast.IndexExpr); ok {
					if _, isMap := info.TypeOf(ix.X).Underlying().(*types.Map); isMap {
						addNote("fills map " + src(fset, ix.X) + " (a map has no order)")
						continue
					}
				}
				var rhs ast.Expr
				if len(x.Rhs) == len(x.Lhs) {
					rhs = x.Rhs[i]
				}
				if call, ok := rhs.(*ast.CallExpr); ok && builtinName(info, call) == "append" {
					if at := sortedAfter(root); at.IsValid() {
						addNote("appends to " + src(fset, l) + ", which is sorted after the loop")
						continue
					}
					setBad("`%s` appends to %s, which outlives the loop, in hash-map iteration order and it is not sorted afterwards", src(fset, x), src(fset, l))
					continue
				}
				switch x.Tok {
				case token.ADD_ASSIGN, token.SUB_ASSIGN, token.MUL_ASSIGN, token.OR_ASSIGN, token.AND_ASSIGN, token.XOR_ASSIGN:
					if b, ok := info.TypeOf(l).Underlying().(*types.Basic); ok && b.Info()&types.IsInteger != 0 {
						addNote("integer accumulation into " + src(fset, l) + " (commutative)")
						continue
					}
					setBad("`%s` accumulates a non-integer value in hash-map iteration order (string concatenation and float sums depend on the order)", src(fset, x))
					continue
				}
				if rhs != nil && !mentionsLoopVar(rhs) {
					if tv, ok := info.Types[rhs]; ok && (tv.Value != nil || tv.IsNil()) {
						addNote("sets " + src(fset, l) + " to a constant (idempotent)")
						continue
					}
				}
				setBad("`%s` assigns a value taken from the current map entry to %s, which outlives the loop: which entry wins depends on hash-map iteration order", src(fset, x), src(fset, l))
			}
		case *ast.IncDecStmt:
			root := rootObj(info, x.X)
			if !c17IsLocalTo(root, rs.Body) && !loopVar(root) {
				addNote("counts into " + src(fset, x.X) + " (commutative)")
			}
		case *ast.ReturnStmt:
			for _, res := range x.Results {
				if mentionsLoopVar(res) {
					setBad("`%s` returns a value taken from whichever map entry is visited first", src(fset, x))
				}
			}
			addNote("returns a loop-independent value (existence test)")
		case *ast.SendStmt, *ast.GoStmt, *ast.DeferStmt:
			setBad("`%s` emits an effect per entry in hash-map iteration order", src(fset, x))
		case *ast.ExprStmt:
			call, ok := x.X.(*ast.CallExpr)
			if !ok {
				return true
			}
			if b := builtinName(info, call); b == "delete" || b == "panic" || b == "clear" {
				return true
			}
			if sel, ok := ast.Unparen(call.Fun).(*ast.SelectorExpr); ok {
				if root := rootObj(info, sel.X); loopVar(root) || c17IsLocalTo(root, rs.Body) {
					addNote("calls a method on the current entry (each entry is visited once)")
					return true
				}
			}
			setUnknown("`%s`: a call statement with effects outside the loop under map iteration is not among the enumerated order-independent idioms (map fill, integer accumulation, constant flag, existence return, per-entry method)", src(fset, x))
		}
		return true
	})
	if len(reasons) == 0 {
		reasons = []string{"the body has no effect that outlives an iteration"}
	}
	return
}

func c17G2(r *core.R) {
	t := c17ConvertTree(r)
	if t == nil {
		return
	}
	nranges := 0
	for _, fn := range t.order {
		body, pk := c17FuncSyntax(r.P, fn)
		name := c17FnName(fn)
		if body == nil || pk == nil {
			r.Unknown("maprange@"+name, fn.Pos(), "no syntax for reachable repository function")
			continue
		}
		info := pk.TypesInfo
		found := 0
		inspectNoLit(body, func(n ast.Node) bool {
			rs, ok := n.(*ast.RangeStmt)
			if !ok {
				return true
			}
			tx := info.TypeOf(rs.X)
			if tx == nil {
				return true
			}
			if _, isMap := tx.Underlying().(*types.Map); !isMap {
				return true
			}
			found++
			nranges++
			c := "maprange@" + name + " " + src(r.P.Fset, rs.X)
			bad, unknown, reasons := c17MapRangeVerdict(r.P.Fset, info, body, rs)
			switch {
			case bad != "":
				r.Bad(c, rs.Pos(), "range over map %s in the call tree of Convert: %s; equal input would not give equal output [path: %s]", src(r.P.Fset, rs.X), bad, t.path(fn))
			case unknown != "":
				r.Unknown(c, rs.Pos(), "range over map %s: %s [path: %s]", src(r.P.Fset, rs.X), unknown, t.path(fn))
			default:
				r.OKTrivial(c, rs.Pos(), "range over map %s is order-independent: %s", src(r.P.Fset, rs.X), strings.Join(reasons, "; "))
			}
			return true
		})
		if found == 0 {
			r.OKTrivial("maprange@"+name, fn.Pos(), "no range over a map in the function (slices and strings iterate in index order)")
		}
	}
	r.Stat("map_ranges_in_convert_tree", nranges)
}

// ---------------------------------------------------------------------------
// G3: options only subtract

// c17OptionRoles documents the role of each option field of the conversion context.
var c17OptionRoles = map[string]string{
	"noID":                   "id",
	"noMeta":                 "meta",
	"noRelationMembership":   "membership",
	"includeInvalidPolygons": "invalid",
}

// functions allowed to read includeInvalidPolygons (unexported anchors, DESIGN §5 C17.G3)
var c17InvalidPolygonFuncs = map[string]bool{"(*context).buildPolygon": true, "addToMultiPolygon": true}

const c17FeaturePath = "github.com/paulmach/orb/geojson.Feature"

type c17Opt struct {
	pk       *packages.Package
	info     *types.Info
	ctxNamed *types.Named
	optSig   types.Type
	fields   []*types.Var // option fields
	member   *types.Var   // relation membership map field
	skip     *types.Var   // skippable set field
}

func c17LoadOptions(r *core.R) *c17Opt {
	pk := r.P.Pkg(c17GeoPkg)
	if pk == nil {
		r.Anchor("package osmgeojson")
		return nil
	}
	o := &c17Opt{pk: pk, info: pk.TypesInfo}
	optObj := pk.Types.Scope().Lookup("Option")
	if optObj == nil {
		r.Anchor("osmgeojson.Option")
		return nil
	}
	sig, ok := optObj.Type().Underlying().(*types.Signature)
	if !ok || sig.Params().Len() != 1 {
		r.Anchor("osmgeojson.Option as func(*context) error")
		return nil
	}
	o.optSig = sig
	o.ctxNamed, _ = c17Deref(sig.Params().At(0).Type()).(*types.Named)
	if o.ctxNamed == nil {
		r.Anchor("conversion context type (parameter of Option)")
		return nil
	}
	st, ok := o.ctxNamed.Underlying().(*types.Struct)
	if !ok {
		r.Anchor("conversion context struct")
		return nil
	}
	for i := 0; i < st.NumFields(); i++ {
		f := st.Field(i)
		if mt, ok := f.Type().Underlying().(*types.Map); ok {
			switch {
			case namedPath(mt.Key()) == core.ModulePath+".FeatureID":
				o.member = f
			case namedPath(mt.Key()) == core.ModulePath+".WayID":
				if s, ok := mt.Elem().Underlying().(*types.Struct); ok && s.NumFields() == 0 {
					o.skip = f
				}
			}
		}
	}
	// option fields: the context fields assigned inside function literals of type Option
	seen := map[*types.Var]bool{}
	for _, f := range pk.Syntax {
		ast.Inspect(f, func(n ast.Node) bool {
			lit, ok := n.(*ast.FuncLit)
			if !ok || !types.Identical(o.info.TypeOf(lit), o.optSig) {
				return true
			}
			ast.Inspect(lit.Body, func(m ast.Node) bool {
				if as, ok := m.(*ast.AssignStmt); ok {
					for _, l := range as.Lhs {
						if fv := fieldOf(o.info, l); fv != nil && o.isCtxField(fv) && !seen[fv] {
							seen[fv] = true
							o.fields = append(o.fields, fv)
						}
					}
				}
				return true
			})
			return true
		})
	}
	sort.Slice(o.fields, func(i, j int) bool { return o.fields[i].Pos() < o.fields[j].Pos() })
	return o
}

func (o *c17Opt) isCtxField(f *types.Var) bool {
	st := o.ctxNamed.Underlying().(*types.Struct)
	for i := 0; i < st.NumFields(); i++ {
		if st.Field(i) == f {
			return true
		}
	}
	return false
}

// c17IsAssignLHS reports whether e is (part of the left-hand side chain of) an assignment target.
func c17IsAssignLHS(par map[ast.Node]ast.Node, e ast.Expr) bool {
	var n ast.Node = e
	for {
		p := par[n]
		switch x := p.(type) {
		case *ast.ParenExpr:
			n = p
			continue
		case *ast.AssignStmt:
			for _, l := range x.Lhs {
				if l == n {
					return true
				}
			}
			return false
		}
		return false
	}
}

// c17Conjuncts flattens a && chain.
func c17Conjuncts(e ast.Expr) []ast.Expr {
	e = ast.Unparen(e)
	if be, ok := e.(*ast.BinaryExpr); ok && be.Op == token.LAND {
		return append(c17Conjuncts(be.X), c17Conjuncts(be.Y)...)
	}
	return []ast.Expr{e}
}

// c17GuardOf locates the if statement whose condition has the read as a conjunct.
// polarity +1: the option itself is the conjunct; -1: its negation; 0: the read is not a conjunct of an if condition.
func c17GuardOf(par map[ast.Node]ast.Node, read ast.Expr) (ifs *ast.IfStmt, polarity int, others []ast.Expr) {
	var n ast.Node = read
	polarity = 1
	for {
		p := par[n]
		switch x := p.(type) {
		case *ast.ParenExpr:
			n = p
			continue
		case *ast.UnaryExpr:
			if x.Op == token.NOT {
				polarity = -polarity
				n = p
				continue
			}
			return nil, 0, nil
		}
		break
	}
	conj := n
	for {
		p := par[n]
		switch x := p.(type) {
		case *ast.ParenExpr:
			n = p
			continue
		case *ast.BinaryExpr:
			if x.Op == token.LAND {
				n = p
				continue
			}
			return nil, 0, nil
		case *ast.IfStmt:
			if x.Cond != n {
				return nil, 0, nil
			}
			for _, c := range c17Conjuncts(x.Cond) {
				if c != conj && ast.Unparen(c) != ast.Unparen(conj.(ast.Expr)) {
					others = append(others, c)
				}
			}
			return x, polarity, others
		}
		return nil, 0, nil
	}
}

// c17PropKey returns the constant property name of `X["name"]` where X is a map with string keys.
func c17PropKey(info *types.Info, e ast.Expr) (string, bool) {
	ix, ok := ast.Unparen(e).(*ast.IndexExpr)
	if !ok {
		return "", false
	}
	if _, isMap := info.TypeOf(ix.X).Underlying().(*types.Map); !isMap {
		return "", false
	}
	return constString(info, ix.Index)
}

// c17PureCall reports whether the call cannot write anything visible: builtins, conversions, methods of
// package time, and functions declared in package osm (their writes are decided by G1).
func c17PureCall(info *types.Info, call *ast.CallExpr) bool {
	if tv, ok := info.Types[call.Fun]; ok && tv.IsType() {
		return true
	}
	if b := builtinName(info, call); b != "" {
		return b == "len" || b == "cap" || b == "make" || b == "new" || b == "panic" || b == "append"
	}
	fn := callee(info, call)
	if fn == nil || fn.Pkg() == nil {
		return false
	}
	switch fn.Pkg().Path() {
	case "time", core.ModulePath, "fmt":
		return true
	}
	return false
}

// c17RegionEffects checks every assignment and call in the statements: allowed targets are locals declared
// inside scope, and whatever allow accepts. It returns the first disallowed effect.
func c17RegionEffects(fset *token.FileSet, info *types.Info, stmts []ast.Stmt, scope ast.Node, allow func(lhs ast.Expr, as *ast.AssignStmt, i int) bool) (bad string, unknown string) {
	tsAssign := map[ast.Node]bool{}
	for _, st := range stmts {
		ast.Inspect(st, func(n ast.Node) bool {
			if bad != "" {
				return false
			}
			switch x := n.(type) {
			case *ast.TypeSwitchStmt:
				tsAssign[x.Assign] = true // `v := x.(type)` binds a per-clause local
			case *ast.AssignStmt:
				if tsAssign[x] {
					return true
				}
				for i, l := range x.Lhs {
					l = ast.Unparen(l)
					if id, ok := l.(*ast.Ident); ok {
						if id.Name == "_" {
							continue
						}
						if o := objOf(info, id); c17IsLocalTo(o, scope) {
							continue
						}
					}
					if allow(l, x, i) {
						continue
					}
					if root := rootObj(info, l); root != nil {
						if _, isIdent := l.(*ast.Ident); !isIdent && c17IsLocalTo(root, scope) {
							if _, isMap := root.Type().Underlying().(*types.Map); isMap {
								continue // fills a map created inside the region
							}
						}
					}
					bad = fmt.Sprintf("`%s` (%s)", src(fset, x), fset.Position(x.Pos()).String()[strings.LastIndexByte(fset.Position(x.Pos()).String(), '/')+1:])
					return false
				}
			case *ast.IncDecStmt:
				if o := rootObj(info, x.X); !c17IsLocalTo(o, scope) {
					bad = fmt.Sprintf("`%s`", src(fset, x))
				}
			case *ast.CallExpr:
				if !c17PureCall(info, x) && unknown == "" {
					unknown = fmt.Sprintf("call `%s` whose effects are not known to the rule", src(fset, x))
				}
			case *ast.GoStmt, *ast.SendStmt, *ast.DeferStmt:
				bad = fmt.Sprintf("`%s`", src(fset, x))
			}
			return true
		})
	}
	return
}

type c17Read struct {
	fi   *FuncInfo
	expr ast.Expr
}

// c17FieldReads lists the read sites of a struct field in the package.
func c17FieldReads(p *core.Program, pk *packages.Package, f *types.Var) []c17Read {
	var out []c17Read
	for _, fi := range allFuncs(pk) {
		par := parentsOf(p, fi)
		ast.Inspect(fi.Decl.Body, func(n ast.Node) bool {
			sel, ok := n.(*ast.SelectorExpr)
			if !ok {
				return true
			}
			if s := pk.TypesInfo.Selections[sel]; s == nil || s.Obj() != f {
				return true
			}
			if c17IsAssignLHS(par, sel) {
				return true
			}
			out = append(out, c17Read{fi: fi, expr: sel})
			return true
		})
	}
	return out
}

// c17SkipBody reports whether the block only leaves: `continue`, or a return of nil/zero constants or of an
// unmodified parameter.
func c17SkipBody(info *types.Info, fi *FuncInfo, body *ast.BlockStmt) bool {
	if len(body.List) != 1 {
		return false
	}
	switch x := body.List[0].(type) {
	case *ast.BranchStmt:
		return x.Tok == token.CONTINUE
	case *ast.ReturnStmt:
		for _, res := range x.Results {
			if tv, ok := info.Types[res]; ok && (tv.IsNil() || tv.Value != nil) {
				continue
			}
			if o, ok := objOf(info, res).(*types.Var); ok && c17IsParam(fi, o) {
				continue
			}
			return false
		}
		return true
	}
	return false
}

func c17IsParam(fi *FuncInfo, o *types.Var) bool {
	sig := fi.Obj.Type().(*types.Signature)
	for i := 0; i < sig.Params().Len(); i++ {
		if sig.Params().At(i) == o {
			return true
		}
	}
	return false
}

func c17G3(r *core.R) {
	o := c17LoadOptions(r)
	if o == nil {
		return
	}
	pk, info, fset := o.pk, o.info, r.P.Fset
	if len(o.fields) == 0 {
		r.Anchor("option fields of the conversion context (assigned in Option closures)")
		return
	}
	if o.member == nil {
		r.Anchor("context field of type map[osm.FeatureID][]… (relation membership)")
		return
	}
	for want := range c17OptionRoles {
		found := false
		for _, f := range o.fields {
			if f.Name() == want {
				found = true
			}
		}
		if !found {
			r.Anchor("option field context." + want)
		}
	}
	// (a) writes: each option field is assigned once, in its own constructor, from the constructor's parameter
	for _, f := range o.fields {
		c := "write@" + f.Name()
		type site struct {
			as   *ast.AssignStmt
			fi   *FuncInfo
			lit  *ast.FuncLit
			rhs  ast.Expr
			nlhs int
		}
		var sites []site
		for _, fi := range allFuncs(pk) {
			par := parentsOf(r.P, fi)
			ast.Inspect(fi.Decl.Body, func(n ast.Node) bool {
				as, ok := n.(*ast.AssignStmt)
				if !ok {
					return true
				}
				for i, l := range as.Lhs {
					if fieldOf(info, l) == f {
						s := site{as: as, fi: fi, nlhs: len(as.Lhs)}
						if len(as.Rhs) == len(as.Lhs) {
							s.rhs = as.Rhs[i]
						}
						s.lit, _ = enclosing(par, as, func(x ast.Node) bool { _, ok := x.(*ast.FuncLit); return ok }).(*ast.FuncLit)
						sites = append(sites, s)
					}
				}
				return true
			})
		}
		// composite literals of the context must not set option fields either
		for _, fi := range allFuncs(pk) {
			ast.Inspect(fi.Decl.Body, func(n ast.Node) bool {
				cl, ok := n.(*ast.CompositeLit)
				if !ok || namedPath(info.TypeOf(cl)) != namedPath(o.ctxNamed) {
					return true
				}
				for _, e := range cl.Elts {
					if kv, ok := e.(*ast.KeyValueExpr); ok {
						if id, ok := kv.Key.(*ast.Ident); ok && info.Uses[id] == f {
							sites = append(sites, site{fi: fi})
						}
					} else {
						sites = append(sites, site{fi: fi}) // positional literal sets every field
					}
				}
				return true
			})
		}
		switch {
		case len(sites) != 1:
			pos := f.Pos()
			r.Bad(c, pos, "option field %s is written at %d sites; it must be set only by its own Option constructor, otherwise another option (or the conversion itself) changes what this option documents", f.Name(), len(sites))
		default:
			s := sites[0]
			okCtor := s.lit != nil && types.Identical(info.TypeOf(s.lit), o.optSig) && s.fi.Decl.Recv == nil && s.fi.Obj.Exported()
			var prm *types.Var
			if s.rhs != nil {
				prm, _ = objOf(info, s.rhs).(*types.Var)
			}
			nOther := 0
			if s.lit != nil {
				ast.Inspect(s.lit.Body, func(n ast.Node) bool {
					if as, ok := n.(*ast.AssignStmt); ok {
						for _, l := range as.Lhs {
							if fv := fieldOf(info, l); fv != nil && fv != f && o.isCtxField(fv) {
								nOther++
							}
						}
					}
					return true
				})
			}
			switch {
			case !okCtor:
				r.Bad(c, s.as.Pos(), "option field %s is assigned in %s outside an exported Option constructor's closure", f.Name(), s.fi.Name())
			case prm == nil || !c17IsParam(s.fi, prm):
				r.Bad(c, s.as.Pos(), "`%s`: the option field is not set from the constructor's parameter", src(fset, s.as))
			case nOther > 0:
				r.Bad(c, s.as.Pos(), "the closure of %s also assigns %d other context field(s): the option changes more than it documents", s.fi.Name(), nOther)
			default:
				r.OK(c, s.as.Pos(), "only write site: `%s` in the closure returned by %s(%s), which assigns no other context field", src(fset, s.as), s.fi.Name(), prm.Name())
			}
		}
	}

	// the bookkeeping region guarded by noRelationMembership (needed to classify membership-map reads)
	var bookkeeping *ast.RangeStmt
	var propGuards []*ast.IfStmt // `if !noRelationMembership {…}` statements

	// (b) reads
	for _, f := range o.fields {
		role, ok := c17OptionRoles[f.Name()]
		reads := c17FieldReads(r.P, pk, f)
		if !ok {
			r.Unknown("read@"+f.Name(), f.Pos(), "option field %s has no documented role in the rule table (noID, noMeta, noRelationMembership, includeInvalidPolygons): extend the table together with the documentation", f.Name())
			continue
		}
		if len(reads) == 0 {
			r.Bad("read@"+f.Name(), f.Pos(), "option field %s is never read: the option does nothing", f.Name())
			continue
		}
		for _, rd := range reads {
			par := parentsOf(r.P, rd.fi)
			c := "read@" + rd.fi.Name() + " " + f.Name()
			ifs, pol, others := c17GuardOf(par, rd.expr)
			switch role {
			case "id":
				switch {
				case ifs == nil || pol != -1 || len(others) != 0:
					r.Bad(c, rd.expr.Pos(), "%s is read outside the form `if !%s { f.ID = … }`: an option that omits the feature id may only guard the assignment of Feature.ID", f.Name(), src(fset, rd.expr))
				case ifs.Else != nil || ifs.Init != nil:
					r.Bad(c, rd.expr.Pos(), "`if !%s` has an else/init part: with the option set something is done that is not done otherwise", src(fset, rd.expr))
				default:
					badStmt := ""
					for _, st := range ifs.Body.List {
						as, ok := st.(*ast.AssignStmt)
						okID := ok
						if ok {
							for _, l := range as.Lhs {
								fv := fieldOf(info, l)
								if fv == nil || fv.Name() != "ID" || namedPath(info.TypeOf(ast.Unparen(l).(*ast.SelectorExpr).X)) != c17FeaturePath {
									okID = false
								}
							}
						}
						if !okID && badStmt == "" {
							badStmt = src(fset, st)
						}
					}
					if badStmt != "" {
						r.Bad(c, rd.expr.Pos(), "`if !%s` also guards `%s`: NoID must change nothing but the feature id", src(fset, rd.expr), badStmt)
					} else {
						r.OK(c, rd.expr.Pos(), "`if !%s` guards only assignments to geojson.Feature.ID (%d statement(s)), no else", src(fset, rd.expr), len(ifs.Body.List))
					}
				}
			case "meta":
				blk, _ := par[ifs].(*ast.BlockStmt)
				switch {
				case ifs == nil || pol != 1 || len(others) != 0:
					r.Bad(c, rd.expr.Pos(), "%s is read outside the form `if %s { return }` placed before the meta object is built: NoMeta may only suppress the meta property", f.Name(), src(fset, rd.expr))
				case ifs.Else != nil || ifs.Init != nil || len(ifs.Body.List) != 1 || blk != rd.fi.Decl.Body:
					r.Bad(c, rd.expr.Pos(), "the %s guard is not a plain top-level `if %s { return }`", f.Name(), src(fset, rd.expr))
				default:
					ret, isRet := ifs.Body.List[0].(*ast.ReturnStmt)
					if !isRet || len(ret.Results) != 0 {
						r.Bad(c, rd.expr.Pos(), "the %s guard does not simply return", f.Name())
						break
					}
					var before, after []ast.Stmt
					for i, st := range blk.List {
						if st == ifs {
							before, after = blk.List[:i], blk.List[i+1:]
						}
					}
					nMeta := 0
					var metaObj types.Object
					allow := func(l ast.Expr, as *ast.AssignStmt, i int) bool {
						if k, ok := c17PropKey(info, l); ok && k == "meta" {
							if ro := rootObj(info, l); ro != nil {
								if v, ok := ro.(*types.Var); ok && c17IsParam(rd.fi, v) && len(as.Rhs) == len(as.Lhs) {
									if mo := objOf(info, as.Rhs[i]); mo != nil && c17IsLocalTo(mo, ifsAfterScope(after)) {
										nMeta++
										metaObj = mo
										return true
									}
								}
							}
						}
						return false
					}
					bad, unknown := c17RegionEffects(fset, info, after, ifsAfterScope(after), allow)
					metaBefore := false
					for _, st := range before {
						ast.Inspect(st, func(n ast.Node) bool {
							if as, ok := n.(*ast.AssignStmt); ok {
								for _, l := range as.Lhs {
									if k, ok := c17PropKey(info, l); ok && k == "meta" {
										metaBefore = true
									}
								}
							}
							return true
						})
					}
					switch {
					case bad != "":
						r.Bad(c, rd.expr.Pos(), "`if %s { return }` also skips %s: with NoMeta set more than the meta property is removed from the feature", src(fset, rd.expr), bad)
					case unknown != "":
						r.Unknown(c, rd.expr.Pos(), "`if %s { return }` skips a %s", src(fset, rd.expr), unknown)
					case nMeta != 1:
						r.Bad(c, rd.expr.Pos(), "the statements after the %s guard store the meta object into the properties %d times (expected once)", f.Name(), nMeta)
					case metaBefore:
						r.Bad(c, rd.expr.Pos(), "the meta property is also assigned before the %s guard: NoMeta does not remove it", f.Name())
					default:
						r.OK(c, rd.expr.Pos(), "`if %s { return }` skips only the construction of local %s and the single `props[\"meta\"] = %s` (%d statement(s) after the guard)", src(fset, rd.expr), metaObj.Name(), metaObj.Name(), len(after))
					}
				}
			case "membership":
				switch {
				case ifs != nil && pol == -1 && len(others) == 0:
					// property guard
					if ifs.Else != nil || ifs.Init != nil {
						r.Bad(c, rd.expr.Pos(), "`if !%s` has an else/init part", src(fset, rd.expr))
						break
					}
					n := 0
					allow := func(l ast.Expr, as *ast.AssignStmt, i int) bool {
						if k, ok := c17PropKey(info, l); ok && k == "relations" {
							n++
							return true
						}
						return false
					}
					bad, unknown := c17RegionEffects(fset, info, ifs.Body.List, ifs.Body, allow)
					switch {
					case bad != "":
						r.Bad(c, rd.expr.Pos(), "`if !%s` also guards %s: NoRelationMembership must remove nothing but the relations property", src(fset, rd.expr), bad)
					case unknown != "":
						r.Unknown(c, rd.expr.Pos(), "`if !%s` guards a %s", src(fset, rd.expr), unknown)
					case n == 0:
						r.Bad(c, rd.expr.Pos(), "`if !%s` does not assign the relations property", src(fset, rd.expr))
					default:
						propGuards = append(propGuards, ifs)
						r.OK(c, rd.expr.Pos(), "`if !%s` guards only locals and %d assignment(s) of the `relations` property", src(fset, rd.expr), n)
					}
				case ifs != nil && pol == 1 && len(others) == 1:
					// bookkeeping guard: if opt && m.Type != osm.TypeNode { continue }
					loop, _ := enclosing(par, ifs, func(n ast.Node) bool { _, ok := n.(*ast.RangeStmt); return ok }).(*ast.RangeStmt)
					bookkeeping = loop
					okOther := false
					if be, ok := ast.Unparen(others[0]).(*ast.BinaryExpr); ok && be.Op == token.NEQ && loop != nil && loop.Value != nil {
						tf := fieldOf(info, be.X)
						cobj := objOf(info, ast.Unparen(be.Y))
						if sel, ok := ast.Unparen(be.Y).(*ast.SelectorExpr); ok {
							cobj = info.Uses[sel.Sel]
						}
						if tf != nil && tf.Name() == "Type" && rootObj(info, be.X) == objOf(info, loop.Value) &&
							namedPath(info.TypeOf(loop.Value)) == core.ModulePath+".Member" &&
							cobj != nil && cobj.Pkg() != nil && cobj.Pkg().Path() == core.ModulePath && cobj.Name() == "TypeNode" {
							okOther = true
						}
					}
					switch {
					case loop == nil || par[ifs] != loop.Body:
						r.Bad(c, rd.expr.Pos(), "the %s bookkeeping guard is not a top-level statement of a loop over relation members", f.Name())
					case !okOther:
						r.Bad(c, rd.expr.Pos(), "`%s`: the second conjunct must be `<member>.Type != osm.TypeNode`; node memberships decide which nodes become features and must be recorded whatever the option says", src(fset, ifs.Cond))
					case ifs.Else != nil || !c17SkipBody(info, rd.fi, ifs.Body) || len(ifs.Body.List) != 1:
						r.Bad(c, rd.expr.Pos(), "the %s bookkeeping guard does more than `continue`", f.Name())
					default:
						if _, isCont := ifs.Body.List[0].(*ast.BranchStmt); !isCont {
							r.Bad(c, rd.expr.Pos(), "the %s bookkeeping guard leaves the function instead of skipping the member", f.Name())
							break
						}
						var after []ast.Stmt
						for i, st := range loop.Body.List {
							if st == ifs {
								after = loop.Body.List[i+1:]
							}
						}
						outer := ast.Node(loop)
						if ol := enclosing(par, loop, func(n ast.Node) bool {
							switch n.(type) {
							case *ast.RangeStmt, *ast.ForStmt:
								return true
							}
							return false
						}); ol != nil {
							outer = ol
						}
						allow := func(l ast.Expr, as *ast.AssignStmt, i int) bool {
							if ix, ok := l.(*ast.IndexExpr); ok && fieldOf(info, ix.X) == o.member {
								return true
							}
							return false
						}
						bad, unknown := c17RegionEffects(fset, info, after, outer, allow)
						switch {
						case bad != "":
							r.Bad(c, rd.expr.Pos(), "with the option set the member loop also skips %s, which is not membership bookkeeping", bad)
						case unknown != "":
							r.Unknown(c, rd.expr.Pos(), "with the option set the member loop skips a %s", unknown)
						default:
							r.OK(c, rd.expr.Pos(), "`%s { continue }` skips only updates of the membership map %s and loop-local state, for non-node members", src(fset, ifs.Cond), o.member.Name())
						}
					}
				default:
					r.Bad(c, rd.expr.Pos(), "%s is read outside its two documented roles (`if !opt { props[\"relations\"] = … }` and `if opt && m.Type != osm.TypeNode { continue }` in the membership bookkeeping)", f.Name())
				}
			case "invalid":
				c17InvalidRead(r, o, rd, c, f.Name())
			}
		}
	}

	// (c) every assignment of Feature.ID sits under a !noID guard
	var idField *types.Var
	for _, f := range o.fields {
		if c17OptionRoles[f.Name()] == "id" {
			idField = f
		}
	}
	nID := 0
	for _, fi := range allFuncs(pk) {
		par := parentsOf(r.P, fi)
		ast.Inspect(fi.Decl.Body, func(n ast.Node) bool {
			as, ok := n.(*ast.AssignStmt)
			if !ok {
				return true
			}
			for _, l := range as.Lhs {
				fv := fieldOf(info, l)
				if fv == nil || fv.Name() != "ID" || namedPath(info.TypeOf(ast.Unparen(l).(*ast.SelectorExpr).X)) != c17FeaturePath {
					continue
				}
				nID++
				c := "idassign@" + fi.Name()
				ifs, _ := enclosing(par, as, func(x ast.Node) bool { _, ok := x.(*ast.IfStmt); return ok }).(*ast.IfStmt)
				okG := false
				if ifs != nil && idField != nil && par[as] == ifs.Body {
					if ue, ok := ast.Unparen(ifs.Cond).(*ast.UnaryExpr); ok && ue.Op == token.NOT && fieldOf(info, ue.X) == idField {
						okG = true
					}
				}
				if okG {
					r.OK(c, as.Pos(), "`%s` is guarded by `if %s`", src(fset, as), src(fset, ifs.Cond))
				} else {
					r.Bad(c, as.Pos(), "`%s` is not guarded by `if !ctx.noID`: NoID(true) would not omit this feature id", src(fset, as))
				}
			}
			return true
		})
	}
	if nID == 0 {
		r.Anchor("assignments to geojson.Feature.ID in osmgeojson")
	}

	// (d) the entries skipped by the bookkeeping guard (non-node members) are read nowhere but under the property guard
	for _, rd := range c17FieldReads(r.P, pk, o.member) {
		if bookkeeping != nil && rd.expr.Pos() >= bookkeeping.Pos() && rd.expr.End() <= bookkeeping.End() {
			continue // the bookkeeping itself
		}
		par := parentsOf(r.P, rd.fi)
		// an update of the map from itself (`M[k] = append(M[k], …)`) is bookkeeping, not a use
		if as, ok := enclosing(par, rd.expr, func(n ast.Node) bool { _, ok := n.(*ast.AssignStmt); return ok }).(*ast.AssignStmt); ok {
			self := false
			for _, l := range as.Lhs {
				if ix, ok := ast.Unparen(l).(*ast.IndexExpr); ok && fieldOf(info, ix.X) == o.member {
					self = true
				}
			}
			if self {
				continue
			}
		}
		c := "memberread@" + rd.fi.Name() + " " + src(fset, rd.expr)
		if ix, ok := par[rd.expr].(*ast.IndexExpr); ok {
			c = "memberread@" + rd.fi.Name() + " " + src(fset, ix)
		}
		underGuard := false
		for _, g := range propGuards {
			if rd.expr.Pos() >= g.Body.Pos() && rd.expr.End() <= g.Body.End() {
				underGuard = true
			}
		}
		if underGuard {
			r.OK(c, rd.expr.Pos(), "read inside the `if !noRelationMembership` property guard: unreachable when the option is set")
			continue
		}
		ix, _ := par[rd.expr].(*ast.IndexExpr)
		nodeKey := false
		if ix != nil && ix.X == rd.expr {
			if call, ok := ast.Unparen(ix.Index).(*ast.CallExpr); ok {
				if sel, ok := ast.Unparen(call.Fun).(*ast.SelectorExpr); ok && sel.Sel.Name == "FeatureID" {
					tp := namedPath(info.TypeOf(sel.X))
					nodeKey = tp == core.ModulePath+".Node" || tp == core.ModulePath+".NodeID"
				}
			}
		}
		if nodeKey {
			r.OK(c, rd.expr.Pos(), "read keyed by a node's FeatureID(): node memberships are recorded whatever the option says")
		} else {
			r.Bad(c, rd.expr.Pos(), "`%s` in `%s` reads the membership map outside the `if !noRelationMembership` guard with a key that is not a node's feature id; entries of way/relation members are not recorded when NoRelationMembership is set, so the option would change this result", src(fset, rd.expr), src(fset, par[rd.expr]))
		}
	}
}

// ifsAfterScope returns a node spanning the statements (for locality tests).
func ifsAfterScope(stmts []ast.Stmt) ast.Node {
	if len(stmts) == 0 {
		return &ast.BlockStmt{}
	}
	return &ast.BlockStmt{Lbrace: stmts[0].Pos(), List: stmts, Rbrace: stmts[len(stmts)-1].End()}
}

// c17InvalidRead classifies one read of includeInvalidPolygons (or of a parameter it is passed as).
func c17InvalidRead(r *core.R, o *c17Opt, rd c17Read, c string, name string) {
	info, fset := o.info, r.P.Fset
	par := parentsOf(r.P, rd.fi)
	if !c17InvalidPolygonFuncs[rd.fi.Name()] {
		r.Bad(c, rd.expr.Pos(), "%s is read in %s; it is documented for multipolygon relations only and may be read only in buildPolygon/addToMultiPolygon", name, rd.fi.Name())
		return
	}
	if ifs, pol, _ := c17GuardOf(par, rd.expr); ifs != nil {
		switch {
		case pol != -1:
			r.Bad(c, rd.expr.Pos(), "`%s`: the option enables the branch; it may only disable a skip (`… && !%s { return nil / continue }`)", src(fset, ifs.Cond), src(fset, rd.expr))
		case !c17SkipBody(info, rd.fi, ifs.Body):
			r.Bad(c, rd.expr.Pos(), "`if %s` does more than skip (return nil / return the unchanged argument / continue)", src(fset, ifs.Cond))
		default:
			r.OK(c, rd.expr.Pos(), "`if %s` only skips: `%s`; setting the option removes the skip and nothing else", src(fset, ifs.Cond), src(fset, ifs.Body.List[0]))
		}
		return
	}
	// argument of a call to a function of the package
	if call, ok := par[rd.expr].(*ast.CallExpr); ok {
		fn := callee(info, call)
		idx := -1
		for i, a := range call.Args {
			if a == rd.expr {
				idx = i
			}
		}
		var target *FuncInfo
		if fn != nil && fn.Pkg() == o.pk.Types {
			for _, fi := range allFuncs(o.pk) {
				if fi.Obj == fn {
					target = fi
				}
			}
		}
		if target == nil || idx < 0 || idx >= target.Obj.Type().(*types.Signature).Params().Len() {
			r.Bad(c, rd.expr.Pos(), "%s is handed to `%s`, which is not a function of the package", name, src(fset, call.Fun))
			return
		}
		prm := target.Obj.Type().(*types.Signature).Params().At(idx)
		r.OK(c, rd.expr.Pos(), "passed as parameter %s of %s (its reads are classified separately)", prm.Name(), target.Name())
		n := 0
		ast.Inspect(target.Decl.Body, func(x ast.Node) bool {
			id, ok := x.(*ast.Ident)
			if !ok || info.Uses[id] != prm {
				return true
			}
			n++
			c17InvalidRead(r, o, c17Read{fi: target, expr: id}, "read@"+target.Name()+" "+name+"(param "+prm.Name()+")", name)
			return true
		})
		if n == 0 {
			r.Bad("read@"+target.Name()+" "+name+"(param "+prm.Name()+")", target.Decl.Pos(), "parameter %s is never read", prm.Name())
		}
		return
	}
	r.Bad(c, rd.expr.Pos(), "%s is read in `%s`, outside the forms `… && !opt { skip }` and argument-of-package-function", name, src(fset, par[rd.expr]))
}

// ---------------------------------------------------------------------------
// G4: sibling consistency of the meta cases

// c17SameNode compares two syntax trees up to the element type: identifiers must denote the same object,
// or both the implicit case variable, or fields of the same name and type; literals must be equal.
func c17SameNode(info *types.Info, a, b ast.Node, va, vb types.Object) bool {
	if a == nil || b == nil {
		return a == nil && b == nil
	}
	switch x := a.(type) {
	case *ast.Ident:
		y, ok := b.(*ast.Ident)
		if !ok {
			return false
		}
		oa, ob := info.Uses[x], info.Uses[y]
		if oa == nil {
			oa = info.Defs[x]
		}
		if ob == nil {
			ob = info.Defs[y]
		}
		if oa == va || ob == vb {
			return oa == va && ob == vb
		}
		return oa == ob && x.Name == y.Name
	case *ast.SelectorExpr:
		y, ok := b.(*ast.SelectorExpr)
		if !ok || x.Sel.Name != y.Sel.Name {
			return false
		}
		sa, sb := info.Selections[x], info.Selections[y]
		if (sa == nil) != (sb == nil) {
			return false
		}
		if sa != nil {
			if sa.Kind() != sb.Kind() || !types.Identical(sa.Type(), sb.Type()) {
				return false
			}
		} else if info.Uses[x.Sel] != info.Uses[y.Sel] {
			return false
		}
		return c17SameNode(info, x.X, y.X, va, vb)
	case *ast.BasicLit:
		y, ok := b.(*ast.BasicLit)
		return ok && x.Kind == y.Kind && x.Value == y.Value
	case *ast.ParenExpr:
		y, ok := b.(*ast.ParenExpr)
		return ok && c17SameNode(info, x.X, y.X, va, vb)
	case *ast.UnaryExpr:
		y, ok := b.(*ast.UnaryExpr)
		return ok && x.Op == y.Op && c17SameNode(info, x.X, y.X, va, vb)
	case *ast.BinaryExpr:
		y, ok := b.(*ast.BinaryExpr)
		return ok && x.Op == y.Op && c17SameNode(info, x.X, y.X, va, vb) && c17SameNode(info, x.Y, y.Y, va, vb)
	case *ast.CallExpr:
		y, ok := b.(*ast.CallExpr)
		if !ok || len(x.Args) != len(y.Args) || x.Ellipsis.IsValid() != y.Ellipsis.IsValid() || !c17SameNode(info, x.Fun, y.Fun, va, vb) {
			return false
		}
		for i := range x.Args {
			if !c17SameNode(info, x.Args[i], y.Args[i], va, vb) {
				return false
			}
		}
		return true
	case *ast.IndexExpr:
		y, ok := b.(*ast.IndexExpr)
		return ok && c17SameNode(info, x.X, y.X, va, vb) && c17SameNode(info, x.Index, y.Index, va, vb)
	case *ast.StarExpr:
		y, ok := b.(*ast.StarExpr)
		return ok && c17SameNode(info, x.X, y.X, va, vb)
	case *ast.ExprStmt:
		y, ok := b.(*ast.ExprStmt)
		return ok && c17SameNode(info, x.X, y.X, va, vb)
	case *ast.IncDecStmt:
		y, ok := b.(*ast.IncDecStmt)
		return ok && x.Tok == y.Tok && c17SameNode(info, x.X, y.X, va, vb)
	case *ast.AssignStmt:
		y, ok := b.(*ast.AssignStmt)
		if !ok || x.Tok != y.Tok || len(x.Lhs) != len(y.Lhs) || len(x.Rhs) != len(y.Rhs) {
			return false
		}
		for i := range x.Lhs {
			if !c17SameNode(info, x.Lhs[i], y.Lhs[i], va, vb) {
				return false
			}
		}
		for i := range x.Rhs {
			if !c17SameNode(info, x.Rhs[i], y.Rhs[i], va, vb) {
				return false
			}
		}
		return true
	case *ast.ReturnStmt:
		y, ok := b.(*ast.ReturnStmt)
		if !ok || len(x.Results) != len(y.Results) {
			return false
		}
		for i := range x.Results {
			if !c17SameNode(info, x.Results[i], y.Results[i], va, vb) {
				return false
			}
		}
		return true
	case *ast.BranchStmt:
		y, ok := b.(*ast.BranchStmt)
		return ok && x.Tok == y.Tok
	case *ast.BlockStmt:
		y, ok := b.(*ast.BlockStmt)
		if !ok || len(x.List) != len(y.List) {
			return false
		}
		for i := range x.List {
			if !c17SameNode(info, x.List[i], y.List[i], va, vb) {
				return false
			}
		}
		return true
	case *ast.IfStmt:
		y, ok := b.(*ast.IfStmt)
		if !ok || (x.Init == nil) != (y.Init == nil) || (x.Else == nil) != (y.Else == nil) {
			return false
		}
		if x.Init != nil && !c17SameNode(info, x.Init, y.Init, va, vb) {
			return false
		}
		if x.Else != nil && !c17SameNode(info, x.Else, y.Else, va, vb) {
			return false
		}
		return c17SameNode(info, x.Cond, y.Cond, va, vb) && c17SameNode(info, x.Body, y.Body, va, vb)
	}
	return false // statement kinds outside the enumerated ones never compare equal
}

func c17G4(r *core.R) {
	pk := r.P.Pkg(c17GeoPkg)
	if pk == nil {
		r.Anchor("package osmgeojson")
		return
	}
	info, fset := pk.TypesInfo, r.P.Fset
	want := []string{core.ModulePath + ".Node", core.ModulePath + ".Way", core.ModulePath + ".Relation"}
	nsw := 0
	for _, fi := range allFuncs(pk) {
		ast.Inspect(fi.Decl.Body, func(n ast.Node) bool {
			ts, ok := n.(*ast.TypeSwitchStmt)
			if !ok {
				return true
			}
			// the switched value must be an osm.Element
			var x ast.Expr
			switch a := ts.Assign.(type) {
			case *ast.AssignStmt:
				if len(a.Rhs) == 1 {
					if ta, ok := a.Rhs[0].(*ast.TypeAssertExpr); ok {
						x = ta.X
					}
				}
			case *ast.ExprStmt:
				if ta, ok := a.X.(*ast.TypeAssertExpr); ok {
					x = ta.X
				}
			}
			if x == nil || namedPath(info.TypeOf(x)) != core.ModulePath+".Element" {
				return true
			}
			cases := map[string]*ast.CaseClause{}
			for _, s := range ts.Body.List {
				cc := s.(*ast.CaseClause)
				if len(cc.List) == 1 {
					if pt, ok := info.TypeOf(cc.List[0]).(*types.Pointer); ok {
						cases[namedPath(pt.Elem())] = cc
					}
				}
			}
			if cases[want[0]] == nil {
				return true
			}
			nsw++
			ref := cases[want[0]]
			refVar := info.Implicits[ref]
			// the reference case: which properties it writes
			var keys []string
			ast.Inspect(ref, func(m ast.Node) bool {
				if as, ok := m.(*ast.AssignStmt); ok {
					for _, l := range as.Lhs {
						if k, ok := c17PropKey(info, l); ok {
							keys = append(keys, k)
						}
					}
				}
				return true
			})
			cname := "metacase@" + fi.Name()
			if len(ref.Body) == 0 || len(keys) == 0 {
				r.Bad(cname+" *osm.Node", ref.Pos(), "the node case writes no meta entries")
			} else {
				r.OK(cname+" *osm.Node", ref.Pos(), "reference case: %d statement(s) writing {%s}", len(ref.Body), strings.Join(keys, ", "))
			}
			for _, w := range want[1:] {
				short := "*osm." + w[strings.LastIndexByte(w, '.')+1:]
				cc := cases[w]
				if cc == nil {
					r.Bad(cname+" "+short, ts.Pos(), "the type switch over osm.Element has no case %s: its meta data would be dropped (or the conversion would panic)", short)
					continue
				}
				v := info.Implicits[cc]
				diff := ""
				var dpos token.Pos
				for i := 0; i < len(ref.Body) || i < len(cc.Body); i++ {
					switch {
					case i >= len(cc.Body):
						diff = fmt.Sprintf("statement %d of the node case, `%s`, has no counterpart", i+1, src(fset, ref.Body[i]))
						dpos = cc.Pos()
					case i >= len(ref.Body):
						diff = fmt.Sprintf("extra statement `%s`", src(fset, cc.Body[i]))
						dpos = cc.Body[i].Pos()
					case !c17SameNode(info, ref.Body[i], cc.Body[i], refVar, v):
						diff = fmt.Sprintf("statement %d is `%s` where the node case has `%s`", i+1, src(fset, cc.Body[i]), src(fset, ref.Body[i]))
						dpos = cc.Body[i].Pos()
					}
					if diff != "" {
						break
					}
				}
				if diff != "" {
					r.Bad(cname+" "+short, dpos, "case %s differs from case *osm.Node: %s; the meta object of a feature must not depend on the element type", short, diff)
				} else {
					r.OK(cname+" "+short, cc.Pos(), "case %s is identical to case *osm.Node up to the element type (%d statement(s), fields matched by name and type)", short, len(cc.Body))
				}
			}
			return true
		})
	}
	if nsw == 0 {
		r.Anchor("type switch over osm.Element with cases *osm.Node/*osm.Way/*osm.Relation in osmgeojson")
	}
}

// ---------------------------------------------------------------------------
// G5: one feature per element

func c17G5(r *core.R) {
	o := c17LoadOptions(r)
	if o == nil {
		return
	}
	pk, info, fset := o.pk, o.info, r.P.Fset
	fi := findFunc(pk, "Convert")
	if fi == nil {
		r.Anchor("osmgeojson.Convert")
		return
	}
	if o.skip == nil {
		r.Anchor("context field of type map[osm.WayID]struct{} (skippable ways)")
		return
	}
	// the feature list: the variable stored into FeatureCollection.Features
	var features types.Object
	ast.Inspect(fi.Decl.Body, func(n ast.Node) bool {
		if as, ok := n.(*ast.AssignStmt); ok && len(as.Lhs) == 1 && len(as.Rhs) == 1 {
			if f := fieldOf(info, as.Lhs[0]); f != nil && f.Name() == "Features" && strings.HasSuffix(namedPath(info.TypeOf(ast.Unparen(as.Lhs[0]).(*ast.SelectorExpr).X)), "geojson.FeatureCollection") {
				features = objOf(info, as.Rhs[0])
			}
		}
		return true
	})
	if features == nil {
		r.Anchor("`fc.Features = <variable>` in Convert")
		return
	}
	par := parentsOf(r.P, fi)
	g := newCFG(info, fi.Decl.Body)
	dom := dominators(g)
	// appends to the feature list
	type app struct {
		as    *ast.AssignStmt
		count int // elements appended; -1 = unbounded
		loop  *ast.RangeStmt
	}
	var apps []app
	bad := false
	ast.Inspect(fi.Decl.Body, func(n ast.Node) bool {
		as, ok := n.(*ast.AssignStmt)
		if !ok {
			return true
		}
		for i, l := range as.Lhs {
			if objOf(info, l) != features || as.Tok == token.DEFINE {
				continue
			}
			var rhs ast.Expr
			if len(as.Rhs) == len(as.Lhs) {
				rhs = as.Rhs[i]
			}
			call, ok := rhs.(*ast.CallExpr)
			if !ok || builtinName(info, call) != "append" || len(call.Args) == 0 || objOf(info, call.Args[0]) != features {
				r.Bad("featurelist@Convert", as.Pos(), "`%s`: the feature list is reassigned by something other than `%s = append(%s, f)`; features could be dropped or duplicated", src(fset, as), features.Name(), features.Name())
				bad = true
				continue
			}
			a := app{as: as, count: len(call.Args) - 1}
			if call.Ellipsis.IsValid() {
				a.count = -1
			}
			// outermost enclosing loop
			for p := par[ast.Node(as)]; p != nil; p = par[p] {
				switch l := p.(type) {
				case *ast.RangeStmt:
					a.loop = l
				case *ast.ForStmt:
					a.loop = nil
					r.Bad("featurelist@Convert", as.Pos(), "`%s` sits in a for loop that is not a range over input elements", src(fset, as))
					bad = true
				}
			}
			apps = append(apps, a)
		}
		return true
	})
	_ = bad
	// element loops: outermost range loops over osm.Relations / osm.Ways / osm.Nodes containing an append
	kinds := map[string]string{core.ModulePath + ".Relations": "relations", core.ModulePath + ".Ways": "ways", core.ModulePath + ".Nodes": "nodes"}
	loops := map[string]*ast.RangeStmt{}
	for _, a := range apps {
		if a.loop == nil {
			r.Bad("featurelist@Convert", a.as.Pos(), "`%s` is outside any loop over input elements: a feature without an element", src(fset, a.as))
			continue
		}
		k := kinds[namedPath(info.TypeOf(a.loop.X))]
		if k == "" {
			r.Bad("featurelist@Convert", a.as.Pos(), "`%s` is inside a loop over %s, which is not the input's Relations, Ways or Nodes", src(fset, a.as), src(fset, a.loop.X))
			continue
		}
		if prev, ok := loops[k]; ok && prev != a.loop {
			r.Bad("loop@Convert "+k, a.loop.Pos(), "two loops over the input %s append features: an element can yield two features", k)
			continue
		}
		loops[k] = a.loop
	}
	for _, k := range []string{"relations", "ways", "nodes"} {
		loop := loops[k]
		c := "loop@Convert " + k
		if loop == nil {
			r.Bad(c, fi.Decl.Pos(), "no loop over the input %s appends to the feature list", k)
			continue
		}
		var head *cfg.Block
		for _, b := range g.Blocks {
			if b.Kind == cfg.KindRangeLoop && b.Stmt == loop {
				head = b
			}
		}
		if head == nil {
			r.Unknown(c, loop.Pos(), "range loop not found in the control-flow graph")
			continue
		}
		// weight of a block = features appended in it
		weight := map[*cfg.Block]int{}
		unbounded := false
		for _, a := range apps {
			if a.loop != loop {
				continue
			}
			b, _ := blockOf(g, a.as.Pos())
			if b == nil {
				unbounded = true
				continue
			}
			if a.count < 0 {
				unbounded = true
			}
			weight[b] += a.count
			// an inner loop around the append makes the count unbounded
			for p := par[ast.Node(a.as)]; p != nil && p != ast.Node(loop); p = par[p] {
				switch p.(type) {
				case *ast.RangeStmt, *ast.ForStmt:
					unbounded = true
				}
			}
		}
		if unbounded {
			r.Bad(c, loop.Pos(), "the %s loop appends an unbounded number of features per element (append inside an inner loop or with a spread argument)", k)
			continue
		}
		// longest path from the loop head through the body back to the head
		var body *cfg.Block
		for _, s := range head.Succs {
			if s.Kind == cfg.KindRangeBody && s.Stmt == loop {
				body = s
			}
		}
		if body == nil && len(head.Succs) > 0 {
			body = head.Succs[0]
		}
		memo := map[*cfg.Block]int{}
		state := map[*cfg.Block]int{}
		paths := 0
		var longest func(b *cfg.Block) int
		longest = func(b *cfg.Block) int {
			if b == head {
				paths++
				return 0
			}
			if state[b] == 2 {
				return memo[b]
			}
			if state[b] == 1 {
				return 0 // inner cycle: carries no append (checked above)
			}
			state[b] = 1
			best := 0
			for _, s := range b.Succs {
				if v := longest(s); v > best {
					best = v
				}
			}
			state[b] = 2
			memo[b] = best + weight[b]
			return memo[b]
		}
		max := 0
		if body != nil {
			max = longest(body)
		}
		nblocks := len(memo)
		if max > 1 {
			r.Bad(c, loop.Pos(), "some path through one iteration of the %s loop appends %d features: an element must yield at most one feature", k, max)
			continue
		}
		r.OK(c, loop.Pos(), "every path through one iteration (%d block(s)) appends at most %d feature to %s", nblocks, max, features.Name())
		r.Stat("loop_body_blocks", nblocks)

		if k == "ways" {
			// the skippable guard: if _, skip := ctx.skippable[way.ID]; skip { continue } dominating the append
			cs := "skippable@Convert ways"
			var guard *ast.IfStmt
			for _, st := range loop.Body.List {
				ifs, ok := st.(*ast.IfStmt)
				if !ok || ifs.Init == nil {
					continue
				}
				as, ok := ifs.Init.(*ast.AssignStmt)
				if !ok || len(as.Lhs) != 2 || len(as.Rhs) != 1 {
					continue
				}
				ix, ok := ast.Unparen(as.Rhs[0]).(*ast.IndexExpr)
				if !ok || fieldOf(info, ix.X) != o.skip {
					continue
				}
				kf := fieldOf(info, ix.Index)
				if kf == nil || kf.Name() != "ID" || loop.Value == nil || rootObj(info, ix.Index) != objOf(info, loop.Value) {
					continue
				}
				if objOf(info, ifs.Cond) == nil || objOf(info, ifs.Cond) != objOf(info, as.Lhs[1]) {
					continue
				}
				guard = ifs
			}
			switch {
			case guard == nil:
				r.Bad(cs, loop.Pos(), "the ways loop has no `if _, skip := ctx.%s[way.ID]; skip { continue }` on its loop variable: ways already rendered as part of a relation would be emitted a second time", o.skip.Name())
			case guard.Else != nil || len(guard.Body.List) != 1 || !c17SkipBody(info, fi, guard.Body):
				r.Bad(cs, guard.Pos(), "the skippable guard does not simply `continue`")
			default:
				okDom := true
				for _, a := range apps {
					if a.loop == loop && !posDominates(g, dom, guard.Cond.Pos(), a.as.Pos()) {
						okDom = false
					}
					if a.loop == loop {
						cb, _ := blockOf(g, guard.Cond.Pos())
						ab, _ := blockOf(g, a.as.Pos())
						if cb != nil && ab != nil && len(cb.Succs) == 2 {
							if reachableFrom([]*cfg.Block{cb.Succs[0]}, func(b *cfg.Block) bool { return b == head })[ab] {
								okDom = false
							}
						}
					}
				}
				if okDom {
					r.OK(cs, guard.Pos(), "`%s; %s { continue }` dominates the append and its true edge returns to the loop head without appending", src(fset, guard.Init), src(fset, guard.Cond))
				} else {
					r.Bad(cs, guard.Pos(), "the append of the ways loop is reachable without passing the false edge of the skippable test")
				}
			}
		}
	}
	// the skippable set is filled by the relation pass: it must be complete before the ways loop starts
	co := "order@Convert relations-before-ways"
	if loops["relations"] != nil && loops["ways"] != nil {
		var done, whead *cfg.Block
		for _, b := range g.Blocks {
			if b.Kind == cfg.KindRangeDone && b.Stmt == loops["relations"] {
				done = b
			}
			if b.Kind == cfg.KindRangeLoop && b.Stmt == loops["ways"] {
				whead = b
			}
		}
		// writers of the skippable set are only reached from the relation loop
		writersOK := true
		var wbad string
		for _, f2 := range allFuncs(pk) {
			ast.Inspect(f2.Decl.Body, func(n ast.Node) bool {
				as, ok := n.(*ast.AssignStmt)
				if !ok {
					return true
				}
				for _, l := range as.Lhs {
					if ix, ok := ast.Unparen(l).(*ast.IndexExpr); ok && fieldOf(info, ix.X) == o.skip {
						if f2.Obj == fi.Obj {
							if !(as.Pos() >= loops["relations"].Pos() && as.End() <= loops["relations"].End()) {
								writersOK, wbad = false, src(fset, as)
							}
						}
					}
				}
				return true
			})
		}
		switch {
		case done == nil || whead == nil:
			r.Unknown(co, fi.Decl.Pos(), "loops not found in the control-flow graph")
		case !(done == whead || dom[whead][done]):
			r.Bad(co, loops["ways"].Pos(), "the ways loop can start before the relations loop has finished: the skippable set is filled by the relation pass, so ways rendered inside a relation would be emitted again")
		case !writersOK:
			r.Bad(co, loops["ways"].Pos(), "`%s` writes the skippable set outside the relation pass", wbad)
		default:
			r.OK(co, loops["ways"].Pos(), "the end of the relations loop dominates the head of the ways loop; Convert writes %s only inside the relation pass", o.skip.Name())
		}
	} else {
		r.Bad(co, fi.Decl.Pos(), "relations/ways loops not identified")
	}
}
