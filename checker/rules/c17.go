package rules

import (
	"fmt"
	"go/ast"
	"go/token"
	"go/types"
	"sort"
	"strings"

	"golang.org/x/tools/go/callgraph"
	"golang.org/x/tools/go/packages"
	"golang.org/x/tools/go/ssa"

	"osmcheck/core"
)

// Unexported identifiers the C17 rules are keyed on (last-resort anchors, DESIGN §2.2 class 3):
//   osmgeojson.context                  the conversion context struct (found as the parameter type of Option)
//   context.noID, noMeta, noRelationMembership, includeInvalidPolygons   the option fields (c17OptionRoles gives
//                                       each its documented role)
// Everything else is resolved by role, never by name or file:
//   - the option fields are the fields of the context, or of a struct of the package the context holds (embedded or
//     named, by value or pointer; promoted selectors denote the same field), assigned in functions of type Option;
//   - the membership map is the context field of type map[osm.FeatureID][]…; the skippable set is the context
//     field of type map[osm.WayID]struct{} (or map[osm.WayID]bool);
//   - the interest test is the package function of type func(osm.Tags, map[string]string) bool or the exported library
//     method osm.Tags.AnyInteresting (no discount set);
//   - the multipolygon builder is any function that has orb.MultiPolygon values (signature, variable or expression), an
//     unexported pass-free function that reaches one through static calls, or a helper called only from such (c17_role.go);
//   - the meta switch is the type switch over osm.Element with cases *osm.Node/*osm.Way/*osm.Relation, wherever it is;
//   - feature emissions are appends to / literals of []*geojson.Feature and FeatureCollection.Append, element
//     passes are ranges over osm.Relations/osm.Ways/osm.Nodes, found from the exported Convert through helpers.
// Files: c17.go (registration, G1, G2, G4), c17_cfg.go (CFG facts, finite-domain evaluation, regions, effects),
// c17_role.go (multipolygon builder by role), c17_result.go (helper results under a valuation), c17_g3.go, c17_g4more.go, c17_g5.go, c17_g6.go, c17_g7.go with the symbolic
// interpreter c17_sym*.go, c17_g8*.go (way-node set), c17_g9.go (node interest rule), c17_g10.go (id width), c17_closure.go and c17_g5_nonnil.go (G5), c17_benign.go … c17_benign6.go
// (behaviour-preserving variants and defects seeded into refactored shapes).

func init() {
	register(&core.Property{
		ID:    "C17",
		Title: "GeoJSON conversion maps elements to features exactly; options only subtract",
		Explanation: "Structural necessary conditions, decided for the whole call tree of osmgeojson.Convert (SSA + VTA call graph) and on the control-flow graphs of package osmgeojson: " +
			"(G1) no reachable repository function stores, map-updates, appends in place, copies, deletes, sorts or reverses into memory whose type can be input memory (the types reachable from *osm.OSM) unless that memory was allocated in the same function, and none writes package-level state; " +
			"(G2) no range over a map in the call tree appends to, or picks an element for, anything that outlives the loop; " +
			"(G3) options only subtract: the value of an option field flows only into branch conditions (directly, through a local assigned once, a parameter, or the result of a helper: a one-line predicate, a boolean result of a helper with several returns, the ok of a (value, ok) pair, or the nil-ness of a helper result, all evaluated by walking the helper under the valuation); at every branch whose outcome depends on the option (three-valued evaluation of the condition with the option set and unset), the side taken when the option subtracts has no effect of its own and leaves only by nil/zero/unchanged-argument returns, and what it bypasses is, besides region-local state, only what the option documents (noID: stores of Feature.ID; noMeta: the meta property; noRelationMembership: the relations property, or updates of the membership map that are not bypassed when the member is a node; includeInvalidPolygons: only removes skips, and only inside the multipolygon builder); every store of Feature.ID / the meta / the relations property and every non-node-keyed read of the membership map is unreachable when the respective option is set; every option field is written only by its own Option constructor; " +
			"(G4) the node/way/relation cases of the meta type switch are identical up to the element type, the names of case-local variables and the order of independent map fills; " +
			"(G5) every feature emission reachable from Convert lies in exactly one element pass (range over the input's relations, ways or nodes, in Convert or in a helper), every path through one iteration emits at most one feature (helpers counted with their per-call maximum), in the ways pass every emission is controlled by the test that the way is not in the skippable set, every value emitted is known not to be nil where it is emitted (guard fact, built in place, or from a helper that never returns nil), a local closure bound once and only called is analysed as a helper, and the relation pass, which fills that set, is complete before the ways pass starts; " +
			"(G6) a way is put into the skippable set only under the fact that the interest predicate is false for that way's own tags, and the discount set handed to the predicate is nil on every path reaching that guard (literal, local whose every assignment is examined, or helper parameter decided at the call sites); only inside the multipolygon builder may the discount set be non-nil, and only where no member other than an outer way can see it (the CFG is evaluated with <member>.Role != \"outer\": the guard is unreachable, or every non-nil assignment of the local carrying the set cannot execute or is overwritten before the guard, within one loop iteration); the old-style take-over of a relation by its single outer way is left to C16. " +
			"(G7) the ring of the polygon made for an area way is the way's line closed by repeating its first point: the code between the way converter's entry and every orb.Polygon{ring} outside the multipolygon builder (closing helper included, wherever it lives) is interpreted symbolically for lines of 0..5 points, open and already closed, points being tokens of which only identity is known; every ring reaching such a literal starts with the input points, leaves a closed line unchanged and appends exactly the first point to an open one, and no path indexes the line out of range. " +
			"(G8) the set of node ids the node pass consults for \"is part of a way\" (the context field that is a set of osm.NodeID: map to struct{} or bool, or a slice) is complete before it is read: every insertion records the way node of the current iteration of a range over a way's nodes on every path through the iteration (no condition on coordinates, on the node element, on tags; the loop is never left early), some statement of Convert is a complete pass (a range over the Ways field of the input every iteration of which records all nodes of its way, in place, in a per-way or per-node helper, or in a method holding the pass; a pass that leaves out exactly the ways found in the skippable set counts when every store into the skippable set is covered by a record of the same way's nodes), and the end of that pass dominates, in Convert, every statement through which the set is read. " +
			"(G9) the node pass attempts a point (calls the node-to-feature function) exactly for nodes that are not in the way-node set, or have entries in the membership map, or whose own tags pass the interest test without discount set: one iteration is walked along feasible branches for each of the 8 valuations of these three facts, the conditions being evaluated through boolean locals, one-line predicates and helpers with several returns. " +
			"(G10) in the functions of the package reachable from Convert no 64-bit osm id (NodeID, WayID, RelationID, FeatureID.Ref(), Member.Ref, or a plain int64 made from one, followed through locals, parameters and call sites) is converted to a type narrower than 64 bits on some supported configuration (int, uint, uintptr, int32 and smaller, float32) on its way into a feature or a lookup; constructs are keyed by what the value feeds and where the id comes from, so an extracted helper keeps them (the four stores of the `id` property as int(...) are a recorded known finding). " +
			"All of G3-G6 are decided on guard facts and reachability, so if/switch forms, inverted branches, early returns, merged or split guards, if-init forms, locals naming a condition, extracted or inlined helpers and moved functions do not change the verdict. " +
			"NOT decided: geometry values (ring winding, joined route geometry, which ways are areas: C18), the tag-interest rule itself, which nodes become points, JSON encoding of the result, mutation through reflection/unsafe, functions only reachable through calls VTA cannot resolve, option values that reach a function literal (reported as undecidable).",
		Assumptions: []string{"go/types, go/cfg, go/ssa, VTA call graph (x/tools v0.29.0)", "no unsafe/reflect-based writes in the call tree: input memory is only reachable through the types reachable from osm.OSM",
			"non-repository callees do not write through their arguments except the enumerated in-place mutators (sort.*, slices.*, Reverse/Sort* methods); any other external callee receiving input memory is reported as undecided unless allow-listed as read-only",
			"G3 effect analysis: functions of packages osm, time and fmt and conversions/len/cap/make/new/append/panic have no effect visible to the option roles (writes of package osm functions are decided by G1); same-package callees are followed four levels deep"},
		LevelText: "Structural necessary conditions of the conversion contract, decided at every memory write of every repository function reachable from osmgeojson.Convert (input immutability, no package state), every map range in that tree (determinism), every branch of package osmgeojson whose outcome depends on an option field (options only subtract: differential evaluation option set/unset, exclusive and bypassed regions of the CFG, effects followed into helpers), every store of Feature.ID/meta/relations and every read of the membership map (unreachable under the option), the three meta cases (sibling agreement) and every path through the three element passes (at most one feature per element, skippable ways not emitted, relation pass before ways pass). Geometry values and the tag-interest semantics are not decided.",
		LevelNote: "Trusts the type checker, go/cfg, go/ssa and the VTA call graph; type-based effect analysis is sound only without unsafe/reflect writes; writes performed inside non-repository callees are covered by an enumerated mutator list plus an undecided verdict for unknown callees receiving input memory. Instance floors count things a refactoring cannot remove (exported API in the call tree, option fields, element kinds), not statements.",
		Technique: "SSA type-based effect analysis with allocation-freshness over the VTA call tree of Convert; go/cfg guard facts, three-valued finite-domain evaluation of branch conditions under option valuations, exclusive/bypassed CFG regions with interprocedural effect summaries; type-directed structural comparison of sibling cases modulo local naming and commuting statements; path counting over go/cfg loop bodies with per-call emission maxima",
		DesignRef: "DESIGN.md §5 C17",
		NeedSSA:   true,
		Benign:    append(append(append(append(append(append([]core.Mutant{}, c17Benign...), c17Benign2...), c17Benign3...), c17Benign4...), c17Benign5...), c17Benign6...),
		Rules: []*core.Rule{
			// Floors count what a behaviour-preserving refactoring cannot remove:
			// G1/G2: Convert, the four option setters and the exported osm/mputil API the conversion needs (Tags.Map, Tags.Find,
			//        Way.Polygon, Member/Node/Way/Relation FeatureID, mputil.Join, MultiSegment.Ring/LineString) are ≥ 12 functions
			//        (38 in the tree today; unexported helpers may be inlined or split freely);
			// G3: 4 option writes + at least one branch per option (two for noRelationMembership) + one guarded store of
			//     Feature.ID, meta and relations each + one membership read = 13, floor 10;
			// G8: one insertion, coverage, one reader; G7: the way converter (one interpreted root); G4: the three element cases; G5: three passes + skippable + order; G6: the route builder's store and at least one
			//     store in the multipolygon builder.
			{ID: "G1", Floor: 12, Doc: "input immutability: no write into input-typed memory or package state anywhere in the call tree of Convert", Run: c17G1},
			{ID: "G2", Floor: 12, Doc: "determinism: no order-dependent range over a map in the call tree of Convert", Run: c17G2},
			{ID: "G3", Floor: 10, Doc: "options only subtract: each option decides only branches whose subtracting side has no effect of its own and bypasses only what the option documents; option fields are written only by their constructors", Run: c17G3},
			{ID: "G4", Floor: 3, Doc: "node/way/relation meta cases are identical up to the element type, local names and the order of independent map fills", Run: c17G4},
			{ID: "G5", Floor: 5, Doc: "each element pass emits at most one feature per iteration on every path; skippable ways are not emitted; the relation pass precedes the ways pass", Run: c17G5},
			{ID: "G6", Floor: 2, Doc: "a way becomes skippable only when it has no interesting tag of its own; tags may be discounted only for outer members inside the multipolygon builder", Run: c17G6},
			{ID: "G7", Floor: 1, Doc: "the ring of an area way's polygon is the way's line closed by repeating its first point (symbolic evaluation of the closing code over lines of 0..5 points)", Run: c17G7},
			{ID: "G8", Floor: 3, Doc: "the set of node ids that are part of a way is filled for every node of every way of the input before the node pass reads it", Run: c17G8},
			{ID: "G9", Floor: 1, Doc: "the node pass attempts a point exactly for nodes that are not part of a way, are relation members, or have an interesting tag (finite-domain evaluation of one iteration)", Run: c17G9},
			{ID: "G10", Floor: 4, Doc: "no 64-bit osm id is narrowed (int, int32, float32, …) on its way into a feature or a lookup in the conversion path", Run: c17G10},
			{ID: "G11", Floor: 6, Doc: "every key of the meta layout (timestamp, version, changeset, user, uid) is stored from its own element attribute, for every element type, under conditions that mention no other attribute", Run: c17G11},
		},
		Mutants: append([]core.Mutant{
			{Name: "g6-route-way-ignores-relation-tags", File: "osmgeojson/convert.go", Find: "if !hasInterestingTags(way.Tags, nil) {\n\t\t\tctx.skippable[way.ID] = struct{}{}", Replace: "if !hasInterestingTags(way.Tags, relation.Tags.Map()) {\n\t\t\tctx.skippable[way.ID] = struct{}{}", ExpectRule: "G6", ExpectConstruct: "buildRouteLineString"},
			// G1
			{Name: "g1-linestring-writes-way-nodes", File: "osmgeojson/convert.go", Find: "for _, wn := range w.Nodes {\n\t\tif wn.Lon != 0", Replace: "for i, wn := range w.Nodes {\n\t\tw.Nodes[i].Version = 0\n\t\tif wn.Lon != 0", ExpectRule: "G1", ExpectConstruct: "wayToLineString"},
			{Name: "g1-route-caches-coords-in-input", File: "osmgeojson/convert.go", Find: "\t\tls, t := ctx.wayToLineString(way)\n", Replace: "\t\tls, t := ctx.wayToLineString(way)\n\t\tif len(ls) > 0 && len(way.Nodes) > 0 {\n\t\t\tway.Nodes[0].Lon, way.Nodes[0].Lat = ls[0][0], ls[0][1]\n\t\t}\n", ExpectRule: "G1", ExpectConstruct: "buildRouteLineString"},
			{Name: "g1-polygon-writes-through-fresh-way", File: "osmgeojson/build_polygon.go", Find: "\t\tls, t := ctx.wayToLineString(way)\n", Replace: "\t\tls, t := ctx.wayToLineString(way)\n\t\tif len(way.Nodes) > 0 {\n\t\t\tway.Nodes[0].ID = 0\n\t\t}\n", ExpectRule: "G1", ExpectConstruct: "buildPolygon"},
			{Name: "g1-sort-input-tags", File: "osmgeojson/convert.go", Find: "\tf.Properties[\"tags\"] = relation.Tags.Map()\n", Replace: "\trelation.Tags.SortByKeyValue()\n\tf.Properties[\"tags\"] = relation.Tags.Map()\n", ExpectRule: "G1", ExpectConstruct: "tagsSort.Swap"},
			{Name: "g1-sort-input-tags-callsite", File: "osmgeojson/convert.go", Find: "\tf.Properties[\"tags\"] = relation.Tags.Map()\n", Replace: "\trelation.Tags.SortByKeyValue()\n\tf.Properties[\"tags\"] = relation.Tags.Map()\n", ExpectRule: "G1", ExpectConstruct: "Tags.SortByKeyValue"},
			{Name: "g1-sort-input-ways", File: "osmgeojson/convert.go", Find: "\tctx.wayMap = make(map[osm.WayID]*osm.Way, len(o.Ways))\n", Replace: "\tctx.osm.Ways.SortByIDVersion()\n\tctx.wayMap = make(map[osm.WayID]*osm.Way, len(o.Ways))\n", ExpectRule: "G1", ExpectConstruct: "waysSort.Swap"},
			{Name: "g1-node-tags-appended", File: "osmgeojson/convert.go", Find: "\tf.Properties[\"tags\"] = n.Tags.Map()\n", Replace: "\tn.Tags = append(n.Tags, osm.Tag{Key: \"converted\", Value: \"yes\"})\n\tf.Properties[\"tags\"] = n.Tags.Map()\n", ExpectRule: "G1", ExpectConstruct: "nodeToFeature"},
			{Name: "g1-reverse-way-nodes-in-place", File: "osmgeojson/convert.go", Find: "\tls, tainted := ctx.wayToLineString(w)\n", Replace: "\tfor i, j := 0, len(w.Nodes)-1; i < j; i, j = i+1, j-1 {\n\t\tw.Nodes[i], w.Nodes[j] = w.Nodes[j], w.Nodes[i]\n\t}\n\tls, tainted := ctx.wayToLineString(w)\n", ExpectRule: "G1", ExpectConstruct: "wayToFeature"},
			{Name: "g1-copy-into-input-nodes", File: "osmgeojson/convert.go", Find: "\tfc := geojson.NewFeatureCollection()\n", Replace: "\tif len(o.Nodes) > 1 {\n\t\tcopy(o.Nodes, o.Nodes[1:])\n\t}\n\tfc := geojson.NewFeatureCollection()\n", ExpectRule: "G1", ExpectConstruct: "osmgeojson.Convert"},
			{Name: "g1-delete-from-package-map", File: "osmgeojson/convert.go", Find: "\t\tk, v := tag.Key, tag.Value\n", Replace: "\t\tk, v := tag.Key, tag.Value\n\t\tdelete(osm.UninterestingTags, \"fixme\")\n", ExpectRule: "G1", ExpectConstruct: "hasInterestingTags"},
			{Name: "g1-polygon-test-clears-area-tag", File: "polygon.go", Find: "\tif area := w.Tags.Find(\"area\"); area == \"no\" {\n", Replace: "\tif len(w.Tags) > 0 && w.Tags[0].Key == \"area\" {\n\t\tw.Tags[0].Value = \"yes\"\n\t}\n\tif area := w.Tags.Find(\"area\"); area == \"no\" {\n", ExpectRule: "G1", ExpectConstruct: "(*Way).Polygon"},
			// G2
			{Name: "g2-ways-from-map", File: "osmgeojson/convert.go", Find: "\tfor _, way := range ctx.osm.Ways {\n\t\t// should skip only", Replace: "\tfor _, way := range ctx.wayMap {\n\t\t// should skip only", ExpectRule: "G2", ExpectConstruct: "maprange@osmgeojson.Convert"},
			{Name: "g2-features-from-membership-map", File: "osmgeojson/convert.go", Find: "\tfc := geojson.NewFeatureCollection()\n", Replace: "\tfor fid, rs := range ctx.relationMember {\n\t\tif n := ctx.getNode(fid.NodeID()); n != nil && len(rs) > 1 {\n\t\t\tfeatures = append(features, ctx.nodeToFeature(n))\n\t\t}\n\t}\n\tfc := geojson.NewFeatureCollection()\n", ExpectRule: "G2", ExpectConstruct: "ctx.relationMember"},
			{Name: "g2-first-ignored-key-wins", File: "osmgeojson/convert.go", Find: "\tfor _, tag := range tags {\n\t\tk, v := tag.Key, tag.Value\n", Replace: "\tfor ik := range ignore {\n\t\treturn ik == \"type\"\n\t}\n\tfor _, tag := range tags {\n\t\tk, v := tag.Key, tag.Value\n", ExpectRule: "G2", ExpectConstruct: "hasInterestingTags"},
			// G3
			{Name: "g3-nometa-suppresses-tags", File: "osmgeojson/convert.go", Find: "\tf.Properties[\"tags\"] = n.Tags.Map()\n", Replace: "\tif !ctx.noMeta {\n\t\tf.Properties[\"tags\"] = n.Tags.Map()\n\t}\n", ExpectRule: "G3", ExpectConstruct: "nodeToFeature noMeta"},
			{Name: "g3-nometa-return-before-relations", File: "osmgeojson/convert.go", Find: "func (ctx *context) addMetaProperties(props geojson.Properties, e osm.Element) {\n", Replace: "func (ctx *context) addMetaProperties(props geojson.Properties, e osm.Element) {\n\tif ctx.noMeta {\n\t\treturn\n\t}\n", ExpectRule: "G3", ExpectConstruct: "addMetaProperties noMeta"},
			{Name: "g3-noid-inverted", File: "osmgeojson/convert.go", Find: "\tif !ctx.noID {\n\t\tf.ID = fmt.Sprintf(\"way/%d\", w.ID)", Replace: "\tif ctx.noID {\n\t\tf.ID = fmt.Sprintf(\"way/%d\", w.ID)", ExpectRule: "G3", ExpectConstruct: "wayToFeature"},
			{Name: "g3-noid-also-drops-id-property", File: "osmgeojson/convert.go", Find: "\t}\n\tf.Properties[\"id\"] = int(n.ID)\n", Replace: "\t\tf.Properties[\"id\"] = int(n.ID)\n\t}\n", ExpectRule: "G3", ExpectConstruct: "nodeToFeature noID"},
			{Name: "g3-id-set-unguarded", File: "osmgeojson/convert.go", Find: "\tif !ctx.noID {\n\t\tf.ID = fmt.Sprintf(\"relation/%d\", relation.ID)\n\t}\n", Replace: "\tf.ID = fmt.Sprintf(\"relation/%d\", relation.ID)\n", ExpectRule: "G3", ExpectConstruct: "idassign@(*context).buildRouteLineString"},
			{Name: "g3-membership-guard-drops-nodes", File: "osmgeojson/convert.go", Find: "if ctx.noRelationMembership && m.Type != osm.TypeNode {", Replace: "if ctx.noRelationMembership && m.Type != osm.TypeRelation {", ExpectRule: "G3", ExpectConstruct: "read@Convert noRelationMembership"},
			{Name: "g3-membership-read-for-ways", File: "osmgeojson/convert.go", Find: "\tif tainted {\n\t\tf.Properties[\"tainted\"] = true\n\t}\n\n\tctx.addMetaProperties(f.Properties, w)\n", Replace: "\tif tainted || len(ctx.relationMember[w.FeatureID()]) > 0 {\n\t\tf.Properties[\"tainted\"] = true\n\t}\n\n\tctx.addMetaProperties(f.Properties, w)\n", ExpectRule: "G3", ExpectConstruct: "memberread@(*context).wayToFeature"},
			{Name: "g3-nometa-option-also-sets-noid", File: "osmgeojson/options.go", Find: "\t\tctx.noMeta = yes\n", Replace: "\t\tctx.noMeta = yes\n\t\tctx.noID = yes\n", ExpectRule: "G3", ExpectConstruct: "write@noID"},
			{Name: "g3-invalid-option-drops-result", File: "osmgeojson/build_polygon.go", Find: "\t\tif len(mp) == 0 {\n\t\t\treturn nil\n\t\t}\n", Replace: "\t\tif len(mp) == 0 || ctx.includeInvalidPolygons {\n\t\t\treturn nil\n\t\t}\n", ExpectRule: "G3", ExpectConstruct: "buildPolygon includeInvalidPolygons"},
			{Name: "g3-invalid-option-read-for-ways", File: "osmgeojson/convert.go", Find: "\tif len(ls) <= 1 {\n\t\t// one node ways are ignored.\n", Replace: "\tif len(ls) <= 1 && !ctx.includeInvalidPolygons {\n\t\t// one node ways are ignored.\n", ExpectRule: "G3", ExpectConstruct: "wayToFeature includeInvalidPolygons"},
			// G4
			{Name: "g4-way-case-omits-changeset", File: "osmgeojson/convert.go", Find: "\t\tif e.ChangesetID != 0 {\n\t\t\tmeta[\"changeset\"] = e.ChangesetID\n\t\t}\n\n", Replace: "", Nth: 2, ExpectRule: "G4", ExpectConstruct: "*osm.Way"},
			{Name: "g4-relation-case-other-key", File: "osmgeojson/convert.go", Find: "meta[\"uid\"] = e.UserID", Replace: "meta[\"user_id\"] = e.UserID", Nth: 3, ExpectRule: "G4", ExpectConstruct: "*osm.Relation"},
			{Name: "g4-way-case-version-from-changeset", File: "osmgeojson/convert.go", Find: "meta[\"version\"] = e.Version", Replace: "meta[\"version\"] = int(e.ChangesetID)", Nth: 2, ExpectRule: "G4", ExpectConstruct: "*osm.Way"},
			// G5
			{Name: "g5-way-appended-twice", File: "osmgeojson/convert.go", Find: "features = append(features, feature)", Replace: "features = append(features, feature, feature)", Nth: 3, ExpectRule: "G5", ExpectConstruct: "loop@Convert ways"},
			{Name: "g5-route-also-polygon", File: "osmgeojson/convert.go", Find: "\t\t} else if tt == \"multipolygon\" || tt == \"boundary\" {\n", Replace: "\t\t}\n\t\tif tt == \"multipolygon\" || tt == \"boundary\" || tt == \"route\" {\n", ExpectRule: "G5", ExpectConstruct: "loop@Convert relations"},
			{Name: "g5-skippable-not-skipped", File: "osmgeojson/convert.go", Find: "\t\tif _, skip := ctx.skippable[way.ID]; skip {\n\t\t\tcontinue\n\t\t}\n", Replace: "", ExpectRule: "G5", ExpectConstruct: "skippable@Convert ways"},
			{Name: "g5-skippable-inverted", File: "osmgeojson/convert.go", Find: "if _, skip := ctx.skippable[way.ID]; skip {", Replace: "if _, skip := ctx.skippable[way.ID]; !skip {", ExpectRule: "G5", ExpectConstruct: "skippable@Convert ways"},
			{Name: "g5-node-loop-appends-in-inner-loop", File: "osmgeojson/convert.go", Find: "\t\tfeature := ctx.nodeToFeature(node)\n\t\tif feature != nil {\n\t\t\tfeatures = append(features, feature)\n\t\t}\n", Replace: "\t\tfeature := ctx.nodeToFeature(node)\n\t\tfor range ctx.relationMember[node.FeatureID()] {\n\t\t\tfeatures = append(features, feature)\n\t\t}\n", ExpectRule: "G5", ExpectConstruct: "loop@Convert nodes"},
		}, append(append(append(append(append(append([]core.Mutant{}, c17RefactoredMutants...), c17Mutants2...), c17Mutants3...), c17Mutants4...), c17Mutants5...), c17Mutants6...)...),
	})
}

// ---------------------------------------------------------------------------
// shared: the call tree of Convert

const c17GeoPkg = "osmgeojson"

type c17Tree struct {
	root    *ssa.Function
	order   []*ssa.Function                 // reachable repository functions with a body, BFS order
	parent  map[*ssa.Function]*ssa.Function // BFS parent (any function, including pass-through ones)
	visited int                             // all functions visited, including pass-through
}

func c17IsRepoFunc(p *core.Program, fn *ssa.Function) bool {
	if fn == nil || len(fn.Blocks) == 0 || fn.Synthetic != "" {
		return false
	}
	pk := fn.Pkg
	if pk == nil && fn.Origin() != nil {
		pk = fn.Origin().Pkg
	}
	if pk == nil && fn.Parent() != nil {
		pk = fn.Parent().Pkg
	}
	if pk == nil || pk.Pkg == nil {
		return false
	}
	path := pk.Pkg.Path()
	return path == core.ModulePath || strings.HasPrefix(path, core.ModulePath+"/")
}

// c17FnName renders "osm.Tags.Map", "osmgeojson.(*context).buildPolygon", "osmgeojson.NoID$1".
func c17FnName(fn *ssa.Function) string {
	if fn == nil {
		return "?"
	}
	pkg := ""
	if fn.Pkg != nil && fn.Pkg.Pkg != nil {
		pkg = fn.Pkg.Pkg.Name() + "."
	} else if fn.Parent() != nil && fn.Parent().Pkg != nil {
		pkg = fn.Parent().Pkg.Pkg.Name() + "."
	}
	if obj, ok := fn.Object().(*types.Func); ok && obj != nil {
		return pkg + funcName(obj)
	}
	if fn.Parent() != nil {
		base := c17FnName(fn.Parent())
		suffix := fn.Name()
		if i := strings.LastIndexByte(suffix, '$'); i >= 0 {
			suffix = suffix[i:]
		}
		return base + suffix
	}
	return pkg + fn.Name()
}

// c17ConvertTree computes the repository functions reachable from osmgeojson.Convert in the VTA call
// graph. Non-repository functions are traversed (so that sort.Sort → Swap comes back into the
// repository) but not reported. The Option-typed functions of the package are added as roots because
// the options reach Convert through its variadic parameter, for which the call graph has no caller.
func c17ConvertTree(r *core.R) *c17Tree {
	pk := r.P.Pkg(c17GeoPkg)
	fi := findFunc(pk, "Convert")
	if fi == nil {
		r.Anchor("osmgeojson.Convert")
		return nil
	}
	root := r.P.SSAFunc(fi.Obj)
	if root == nil {
		r.Anchor("SSA of osmgeojson.Convert")
		return nil
	}
	cg := r.P.CallGraph()
	t := &c17Tree{root: root, parent: map[*ssa.Function]*ssa.Function{}}
	seen := map[*ssa.Function]bool{root: true}
	work := []*ssa.Function{root}
	// option constructors' closures
	if optT := pk.Types.Scope().Lookup("Option"); optT != nil {
		if sp := r.P.SSAPkg(pk); sp != nil {
			var add func(f *ssa.Function)
			add = func(f *ssa.Function) {
				for _, an := range f.AnonFuncs {
					if types.Identical(an.Signature, optT.Type().Underlying()) && !seen[an] {
						seen[an] = true
						t.parent[an] = root
						work = append(work, an)
					}
					add(an)
				}
			}
			var names []string
			for n := range sp.Members {
				names = append(names, n)
			}
			sort.Strings(names)
			for _, n := range names {
				if f, ok := sp.Members[n].(*ssa.Function); ok {
					add(f)
				}
			}
		}
	}
	// Callbacks from non-repository code into repository methods are admitted only for receiver types
	// that reachable repository code converts to an interface (as RTA does): the VTA graph is
	// context-insensitive, so fmt.Sprintf would otherwise reach every String/Error method of the program.
	roots := append([]*ssa.Function{}, work...)
	rootParent := map[*ssa.Function]*ssa.Function{}
	for k, v := range t.parent {
		rootParent[k] = v
	}
	ifaceTypes := map[string]bool{}
	funcVals := map[*ssa.Function]bool{}
	for iter := 0; iter < 8; iter++ {
		t.order, t.visited = nil, 0
		t.parent = map[*ssa.Function]*ssa.Function{}
		for k, v := range rootParent {
			t.parent[k] = v
		}
		seen := map[*ssa.Function]bool{}
		for _, f := range roots {
			seen[f] = true
		}
		work := append([]*ssa.Function{}, roots...)
		for len(work) > 0 {
			fn := work[0]
			work = work[1:]
			t.visited++
			isRepo := c17IsRepoFunc(r.P, fn)
			if isRepo {
				t.order = append(t.order, fn)
			}
			var outs []*ssa.Function
			if isRepo {
				// closures created here are considered reachable (they are invoked through values)
				outs = append(outs, fn.AnonFuncs...)
			}
			if n := cg.Nodes[fn]; n != nil {
				for _, e := range n.Out {
					outs = append(outs, e.Callee.Func)
				}
			}
			sort.SliceStable(outs, func(i, j int) bool { return outs[i].String() < outs[j].String() })
			for _, c := range outs {
				if c == nil || seen[c] {
					continue
				}
				if !isRepo && !c17CallbackAdmitted(c, ifaceTypes, funcVals) {
					continue
				}
				seen[c] = true
				t.parent[c] = fn
				work = append(work, c)
			}
		}
		// types converted to interfaces and functions used as values in reachable repository code
		grew := false
		for _, fn := range t.order {
			for _, b := range fn.Blocks {
				for _, in := range b.Instrs {
					if mi, ok := in.(*ssa.MakeInterface); ok {
						if nt, ok := c17Deref(mi.X.Type()).(*types.Named); ok {
							k := c17TypeKey(nt)
							if !ifaceTypes[k] {
								ifaceTypes[k] = true
								grew = true
							}
						}
					}
					for _, op := range in.Operands(nil) {
						if f, ok := (*op).(*ssa.Function); ok && !funcVals[f] {
							funcVals[f] = true
							grew = true
						}
					}
				}
			}
		}
		if !grew {
			break
		}
	}
	return t
}

func (t *c17Tree) path(fn *ssa.Function) string {
	var names []string
	for f := fn; f != nil; f = t.parent[f] {
		names = append(names, c17FnName(f))
		if f == t.root {
			break
		}
	}
	for i, j := 0, len(names)-1; i < j; i, j = i+1, j-1 {
		names[i], names[j] = names[j], names[i]
	}
	if len(names) > 8 {
		names = append(append([]string{}, names[:3]...), append([]string{"…"}, names[len(names)-4:]...)...)
	}
	return strings.Join(names, " → ")
}

// ---------------------------------------------------------------------------
// G1: input immutability

// c17Mem is the set of memory kinds that can be input memory: cells of type T reached through a
// pointer ("T"), backing arrays of slices of E ("[]E") and map objects ("map[K]V"), computed as the
// closure of the types reachable from osm.OSM. Without unsafe, memory reachable from the *osm.OSM
// handed to Convert has one of these types.
type c17Mem map[string]bool

func c17TypeKey(t types.Type) string { return types.TypeString(t, nil) }

func c17IsRepoNamed(t types.Type) bool {
	nt, ok := t.(*types.Named)
	if !ok || nt.Obj().Pkg() == nil {
		return false
	}
	p := nt.Obj().Pkg().Path()
	return p == core.ModulePath || strings.HasPrefix(p, core.ModulePath+"/")
}

func c17InputMemory(p *core.Program) c17Mem {
	m := c17Mem{}
	pk := p.Pkg("")
	if pk == nil {
		return nil
	}
	obj := pk.Types.Scope().Lookup("OSM")
	if obj == nil {
		return nil
	}
	seen := map[string]bool{}
	var contents func(t types.Type)
	pointee := func(t types.Type) {
		m[c17TypeKey(t)] = true
		contents(t)
	}
	contents = func(t types.Type) {
		k := c17TypeKey(t)
		if seen[k] {
			return
		}
		seen[k] = true
		switch x := t.(type) {
		case *types.Named:
			if !c17IsRepoNamed(x) {
				// foreign value embedded by value (time.Time): its inner pointers are only written by its own package
				return
			}
			contents(x.Underlying())
		case *types.Alias:
			contents(types.Unalias(x))
		case *types.Pointer:
			pointee(x.Elem())
		case *types.Slice:
			m["[]"+c17TypeKey(x.Elem())] = true
			contents(x.Elem())
		case *types.Array:
			contents(x.Elem())
		case *types.Map:
			m[c17TypeKey(x)] = true
			contents(x.Key())
			contents(x.Elem())
		case *types.Struct:
			for i := 0; i < x.NumFields(); i++ {
				contents(x.Field(i).Type())
			}
		}
	}
	pointee(obj.Type())
	return m
}

// c17Origin is where a reference (pointer, slice, map) comes from.
type c17Origin struct {
	kind    string // alloc | make | nil | param | freevar | global | call | load | other
	v       ssa.Value
	viaLoad bool // a pointer/slice/map was read from memory on the way: it may alias anything
}

func (o c17Origin) fresh() bool {
	return !o.viaLoad && (o.kind == "alloc" || o.kind == "make" || o.kind == "nil")
}

func c17Deref(t types.Type) types.Type {
	if p, ok := t.Underlying().(*types.Pointer); ok {
		return p.Elem()
	}
	return t
}

// c17Origins walks a reference value back to its origins.
func c17Origins(v ssa.Value, viaLoad bool, seen map[ssa.Value]bool, out *[]c17Origin) {
	if seen[v] {
		return
	}
	seen[v] = true
	add := func(kind string) { *out = append(*out, c17Origin{kind: kind, v: v, viaLoad: viaLoad}) }
	switch x := v.(type) {
	case *ssa.Alloc:
		add("alloc")
	case *ssa.MakeSlice, *ssa.MakeMap, *ssa.MakeChan:
		add("make")
	case *ssa.Const:
		add("nil")
	case *ssa.Parameter:
		add("param")
	case *ssa.FreeVar:
		add("freevar")
	case *ssa.Global:
		add("global")
	case *ssa.Function, *ssa.MakeClosure, *ssa.Builtin:
		add("other")
	case *ssa.FieldAddr:
		c17Origins(x.X, viaLoad, seen, out)
	case *ssa.IndexAddr:
		c17Origins(x.X, viaLoad, seen, out)
	case *ssa.Slice:
		c17Origins(x.X, viaLoad, seen, out)
	case *ssa.ChangeType:
		c17Origins(x.X, viaLoad, seen, out)
	case *ssa.Convert:
		c17Origins(x.X, viaLoad, seen, out)
	case *ssa.MakeInterface:
		c17Origins(x.X, viaLoad, seen, out)
	case *ssa.ChangeInterface:
		c17Origins(x.X, viaLoad, seen, out)
	case *ssa.TypeAssert:
		c17Origins(x.X, viaLoad, seen, out)
	case *ssa.SliceToArrayPointer:
		c17Origins(x.X, viaLoad, seen, out)
	case *ssa.Phi:
		for _, e := range x.Edges {
			c17Origins(e, viaLoad, seen, out)
		}
	case *ssa.Field:
		c17Origins(x.X, true, seen, out)
	case *ssa.Index:
		c17Origins(x.X, true, seen, out)
	case *ssa.Lookup:
		c17Origins(x.X, true, seen, out)
	case *ssa.Extract:
		c17Origins(x.Tuple, viaLoad, seen, out)
	case *ssa.Next:
		c17Origins(x.Iter, true, seen, out)
	case *ssa.Range:
		c17Origins(x.X, true, seen, out)
	case *ssa.UnOp:
		if x.Op != token.MUL {
			add("other")
			return
		}
		// a load. A plain local variable cell (an Alloc only ever stored to and loaded from) holds
		// exactly what was stored into it.
		if al, ok := x.X.(*ssa.Alloc); ok {
			if vals, ok := c17CellValues(al); ok {
				for _, sv := range vals {
					c17Origins(sv, viaLoad, seen, out)
				}
				if len(vals) == 0 {
					add("nil")
				}
				return
			}
		}
		c17Origins(x.X, true, seen, out)
	case *ssa.Call:
		if b, ok := x.Call.Value.(*ssa.Builtin); ok && b.Name() == "append" && len(x.Call.Args) > 0 {
			// the result shares the backing array of the first argument or is a new array
			c17Origins(x.Call.Args[0], viaLoad, seen, out)
			return
		}
		add("call")
	default:
		add("other")
	}
}

// c17CellValues returns the values stored into a local variable cell when the cell is used only by
// direct stores and loads (not captured, not address-taken through fields).
func c17CellValues(al *ssa.Alloc) ([]ssa.Value, bool) {
	refs := al.Referrers()
	if refs == nil {
		return nil, false
	}
	var vals []ssa.Value
	for _, in := range *refs {
		switch y := in.(type) {
		case *ssa.Store:
			if y.Addr != al || y.Val == al {
				return nil, false
			}
			vals = append(vals, y.Val)
		case *ssa.UnOp:
			if y.Op != token.MUL {
				return nil, false
			}
		case *ssa.DebugRef:
		default:
			return nil, false
		}
	}
	return vals, true
}

// c17Containers lists the memory kinds a write through addr lands in: the directly written cell and
// every cell it is embedded in by value, together with the reference the outermost one hangs off.
func c17Containers(addr ssa.Value) (kinds []string, base ssa.Value) {
	v := addr
	for {
		switch x := v.(type) {
		case *ssa.FieldAddr:
			kinds = append(kinds, c17TypeKey(c17Deref(x.X.Type())))
			v = x.X
			// the struct may itself be embedded in another cell
			switch x.X.(type) {
			case *ssa.FieldAddr, *ssa.IndexAddr:
				continue
			}
			return kinds, x.X
		case *ssa.IndexAddr:
			switch tt := x.X.Type().Underlying().(type) {
			case *types.Slice:
				kinds = append(kinds, "[]"+c17TypeKey(tt.Elem()))
				return kinds, x.X
			case *types.Pointer: // pointer to array
				kinds = append(kinds, c17TypeKey(tt.Elem()))
				if arr, ok := tt.Elem().Underlying().(*types.Array); ok {
					kinds = append(kinds, "[]"+c17TypeKey(arr.Elem()))
				}
				v = x.X
				switch x.X.(type) {
				case *ssa.FieldAddr, *ssa.IndexAddr:
					continue
				}
				return kinds, x.X
			}
			return kinds, x.X
		default:
			kinds = append(kinds, c17TypeKey(c17Deref(v.Type())))
			return kinds, v
		}
	}
}

// c17RefKinds lists the memory kinds reachable in one step through a reference value handed to a callee.
func c17RefKinds(v ssa.Value) []string {
	t := v.Type()
	if mi, ok := v.(*ssa.MakeInterface); ok {
		t = mi.X.Type()
	}
	switch tt := t.Underlying().(type) {
	case *types.Pointer:
		ks := []string{c17TypeKey(tt.Elem())}
		if arr, ok := tt.Elem().Underlying().(*types.Array); ok {
			ks = append(ks, "[]"+c17TypeKey(arr.Elem()))
		}
		return ks
	case *types.Slice:
		return []string{"[]" + c17TypeKey(tt.Elem())}
	case *types.Map:
		return []string{c17TypeKey(tt)}
	}
	return nil
}

type c17Write struct {
	pos   token.Pos
	what  string   // description of the write
	kinds []string // memory kinds written
	base  ssa.Value
	undec bool // external callee with unknown effect
}

// c17ExternalMutator reports whether a non-repository callee writes through its reference arguments.
func c17ExternalMutator(fn *ssa.Function) (mutates bool, readonly bool) {
	pkg := ""
	if fn.Pkg != nil && fn.Pkg.Pkg != nil {
		pkg = fn.Pkg.Pkg.Path()
	} else if o := fn.Origin(); o != nil && o.Pkg != nil && o.Pkg.Pkg != nil {
		pkg = o.Pkg.Pkg.Path()
	} else if obj := fn.Object(); obj != nil && obj.Pkg() != nil {
		pkg = obj.Pkg().Path()
	}
	name := fn.Name()
	if o := fn.Origin(); o != nil {
		name = o.Name()
	}
	switch pkg {
	case "sort":
		if strings.HasPrefix(name, "Search") || name == "IsSorted" || strings.HasSuffix(name, "AreSorted") || name == "Len" || name == "Less" || name == "Find" {
			return false, true
		}
		return true, false
	case "slices":
		switch name {
		case "Sort", "SortFunc", "SortStableFunc", "Reverse", "Insert", "Delete", "DeleteFunc", "Compact", "CompactFunc", "Replace", "Clip", "Grow":
			return true, false
		}
		return false, true
	case "fmt", "strings", "strconv", "math", "errors":
		return false, true
	}
	if name == "Reverse" || name == "Swap" || strings.HasPrefix(name, "Sort") {
		return true, false
	}
	return false, false
}

// c17FunctionWrites enumerates the memory writes of one function.
func c17FunctionWrites(p *core.Program, cgOut map[ssa.CallInstruction][]*ssa.Function, fn *ssa.Function) []c17Write {
	var ws []c17Write
	for _, b := range fn.Blocks {
		for _, in := range b.Instrs {
			switch x := in.(type) {
			case *ssa.Store:
				kinds, base := c17Containers(x.Addr)
				ws = append(ws, c17Write{pos: x.Pos(), what: "store", kinds: kinds, base: base})
			case *ssa.MapUpdate:
				ws = append(ws, c17Write{pos: x.Pos(), what: "map update", kinds: []string{c17TypeKey(x.Map.Type().Underlying())}, base: x.Map})
			case ssa.CallInstruction:
				com := x.Common()
				if bi, ok := com.Value.(*ssa.Builtin); ok {
					switch bi.Name() {
					case "append":
						if len(com.Args) > 0 {
							if sl, ok := com.Args[0].Type().Underlying().(*types.Slice); ok {
								ws = append(ws, c17Write{pos: x.Pos(), what: "append (writes in place into spare capacity)", kinds: []string{"[]" + c17TypeKey(sl.Elem())}, base: com.Args[0]})
							}
						}
					case "copy":
						if len(com.Args) > 0 {
							ws = append(ws, c17Write{pos: x.Pos(), what: "copy into", kinds: c17RefKinds(com.Args[0]), base: com.Args[0]})
						}
					case "delete", "clear":
						if len(com.Args) > 0 {
							ws = append(ws, c17Write{pos: x.Pos(), what: bi.Name(), kinds: c17RefKinds(com.Args[0]), base: com.Args[0]})
						}
					}
					continue
				}
				// non-repository callees: enumerated in-place mutators; anything else receiving references is undecided
				var callees []*ssa.Function
				if sc := com.StaticCallee(); sc != nil {
					callees = []*ssa.Function{sc}
				} else {
					callees = cgOut[x]
				}
				for _, cal := range callees {
					if cal == nil || c17IsRepoFunc(p, cal) {
						continue
					}
					if cal.Synthetic != "" && len(cal.Blocks) > 0 {
						continue // wrappers/thunks: their bodies call the real function, which the graph reaches
					}
					mut, ro := c17ExternalMutator(cal)
					if ro {
						continue
					}
					args := com.Args
					for _, a := range args {
						kinds := c17RefKinds(a)
						if len(kinds) == 0 {
							continue
						}
						w := c17Write{pos: x.Pos(), kinds: kinds, base: a}
						if mut {
							w.what = "in-place mutator " + cal.String() + " applied to"
						} else {
							w.what = "non-repository callee " + cal.String() + " (effect unknown) receives"
							w.undec = true
						}
						ws = append(ws, w)
					}
				}
			}
		}
	}
	return ws
}

func c17G1(r *core.R) {
	t := c17ConvertTree(r)
	if t == nil {
		return
	}
	mem := c17InputMemory(r.P)
	if len(mem) == 0 || !mem[core.ModulePath+".Node"] || !mem["[]"+core.ModulePath+".WayNode"] || !mem["[]"+core.ModulePath+".Tag"] || !mem["[]"+core.ModulePath+".Member"] {
		r.Anchor("input memory model: osm.OSM → Node, []WayNode, []Tag, []Member")
		return
	}
	r.Stat("functions_visited_in_call_graph", t.visited)
	r.Stat("reachable_repository_functions", len(t.order))
	r.Stat("input_memory_kinds", len(mem))
	// per-site callees from the call graph for dynamic calls
	cg := r.P.CallGraph()
	for _, fn := range t.order {
		cgOut := map[ssa.CallInstruction][]*ssa.Function{}
		if n := cg.Nodes[fn]; n != nil {
			for _, e := range n.Out {
				if e.Site != nil {
					cgOut[e.Site] = append(cgOut[e.Site], e.Callee.Func)
				}
			}
		}
		name := c17FnName(fn)
		c := "writes@" + name
		ws := c17FunctionWrites(r.P, cgOut, fn)
		r.Stat("memory_writes_examined", len(ws))
		nInputTyped := 0
		nViaCaller := 0
		bad := 0
		for _, w := range ws {
			var origins []c17Origin
			c17Origins(w.base, false, map[ssa.Value]bool{}, &origins)
			// package-level state
			var glob *ssa.Global
			for _, o := range origins {
				if g, ok := o.v.(*ssa.Global); ok && o.kind == "global" && g.Pkg != nil && c17IsRepoPkgPath(g.Pkg.Pkg.Path()) && !w.undec {
					glob = g
				}
			}
			if glob != nil {
				bad++
				r.Bad(c, w.pos, "%s %s: the target is rooted in the package-level variable %s; conversion must not write shared state (equal input would no longer give equal output, concurrent conversions race) [path: %s]",
					w.what, c17ValueDesc(w.base), glob.String(), t.path(fn))
				continue
			}
			hit := ""
			for _, k := range w.kinds {
				if mem[k] {
					hit = k
					break
				}
			}
			if hit == "" {
				continue
			}
			nInputTyped++
			allFresh := len(origins) > 0
			var culprit c17Origin
			for _, o := range origins {
				if !o.fresh() {
					allFresh = false
					culprit = o
					break
				}
			}
			if allFresh {
				continue
			}
			if !w.undec && c17FreshAtCallers(cg, fn, origins) {
				// an extracted helper filling memory its callers have just allocated (`w := &osm.Way{}; fill(w, m)`)
				nViaCaller++
				continue
			}
			bad++
			root := c17OriginDesc(culprit)
			if w.undec {
				r.Unknown(c, w.pos, "%s %s, memory of kind %s that can be input memory (root: %s); the callee is not among the enumerated read-only or in-place-mutating non-repository functions [path: %s]",
					w.what, c17ValueDesc(w.base), hit, root, t.path(fn))
				continue
			}
			r.Bad(c, w.pos, "%s %s writes memory of kind %s, which is reachable from the *osm.OSM given to Convert, and the target is not allocated in this function (root: %s): the input data would be modified [path: %s]",
				w.what, c17ValueDesc(w.base), hit, root, t.path(fn))
		}
		if bad == 0 {
			pos := fn.Pos()
			if len(ws) == 0 {
				r.OKTrivial(c, pos, "no memory write in the function [path: %s]", t.path(fn))
			} else {
				r.OK(c, pos, "%d write(s) examined (stores, map updates, append/copy/delete, external mutators): %d into input-typed memory, each rooted in an allocation of this function (%d through a parameter that every caller binds to its own fresh allocation); none into package state [path: %s]",
					len(ws), nInputTyped, nViaCaller, t.path(fn))
			}
		}
	}
}

// c17FreshAtCallers: every non-fresh origin of the write is a parameter of fn itself (no pointer loaded on the way), fn
// is an unexported function reached only by static calls, and at every call site the corresponding argument is rooted
// only in allocations of the caller. This is what "extract function" produces when the extracted statements fill a
// value the original function allocated.
func c17FreshAtCallers(cg *callgraph.Graph, fn *ssa.Function, origins []c17Origin) bool {
	obj, _ := fn.Object().(*types.Func)
	if obj == nil || obj.Exported() || fn.Parent() != nil {
		return false
	}
	node := cg.Nodes[fn]
	if node == nil || len(node.In) == 0 {
		return false
	}
	for _, o := range origins {
		if o.fresh() {
			continue
		}
		prm, ok := o.v.(*ssa.Parameter)
		if !ok || o.kind != "param" || o.viaLoad {
			return false
		}
		idx := -1
		for i, p := range fn.Params {
			if p == prm {
				idx = i
			}
		}
		if idx < 0 {
			return false
		}
		for _, e := range node.In {
			if e.Site == nil || e.Site.Common().StaticCallee() != fn || idx >= len(e.Site.Common().Args) {
				return false
			}
			if _, isGo := e.Site.(*ssa.Go); isGo {
				return false
			}
			var argOrigins []c17Origin
			c17Origins(e.Site.Common().Args[idx], false, map[ssa.Value]bool{}, &argOrigins)
			if len(argOrigins) == 0 {
				return false
			}
			for _, ao := range argOrigins {
				if !ao.fresh() {
					return false
				}
			}
		}
	}
	// a function whose address is taken could be called with anything
	for _, e := range node.In {
		if e.Site == nil {
			return false
		}
	}
	return true
}

func c17IsRepoPkgPath(p string) bool {
	return p == core.ModulePath || strings.HasPrefix(p, core.ModulePath+"/")
}

func c17ValueDesc(v ssa.Value) string {
	s := v.Name()
	switch x := v.(type) {
	case *ssa.Parameter:
		return "parameter " + x.Name()
	case *ssa.UnOp:
		if x.Op == token.MUL {
			return "*(" + c17AddrDesc(x.X) + ")"
		}
	case *ssa.FieldAddr, *ssa.IndexAddr:
		return c17AddrDesc(v)
	case *ssa.Global:
		return x.String()
	case *ssa.MakeInterface:
		return c17ValueDesc(x.X)
	case *ssa.ChangeType:
		return c17ValueDesc(x.X)
	case *ssa.Field:
		return c17ValueDesc(x.X) + "." + c17FieldName(x.X.Type(), x.Field)
	}
	return s + " (" + types.TypeString(v.Type(), func(p *types.Package) string { return p.Name() }) + ")"
}

func c17FieldName(t types.Type, i int) string {
	if st, ok := c17Deref(t).Underlying().(*types.Struct); ok && i < st.NumFields() {
		return st.Field(i).Name()
	}
	return fmt.Sprintf("#%d", i)
}

func c17AddrDesc(v ssa.Value) string {
	switch x := v.(type) {
	case *ssa.FieldAddr:
		return c17AddrDesc(x.X) + "." + c17FieldName(x.X.Type(), x.Field)
	case *ssa.IndexAddr:
		return c17AddrDesc(x.X) + "[…]"
	case *ssa.UnOp:
		if x.Op == token.MUL {
			return c17AddrDesc(x.X)
		}
	case *ssa.Parameter:
		return x.Name()
	case *ssa.FreeVar:
		return x.Name()
	case *ssa.Global:
		return x.Name()
	case *ssa.Alloc:
		if x.Comment != "" {
			return x.Comment
		}
	case *ssa.Field:
		return c17AddrDesc(x.X) + "." + c17FieldName(x.X.Type(), x.Field)
	case *ssa.ChangeType:
		return c17AddrDesc(x.X)
	case *ssa.Phi:
		if x.Comment != "" {
			return x.Comment
		}
	case *ssa.Slice:
		return c17AddrDesc(x.X) + "[:]"
	case *ssa.Lookup:
		return c17AddrDesc(x.X) + "[…]"
	case *ssa.Extract:
		return c17AddrDesc(x.Tuple)
	}
	return v.Name()
}

func c17OriginDesc(o c17Origin) string {
	d := o.kind + " " + c17AddrDesc(o.v) + " of type " + types.TypeString(o.v.Type(), func(p *types.Package) string { return p.Name() })
	if o.viaLoad {
		d += ", reached through a pointer/slice loaded from memory (never fresh)"
	}
	return d
}

// c17CallbackAdmitted decides whether an edge from non-repository code to c is followed.
func c17CallbackAdmitted(c *ssa.Function, ifaceTypes map[string]bool, funcVals map[*ssa.Function]bool) bool {
	recv := c.Signature.Recv()
	if recv != nil {
		nt, ok := c17Deref(recv.Type()).(*types.Named)
		if ok && c17IsRepoNamed(nt) {
			return ifaceTypes[c17TypeKey(nt)]
		}
		return true
	}
	if c.Pkg != nil && c.Pkg.Pkg != nil && c17IsRepoPkgPath(c.Pkg.Pkg.Path()) && c.Synthetic == "" {
		if c.Parent() != nil {
			// a closure is reachable exactly when the function creating it is (added there)
			return false
		}
		return funcVals[c]
	}
	return true
}

// ---------------------------------------------------------------------------
// G2: determinism (map ranges in the call tree)

// c17FuncSyntax returns the body, the package and a display name of a reachable function.
func c17FuncSyntax(p *core.Program, fn *ssa.Function) (*ast.BlockStmt, *packages.Package) {
	var body *ast.BlockStmt
	switch n := fn.Syntax().(type) {
	case *ast.FuncDecl:
		body = n.Body
	case *ast.FuncLit:
		body = n.Body
	}
	sp := fn.Pkg
	if sp == nil && fn.Parent() != nil {
		sp = fn.Parent().Pkg
	}
	if body == nil || sp == nil || sp.Pkg == nil {
		return nil, nil
	}
	return body, p.ByPath[sp.Pkg.Path()]
}

func c17IsLocalTo(o types.Object, n ast.Node) bool {
	return o != nil && o.Pos() >= n.Pos() && o.Pos() <= n.End()
}

// c17MapRangeVerdict classifies the body of a range over a map.
// It returns bad (order-dependent effect), unknown (effect outside the enumerated idioms) and the
// reasons for an order-independent body.
func c17MapRangeVerdict(fset *token.FileSet, info *types.Info, fnBody *ast.BlockStmt, rs *ast.RangeStmt) (bad, unknown string, reasons []string) {
	note := map[string]bool{}
	addNote := func(s string) {
		if !note[s] {
			note[s] = true
			reasons = append(reasons, s)
		}
	}
	setBad := func(format string, a ...interface{}) {
		if bad == "" {
			bad = fmt.Sprintf(format, a...)
		}
	}
	setUnknown := func(format string, a ...interface{}) {
		if unknown == "" {
			unknown = fmt.Sprintf(format, a...)
		}
	}
	loopVar := func(o types.Object) bool {
		return o != nil && ((rs.Key != nil && objOf(info, rs.Key) == o) || (rs.Value != nil && objOf(info, rs.Value) == o))
	}
	mentionsLoopVar := func(e ast.Node) bool {
		f := false
		ast.Inspect(e, func(n ast.Node) bool {
			if id, ok := n.(*ast.Ident); ok {
				if o := info.Uses[id]; o != nil && (loopVar(o) || c17IsLocalTo(o, rs.Body)) {
					f = true
				}
			}
			return !f
		})
		return f
	}
	sortedAfter := func(o types.Object) token.Pos {
		var at token.Pos
		ast.Inspect(fnBody, func(n ast.Node) bool {
			call, ok := n.(*ast.CallExpr)
			if !ok || call.Pos() < rs.End() || at.IsValid() {
				return true
			}
			fn := callee(info, call)
			if fn == nil || fn.Pkg() == nil {
				return true
			}
			isSort := (fn.Pkg().Path() == "sort" && !strings.HasPrefix(fn.Name(), "Search")) ||
				(fn.Pkg().Path() == "slices" && strings.HasPrefix(fn.Name(), "Sort")) || strings.HasPrefix(fn.Name(), "Sort")
			if isSort && usesObj(info, call, o) {
				at = call.Pos()
			}
			return true
		})
		return at
	}
	inspectNoLit(rs.Body, func(n ast.Node) bool {
		switch x := n.(type) {
		case *ast.AssignStmt:
			for i, l := range x.Lhs {
				l = ast.Unparen(l)
				if id, ok := l.(*ast.Ident); ok && id.Name == "_" {
					continue
				}
				root := rootObj(info, l)
				if x.Tok == token.DEFINE || c17IsLocalTo(root, rs.Body) || loopVar(root) {
					continue // loop-local state, or the element itself (each element is visited once)
				}
				if ix, ok := l.(*ast.IndexExpr); ok {
					if _, isMap := info.TypeOf(ix.X).Underlying().(*types.Map); isMap {
						addNote("fills map " + src(fset, ix.X) + " (a map has no order)")
						continue
					}
				}
				var rhs ast.Expr
				if len(x.Rhs) == len(x.Lhs) {
					rhs = x.Rhs[i]
				}
				if call, ok := rhs.(*ast.CallExpr); ok && builtinName(info, call) == "append" {
					if at := sortedAfter(root); at.IsValid() {
						addNote("appends to " + src(fset, l) + ", which is sorted after the loop")
						continue
					}
					setBad("`%s` appends to %s, which outlives the loop, in hash-map iteration order and it is not sorted afterwards", src(fset, x), src(fset, l))
					continue
				}
				switch x.Tok {
				case token.ADD_ASSIGN, token.SUB_ASSIGN, token.MUL_ASSIGN, token.OR_ASSIGN, token.AND_ASSIGN, token.XOR_ASSIGN:
					if b, ok := info.TypeOf(l).Underlying().(*types.Basic); ok && b.Info()&types.IsInteger != 0 {
						addNote("integer accumulation into " + src(fset, l) + " (commutative)")
						continue
					}
					setBad("`%s` accumulates a non-integer value in hash-map iteration order (string concatenation and float sums depend on the order)", src(fset, x))
					continue
				}
				if rhs != nil && !mentionsLoopVar(rhs) {
					if tv, ok := info.Types[rhs]; ok && (tv.Value != nil || tv.IsNil()) {
						addNote("sets " + src(fset, l) + " to a constant (idempotent)")
						continue
					}
				}
				setBad("`%s` assigns a value taken from the current map entry to %s, which outlives the loop: which entry wins depends on hash-map iteration order", src(fset, x), src(fset, l))
			}
		case *ast.IncDecStmt:
			root := rootObj(info, x.X)
			if !c17IsLocalTo(root, rs.Body) && !loopVar(root) {
				addNote("counts into " + src(fset, x.X) + " (commutative)")
			}
		case *ast.ReturnStmt:
			for _, res := range x.Results {
				if mentionsLoopVar(res) {
					setBad("`%s` returns a value taken from whichever map entry is visited first", src(fset, x))
				}
			}
			addNote("returns a loop-independent value (existence test)")
		case *ast.SendStmt, *ast.GoStmt, *ast.DeferStmt:
			setBad("`%s` emits an effect per entry in hash-map iteration order", src(fset, x))
		case *ast.ExprStmt:
			call, ok := x.X.(*ast.CallExpr)
			if !ok {
				return true
			}
			if b := builtinName(info, call); b == "delete" || b == "panic" || b == "clear" {
				return true
			}
			if sel, ok := ast.Unparen(call.Fun).(*ast.SelectorExpr); ok {
				if root := rootObj(info, sel.X); loopVar(root) || c17IsLocalTo(root, rs.Body) {
					addNote("calls a method on the current entry (each entry is visited once)")
					return true
				}
			}
			setUnknown("`%s`: a call statement with effects outside the loop under map iteration is not among the enumerated order-independent idioms (map fill, integer accumulation, constant flag, existence return, per-entry method)", src(fset, x))
		}
		return true
	})
	if len(reasons) == 0 {
		reasons = []string{"the body has no effect that outlives an iteration"}
	}
	return
}

func c17G2(r *core.R) {
	t := c17ConvertTree(r)
	if t == nil {
		return
	}
	nranges := 0
	for _, fn := range t.order {
		body, pk := c17FuncSyntax(r.P, fn)
		name := c17FnName(fn)
		if body == nil || pk == nil {
			r.Unknown("maprange@"+name, fn.Pos(), "no syntax for reachable repository function")
			continue
		}
		info := pk.TypesInfo
		found := 0
		inspectNoLit(body, func(n ast.Node) bool {
			rs, ok := n.(*ast.RangeStmt)
			if !ok {
				return true
			}
			tx := info.TypeOf(rs.X)
			if tx == nil {
				return true
			}
			if _, isMap := tx.Underlying().(*types.Map); !isMap {
				return true
			}
			found++
			nranges++
			c := "maprange@" + name + " " + src(r.P.Fset, rs.X)
			bad, unknown, reasons := c17MapRangeVerdict(r.P.Fset, info, body, rs)
			switch {
			case bad != "":
				r.Bad(c, rs.Pos(), "range over map %s in the call tree of Convert: %s; equal input would not give equal output [path: %s]", src(r.P.Fset, rs.X), bad, t.path(fn))
			case unknown != "":
				r.Unknown(c, rs.Pos(), "range over map %s: %s [path: %s]", src(r.P.Fset, rs.X), unknown, t.path(fn))
			default:
				r.OKTrivial(c, rs.Pos(), "range over map %s is order-independent: %s", src(r.P.Fset, rs.X), strings.Join(reasons, "; "))
			}
			return true
		})
		if found == 0 {
			r.OKTrivial("maprange@"+name, fn.Pos(), "no range over a map in the function (slices and strings iterate in index order)")
		}
	}
	r.Stat("map_ranges_in_convert_tree", nranges)
}

// ---------------------------------------------------------------------------
// G3: options only subtract

// c17OptionRoles documents the role of each option field of the conversion context.
var c17OptionRoles = map[string]string{
	"noID":                   "id",
	"noMeta":                 "meta",
	"noRelationMembership":   "membership",
	"includeInvalidPolygons": "invalid",
}

const c17FeaturePath = "github.com/paulmach/orb/geojson.Feature"

type c17Opt struct {
	pk       *packages.Package
	info     *types.Info
	ctxNamed *types.Named
	optSig   types.Type
	fields   []*types.Var // option fields
	member   *types.Var   // relation membership map field
	skip     *types.Var   // skippable set field
	// the fields of the context and of the structs of the package it holds by value or pointer (embedded
	// `config`, a named `cfg config` field, …): field -> the field of its parent that holds it (nil at top level)
	all map[*types.Var]*types.Var
}

func c17LoadOptions(r *core.R) *c17Opt {
	pk := r.P.Pkg(c17GeoPkg)
	if pk == nil {
		r.Anchor("package osmgeojson")
		return nil
	}
	o := &c17Opt{pk: pk, info: pk.TypesInfo}
	optObj := pk.Types.Scope().Lookup("Option")
	if optObj == nil {
		r.Anchor("osmgeojson.Option")
		return nil
	}
	sig, ok := optObj.Type().Underlying().(*types.Signature)
	if !ok || sig.Params().Len() != 1 {
		r.Anchor("osmgeojson.Option as func(*context) error")
		return nil
	}
	o.optSig = sig
	o.ctxNamed, _ = c17Deref(sig.Params().At(0).Type()).(*types.Named)
	if o.ctxNamed == nil {
		r.Anchor("conversion context type (parameter of Option)")
		return nil
	}
	st, ok := o.ctxNamed.Underlying().(*types.Struct)
	if !ok {
		r.Anchor("conversion context struct")
		return nil
	}
	o.all = map[*types.Var]*types.Var{}
	var collect func(st *types.Struct, holder *types.Var, depth int)
	collect = func(st *types.Struct, holder *types.Var, depth int) {
		for i := 0; i < st.NumFields(); i++ {
			f := st.Field(i)
			if _, dup := o.all[f]; dup {
				continue
			}
			o.all[f] = holder
			if nt, ok := c17Deref(f.Type()).(*types.Named); ok && nt.Obj().Pkg() == pk.Types && depth < 3 {
				if inner, ok := nt.Underlying().(*types.Struct); ok {
					collect(inner, f, depth+1)
				}
			}
		}
	}
	collect(st, nil, 0)
	var ordered []*types.Var
	for f := range o.all {
		ordered = append(ordered, f)
	}
	sort.Slice(ordered, func(i, j int) bool { return ordered[i].Pos() < ordered[j].Pos() })
	for _, f := range ordered {
		if mt, ok := f.Type().Underlying().(*types.Map); ok {
			switch {
			case namedPath(mt.Key()) == core.ModulePath+".FeatureID":
				o.member = f
			case namedPath(mt.Key()) == core.ModulePath+".WayID":
				// a set of way ids: map[osm.WayID]struct{} or map[osm.WayID]bool
				if s, ok := mt.Elem().Underlying().(*types.Struct); ok && s.NumFields() == 0 {
					o.skip = f
				} else if c17IsBool(mt.Elem()) {
					o.skip = f
				}
			}
		}
	}
	// option fields: the context fields assigned inside function literals of type Option
	seen := map[*types.Var]bool{}
	for _, f := range pk.Syntax {
		ast.Inspect(f, func(n ast.Node) bool {
			lit, ok := n.(*ast.FuncLit)
			if !ok || !types.Identical(o.info.TypeOf(lit), o.optSig) {
				return true
			}
			ast.Inspect(lit.Body, func(m ast.Node) bool {
				if as, ok := m.(*ast.AssignStmt); ok {
					for _, l := range as.Lhs {
						if fv := fieldOf(o.info, l); fv != nil && o.isCtxField(fv) && !seen[fv] {
							seen[fv] = true
							o.fields = append(o.fields, fv)
						}
					}
				}
				return true
			})
			return true
		})
	}
	sort.Slice(o.fields, func(i, j int) bool { return o.fields[i].Pos() < o.fields[j].Pos() })
	return o
}

// isCtxField: f is a field of the context or of a struct the context holds (promoted or explicitly selected).
func (o *c17Opt) isCtxField(f *types.Var) bool {
	_, ok := o.all[f]
	return ok
}

// holds reports whether holder (a field of the context) is, directly or transitively, the struct f lives in.
func (o *c17Opt) holds(holder, f *types.Var) bool {
	for h := o.all[f]; h != nil; h = o.all[h] {
		if h == holder {
			return true
		}
	}
	return false
}

// structHas reports whether the struct type t (of the package) has field f, directly or through held structs.
func (o *c17Opt) structHas(t types.Type, f *types.Var) bool {
	st, ok := c17Deref(t).Underlying().(*types.Struct)
	if !ok {
		return false
	}
	for i := 0; i < st.NumFields(); i++ {
		if st.Field(i) == f || o.holds(st.Field(i), f) {
			return true
		}
	}
	return false
}

// c17IsAssignLHS reports whether e is (part of the left-hand side chain of) an assignment target.
func c17IsAssignLHS(par map[ast.Node]ast.Node, e ast.Expr) bool {
	var n ast.Node = e
	for {
		p := par[n]
		switch x := p.(type) {
		case *ast.ParenExpr:
			n = p
			continue
		case *ast.AssignStmt:
			for _, l := range x.Lhs {
				if l == n {
					return true
				}
			}
			return false
		}
		return false
	}
}

// c17PropKey returns the constant property name of `X["name"]` where X is a map with string keys.
func c17PropKey(info *types.Info, e ast.Expr) (string, bool) {
	ix, ok := ast.Unparen(e).(*ast.IndexExpr)
	if !ok {
		return "", false
	}
	if _, isMap := info.TypeOf(ix.X).Underlying().(*types.Map); !isMap {
		return "", false
	}
	return constString(info, ix.Index)
}

// c17PureCall reports whether the call cannot write anything visible: builtins, conversions, methods of
// package time, and functions declared in package osm (their writes are decided by G1).
func c17PureCall(info *types.Info, call *ast.CallExpr) bool {
	if tv, ok := info.Types[call.Fun]; ok && tv.IsType() {
		return true
	}
	if b := builtinName(info, call); b != "" {
		return b == "len" || b == "cap" || b == "make" || b == "new" || b == "panic" || b == "append"
	}
	fn := callee(info, call)
	if fn == nil || fn.Pkg() == nil {
		return false
	}
	switch fn.Pkg().Path() {
	case "time", core.ModulePath, "fmt":
		return true
	}
	return false
}

type c17Read struct {
	fi   *FuncInfo
	expr ast.Expr
}

// c17FieldReads lists the read sites of a struct field in the package.
func c17FieldReads(p *core.Program, pk *packages.Package, f *types.Var) []c17Read {
	var out []c17Read
	for _, fi := range allFuncs(pk) {
		par := parentsOf(p, fi)
		ast.Inspect(fi.Decl.Body, func(n ast.Node) bool {
			sel, ok := n.(*ast.SelectorExpr)
			if !ok {
				return true
			}
			if s := pk.TypesInfo.Selections[sel]; s == nil || s.Obj() != f {
				return true
			}
			if c17IsAssignLHS(par, sel) {
				return true
			}
			out = append(out, c17Read{fi: fi, expr: sel})
			return true
		})
	}
	return out
}

func c17IsParam(fi *FuncInfo, o *types.Var) bool {
	sig := fi.Obj.Type().(*types.Signature)
	for i := 0; i < sig.Params().Len(); i++ {
		if sig.Params().At(i) == o {
			return true
		}
	}
	return false
}

// ---------------------------------------------------------------------------
// G4: sibling consistency of the meta cases

// c17Cmp compares two case bodies up to the element type: identifiers must denote the same object, or both the
// implicit case variable, or corresponding locals of the two cases (a bijection built on the way, names do not
// matter), or fields of the same name and type; literals must be equal.
type c17Cmp struct {
	info     *types.Info
	va, vb   types.Object // the case variables
	ra, rb   ast.Node     // the two case clauses (locality of identifiers)
	fwd, bwd map[types.Object]types.Object
	inits    map[types.Object]ast.Expr
}

func c17NewCmp(info *types.Info, ra, rb ast.Node, va, vb types.Object) *c17Cmp {
	return &c17Cmp{info: info, va: va, vb: vb, ra: ra, rb: rb, fwd: map[types.Object]types.Object{}, bwd: map[types.Object]types.Object{}, inits: map[types.Object]ast.Expr{}}
}

func (c *c17Cmp) clone() *c17Cmp {
	d := c17NewCmp(c.info, c.ra, c.rb, c.va, c.vb)
	d.inits = c.inits
	for k, v := range c.fwd {
		d.fwd[k] = v
	}
	for k, v := range c.bwd {
		d.bwd[k] = v
	}
	return d
}

// defInit returns E when o is a case-local variable defined exactly once by `o := E` in clause, E being free of
// calls with unknown effects: such a local is a name for E (`if uid := e.UserID; uid != 0 { m["uid"] = uid }`).
func (c *c17Cmp) defInit(o types.Object, clause ast.Node) ast.Expr {
	if o == nil || !c17IsLocalTo(o, clause) {
		return nil
	}
	if e, ok := c.inits[o]; ok {
		return e
	}
	var init ast.Expr
	n := 0
	ast.Inspect(clause, func(x ast.Node) bool {
		switch s := x.(type) {
		case *ast.AssignStmt:
			for i, l := range s.Lhs {
				if objOf(c.info, l) != o {
					continue
				}
				n++
				if s.Tok == token.DEFINE && len(s.Lhs) == len(s.Rhs) {
					init = s.Rhs[i]
				} else {
					n++
				}
			}
		case *ast.IncDecStmt:
			if objOf(c.info, s.X) == o {
				n += 2
			}
		case *ast.UnaryExpr:
			if s.Op == token.AND && objOf(c.info, s.X) == o {
				n += 2
			}
		}
		return true
	})
	if n != 1 || init == nil {
		init = nil
	} else {
		ast.Inspect(init, func(x ast.Node) bool {
			if call, ok := x.(*ast.CallExpr); ok && !c17PureCall(c.info, call) {
				init = nil
			}
			return init != nil
		})
	}
	c.inits[o] = init
	return init
}

// expand replaces an identifier naming a defInit local by the expression it stands for.
func (c *c17Cmp) expand(n ast.Node, clause ast.Node) ast.Node {
	for i := 0; i < 3; i++ {
		id, ok := n.(*ast.Ident)
		if !ok {
			return n
		}
		e := c.defInit(c.info.Uses[id], clause)
		if e == nil {
			return n
		}
		n = ast.Unparen(e)
	}
	return n
}

// isNaming reports whether st only defines defInit locals (it then has no counterpart of its own).
func (c *c17Cmp) isNaming(st ast.Stmt, clause ast.Node) bool {
	as, ok := st.(*ast.AssignStmt)
	if !ok || as.Tok != token.DEFINE {
		return false
	}
	for _, l := range as.Lhs {
		if c.defInit(objOf(c.info, l), clause) == nil {
			return false
		}
	}
	return true
}

func (c *c17Cmp) stmts(list []ast.Stmt, clause ast.Node) []ast.Stmt {
	var out []ast.Stmt
	for _, st := range list {
		if !c.isNaming(st, clause) {
			out = append(out, st)
		}
	}
	return out
}

func (c *c17Cmp) same(a, b ast.Node) bool {
	info := c.info
	if a != nil && b != nil {
		a, b = c.expand(a, c.ra), c.expand(b, c.rb)
		if pa, ok := a.(*ast.ParenExpr); ok {
			a = pa.X
		}
		if pb, ok := b.(*ast.ParenExpr); ok {
			b = pb.X
		}
	}
	if a == nil || b == nil {
		return a == nil && b == nil
	}
	switch x := a.(type) {
	case *ast.Ident:
		y, ok := b.(*ast.Ident)
		if !ok {
			return false
		}
		oa, ob := info.Uses[x], info.Uses[y]
		if oa == nil {
			oa = info.Defs[x]
		}
		if ob == nil {
			ob = info.Defs[y]
		}
		if oa == nil || ob == nil {
			return oa == nil && ob == nil && x.Name == y.Name // blank identifiers
		}
		if oa == c.va || ob == c.vb {
			return oa == c.va && ob == c.vb
		}
		la, lb := c17IsLocalTo(oa, c.ra), c17IsLocalTo(ob, c.rb)
		if la || lb {
			// locals of the two cases correspond one to one, whatever their names
			if !la || !lb || !types.Identical(oa.Type(), ob.Type()) {
				return false
			}
			if p, ok := c.fwd[oa]; ok {
				return p == ob
			}
			if _, ok := c.bwd[ob]; ok {
				return false
			}
			c.fwd[oa], c.bwd[ob] = ob, oa
			return true
		}
		return oa == ob
	case *ast.SelectorExpr:
		y, ok := b.(*ast.SelectorExpr)
		if !ok || x.Sel.Name != y.Sel.Name {
			return false
		}
		sa, sb := info.Selections[x], info.Selections[y]
		if (sa == nil) != (sb == nil) {
			return false
		}
		if sa != nil {
			if sa.Kind() != sb.Kind() || !types.Identical(sa.Type(), sb.Type()) {
				return false
			}
		} else if info.Uses[x.Sel] != info.Uses[y.Sel] {
			return false
		}
		return c.same(x.X, y.X)
	case *ast.BasicLit:
		y, ok := b.(*ast.BasicLit)
		return ok && x.Kind == y.Kind && x.Value == y.Value
	case *ast.ParenExpr:
		y, ok := b.(*ast.ParenExpr)
		return ok && c.same(x.X, y.X)
	case *ast.UnaryExpr:
		y, ok := b.(*ast.UnaryExpr)
		return ok && x.Op == y.Op && c.same(x.X, y.X)
	case *ast.BinaryExpr:
		y, ok := b.(*ast.BinaryExpr)
		return ok && x.Op == y.Op && c.same(x.X, y.X) && c.same(x.Y, y.Y)
	case *ast.CallExpr:
		y, ok := b.(*ast.CallExpr)
		if !ok || len(x.Args) != len(y.Args) || x.Ellipsis.IsValid() != y.Ellipsis.IsValid() || !c.same(x.Fun, y.Fun) {
			return false
		}
		for i := range x.Args {
			if !c.same(x.Args[i], y.Args[i]) {
				return false
			}
		}
		return true
	case *ast.IndexExpr:
		y, ok := b.(*ast.IndexExpr)
		return ok && c.same(x.X, y.X) && c.same(x.Index, y.Index)
	case *ast.StarExpr:
		y, ok := b.(*ast.StarExpr)
		return ok && c.same(x.X, y.X)
	case *ast.ExprStmt:
		y, ok := b.(*ast.ExprStmt)
		return ok && c.same(x.X, y.X)
	case *ast.IncDecStmt:
		y, ok := b.(*ast.IncDecStmt)
		return ok && x.Tok == y.Tok && c.same(x.X, y.X)
	case *ast.AssignStmt:
		y, ok := b.(*ast.AssignStmt)
		if !ok || x.Tok != y.Tok || len(x.Lhs) != len(y.Lhs) || len(x.Rhs) != len(y.Rhs) {
			return false
		}
		for i := range x.Lhs {
			if !c.same(x.Lhs[i], y.Lhs[i]) {
				return false
			}
		}
		for i := range x.Rhs {
			if !c.same(x.Rhs[i], y.Rhs[i]) {
				return false
			}
		}
		return true
	case *ast.ReturnStmt:
		y, ok := b.(*ast.ReturnStmt)
		if !ok || len(x.Results) != len(y.Results) {
			return false
		}
		for i := range x.Results {
			if !c.same(x.Results[i], y.Results[i]) {
				return false
			}
		}
		return true
	case *ast.BranchStmt:
		y, ok := b.(*ast.BranchStmt)
		return ok && x.Tok == y.Tok
	case *ast.BlockStmt:
		y, ok := b.(*ast.BlockStmt)
		if !ok {
			return false
		}
		lx, ly := c.stmts(x.List, c.ra), c.stmts(y.List, c.rb)
		if len(lx) != len(ly) {
			return false
		}
		for i := range lx {
			if !c.same(lx[i], ly[i]) {
				return false
			}
		}
		return true
	case *ast.IfStmt:
		y, ok := b.(*ast.IfStmt)
		if !ok {
			return false
		}
		ix, iy := x.Init, y.Init
		if ix != nil && c.isNaming(ix, c.ra) {
			ix = nil
		}
		if iy != nil && c.isNaming(iy, c.rb) {
			iy = nil
		}
		if (ix == nil) != (iy == nil) || (x.Else == nil) != (y.Else == nil) {
			return false
		}
		if ix != nil && !c.same(ix, iy) {
			return false
		}
		if x.Else != nil && !c.same(x.Else, y.Else) {
			return false
		}
		return c.same(x.Cond, y.Cond) && c.same(x.Body, y.Body)
	}
	if res, handled := c.sameMore(a, b); handled {
		return res
	}
	return false // statement kinds outside the enumerated ones never compare equal
}

// c17CommutingFill reports whether st only fills constant keys of one map (`M["k"] = v`, possibly under a
// side-effect-free condition) and returns the keys: such statements of one case commute with each other.
func c17CommutingFill(info *types.Info, st ast.Stmt) ([]string, types.Object, bool) {
	var keys []string
	var m types.Object
	ok := true
	var visit func(st ast.Stmt)
	visit = func(st ast.Stmt) {
		switch x := st.(type) {
		case *ast.AssignStmt:
			if x.Tok != token.ASSIGN {
				ok = false
				return
			}
			for _, l := range x.Lhs {
				k, isProp := c17PropKey(info, l)
				root := rootObj(info, l)
				if !isProp || root == nil || (m != nil && root != m) {
					ok = false
					return
				}
				m = root
				keys = append(keys, k)
			}
			for _, rhs := range x.Rhs {
				ast.Inspect(rhs, func(n ast.Node) bool {
					if call, isCall := n.(*ast.CallExpr); isCall && !c17PureCall(info, call) {
						ok = false
					}
					return ok
				})
			}
		case *ast.IfStmt:
			if x.Init != nil || x.Else != nil {
				ok = false
				return
			}
			ast.Inspect(x.Cond, func(n ast.Node) bool {
				if call, isCall := n.(*ast.CallExpr); isCall && !c17PureCall(info, call) {
					ok = false
				}
				return ok
			})
			for _, b := range x.Body.List {
				visit(b)
			}
		default:
			ok = false
		}
	}
	visit(st)
	if ok && m != nil {
		// the values must not read the map being filled
		ast.Inspect(st, func(n ast.Node) bool {
			if ix, isIx := n.(*ast.IndexExpr); isIx && rootObj(info, ix) == m {
				if _, isKey := c17PropKey(info, ix); !isKey {
					ok = false
				}
			}
			return ok
		})
	}
	return keys, m, ok && m != nil
}

// c17SameBodies compares two case bodies: statement by statement, or, when every statement of both is a commuting
// map fill with distinct keys, as sets (the order in which distinct keys of a map are filled is not observable).
func c17SameBodies(fset *token.FileSet, cmp *c17Cmp, ref, cc []ast.Stmt) (diff string, dpos token.Pos) {
	ref, cc = cmp.stmts(ref, cmp.ra), cmp.stmts(cc, cmp.rb)
	seq := cmp.clone()
	for i := 0; i < len(ref) || i < len(cc); i++ {
		switch {
		case i >= len(cc):
			diff = fmt.Sprintf("statement %d of the node case, `%s`, has no counterpart", i+1, src(fset, ref[i]))
			if len(cc) > 0 {
				dpos = cc[len(cc)-1].Pos()
			}
		case i >= len(ref):
			diff = fmt.Sprintf("extra statement `%s`", src(fset, cc[i]))
			dpos = cc[i].Pos()
		case !seq.same(ref[i], cc[i]):
			diff = fmt.Sprintf("statement %d is `%s` where the node case has `%s`", i+1, src(fset, cc[i]), src(fset, ref[i]))
			dpos = cc[i].Pos()
		}
		if diff != "" {
			break
		}
	}
	if diff == "" || len(ref) != len(cc) {
		return
	}
	// order-insensitive comparison
	for _, list := range [][]ast.Stmt{ref, cc} {
		local := map[string]bool{}
		for _, st := range list {
			keys, _, ok := c17CommutingFill(cmp.info, st)
			if !ok {
				return
			}
			for _, k := range keys {
				if local[k] {
					return // the same key filled twice: order matters
				}
				local[k] = true
			}
		}
	}
	used := make([]bool, len(cc))
	for _, rs := range ref {
		found := false
		for j, cs := range cc {
			if used[j] {
				continue
			}
			try := cmp.clone()
			if try.same(rs, cs) {
				used[j], found = true, true
				break
			}
		}
		if !found {
			return fmt.Sprintf("`%s` of the node case has no counterpart (in any order)", src(fset, rs)), cc[0].Pos()
		}
	}
	return "", token.NoPos
}

func c17G4(r *core.R) {
	pk := r.P.Pkg(c17GeoPkg)
	if pk == nil {
		r.Anchor("package osmgeojson")
		return
	}
	info, fset := pk.TypesInfo, r.P.Fset
	want := []string{core.ModulePath + ".Node", core.ModulePath + ".Way", core.ModulePath + ".Relation"}
	nsw := 0
	for _, fi := range allFuncs(pk) {
		ast.Inspect(fi.Decl.Body, func(n ast.Node) bool {
			ts, ok := n.(*ast.TypeSwitchStmt)
			if !ok {
				return true
			}
			// the switched value must be an osm.Element
			var x ast.Expr
			switch a := ts.Assign.(type) {
			case *ast.AssignStmt:
				if len(a.Rhs) == 1 {
					if ta, ok := a.Rhs[0].(*ast.TypeAssertExpr); ok {
						x = ta.X
					}
				}
			case *ast.ExprStmt:
				if ta, ok := a.X.(*ast.TypeAssertExpr); ok {
					x = ta.X
				}
			}
			if x == nil || namedPath(info.TypeOf(x)) != core.ModulePath+".Element" {
				return true
			}
			cases := map[string]*ast.CaseClause{}
			for _, s := range ts.Body.List {
				cc := s.(*ast.CaseClause)
				if len(cc.List) == 1 {
					if pt, ok := info.TypeOf(cc.List[0]).(*types.Pointer); ok {
						cases[namedPath(pt.Elem())] = cc
					}
				}
			}
			if cases[want[0]] == nil {
				return true
			}
			nsw++
			ref := cases[want[0]]
			refVar := info.Implicits[ref]
			// the reference case must do something with the element (vacuity)
			usesVar := false
			var keys []string
			ast.Inspect(ref, func(m ast.Node) bool {
				if id, ok := m.(*ast.Ident); ok && refVar != nil && info.Uses[id] == refVar {
					usesVar = true
				}
				if as, ok := m.(*ast.AssignStmt); ok {
					for _, l := range as.Lhs {
						if k, ok := c17PropKey(info, l); ok {
							keys = append(keys, k)
						}
					}
				}
				return true
			})
			cname := "metacase"
			what := fmt.Sprintf("%d statement(s) reading the element", len(ref.Body))
			if len(keys) > 0 {
				what += " and writing {" + strings.Join(keys, ", ") + "}"
			}
			if len(ref.Body) == 0 || !usesVar {
				r.Bad(cname+" *osm.Node", ref.Pos(), "the node case of the type switch over osm.Element in %s does not read the element: no meta data is produced", fi.Name())
			} else {
				r.OK(cname+" *osm.Node", ref.Pos(), "reference case in %s: %s", fi.Name(), what)
			}
			for _, w := range want[1:] {
				short := "*osm." + w[strings.LastIndexByte(w, '.')+1:]
				cc := cases[w]
				if cc == nil {
					r.Bad(cname+" "+short, ts.Pos(), "the type switch over osm.Element has no case %s: its meta data would be dropped (or the conversion would panic)", short)
					continue
				}
				cmp := c17NewCmp(info, ref, cc, refVar, info.Implicits[cc])
				diff, dpos := c17SameBodies(fset, cmp, ref.Body, cc.Body)
				if !dpos.IsValid() {
					dpos = cc.Pos()
				}
				if diff != "" {
					r.Bad(cname+" "+short, dpos, "case %s differs from case *osm.Node: %s; the meta object of a feature must not depend on the element type", short, diff)
				} else {
					r.OK(cname+" "+short, cc.Pos(), "case %s is identical to case *osm.Node up to the element type, the names of case-local variables and the order of independent map fills (%d statement(s), fields matched by name and type)", short, len(cc.Body))
				}
			}
			return true
		})
	}
	if nsw == 0 {
		r.Anchor("type switch over osm.Element with cases *osm.Node/*osm.Way/*osm.Relation in osmgeojson")
	}
}
