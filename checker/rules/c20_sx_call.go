package rules

import (
	"go/ast"
	"go/types"
)

// call evaluates a call expression: conversions, builtins, modelled library functions, events, inlined package functions.
func (x *c20SX) call(call *ast.CallExpr, st *c20St) []c20EV {
	// conversion
	if tv := x.info.Types[call.Fun]; tv.IsType() && len(call.Args) == 1 {
		var out []c20EV
		for _, r := range x.ev(call.Args[0], st) {
			if r.st.ctl == c20cRun {
				r.v = x.convert(tv.Type, r.v, call)
			}
			out = append(out, r)
		}
		return out
	}
	if b := builtinName(x.info, call); b != "" {
		return x.builtin(b, call, st)
	}
	fn := callee(x.info, call)
	if fn == nil {
		return x.callValue(call, st)
	}
	if out, ok := x.builderCall(fn, call, st); ok {
		return out
	}
	// receiver and arguments
	var exprs []ast.Expr
	hasRecv := false
	if sel, ok := ast.Unparen(call.Fun).(*ast.SelectorExpr); ok {
		if s := x.info.Selections[sel]; s != nil && s.Kind() == types.MethodVal {
			exprs = append(exprs, sel.X)
			hasRecv = true
		}
	}
	exprs = append(exprs, call.Args...)
	var out []c20EV
	for _, it := range x.evList(exprs, st) {
		if it.st.ctl != c20cRun {
			out = append(out, c20EV{it.st, c20V{}})
			continue
		}
		var recv *c20V
		args := it.vs
		if hasRecv {
			recv = &it.vs[0]
			args = it.vs[1:]
		}
		out = append(out, x.apply(fn, call, recv, args, it.st)...)
	}
	return out
}

// results builds opaque results for a call with the given signature: errors become testable error objects.
func (x *c20SX) results(sig *types.Signature, id int, what string) c20V {
	var vs []c20V
	for i := 0; i < sig.Results().Len(); i++ {
		t := sig.Results().At(i).Type()
		if types.Identical(t, types.Universe.Lookup("error").Type()) {
			vs = append(vs, c20V{k: c20kObj, tag: "err", id: id, name: what})
		} else {
			vs = append(vs, c20V{k: c20kObj, tag: "res", id: id*100 + i, n: int64(i), name: what, typ: t})
		}
	}
	if len(vs) == 1 {
		return vs[0]
	}
	return c20V{k: c20kTuple, vs: vs}
}

func (x *c20SX) unknownResults(fn *types.Func, call *ast.CallExpr) c20V {
	u := c20Unknown("result of `%s`", x.srcOf(call))
	if fn != nil {
		if n := c20Sig(fn).Results().Len(); n > 1 {
			t := c20V{k: c20kTuple}
			for i := 0; i < n; i++ {
				t.vs = append(t.vs, u)
			}
			return t
		}
	}
	return u
}

func (x *c20SX) apply(fn *types.Func, call *ast.CallExpr, recv *c20V, args []c20V, st *c20St) []c20EV {
	if fn == nil {
		if why := x.opaqueOrLocalCallIn(call); why != "" {
			return c20One(st.abort(call, "%s through a function value", why), c20V{})
		}
		return c20One(st, c20Unknown("call of a function value `%s`", x.srcOf(call)))
	}
	inlined := fn.Pkg() == x.cx.pk.Types && x.opaque(fn) == "" && x.cx.byObj[fn] != nil && x.cx.byObj[fn].Decl.Body != nil
	if !inlined && c20HasClosure(args) {
		return c20One(st.abort(call, "`%s` passes a function literal to a function that is not inlined (the closure escapes the executor's model)", x.srcOf(call)), c20V{})
	}
	if v, ok := x.model(fn, call, recv, args, st); ok {
		return c20One(st, v)
	}
	if fn.Pkg() == x.cx.pk.Types {
		if kind := x.opaque(fn); kind != "" {
			id := x.newID()
			ev := c20Event{kind: kind, call: call, fn: fn, args: args, ellipsis: call.Ellipsis.IsValid(), id: id}
			for _, a := range args {
				var d *c20V
				if a.k == c20kRef {
					if t, ok := st.env[a.obj]; ok {
						d = &t
					}
				}
				ev.deref = append(ev.deref, d)
			}
			if recv != nil {
				ev.recv = *recv
			}
			st.events = append(st.events, ev)
			return c20One(st, x.results(c20Sig(fn), id, kind))
		}
		if fi := x.cx.byObj[fn]; fi != nil && fi.Decl.Body != nil {
			return x.callInline(fi, call, recv, args, st)
		}
		// interface method of the package: an option's apply method on the element of an option loop
		if recv != nil && recv.k == c20kObj && recv.tag == "optelem" && len(args) == 1 && args[0].k == c20kList {
			if it, ok := recv.typ.Underlying().(*types.Interface); ok && it.NumMethods() == 1 && it.Method(0) == fn {
				id := x.event(st, "optapply", call, fn, recv, args)
				l := args[0]
				marker := c20Sym{{hole: &c20Hole{fn: recv.name + "#1", param: recv.h.param, pname: recv.h.pname}}}
				l.elems = append(append([]c20Sym(nil), l.elems...), marker)
				return c20One(st, c20V{k: c20kTuple, vs: []c20V{l, {k: c20kObj, tag: "err", id: id, name: "option"}}})
			}
		}
	}
	// an unmodelled function that receives (part of) a response document could change what is returned
	all := args
	if recv != nil {
		all = append([]c20V{*recv}, args...)
	}
	for _, a := range all {
		switch a.k {
		case c20kRef:
			// the callee may store through the pointer
			st.env[a.obj] = c20Unknown("`%s` may have been changed by `%s`", a.obj.Name(), x.srcOf(call))
		case c20kList, c20kBytes, c20kAgg:
			return c20One(st.abort(call, "`%s` passes a list or buffer the URL is built from to a function that is not modelled (it could change its contents)", x.srcOf(call)), c20V{})
		}
		if x.docDerived(a, st) {
			return c20One(st.abort(call, "`%s` passes the decoded document to a function that is not modelled (it could change the elements returned)", x.srcOf(call)), c20V{})
		}
	}
	return c20One(st, x.unknownResults(fn, call))
}

// docDerived: v is a response document, a field or element of one, or the address of a local holding one.
func (x *c20SX) docDerived(v c20V, st *c20St) bool {
	switch v.k {
	case c20kObj:
		return v.tag == "doc" && x.pkgOf(v.typ) != x.cx.pk.Types
	case c20kSel, c20kIdx:
		return x.docDerived(*v.base, st)
	case c20kRef:
		if t, ok := st.env[v.obj]; ok {
			return x.docDerived(t, st)
		}
	}
	return false
}

func (x *c20SX) pkgOf(t types.Type) *types.Package {
	if pt, ok := t.(*types.Pointer); ok {
		t = pt.Elem()
	}
	if nt, ok := t.(*types.Named); ok {
		return nt.Obj().Pkg()
	}
	return nil
}

func (x *c20SX) convert(t types.Type, v c20V, at ast.Node) c20V {
	tb, _ := t.Underlying().(*types.Basic)
	switch {
	case tb != nil && tb.Info()&types.IsString != 0:
		switch v.k {
		case c20kStr:
			return v
		case c20kBytes:
			return c20V{k: c20kStr, sym: v.sym, typ: t}
		}
	case tb != nil && tb.Info()&types.IsInteger != 0:
		if v.k == c20kInt || v.k == c20kIn {
			okInt := v.typ == nil
			if v.typ != nil {
				vb, ok := v.typ.Underlying().(*types.Basic)
				okInt = ok && vb.Info()&types.IsInteger != 0
			}
			if okInt {
				v.typ = t
				return v
			}
		}
	case tb != nil && tb.Info()&types.IsFloat != 0:
		// float64(x): an integer input loses exactness above 2^53, a float keeps its value (float32 rounds)
		if v.k == c20kIn && v.h != nil && v.typ != nil {
			if vb, ok := v.typ.Underlying().(*types.Basic); ok && vb.Info()&(types.IsInteger|types.IsFloat) != 0 {
				h := *v.h
				switch {
				case vb.Info()&types.IsInteger != 0:
					h.fl, h.flsrc = "int→float64", "float conversion"
				case tb.Kind() == types.Float32:
					h.fl, h.flsrc = "bits32", "float32 conversion"
				}
				v.h, v.typ = &h, t
				return v
			}
		}
	case tb == nil:
		if _, isIface := t.Underlying().(*types.Interface); isIface {
			return v
		}
	}
	return c20Unknown("conversion `%s`", x.srcOf(at))
}

func (x *c20SX) builtin(name string, call *ast.CallExpr, st *c20St) []c20EV {
	if name == "panic" {
		st.ctl = c20cPanic
		return c20One(st, c20V{})
	}
	if name == "new" && len(call.Args) == 1 {
		// new(T) for a struct type: a fresh empty document (pointers to abstract objects are the objects)
		if t := x.info.TypeOf(call.Args[0]); t != nil {
			if _, ok := t.Underlying().(*types.Struct); ok {
				return c20One(st, x.zero(t))
			}
		}
		return c20One(st, c20Unknown("`%s`", x.srcOf(call)))
	}
	if name == "make" {
		if out, ok := x.makeList(call, st); ok {
			return out
		}
		t := x.info.TypeOf(call)
		// the length must be the constant 0 (the capacity is free)
		if len(call.Args) >= 2 {
			if n, ok := constInt(x.info, call.Args[1]); ok && n == 0 {
				z := x.zero(t)
				if z.k == c20kList || z.k == c20kBytes {
					return c20One(st, z)
				}
			}
		}
		return c20One(st, c20Unknown("`%s`", x.srcOf(call)))
	}
	var out []c20EV
	for _, it := range x.evList(call.Args, st) {
		if it.st.ctl != c20cRun {
			out = append(out, c20EV{it.st, c20V{}})
			continue
		}
		v := c20Unknown("`%s`", x.srcOf(call))
		switch {
		case name == "len" && len(it.vs) == 1:
			b := it.vs[0]
			v = c20V{k: c20kLen, base: &b}
			if b.k == c20kAgg {
				v = c20V{k: c20kInt, n: int64(len(b.vs))}
			}
			if b.k == c20kStr && len(b.sym.holes()) == 0 {
				v = c20V{k: c20kInt, n: int64(len(b.sym.render(nil)))}
			}
		case name == "append" && len(it.vs) >= 1 && !call.Ellipsis.IsValid():
			v = x.appendTo(it.vs[0], it.vs[1:], call)
		case name == "append" && len(it.vs) == 2 && call.Ellipsis.IsValid():
			v = x.appendSpread(it.vs[0], it.vs[1], call)
		}
		out = append(out, c20EV{it.st, v})
	}
	return out
}

func (x *c20SX) appendTo(l c20V, vs []c20V, at ast.Node) c20V {
	switch l.k {
	case c20kList:
		if l.tag == "presized" {
			return c20Unknown("`%s` appends to a list presized by a slice length", x.srcOf(at))
		}
		if l.star != nil {
			return c20Unknown("`%s` appends after the options", x.srcOf(at))
		}
		n := l
		n.elems = append([]c20Sym(nil), l.elems...)
		for _, v := range vs {
			sym, ok := c20ListElem(l, v)
			if !ok {
				return c20Unknown("`%s` appends %s", x.srcOf(at), v.String())
			}
			n.elems = append(n.elems, sym)
		}
		return n
	case c20kBytes:
		n := l
		n.sym = append(c20Sym(nil), l.sym...)
		for _, v := range vs {
			if v.k != c20kInt || v.h != nil || v.n < 0 || v.n > 255 {
				return c20Unknown("`%s` appends %s", x.srcOf(at), v.String())
			}
			n.sym = append(n.sym, c20Tok{lit: string([]byte{byte(v.n)})})
		}
		return n
	}
	return c20Unknown("`%s`", x.srcOf(at))
}
