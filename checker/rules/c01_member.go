package rules

import (
	"go/ast"
	"go/types"
	"strings"

	"osmcheck/core"
)

// c01MemberType: a store `member.Type = V` is decided by a value derived from the relation's types column:
//   - V is an osm.TypeX constant and the store only executes when that value equals the generated constant
//     Relation_X (case clause, tagless switch or if chain alike), or
//   - V is the result of a function of the package every return of which yields an osm.TypeX constant under such a
//     test of its parameter (or a default for values the format does not define), the argument being derived from
//     the types column.
func c01MemberType(r *core.R, cm *c01Model, t *c01Tracer, fi *FuncInfo, as *ast.AssignStmt, rhs ast.Expr, mapped map[string]bool) {
	info := cm.m.info
	want := map[string]string{"Relation_NODE": "TypeNode", "Relation_WAY": "TypeWay", "Relation_RELATION": "TypeRelation"}
	typeName := func(e ast.Expr) string {
		switch x := ast.Unparen(e).(type) {
		case *ast.SelectorExpr:
			if c, ok := info.Uses[x.Sel].(*types.Const); ok && c.Pkg() != nil && c.Pkg().Path() == core.ModulePath {
				return c.Name()
			}
		case *ast.Ident:
			if c, ok := info.Uses[x].(*types.Const); ok && c.Pkg() != nil && c.Pkg().Path() == core.ModulePath {
				return c.Name()
			}
		}
		return ""
	}
	enumConst := func(e ast.Expr) string {
		var o types.Object
		switch x := ast.Unparen(e).(type) {
		case *ast.SelectorExpr:
			o = info.Uses[x.Sel]
		case *ast.Ident:
			o = info.Uses[x]
		}
		if k, ok := o.(*types.Const); ok && c01GenTypeName(k.Type()) == "Relation_MemberType" {
			return k.Name()
		}
		return ""
	}
	// enumFacts: the enum constants the facts at n equate some expression with
	enumFacts := func(f *c01Fn, n ast.Node) (names []string, tags []ast.Expr) {
		for _, fact := range f.factsAtPos(n.Pos()) {
			a, b, ok := c01EqFact(fact)
			if !ok {
				continue
			}
			for _, pr := range [][2]ast.Expr{{a, b}, {b, a}} {
				if k := enumConst(pr[1]); k != "" {
					names, tags = append(names, k), append(tags, pr[0])
				}
			}
		}
		return
	}
	fromTypesColumn := func(ctx *c01Ctx, e ast.Expr) (bool, []string) {
		atoms := newAtoms()
		t.trace(ctx, e, 0, false, atoms, map[string]bool{}, 0)
		return atoms.set["col:Relation.types"], atoms.list()
	}
	judge := func(c string, pos ast.Node, caseName, name string) {
		if want[caseName] == name {
			mapped[caseName] = true
			r.OK(c, pos.Pos(), "MemberType %s ↦ osm.%s, decided on the types column", strings.TrimPrefix(caseName, "Relation_"), name)
		} else {
			r.Bad(c, pos.Pos(), "member type %s of the format is mapped to osm.%s", strings.TrimPrefix(caseName, "Relation_"), name)
		}
	}
	// form 1: a constant stored under a test
	if name := typeName(rhs); name != "" {
		c := "store@Member.Type " + name
		f := c01FnOf(r.P, fi).innermost(as)
		names, tags := enumFacts(f, as)
		if len(names) != 1 {
			r.Unknown(c, as.Pos(), "the member type is not assigned under exactly one test against a Relation_MemberType constant of the format (found %d)", len(names))
			return
		}
		if ok, got := fromTypesColumn(&c01Ctx{fi: fi}, tags[0]); !ok {
			r.Bad(c, as.Pos(), "the test deciding the member type is on %v, not on the relation's types column", got)
			return
		}
		judge(c, as, names[0], name)
		return
	}
	// form 3: a lookup in a constant table of the package: keys are the format's member types, values the osm types;
	// a key the table does not hold yields the zero value (the empty type), like a switch without default
	if ix, isIx := ast.Unparen(c01Expand(info, fi.Decl.Body, rhs)).(*ast.IndexExpr); isIx {
		var mo types.Object
		switch x := ast.Unparen(ix.X).(type) {
		case *ast.Ident:
			mo = info.Uses[x]
		}
		var lit *ast.CompositeLit
		if mo != nil {
			lit = c01ConstMap(cm.m.pk, mo)
		}
		if lit == nil {
			r.Unknown("store@Member.Type ?", as.Pos(), "`%s`: the member type is looked up in something that is not a constant map of the package (declared with a literal and never written)", src(r.P.Fset, as))
			return
		}
		if ok, got := fromTypesColumn(&c01Ctx{fi: fi}, ix.Index); !ok {
			r.Bad("store@Member.Type table", as.Pos(), "the key of the member type table is computed from %v, not from the relation's types column", got)
			return
		}
		for _, el := range lit.Elts {
			kv, isKV := el.(*ast.KeyValueExpr)
			if !isKV {
				continue
			}
			k, name := enumConst(kv.Key), typeName(kv.Value)
			c := "store@Member.Type " + name
			if k == "" || name == "" {
				r.Unknown(c, kv.Pos(), "entry `%s` of the member type table is not `Relation_X: osm.TypeX`", src(r.P.Fset, kv))
				continue
			}
			judge(c, kv, k, name)
		}
		return
	}
	// form 2: the result of a classifying function
	call, ok := ast.Unparen(rhs).(*ast.CallExpr)
	var tf *FuncInfo
	if ok {
		tf = c01Callee(cm.m.pk, call)
	}
	if tf == nil {
		r.Unknown("store@Member.Type ?", as.Pos(), "`%s`: the member type is neither an osm.Type constant stored under a test of the format's member type nor the result of a function of the package", src(r.P.Fset, as))
		return
	}
	g := c01FnOf(r.P, tf)
	sub := &c01Ctx{fi: tf, call: call, up: &c01Ctx{fi: fi}}
	n := 0
	ast.Inspect(tf.Decl.Body, func(x ast.Node) bool {
		if _, isLit := x.(*ast.FuncLit); isLit {
			return false
		}
		ret, isRet := x.(*ast.ReturnStmt)
		if !isRet || len(ret.Results) != 1 {
			return true
		}
		name := typeName(ret.Results[0])
		names, tags := enumFacts(g, ret)
		if name == "" && len(names) == 0 {
			return true // the default for values the format does not define
		}
		n++
		c := "store@Member.Type " + name
		switch {
		case name == "" || len(names) != 1:
			r.Unknown(c, ret.Pos(), "`%s` in %s is not an osm.Type constant returned under exactly one test against a Relation_MemberType constant", src(r.P.Fset, ret), tf.Name())
		default:
			if ok, got := fromTypesColumn(sub, tags[0]); !ok {
				r.Bad(c, ret.Pos(), "the test deciding the member type in %s is on %v, not on the relation's types column", tf.Name(), got)
				return true
			}
			judge(c, ret, names[0], name)
		}
		return true
	})
	if n == 0 {
		r.Unknown("store@Member.Type ?", as.Pos(), "%s returns no osm.Type constant under a test of the format's member type", tf.Name())
	}
}
