package rules

import (
	"go/ast"
	"go/types"

	"osmcheck/core"
)

// ---------------------------------------------------------------------------
// W1 emit-after-children

func c14W1(r *core.R) {
	m := c14Get(r)
	if m == nil {
		return
	}
	g, wf, fs, fn := m.wg, m.walkFacts(), r.P.Fset, m.walk.Name()
	r.Stat("functions_scanned", m.nFuncs)
	r.Stat("dfs_states", len(g.stateList))
	r.Stat("dfs_activations", len(g.ctxList))

	// every send on the output channel is the DFS's emission of the id being walked
	c := "send-site@dfs"
	bad := false
	acc := map[ast.Node]bool{}
	for _, sn := range wf.sendNodes {
		acc[sn.ast] = true
	}
	for _, s := range m.sends {
		if !acc[s.node] {
			bad = true
			r.Bad(c, s.node.Pos(), "`%s` in %s sends on the output channel outside the DFS rooted at %s: such a send is not at the post-order position of the walk, it emits out of order or a second time", src(fs, s.node), s.fi.Name(), fn)
		}
	}
	if len(wf.emits) == 0 {
		r.Bad(c, m.walk.Decl.Pos(), "no send on the ordering's output channel is reached from %s: nothing is ever emitted", fn)
		return
	}
	for _, e := range wf.emits {
		sn := wf.sendOf[e]
		send := sn.ast.(*ast.SendStmt)
		if v := g.canon(sn.ctx, send.Value, sn); !m.isIDParam(v) {
			bad = true
			r.Bad(c, send.Pos(), "`%s` does not send the id being walked (parameter %s of %s): the emitted id is not the relation whose children were just completed", src(fs, send), m.idParam.Name(), fn)
		}
		if g.reach(c14Succs(g.statesOf(e), nil), nil, nil).hasNode(wf.emits...) {
			bad = true
			r.Bad(c, send.Pos(), "after `%s` another emission is reachable in the same activation of %s: the id is emitted twice", src(fs, send), fn)
		}
	}
	if w := c14Writes(m.info, m.walk.Decl.Body, m.idParam); len(w) > 0 {
		bad = true
		r.Bad(c, w[0].Pos(), "parameter %s is reassigned inside %s (`%s`); the emitted id is no longer the id the visited test and the history lookup used", m.idParam.Name(), fn, src(fs, w[0]))
	}
	if !bad {
		sn := wf.sendOf[wf.emits[0]]
		r.OK(c, sn.pos(), "%d send statement(s) on the output channel in package annotate, all reached from %s (in %s); the value sent is the never reassigned id parameter; no second emission follows an emission",
			len(m.sends), fn, sn.ctx.fn.name)
	}

	if len(wf.recs) == 0 {
		r.Bad("post-order@dfs", m.walk.Decl.Pos(), "%s never calls itself: relation members are not walked before their parent is emitted", fn)
		return
	}
	after := g.reach(c14Succs(m.emitStates(), nil), nil, nil)
	for _, rec := range wf.recs {
		c = "post-order@dfs"
		if after.hasNode(rec.n) {
			r.Bad(c, rec.call.Pos(), "the recursive call `%s` is reachable after the emission (%s): a parent can be emitted before the children walked by that call (graph 1→2, request [1] emits 1 before 2)",
				src(fs, rec.call), m.rel(wf.sendOf[wf.emits[0]].pos()))
			continue
		}
		r.OK(c, rec.call.Pos(), "no path leads from the emission back to `%s` (%d states reachable after the emission)", src(fs, rec.call), len(after))

		// the emission is only reached once the outermost loop around the recursion is exhausted
		c = "members-complete@dfs"
		if len(rec.loops) == 0 {
			r.Unknown(c, rec.call.Pos(), "the recursive call is not inside a loop over the members (enumerated idiom: `for … range history { for … range r.Members { … walk(child) } }`, in the DFS or in a function it calls)")
			continue
		}
		outer := rec.loops[len(rec.loops)-1]
		if g.reach([]*c14State{g.entry}, nil, g.isDone(outer)).hasNode(wf.emits...) {
			r.Bad(c, wf.sendOf[wf.emits[0]].pos(), "the emission can be reached without exhausting the loop at %s that walks the members: the id is emitted although some of its relation members have not been walked (child emitted after its parent)", m.rel(outer.stmt.Pos()))
			continue
		}
		r.OK(c, outer.stmt.Pos(), "every path from the entry of %s to the emission takes the exhaustion edge of the outermost member loop (%s): every version's members have been walked before the id is sent", fn, m.rel(outer.stmt.Pos()))
	}
}

// ---------------------------------------------------------------------------
// W2 emit-once

func c14W2(r *core.R) {
	m := c14Get(r)
	if m == nil {
		return
	}
	g, wf, fs, fn := m.wg, m.walkFacts(), r.P.Fset, m.walk.Name()
	entry := []*c14State{g.entry}
	recNodes := m.recNodes()

	// (a) membership test: every path to the emission takes the "not yet visited" edge of a test on the id
	c := "visited-test@dfs"
	fresh := true
	var stale c14Test
	for _, t := range wf.tests {
		if wf.idTests[t.n] != 0 && t.lookupAt != nil && t.lookupAt != t.n {
			for n := range g.between(t.lookupAt, t.n) {
				for _, x := range append(append([]*c14Node{}, wf.stores...), recNodes...) {
					if n == x {
						fresh, stale = false, t
					}
				}
			}
		}
	}
	switch {
	case len(wf.idTests) == 0 && len(wf.tests) > 0:
		t := wf.tests[0]
		r.Bad(c, t.n.pos(), "the visited test looks up `%s`, not the id being walked (%s): an id already emitted is walked and emitted again", src(fs, t.key.node), m.idParam.Name())
	case len(wf.idTests) == 0:
		r.Bad(c, m.walk.Decl.Pos(), "%s has no membership test on the visited set for its id: a relation that is a member of two parents, or requested twice (ids [1,1]), is emitted twice", fn)
	case !fresh:
		r.Bad(c, stale.n.pos(), "the visited set is read at %s but tested at %s with a store or a recursive call in between: the test does not see ids emitted meanwhile", m.rel(stale.lookupAt.pos()), m.rel(stale.n.pos()))
	case g.reach(entry, nil, wf.idTests.inverse().skip).hasNode(wf.emits...):
		t := wf.idTests.first()
		r.Bad(c, t.pos(), "the emission can be reached without taking the not-yet-visited edge of the visited test `%s`: some path emits an id that is already in the visited set, or emits without consulting it", m.nodeSrc(t))
	default:
		t := wf.idTests.first()
		r.OK(c, t.pos(), "every path from the entry of %s to the emission takes the not-yet-visited edge of the membership test on the id parameter (`%s`)", fn, m.nodeSrc(t))
	}

	// (b) store: the id is in the visited set whenever it has been emitted
	c = "visited-store@dfs"
	var idStores, otherStores []*c14Node
	for _, s := range wf.stores {
		if m.isIDParam(wf.storeKey[s]) {
			idStores = append(idStores, s)
		} else {
			otherStores = append(otherStores, s)
		}
	}
	switch {
	case len(wf.stores) == 0:
		r.Bad(c, m.walk.Decl.Pos(), "nothing reached from %s records the id in the visited set: a relation that is a member of two parents, or requested twice, is emitted once per walk (graph 1→3, 2→3, request [1,2] emits 3 twice)", fn)
	case len(idStores) == 0:
		s := otherStores[0]
		r.Bad(c, s.pos(), "`%s` records `%s`, not the id being walked (%s): the emitted id stays unvisited and is emitted again on the next walk", m.nodeSrc(s), src(fs, wf.storeKey[s].node), m.idParam.Name())
	case !g.reach(entry, c14StopAt(idStores...), nil).hasNode(wf.emits...):
		r.OK(c, idStores[0].pos(), "`%s` lies on every path from the entry of %s to the emission: the id is in the visited set whenever it has been emitted", m.nodeSrc(idStores[0]), fn)
	default:
		// idiom B: the store lies on every path from the emission to an exit of the DFS
		if len(g.reach(m.emitStates(), c14StopAt(idStores...), nil).exits()) == 0 {
			r.OK(c, idStores[0].pos(), "`%s` lies on every path from the emission to the exits of %s (no recursion after the emission, W1)", m.nodeSrc(idStores[0]), fn)
		} else {
			r.Bad(c, idStores[0].pos(), "`%s` neither precedes the emission on every path nor follows it on every path: an emitted id can stay outside the visited set and be emitted again", m.nodeSrc(idStores[0]))
		}
	}

	// (b2) an id is marked visited only when its emission is attempted: the cycle cut and the not-found exit leave
	// the DFS without emitting, and a relation left that way must stay unvisited so that its own requested id still emits it.
	for _, st := range wf.stores {
		from := c14Succs(g.statesOf(st), nil)
		if !g.reach(from, nil, nil).hasNode(wf.emits...) {
			continue // a store after the emission (idiom B) marks only emitted ids
		}
		c2 := "visited-only-when-emitting@dfs"
		region := g.reach(from, c14StopAt(wf.sendNodes...), nil)
		why, wpos := "", st.pos()
		for _, rec := range wf.recs {
			if region.hasNode(rec.n) {
				why, wpos = "a recursive call `"+src(fs, rec.call)+"` runs after the id was marked visited and before it is emitted", rec.call.Pos()
			}
		}
		if why == "" {
			if ex := region.exits(); len(ex) > 0 {
				why, wpos = "`"+m.nodeSrc(ex[0].n)+"` leaves "+fn+" after the id was marked visited without an emission having been attempted", ex[0].n.pos()
			}
		}
		if why != "" {
			r.Bad(c2, wpos, "%s: a relation whose walk is cut short (cycle cut, error) stays marked and is never emitted when its own requested id comes up (graph 1→2, 2→3, 3→2 with request [1,2,3] never emits 3)", why)
		} else {
			r.OK(c2, st.pos(), "every path from `%s` goes straight into the emission attempt: no recursion and no return in between", m.nodeSrc(st))
		}
	}

	// (c) the visited set only grows, and only the DFS adds to it
	c = "visited-monotone"
	bad := false
	for _, s := range m.visitedMut {
		// initialisation by the constructor before the producer starts
		var cn *c14Node
		if call, ok := s.node.(*ast.CallExpr); ok {
			cn = m.cg.calls[call]
		} else if ns := m.cg.byAst[s.node]; len(ns) > 0 {
			cn = ns[0]
		}
		if cn != nil && len(m.cg.byNode[cn]) > 0 && m.goNode != nil && !m.cg.reach(m.cg.statesOf(m.goNode), nil, nil).hasNode(cn) {
			continue
		}
		bad = true
		r.Bad(c, s.node.Pos(), "`%s` in %s removes or replaces entries of the visited set: ids emitted before it can be emitted again", src(fs, s.node), s.fi.Name())
	}
	if !bad {
		r.OKTrivial(c, m.walk.Decl.Pos(), "no delete/clear/reassignment of the visited set after the producer starts (%d functions of package annotate scanned)", m.nFuncs)
	}
	c = "visited-stores"
	bad = false
	inDFS := map[ast.Node]bool{}
	for _, st := range wf.stores {
		inDFS[st.ast] = true
	}
	for _, s := range m.visitedStores {
		if !inDFS[s.node] {
			bad = true
			r.Bad(c, s.node.Pos(), "`%s` in %s stores into the visited set outside the DFS rooted at %s: an id is marked visited without having been emitted, and is never emitted", src(fs, s.node), s.fi.Name(), fn)
		}
	}
	if !bad {
		r.OKTrivial(c, m.walk.Decl.Pos(), "%d store(s) into the visited set in package annotate, all evaluated by the DFS rooted at %s", len(m.visitedStores), fn)
	}

	// (d) the DFS runs on one goroutine only, and contains nothing the exploration does not model
	m.callers(r)
	m.shape(r)

	// (e) the producer loop walks every requested id, in order, through the same test
	m.producerLoop(r)
}

// touching lists the declared functions followed by graph g whose activation (or an activation below it) contains
// one of the given nodes.
func c14Touching(g *c14Graph, nodes []*c14Node, out map[*types.Func]*c14Fn) {
	for _, n := range nodes {
		for c := n.ctx; c != nil && c.g == g; c = c.parent {
			if c.fn.fi != nil {
				out[c.fn.fi.Obj] = c.fn
			}
		}
	}
}

// callers: the DFS, and every function that takes part in it or in the producer loop, is only ever called from the
// DFS itself and from the single producer goroutine.
func (m *c14Model) callers(r *core.R) {
	fn := m.walk.Name()
	c := "callers@dfs"
	if m.pg == nil {
		r.Bad(c, m.ctor.Decl.Pos(), "expected exactly one go statement in %s starting the producer (a closure or a function of this module); found %d", m.ctor.Name(), len(m.cg.gos))
		return
	}
	wf := m.walkFacts()
	confined := map[*types.Func]*c14Fn{m.walk.Obj: m.wg.root.fn}
	var ev []*c14Node
	ev = append(ev, wf.sendNodes...)
	ev = append(ev, wf.stores...)
	ev = append(ev, m.recNodes()...)
	c14Touching(m.wg, ev, confined)
	var roots []*c14Node
	for _, rc := range m.callsWhere(m.pg, m.isWalkCall) {
		roots = append(roots, rc.n)
	}
	c14Touching(m.pg, roots, confined)
	goCall := m.goNode.ast.(*ast.GoStmt).Call
	nCalls, badUse := 0, false
	for _, fi := range allFuncs(m.pk) {
		par := parentsOf(r.P, fi)
		ast.Inspect(fi.Decl.Body, func(n ast.Node) bool {
			id, ok := n.(*ast.Ident)
			if !ok {
				return true
			}
			fo, _ := m.info.Uses[id].(*types.Func)
			if fo == nil || confined[fo.Origin()] == nil {
				return true
			}
			var fun ast.Expr = id
			if sel, ok := par[id].(*ast.SelectorExpr); ok && sel.Sel == id {
				fun = sel
			}
			call, _ := par[fun].(*ast.CallExpr)
			why := ""
			switch {
			case call == nil || ast.Unparen(call.Fun) != fun:
				why = "is used as a function value"
			case call == goCall:
				nCalls++ // the producer itself, started once (W4 wg-add)
			case func() bool { _, g := par[call].(*ast.GoStmt); return g }():
				why = "is started on its own goroutine"
			case func() bool { _, d := par[call].(*ast.DeferStmt); return d }():
				why = "is deferred"
			case m.wg.calls[call] != nil && len(m.wg.byNode[m.wg.calls[call]]) > 0, m.pg.calls[call] != nil && len(m.pg.byNode[m.pg.calls[call]]) > 0:
				nCalls++
			default:
				why = "is called outside the DFS and the producer goroutine"
			}
			if why != "" {
				badUse = true
				r.Bad(c, id.Pos(), "%s, which takes part in the DFS rooted at %s, %s in %s: the visited set and the DFS path are not synchronised, so the emit-once argument (sequential test, store, send) no longer holds", funcName(fo), fn, why, fi.Name())
			}
			return true
		})
	}
	for fo, f := range confined {
		if fo != m.walk.Obj && fo.Exported() && f.fi != nil {
			badUse = true
			r.Bad(c, f.fi.Decl.Pos(), "%s takes part in the DFS rooted at %s and is exported: callers outside the package can run it concurrently with the producer goroutine", f.name, fn)
		}
	}
	if m.walk.Obj.Exported() {
		badUse = true
		r.Bad(c, m.walk.Decl.Pos(), "%s is exported: callers outside the package can run the DFS concurrently with the producer goroutine", fn)
	}
	if !badUse {
		r.OK(c, m.walk.Decl.Pos(), "%d call sites of the %d function(s) taking part in the DFS, all plain calls evaluated by the DFS itself or by the single producer goroutine started in %s: visited/path are confined to one goroutine", nCalls, len(confined), m.ctor.Name())
	}
}

// producerLoop: the producer walks every element of the request list, in order, and stops at the first error.
func (m *c14Model) producerLoop(r *core.R) {
	fs, fn := r.P.Fset, m.walk.Name()
	c := "producer-loop@producer"
	if m.pg == nil {
		r.Bad(c, m.ctor.Decl.Pos(), "no producer goroutine found in %s", m.ctor.Name())
		return
	}
	g := m.pg
	roots := m.callsWhere(g, m.isWalkCall)
	if len(roots) != 1 {
		r.Bad(c, m.ctor.Decl.Pos(), "expected exactly one call of %s in the producer goroutine started by %s (found %d)", fn, m.ctor.Name(), len(roots))
		return
	}
	root := roots[0]
	var loops []*c14Loop
	for _, l := range g.loops() {
		if g.body(l).hasNode(root.n) {
			loops = append(loops, l)
		}
	}
	if len(loops) != 1 {
		r.Unknown(c, root.call.Pos(), "the producer's call `%s` is enclosed by %d loops (enumerated idiom: `for _, id := range ids { if err := walk(id, path); err != nil {…; return} }`)", src(fs, root.call), len(loops))
		return
	}
	loop := loops[0]
	x := g.rangeX(loop)
	isIDs := false
	if x != nil && x.k == 'v' && x.ctx == m.cg.root {
		sig := m.ctor.Obj.Type().(*types.Signature)
		for i := 0; i < sig.Params().Len(); i++ {
			if types.Object(sig.Params().At(i)) == x.obj {
				if sl, ok := x.obj.Type().Underlying().(*types.Slice); ok && namedPath(sl.Elem()) == c14RelID {
					isIDs = true
				}
			}
		}
	}
	idArg := m.walkArg(root.call, m.idParam)
	ordArg := m.walkArg(root.call, m.ordParam)
	result := g.canon(root.n.ctx, root.call, root.n)
	nilEdges := c14Edges{} // edges on which the result of the call is known to be nil
	for _, n := range m.atoms(g) {
		if subj, nilWhen := c14NilTest(m.atomVal(g, n)); subj != nil && subj.key == result.key {
			nilEdges[n] = nilWhen
		}
	}
	xsrc := m.loopX(loop)
	switch {
	case x == nil:
		r.Unknown(c, loop.stmt.Pos(), "the loop around `%s` is not a range loop (enumerated idiom: `for … range ids`)", src(fs, root.call))
	case !isIDs:
		r.Bad(c, loop.stmt.Pos(), "the producer loop ranges over `%s`, which is not the constructor's complete []osm.RelationID parameter: some requested relations are never walked and never emitted", xsrc)
	case idArg == nil || !g.elemOf(g.canon(root.n.ctx, idArg, root.n), loop):
		r.Bad(c, root.call.Pos(), "`%s` does not pass the loop's element of the request list as the id to walk", src(fs, root.call))
	case ordArg == nil || !m.isOrd(g, g.canon(root.n.ctx, ordArg, root.n)):
		r.Bad(c, root.call.Pos(), "`%s` does not run on the ordering returned by %s", src(fs, root.call), m.ctor.Name())
	default:
		// the call is evaluated in every iteration: no way round it back to the head or out of the goroutine
		round := g.reach(g.loopEdges(loop, 1), func(s *c14State) bool { return s.n == root.n || loop.isHead(s) }, nil)
		skipped := len(round.exits()) > 0
		for s := range round {
			if loop.isHead(s) {
				skipped = true
			}
		}
		if skipped {
			r.Bad(c, root.call.Pos(), "the call `%s` is not executed in every iteration of the producer loop: some requested ids are skipped without being walked", src(fs, root.call))
			return
		}
		// a non-nil error leaves the loop
		goesOn := false
		for s := range g.reach(c14Succs(g.statesOf(root.n), nil), loop.isHead, nilEdges.skip) {
			if loop.isHead(s) {
				goesOn = true
			}
		}
		if goesOn {
			r.Bad(c, root.call.Pos(), "the error of `%s` does not end the producer loop (`if err != nil { …; return }`): after a datasource error or cancellation the goroutine keeps walking the remaining ids", src(fs, root.call))
			return
		}
		r.OK(c, root.call.Pos(), "`for … range %s` evaluates `%s` in every iteration with the loop element; unless the result is known to be nil the loop is left; duplicates in the request list run into the visited test of %s", xsrc, src(fs, root.call), fn)
	}
}
