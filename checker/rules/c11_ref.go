package rules

// Pointers to local variables, method values and deferred calls in the C11 path interpreter.
//
//   p := &updates; collect(p, ...)   with   *dst = append(*dst, u)   in the helper: a "ref" value names the
//   variable and the frame that owns it; reading and writing through it reads and writes that variable, also
//   from a helper (the owner's environment is on the stack of callers) and in loops (the variable is then one
//   of the loop's variables).
//   f := x.method: a "func" value with its receiver; calling it is the method call.
//   defer f(): the call is executed when the frame returns (last deferred first).

import (
	"go/ast"
	"go/types"
)

func c11Ref(o types.Object, owner string) *c11V {
	return &c11V{k: "ref", obj: o, name: owner}
}

// envOf finds the environment of the frame with call path owner: the current one or a suspended caller's.
func (it *c11Interp) envOf(fr *c11Frame, st *c11St, owner string) map[types.Object]*c11V {
	if owner == fr.envP {
		return st.env
	}
	for i := len(st.stack) - 1; i >= 0; i-- {
		if st.stack[i].path == owner {
			return st.stack[i].env
		}
	}
	return nil
}

// readRef reads the variable a ref points to.
func (it *c11Interp) readRef(fr *c11Frame, st *c11St, p *c11V) (*c11V, bool) {
	if p == nil || p.k != "ref" {
		return nil, false
	}
	env := it.envOf(fr, st, p.name)
	if env == nil {
		st.note("pointer to a local variable of a frame that has returned")
		return it.unk(st, "dangling ref"), true
	}
	if v, ok := env[p.obj]; ok {
		return v, true
	}
	if o, ok := p.obj.(*types.Var); ok {
		return it.zeroOf(st, o.Type()), true
	}
	return it.unk(st, "ref"), true
}

// writeRef writes the variable a ref points to.
func (it *c11Interp) writeRef(fr *c11Frame, st *c11St, p, v *c11V) bool {
	if p == nil || p.k != "ref" {
		return false
	}
	env := it.envOf(fr, st, p.name)
	if env == nil {
		st.note("pointer to a local variable of a frame that has returned")
		return true
	}
	env[p.obj] = it.copyStruct(st, v)
	return true
}

// refTargets lists the variables written through pointers (`*p = ...`, p a ref) in the loop: they are loop variables too.
func (it *c11Interp) refTargets(fr *c11Frame, st *c11St, loop ast.Node) []*c11V {
	var out []*c11V
	ast.Inspect(loop, func(n ast.Node) bool {
		as, ok := n.(*ast.AssignStmt)
		if !ok {
			return true
		}
		for _, l := range as.Lhs {
			star, ok := ast.Unparen(l).(*ast.StarExpr)
			if !ok {
				continue
			}
			if id, ok := ast.Unparen(star.X).(*ast.Ident); ok {
				if pv, ok := fr.info.Uses[id].(*types.Var); ok {
					if p, ok := st.env[pv]; ok && p.k == "ref" {
						out = append(out, p)
					}
				}
			}
		}
		return true
	})
	return out
}

// runDefers executes the calls deferred by the frame, last first, on every outcome that leaves it.
func (it *c11Interp) runDefers(fr *c11Frame, outs []c11Out) []c11Out {
	var res []c11Out
	for _, o := range outs {
		calls := o.st.defers[fr.path]
		if len(calls) == 0 || (o.ctl != c11Return && o.ctl != c11Normal && o.ctl != c11Panic) {
			res = append(res, o)
			continue
		}
		delete(o.st.defers, fr.path)
		cur := []*c11St{o.st}
		for i := len(calls) - 1; i >= 0; i-- {
			var next []*c11St
			for _, s := range cur {
				for _, r := range it.eval(fr, s, calls[i]) {
					next = append(next, r.st)
				}
			}
			cur = next
		}
		for _, s := range cur {
			n := o
			n.st = s
			res = append(res, n)
		}
	}
	return res
}
