package rules

import (
	"go/ast"
	"go/types"
)

// strings.Builder / bytes.Buffer declared as a local value (`var b strings.Builder`, `b := bytes.Buffer{}`): the
// variable holds the text written so far (a byte buffer value tagged "builder"); the write methods update the
// variable, also through `&b` passed to an inlined helper. Pointer-declared builders (new, &T{}) can be aliased by
// copying the pointer and are not modelled.

func c20IsBuilderType(t types.Type) bool {
	switch namedPath(t) {
	case "strings.Builder", "bytes.Buffer":
		return true
	}
	return false
}

// builderCall models a method call on a builder; ok=false when the call is not one.
func (x *c20SX) builderCall(fn *types.Func, call *ast.CallExpr, st *c20St) ([]c20EV, bool) {
	sig := c20Sig(fn)
	if sig.Recv() == nil || !c20IsBuilderType(sig.Recv().Type()) {
		return nil, false
	}
	sel, ok := ast.Unparen(call.Fun).(*ast.SelectorExpr)
	if !ok {
		return nil, false
	}
	var out []c20EV
	for _, it := range x.evList(append([]ast.Expr{sel.X}, call.Args...), st) {
		if it.st.ctl != c20cRun {
			out = append(out, c20EV{it.st, c20V{}})
			continue
		}
		recv, args := it.vs[0], it.vs[1:]
		var place types.Object
		switch {
		case recv.k == c20kRef:
			place = recv.obj
		case recv.k == c20kBytes && recv.tag == "builder":
			if id, ok := ast.Unparen(sel.X).(*ast.Ident); ok {
				place = objOf(x.info, id)
			}
		}
		cur, has := it.st.env[place]
		if place == nil || !has || cur.k != c20kBytes || cur.tag != "builder" {
			out = append(out, c20EV{it.st.abort(call, "`%s`: the builder is not a local declared as a value (pointer-declared or shared builders are not modelled)", x.srcOf(call)), c20V{}})
			continue
		}
		res, ok := x.builderOp(fn.Name(), &cur, args)
		if !ok {
			out = append(out, c20EV{it.st.abort(call, "`%s` is not among the modelled builder operations (WriteString, WriteByte, WriteRune, Write, String, Bytes, Len, Grow, Reset)", x.srcOf(call)), c20V{}})
			continue
		}
		it.st.env[place] = cur
		out = append(out, c20EV{it.st, res})
	}
	return out, true
}

func (x *c20SX) builderOp(name string, cur *c20V, args []c20V) (c20V, bool) {
	intErr := c20V{k: c20kTuple, vs: []c20V{c20Unknown("bytes written"), {k: c20kNil}}}
	add := func(s c20Sym) { cur.sym = append(append(c20Sym(nil), cur.sym...), s...) }
	switch {
	case name == "WriteString" && len(args) == 1 && args[0].k == c20kStr:
		add(args[0].sym)
		return intErr, true
	case name == "Write" && len(args) == 1 && args[0].k == c20kBytes:
		add(args[0].sym)
		return intErr, true
	case (name == "WriteByte" || name == "WriteRune") && len(args) == 1 && args[0].k == c20kInt && args[0].h == nil && args[0].n >= 0 && args[0].n < 128:
		add(c20Sym{{lit: string(rune(args[0].n))}})
		if name == "WriteByte" {
			return c20V{k: c20kNil}, true
		}
		return intErr, true
	case name == "String" && len(args) == 0:
		return c20StrV(append(c20Sym(nil), cur.sym...)), true
	case name == "Bytes" && len(args) == 0:
		return c20V{k: c20kBytes, sym: append(c20Sym(nil), cur.sym...)}, true
	case name == "Len" && len(args) == 0:
		b := *cur
		return c20V{k: c20kLen, base: &b}, true
	case name == "Grow" && len(args) == 1:
		return c20V{k: c20kTuple}, true
	case name == "Reset" && len(args) == 0:
		cur.sym = nil
		return c20V{k: c20kTuple}, true
	}
	return c20V{}, false
}

// builderWrite appends text to the builder a pointer argument refers to (fmt.Fprintf(&b, ...)).
func (x *c20SX) builderWrite(w c20V, text c20V, st *c20St) bool {
	if w.k != c20kRef || text.k != c20kStr {
		return false
	}
	cur, ok := st.env[w.obj]
	if !ok || cur.k != c20kBytes || cur.tag != "builder" {
		return false
	}
	cur.sym = append(append(c20Sym(nil), cur.sym...), text.sym...)
	st.env[w.obj] = cur
	return true
}

// sprint models fmt.Sprint: operands in order, a space between two operands when neither is a string.
func (x *c20SX) sprint(call *ast.CallExpr, args []c20V) c20V {
	var out c20Sym
	prevStr := true
	for i, a := range args {
		isStr := a.k == c20kStr
		if i > 0 && !isStr && !prevStr {
			out = append(out, c20Tok{lit: " "})
		}
		prevStr = isStr
		switch {
		case isStr:
			out = append(out, a.sym...)
		default:
			tok, ok := x.numTok(a, c20V{k: c20kInt, n: 10})
			bt, _ := a.typ.(*types.Basic)
			if a.typ != nil {
				bt, _ = a.typ.Underlying().(*types.Basic)
			}
			if !ok || (a.h != nil && (bt == nil || bt.Info()&types.IsInteger == 0)) {
				return c20Unknown("operand #%d of `%s` is %s (not a string or integer)", i+1, x.srcOf(call), a.String())
			}
			out = append(out, tok)
		}
	}
	return c20StrV(out)
}
