package rules

// Statement execution of the C11 path interpreter (see c11_interp.go).

import (
	"go/ast"
	"go/token"
	"go/types"
	"strconv"
)

// split decides boolean term v on st: the states where it is true and those where it is false.
func (it *c11Interp) split(st *c11St, v *c11V) (T, F []*c11St) {
	if it.overflow {
		return nil, nil
	}
	switch {
	case v.k == "not":
		f, t := it.split(st, v.xs[0])
		return t, f
	case v.k == "bin" && v.op == token.LAND:
		t1, f1 := it.split(st, v.xs[0])
		F = append(F, f1...)
		for _, s := range t1 {
			t2, f2 := it.split(s, v.xs[1])
			T = append(T, t2...)
			F = append(F, f2...)
		}
		return T, F
	case v.k == "bin" && v.op == token.LOR:
		t1, f1 := it.split(st, v.xs[0])
		T = append(T, t1...)
		for _, s := range f1 {
			t2, f2 := it.split(s, v.xs[1])
			T = append(T, t2...)
			F = append(F, f2...)
		}
		return T, F
	}
	if b, ok := v.constBool(); ok {
		if b {
			return []*c11St{st}, nil
		}
		return nil, []*c11St{st}
	}
	if it.oracle != nil {
		switch it.oracle(st, v) {
		case c11T:
			st.assume(v, true)
			return []*c11St{st}, nil
		case c11F:
			st.assume(v, false)
			return nil, []*c11St{st}
		}
	}
	switch st.truth(v) {
	case c11T:
		return []*c11St{st}, nil
	case c11F:
		return nil, []*c11St{st}
	}
	it.npaths++
	if it.npaths > it.maxPaths {
		it.overflow = true
		return nil, nil
	}
	st2 := st.clone()
	st.assume(v, true)
	st2.assume(v, false)
	return []*c11St{st}, []*c11St{st2}
}

func (it *c11Interp) branch(fr *c11Frame, st *c11St, cond ast.Expr) (T, F []*c11St) {
	for _, r := range it.eval(fr, st, cond) {
		t, f := it.split(r.st, r.v)
		T = append(T, t...)
		F = append(F, f...)
	}
	return T, F
}

func (it *c11Interp) execList(fr *c11Frame, st *c11St, list []ast.Stmt) []c11Out {
	cur := []*c11St{st}
	var out []c11Out
	for _, s := range list {
		var next []*c11St
		for _, c := range cur {
			for _, o := range it.exec(fr, c, s) {
				if o.ctl == c11Normal {
					next = append(next, o.st)
				} else {
					out = append(out, o)
				}
			}
		}
		cur = next
		if len(cur) == 0 {
			break
		}
	}
	for _, c := range cur {
		out = append(out, c11Out{st: c, ctl: c11Normal})
	}
	return out
}

func c11Norm(sts []*c11St) []c11Out {
	var out []c11Out
	for _, s := range sts {
		out = append(out, c11Out{st: s, ctl: c11Normal})
	}
	return out
}

func (it *c11Interp) exec(fr *c11Frame, st *c11St, s ast.Stmt) []c11Out {
	if it.overflow {
		return nil
	}
	if it.onStmt != nil {
		it.onStmt(fr, st, s)
	}
	info := fr.info
	switch x := s.(type) {
	case *ast.EmptyStmt:
		return c11Norm([]*c11St{st})
	case *ast.BlockStmt:
		return it.execList(fr, st, x.List)
	case *ast.LabeledStmt:
		var out []c11Out
		for _, o := range it.exec(fr, st, x.Stmt) {
			if (o.ctl == c11Break) && o.lbl == x.Label.Name {
				o.ctl, o.lbl = c11Normal, ""
			}
			if o.ctl == c11Continue && o.lbl == x.Label.Name {
				// `continue L` of the labelled loop: handled as end of the iteration
				o.ctl, o.lbl = c11Back, ""
				o.loop, o.loopKey = x.Stmt, c11LoopKey(x.Stmt, fr.path)
				it.done = append(it.done, o)
				continue
			}
			out = append(out, o)
		}
		return out
	case *ast.ExprStmt:
		if call, ok := ast.Unparen(x.X).(*ast.CallExpr); ok && builtinName(info, call) == "panic" {
			var out []c11Out
			for _, r := range it.eval(fr, st, x.X) {
				out = append(out, c11Out{st: r.st, ctl: c11Panic})
			}
			return out
		}
		var sts []*c11St
		for _, r := range it.eval(fr, st, x.X) {
			sts = append(sts, r.st)
		}
		return c11Norm(sts)
	case *ast.DeclStmt:
		gd, ok := x.Decl.(*ast.GenDecl)
		if !ok || gd.Tok != token.VAR {
			return c11Norm([]*c11St{st})
		}
		cur := []*c11St{st}
		for _, sp := range gd.Specs {
			vs, ok := sp.(*ast.ValueSpec)
			if !ok {
				continue
			}
			var next []*c11St
			for _, c := range cur {
				if len(vs.Values) == 0 {
					for _, nm := range vs.Names {
						if o, ok := info.Defs[nm].(*types.Var); ok {
							c.env[o] = it.newZero(c, o.Type())
						}
					}
					next = append(next, c)
					continue
				}
				next = append(next, it.assignMulti(fr, c, identExprs(vs.Names), vs.Values, token.DEFINE)...)
			}
			cur = next
		}
		return c11Norm(cur)
	case *ast.AssignStmt:
		if x.Tok != token.ASSIGN && x.Tok != token.DEFINE {
			// x op= y
			op, ok := c11AssignOps[x.Tok]
			if !ok || len(x.Lhs) != 1 || len(x.Rhs) != 1 {
				st.note("unsupported assignment " + x.Tok.String())
				return c11Norm([]*c11St{st})
			}
			var sts []*c11St
			for _, r := range it.evalN(fr, st, []ast.Expr{x.Lhs[0], x.Rhs[0]}, func(s *c11St, vs []*c11V) *c11V { return c11Bin(op, vs[0], vs[1]) }) {
				it.assign(fr, r.st, x.Lhs[0], r.v)
				sts = append(sts, r.st)
			}
			return c11Norm(sts)
		}
		return c11Norm(it.assignMulti(fr, st, x.Lhs, x.Rhs, x.Tok))
	case *ast.IncDecStmt:
		op := token.ADD
		if x.Tok == token.DEC {
			op = token.SUB
		}
		var sts []*c11St
		for _, r := range it.eval(fr, st, x.X) {
			it.assign(fr, r.st, x.X, c11Bin(op, r.v, c11Int(1)))
			sts = append(sts, r.st)
		}
		return c11Norm(sts)
	case *ast.ReturnStmt:
		var out []c11Out
		if len(x.Results) == 0 {
			o := c11Out{st: st, ctl: c11Return, ret: x}
			if fr.fi != nil && fr.lit == nil {
				o.res = it.namedResults(fr, st)
			}
			return []c11Out{o}
		}
		if len(x.Results) == 1 {
			for _, r := range it.eval(fr, st, x.Results[0]) {
				o := c11Out{st: r.st, ctl: c11Return, ret: x}
				if r.v != nil {
					o.res = []*c11V{r.v}
					if r.v.k == "call" || r.v.k == "callv" {
						if tup, ok := info.TypeOf(x.Results[0]).(*types.Tuple); ok && tup.Len() > 1 {
							o.res = nil
							for i := 0; i < tup.Len(); i++ {
								o.res = append(o.res, &c11V{k: "res", xs: []*c11V{r.v}, id: i})
							}
						}
					}
				} else {
					o.res = r.vs
				}
				out = append(out, o)
			}
			return out
		}
		for _, r := range it.evalN(fr, st, x.Results, func(s *c11St, vs []*c11V) *c11V { return &c11V{k: "lit", xs: vs} }) {
			out = append(out, c11Out{st: r.st, ctl: c11Return, ret: x, res: r.v.xs})
		}
		return out
	case *ast.BranchStmt:
		lbl := ""
		if x.Label != nil {
			lbl = x.Label.Name
		}
		switch x.Tok {
		case token.BREAK:
			return []c11Out{{st: st, ctl: c11Break, lbl: lbl}}
		case token.CONTINUE:
			return []c11Out{{st: st, ctl: c11Continue, lbl: lbl}}
		}
		st.note("unsupported " + x.Tok.String())
		return c11Norm([]*c11St{st})
	case *ast.IfStmt:
		cur := []*c11St{st}
		var out []c11Out
		if x.Init != nil {
			cur = nil
			for _, o := range it.exec(fr, st, x.Init) {
				if o.ctl == c11Normal {
					cur = append(cur, o.st)
				} else {
					out = append(out, o)
				}
			}
		}
		for _, c := range cur {
			T, F := it.branch(fr, c, x.Cond)
			for _, t := range T {
				out = append(out, it.exec(fr, t, x.Body)...)
			}
			for _, f := range F {
				if x.Else != nil {
					out = append(out, it.exec(fr, f, x.Else)...)
				} else {
					out = append(out, c11Out{st: f, ctl: c11Normal})
				}
			}
		}
		return out
	case *ast.SwitchStmt:
		return it.execSwitch(fr, st, x)
	case *ast.TypeSwitchStmt:
		return it.execTypeSwitch(fr, st, x)
	case *ast.ForStmt:
		return it.execFor(fr, st, x)
	case *ast.RangeStmt:
		return it.execRange(fr, st, x)
	}
	if d, ok := s.(*ast.DeferStmt); ok {
		if st.defers == nil {
			st.defers = map[string][]*ast.CallExpr{}
		}
		st.defers[fr.path] = append(st.defers[fr.path], d.Call)
		return c11Norm([]*c11St{st})
	}
	st.note("unsupported statement")
	return c11Norm([]*c11St{st})
}

var c11AssignOps = map[token.Token]token.Token{
	token.ADD_ASSIGN: token.ADD, token.SUB_ASSIGN: token.SUB, token.MUL_ASSIGN: token.MUL, token.QUO_ASSIGN: token.QUO,
	token.REM_ASSIGN: token.REM, token.AND_ASSIGN: token.AND, token.OR_ASSIGN: token.OR, token.XOR_ASSIGN: token.XOR,
	token.SHL_ASSIGN: token.SHL, token.SHR_ASSIGN: token.SHR, token.AND_NOT_ASSIGN: token.AND_NOT,
}

func identExprs(ids []*ast.Ident) []ast.Expr {
	out := make([]ast.Expr, len(ids))
	for i, id := range ids {
		out[i] = id
	}
	return out
}

// copyStruct gives a struct value (not a pointer to one) a fresh identity.
func (it *c11Interp) copyStruct(st *c11St, v *c11V) *c11V {
	if v != nil && v.k == "struct" {
		if h := st.heap[v.id]; h != nil {
			id := it.fresh()
			st.heap[id] = h.clone()
			return &c11V{k: "struct", id: id, typ: v.typ}
		}
	}
	return v
}

// newZero is the zero value of a declared variable: struct-typed variables get a struct value that can be filled field by field.
func (it *c11Interp) newZero(st *c11St, t types.Type) *c11V {
	if _, ok := t.Underlying().(*types.Struct); ok {
		id := it.fresh()
		st.heap[id] = &c11Obj{typ: t, f: map[string]*c11V{}}
		return &c11V{k: "struct", id: id, typ: t}
	}
	return it.zeroOf(st, t)
}

func (it *c11Interp) namedResults(fr *c11Frame, st *c11St) []*c11V {
	var res []*c11V
	if fr.fi == nil || fr.fi.Decl.Type.Results == nil {
		return nil
	}
	for _, f := range fr.fi.Decl.Type.Results.List {
		for _, nm := range f.Names {
			if o, ok := fr.info.Defs[nm].(*types.Var); ok {
				if v, ok := st.env[o]; ok {
					res = append(res, v)
				} else {
					res = append(res, it.zeroOf(st, o.Type()))
				}
			}
		}
	}
	return res
}

// assignMulti handles `a, b = x, y`, `a, b := f()`, `v, ok := x.(T)`, `v, ok := m[k]`.
func (it *c11Interp) assignMulti(fr *c11Frame, st *c11St, lhs, rhs []ast.Expr, tok token.Token) []*c11St {
	var out []*c11St
	if len(lhs) == len(rhs) {
		for _, r := range it.evalN(fr, st, rhs, func(s *c11St, vs []*c11V) *c11V { return &c11V{k: "lit", xs: vs} }) {
			for i, l := range lhs {
				it.assign(fr, r.st, l, r.v.xs[i])
			}
			out = append(out, r.st)
		}
		return out
	}
	if len(rhs) != 1 {
		st.note("unsupported assignment shape")
		return []*c11St{st}
	}
	switch x := ast.Unparen(rhs[0]).(type) {
	case *ast.TypeAssertExpr:
		t := fr.info.TypeOf(x.Type)
		for _, r := range it.eval(fr, st, x.X) {
			it.assign(fr, r.st, lhs[0], &c11V{k: "assert", xs: []*c11V{r.v}, typ: t})
			if len(lhs) > 1 {
				it.assign(fr, r.st, lhs[1], &c11V{k: "typeis", xs: []*c11V{r.v}, typ: t})
			}
			out = append(out, r.st)
		}
		return out
	case *ast.IndexExpr:
		for _, r := range it.eval(fr, st, x) {
			it.assign(fr, r.st, lhs[0], r.v)
			if len(lhs) > 1 {
				it.assign(fr, r.st, lhs[1], &c11V{k: "call", name: "haskey", xs: r.v.xs})
			}
			out = append(out, r.st)
		}
		return out
	}
	for _, r := range it.eval(fr, st, rhs[0]) {
		vs := r.vs
		if r.v != nil {
			vs = nil
			for i := range lhs {
				vs = append(vs, &c11V{k: "res", xs: []*c11V{r.v}, id: i})
			}
		}
		for i, l := range lhs {
			if i < len(vs) {
				it.assign(fr, r.st, l, vs[i])
			} else {
				it.assign(fr, r.st, l, it.unk(r.st, "missing result"))
			}
		}
		out = append(out, r.st)
	}
	return out
}

// store records a write to memory that is not a local value; decisions taken about the old content of that
// place do not hold any more (their atoms are replaced, the positions of the other assumptions are kept).
func (it *c11Interp) store(fr *c11Frame, st *c11St, lhs, rhs *c11V, node ast.Node) {
	k := lhs.key()
	for i, a := range st.as {
		if a.atom.mentions(k) {
			st.as[i].atom = it.unk(st, "overwritten: "+a.atom.key())
		}
	}
	st.ev = append(st.ev, c11Ev{kind: "store", lhs: lhs, rhs: rhs, node: node, nas: len(st.as), fr: fr.path})
}

// assign stores v into the place denoted by lhs.
func (it *c11Interp) assign(fr *c11Frame, st *c11St, lhs ast.Expr, v *c11V) {
	info := fr.info
	first := func(e ast.Expr) *c11V {
		rs := it.eval(fr, st, e)
		if len(rs) != 1 || rs[0].st != st {
			st.note("forking expression on the left of an assignment")
			return it.unk(st, "lhs")
		}
		return rs[0].v
	}
	switch x := ast.Unparen(lhs).(type) {
	case *ast.Ident:
		if x.Name == "_" {
			return
		}
		obj := info.Defs[x]
		if obj == nil {
			obj = info.Uses[x]
		}
		o, ok := obj.(*types.Var)
		if !ok {
			return
		}
		v = it.copyStruct(st, v) // value semantics: the variable gets its own copy
		if o.Pkg() != nil && o.Parent() == o.Pkg().Scope() {
			it.store(fr, st, c11Sym(o.Pkg().Path()+"."+o.Name(), o), v, lhs)
			return
		}
		st.env[o] = v
	case *ast.SelectorExpr:
		sel := info.Selections[x]
		if sel == nil || sel.Kind() != types.FieldVal {
			st.note("assignment to a non-field selector")
			return
		}
		base := first(x.X)
		t := info.TypeOf(x.X)
		idx := sel.Index()
		for n, i := range idx {
			if p, ok := t.Underlying().(*types.Pointer); ok {
				t = p.Elem()
			}
			stt, ok := t.Underlying().(*types.Struct)
			if !ok {
				st.note("assignment through a non-struct")
				return
			}
			f := stt.Field(i)
			if n < len(idx)-1 {
				base = it.readField(st, base, f)
				t = f.Type()
				continue
			}
			b := c11StripPtr(base)
			if b.k == "struct" && st.heap[b.id] != nil {
				st.heap[b.id].f[f.Name()] = v
				return
			}
			// a local variable of struct type holding an opaque value (u := x.Update(); u.Index = i): the
			// variable is a copy, so the write changes the copy, not memory
			if id, ok := ast.Unparen(x.X).(*ast.Ident); ok && n == 0 && base.k != "addr" && base.k != "deref" {
				if lv, ok := info.Uses[id].(*types.Var); ok && !lv.IsField() && !(lv.Pkg() != nil && lv.Parent() == lv.Pkg().Scope()) {
					if _, isStruct := lv.Type().Underlying().(*types.Struct); isStruct {
						if cur, ok := st.env[lv]; ok && cur == base {
							nid := it.fresh()
							st.heap[nid] = &c11Obj{typ: lv.Type(), f: map[string]*c11V{f.Name(): v}, base: base}
							st.env[lv] = &c11V{k: "struct", id: nid, typ: lv.Type()}
							return
						}
					}
				}
			}
			it.store(fr, st, c11Field(b, f), v, lhs)
		}
	case *ast.IndexExpr:
		b, i := first(x.X), first(x.Index)
		it.store(fr, st, &c11V{k: "index", xs: []*c11V{b, i}}, v, lhs)
	case *ast.StarExpr:
		p := first(x.X)
		if it.writeRef(fr, st, p, v) {
			return
		}
		if b := c11StripPtr(p); p.k == "addr" && b.k == "struct" && st.heap[b.id] != nil && v.k == "struct" && st.heap[v.id] != nil {
			st.heap[b.id] = st.heap[v.id].clone()
			return
		}
		it.store(fr, st, c11Deref(p), v, lhs)
	default:
		st.note("unsupported assignment target")
	}
}

func (it *c11Interp) execSwitch(fr *c11Frame, st *c11St, x *ast.SwitchStmt) []c11Out {
	var out []c11Out
	cur := []*c11St{st}
	if x.Init != nil {
		cur = nil
		for _, o := range it.exec(fr, st, x.Init) {
			if o.ctl == c11Normal {
				cur = append(cur, o.st)
			} else {
				out = append(out, o)
			}
		}
	}
	type tagged struct {
		st  *c11St
		tag *c11V
	}
	var ts []tagged
	for _, c := range cur {
		if x.Tag == nil {
			ts = append(ts, tagged{st: c})
			continue
		}
		for _, r := range it.eval(fr, c, x.Tag) {
			ts = append(ts, tagged{st: r.st, tag: r.v})
		}
	}
	finish := func(os []c11Out) {
		for _, o := range os {
			if o.ctl == c11Break && o.lbl == "" {
				o.ctl = c11Normal
			}
			out = append(out, o)
		}
	}
	var deflt *ast.CaseClause
	for _, t := range ts {
		rest := []*c11St{t.st}
		for _, cl := range x.Body.List {
			cc := cl.(*ast.CaseClause)
			if cc.List == nil {
				deflt = cc
				continue
			}
			for _, s := range cc.Body {
				if b, ok := s.(*ast.BranchStmt); ok && b.Tok == token.FALLTHROUGH {
					t.st.note("fallthrough")
				}
			}
			var hit []*c11St
			for _, ce := range cc.List {
				var next []*c11St
				for _, r := range rest {
					for _, ev := range it.eval(fr, r, ce) {
						v := ev.v
						if t.tag != nil {
							v = c11Bin(token.EQL, t.tag, v)
						}
						T, F := it.split(ev.st, v)
						hit = append(hit, T...)
						next = append(next, F...)
					}
				}
				rest = next
			}
			for _, h := range hit {
				finish(it.execList(fr, h, cc.Body))
			}
		}
		for _, r := range rest {
			if deflt != nil {
				finish(it.execList(fr, r, deflt.Body))
			} else {
				out = append(out, c11Out{st: r, ctl: c11Normal})
			}
		}
	}
	return out
}

func (it *c11Interp) execTypeSwitch(fr *c11Frame, st *c11St, x *ast.TypeSwitchStmt) []c11Out {
	var out []c11Out
	cur := []*c11St{st}
	if x.Init != nil {
		cur = nil
		for _, o := range it.exec(fr, st, x.Init) {
			if o.ctl == c11Normal {
				cur = append(cur, o.st)
			} else {
				out = append(out, o)
			}
		}
	}
	var ta *ast.TypeAssertExpr
	switch a := x.Assign.(type) {
	case *ast.AssignStmt:
		if len(a.Rhs) == 1 {
			ta, _ = ast.Unparen(a.Rhs[0]).(*ast.TypeAssertExpr)
		}
	case *ast.ExprStmt:
		ta, _ = ast.Unparen(a.X).(*ast.TypeAssertExpr)
	}
	if ta == nil {
		st.note("unsupported type switch")
		return c11Norm(cur)
	}
	finish := func(os []c11Out) {
		for _, o := range os {
			if o.ctl == c11Break && o.lbl == "" {
				o.ctl = c11Normal
			}
			out = append(out, o)
		}
	}
	for _, c := range cur {
		for _, r := range it.eval(fr, c, ta.X) {
			rest := []*c11St{r.st}
			var deflt *ast.CaseClause
			for _, cl := range x.Body.List {
				cc := cl.(*ast.CaseClause)
				if cc.List == nil {
					deflt = cc
					continue
				}
				var hit []*c11St
				for _, te := range cc.List {
					var test *c11V
					if c11IsNilIdent(fr.info, te) {
						test = c11Bin(token.EQL, r.v, c11Nil())
					} else {
						test = &c11V{k: "typeis", xs: []*c11V{r.v}, typ: fr.info.TypeOf(te)}
					}
					var next []*c11St
					for _, s := range rest {
						T, F := it.split(s, test)
						hit = append(hit, T...)
						next = append(next, F...)
					}
					rest = next
				}
				for _, h := range hit {
					if o, ok := fr.info.Implicits[cc].(*types.Var); ok {
						if len(cc.List) == 1 && !c11IsNilIdent(fr.info, cc.List[0]) {
							h.env[o] = &c11V{k: "assert", xs: []*c11V{r.v}, typ: fr.info.TypeOf(cc.List[0])}
						} else {
							h.env[o] = r.v
						}
					}
					finish(it.execList(fr, h, cc.Body))
				}
			}
			for _, s := range rest {
				if deflt != nil {
					if o, ok := fr.info.Implicits[deflt].(*types.Var); ok {
						s.env[o] = r.v
					}
					finish(it.execList(fr, s, deflt.Body))
				} else {
					out = append(out, c11Out{st: s, ctl: c11Normal})
				}
			}
		}
	}
	return out
}

// assignedIn lists the variables (declared outside n or inside, no matter) assigned anywhere in n.
func c11AssignedIn(info *types.Info, n ast.Node) map[*types.Var]bool {
	out := map[*types.Var]bool{}
	add := func(e ast.Expr) {
		if id, ok := ast.Unparen(e).(*ast.Ident); ok {
			if v, ok := info.Uses[id].(*types.Var); ok {
				out[v] = true
			}
		}
	}
	ast.Inspect(n, func(m ast.Node) bool {
		switch s := m.(type) {
		case *ast.AssignStmt:
			for _, l := range s.Lhs {
				add(l)
			}
		case *ast.IncDecStmt:
			add(s.X)
		case *ast.RangeStmt:
			if s.Tok == token.ASSIGN {
				if s.Key != nil {
					add(s.Key)
				}
				if s.Value != nil {
					add(s.Value)
				}
			}
		case *ast.UnaryExpr:
			if s.Op == token.AND {
				add(s.X)
			}
		}
		return true
	})
	return out
}

// c11LoopKey identifies one loop statement in one frame.
func c11LoopKey(loop ast.Node, path string) string { return strconv.Itoa(int(loop.Pos())) + path }

// havoc replaces the variables assigned in the loop by fresh symbols: the state at the head of an arbitrary
// iteration. The values they had before the loop are recorded in a "loop" event.
func (it *c11Interp) havoc(fr *c11Frame, st *c11St, loop ast.Node) {
	pre := map[types.Object]*c11V{}
	for v := range c11AssignedIn(fr.info, loop) {
		if cur, ok := st.env[v]; ok {
			pre[v] = cur
			st.env[v] = c11LoopSym(loop, fr.path, v)
		}
	}
	// a loop that calls functions: the callees may write through any pointer to a local that exists
	if len(st.escaped) > 0 {
		calls := false
		ast.Inspect(loop, func(n ast.Node) bool {
			if c, ok := n.(*ast.CallExpr); ok && builtinName(fr.info, c) == "" {
				if tv, ok := fr.info.Types[c.Fun]; !ok || !tv.IsType() {
					calls = true
				}
			}
			return !calls
		})
		if calls {
			for o, owner := range st.escaped {
				if env := it.envOf(fr, st, owner); env != nil {
					if cur, ok := env[o]; ok {
						if _, done := pre[o]; !done {
							pre[o] = cur
							env[o] = c11LoopSym(loop, fr.path, o)
						}
					}
				}
			}
		}
	}
	// variables written through pointers to locals (`*dst = append(*dst, u)`)
	for _, p := range it.refTargets(fr, st, loop) {
		if env := it.envOf(fr, st, p.name); env != nil {
			if cur, ok := env[p.obj]; ok {
				if _, done := pre[p.obj]; !done {
					pre[p.obj] = cur
					env[p.obj] = c11LoopSym(loop, fr.path, p.obj)
				}
			}
		}
	}
	// function values called in the loop: the variables their literals assign (in the frame that created
	// them, possibly a suspended caller) change from iteration to iteration as well
	ast.Inspect(loop, func(n ast.Node) bool {
		call, ok := n.(*ast.CallExpr)
		if !ok {
			return true
		}
		id, ok := ast.Unparen(call.Fun).(*ast.Ident)
		if !ok {
			return true
		}
		fv, ok := fr.info.Uses[id].(*types.Var)
		if !ok {
			return true
		}
		f, ok := st.env[fv]
		if !ok || f.k != "funclit" {
			return true
		}
		lit := f.node.(*ast.FuncLit)
		cf := it.litInfo[lit]
		if cf == nil {
			return true
		}
		env := st.env
		if f.name != fr.envP {
			env = nil
			for i := len(st.stack) - 1; i >= 0; i-- {
				if st.stack[i].path == f.name {
					env = st.stack[i].env
					break
				}
			}
		}
		if env == nil {
			return true
		}
		for v := range c11AssignedIn(cf.info, lit.Body) {
			if cur, ok := env[v]; ok {
				if _, done := pre[v]; !done {
					pre[v] = cur
					env[v] = c11LoopSym(loop, fr.path, v)
				}
			}
		}
		return true
	})
	// struct values built before the loop whose fields are written in it: those fields are unknown from here on
	ast.Inspect(loop, func(n ast.Node) bool {
		as, ok := n.(*ast.AssignStmt)
		if !ok {
			return true
		}
		for _, l := range as.Lhs {
			sel, isSel := ast.Unparen(l).(*ast.SelectorExpr)
			if !isSel {
				continue
			}
			first := sel // the selector applied directly to the root variable
			e := sel.X
			for {
				switch x := ast.Unparen(e).(type) {
				case *ast.SelectorExpr:
					first = x
					e = x.X
					continue
				case *ast.StarExpr:
					e = x.X
					continue
				}
				break
			}
			id, ok := ast.Unparen(e).(*ast.Ident)
			if !ok {
				continue
			}
			v, ok := fr.info.Uses[id].(*types.Var)
			if !ok {
				continue
			}
			cur, ok := st.env[v]
			if !ok {
				continue
			}
			sym := "loop@" + c11LoopKey(loop, fr.path) + ":" + v.Name()
			if b := c11StripPtr(cur); b.k == "struct" && st.heap[b.id] != nil {
				o := st.heap[b.id].clone()
				o.f[first.Sel.Name] = c11Sym(sym+"."+first.Sel.Name, nil)
				st.heap[b.id] = o
			} else if _, isStruct := v.Type().Underlying().(*types.Struct); isStruct && pre[v] == nil {
				// an opaque struct value that the loop turns into a modified local copy
				nid := it.fresh()
				st.heap[nid] = &c11Obj{typ: v.Type(), f: map[string]*c11V{first.Sel.Name: c11Sym(sym+"."+first.Sel.Name, nil)}, base: cur}
				st.env[v] = &c11V{k: "struct", id: nid, typ: v.Type()}
			}
		}
		return true
	})
	st.ev = append(st.ev, c11Ev{kind: "loop", node: loop, pre: pre, nas: len(st.as), fr: fr.path, key: c11LoopKey(loop, fr.path)})
}

// c11LoopSym is the symbol havoc gives variable v at the head of loop in the frame with call path `path`.
func c11LoopSym(loop ast.Node, path string, v types.Object) *c11V {
	return c11Sym("loop@"+c11LoopKey(loop, path)+":"+v.Name(), v)
}

func (it *c11Interp) loopBody(fr *c11Frame, T []*c11St, body *ast.BlockStmt, post ast.Stmt, loop ast.Stmt) (exits []*c11St, out []c11Out) {
	for _, t := range T {
		for _, o := range it.exec(fr, t, body) {
			switch {
			case o.ctl == c11Normal || (o.ctl == c11Continue && o.lbl == ""):
				ends := []*c11St{o.st}
				if post != nil {
					ends = nil
					for _, p := range it.exec(fr, o.st, post) {
						ends = append(ends, p.st)
					}
				}
				for _, e := range ends {
					if it.onLoop != nil {
						it.onLoop(fr, e, loop, "back")
					}
					it.done = append(it.done, c11Out{st: e, ctl: c11Back, loop: loop, loopKey: c11LoopKey(loop, fr.path)})
				}
			case o.ctl == c11Break && o.lbl == "":
				o.st.ev = append(o.st.ev, c11Ev{kind: "break", node: loop, nas: len(o.st.as), fr: fr.path, key: c11LoopKey(loop, fr.path)})
				exits = append(exits, o.st)
			default:
				out = append(out, o)
			}
		}
	}
	return exits, out
}

func (it *c11Interp) execFor(fr *c11Frame, st *c11St, x *ast.ForStmt) []c11Out {
	var out []c11Out
	cur := []*c11St{st}
	if x.Init != nil {
		cur = nil
		for _, o := range it.exec(fr, st, x.Init) {
			if o.ctl == c11Normal {
				cur = append(cur, o.st)
			} else {
				out = append(out, o)
			}
		}
	}
	if it.concrete {
		return append(out, it.execForConcrete(fr, cur, x)...)
	}
	for _, c := range cur {
		if it.onLoop != nil {
			it.onLoop(fr, c, x, "init")
		}
		it.havoc(fr, c, x)
		if it.onLoop != nil {
			it.onLoop(fr, c, x, "head")
		}
		T, F := []*c11St{c}, []*c11St(nil)
		if x.Cond != nil {
			T, F = it.branch(fr, c, x.Cond)
		}
		exits, o2 := it.loopBody(fr, T, x.Body, x.Post, x)
		out = append(out, o2...)
		out = append(out, c11Norm(F)...)
		out = append(out, c11Norm(exits)...)
	}
	return out
}

func (it *c11Interp) execRange(fr *c11Frame, st *c11St, x *ast.RangeStmt) []c11Out {
	var out []c11Out
	for _, r := range it.eval(fr, st, x.X) {
		c := r.st
		if it.concrete {
			if o, ok := it.execRangeConcrete(fr, c, x, r.v); ok {
				out = append(out, o...)
				continue
			}
			c.note("range over a value that is not concrete")
		}
		if it.onLoop != nil {
			it.onLoop(fr, c, x, "init")
		}
		it.havoc(fr, c, x)
		c.ev[len(c.ev)-1].x = r.v
		exit := c.clone()
		key := c11RangeKey(x, fr.path)
		var val *c11V
		switch t := fr.info.TypeOf(x.X).Underlying().(type) {
		case *types.Slice, *types.Array, *types.Map, *types.Pointer:
			_ = t
			val = &c11V{k: "index", xs: []*c11V{r.v, key}}
		default:
			val = c11Sym("iter@"+c11LoopKey(x, fr.path)+":value", nil)
		}
		if x.Key != nil {
			it.assign(fr, c, x.Key, key)
		}
		if x.Value != nil {
			it.assign(fr, c, x.Value, val)
		}
		if it.onLoop != nil {
			it.onLoop(fr, c, x, "head")
		}
		exits, o2 := it.loopBody(fr, []*c11St{c}, x.Body, nil, x)
		out = append(out, o2...)
		out = append(out, c11Out{st: exit, ctl: c11Normal})
		out = append(out, c11Norm(exits)...)
	}
	return out
}

// c11RangeKey is the symbol of the key of an arbitrary iteration of range loop x (in frame path).
func c11RangeKey(x *ast.RangeStmt, path string) *c11V {
	return c11Sym("iter@"+c11LoopKey(x, path)+":key", nil)
}

// callInline executes fi with the given receiver and arguments and returns its outcomes in the caller's environment.
func (it *c11Interp) callInline(fr *c11Frame, st *c11St, fi *FuncInfo, recv *c11V, args []*c11V, call *ast.CallExpr) []c11Out {
	st.stack = append(st.stack, c11Saved{path: fr.envP, env: st.env})
	nf := &c11Frame{pk: fi.Pkg, info: fi.Pkg.TypesInfo, fi: fi, depth: fr.depth + 1}
	pos := 0
	if call != nil {
		pos = int(call.Pos())
	}
	nf.path = fr.path + "/" + fi.Obj.FullName() + "@" + strconv.Itoa(pos)
	nf.envP = nf.path
	env := map[types.Object]*c11V{}
	info := nf.info
	if fi.Decl.Recv != nil && len(fi.Decl.Recv.List) == 1 && len(fi.Decl.Recv.List[0].Names) == 1 && recv != nil {
		if o := info.Defs[fi.Decl.Recv.List[0].Names[0]]; o != nil {
			env[o] = recv
		}
	}
	sig := fi.Obj.Type().(*types.Signature)
	i := 0
	for _, f := range fi.Decl.Type.Params.List {
		for _, nm := range f.Names {
			o := info.Defs[nm]
			var v *c11V
			switch {
			case sig.Variadic() && i == sig.Params().Len()-1 && !(call != nil && call.Ellipsis.IsValid()):
				var rest []*c11V
				if i < len(args) {
					rest = args[i:]
				}
				v = &c11V{k: "lit", xs: rest, typ: sig.Params().At(i).Type(), id: it.fresh()}
			case i < len(args):
				v = args[i]
			default:
				v = it.unk(st, "missing argument")
			}
			if o != nil {
				env[o] = it.copyStruct(st, v)
			}
			i++
		}
		if len(f.Names) == 0 {
			i++
		}
	}
	if fi.Decl.Type.Results != nil {
		for _, f := range fi.Decl.Type.Results.List {
			for _, nm := range f.Names {
				if o, ok := info.Defs[nm].(*types.Var); ok {
					env[o] = it.newZero(st, o.Type())
				}
			}
		}
	}
	st.env = env
	var out []c11Out
	for _, o := range it.runDefers(nf, it.execList(nf, st, fi.Decl.Body.List)) {
		switch o.ctl {
		case c11Normal:
			o.res = it.namedResults(nf, o.st)
			o.ctl = c11Return
		case c11Return, c11Panic:
		default:
			o.st.note("stray control transfer")
		}
		if n := len(o.st.stack); n > 0 { // back to the caller's environment (every state owns its copy of the stack)
			o.st.env = o.st.stack[n-1].env
			o.st.stack = o.st.stack[:n-1]
		}
		out = append(out, o)
	}
	for i := range it.done {
		// iteration paths that ended inside the callee keep the callee's environment; nothing to restore
		_ = i
	}
	return out
}

// run executes fi from a fresh state; bind overrides the symbols of receiver/parameters.
func (it *c11Interp) run(fi *FuncInfo, bind map[types.Object]*c11V) ([]c11Out, *c11Frame) {
	fr := &c11Frame{pk: fi.Pkg, info: fi.Pkg.TypesInfo, fi: fi}
	st := c11NewSt()
	for id, o := range it.initHeap {
		st.heap[id] = o.clone()
	}
	info := fr.info
	def := func(nm *ast.Ident) {
		o := info.Defs[nm]
		if o == nil {
			return
		}
		if v, ok := bind[o]; ok {
			st.env[o] = v
		} else {
			st.env[o] = c11Sym("param "+o.Name(), o)
		}
	}
	if fi.Decl.Recv != nil {
		for _, f := range fi.Decl.Recv.List {
			for _, nm := range f.Names {
				def(nm)
			}
		}
	}
	for _, f := range fi.Decl.Type.Params.List {
		for _, nm := range f.Names {
			def(nm)
		}
	}
	if fi.Decl.Type.Results != nil {
		for _, f := range fi.Decl.Type.Results.List {
			for _, nm := range f.Names {
				if o, ok := info.Defs[nm].(*types.Var); ok {
					st.env[o] = it.newZero(st, o.Type())
				}
			}
		}
	}
	outs := it.runDefers(fr, it.execList(fr, st, fi.Decl.Body.List))
	for i := range outs {
		if outs[i].ctl == c11Normal {
			outs[i].ctl = c11Return
			outs[i].res = it.namedResults(fr, outs[i].st)
		}
	}
	return outs, fr
}

// c11Param returns the symbol run gives parameter/receiver object o.
func c11Param(o types.Object) *c11V { return c11Sym("param "+o.Name(), o) }
