package rules

import "osmcheck/core"

// c17Benign2: behaviour-preserving variants of the multipolygon builder (round 2): the discount set of the interest
// predicate carried by a local (bound conditionally, on both arms, default-then-override, by a switch) and the geometry
// part extracted into methods/helpers (`inc || valid` spelling, predicate helpers, thin builder). Texts are Go raw strings.
var c17Benign2 = []core.Mutant{
	// duplicated branches merged: nil local bound conditionally before the single guard
	{Name: "b-g6-discount-local-conditional", File: "osmgeojson/build_polygon.go", Nth: 0,
		Find: `		if m.Role == "outer" {
			if !hasInterestingTags(way.Tags, tags) {
				ctx.skippable[way.ID] = struct{}{}
			}
		} else {
			if !hasInterestingTags(way.Tags, nil) {
				ctx.skippable[way.ID] = struct{}{}
			}
		}
`,
		Replace: `		// tags the outer ways share with the relation are not interesting.
		var ignore map[string]string
		if m.Role == "outer" {
			ignore = tags
		}

		if !hasInterestingTags(way.Tags, ignore) {
			ctx.skippable[way.ID] = struct{}{}
		}
`},
	// local assigned on both arms of an if/else; role test and guard named by boolean locals
	{Name: "b-g6-discount-local-both-arms", File: "osmgeojson/build_polygon.go", Nth: 0,
		Find: `		if m.Role == "outer" {
			if !hasInterestingTags(way.Tags, tags) {
				ctx.skippable[way.ID] = struct{}{}
			}
		} else {
			if !hasInterestingTags(way.Tags, nil) {
				ctx.skippable[way.ID] = struct{}{}
			}
		}
`,
		Replace: `		var ignore map[string]string
		if isOuter := m.Role == "outer"; isOuter {
			ignore = tags
		} else {
			ignore = nil
		}

		boring := !hasInterestingTags(way.Tags, ignore)
		if boring {
			ctx.skippable[way.ID] = struct{}{}
		}
`},
	// default-then-override spelling: bound to the tags first, reset to nil for non-outer members; inverted guard
	{Name: "b-g6-discount-default-override", File: "osmgeojson/build_polygon.go", Nth: 0,
		Find: `		if m.Role == "outer" {
			if !hasInterestingTags(way.Tags, tags) {
				ctx.skippable[way.ID] = struct{}{}
			}
		} else {
			if !hasInterestingTags(way.Tags, nil) {
				ctx.skippable[way.ID] = struct{}{}
			}
		}
`,
		Replace: `		ignore := tags
		if m.Role != "outer" {
			// inner ways must not have any interesting tags at all
			ignore = nil
		}

		if hasInterestingTags(way.Tags, ignore) {
			// the way keeps its own feature
		} else {
			ctx.skippable[way.ID] = struct{}{}
		}
`},
	// tagged switch over the role binds the discount set
	{Name: "b-g6-discount-role-switch", File: "osmgeojson/build_polygon.go", Nth: 0,
		Find: `		if m.Role == "outer" {
			if !hasInterestingTags(way.Tags, tags) {
				ctx.skippable[way.ID] = struct{}{}
			}
		} else {
			if !hasInterestingTags(way.Tags, nil) {
				ctx.skippable[way.ID] = struct{}{}
			}
		}
`,
		Replace: `		var ignore map[string]string
		switch m.Role {
		case "outer":
			ignore = tags
		default:
		}

		if !hasInterestingTags(way.Tags, ignore) {
			ctx.skippable[way.ID] = struct{}{}
		}
`},
	// multi-outer branch extracted into a method; `!inc && invalid -> continue` as `inc || valid -> append`; validity predicate helper; option read once into a local
	{Name: "b-g3-invalid-extracted-method-inc-or-valid", File: "osmgeojson/build_polygon.go", Nth: 0,
		Find: `	} else {
		// more than one outer, need to map inner polygons to
		// the outer that contains them.
		outerSections := mputil.Join(outer)

		mp := make(orb.MultiPolygon, 0, len(outer))
		for _, os := range outerSections {
			ring := os.Ring(orb.CCW)
			if !ctx.includeInvalidPolygons && (len(ring) < 4 || !ring.Closed()) {
				// needs at least 4 points and matching endpoints
				continue
			}

			mp = append(mp, orb.Polygon{ring})
		}

		if len(mp) == 0 && !ctx.includeInvalidPolygons {
			// no valid outer ways.
			return nil
		}

		innerSections := mputil.Join(inner)
		for _, is := range innerSections {
			ring := is.Ring(orb.CW)
			mp = addToMultiPolygon(mp, ring, ctx.includeInvalidPolygons)
		}

		if len(mp) == 0 {
			return nil
		}

		geometry = mp
		if len(mp) == 1 {
			geometry = mp[0]
		}
	}

	featureID := tagObject.FeatureID()
	f := geojson.NewFeature(geometry)

	if !ctx.noID {
		f.ID = fmt.Sprintf("%s/%d", featureID.Type(), featureID.Ref())
	}
	f.Properties["id"] = int(featureID.Ref())
	f.Properties["type"] = string(featureID.Type())

	if tainted {
		f.Properties["tainted"] = true
	}

	f.Properties["tags"] = tags
	ctx.addMetaProperties(f.Properties, tagObject)

	return f
}

`,
		Replace: `	} else {
		// more than one outer, need to map inner polygons to
		// the outer that contains them.
		mp := ctx.multiOuterPolygons(outer, inner)
		if len(mp) == 0 {
			return nil
		}

		geometry = mp
		if len(mp) == 1 {
			geometry = mp[0]
		}
	}

	featureID := tagObject.FeatureID()
	f := geojson.NewFeature(geometry)

	if !ctx.noID {
		f.ID = fmt.Sprintf("%s/%d", featureID.Type(), featureID.Ref())
	}
	f.Properties["id"] = int(featureID.Ref())
	f.Properties["type"] = string(featureID.Type())

	if tainted {
		f.Properties["tainted"] = true
	}

	f.Properties["tags"] = tags
	ctx.addMetaProperties(f.Properties, tagObject)

	return f
}

// validRing returns true if the ring has at least 4 points and matching endpoints.
func validRing(ring orb.Ring) bool {
	return len(ring) >= 4 && ring.Closed()
}

// multiOuterPolygons joins the outer segments into rings and maps the joined
// inner rings to the outer that contains them.
func (ctx *context) multiOuterPolygons(outer, inner []mputil.Segment) orb.MultiPolygon {
	inc := ctx.includeInvalidPolygons

	mp := make(orb.MultiPolygon, 0, len(outer))
	for _, os := range mputil.Join(outer) {
		ring := os.Ring(orb.CCW)
		if inc || validRing(ring) {
			mp = append(mp, orb.Polygon{ring})
		}
	}

	if len(mp) == 0 && !inc {
		// no valid outer ways.
		return nil
	}

	for _, is := range mputil.Join(inner) {
		mp = addToMultiPolygon(mp, is.Ring(orb.CW), inc)
	}

	return mp
}

`},
	// builder left without any orb.MultiPolygon value: geometry assembled by helpers behind an orb.Geometry result; option read through a predicate method
	{Name: "b-g3-invalid-thin-builder-geometry-helpers", File: "osmgeojson/build_polygon.go", Nth: 0,
		Find: `	} else {
		// more than one outer, need to map inner polygons to
		// the outer that contains them.
		outerSections := mputil.Join(outer)

		mp := make(orb.MultiPolygon, 0, len(outer))
		for _, os := range outerSections {
			ring := os.Ring(orb.CCW)
			if !ctx.includeInvalidPolygons && (len(ring) < 4 || !ring.Closed()) {
				// needs at least 4 points and matching endpoints
				continue
			}

			mp = append(mp, orb.Polygon{ring})
		}

		if len(mp) == 0 && !ctx.includeInvalidPolygons {
			// no valid outer ways.
			return nil
		}

		innerSections := mputil.Join(inner)
		for _, is := range innerSections {
			ring := is.Ring(orb.CW)
			mp = addToMultiPolygon(mp, ring, ctx.includeInvalidPolygons)
		}

		if len(mp) == 0 {
			return nil
		}

		geometry = mp
		if len(mp) == 1 {
			geometry = mp[0]
		}
	}

	featureID := tagObject.FeatureID()
	f := geojson.NewFeature(geometry)

	if !ctx.noID {
		f.ID = fmt.Sprintf("%s/%d", featureID.Type(), featureID.Ref())
	}
	f.Properties["id"] = int(featureID.Ref())
	f.Properties["type"] = string(featureID.Type())

	if tainted {
		f.Properties["tainted"] = true
	}

	f.Properties["tags"] = tags
	ctx.addMetaProperties(f.Properties, tagObject)

	return f
}

`,
		Replace: `	} else {
		// more than one outer, need to map inner polygons to
		// the outer that contains them.
		geometry = ctx.multiOuterGeometry(outer, inner)
		if geometry == nil {
			return nil
		}
	}

	featureID := tagObject.FeatureID()
	f := geojson.NewFeature(geometry)

	if !ctx.noID {
		f.ID = fmt.Sprintf("%s/%d", featureID.Type(), featureID.Ref())
	}
	f.Properties["id"] = int(featureID.Ref())
	f.Properties["type"] = string(featureID.Type())

	if tainted {
		f.Properties["tainted"] = true
	}

	f.Properties["tags"] = tags
	ctx.addMetaProperties(f.Properties, tagObject)

	return f
}

// multiOuterGeometry builds the polygon or multipolygon of a relation with several outer ways.
func (ctx *context) multiOuterGeometry(outer, inner []mputil.Segment) orb.Geometry {
	rings := ctx.outerRings(mputil.Join(outer))
	if len(rings) == 0 && !ctx.includeInvalidPolygons {
		// no valid outer ways.
		return nil
	}

	return ctx.withHoles(rings, mputil.Join(inner))
}

// keepRing: rings need at least 4 points and matching endpoints, unless invalid polygons are wanted.
func (ctx *context) keepRing(ring orb.Ring) bool {
	return ctx.includeInvalidPolygons || (len(ring) >= 4 && ring.Closed())
}

func (ctx *context) outerRings(sections []mputil.MultiSegment) []orb.Polygon {
	rings := make([]orb.Polygon, 0, len(sections))
	for _, os := range sections {
		if ring := os.Ring(orb.CCW); ctx.keepRing(ring) {
			rings = append(rings, orb.Polygon{ring})
		}
	}

	return rings
}

func (ctx *context) withHoles(rings []orb.Polygon, innerSections []mputil.MultiSegment) orb.Geometry {
	mp := orb.MultiPolygon(rings)
	for _, is := range innerSections {
		mp = addToMultiPolygon(mp, is.Ring(orb.CW), ctx.includeInvalidPolygons)
	}

	switch len(mp) {
	case 0:
		return nil
	case 1:
		return mp[0]
	}

	return mp
}

`},
}

// c17Mutants2: defects seeded into those shapes (and one into the original shape of the inner-way branch).
var c17Mutants2 = []core.Mutant{
	// discount set bound to the relation tags for inner members too
	{Name: "r-g6-discount-inner-too", File: "osmgeojson/build_polygon.go", Nth: 0, ExpectRule: "G6", ExpectConstruct: "buildPolygon way.ID",
		Find: `		if m.Role == "outer" {
			if !hasInterestingTags(way.Tags, tags) {
				ctx.skippable[way.ID] = struct{}{}
			}
		} else {
			if !hasInterestingTags(way.Tags, nil) {
				ctx.skippable[way.ID] = struct{}{}
			}
		}
`,
		Replace: `		// tags the outer ways share with the relation are not interesting.
		var ignore map[string]string
		ignore = tags

		if !hasInterestingTags(way.Tags, ignore) {
			ctx.skippable[way.ID] = struct{}{}
		}
`},
	// else arm also binds the relation tags
	{Name: "r-g6-discount-both-arms-inner", File: "osmgeojson/build_polygon.go", Nth: 0, ExpectRule: "G6", ExpectConstruct: "buildPolygon way.ID",
		Find: `		if m.Role == "outer" {
			if !hasInterestingTags(way.Tags, tags) {
				ctx.skippable[way.ID] = struct{}{}
			}
		} else {
			if !hasInterestingTags(way.Tags, nil) {
				ctx.skippable[way.ID] = struct{}{}
			}
		}
`,
		Replace: `		var ignore map[string]string
		if isOuter := m.Role == "outer"; isOuter {
			ignore = tags
		} else {
			ignore = tags
		}

		boring := !hasInterestingTags(way.Tags, ignore)
		if boring {
			ctx.skippable[way.ID] = struct{}{}
		}
`},
	// override resets the discount set for the wrong role: inner ways keep the relation tags as discount
	{Name: "r-g6-discount-override-wrong-role", File: "osmgeojson/build_polygon.go", Nth: 0, ExpectRule: "G6", ExpectConstruct: "buildPolygon way.ID",
		Find: `		if m.Role == "outer" {
			if !hasInterestingTags(way.Tags, tags) {
				ctx.skippable[way.ID] = struct{}{}
			}
		} else {
			if !hasInterestingTags(way.Tags, nil) {
				ctx.skippable[way.ID] = struct{}{}
			}
		}
`,
		Replace: `		ignore := tags
		if m.Role != "inner" {
			// inner ways must not have any interesting tags at all
			ignore = nil
		}

		if hasInterestingTags(way.Tags, ignore) {
			// the way keeps its own feature
		} else {
			ctx.skippable[way.ID] = struct{}{}
		}
`},
	// default case of the role switch binds the relation tags
	{Name: "r-g6-discount-switch-default", File: "osmgeojson/build_polygon.go", Nth: 0, ExpectRule: "G6", ExpectConstruct: "buildPolygon way.ID",
		Find: `		if m.Role == "outer" {
			if !hasInterestingTags(way.Tags, tags) {
				ctx.skippable[way.ID] = struct{}{}
			}
		} else {
			if !hasInterestingTags(way.Tags, nil) {
				ctx.skippable[way.ID] = struct{}{}
			}
		}
`,
		Replace: `		var ignore map[string]string
		switch m.Role {
		case "outer":
			ignore = tags
		default:
			ignore = tags
		}

		if !hasInterestingTags(way.Tags, ignore) {
			ctx.skippable[way.ID] = struct{}{}
		}
`},
	// original shape: the inner branch discounts the relation tags
	{Name: "g6-inner-way-discounts-relation-tags", File: "osmgeojson/build_polygon.go", Nth: 0, ExpectRule: "G6", ExpectConstruct: "buildPolygon way.ID",
		Find: `			if !hasInterestingTags(way.Tags, nil) {
				ctx.skippable[way.ID] = struct{}{}`,
		Replace: `			if !hasInterestingTags(way.Tags, tags) {
				ctx.skippable[way.ID] = struct{}{}`},
	// discount local declared outside the member loop: an inner way after an outer way inherits the relation tags
	{Name: "r-g6-discount-local-outlives-iteration", File: "osmgeojson/build_polygon.go", Nth: 0, ExpectRule: "G6", ExpectConstruct: "buildPolygon way.ID",
		Find: `	var outerWay *osm.Way // used to get featureID if only one outer way
	for _, m := range relation.Members {
		if m.Type != osm.TypeWay {
			continue
		}

		if m.Role != "inner" && m.Role != "outer" {
			continue
		}

		if m.Role == "outer" {
			outerCount++
		}

		way := ctx.wayMap[osm.WayID(m.Ref)]
		if way == nil {
			if len(m.Nodes) != 0 {
				way = &osm.Way{
					ID:    osm.WayID(m.Ref),
					Nodes: m.Nodes,
				}
			} else {
				tainted = true
				continue
			}
		}

		if m.Role == "outer" {
			if !hasInterestingTags(way.Tags, tags) {
				ctx.skippable[way.ID] = struct{}{}
			}
		} else {
			if !hasInterestingTags(way.Tags, nil) {
				ctx.skippable[way.ID] = struct{}{}
			}
		}
`,
		Replace: `	var outerWay *osm.Way // used to get featureID if only one outer way
	var ignore map[string]string
	for _, m := range relation.Members {
		if m.Type != osm.TypeWay {
			continue
		}

		if m.Role != "inner" && m.Role != "outer" {
			continue
		}

		if m.Role == "outer" {
			outerCount++
		}

		way := ctx.wayMap[osm.WayID(m.Ref)]
		if way == nil {
			if len(m.Nodes) != 0 {
				way = &osm.Way{
					ID:    osm.WayID(m.Ref),
					Nodes: m.Nodes,
				}
			} else {
				tainted = true
				continue
			}
		}

		if m.Role == "outer" {
			ignore = tags
		}

		if !hasInterestingTags(way.Tags, ignore) {
			ctx.skippable[way.ID] = struct{}{}
		}
`},
	// `inc || valid` with the option negated: validity is enforced only when invalid polygons are requested
	{Name: "r-g3-invalid-inc-or-valid-inverted", File: "osmgeojson/build_polygon.go", Nth: 0, ExpectRule: "G3", ExpectConstruct: "multiOuterPolygons includeInvalidPolygons",
		Find: `	} else {
		// more than one outer, need to map inner polygons to
		// the outer that contains them.
		outerSections := mputil.Join(outer)

		mp := make(orb.MultiPolygon, 0, len(outer))
		for _, os := range outerSections {
			ring := os.Ring(orb.CCW)
			if !ctx.includeInvalidPolygons && (len(ring) < 4 || !ring.Closed()) {
				// needs at least 4 points and matching endpoints
				continue
			}

			mp = append(mp, orb.Polygon{ring})
		}

		if len(mp) == 0 && !ctx.includeInvalidPolygons {
			// no valid outer ways.
			return nil
		}

		innerSections := mputil.Join(inner)
		for _, is := range innerSections {
			ring := is.Ring(orb.CW)
			mp = addToMultiPolygon(mp, ring, ctx.includeInvalidPolygons)
		}

		if len(mp) == 0 {
			return nil
		}

		geometry = mp
		if len(mp) == 1 {
			geometry = mp[0]
		}
	}

	featureID := tagObject.FeatureID()
	f := geojson.NewFeature(geometry)

	if !ctx.noID {
		f.ID = fmt.Sprintf("%s/%d", featureID.Type(), featureID.Ref())
	}
	f.Properties["id"] = int(featureID.Ref())
	f.Properties["type"] = string(featureID.Type())

	if tainted {
		f.Properties["tainted"] = true
	}

	f.Properties["tags"] = tags
	ctx.addMetaProperties(f.Properties, tagObject)

	return f
}

`,
		Replace: `	} else {
		// more than one outer, need to map inner polygons to
		// the outer that contains them.
		mp := ctx.multiOuterPolygons(outer, inner)
		if len(mp) == 0 {
			return nil
		}

		geometry = mp
		if len(mp) == 1 {
			geometry = mp[0]
		}
	}

	featureID := tagObject.FeatureID()
	f := geojson.NewFeature(geometry)

	if !ctx.noID {
		f.ID = fmt.Sprintf("%s/%d", featureID.Type(), featureID.Ref())
	}
	f.Properties["id"] = int(featureID.Ref())
	f.Properties["type"] = string(featureID.Type())

	if tainted {
		f.Properties["tainted"] = true
	}

	f.Properties["tags"] = tags
	ctx.addMetaProperties(f.Properties, tagObject)

	return f
}

// validRing returns true if the ring has at least 4 points and matching endpoints.
func validRing(ring orb.Ring) bool {
	return len(ring) >= 4 && ring.Closed()
}

// multiOuterPolygons joins the outer segments into rings and maps the joined
// inner rings to the outer that contains them.
func (ctx *context) multiOuterPolygons(outer, inner []mputil.Segment) orb.MultiPolygon {
	inc := ctx.includeInvalidPolygons

	mp := make(orb.MultiPolygon, 0, len(outer))
	for _, os := range mputil.Join(outer) {
		ring := os.Ring(orb.CCW)
		if !inc || validRing(ring) {
			mp = append(mp, orb.Polygon{ring})
		}
	}

	if len(mp) == 0 && !inc {
		// no valid outer ways.
		return nil
	}

	for _, is := range mputil.Join(inner) {
		mp = addToMultiPolygon(mp, is.Ring(orb.CW), inc)
	}

	return mp
}

`},
	// the skip taken when the option is unset has an effect of its own
	{Name: "r-g3-invalid-extracted-unset-returns-early", File: "osmgeojson/build_polygon.go", Nth: 0, ExpectRule: "G3", ExpectConstruct: "multiOuterPolygons includeInvalidPolygons",
		Find: `	} else {
		// more than one outer, need to map inner polygons to
		// the outer that contains them.
		outerSections := mputil.Join(outer)

		mp := make(orb.MultiPolygon, 0, len(outer))
		for _, os := range outerSections {
			ring := os.Ring(orb.CCW)
			if !ctx.includeInvalidPolygons && (len(ring) < 4 || !ring.Closed()) {
				// needs at least 4 points and matching endpoints
				continue
			}

			mp = append(mp, orb.Polygon{ring})
		}

		if len(mp) == 0 && !ctx.includeInvalidPolygons {
			// no valid outer ways.
			return nil
		}

		innerSections := mputil.Join(inner)
		for _, is := range innerSections {
			ring := is.Ring(orb.CW)
			mp = addToMultiPolygon(mp, ring, ctx.includeInvalidPolygons)
		}

		if len(mp) == 0 {
			return nil
		}

		geometry = mp
		if len(mp) == 1 {
			geometry = mp[0]
		}
	}

	featureID := tagObject.FeatureID()
	f := geojson.NewFeature(geometry)

	if !ctx.noID {
		f.ID = fmt.Sprintf("%s/%d", featureID.Type(), featureID.Ref())
	}
	f.Properties["id"] = int(featureID.Ref())
	f.Properties["type"] = string(featureID.Type())

	if tainted {
		f.Properties["tainted"] = true
	}

	f.Properties["tags"] = tags
	ctx.addMetaProperties(f.Properties, tagObject)

	return f
}

`,
		Replace: `	} else {
		// more than one outer, need to map inner polygons to
		// the outer that contains them.
		mp := ctx.multiOuterPolygons(outer, inner)
		if len(mp) == 0 {
			return nil
		}

		geometry = mp
		if len(mp) == 1 {
			geometry = mp[0]
		}
	}

	featureID := tagObject.FeatureID()
	f := geojson.NewFeature(geometry)

	if !ctx.noID {
		f.ID = fmt.Sprintf("%s/%d", featureID.Type(), featureID.Ref())
	}
	f.Properties["id"] = int(featureID.Ref())
	f.Properties["type"] = string(featureID.Type())

	if tainted {
		f.Properties["tainted"] = true
	}

	f.Properties["tags"] = tags
	ctx.addMetaProperties(f.Properties, tagObject)

	return f
}

// validRing returns true if the ring has at least 4 points and matching endpoints.
func validRing(ring orb.Ring) bool {
	return len(ring) >= 4 && ring.Closed()
}

// multiOuterPolygons joins the outer segments into rings and maps the joined
// inner rings to the outer that contains them.
func (ctx *context) multiOuterPolygons(outer, inner []mputil.Segment) orb.MultiPolygon {
	inc := ctx.includeInvalidPolygons

	mp := make(orb.MultiPolygon, 0, len(outer))
	for _, os := range mputil.Join(outer) {
		ring := os.Ring(orb.CCW)
		if inc || validRing(ring) {
			mp = append(mp, orb.Polygon{ring})
		}
	}

	if len(mp) == 0 && !inc {
		// no valid outer ways.
		ctx.skippable = nil
		return nil
	}

	for _, is := range mputil.Join(inner) {
		mp = addToMultiPolygon(mp, is.Ring(orb.CW), inc)
	}

	return mp
}

`},
	// predicate helper lets NoID decide ring validity
	{Name: "r-g3-invalid-keepring-mixes-noid", File: "osmgeojson/build_polygon.go", Nth: 0, ExpectRule: "G3", ExpectConstruct: "noID",
		Find: `	} else {
		// more than one outer, need to map inner polygons to
		// the outer that contains them.
		outerSections := mputil.Join(outer)

		mp := make(orb.MultiPolygon, 0, len(outer))
		for _, os := range outerSections {
			ring := os.Ring(orb.CCW)
			if !ctx.includeInvalidPolygons && (len(ring) < 4 || !ring.Closed()) {
				// needs at least 4 points and matching endpoints
				continue
			}

			mp = append(mp, orb.Polygon{ring})
		}

		if len(mp) == 0 && !ctx.includeInvalidPolygons {
			// no valid outer ways.
			return nil
		}

		innerSections := mputil.Join(inner)
		for _, is := range innerSections {
			ring := is.Ring(orb.CW)
			mp = addToMultiPolygon(mp, ring, ctx.includeInvalidPolygons)
		}

		if len(mp) == 0 {
			return nil
		}

		geometry = mp
		if len(mp) == 1 {
			geometry = mp[0]
		}
	}

	featureID := tagObject.FeatureID()
	f := geojson.NewFeature(geometry)

	if !ctx.noID {
		f.ID = fmt.Sprintf("%s/%d", featureID.Type(), featureID.Ref())
	}
	f.Properties["id"] = int(featureID.Ref())
	f.Properties["type"] = string(featureID.Type())

	if tainted {
		f.Properties["tainted"] = true
	}

	f.Properties["tags"] = tags
	ctx.addMetaProperties(f.Properties, tagObject)

	return f
}

`,
		Replace: `	} else {
		// more than one outer, need to map inner polygons to
		// the outer that contains them.
		geometry = ctx.multiOuterGeometry(outer, inner)
		if geometry == nil {
			return nil
		}
	}

	featureID := tagObject.FeatureID()
	f := geojson.NewFeature(geometry)

	if !ctx.noID {
		f.ID = fmt.Sprintf("%s/%d", featureID.Type(), featureID.Ref())
	}
	f.Properties["id"] = int(featureID.Ref())
	f.Properties["type"] = string(featureID.Type())

	if tainted {
		f.Properties["tainted"] = true
	}

	f.Properties["tags"] = tags
	ctx.addMetaProperties(f.Properties, tagObject)

	return f
}

// multiOuterGeometry builds the polygon or multipolygon of a relation with several outer ways.
func (ctx *context) multiOuterGeometry(outer, inner []mputil.Segment) orb.Geometry {
	rings := ctx.outerRings(mputil.Join(outer))
	if len(rings) == 0 && !ctx.includeInvalidPolygons {
		// no valid outer ways.
		return nil
	}

	return ctx.withHoles(rings, mputil.Join(inner))
}

// keepRing: rings need at least 4 points and matching endpoints, unless invalid polygons are wanted.
func (ctx *context) keepRing(ring orb.Ring) bool {
	return ctx.includeInvalidPolygons || ctx.noID || (len(ring) >= 4 && ring.Closed())
}

func (ctx *context) outerRings(sections []mputil.MultiSegment) []orb.Polygon {
	rings := make([]orb.Polygon, 0, len(sections))
	for _, os := range sections {
		if ring := os.Ring(orb.CCW); ctx.keepRing(ring) {
			rings = append(rings, orb.Polygon{ring})
		}
	}

	return rings
}

func (ctx *context) withHoles(rings []orb.Polygon, innerSections []mputil.MultiSegment) orb.Geometry {
	mp := orb.MultiPolygon(rings)
	for _, is := range innerSections {
		mp = addToMultiPolygon(mp, is.Ring(orb.CW), ctx.includeInvalidPolygons)
	}

	switch len(mp) {
	case 0:
		return nil
	case 1:
		return mp[0]
	}

	return mp
}

`},
	// option un-negated in the extracted helper: setting it adds the skip
	{Name: "r-g3-invalid-thin-builder-unnegated", File: "osmgeojson/build_polygon.go", Nth: 0, ExpectRule: "G3", ExpectConstruct: "multiOuterGeometry includeInvalidPolygons",
		Find: `	} else {
		// more than one outer, need to map inner polygons to
		// the outer that contains them.
		outerSections := mputil.Join(outer)

		mp := make(orb.MultiPolygon, 0, len(outer))
		for _, os := range outerSections {
			ring := os.Ring(orb.CCW)
			if !ctx.includeInvalidPolygons && (len(ring) < 4 || !ring.Closed()) {
				// needs at least 4 points and matching endpoints
				continue
			}

			mp = append(mp, orb.Polygon{ring})
		}

		if len(mp) == 0 && !ctx.includeInvalidPolygons {
			// no valid outer ways.
			return nil
		}

		innerSections := mputil.Join(inner)
		for _, is := range innerSections {
			ring := is.Ring(orb.CW)
			mp = addToMultiPolygon(mp, ring, ctx.includeInvalidPolygons)
		}

		if len(mp) == 0 {
			return nil
		}

		geometry = mp
		if len(mp) == 1 {
			geometry = mp[0]
		}
	}

	featureID := tagObject.FeatureID()
	f := geojson.NewFeature(geometry)

	if !ctx.noID {
		f.ID = fmt.Sprintf("%s/%d", featureID.Type(), featureID.Ref())
	}
	f.Properties["id"] = int(featureID.Ref())
	f.Properties["type"] = string(featureID.Type())

	if tainted {
		f.Properties["tainted"] = true
	}

	f.Properties["tags"] = tags
	ctx.addMetaProperties(f.Properties, tagObject)

	return f
}

`,
		Replace: `	} else {
		// more than one outer, need to map inner polygons to
		// the outer that contains them.
		geometry = ctx.multiOuterGeometry(outer, inner)
		if geometry == nil {
			return nil
		}
	}

	featureID := tagObject.FeatureID()
	f := geojson.NewFeature(geometry)

	if !ctx.noID {
		f.ID = fmt.Sprintf("%s/%d", featureID.Type(), featureID.Ref())
	}
	f.Properties["id"] = int(featureID.Ref())
	f.Properties["type"] = string(featureID.Type())

	if tainted {
		f.Properties["tainted"] = true
	}

	f.Properties["tags"] = tags
	ctx.addMetaProperties(f.Properties, tagObject)

	return f
}

// multiOuterGeometry builds the polygon or multipolygon of a relation with several outer ways.
func (ctx *context) multiOuterGeometry(outer, inner []mputil.Segment) orb.Geometry {
	rings := ctx.outerRings(mputil.Join(outer))
	if len(rings) == 0 && ctx.includeInvalidPolygons {
		// no valid outer ways.
		return nil
	}

	return ctx.withHoles(rings, mputil.Join(inner))
}

// keepRing: rings need at least 4 points and matching endpoints, unless invalid polygons are wanted.
func (ctx *context) keepRing(ring orb.Ring) bool {
	return ctx.includeInvalidPolygons || (len(ring) >= 4 && ring.Closed())
}

func (ctx *context) outerRings(sections []mputil.MultiSegment) []orb.Polygon {
	rings := make([]orb.Polygon, 0, len(sections))
	for _, os := range sections {
		if ring := os.Ring(orb.CCW); ctx.keepRing(ring) {
			rings = append(rings, orb.Polygon{ring})
		}
	}

	return rings
}

func (ctx *context) withHoles(rings []orb.Polygon, innerSections []mputil.MultiSegment) orb.Geometry {
	mp := orb.MultiPolygon(rings)
	for _, is := range innerSections {
		mp = addToMultiPolygon(mp, is.Ring(orb.CW), ctx.includeInvalidPolygons)
	}

	switch len(mp) {
	case 0:
		return nil
	case 1:
		return mp[0]
	}

	return mp
}

`},
}
