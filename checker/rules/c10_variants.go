package rules

import "osmcheck/core"

// c10MutantsRound2: defects of the classes the semantic rules were added for (seeded C10-b and relatives).
var c10MutantsRound2 = []core.Mutant{
	// seeded C10-b: ParseElementID builds its id through Type.objectID, which knows all seven kinds
	{Name: "parseelement-through-objectid-lookup", File: "element.go",
		Find:       "\tfid, err := Type(parts[0]).FeatureID(ref)\n\tif err != nil {\n\t\treturn 0, fmt.Errorf(\"invalid element id: %v: %v\", s, err)\n\t}\n\n\treturn fid.ElementID(version), nil",
		Replace:    "\toid, err := Type(parts[0]).objectID(ref, version)\n\tif err != nil {\n\t\treturn 0, fmt.Errorf(\"invalid element id: %v: %v\", s, err)\n\t}\n\n\treturn ElementID(oid), nil",
		ExpectRule: "K5", ExpectConstruct: "unknown-kind@ParseElementID kind=changeset"},
	{Name: "type-featureid-accepts-changeset", File: "feature.go",
		Find:       "\tcase TypeRelation:\n\t\treturn RelationID(ref).FeatureID(), nil\n\t}",
		Replace:    "\tcase TypeRelation:\n\t\treturn RelationID(ref).FeatureID(), nil\n\tcase TypeChangeset:\n\t\treturn FeatureID(ChangesetID(ref).ObjectID()), nil\n\t}",
		ExpectRule: "K3", ExpectConstruct: "lookup@Type.FeatureID kind=changeset"},
	{Name: "parsefeature-accepts-capitalised-kind", File: "feature.go",
		Find:       "\tid, err := Type(parts[0]).FeatureID(n)\n",
		Replace:    "\tif parts[0] == \"Node\" {\n\t\tparts[0] = \"node\"\n\t}\n\tid, err := Type(parts[0]).FeatureID(n)\n",
		ExpectRule: "K5", ExpectConstruct: "ParseFeatureID"},
	{Name: "parseobject-index-before-arity-check", File: "object.go",
		Find:       "\tparts := strings.Split(s, \"/\")\n\tif len(parts) != 2 {\n\t\treturn 0, fmt.Errorf(\"invalid element id: %v\", s)\n\t}\n\n\tparts2 := strings.Split(parts[1], \":\")",
		Replace:    "\tparts := strings.Split(s, \"/\")\n\tparts2 := strings.Split(parts[1], \":\")\n\tif len(parts) != 2 {\n\t\treturn 0, fmt.Errorf(\"invalid element id: %v\", s)\n\t}\n",
		ExpectRule: "K5", ExpectConstruct: "arity@ParseObjectID split on /"},
	{Name: "append-drops-user-case", File: "osm.go",
		Find:       "\tcase TypeUser:\n\t\to.Users = append(o.Users, obj.(*User))\n",
		Replace:    "",
		ExpectRule: "K3", ExpectConstruct: "dispatch@(*OSM).Append kind=user"},
	{Name: "featureids-counts-relation-under-ways", File: "feature.go",
		Find:       "\t\tcase TypeRelation:\n\t\t\trelations++",
		Replace:    "\t\tcase TypeRelation:\n\t\t\tways++",
		ExpectRule: "K3", ExpectConstruct: "counts@FeatureIDs.Counts kind=relation"},
	{Name: "elements-less-compares-refs", File: "element.go",
		Find:       "return es[i].ElementID() < es[j].ElementID()",
		Replace:    "return es[i].ElementID().Ref() < es[j].ElementID().Ref()",
		ExpectRule: "K4", ExpectConstruct: "comparator@Elements.Sort less"},
	{Name: "featureids-len-short", File: "feature.go",
		Find:       "func (ids featureIDsSort) Len() int      { return len(ids) }",
		Replace:    "func (ids featureIDsSort) Len() int      { return len(ids) - 1 }",
		ExpectRule: "K4", ExpectConstruct: "comparator@FeatureIDs.Sort len"},
	{Name: "objectid-string-version-zero-printed-for-one", File: "object.go",
		Find:       "func (id ObjectID) String() string {\n\tif id.Version() == 0 {",
		Replace:    "func (id ObjectID) String() string {\n\tif id.Version() <= 1 {",
		ExpectRule: "K5", ExpectConstruct: "format@ObjectID.String"},
}

// c10Benign: behaviour-preserving rewrites of the anchored code (one file each); every rule must stay silent.
var c10Benign = []core.Mutant{
	// 1 extract helper: the ref[:version] part of ParseElementID moves into an unexported function
	{Name: "extract-refversion-helper", File: "element.go",
		Find:    "\tparts2 := strings.Split(parts[1], \":\")\n\tif l := len(parts2); l != 1 && l != 2 {\n\t\treturn 0, fmt.Errorf(\"invalid element id: %v\", s)\n\t}\n\n\tvar version int\n\tref, err := strconv.ParseInt(parts2[0], 10, 64)\n\tif err != nil {\n\t\treturn 0, fmt.Errorf(\"invalid element id: %v: %v\", s, err)\n\t}\n\n\tif len(parts2) == 2 && parts2[1] != \"-\" {\n\t\tv, e := strconv.ParseInt(parts2[1], 10, 64)\n\t\tif e != nil {\n\t\t\treturn 0, fmt.Errorf(\"invalid element id: %v: %v\", s, err)\n\t\t}\n\t\tversion = int(v)\n\t}\n\n\tfid, err := Type(parts[0]).FeatureID(ref)\n\tif err != nil {\n\t\treturn 0, fmt.Errorf(\"invalid element id: %v: %v\", s, err)\n\t}\n\n\treturn fid.ElementID(version), nil\n}\n",
		Replace: "\tref, version, err := splitNumberAndVersion(s, parts[1])\n\tif err != nil {\n\t\treturn 0, err\n\t}\n\n\tfid, err := Type(parts[0]).FeatureID(ref)\n\tif err != nil {\n\t\treturn 0, fmt.Errorf(\"invalid element id: %v: %v\", s, err)\n\t}\n\n\treturn fid.ElementID(version), nil\n}\n\nfunc splitNumberAndVersion(whole, tail string) (int64, int, error) {\n\tfields := strings.Split(tail, \":\")\n\tif l := len(fields); l != 1 && l != 2 {\n\t\treturn 0, 0, fmt.Errorf(\"invalid element id: %v\", whole)\n\t}\n\n\tnum, err := strconv.ParseInt(fields[0], 10, 64)\n\tif err != nil {\n\t\treturn 0, 0, fmt.Errorf(\"invalid element id: %v: %v\", whole, err)\n\t}\n\n\tif len(fields) == 1 || fields[1] == \"-\" {\n\t\treturn num, 0, nil\n\t}\n\n\tv, e := strconv.ParseInt(fields[1], 10, 64)\n\tif e != nil {\n\t\treturn 0, 0, fmt.Errorf(\"invalid element id: %v: %v\", whole, err)\n\t}\n\treturn num, int(v), nil\n}\n"},
	// 2 inline: ParseObjectID does the kind lookup itself instead of calling the unexported Type.objectID
	{Name: "inline-objectid-lookup", File: "object.go",
		Find:    "\toid, err := Type(parts[0]).objectID(ref, version)\n\tif err != nil {\n\t\treturn 0, fmt.Errorf(\"invalid element id: %v: %v\", s, err)\n\t}\n\n\treturn oid, nil\n",
		Replace: "\tswitch t := Type(parts[0]); t {\n\tcase TypeNode:\n\t\treturn NodeID(ref).ObjectID(version), nil\n\tcase TypeWay:\n\t\treturn WayID(ref).ObjectID(version), nil\n\tcase TypeRelation:\n\t\treturn RelationID(ref).ObjectID(version), nil\n\tcase TypeChangeset:\n\t\treturn ChangesetID(ref).ObjectID(), nil\n\tcase TypeNote:\n\t\treturn NoteID(ref).ObjectID(), nil\n\tcase TypeUser:\n\t\treturn UserID(ref).ObjectID(), nil\n\tcase TypeBounds:\n\t\treturn (*Bounds)(nil).ObjectID(), nil\n\tdefault:\n\t\treturn 0, fmt.Errorf(\"invalid element id: %v: %v\", s, fmt.Errorf(\"unknown type: %v\", t))\n\t}\n"},
	// 3 switch -> if chain with a local for the masked value
	{Name: "featureid-type-if-chain", File: "feature.go",
		Find:    "func (id FeatureID) Type() Type {\n\tswitch id & typeMask {\n\tcase nodeMask:\n\t\treturn TypeNode\n\tcase wayMask:\n\t\treturn TypeWay\n\tcase relationMask:\n\t\treturn TypeRelation\n\t}\n\n\treturn \"\"\n}",
		Replace: "func (id FeatureID) Type() Type {\n\tkind := id & typeMask\n\tif kind == nodeMask {\n\t\treturn TypeNode\n\t} else if kind == wayMask {\n\t\treturn TypeWay\n\t}\n\tif kind != relationMask {\n\t\treturn \"\"\n\t}\n\treturn TypeRelation\n}"},
	// 4 inverted branch + if-with-init + value read once
	{Name: "elementid-string-inverted-ifinit", File: "element.go",
		Find:    "\tif id.Version() == 0 {\n\t\treturn fmt.Sprintf(\"%s/%d:-\", id.Type(), id.Ref())\n\t}\n\n\treturn fmt.Sprintf(\"%s/%d:%d\", id.Type(), id.Ref(), id.Version())",
		Replace: "\tif v := id.Version(); v != 0 {\n\t\treturn fmt.Sprintf(\"%s/%d:%d\", id.Type(), id.Ref(), v)\n\t}\n\n\treturn fmt.Sprintf(\"%s/%d:-\", id.Type(), id.Ref())"},
	// 5 tagless switch and string concatenation instead of Sprintf
	{Name: "objectid-string-tagless-switch-concat", File: "object.go",
		Find:    "\tif id.Version() == 0 {\n\t\treturn fmt.Sprintf(\"%s/%d:-\", id.Type(), id.Ref())\n\t}\n\n\treturn fmt.Sprintf(\"%s/%d:%d\", id.Type(), id.Ref(), id.Version())",
		Replace: "\thead := string(id.Type()) + \"/\" + strconv.FormatInt(id.Ref(), 10) + \":\"\n\tswitch v := id.Version(); {\n\tcase v > 0:\n\t\treturn head + strconv.Itoa(v)\n\tdefault:\n\t\treturn head + \"-\"\n\t}"},
	// 6 split guards: one merged arity test becomes two, the slash guard becomes `<`/`>`
	{Name: "parseobject-split-guards", File: "object.go",
		Find:    "\tif len(parts) != 2 {\n\t\treturn 0, fmt.Errorf(\"invalid element id: %v\", s)\n\t}\n\n\tparts2 := strings.Split(parts[1], \":\")\n\tif l := len(parts2); l == 0 || l > 2 {\n\t\treturn 0, fmt.Errorf(\"invalid element id: %v\", s)\n\t}\n",
		Replace: "\tif len(parts) < 2 || 2 < len(parts) {\n\t\treturn 0, fmt.Errorf(\"invalid element id: %v\", s)\n\t}\n\n\tparts2 := strings.Split(parts[1], \":\")\n\tif len(parts2) == 0 {\n\t\treturn 0, fmt.Errorf(\"invalid element id: %v\", s)\n\t}\n\tif !(len(parts2) <= 2) {\n\t\treturn 0, fmt.Errorf(\"invalid element id: %v\", s)\n\t}\n"},
	// 7 local copies / pointer aliases in the comparators
	{Name: "less-with-locals-and-pointers", File: "element.go",
		Find:    "func (es elementsSort) Less(i, j int) bool {\n\treturn es[i].ElementID() < es[j].ElementID()\n}",
		Replace: "func (es elementsSort) Less(i, j int) bool {\n\ta, b := es[i], es[j]\n\tleft := a.ElementID()\n\tif right := b.ElementID(); left < right {\n\t\treturn true\n\t}\n\treturn false\n}"},
	{Name: "less-pointer-alias-flipped", File: "feature.go",
		Find:    "func (ids featureIDsSort) Less(i, j int) bool {\n\treturn ids[i] < ids[j]\n}",
		Replace: "func (ids featureIDsSort) Less(i, j int) bool {\n\tp, q := &ids[i], &ids[j]\n\treturn *q > *p\n}"},
	// 8 renamed locals and parameter, reordered independent statements
	{Name: "parsefeature-renamed-reordered", File: "feature.go",
		Find:    "func ParseFeatureID(s string) (FeatureID, error) {\n\tparts := strings.Split(s, \"/\")\n\tif len(parts) != 2 {\n\t\treturn 0, fmt.Errorf(\"invalid feature id: %v\", s)\n\t}\n\n\tn, err := strconv.ParseInt(parts[1], 10, 64)\n\tif err != nil {\n\t\treturn 0, fmt.Errorf(\"invalid feature id: %v: %v\", s, err)\n\t}\n\n\tid, err := Type(parts[0]).FeatureID(n)\n\tif err != nil {\n\t\treturn 0, fmt.Errorf(\"invalid feature id: %s: %v\", s, err)\n\t}\n\n\treturn id, nil\n}",
		Replace: "func ParseFeatureID(text string) (FeatureID, error) {\n\tfields := strings.Split(text, \"/\")\n\tif len(fields) != 2 {\n\t\treturn 0, fmt.Errorf(\"invalid feature id: %v\", text)\n\t}\n\n\tkind := Type(fields[0])\n\tnumber, perr := strconv.ParseInt(fields[1], 10, 64)\n\tif perr != nil {\n\t\treturn 0, fmt.Errorf(\"invalid feature id: %v: %v\", text, perr)\n\t}\n\n\tif fid, lerr := kind.FeatureID(number); lerr == nil {\n\t\treturn fid, nil\n\t} else {\n\t\treturn 0, fmt.Errorf(\"invalid feature id: %s: %v\", text, lerr)\n\t}\n}"},
	// 9 named constant / constant expression instead of a literal mask; featureMask spelled out at its use
	{Name: "refmask-from-named-bits", File: "feature.go",
		Find:    "\trefMask     = 0x00FFFFFFFFFF0000\n",
		Replace: "\trefBits     = 40\n\trefMask     = (1<<refBits - 1) << versionBits\n"},
	{Name: "featuremask-spelled-out", File: "element.go",
		Find:    "return FeatureID(id & featureMask)",
		Replace: "return FeatureID(id & (typeMask | refMask))"},
	// 10 sort.Slice instead of the sort.Interface adapter
	{Name: "elementids-sort-slice", File: "element.go",
		Find:    "\tsort.Sort(elementIDsSort(ids))",
		Replace: "\tsort.Slice(ids, func(a, b int) bool { return ids[a] < ids[b] })"},
	// 11 Counts: switch -> if/continue, tag read into a local
	{Name: "counts-if-continue", File: "element.go",
		Find:    "\t\tswitch id & typeMask {\n\t\tcase nodeMask:\n\t\t\tnodes++\n\t\tcase wayMask:\n\t\t\tways++\n\t\tcase relationMask:\n\t\t\trelations++\n\t\t}",
		Replace: "\t\tkind := id & typeMask\n\t\tif kind == nodeMask {\n\t\t\tnodes++\n\t\t\tcontinue\n\t\t}\n\t\tif kind == wayMask {\n\t\t\tways += 1\n\t\t} else if kind == relationMask {\n\t\t\trelations = relations + 1\n\t\t}"},
	// 12 early return -> nesting in the kind lookup, default clause instead of a trailing return
	{Name: "type-featureid-default-clause", File: "feature.go",
		Find:    "\tcase TypeRelation:\n\t\treturn RelationID(ref).FeatureID(), nil\n\t}\n\n\treturn 0, fmt.Errorf(\"unknown type: %v\", t)",
		Replace: "\tcase TypeRelation:\n\t\treturn RelationID(ref).FeatureID(), nil\n\tdefault:\n\t\treturn 0, fmt.Errorf(\"unknown type: %v\", t)\n\t}"},
	// 13 the dispatcher on the decoded kind becomes a type switch (no longer a C10 matter: silent)
	{Name: "append-type-switch", File: "osm.go",
		Find:    "\tswitch obj.ObjectID().Type() {\n\tcase TypeNode:\n\t\to.Nodes = append(o.Nodes, obj.(*Node))\n\tcase TypeWay:\n\t\to.Ways = append(o.Ways, obj.(*Way))\n\tcase TypeRelation:\n\t\to.Relations = append(o.Relations, obj.(*Relation))\n\tcase TypeChangeset:\n\t\to.Changesets = append(o.Changesets, obj.(*Changeset))\n\tcase TypeNote:\n\t\to.Notes = append(o.Notes, obj.(*Note))\n\tcase TypeUser:\n\t\to.Users = append(o.Users, obj.(*User))\n\tcase TypeBounds:\n\t\to.Bounds = obj.(*Bounds)\n\tdefault:",
		Replace: "\tswitch v := obj.(type) {\n\tcase *Node:\n\t\to.Nodes = append(o.Nodes, v)\n\tcase *Way:\n\t\to.Ways = append(o.Ways, v)\n\tcase *Relation:\n\t\to.Relations = append(o.Relations, v)\n\tcase *Changeset:\n\t\to.Changesets = append(o.Changesets, v)\n\tcase *Note:\n\t\to.Notes = append(o.Notes, v)\n\tcase *User:\n\t\to.Users = append(o.Users, v)\n\tcase *Bounds:\n\t\to.Bounds = v\n\tdefault:"},
	// 14 the dispatcher keeps branching on the kind, but through a local and an if for bounds
	{Name: "append-kind-local", File: "osm.go",
		Find:    "\tswitch obj.ObjectID().Type() {\n\tcase TypeNode:",
		Replace: "\tkind := obj.ObjectID().Type()\n\tif kind == TypeBounds {\n\t\to.Bounds = obj.(*Bounds)\n\t\treturn\n\t}\n\tswitch kind {\n\tcase TypeNode:"},
	// 15 constructor through a shared unexported helper (extract), wrapper through a local
	{Name: "node-constructor-through-helper", File: "node.go",
		Find:    "func (id NodeID) FeatureID() FeatureID {\n\treturn FeatureID(nodeMask | (id << versionBits))\n}",
		Replace: "func (id NodeID) FeatureID() FeatureID {\n\treturn FeatureID(withKind(nodeMask, int64(id)))\n}\n\nfunc withKind(kind, ref int64) int64 {\n\tshifted := ref << versionBits\n\treturn shifted | kind\n}"},
	// 16 strings.SplitN / Cut style parsing is not needed today; version guard inverted and nested instead
	{Name: "parseelement-nested-version-guard", File: "element.go",
		Find:    "\tif len(parts2) == 2 && parts2[1] != \"-\" {\n\t\tv, e := strconv.ParseInt(parts2[1], 10, 64)\n\t\tif e != nil {\n\t\t\treturn 0, fmt.Errorf(\"invalid element id: %v: %v\", s, err)\n\t\t}\n\t\tversion = int(v)\n\t}\n",
		Replace: "\tif len(parts2) > 1 {\n\t\tif vs := parts2[len(parts2)-1]; \"-\" != vs {\n\t\t\tv, e := strconv.ParseInt(vs, 10, 64)\n\t\t\tif e != nil {\n\t\t\t\treturn 0, fmt.Errorf(\"invalid element id: %v: %v\", s, err)\n\t\t\t}\n\t\t\tversion = int(v)\n\t\t}\n\t}\n"},
}
